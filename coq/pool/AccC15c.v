(* C15, retention clause, part 3: the accounting invariant [K] through the operations. *)
From HD Require Import common.Base http.Model pool.Model pool.Spec pool.Frames pool.ProofsLite pool.FramesC06 pool.FramesC03 pool.ProofsC03
  pool.LiveC03 pool.LiveC03b pool.FramesC02 pool.AccC15 pool.AccC15b.
Local Open Scope list_scope.

Lemma K_unwake D hx x r F m0 s : KD D hx x F m0 s -> KD D hx x F m0 (unwake_req r s).
Proof. apply K_frame; reflexivity. Qed.

Lemma K_nil D hx x F m0 s : KD D hx x (F ++ []) m0 s -> KD D hx x F m0 s.
Proof. rewrite app_nil_r. auto. Qed.

Lemma K_do_poll_error cfg r m0 s : get_req s r = Some RError -> K None [] m0 s -> K None [] m0 (do_poll cfg r s).
Proof.
  intros Hr H. unfold do_poll. rewrite Hr.
  pose proof (K_open [] None r _ [] m0 s H Hr) as H1. cbn [reqA reqH app] in H1.
  apply (K_close None r RDone [] m0); cbn [reqA reqH app].
  - apply K_set_req_x. apply K_emit; [exact Logic.I|intros r' E; inversion E; subst; split; [reflexivity|discriminate]|]. apply K_unwake. exact H1.
  - rewrite get_req_set. destruct (Nat.eq_dec r r); [|congruence]. change (get_req (emit _ (unwake_req r s)) r) with (get_req s r). rewrite Hr. reflexivity.
  - intros c t f p E. discriminate.
  - intros ck t b E. discriminate.
  - exact Logic.I.
Qed.

Lemma K_do_poll_holding cfg r p fin pl m0 s :
  get_req s r = Some (RHolding p fin pl) -> K None [] m0 s -> K None [] m0 (do_poll cfg r s).
Proof.
  intros Hr H. unfold do_poll. rewrite Hr. destruct p as [c t].
  assert (Hp : ptok_ok (ntok s) (c, t)) by (apply (proj1 (kt _ _ _ _ _ _ H) r _ Hr); discriminate).
  pose proof (K_open_hold [] r c t fin pl [] m0 s H Hr) as H1.
  assert (Hg : forall v st, get_req st r = get_req s r -> get_req (set_req r v st) r = Some v).
  { intros v st E. rewrite get_req_set. destruct (Nat.eq_dec r r); [|congruence]. rewrite E, Hr. reflexivity. }
  destruct fin.
  - apply (K_close None r RDone [] m0); cbn [reqA reqH app].
    + apply K_emit; [exact Logic.I|intros r' E; inversion E; subst; split; [reflexivity|discriminate]|].
      apply K_hold_release; [exact Hp|]. apply K_set_req_x. apply K_unwake. apply K_hx_drop in H1. exact H1.
    + change (get_req (hold_release r (c, t) (set_req r RDone (unwake_req r s))) r = Some RDone).
      unfold hold_release, get_req. rewrite reqs_pooled_drop. change (get_req (set_req r RDone (unwake_req r s)) r = Some RDone). apply Hg. reflexivity.
    + intros c' t' f p E. discriminate.
    + intros ck t' b E. discriminate.
    + exact Logic.I.
  - eapply K_hx_drop. apply (K_close (Some (r, c)) r (RHolding (c, t) false true) [] m0); cbn [reqA reqH app fst].
    + apply K_emit; [exact Logic.I|intros r' E; discriminate|]. apply K_set_req_x. apply K_unwake. exact H1.
    + change (get_req (set_req r (RHolding (c, t) false true) (unwake_req r s)) r = Some (RHolding (c, t) false true)). apply Hg. reflexivity.
    + intros c' t' f p E. inversion E; subst.
      match goal with |- exists ri, nth_error (m_reqs (tm m0 ?st)) r = _ /\ _ => assert (HK : KD [] (Some (r, c')) (Some r) [c'] m0 st) end.
      { apply K_emit; [exact Logic.I|intros r' E'; discriminate|]. apply K_set_req_x. apply K_unwake. exact H1. }
      apply (kx _ _ _ _ _ _ HK r c' eq_refl).
    + intros ck t' b E. discriminate.
    + exact Hp.
Qed.

Lemma K_do_poll_ck cfg r ck m0 s :
  get_req s r = Some (RCheckout ck) -> K None [] m0 s -> K None [] m0 (do_poll cfg r s).
Proof.
  intros Hr H. unfold do_poll. rewrite Hr.
  assert (Hk : ck_tok_ok (ntok s) ck) by (apply (proj1 (kt _ _ _ _ _ _ H) r _ Hr); discriminate).
  assert (Hwl : forall t b, In (r, b) (waitingl s t) -> k_token ck = t /\ k_slot ck = None).
  { intros t b Hin. destruct (proj2 (kw _ _ _ _ _ _ H t) r b Hin) as [_ C2]. destruct (C2 ck ltac:(discriminate) Hr) as [E1 E2]. split; [exact E1|apply E2; intros []]. }
  pose proof (K_open [] None r _ [] m0 s H Hr) as H1. cbn [reqA reqH app] in H1.
  apply K_unwake with (r := r) in H1.
  pose proof (K_checkout_poll None cfg r ck [] m0 (unwake_req r s) H1 Hk) as HP.
  pose proof (checkout_poll_pending_slot cfg r ck (unwake_req r s) (ntok s) Hk) as HS.
  pose proof (Tr_checkout_poll cfg r ck (unwake_req r s)) as HT.
  destruct (checkout_poll cfg r ck (unwake_req r s)) as [[res ck1] s2]. unfold cp_post in HP. cbn [fst snd] in *.
  destruct HP as (H2 & Hk1 & Hp & Hn2). change (ntok (unwake_req r s)) with (ntok s) in Hn2.
  destruct (Fr_get_some _ _ _ _ _ r _ (proj1 HT) Hr) as [rq2 Hq2].
  assert (Hg : forall v, get_req (set_req r v s2) r = Some v) by (intros v; rewrite get_req_set; destruct (Nat.eq_dec r r); [rewrite Hq2; reflexivity|congruence]).
  destruct res as [|[p|e]]; cbn [kres app] in H2.
  - (* pending *)
    destruct (HS eq_refl) as (S1 & S2 & S3).
    apply (K_close None r (RCheckout ck1) [] m0); cbn [reqA reqH app].
    + apply K_emit; [exact Logic.I|intros r' E; discriminate|]. apply K_set_req_x. exact H2.
    + apply Hg.
    + intros c t f p E. discriminate.
    + intros ck' t b E Hin. inversion E; subst ck'. rewrite S2. split; [|exact S1].
      apply (Hwl t b). match type of Hin with In _ (waitingl ?st t) => rewrite (waitingl_toks s st t S3) in Hin end. exact Hin.
    + exact Hk1.
  - (* handed a connection *)
    destruct p as [c t].
    destruct (match get_conn s2 (fst (c, t)) with Some cn => (c_share cn, c_open cn, c_ready cn, c_holders cn) | None => (false, false, false, 0) end)
      as [[[sh op_] rd] hs]. cbn [fst snd] in *.
    set (s3 := emit (EHand r c (t =? 0) op_ rd hs) s2).
    assert (H3 : KD [] (Some (r, c)) (Some r) (c :: ck_conns ck1 ++ []) m0 s3) by (apply K_emit_hand; [congruence|exact H2]).
    set (s4 := upd_conn c (fun cn => c_set_holders (S (c_holders cn)) (if sh then cn else c_set_ready false cn)) s3).
    assert (H4 : KD [] (Some (r, c)) (Some r) (c :: ck_conns ck1 ++ []) m0 s4) by (apply K_upd_conn; [intros cn; destruct sh; reflexivity|exact H3]).
    set (s5 := set_req r (RHolding (c, t) false true) s4).
    assert (H5 : KD [] (Some (r, c)) (Some r) (ck_conns ck1 ++ [c]) m0 s5).
    { apply K_set_req_x. eapply K_meq; [|exact H4]. intros c'. rewrite !cnt_app, !cnt_cons, !cnt_app, !cnt_nil. lia. }
    assert (Hq5 : get_req s5 r = Some (RHolding (c, t) false true)) by apply Hg.
    assert (H6 : KD [] (Some (r, c)) (Some r) [c] m0 (checkout_drop cfg r ck1 s5)).
    { apply K_checkout_drop; [exact H5|exact Hk1|]. unfold rx_live. rewrite Hq5. reflexivity. }
    assert (Hq6 : get_req (checkout_drop cfg r ck1 s5) r = Some (RHolding (c, t) false true)) by (apply (nock_checkout_drop cfg r ck1 s5 r _ Hq5); reflexivity).
    assert (Hn6 : ntok (checkout_drop cfg r ck1 s5) = ntok s) by (rewrite (ntok_Tr _ _ _ _ _ (Tr_checkout_drop cfg r ck1 s5)); exact Hn2).
    assert (H7 : KD [] (Some (r, c)) (Some r) [c] m0 (emit (EPend r) (checkout_drop cfg r ck1 s5))).
    { apply K_emit; [exact Logic.I|intros r' E; discriminate|exact H6]. }
    eapply K_hx_drop. apply (K_close (Some (r, c)) r (RHolding (c, t) false true) [] m0); cbn [reqA reqH app fst].
    + exact H7.
    + exact Hq6.
    + intros c' t' f p E. inversion E; subst. apply (kx _ _ _ _ _ _ H7 r c' eq_refl).
    + intros ck' t' b E. discriminate.
    + change (ptok_ok (ntok (checkout_drop cfg r ck1 s5)) (c, t)). rewrite Hn6, <- Hn2. apply Hp. reflexivity.
  - (* an error *)
    assert (Hq3 : get_req (set_req r RDone s2) r = Some RDone) by apply Hg.
    apply (K_close None r RDone [] m0); cbn [reqA reqH app].
    + apply K_emit; [exact Logic.I|intros r' E; inversion E; subst; split; [reflexivity|discriminate]|].
      apply K_checkout_drop; [apply K_set_req_x; exact H2|exact Hk1|]. unfold rx_live. rewrite Hq3. reflexivity.
    + change (get_req (checkout_drop cfg r ck1 (set_req r RDone s2)) r = Some RDone). apply (nock_checkout_drop cfg r ck1 _ r _ Hq3). reflexivity.
    + intros c t f p E. discriminate.
    + intros ck' t b E. discriminate.
    + exact Logic.I.
Qed.

Lemma K_do_poll cfg r m0 s : K None [] m0 s -> K None [] m0 (do_poll cfg r s).
Proof.
  intros H. destruct (get_req s r) as [[|ck|p fin pl| |]|] eqn:Hr.
  - apply K_do_poll_error; assumption.
  - eapply K_do_poll_ck; eassumption.
  - eapply K_do_poll_holding; eassumption.
  - unfold do_poll. rewrite Hr. exact H.
  - unfold do_poll. rewrite Hr. exact H.
  - unfold do_poll. rewrite Hr. exact H.
Qed.

(* ---------------------------------------------------------------- Cancel (the request is out of the books from the start) *)
Lemma K_do_cancel cfg r q m0 s :
  get_req s r = Some q -> req_tok_ok (ntok s) q -> KD [] None (Some r) (reqA q ++ reqH q ++ []) m0 s -> K None [] m0 (do_cancel cfg r s).
Proof.
  intros Hr Hk H. unfold do_cancel. rewrite Hr.
  assert (Hg : forall v, get_req (set_req r v s) r = Some v) by (intros v; rewrite get_req_set; destruct (Nat.eq_dec r r); [rewrite Hr; reflexivity|congruence]).
  assert (Hfin : forall st v, is_lv v = false -> (forall c t f p, v <> RHolding (c, t) f p) -> get_req st r = Some v -> KD [] None (Some r) [] m0 st -> K None [] m0 (unwake_req r st)).
  { intros st v Hv Hnh Hq HK. apply (K_close None r v [] m0).
    - apply K_unwake. destruct v; try discriminate; try exact HK. destruct p as [c t]. destruct (Hnh c t fin polled eq_refl).
    - exact Hq.
    - intros c t f p E. destruct (Hnh c t f p E).
    - intros ck t b E. subst v. discriminate.
    - destruct v; try discriminate; try exact Logic.I. destruct p as [c t]. destruct (Hnh c t fin polled eq_refl). }
  destruct q as [|ck|p fin pl| |]; cbn [reqA reqH app] in H.
  - apply (Hfin _ RCancelled); [reflexivity|intros; discriminate|apply Hg|]. apply K_set_req_x. exact H.
  - assert (Hq1 : get_req (set_req r RCancelled s) r = Some RCancelled) by apply Hg.
    apply (Hfin _ RCancelled); [reflexivity|intros; discriminate| |].
    + apply (nock_checkout_drop cfg r ck _ r _ Hq1). reflexivity.
    + apply K_checkout_drop; [apply K_set_req_x; exact H|exact Hk|]. unfold rx_live. rewrite Hq1. reflexivity.
  - assert (Hq1 : get_req (set_req r RCancelled s) r = Some RCancelled) by apply Hg.
    apply (Hfin _ RCancelled); [reflexivity|intros; discriminate| |].
    + unfold hold_release, get_req. rewrite reqs_pooled_drop. exact Hq1.
    + apply K_hold_release; [exact Hk|]. apply K_set_req_x. exact H.
  - apply (Hfin _ RDone); [reflexivity|intros; discriminate|exact Hr|exact H].
  - apply (Hfin _ RCancelled); [reflexivity|intros; discriminate|exact Hr|exact H].
Qed.

(* ---------------------------------------------------------------- Finish, Upgrade, ConnReady, ConnClose, DialDone *)
Lemma K_wake_task D hx x t F m0 s : KD D hx x F m0 s -> KD D hx x F m0 (wake_task t s).
Proof. unfold wake_task. destruct (existsb (Nat.eqb t) (runq s)); [auto|]. apply K_frame; reflexivity. Qed.
Lemma K_wake_tasks D hx x F m0 l : forall s, KD D hx x F m0 s -> KD D hx x F m0 (wake_tasks l s).
Proof. induction l as [|t l IH]; intros s H; cbn [wake_tasks]; [exact H|]. apply IH. apply K_wake_task. exact H. Qed.
Lemma K_drain_conn_waiters D hx x c F m0 s : KD D hx x F m0 s -> KD D hx x F m0 (drain_conn_waiters c s).
Proof.
  intros H. unfold drain_conn_waiters. destruct (get_conn s c); [|exact H]. apply K_wake_tasks. apply K_upd_conn; [intros cn; reflexivity|exact H].
Qed.

Lemma K_do_finish r m0 s : K None [] m0 s -> K None [] m0 (do_finish r s).
Proof.
  intros H. unfold do_finish. destruct (get_req s r) as [[|ck|p fin pl| |]|] eqn:Hr; try exact H.
  assert (H1 : K None [] m0 (set_req r (RHolding p true false) s)).
  { apply (K_set_req [] None None [] [] m0 r (RHolding p fin pl)); auto; try discriminate.
    - intros c t f p0 E. inversion E; subst. apply (kh _ _ _ _ _ _ H r c t fin pl Hr). discriminate.
    - apply (proj1 (kt _ _ _ _ _ _ H) r _ Hr). discriminate. }
  destruct pl; [apply K_wake_req|]; exact H1.
Qed.

Lemma K_do_upgrade r m0 s : K None [] m0 s -> K None [] m0 (do_upgrade r s).
Proof.
  intros H. unfold do_upgrade. destruct (get_req s r) as [[|ck|p fin pl| |]|]; try exact H.
  apply K_drain_conn_waiters. apply K_upd_conn; [intros cn; reflexivity|exact H].
Qed.
Lemma K_do_conn_ready c m0 s : K None [] m0 s -> K None [] m0 (do_conn_ready c s).
Proof. intros H. unfold do_conn_ready. destruct (get_conn s c); [|exact H]. apply K_drain_conn_waiters. apply K_upd_conn; [intros cn; reflexivity|exact H]. Qed.
Lemma K_do_conn_close c m0 s : K None [] m0 s -> K None [] m0 (do_conn_close c s).
Proof. intros H. unfold do_conn_close. destruct (get_conn s c); [|exact H]. apply K_drain_conn_waiters. apply K_upd_conn; [intros cn; reflexivity|exact H]. Qed.
Lemma K_do_dial_done r y m0 s : K None [] m0 s -> K None [] m0 (do_dial_done r y s).
Proof.
  intros H. unfold do_dial_done. destruct (get_dial s r) as [d|]; [|exact H]. destruct (d_stage d); try exact H.
  destruct (d_polled d) as [[|tid]|]; cbn [wake_poller]; [apply K_wake_req|apply K_wake_task|]; apply K_upd_dial; exact H.
Qed.

(* ---------------------------------------------------------------- background tasks *)
Lemma K_handback cfg tid c t b m0 s :
  K None [] m0 s -> nth tid (tasks s) None = Some (TWhenReady c t) ->
  K None [] m0 (let s0 := finish_task tid (emit (ERdy c b) s) in
                if is_open s0 c && negb (t =? 0) && g_pool cfg then pool_push (g_max_idle cfg) t c s0 else drop_conn c s0).
Proof.
  intros H Ht. cbv zeta.
  pose proof (proj2 (kt _ _ _ _ _ _ H) tid) as Htk. rewrite Ht in Htk. cbn [task_tok_ok] in Htk.
  assert (H0 : K None [c] m0 (finish_task tid (emit (ERdy c b) s))).
  { pose proof (K_finish_task [] None None [] m0 tid (emit (ERdy c b) s)) as Hf.
    change (nth tid (tasks (emit (ERdy c b) s)) None) with (nth tid (tasks s) None) in Hf. rewrite Ht in Hf. cbn [taskT app] in Hf. apply Hf.
    apply K_emit; [exact Logic.I|intros r' E; discriminate|exact H]. }
  destruct (is_open (finish_task tid (emit (ERdy c b) s)) c && negb (t =? 0) && g_pool cfg) eqn:Hg; [|apply K_drop_conn; exact H0].
  apply andb_true_iff in Hg. destruct Hg as [Hg _]. apply andb_true_iff in Hg. destruct Hg as [_ Hz].
  destruct t as [|i]; [discriminate|]. apply K_pool_push; [exact H0| |intros r E; discriminate].
  change (ntok (finish_task tid (emit (ERdy c b) s))) with (ntok s). lia.
Qed.

Lemma K_run_task cfg tid m0 s : K None [] m0 s -> K None [] m0 (run_task cfg tid s).
Proof.
  intros H. unfold run_task. pose proof (proj2 (kt _ _ _ _ _ _ H) tid) as Htk.
  destruct (nth tid (tasks s) None) as [[c t|rid t own]|] eqn:Ht; [| |exact H]; cbn [task_tok_ok] in Htk.
  - (* hand-back *)
    pose proof (K_finish_task [] None None [] m0 tid s H) as Hf. rewrite Ht in Hf. cbn [taskT app] in Hf.
    destruct (K_in_flight _ _ _ _ _ _ _ Hf) as [cn0 [Hc0 _]]. change (get_conn (finish_task tid s) c) with (get_conn s c) in Hc0. rewrite Hc0.
    destruct (negb (c_open cn0)); [apply (K_handback cfg tid c t false m0 s H Ht)|].
    destruct (c_share cn0 || c_ready cn0); [apply (K_handback cfg tid c t true m0 s H Ht)|].
    apply K_upd_conn; [intros cn; reflexivity|exact H].
  - (* delayed connector *)
    destruct (K_connector_poll [] None None rid (ByTask tid) [] m0 s H) as (H1 & Ht1 & Hq1).
    assert (Hn1 : ntok (snd (connector_poll rid (ByTask tid) s)) = ntok s) by (unfold ntok; rewrite Ht1; reflexivity).
    assert (Htk1 : nth tid (tasks (snd (connector_poll rid (ByTask tid) s))) None = Some (TDelayed rid t own)).
    { rewrite <- Ht. f_equal. unfold connector_poll. dm; reflexivity. }
    destruct (connector_poll rid (ByTask tid) s) as [r s1]. cbn [fst snd] in *.
    assert (Hcan : forall F st, K None F m0 st -> K None F m0 (if g_pool cfg && negb (t =? 0) && own then pool_cancel t rid st else st))
      by (intros F st HK; destruct (g_pool cfg && negb (t =? 0) && own); [apply K_pool_cancel|]; exact HK).
    assert (Hfin : forall F st, nth tid (tasks st) None = Some (TDelayed rid t own) -> K None F m0 st -> K None F m0 (finish_task tid st)).
    { intros F st E HK. pose proof (K_finish_task [] None None F m0 tid st HK) as Hf. rewrite E in Hf. exact Hf. }
    destruct r as [|[c|e]]; cbn [cres app] in H1.
    + exact H1.
    + destruct (K_register None None cfg t c [] m0 s1 H1) as (H2 & Hfst & Hsnd); [intros _ _; lia|intros r E; discriminate|].
      pose proof (Tr_register cfg t c s1) as T2.
      destruct (register cfg t c s1) as [p s2]. cbn [fst snd] in *.
      assert (Hn2 : ntok s2 = ntok s) by (rewrite (ntok_Tr _ _ _ _ _ T2); exact Hn1).
      assert (Htk2 : nth tid (tasks s2) None = Some (TDelayed rid t own)).
      { destruct (f_keep _ _ _ _ _ (proj1 T2) _ _ _ _ Htk1) as [E|E]; [exact E|discriminate]. }
      set (s3 := if g_pool cfg && negb (t =? 0) && own then pool_cancel t rid s2 else s2).
      assert (T3 : Tr None None None s2 s3) by (subst s3; destruct (g_pool cfg && negb (t =? 0) && own); [apply Tr_pool_cancel|apply Tr_refl]).
      assert (Htk3 : nth tid (tasks s3) None = Some (TDelayed rid t own)).
      { destruct (f_keep _ _ _ _ _ (proj1 T3) _ _ _ _ Htk2) as [E|E]; [exact E|discriminate]. }
      apply K_pooled_drop.
      * unfold ptok_ok. change (ntok (finish_task tid s3)) with (ntok s3). rewrite (ntok_Tr _ _ _ _ _ T3), Hn2. destruct Hsnd as [->| ->]; lia.
      * rewrite Hfst. apply Hfin; [exact Htk3|]. apply Hcan. exact H2.
    + apply Hfin; [|apply Hcan; exact H1].
      set (s3 := if g_pool cfg && negb (t =? 0) && own then pool_cancel t rid s1 else s1).
      assert (T3 : Tr None None None s1 s3) by (subst s3; destruct (g_pool cfg && negb (t =? 0) && own); [apply Tr_pool_cancel|apply Tr_refl]).
      destruct (f_keep _ _ _ _ _ (proj1 T3) _ _ _ _ Htk1) as [E|E]; [exact E|discriminate].
Qed.

Lemma K_bg_loop cfg m0 fuel : forall s, K None [] m0 s -> K None [] m0 (bg_loop cfg fuel s).
Proof.
  induction fuel as [|f IH]; intros s H; cbn [bg_loop]; [exact H|].
  destruct (runq s) as [|tid rest]; [exact H|]. apply IH. apply K_run_task. revert H. apply K_frame; reflexivity.
Qed.

(* ---------------------------------------------------------------- Issue *)
Lemma get_req_add rq d st r : get_req (add_req rq d st) r = if Nat.eq_dec r (List.length (reqs st)) then Some rq else get_req st r.
Proof.
  unfold get_req, add_req. cbn [reqs set_dials set_reqs]. destruct (Nat.eq_dec r (List.length (reqs st))) as [->|Hne].
  - apply nth_error_app_last.
  - destruct (Nat.lt_ge_cases r (List.length (reqs st))) as [Hl|Hl]; [apply nth_error_app1; exact Hl|].
    rewrite (proj2 (nth_error_None _ _)) by (rewrite app_length; cbn; lia). symmetry. apply nth_error_None. exact Hl.
Qed.

Lemma K_add_req rq d F m0 s :
  K None (reqA rq ++ F) m0 s -> reqH rq = [] -> req_tok_ok (ntok s) rq ->
  (forall ck t b, rq = RCheckout ck -> In (List.length (reqs s), b) (waitingl s t) -> k_token ck = t /\ k_slot ck = None) ->
  (forall t, NoDup (map fst (waitingl s t)) /\ forall w b, In (w, b) (waitingl s t) -> w <= List.length (reqs s)) ->
  List.length (reqs s) < List.length (m_reqs (tm m0 s)) ->
  K None F m0 (add_req rq d s).
Proof.
  intros [A1 A2 A3 A4 A5 A6 A7 A8] HH Htk Hw Hrange Hm. constructor; auto.
  - intros c. pose proof (A1 c) as E. unfold Hs, LA, LH, reqs_x in *. cbn [add_req toks reqs tasks set_dials set_reqs].
    change (LT (add_req rq d s)) with (LT s). change (refs (add_req rq d s) c) with (refs s c).
    rewrite !flat_map_app, !cnt_app in *. cbn [flat_map]. rewrite HH, !app_nil_r, cnt_nil. lia.
  - intros r c t f p Hr _. rewrite get_req_add in Hr. destruct (Nat.eq_dec r (List.length (reqs s))) as [->|Hne]; [|eapply A4; eauto; discriminate].
    inversion Hr; subst rq. cbn in HH. discriminate.
  - intros t. destruct (A5 t) as [B1 B2]. change (waitingl (add_req rq d s) t) with (waitingl s t). split; [exact B1|].
    intros w b Hin. split; [change (reqs (add_req rq d s)) with (reqs s ++ [rq]); rewrite app_length; pose proof (proj2 (Hrange t) w b Hin) as Hle; cbn [List.length]; lia|].
    intros ck _ Hr. rewrite get_req_add in Hr. destruct (Nat.eq_dec w (List.length (reqs s))) as [->|Hne].
    + inversion Hr; subst rq. destruct (Hw ck t b eq_refl Hin) as [E1 E2]. auto.
    + destruct (Nat.lt_ge_cases w (List.length (reqs s))) as [Hl|Hl].
      * destruct (B2 w b Hin) as [_ C2]. apply C2; [discriminate|exact Hr].
      * unfold get_req in Hr. rewrite (proj2 (nth_error_None _ _) Hl) in Hr. discriminate.
  - destruct A6 as [B1 B2]. split; [|exact B2]. intros r q Hr _. rewrite get_req_add in Hr.
    destruct (Nat.eq_dec r (List.length (reqs s))); [inversion Hr; subst q; exact Htk|eapply B1; eauto; discriminate].
  - change (reqs (add_req rq d s)) with (reqs s ++ [rq]). rewrite app_length. cbn [List.length]. change (tm m0 (add_req rq d s)) with (tm m0 s). lia.
Qed.

Lemma K_range hx x F m0 s : KD [] hx x F m0 s ->
  forall t, NoDup (map fst (waitingl s t)) /\ forall w b, In (w, b) (waitingl s t) -> w < List.length (reqs s).
Proof. intros H t. destruct (kw _ _ _ _ _ _ H t) as [B1 B2]. split; [exact B1|]. intros w b Hin. apply (B2 w b Hin). Qed.

Lemma add_req_upd_tok rq d t g s : add_req rq d (upd_tok t g s) = upd_tok t g (add_req rq d s).
Proof. destruct t; reflexivity. Qed.

Lemma NoDup_app_single {A} (l : list A) a : NoDup l -> ~ In a l -> NoDup (l ++ [a]).
Proof.
  induction l as [|b l IH]; cbn; intros H Hn; [constructor; [intros []|constructor]|].
  inversion H; subst. constructor.
  - intros Hin. apply in_app_or in Hin. destruct Hin as [Hin|[E|[]]]; [contradiction|]. apply Hn. left. symmetry. exact E.
  - apply IH; [assumption|]. intros Hin. apply Hn. right. exact Hin.
Qed.

(* append the new request to the waiting queue of its token (possibly setting the mark) *)
Lemma K_tok_waiting_app F m0 i g b ck s :
  K None F m0 s -> i < ntok s ->
  (forall p, p_idle (g p) = p_idle p /\ p_waiting (g p) = p_waiting p ++ [(List.length (reqs s) - 1, b)]) ->
  get_req s (List.length (reqs s) - 1) = Some (RCheckout ck) -> k_token ck = S i -> k_slot ck = None ->
  (forall t w b', In (w, b') (waitingl s t) -> w < List.length (reqs s) - 1) ->
  K None F m0 (upd_tok (S i) g s).
Proof.
  intros H Hi Hg Hr Ht Hs Hfresh.
  apply (K_upd_tok [] None None F F m0 i g s Hi); [| |exact H].
  - intros c. unfold tokA. rewrite (proj1 (Hg _)). reflexivity.
  - rewrite (proj2 (Hg _)). destruct (kw _ _ _ _ _ _ H (S i)) as [B1 B2]. fold (waitingl s (S i)). split.
    + rewrite map_app. cbn [map fst]. apply NoDup_app_single; [exact B1|].
      intros Hin. apply in_map_iff in Hin. destruct Hin as [[w b'] [E Hin]]. cbn in E. subst w.
      pose proof (Hfresh _ _ _ Hin). lia.
    + intros w b' Hin. apply in_app_or in Hin. destruct Hin as [Hin|[E|[]]]; [apply (B2 w b' Hin)|]. inversion E; subst w b'.
      split; [apply get_req_lt in Hr; exact Hr|]. intros ck' _ Hr'. rewrite Hr in Hr'. inversion Hr'; subst ck'. auto.
Qed.

Lemma fold_track_ev_reqs_len es : forall m, List.length (m_reqs (fold_left track_ev es m)) = List.length (m_reqs m).
Proof. induction es as [|e es IH]; intros m; cbn [fold_left]; [reflexivity|]. rewrite IH. apply track_ev_reqs_len. Qed.
Lemma tm_reqs_len m0 s : List.length (m_reqs (tm m0 s)) = List.length (m_reqs m0).
Proof. unfold tm. apply fold_track_ev_reqs_len. Qed.

Lemma K_do_issue cfg u p m0 s :
  K None [] m0 s -> TL s -> List.length (reqs s) < List.length (m_reqs m0) -> K None [] m0 (do_issue cfg u p s).
Proof.
  intros H HTL Hm. unfold do_issue. cbv zeta.
  set (s0 := set_woken (woken s ++ [false]) s).
  assert (H0 : K None [] m0 s0) by (revert H; apply K_frame; reflexivity).
  change (List.length (reqs s)) with (List.length (reqs s0)).
  assert (Hadd : forall st rq d, K None (reqA rq ++ []) m0 st -> List.length (reqs st) = List.length (reqs s) ->
            reqH rq = [] -> req_tok_ok (ntok st) rq -> K None [] m0 (add_req rq d st)).
  { intros st rq d HK Hl HH Htk. apply K_add_req; auto.
    - intros ck t b _ Hin. pose proof (proj2 (K_range _ _ _ _ _ HK t) _ _ Hin). lia.
    - intros t. destruct (K_range _ _ _ _ _ HK t) as [B1 B2]. split; [exact B1|]. intros w b Hin. specialize (B2 w b Hin). lia.
    - rewrite tm_reqs_len, Hl. exact Hm. }
  destruct (nth u (g_uris cfg) None) as [k|].
  2: { apply (Hadd s0); auto. exact Logic.I. }
  destruct (negb (g_pool cfg)).
  { apply (Hadd s0); auto. cbn. split; [lia|]. intros p0 E. discriminate. }
  destruct (key_insert_view k s0) as (R1 & _ & _ & _ & _ & TL1). cbv zeta in *. destruct (TL1 HTL) as [_ Ht1]. clear TL1.
  pose proof (K_key_insert [] None None k [] m0 s0 H0) as H1.
  destruct (key_insert k s0) as [t s1]. cbn [fst snd] in *.
  pose proof (K_pool_pop None None (g_timeout cfg) t [] m0 s1 H1) as H2.
  pose proof (Tr_pool_pop (g_timeout cfg) t s1) as T2. pose proof (rd_pool_pop (g_timeout cfg) t s1) as [R2 _].
  destruct (pool_pop (g_timeout cfg) t s1) as [found s2]. cbn [fst snd] in *.
  assert (Hn2 : ntok s2 = List.length (toks s1)) by (apply (ntok_Tr _ _ _ _ _ T2)).
  assert (Hl2 : List.length (reqs s2) = List.length (reqs s)) by (rewrite R2, R1; reflexivity).
  change (List.length (reqs s0)) with (List.length (reqs s)). rewrite <- Hl2.
  destruct found as [c|]; cbn [oconn app] in H2.
  - apply (Hadd s2); auto. cbn. split; [lia|]. intros p0 E. discriminate.
  - destruct t as [|i]; [lia|].
    set (pending := match p_marker (get_tok s2 (S i)) with Some _ => true | None => false end).
    set (rid := List.length (reqs s2)).
    assert (Hgen : forall g ck d, (forall q, p_idle (g q) = p_idle q /\ p_waiting (g q) = p_waiting q ++ [(rid, pending)]) ->
              k_token ck = S i -> k_slot ck = None -> k_conn ck = None ->
              K None [] m0 (add_req (RCheckout ck) d (upd_tok (S i) g s2))).
    { intros g ck d Hg Etk Esl Ecn. rewrite add_req_upd_tok.
      assert (HA : K None [] m0 (add_req (RCheckout ck) d s2)).
      { apply (Hadd s2); auto.
        - unfold reqA, ck_conns. rewrite Esl, Ecn. exact H2.
        - cbn. rewrite Etk, Esl. split; [lia|]. intros p0 E. discriminate. }
      assert (Hlen : List.length (reqs (add_req (RCheckout ck) d s2)) - 1 = rid) by (unfold add_req; cbn; rewrite app_length; cbn; unfold rid; lia).
      apply (K_tok_waiting_app [] m0 i g pending ck); auto.
      - change (ntok (add_req (RCheckout ck) d s2)) with (ntok s2). lia.
      - rewrite Hlen. exact Hg.
      - rewrite Hlen. rewrite get_req_add. unfold rid. destruct (Nat.eq_dec (List.length (reqs s2)) (List.length (reqs s2))); [reflexivity|congruence].
      - intros t w b' Hin. rewrite Hlen. apply (proj2 (K_range _ _ _ _ _ H2 t) w b' Hin). }
    destruct pending eqn:Hp.
    + apply Hgen; try reflexivity; intros q; split; reflexivity.
    + destruct p.
      * apply Hgen; try reflexivity; intros q; split; reflexivity.
      * cbn [negb]. rewrite upd_tok_twice. apply Hgen; try reflexivity; intros q; split; reflexivity.
Qed.
