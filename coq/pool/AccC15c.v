(* C15, retention clause, part 3: the accounting invariant [K] through the operations. *)
From HD Require Import common.Base http.Model pool.Model pool.Spec pool.Frames pool.ProofsLite pool.FramesC06 pool.FramesC03 pool.ProofsC03
  pool.LiveC03 pool.LiveC03b pool.FramesC02 pool.AccC15 pool.AccC15b.
Local Open Scope list_scope.

Lemma K_unwake D hx x r F m0 s : KD D hx x F m0 s -> KD D hx x F m0 (unwake_req r s).
Proof. apply K_frame; reflexivity. Qed.

Lemma K_nil D hx x F m0 s : KD D hx x (F ++ []) m0 s -> KD D hx x F m0 s.
Proof. rewrite app_nil_r. auto. Qed.

Lemma K_do_poll_error cfg r m0 s : get_req s r = Some RError -> K None [] m0 s -> K None [] m0 (do_poll cfg r s).
Proof.
  intros Hr H. unfold do_poll. rewrite Hr.
  pose proof (K_open [] None r _ [] m0 s H Hr) as H1. cbn [reqA reqH app] in H1.
  apply (K_close None r RDone [] m0); cbn [reqA reqH app].
  - apply K_set_req_x. apply K_emit; [exact Logic.I|intros r' E; inversion E; subst; split; [reflexivity|discriminate]|]. apply K_unwake. exact H1.
  - rewrite get_req_set. destruct (Nat.eq_dec r r); [|congruence]. change (get_req (emit _ (unwake_req r s)) r) with (get_req s r). rewrite Hr. reflexivity.
  - intros c t f p E. discriminate.
  - intros ck t b E. discriminate.
  - exact Logic.I.
Qed.

Lemma K_do_poll_holding cfg r p fin pl m0 s :
  get_req s r = Some (RHolding p fin pl) -> K None [] m0 s -> K None [] m0 (do_poll cfg r s).
Proof.
  intros Hr H. unfold do_poll. rewrite Hr. destruct p as [c t].
  assert (Hp : ptok_ok (ntok s) (c, t)) by (apply (proj1 (kt _ _ _ _ _ _ H) r _ Hr); discriminate).
  pose proof (K_open_hold [] r c t fin pl [] m0 s H Hr) as H1.
  assert (Hg : forall v st, get_req st r = get_req s r -> get_req (set_req r v st) r = Some v).
  { intros v st E. rewrite get_req_set. destruct (Nat.eq_dec r r); [|congruence]. rewrite E, Hr. reflexivity. }
  destruct fin.
  - apply (K_close None r RDone [] m0); cbn [reqA reqH app].
    + apply K_emit; [exact Logic.I|intros r' E; inversion E; subst; split; [reflexivity|discriminate]|].
      apply K_hold_release; [exact Hp|]. apply K_set_req_x. apply K_unwake. apply K_hx_drop in H1. exact H1.
    + change (get_req (hold_release r (c, t) (set_req r RDone (unwake_req r s))) r = Some RDone).
      unfold hold_release, get_req. rewrite reqs_pooled_drop. change (get_req (set_req r RDone (unwake_req r s)) r = Some RDone). apply Hg. reflexivity.
    + intros c' t' f p E. discriminate.
    + intros ck t' b E. discriminate.
    + exact Logic.I.
  - eapply K_hx_drop. apply (K_close (Some (r, c)) r (RHolding (c, t) false true) [] m0); cbn [reqA reqH app fst].
    + apply K_emit; [exact Logic.I|intros r' E; discriminate|]. apply K_set_req_x. apply K_unwake. exact H1.
    + change (get_req (set_req r (RHolding (c, t) false true) (unwake_req r s)) r = Some (RHolding (c, t) false true)). apply Hg. reflexivity.
    + intros c' t' f p E. inversion E; subst.
      match goal with |- exists ri, nth_error (m_reqs (tm m0 ?st)) r = _ /\ _ => assert (HK : KD [] (Some (r, c')) (Some r) [c'] m0 st) end.
      { apply K_emit; [exact Logic.I|intros r' E'; discriminate|]. apply K_set_req_x. apply K_unwake. exact H1. }
      apply (kx _ _ _ _ _ _ HK r c' eq_refl).
    + intros ck t' b E. discriminate.
    + exact Hp.
Qed.

Lemma K_do_poll_ck cfg r ck m0 s :
  get_req s r = Some (RCheckout ck) -> K None [] m0 s -> K None [] m0 (do_poll cfg r s).
Proof.
  intros Hr H. unfold do_poll. rewrite Hr.
  assert (Hk : ck_tok_ok (ntok s) ck) by (apply (proj1 (kt _ _ _ _ _ _ H) r _ Hr); discriminate).
  assert (Hwl : forall t b, In (r, b) (waitingl s t) -> k_token ck = t /\ k_slot ck = None).
  { intros t b Hin. destruct (proj2 (kw _ _ _ _ _ _ H t) r b Hin) as [_ C2]. destruct (C2 ck ltac:(discriminate) Hr) as [E1 E2]. split; [exact E1|apply E2; intros []]. }
  pose proof (K_open [] None r _ [] m0 s H Hr) as H1. cbn [reqA reqH app] in H1.
  apply K_unwake with (r := r) in H1.
  pose proof (K_checkout_poll None cfg r ck [] m0 (unwake_req r s) H1 Hk) as HP.
  pose proof (checkout_poll_pending_slot cfg r ck (unwake_req r s) (ntok s) Hk) as HS.
  pose proof (Tr_checkout_poll cfg r ck (unwake_req r s)) as HT.
  destruct (checkout_poll cfg r ck (unwake_req r s)) as [[res ck1] s2]. unfold cp_post in HP. cbn [fst snd] in *.
  destruct HP as (H2 & Hk1 & Hp & Hn2). change (ntok (unwake_req r s)) with (ntok s) in Hn2.
  destruct (Fr_get_some _ _ _ _ _ r _ (proj1 HT) Hr) as [rq2 Hq2].
  assert (Hg : forall v, get_req (set_req r v s2) r = Some v) by (intros v; rewrite get_req_set; destruct (Nat.eq_dec r r); [rewrite Hq2; reflexivity|congruence]).
  destruct res as [|[p|e]]; cbn [kres app] in H2.
  - (* pending *)
    destruct (HS eq_refl) as (S1 & S2 & S3).
    apply (K_close None r (RCheckout ck1) [] m0); cbn [reqA reqH app].
    + apply K_emit; [exact Logic.I|intros r' E; discriminate|]. apply K_set_req_x. exact H2.
    + apply Hg.
    + intros c t f p E. discriminate.
    + intros ck' t b E Hin. inversion E; subst ck'. rewrite S2. split; [|exact S1].
      apply (Hwl t b). match type of Hin with In _ (waitingl ?st t) => rewrite (waitingl_toks s st t S3) in Hin end. exact Hin.
    + exact Hk1.
  - (* handed a connection *)
    destruct p as [c t].
    destruct (match get_conn s2 (fst (c, t)) with Some cn => (c_share cn, c_open cn, c_ready cn, c_holders cn) | None => (false, false, false, 0) end)
      as [[[sh op_] rd] hs]. cbn [fst snd] in *.
    set (s3 := emit (EHand r c (t =? 0) op_ rd hs) s2).
    assert (H3 : KD [] (Some (r, c)) (Some r) (c :: ck_conns ck1 ++ []) m0 s3) by (apply K_emit_hand; [congruence|exact H2]).
    set (s4 := upd_conn c (fun cn => c_set_holders (S (c_holders cn)) (if sh then cn else c_set_ready false cn)) s3).
    assert (H4 : KD [] (Some (r, c)) (Some r) (c :: ck_conns ck1 ++ []) m0 s4) by (apply K_upd_conn; [intros cn; destruct sh; reflexivity|exact H3]).
    set (s5 := set_req r (RHolding (c, t) false true) s4).
    assert (H5 : KD [] (Some (r, c)) (Some r) (ck_conns ck1 ++ [c]) m0 s5).
    { apply K_set_req_x. eapply K_meq; [|exact H4]. intros c'. rewrite !cnt_app, !cnt_cons, !cnt_app, !cnt_nil. lia. }
    assert (Hq5 : get_req s5 r = Some (RHolding (c, t) false true)) by apply Hg.
    assert (H6 : KD [] (Some (r, c)) (Some r) [c] m0 (checkout_drop cfg r ck1 s5)).
    { apply K_checkout_drop; [exact H5|exact Hk1|]. unfold rx_live. rewrite Hq5. reflexivity. }
    assert (Hq6 : get_req (checkout_drop cfg r ck1 s5) r = Some (RHolding (c, t) false true)) by (apply (nock_checkout_drop cfg r ck1 s5 r _ Hq5); reflexivity).
    assert (Hn6 : ntok (checkout_drop cfg r ck1 s5) = ntok s) by (rewrite (ntok_Tr _ _ _ _ _ (Tr_checkout_drop cfg r ck1 s5)); exact Hn2).
    assert (H7 : KD [] (Some (r, c)) (Some r) [c] m0 (emit (EPend r) (checkout_drop cfg r ck1 s5))).
    { apply K_emit; [exact Logic.I|intros r' E; discriminate|exact H6]. }
    eapply K_hx_drop. apply (K_close (Some (r, c)) r (RHolding (c, t) false true) [] m0); cbn [reqA reqH app fst].
    + exact H7.
    + exact Hq6.
    + intros c' t' f p E. inversion E; subst. apply (kx _ _ _ _ _ _ H7 r c' eq_refl).
    + intros ck' t' b E. discriminate.
    + change (ptok_ok (ntok (checkout_drop cfg r ck1 s5)) (c, t)). rewrite Hn6, <- Hn2. apply Hp. reflexivity.
  - (* an error *)
    assert (Hq3 : get_req (set_req r RDone s2) r = Some RDone) by apply Hg.
    apply (K_close None r RDone [] m0); cbn [reqA reqH app].
    + apply K_emit; [exact Logic.I|intros r' E; inversion E; subst; split; [reflexivity|discriminate]|].
      apply K_checkout_drop; [apply K_set_req_x; exact H2|exact Hk1|]. unfold rx_live. rewrite Hq3. reflexivity.
    + change (get_req (checkout_drop cfg r ck1 (set_req r RDone s2)) r = Some RDone). apply (nock_checkout_drop cfg r ck1 _ r _ Hq3). reflexivity.
    + intros c t f p E. discriminate.
    + intros ck' t b E. discriminate.
    + exact Logic.I.
Qed.

Lemma K_do_poll cfg r m0 s : K None [] m0 s -> K None [] m0 (do_poll cfg r s).
Proof.
  intros H. destruct (get_req s r) as [[|ck|p fin pl| |]|] eqn:Hr.
  - apply K_do_poll_error; assumption.
  - eapply K_do_poll_ck; eassumption.
  - eapply K_do_poll_holding; eassumption.
  - unfold do_poll. rewrite Hr. exact H.
  - unfold do_poll. rewrite Hr. exact H.
  - unfold do_poll. rewrite Hr. exact H.
Qed.

(* ---------------------------------------------------------------- Cancel (the request is out of the books from the start) *)
Lemma K_do_cancel cfg r q m0 s :
  get_req s r = Some q -> req_tok_ok (ntok s) q -> KD [] None (Some r) (reqA q ++ reqH q ++ []) m0 s -> K None [] m0 (do_cancel cfg r s).
Proof.
  intros Hr Hk H. unfold do_cancel. rewrite Hr.
  assert (Hg : forall v, get_req (set_req r v s) r = Some v) by (intros v; rewrite get_req_set; destruct (Nat.eq_dec r r); [rewrite Hr; reflexivity|congruence]).
  assert (Hfin : forall st v, is_lv v = false -> (forall c t f p, v <> RHolding (c, t) f p) -> get_req st r = Some v -> KD [] None (Some r) [] m0 st -> K None [] m0 (unwake_req r st)).
  { intros st v Hv Hnh Hq HK. apply (K_close None r v [] m0).
    - apply K_unwake. destruct v; try discriminate; try exact HK. destruct p as [c t]. destruct (Hnh c t fin polled eq_refl).
    - exact Hq.
    - intros c t f p E. destruct (Hnh c t f p E).
    - intros ck t b E. subst v. discriminate.
    - destruct v; try discriminate; try exact Logic.I. destruct p as [c t]. destruct (Hnh c t fin polled eq_refl). }
  destruct q as [|ck|p fin pl| |]; cbn [reqA reqH app] in H.
  - apply (Hfin _ RCancelled); [reflexivity|intros; discriminate|apply Hg|]. apply K_set_req_x. exact H.
  - assert (Hq1 : get_req (set_req r RCancelled s) r = Some RCancelled) by apply Hg.
    apply (Hfin _ RCancelled); [reflexivity|intros; discriminate| |].
    + apply (nock_checkout_drop cfg r ck _ r _ Hq1). reflexivity.
    + apply K_checkout_drop; [apply K_set_req_x; exact H|exact Hk|]. unfold rx_live. rewrite Hq1. reflexivity.
  - assert (Hq1 : get_req (set_req r RCancelled s) r = Some RCancelled) by apply Hg.
    apply (Hfin _ RCancelled); [reflexivity|intros; discriminate| |].
    + unfold hold_release, get_req. rewrite reqs_pooled_drop. exact Hq1.
    + apply K_hold_release; [exact Hk|]. apply K_set_req_x. exact H.
  - apply (Hfin _ RDone); [reflexivity|intros; discriminate|exact Hr|exact H].
  - apply (Hfin _ RCancelled); [reflexivity|intros; discriminate|exact Hr|exact H].
Qed.

(* ---------------------------------------------------------------- Finish, Upgrade, ConnReady, ConnClose, DialDone *)
Lemma K_wake_task D hx x t F m0 s : KD D hx x F m0 s -> KD D hx x F m0 (wake_task t s).
Proof. unfold wake_task. destruct (existsb (Nat.eqb t) (runq s)); [auto|]. apply K_frame; reflexivity. Qed.
Lemma K_wake_tasks D hx x F m0 l : forall s, KD D hx x F m0 s -> KD D hx x F m0 (wake_tasks l s).
Proof. induction l as [|t l IH]; intros s H; cbn [wake_tasks]; [exact H|]. apply IH. apply K_wake_task. exact H. Qed.
Lemma K_drain_conn_waiters D hx x c F m0 s : KD D hx x F m0 s -> KD D hx x F m0 (drain_conn_waiters c s).
Proof.
  intros H. unfold drain_conn_waiters. destruct (get_conn s c); [|exact H]. apply K_wake_tasks. apply K_upd_conn; [intros cn; reflexivity|exact H].
Qed.

Lemma K_do_finish r m0 s : K None [] m0 s -> K None [] m0 (do_finish r s).
Proof.
  intros H. unfold do_finish. destruct (get_req s r) as [[|ck|p fin pl| |]|] eqn:Hr; try exact H.
  assert (H1 : K None [] m0 (set_req r (RHolding p true false) s)).
  { apply (K_set_req [] None None [] [] m0 r (RHolding p fin pl)); auto; try discriminate.
    - intros c t f p0 E. inversion E; subst. apply (kh _ _ _ _ _ _ H r c t fin pl Hr). discriminate.
    - apply (proj1 (kt _ _ _ _ _ _ H) r _ Hr). discriminate. }
  destruct pl; [apply K_wake_req|]; exact H1.
Qed.

Lemma K_do_upgrade r m0 s : K None [] m0 s -> K None [] m0 (do_upgrade r s).
Proof.
  intros H. unfold do_upgrade. destruct (get_req s r) as [[|ck|p fin pl| |]|]; try exact H.
  apply K_drain_conn_waiters. apply K_upd_conn; [intros cn; reflexivity|exact H].
Qed.
Lemma K_do_conn_ready c m0 s : K None [] m0 s -> K None [] m0 (do_conn_ready c s).
Proof. intros H. unfold do_conn_ready. destruct (get_conn s c); [|exact H]. apply K_drain_conn_waiters. apply K_upd_conn; [intros cn; reflexivity|exact H]. Qed.
Lemma K_do_conn_close c m0 s : K None [] m0 s -> K None [] m0 (do_conn_close c s).
Proof. intros H. unfold do_conn_close. destruct (get_conn s c); [|exact H]. apply K_drain_conn_waiters. apply K_upd_conn; [intros cn; reflexivity|exact H]. Qed.
Lemma K_do_dial_done r y m0 s : K None [] m0 s -> K None [] m0 (do_dial_done r y s).
Proof.
  intros H. unfold do_dial_done. destruct (get_dial s r) as [d|]; [|exact H]. destruct (d_stage d); try exact H.
  destruct (d_polled d) as [[|tid]|]; cbn [wake_poller]; [apply K_wake_req|apply K_wake_task|]; apply K_upd_dial; exact H.
Qed.
