(* C04: the monitor mon_C04_but_D6 accepts the model's trace of every history - every clause of C04
   outside the window of known finding D6 (the full monitor mon_C04 is refuted by D6, see props/C04.v).
   The monitor is the conjunction of four clause monitors (mon_C04_but_D6_split, pool/ProofsC04a.v):
     S1   pool/ProofsC04a.v  (with pool/FramesC04.v: linearity of non-multiplexed handles)
     drop pool/ProofsC04a.v
     np   pool/ProofsC04np.v
     S2   pool/ProofsC04s2.v (in-progress marks, waiter queues, dial stages; uses pool/CoreC05.v for
                              "open in the model => not closed for the tracker") *)
From HD Require Import common.Base http.Model pool.Model pool.Spec.
From HD Require Export pool.ProofsC04a pool.ProofsC04s2.

Theorem mon_C04_but_D6_holds : forall cfg ops, mon_C04_but_D6 cfg ops (trace cfg ops) = true.
Proof.
  intros cfg ops. rewrite mon_C04_but_D6_split, mon_C04_S1_holds, mon_C04_S2_holds, mon_C04_drop_holds, mon_C04_np_holds. reflexivity.
Qed.
Print Assumptions mon_C04_but_D6_holds.
