(* C04, clause S3 at the moment a dial STARTS ("an open connection released by a finished request is
   kept and is used by the next request to the same origin instead of dialing a new one").

   [mon_C04] / [mon_C04_but_D6] judge availability at the request's Issue only (ri_avail).  This
   clause looks at the operation in which the request's own transport connect is called:

     for every op and every [EDial r k] among its events, the pool snapshot BEFORE the op (the
     tracker keeps the previous observation: m_prev) does not show, in the idle list of r's
     origin, a connection that is usable: not closed according to the tracker before this op
     (ConnClose / Upgrade seen so far) and, for a non-zero idle timeout d, not in that list for
     longer than d (ci_idle_time: the clock when the snapshot first showed it there - the stamp
     that clause 2 of mon_C05 uses - against the clock before this op).

   Exemption: pool disabled (there is no idle list).  The window of known finding D6 needs NO
   exemption: the shared handle is OUT of the idle list between the Issue that popped it and that
   request's first poll, so the snapshot does not show it.  Background (delayed) attempts never start
   a dial: only an attempt whose connect was already called continues in the background.

   Same tracker as every other pool monitor; observables only. *)
From HD Require Import common.Base http.Model pool.Model pool.Spec.
Local Open Scope list_scope.

(* the idle-stamp predicate of mon_C05 clause 2, read at the clock of [m] *)
Definition idle_fresh (cfg : config) (m : mst) (x : cinfo) : bool :=
  match g_timeout cfg with
  | Some d => if N.ltb 0 d then N.leb (m_time m - ci_idle_time x) d else true
  | None => true
  end.

Definition usable_idle (cfg : config) (m : mst) (c : nat) : bool :=
  match nth_error (m_conns m) c with
  | Some x => match ci_closed x with None => idle_fresh cfg m x | Some _ => false end
  | None => false
  end.

(* [m]: the tracker before the op;  [m1]: after its reading of the op itself (the request table) *)
Definition chk_ev_C04_dial (cfg : config) (m m1 : mst) (e : ev) : bool :=
  match e with
  | EDial r _ =>
      match nth_error (m_reqs m1) r with
      | Some x =>
          negb (g_pool cfg)
          || negb (existsb (usable_idle cfg m) (idle_of (o_snap (m_prev m)) (key_tok m1 (ri_key x))))
      | None => false
      end
  | _ => true
  end.

Definition chk_C04_dial (cfg : config) (m : mst) (o : op) (ob : opobs) : bool :=
  forallb (chk_ev_C04_dial cfg m (track_op cfg m o ob)) (o_events ob).

Definition mon_C04_dial := mon_with chk_C04_dial.
