(* Executable specifications (monitors) of the pool properties C02 C03 C04 C05 C06 C14 C15 (and the
   cleanup half of C19), over OBSERVABLES only: the operations of the case (the environment script the
   harness executes) and, per operation, the events recorded by the harness' own transport /
   connection / inner service, the read-only pool snapshot and the set of woken request futures.
   No model state is consulted, so the same monitors judge implementation traces.
   A monitor never demands more than the property text; where the text leaves a choice (which of
   several competing requests receives a released connection) every outcome is accepted. *)
From HD Require Import common.Base http.Model pool.Model.
Local Open Scope string_scope.
Local Open Scope list_scope.

(* ------------------------------------------------------------------ tracker *)
Inductive rstat := SLive | SHeld (c : nat) | SDone | SCancelled.
Inductive dstat := DsNone | DsFlying | DsOver.

(* per request:  ri_at/ri_time: op index / clock of its Issue;  ri_pend: polled and the last poll
   returned Pending;  ri_lastpend: 1 + op index of its last pending poll (0 = never);  ri_dial: own
   transport connect not called / in flight / over;  ri_resolved: outcome scripted for its dial while in
   flight;  ri_popc: connection its Issue took out of the idle list;  ri_d6: it was issued while the shared
   HTTP/2 handle of its origin was checked out by a request that had not been polled yet (the window of
   known finding D6; such a request gets a connector although a connection exists);  ri_avail: a usable (open, unexpired) idle
   connection for its origin existed when it was issued;  ri_aband: it stopped waiting (hand-off of a
   foreign connection, or cancel) while its own dial was in flight;  ri_poph: the open multiplexed
   handle its Issue took out of the idle list (read off the snapshots without any expiry estimate; it
   delimits the window of known finding D6);  ri_popx: the oldest connection its Issue removed from the
   idle list (the one it was given, if it was given one) *)
Record rinfo := mkRi {
  ri_at : nat;
  ri_time : N;
  ri_key : option key;
  ri_proto : proto;
  ri_stat : rstat;
  ri_pend : bool;
  ri_lastpend : nat;
  ri_dial : dstat;
  ri_resolved : option bool;
  ri_popc : option nat;
  ri_d6 : bool;
  ri_avail : bool;
  ri_aband : bool;
  ri_poph : option nat;
  ri_popx : option nat
}.
Definition set_ri_at (v : nat) (x : rinfo) : rinfo := mkRi v (ri_time x) (ri_key x) (ri_proto x) (ri_stat x) (ri_pend x) (ri_lastpend x) (ri_dial x) (ri_resolved x) (ri_popc x) (ri_d6 x) (ri_avail x) (ri_aband x) (ri_poph x) (ri_popx x).
Definition set_ri_time (v : N) (x : rinfo) : rinfo := mkRi (ri_at x) v (ri_key x) (ri_proto x) (ri_stat x) (ri_pend x) (ri_lastpend x) (ri_dial x) (ri_resolved x) (ri_popc x) (ri_d6 x) (ri_avail x) (ri_aband x) (ri_poph x) (ri_popx x).
Definition set_ri_key (v : option key) (x : rinfo) : rinfo := mkRi (ri_at x) (ri_time x) v (ri_proto x) (ri_stat x) (ri_pend x) (ri_lastpend x) (ri_dial x) (ri_resolved x) (ri_popc x) (ri_d6 x) (ri_avail x) (ri_aband x) (ri_poph x) (ri_popx x).
Definition set_ri_proto (v : proto) (x : rinfo) : rinfo := mkRi (ri_at x) (ri_time x) (ri_key x) v (ri_stat x) (ri_pend x) (ri_lastpend x) (ri_dial x) (ri_resolved x) (ri_popc x) (ri_d6 x) (ri_avail x) (ri_aband x) (ri_poph x) (ri_popx x).
Definition set_ri_stat (v : rstat) (x : rinfo) : rinfo := mkRi (ri_at x) (ri_time x) (ri_key x) (ri_proto x) v (ri_pend x) (ri_lastpend x) (ri_dial x) (ri_resolved x) (ri_popc x) (ri_d6 x) (ri_avail x) (ri_aband x) (ri_poph x) (ri_popx x).
Definition set_ri_pend (v : bool) (x : rinfo) : rinfo := mkRi (ri_at x) (ri_time x) (ri_key x) (ri_proto x) (ri_stat x) v (ri_lastpend x) (ri_dial x) (ri_resolved x) (ri_popc x) (ri_d6 x) (ri_avail x) (ri_aband x) (ri_poph x) (ri_popx x).
Definition set_ri_lastpend (v : nat) (x : rinfo) : rinfo := mkRi (ri_at x) (ri_time x) (ri_key x) (ri_proto x) (ri_stat x) (ri_pend x) v (ri_dial x) (ri_resolved x) (ri_popc x) (ri_d6 x) (ri_avail x) (ri_aband x) (ri_poph x) (ri_popx x).
Definition set_ri_dial (v : dstat) (x : rinfo) : rinfo := mkRi (ri_at x) (ri_time x) (ri_key x) (ri_proto x) (ri_stat x) (ri_pend x) (ri_lastpend x) v (ri_resolved x) (ri_popc x) (ri_d6 x) (ri_avail x) (ri_aband x) (ri_poph x) (ri_popx x).
Definition set_ri_resolved (v : option bool) (x : rinfo) : rinfo := mkRi (ri_at x) (ri_time x) (ri_key x) (ri_proto x) (ri_stat x) (ri_pend x) (ri_lastpend x) (ri_dial x) v (ri_popc x) (ri_d6 x) (ri_avail x) (ri_aband x) (ri_poph x) (ri_popx x).
Definition set_ri_popc (v : option nat) (x : rinfo) : rinfo := mkRi (ri_at x) (ri_time x) (ri_key x) (ri_proto x) (ri_stat x) (ri_pend x) (ri_lastpend x) (ri_dial x) (ri_resolved x) v (ri_d6 x) (ri_avail x) (ri_aband x) (ri_poph x) (ri_popx x).
Definition set_ri_d6 (v : bool) (x : rinfo) : rinfo := mkRi (ri_at x) (ri_time x) (ri_key x) (ri_proto x) (ri_stat x) (ri_pend x) (ri_lastpend x) (ri_dial x) (ri_resolved x) (ri_popc x) v (ri_avail x) (ri_aband x) (ri_poph x) (ri_popx x).
Definition set_ri_avail (v : bool) (x : rinfo) : rinfo := mkRi (ri_at x) (ri_time x) (ri_key x) (ri_proto x) (ri_stat x) (ri_pend x) (ri_lastpend x) (ri_dial x) (ri_resolved x) (ri_popc x) (ri_d6 x) v (ri_aband x) (ri_poph x) (ri_popx x).
Definition set_ri_aband (v : bool) (x : rinfo) : rinfo := mkRi (ri_at x) (ri_time x) (ri_key x) (ri_proto x) (ri_stat x) (ri_pend x) (ri_lastpend x) (ri_dial x) (ri_resolved x) (ri_popc x) (ri_d6 x) (ri_avail x) v (ri_poph x) (ri_popx x).
Definition set_ri_poph (v : option nat) (x : rinfo) : rinfo := mkRi (ri_at x) (ri_time x) (ri_key x) (ri_proto x) (ri_stat x) (ri_pend x) (ri_lastpend x) (ri_dial x) (ri_resolved x) (ri_popc x) (ri_d6 x) (ri_avail x) (ri_aband x) v (ri_popx x).
Definition set_ri_popx (v : option nat) (x : rinfo) : rinfo := mkRi (ri_at x) (ri_time x) (ri_key x) (ri_proto x) (ri_stat x) (ri_pend x) (ri_lastpend x) (ri_dial x) (ri_resolved x) (ri_popc x) (ri_d6 x) (ri_avail x) (ri_aband x) (ri_poph x) v.

(* per connection:  ci_origin: the request whose dial created it;  ci_closed: op index of the first
   ConnClose / Upgrade;  ci_back/ci_back_time: op index / clock of its last hand-back to the pool (or
   creation);  ci_rel_ready: released and reported ready since its last hand-off;  ci_offer: op index
   at which the pool offered it to a waiting request (cleared by the hand-off);  ci_idle_time: clock at
   which it entered the idle list it sits in *)
Record cinfo := mkCi {
  ci_origin : nat;
  ci_share : bool;
  ci_new_at : nat;
  ci_closed : option nat;
  ci_back : nat;
  ci_back_time : N;
  ci_holder : option nat;
  ci_rel_ready : bool;
  ci_upgraded : bool;
  ci_dropped : bool;
  ci_offer : option nat;
  ci_idle_time : N
}.
Definition set_ci_origin (v : nat) (x : cinfo) : cinfo := mkCi v (ci_share x) (ci_new_at x) (ci_closed x) (ci_back x) (ci_back_time x) (ci_holder x) (ci_rel_ready x) (ci_upgraded x) (ci_dropped x) (ci_offer x) (ci_idle_time x).
Definition set_ci_share (v : bool) (x : cinfo) : cinfo := mkCi (ci_origin x) v (ci_new_at x) (ci_closed x) (ci_back x) (ci_back_time x) (ci_holder x) (ci_rel_ready x) (ci_upgraded x) (ci_dropped x) (ci_offer x) (ci_idle_time x).
Definition set_ci_new_at (v : nat) (x : cinfo) : cinfo := mkCi (ci_origin x) (ci_share x) v (ci_closed x) (ci_back x) (ci_back_time x) (ci_holder x) (ci_rel_ready x) (ci_upgraded x) (ci_dropped x) (ci_offer x) (ci_idle_time x).
Definition set_ci_closed (v : option nat) (x : cinfo) : cinfo := mkCi (ci_origin x) (ci_share x) (ci_new_at x) v (ci_back x) (ci_back_time x) (ci_holder x) (ci_rel_ready x) (ci_upgraded x) (ci_dropped x) (ci_offer x) (ci_idle_time x).
Definition set_ci_back (v : nat) (x : cinfo) : cinfo := mkCi (ci_origin x) (ci_share x) (ci_new_at x) (ci_closed x) v (ci_back_time x) (ci_holder x) (ci_rel_ready x) (ci_upgraded x) (ci_dropped x) (ci_offer x) (ci_idle_time x).
Definition set_ci_back_time (v : N) (x : cinfo) : cinfo := mkCi (ci_origin x) (ci_share x) (ci_new_at x) (ci_closed x) (ci_back x) v (ci_holder x) (ci_rel_ready x) (ci_upgraded x) (ci_dropped x) (ci_offer x) (ci_idle_time x).
Definition set_ci_holder (v : option nat) (x : cinfo) : cinfo := mkCi (ci_origin x) (ci_share x) (ci_new_at x) (ci_closed x) (ci_back x) (ci_back_time x) v (ci_rel_ready x) (ci_upgraded x) (ci_dropped x) (ci_offer x) (ci_idle_time x).
Definition set_ci_rel_ready (v : bool) (x : cinfo) : cinfo := mkCi (ci_origin x) (ci_share x) (ci_new_at x) (ci_closed x) (ci_back x) (ci_back_time x) (ci_holder x) v (ci_upgraded x) (ci_dropped x) (ci_offer x) (ci_idle_time x).
Definition set_ci_upgraded (v : bool) (x : cinfo) : cinfo := mkCi (ci_origin x) (ci_share x) (ci_new_at x) (ci_closed x) (ci_back x) (ci_back_time x) (ci_holder x) (ci_rel_ready x) v (ci_dropped x) (ci_offer x) (ci_idle_time x).
Definition set_ci_dropped (v : bool) (x : cinfo) : cinfo := mkCi (ci_origin x) (ci_share x) (ci_new_at x) (ci_closed x) (ci_back x) (ci_back_time x) (ci_holder x) (ci_rel_ready x) (ci_upgraded x) v (ci_offer x) (ci_idle_time x).
Definition set_ci_offer (v : option nat) (x : cinfo) : cinfo := mkCi (ci_origin x) (ci_share x) (ci_new_at x) (ci_closed x) (ci_back x) (ci_back_time x) (ci_holder x) (ci_rel_ready x) (ci_upgraded x) (ci_dropped x) v (ci_idle_time x).
Definition set_ci_idle_time (v : N) (x : cinfo) : cinfo := mkCi (ci_origin x) (ci_share x) (ci_new_at x) (ci_closed x) (ci_back x) (ci_back_time x) (ci_holder x) (ci_rel_ready x) (ci_upgraded x) (ci_dropped x) (ci_offer x) v.

Record mst := mkM {
  m_i : nat;
  m_time : N;
  m_keys : list key;
  m_reqs : list rinfo;
  m_conns : list cinfo;
  m_prev : opobs
}.
Definition set_m_i (v : nat) (x : mst) : mst := mkM v (m_time x) (m_keys x) (m_reqs x) (m_conns x) (m_prev x).
Definition set_m_time (v : N) (x : mst) : mst := mkM (m_i x) v (m_keys x) (m_reqs x) (m_conns x) (m_prev x).
Definition set_m_keys (v : list key) (x : mst) : mst := mkM (m_i x) (m_time x) v (m_reqs x) (m_conns x) (m_prev x).
Definition set_m_reqs (v : list rinfo) (x : mst) : mst := mkM (m_i x) (m_time x) (m_keys x) v (m_conns x) (m_prev x).
Definition set_m_conns (v : list cinfo) (x : mst) : mst := mkM (m_i x) (m_time x) (m_keys x) (m_reqs x) v (m_prev x).
Definition set_m_prev (v : opobs) (x : mst) : mst := mkM (m_i x) (m_time x) (m_keys x) (m_reqs x) (m_conns x) v.

Definition m0 : mst := mkM 0 0 [] [] [] (mkObs [] [] []).

Definition tok_of (ks : list key) (k : key) : nat := match find_key k ks 1 with Some t => t | None => 0 end.
Definition snap_of (sn : list snap) (t : nat) : option snap := find (fun s => Nat.eqb (sn_token s) t) sn.
Definition idle_of (sn : list snap) (t : nat) : list nat := match snap_of sn t with Some s => sn_idle s | None => [] end.
Definition live_of (sn : list snap) (t : nat) : nat := match snap_of sn t with Some s => sn_live s | None => 0 end.
Definition marker_of (sn : list snap) (t : nat) : bool := match snap_of sn t with Some s => sn_marker s | None => false end.
Definition mem (x : nat) (l : list nat) : bool := existsb (Nat.eqb x) l.

Definition ri_upd (f : rinfo -> rinfo) (r : nat) (m : mst) : mst := set_m_reqs (upd_nth r f (m_reqs m)) m.
Definition ci_upd (f : cinfo -> cinfo) (c : nat) (m : mst) : mst := set_m_conns (upd_nth c f (m_conns m)) m.

Definition req_key (m : mst) (r : nat) : option key := match nth_error (m_reqs m) r with Some x => ri_key x | None => None end.
Definition conn_key (m : mst) (c : nat) : option key :=
  match nth_error (m_conns m) c with Some x => req_key m (ci_origin x) | None => None end.
Definition same_key (a b : option key) : bool := match a, b with Some x, Some y => key_eqb x y | _, _ => false end.
Definition key_tok (m : mst) (k : option key) : nat := match k with Some k' => tok_of (m_keys m) k' | None => 0 end.

Definition first_some {A} (a : option A) (v : A) : option A := match a with Some o => Some o | None => Some v end.

(* usable idle connection: open and, for a non-zero idle timeout, not older than it *)
Definition unexpired (cfg : config) (m : mst) (x : cinfo) : bool :=
  match g_timeout cfg with
  | Some d => if N.ltb 0 d then N.leb (m_time m - ci_back_time x) d else true
  | None => true
  end.
Definition usable (cfg : config) (m : mst) (c : nat) : bool :=
  match nth_error (m_conns m) c with
  | Some x => match ci_closed x with None => unexpired cfg m x | Some _ => false end
  | None => false
  end.

Definition open_conn (m : mst) (c : nat) : bool :=
  match nth_error (m_conns m) c with Some x => match ci_closed x with None => true | Some _ => false end | None => true end.

(* the tracker's reading of one event *)
Definition track_ev (m : mst) (e : ev) : mst :=
  match e with
  | EDial r _ => ri_upd (set_ri_dial DsFlying) r m
  | ENew c sh r =>
      let m := ri_upd (set_ri_dial DsOver) r m in
      set_m_conns (m_conns m ++ [mkCi r sh (m_i m) None (m_i m) (m_time m) None true false false None (m_time m)]) m
  | EHand r c _ _ _ _ =>
      let own := match nth_error (m_conns m) c with Some x => Nat.eqb (ci_origin x) r && Nat.eqb (ci_new_at x) (m_i m) | None => false end in
      let m := ri_upd (fun x => set_ri_stat (SHeld c)
                                  (if negb own && match ri_dial x with DsFlying => true | _ => false end then set_ri_aband true x else x)) r m in
      ci_upd (fun x => set_ci_offer None (set_ci_rel_ready false (set_ci_holder (Some r) x))) c m
  | EPend r => ri_upd (fun x => set_ri_lastpend (S (m_i m)) (set_ri_pend true x)) r m
  | ERes r x =>
      let m := ri_upd (fun y => set_ri_pend false (set_ri_stat SDone y)) r m in
      match x with
      | RErr EConn | RErr EHs => ri_upd (set_ri_dial DsOver) r m
      | _ => m
      end
  | ERel r c => ci_upd (set_ci_holder None) c m
  | EDrop c => ci_upd (set_ci_dropped true) c m
  | ERdy c ok => if ok then ci_upd (fun x => set_ci_rel_ready true (set_ci_back_time (m_time m) (set_ci_back (m_i m) x))) c m else m
  end.

Definition holder_conn (m : mst) (r : nat) : option nat :=
  match nth_error (m_reqs m) r with Some x => match ri_stat x with SHeld c => Some c | _ => None end | None => None end.

(* the connection a pop took out of the idle list: idle lists only shrink from the newest end, and
   everything removed above the returned connection was discarded as closed *)
Definition popped_conn (cfg : config) (m : mst) (before after : list nat) : option nat :=
  match skipn (List.length after) before with
  | c :: _ => if usable cfg m c then Some c else None
  | [] => None
  end.

Definition is_live (x : rinfo) : bool := match ri_stat x with SLive => true | _ => false end.

(* a request that popped the shared HTTP/2 handle and has not been polled yet (D6 window) *)
Definition h2_handle_out (m : mst) (r : nat) (k : option key) : bool :=
  existsb (fun ix => let '(i, x) := ix in
                     negb (Nat.eqb i r) && same_key (ri_key x) k && is_live x
                     && match ri_poph x with Some _ => true | None => false end)
          (combine (seq 0 (List.length (m_reqs m))) (m_reqs m)).

(* the tracker's reading of the operation itself (before its events) *)
Definition track_op (cfg : config) (m : mst) (o : op) (ob : opobs) : mst :=
  match o with
  | Issue u p =>
      let k := nth u (g_uris cfg) None in
      let ks := match k with
                | Some k' => if g_pool cfg then match find_key k' (m_keys m) 1 with Some _ => m_keys m | None => m_keys m ++ [k'] end
                             else m_keys m
                | None => m_keys m end in
      let t := match k with Some k' => if g_pool cfg then tok_of ks k' else 0 | None => 0 end in
      let before := idle_of (o_snap (m_prev m)) t in
      let popc := popped_conn cfg m before (idle_of (o_snap ob) t) in
      let avail := existsb (usable cfg m) before in
      let popx := match skipn (List.length (idle_of (o_snap ob) t)) before with c :: _ => Some c | [] => None end in
      let poph := match skipn (List.length (idle_of (o_snap ob) t)) before with
                  | c :: _ => match nth_error (m_conns m) c with
                              | Some y => if ci_share y && match ci_closed y with None => true | _ => false end then Some c else None
                              | None => None end
                  | [] => None end in
      set_m_keys ks (set_m_reqs (m_reqs m ++ [mkRi (m_i m) (m_time m) k p SLive false 0 DsNone None popc
                                                  (h2_handle_out m (List.length (m_reqs m)) k) avail false poph popx]) m)
  | Cancel r =>
      match nth_error (m_reqs m) r with
      | Some x => match ri_stat x with
                  | SDone | SCancelled => m
                  | _ =>
                      (* a request dropped while it still holds the connection its Issue took out of the idle
                         list hands that connection back to the pool at this instant (C05: "closed before it
                         was handed back to the pool") *)
                      let m := match ri_stat x, ri_popx x with
                               | SLive, Some c =>
                                   (* non-multiplexed connections only: they have a single handle *)
                                   match nth_error (m_conns m) c with
                                   | Some y => if ci_share y then m else ci_upd (set_ci_back (m_i m)) c m
                                   | None => m end
                               | _, _ => m end in
                      ri_upd (fun y => set_ri_pend false (set_ri_stat SCancelled
                                   (match ri_stat y, ri_dial y with SLive, DsFlying => set_ri_aband true y | _, _ => y end))) r m
                  end
      | None => m
      end
  | Upgrade r =>
      match holder_conn m r with
      | Some c => ci_upd (fun x => set_ci_upgraded true (set_ci_closed (first_some (ci_closed x) (m_i m)) x)) c m
      | None => m
      end
  | ConnClose c => ci_upd (fun x => set_ci_closed (first_some (ci_closed x) (m_i m)) x) c m
  | DialDone r x =>
      ri_upd (fun y => match ri_dial y, ri_resolved y with
                       | DsFlying, None => set_ri_resolved (Some (match x with DOk _ => true | _ => false end)) y
                       | _, _ => y end) r m
  | Tick dt => set_m_time (m_time m + dt)%N m
  | _ => m
  end.

(* after the events of an op: a connection that was handed back in this op and is neither in the idle
   list nor discarded has been offered to a waiting request *)
Definition track_offer (ob : opobs) (m : mst) (e : ev) : mst :=
  match e with
  | ERdy c true =>
      match nth_error (m_conns m) c with
      | Some x =>
          let parked := mem c (idle_of (o_snap ob) (key_tok m (conn_key m c))) in
          ci_upd (set_ci_offer (if parked || ci_dropped x || ci_share x then None else Some (m_i m))) c m
      | None => m
      end
  | _ => m
  end.

(* the instant at which a connection entered the idle list it sits in: the clock of the first op after
   which the snapshot shows it there (IdleConnections stamps entries when they are pushed) *)
Definition track_idle_stamp (prev : list snap) (m : mst) (sn : snap) : mst :=
  fold_left (fun m c => if mem c (idle_of prev (sn_token sn)) then m else ci_upd (set_ci_idle_time (m_time m)) c m)
            (sn_idle sn) m.

Definition track (cfg : config) (m : mst) (o : op) (ob : opobs) : mst :=
  let prev := o_snap (m_prev m) in
  let m := fold_left track_ev (o_events ob) (track_op cfg m o ob) in
  let m := fold_left (track_offer ob) (o_events ob) m in
  let m := fold_left (track_idle_stamp prev) (o_snap ob) m in
  set_m_prev ob (set_m_i (S (m_i m)) m).

(* generic driver: [chk] judges one op given the tracker state before it *)
Fixpoint mon_steps (chk : config -> mst -> op -> opobs -> bool) (cfg : config) (m : mst)
         (ops : list op) (obs : list opobs) : bool :=
  match ops, obs with
  | [], [] => true
  | o :: ops', ob :: obs' => chk cfg m o ob && mon_steps chk cfg (track cfg m o ob) ops' obs'
  | _, _ => false                      (* one observation per operation *)
  end.
Definition mon_with chk (cfg : config) (ops : list op) (obs : list opobs) : bool := mon_steps chk cfg m0 ops obs.

Fixpoint final_mst (cfg : config) (m : mst) (ops : list op) (obs : list opobs) : mst :=
  match ops, obs with
  | o :: ops', ob :: obs' => final_mst cfg (track cfg m o ob) ops' obs'
  | _, _ => m
  end.

(* judge the events of one op one after the other, tracking in between *)
Fixpoint evs_ok (chk_ev : mst -> ev -> bool) (m : mst) (es : list ev) : bool :=
  match es with
  | [] => true
  | e :: t => chk_ev m e && evs_ok chk_ev (track_ev m e) t
  end.

(* ------------------------------------------------------------------ C15 *)
(* at no time more idle connections for one origin than max_idle_per_host *)
Definition chk_C15 (cfg : config) (_ : mst) (_ : op) (ob : opobs) : bool :=
  forallb (fun s => Nat.leb (List.length (sn_idle s)) (g_max_idle cfg)) (o_snap ob).
Definition mon_C15 := mon_with chk_C15.

(* ------------------------------------------------------------------ C06 *)
(* a request is only ever handed a connection dialled for its own scheme + authority, and every
   transport connect goes to the request's own scheme + authority *)
Definition chk_ev_C06 (m : mst) (e : ev) : bool :=
  match e with
  | EHand r c _ _ _ _ => same_key (conn_key m c) (req_key m r)
  | EDial r k => match req_key m r with Some k' => String.eqb (fst k) (fst k') && String.eqb (snd k) (snd k') | None => false end
  | _ => true
  end.
Definition chk_C06 (cfg : config) (m : mst) (o : op) (ob : opobs) : bool :=
  evs_ok chk_ev_C06 (track_op cfg m o ob) (o_events ob).
Definition mon_C06 := mon_with chk_C06.

(* ------------------------------------------------------------------ C02 *)
(* a non-multiplexed connection has at most one holder at any moment, is not handed out again before
   its previous holder released it and it reported itself ready, and never after an upgrade *)
Definition chk_ev_C02 (m : mst) (e : ev) : bool :=
  match e with
  | EHand r c _ _ _ holders =>
      match nth_error (m_conns m) c with
      | Some x => if ci_share x then true
                  else Nat.eqb holders 0
                       && match ci_holder x with None => true | Some _ => false end
                       && ci_rel_ready x
                       && negb (ci_upgraded x)
      | None => false
      end
  | _ => true
  end.
Definition chk_C02 (cfg : config) (m : mst) (o : op) (ob : opobs) : bool :=
  evs_ok chk_ev_C02 (track_op cfg m o ob) (o_events ob).
Definition mon_C02 := mon_with chk_C02.

(* ------------------------------------------------------------------ C05 *)
(* a connection handed to request r was not closed before it was acquired for r, where the
   acquisition instant is the later of (Issue r) and (the connection's last hand-back to the pool /
   its creation); and, for a non-zero idle timeout d, the connection that r's Issue took out of the idle
   list (ri_popx: read off the snapshots) had not sat in it longer than d (ci_idle_time: the clock when
   the snapshot first showed it in that list) *)
Definition chk_ev_C05 (cfg : config) (m : mst) (e : ev) : bool :=
  match e with
  | EHand r c _ _ _ _ =>
      match nth_error (m_conns m) c, nth_error (m_reqs m) r with
      | Some x, Some y =>
          let acq := Nat.max (ci_back x) (ri_at y) in
          match ci_closed x with Some cl => negb (Nat.ltb cl acq) | None => true end
          && match g_timeout cfg, ri_popx y with
             | Some d, Some c' => if N.ltb 0 d && Nat.eqb c c'
                                  then N.leb (ri_time y - ci_idle_time x) d else true
             | _, _ => true
             end
      | _, _ => false
      end
  | _ => true
  end.
Definition chk_C05 (cfg : config) (m : mst) (o : op) (ob : opobs) : bool :=
  evs_ok (chk_ev_C05 cfg) (track_op cfg m o ob) (o_events ob).
Definition mon_C05 := mon_with chk_C05.

(* ------------------------------------------------------------------ C03 (and C19 cleanup) *)
Definition is_gone (x : rinfo) : bool := match ri_stat x with SDone | SCancelled => true | _ => false end.

(* (a) no lost wake-up: a future whose last poll returned Pending and which now makes progress was
       woken;  (b) a cancelled or finished request produces nothing more *)
Definition chk_ev_C03 (woken_before : list nat) (m : mst) (e : ev) : bool :=
  let about r progress :=
    match nth_error (m_reqs m) r with
    | Some x => negb (is_gone x)
                && (if progress && ri_pend x then mem r woken_before else true)
    | None => false
    end in
  match e with
  | EHand r _ _ _ _ _ => about r true
  | ERes r _ => about r true
  | EPend r => about r false
  | _ => true
  end.
Definition chk_C03 (cfg : config) (m : mst) (o : op) (ob : opobs) : bool :=
  evs_ok (chk_ev_C03 (o_woken (m_prev m))) (track_op cfg m o ob) (o_events ob).

(* the deterministic closing procedure appended by the harness driver: poll everybody and run the
   background tasks (so that every dial has started), resolve every outstanding dial, run the
   background tasks, poll everybody (twice), let every holder finish, poll, let every connection
   report ready, run the background tasks, poll; then a fresh probe request *)
Definition drain_ops (nreq : nat) (u : nat) (p : proto) : list op :=
  let rs := seq 0 nreq in
  map Poll rs ++ [Bg] ++ map (fun r => DialDone r (DOk false)) rs ++ [Bg] ++ map Poll rs ++ [Bg] ++ map Poll rs ++ [Bg]
  ++ map Finish rs ++ map Poll rs ++ map ConnReady (seq 0 (S nreq)) ++ [Bg] ++ map Poll rs
  ++ [Issue u p; Poll nreq; DialDone nreq (DOk false); Poll nreq].

Definition count_issues (ops : list op) : nat := List.length (filter (fun o => match o with Issue _ _ => true | _ => false end) ops).

(* (c) after the closing procedure every request has obtained a connection or an error (or was
       cancelled), including the probe *)
Definition all_resolved (m : mst) : bool := forallb (fun x => negb (is_live x)) (m_reqs m).

Definition mon_C03 (cfg : config) (ops : list op) (drained : bool) (obs : list opobs) : bool :=
  mon_with chk_C03 cfg ops obs && (if drained then all_resolved (final_mst cfg m0 ops obs) else true).

(* ------------------------------------------------------------------ C04 *)
(* has a multiplexed connection for this origin been established since op index [i]? *)
Definition share_conn_since (m : mst) (k : option key) (i : nat) : bool :=
  existsb (fun cy => let '(c, y) := cy in ci_share y && Nat.leb i (ci_new_at y) && same_key (conn_key m c) k)
          (combine (seq 0 (List.length (m_conns m))) (m_conns m)).

(* is an HTTP/2 attempt of another request for the same origin in flight?  (its transport connect has
   been called, the environment has not resolved it yet, it has not been dropped, and no multiplexed
   connection for the origin has been established since that request was issued - from then on the
   attempt is redundant and the request takes the established connection at its next poll) *)
Definition h2_flying (d6 : bool) (cfg : config) (m : mst) (r : nat) (k : option key) : bool :=
  existsb (fun ix => let '(i, x) := ix in
                     negb (Nat.eqb i r) && same_key (ri_key x) k
                     && match ri_proto x with H2 => true | H1 => false end
                     && match ri_dial x, ri_resolved x with DsFlying, None => true | _, _ => false end
                     && (is_live x || g_cont cfg)
                     && negb (share_conn_since m k (ri_at x))
                     && (d6 || negb (ri_d6 x)))              (* without [d6]: an attempt that only exists because of D6 does not count *)
          (combine (seq 0 (List.length (m_reqs m))) (m_reqs m)).

(* [d6]: also demand the clause that the pinned code violates (known finding D6: the shared handle is
   out of the idle list between the Issue that popped it and that request's first poll) *)
Definition chk_ev_C04 (d6 : bool) (cfg : config) (ob : opobs) (m : mst) (e : ev) : bool :=
  match e with
  | EDial r _ =>
      match nth_error (m_reqs m) r with
      | Some x =>
          if g_pool cfg && (d6 || negb (ri_d6 x)) then                 (* without [d6]: requests issued in the D6 window are exempt *)
            negb (ri_avail x)                                          (* S1/S3: a usable idle connection existed at its Issue *)
            && negb (match ri_proto x with H2 => h2_flying d6 cfg m r (ri_key x) | H1 => false end)   (* S2 *)
            && negb (d6 && h2_handle_out m r (ri_key x))                 (* S3 while the shared handle is checked out *)
          else true
      | None => false
      end
  | EDrop c =>
      (* S1-kept / S4: an open non-multiplexed connection is only discarded as surplus or expired *)
      match nth_error (m_conns m) c with
      | Some x =>
          if g_pool cfg && negb (ci_share x) then
            match ci_closed x with
            | Some _ => true
            | None => negb (unexpired cfg m x)
                      || Nat.leb (g_max_idle cfg) (List.length (idle_of (o_snap ob) (key_tok m (conn_key m c))))
            end
          else true
      | None => false
      end
  | _ => true
  end.
(* S4 / S1-kept at the level of the snapshot: after every operation no origin has both a request
   still waiting for a connection and an open connection parked in its idle list (a connection that
   comes back to the pool - by hand-back or because the checkout that popped it is dropped - is
   offered to the waiting requests, so that they do not dial for nothing) *)
Definition no_parked_while_waiting (cfg : config) (m : mst) (ob : opobs) : bool :=
  forallb (fun sn => Nat.eqb (sn_live sn) 0 || forallb (fun c => negb (open_conn m c && usable cfg m c)) (sn_idle sn)) (o_snap ob).

Definition chk_C04 (d6 : bool) (cfg : config) (m : mst) (o : op) (ob : opobs) : bool :=
  evs_ok (chk_ev_C04 d6 cfg ob) (track_op cfg m o ob) (o_events ob)
  && no_parked_while_waiting cfg (fold_left track_ev (o_events ob) (track_op cfg m o ob)) ob.
Definition mon_C04 := mon_with (chk_C04 true).
Definition mon_C04_but_D6 := mon_with (chk_C04 false).

(* ------------------------------------------------------------------ C14 *)
Definition chk_ev_C14 (cfg : config) (o : op) (ob : opobs) (m : mst) (e : ev) : bool :=
  match e with
  | ERdy c true =>
      (* (a1) a released open connection is not parked while a request is waiting for its origin *)
      match nth_error (m_conns m) c with
      | Some x =>
          if g_pool cfg && negb (ci_share x) && match ci_closed x with None => true | _ => false end then
            let t := key_tok m (conn_key m c) in
            negb (mem c (idle_of (o_snap ob) t) && Nat.ltb 0 (live_of (o_snap ob) t))
          else true
      | None => false
      end
  | EHand r c _ _ _ _ =>
      (* (a2) a waiting request that was offered a connection takes it at its next poll *)
      match nth_error (m_conns m) c, nth_error (m_reqs m) r with
      | Some x, Some y => match ci_offer x with Some i0 => Nat.leb (ri_lastpend y) (S i0) | None => true end
      | _, _ => false
      end
  | EPend r =>
      (* (a3) a request is not left waiting for its own dial while an open connection for its origin
              sits parked in the idle list *)
      match nth_error (m_reqs m) r with
      | Some y =>
          if g_pool cfg && is_live y && match ri_dial y with DsFlying => true | _ => false end then
            forallb (fun c => match nth_error (m_conns m) c with
                              | Some x => ci_share x || negb (open_conn m c && usable cfg m c)
                              | None => true end)
                    (idle_of (o_snap ob) (key_tok m (ri_key y)))
          else true
      | None => false
      end
  | ENew c sh r =>
      match nth_error (m_reqs m) r with
      | Some y =>
          if ri_aband y then
            (* (b) abandoned attempt: with continue_after_preemption its connection ends up available in
                   the pool (idle list, or offered to a waiter, or surplus); without it nothing appears *)
            g_cont cfg &&
            (let t := key_tok m (ri_key y) in
             mem c (idle_of (o_snap ob) t)
             || Nat.leb (g_max_idle cfg) (List.length (idle_of (o_snap ob) t))
             || Nat.ltb 0 (live_of (o_snap (m_prev m)) t))
          else true
      | None => false
      end
  | _ => true
  end.

(* (b') with continue_after_preemption an abandoned dial whose outcome has been scripted completes at
        the next run of the background tasks *)
Definition chk_bg_C14 (cfg : config) (m : mst) (o : op) (ob : opobs) : bool :=
  match o with
  | Bg =>
      forallb (fun ix => let '(i, x) := ix in
                 if ri_aband x && g_cont cfg && g_pool cfg
                    && match ri_dial x, ri_resolved x with DsFlying, Some true => true | _, _ => false end
                 then existsb (fun e => match e with ENew _ _ r => Nat.eqb r i | _ => false end) (o_events ob)
                 else true)
              (combine (seq 0 (List.length (m_reqs m))) (m_reqs m))
  | _ => true
  end.

Definition chk_C14 (cfg : config) (m : mst) (o : op) (ob : opobs) : bool :=
  evs_ok (chk_ev_C14 cfg o ob) (track_op cfg m o ob) (o_events ob) && chk_bg_C14 cfg m o ob.
Definition mon_C14 := mon_with chk_C14.
