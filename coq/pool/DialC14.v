(* C14 support, part 4 (clauses (b), (b')): model-only invariant [MD] about checkouts, dials and delayed
   tasks: a dial that is in flight or resolved and whose request no longer polls it is polled by a
   [TDelayed] task that is queued or parked as the dial's poller. *)
From HD Require Import common.Base http.Model pool.Model pool.Spec pool.Frames pool.BaseC14 pool.FramesC14.
Local Open Scope list_scope.

Definition isck (s : state) (r : nat) : Prop := exists ck, get_req s r = Some (RCheckout ck).
Definition contp (cfg : config) : bool := g_cont cfg && g_pool cfg.
Definition kin (cfg : config) (ck : checkout) : Prop :=
  k_inner ck <> IDelayed /\ (k_inner ck = IConnecting -> contp cfg = false)
  /\ (k_inner ck = IDelayDrop -> g_cont cfg = true /\ g_pool cfg = true /\ k_token ck <> 0).
Definition live_stage (d : dial) : Prop := d_stage d = DInFlight \/ exists y, d_stage d = DResolved y.
Definition gone_ok (ck : checkout) (d : dial) : Prop := (k_inner ck = IWaiting \/ k_inner ck = IConnected) -> d_stage d = DGone.
Definition polled_by (s : state) (r : nat) (d : dial) : Prop :=
  exists tid t own, nth tid (tasks s) None = Some (TDelayed r t own) /\
    (In tid (runq s) \/ (d_stage d = DInFlight /\ d_polled d = Some (ByTask tid))).

Record MD (cfg : config) (x : option nat) (s : state) : Prop := mkMD {
  md_len : List.length (reqs s) = List.length (dials s);
  md_ck : forall r ck, get_req s r = Some (RCheckout ck) -> kin cfg ck /\ (forall d, get_dial s r = Some d -> gone_ok ck d);
  md_task : forall tid r t own, nth tid (tasks s) None = Some (TDelayed r t own) -> g_cont cfg = true /\ g_pool cfg = true /\ t <> 0;
  md_bg : forall r d, x <> Some r -> get_dial s r = Some d -> ~ isck s r -> live_stage d -> polled_by s r d;
  md_tl : List.length (toks s) = List.length (keys s);
  md_ct : forall r ck, get_req s r = Some (RCheckout ck) -> k_token ck <= List.length (toks s);
  md_tt : forall tid r t own, nth tid (tasks s) None = Some (TDelayed r t own) -> t <= List.length (toks s)
}.

Lemma nth_some_lt {A} (l : list (option A)) n x : nth n l None = Some x -> n < List.length l.
Proof. intros H. destruct (Nat.lt_ge_cases n (List.length l)); [assumption|]. rewrite nth_overflow in H by assumption. discriminate. Qed.

(* ------------------------------------------------------------------ the frame of [MD] *)
Definition rel_req (o o' : option req) : Prop :=
  match o with
  | Some (RCheckout ck) => exists ck', o' = Some (RCheckout ck') /\ k_inner ck' = k_inner ck /\ k_token ck' = k_token ck
  | _ => o' = o
  end.
Record mdf (s s' : state) : Prop := mkMdf {
  mf_dials : dials s' = dials s;
  mf_rlen : List.length (reqs s') = List.length (reqs s);
  mf_req : forall r, rel_req (get_req s r) (get_req s' r);
  mf_keep : forall tid r t own, nth tid (tasks s) None = Some (TDelayed r t own) -> nth tid (tasks s') None = Some (TDelayed r t own);
  mf_new : forall tid r t own, nth tid (tasks s') None = Some (TDelayed r t own) -> nth tid (tasks s) None = Some (TDelayed r t own);
  mf_runq : forall tid, In tid (runq s) -> In tid (runq s');
  mf_tl : List.length (toks s') = List.length (toks s);
  mf_keys : keys s' = keys s
}.

Lemma rel_req_refl o : rel_req o o.
Proof. destruct o as [[|ck| | |]|]; cbn; eauto. Qed.
Lemma rel_req_trans a b c : rel_req a b -> rel_req b c -> rel_req a c.
Proof.
  destruct a as [[|ck| | |]|]; cbn; try (intros ->; auto; fail).
  intros (ck1 & -> & A & B). cbn. intros (ck2 & -> & A' & B'). exists ck2. repeat split; congruence.
Qed.
Lemma rel_req_isck s s' r : rel_req (get_req s r) (get_req s' r) -> (isck s r <-> isck s' r).
Proof.
  unfold isck. intros H. split; intros [ck Hc].
  - rewrite Hc in H. destruct H as (ck' & -> & _). eauto.
  - destruct (get_req s r) as [[|ck0| | |]|]; cbn in H; eauto; rewrite H in Hc; discriminate.
Qed.

Lemma rel_req_back' s s' r ck : rel_req (get_req s r) (get_req s' r) -> get_req s' r = Some (RCheckout ck) ->
  exists ck0, get_req s r = Some (RCheckout ck0) /\ k_inner ck = k_inner ck0 /\ k_token ck = k_token ck0.
Proof.
  intros Hr H. destruct (get_req s r) as [[|ck0| | |]|]; cbn in Hr; try (rewrite Hr in H; discriminate).
  destruct Hr as (ck' & Hq & Hi & Ht). rewrite Hq in H. inversion H; subst ck'. eauto.
Qed.

Lemma mdf_refl s : mdf s s.
Proof. constructor; auto. intros r. apply rel_req_refl. Qed.
Lemma mdf_trans s1 s2 s3 : mdf s1 s2 -> mdf s2 s3 -> mdf s1 s3.
Proof.
  intros [A1 A2 A3 A4 A5 A6 A7 A8] [B1 B2 B3 B4 B5 B6 B7 B8]. constructor; try congruence; auto.
  intros r. eapply rel_req_trans; eauto.
Qed.

Lemma MD_mdf cfg x s s' : mdf s s' -> MD cfg x s -> MD cfg x s'.
Proof.
  intros [F1 F2 F3 F4 F5 F6 F7 F8] [M1 M2 M3 M4 M5 M6 M7]. constructor.
  - congruence.
  - intros r ck Hr. pose proof (F3 r) as Hrel. unfold get_dial. rewrite F1.
    destruct (get_req s r) as [[|ck0| | |]|] eqn:E; cbn in Hrel; try (rewrite Hrel in Hr; discriminate).
    destruct Hrel as (ck' & Hq & Hi & Ht). rewrite Hq in Hr. inversion Hr; subst ck'.
    destruct (M2 r ck0 E) as [(K1 & K2 & K3) K4]. split.
    + unfold kin. rewrite Hi, Ht. auto.
    + intros d Hd. unfold gone_ok. rewrite Hi. apply K4. exact Hd.
  - intros tid r t own Ht. eapply M3. eapply F5. exact Ht.
  - intros r d Hx Hd Hn Hl. unfold get_dial in Hd. rewrite F1 in Hd.
    assert (Hn' : ~ isck s r) by (intros Hc; apply Hn; apply (rel_req_isck s s' r (F3 r)); exact Hc).
    destruct (M4 r d Hx Hd Hn' Hl) as (tid & t & own & Ht & Hq). exists tid, t, own. split; [apply F4; exact Ht|].
    destruct Hq as [Hq|Hq]; [left; apply F6; exact Hq|right; exact Hq].
  - congruence.
  - intros r ck Hr. rewrite F7. destruct (rel_req_back' s s' r ck (F3 r) Hr) as (ck0 & H0 & _ & Ht). rewrite Ht. eapply M6; eauto.
  - intros tid r t own Ht. rewrite F7. eapply M7. eapply F5. exact Ht.
Qed.

Lemma mdf_frame s s' : reqs s' = reqs s -> dials s' = dials s -> tasks s' = tasks s -> runq s' = runq s ->
  toks s' = toks s -> keys s' = keys s -> mdf s s'.
Proof.
  intros H1 H2 H3 H4 H5 H6. constructor; try congruence.
  intros r. unfold get_req. rewrite H1. apply rel_req_refl.
Qed.

Ltac mfr := apply mdf_frame; reflexivity.
Lemma mdf_emit e s : mdf s (emit e s). Proof. mfr. Qed.
Lemma mdf_upd_conn c f s : mdf s (upd_conn c f s). Proof. mfr. Qed.
Lemma mdf_upd_tok t f s : mdf s (upd_tok t f s).
Proof.
  destruct t; [mfr|]. constructor; try reflexivity; auto.
  - intros r. apply rel_req_refl.
  - cbn. apply upd_nth_len.
Qed.
Lemma mdf_wake_req r s : mdf s (wake_req r s). Proof. mfr. Qed.
Lemma mdf_unwake_req r s : mdf s (unwake_req r s). Proof. mfr. Qed.
Lemma mdf_clone_conn c s : mdf s (clone_conn c s). Proof. mfr. Qed.
Lemma mdf_drop_conn c s : mdf s (drop_conn c s).
Proof. unfold drop_conn. destruct (get_conn s c); [|apply mdf_refl]. destruct (Nat.eqb _ _); mfr. Qed.
Lemma mdf_drop_all l : forall s, mdf s (drop_all l s).
Proof. induction l as [|[c a] l IH]; intros s; cbn [drop_all]; [apply mdf_refl|]. eapply mdf_trans; [apply mdf_drop_conn|apply IH]. Qed.

Lemma nth_app_some {A} (l l' : list (option A)) n x : nth n l None = Some x -> nth n (l ++ l') None = Some x.
Proof. intros H. rewrite app_nth1; [exact H|]. eapply nth_some_lt; eauto. Qed.

Lemma mdf_spawn_ready c t s : mdf s (spawn (TWhenReady c t) s).
Proof.
  constructor; try reflexivity.
  - intros r. apply rel_req_refl.
  - intros tid r t0 own H. cbn. apply nth_app_some. exact H.
  - intros tid r t0 own H. cbn in H. destruct (Nat.lt_ge_cases tid (List.length (tasks s))) as [Hl|Hg].
    + rewrite app_nth1 in H by exact Hl. exact H.
    + rewrite app_nth2 in H by exact Hg. destruct (tid - List.length (tasks s)) as [|[|k]]; cbn in H; discriminate.
  - intros tid H. cbn. apply in_or_app. left. exact H.
Qed.

Lemma mdf_wake_task t s : mdf s (wake_task t s).
Proof.
  unfold wake_task. destruct (existsb _ _); [apply mdf_refl|]. constructor; try reflexivity; auto.
  - intros r. apply rel_req_refl.
  - intros tid H. cbn. apply in_or_app. left. exact H.
Qed.
Lemma mdf_wake_tasks l : forall s, mdf s (wake_tasks l s).
Proof. induction l as [|t l IH]; intros s; cbn [wake_tasks]; [apply mdf_refl|]. eapply mdf_trans; [apply mdf_wake_task|apply IH]. Qed.
Lemma mdf_wake_poller p r s : mdf s (wake_poller p r s).
Proof. destruct p as [[|tid]|]; cbn [wake_poller]; [apply mdf_wake_req|apply mdf_wake_task|apply mdf_refl]. Qed.

Lemma nth_upd_none {A} (l : list (option A)) tid n : nth n (upd_nth tid (fun _ => None) l) None = if Nat.eqb tid n then None else nth n l None.
Proof. rewrite nth_upd. destruct (Nat.eqb tid n); [|reflexivity]. destruct (n <? List.length l); reflexivity. Qed.

Lemma mdf_finish_ready tid c t s : nth tid (tasks s) None = Some (TWhenReady c t) -> mdf s (finish_task tid s).
Proof.
  intros Ht. constructor; try reflexivity; auto.
  - intros r. apply rel_req_refl.
  - intros n r t0 own H. cbn. rewrite nth_upd_none. destruct (Nat.eqb_spec tid n) as [->|]; [congruence|exact H].
  - intros n r t0 own H. cbn in H. rewrite nth_upd_none in H. destruct (Nat.eqb tid n); [discriminate|exact H].
Qed.

Lemma mdf_pooled_drop p s : mdf s (pooled_drop p s).
Proof. destruct p as [c t]. unfold pooled_drop. destruct (share_of s c); [apply mdf_drop_conn|apply mdf_spawn_ready]. Qed.

Lemma get_req_set_req s w v r : get_req (set_req w v s) r = if Nat.eqb w r then option_map (fun _ => v) (get_req s r) else get_req s r.
Proof. unfold get_req, set_req. cbn [reqs set_reqs]. apply nth_error_upd. Qed.

Lemma mdf_set_req_ck w ck ck' s : get_req s w = Some (RCheckout ck) -> k_inner ck' = k_inner ck -> k_token ck' = k_token ck ->
  mdf s (set_req w (RCheckout ck') s).
Proof.
  intros Hw Hi Ht. constructor; try reflexivity; auto.
  - cbn. apply upd_nth_len.
  - intros r. rewrite get_req_set_req. destruct (Nat.eqb_spec w r) as [<-|]; [|apply rel_req_refl].
    rewrite Hw. cbn. eauto.
Qed.

Lemma mdf_deliver w p s : mdf s (deliver w p s).
Proof.
  unfold deliver. destruct (get_req s w) as [[|ck| | |]|] eqn:E; try apply mdf_refl.
  assert (H : mdf s (set_req w (RCheckout (k_set_slot (Some p) ck)) s)) by (eapply mdf_set_req_ck; eauto).
  destruct (k_rxpolled ck); [eapply mdf_trans; [exact H|apply mdf_wake_req]|exact H].
Qed.
Lemma mdf_drop_sender w s : mdf s (drop_sender w s).
Proof.
  unfold drop_sender. destruct (get_req s w) as [[|ck| | |]|] eqn:E; try apply mdf_refl.
  assert (H : mdf s (set_req w (RCheckout (k_set_txdropped true ck)) s)) by (eapply mdf_set_req_ck; eauto).
  destruct (k_waiter ck); try apply mdf_refl;
    (destruct (k_rxpolled ck); [eapply mdf_trans; [exact H|apply mdf_wake_req]|exact H]).
Qed.
Lemma mdf_walk_waiters t c sh ws : forall s, mdf s (snd (walk_waiters t c sh ws s)).
Proof.
  induction ws as [|[w b] ws IH]; intros s; cbn [walk_waiters]; [apply mdf_refl|].
  destruct (rx_live s w); [destruct sh|].
  - eapply mdf_trans; [|apply IH]. eapply mdf_trans; [apply mdf_clone_conn|apply mdf_deliver].
  - cbn [snd]. apply mdf_deliver.
  - apply IH.
Qed.
Lemma mdf_release_pending ws : forall s, mdf s (snd (release_pending ws s)).
Proof.
  induction ws as [|[w b] ws IH]; intros s; cbn [release_pending]; [apply mdf_refl|].
  destruct b.
  - eapply mdf_trans; [apply mdf_drop_sender|apply IH].
  - specialize (IH s). destruct (release_pending ws s). exact IH.
Qed.
Lemma mdf_pool_cancel t rid s : mdf s (pool_cancel t rid s).
Proof.
  unfold pool_cancel. destruct (p_marker (get_tok s t)) as [o|]; [|apply mdf_refl].
  destruct (Nat.eqb o rid); [|apply mdf_refl].
  pose proof (mdf_release_pending (p_waiting (get_tok (upd_tok t (set_marker None) s) t)) (upd_tok t (set_marker None) s)) as H.
  destruct (release_pending _ _) as [rest s2]. cbn [snd] in H.
  eapply mdf_trans; [apply mdf_upd_tok|]. eapply mdf_trans; [exact H|apply mdf_upd_tok].
Qed.
Lemma mdf_pop_loop thr rl : forall s, mdf s (snd (pop_loop thr rl s)).
Proof.
  induction rl as [|[c a] rl IH]; intros s; cbn [pop_loop]; [apply mdf_refl|].
  destruct (match thr with Some y => (a <? y)%N | None => false end); cbn [snd].
  - eapply mdf_trans; [apply mdf_drop_conn|apply mdf_drop_all].
  - destruct (is_open s c); cbn [snd]; [apply mdf_refl|]. eapply mdf_trans; [apply mdf_drop_conn|apply IH].
Qed.
Lemma mdf_pool_pop to t s : mdf s (snd (pool_pop to t s)).
Proof.
  unfold pool_pop.
  pose proof (mdf_pop_loop (expiry_threshold to (now s)) (rev (p_idle (get_tok s t))) s) as H.
  destruct (pop_loop _ _ _) as [[r rest] s1]. cbn [snd] in *. eapply mdf_trans; [exact H|apply mdf_upd_tok].
Qed.
Lemma mdf_pool_push n t c s : mdf s (pool_push n t c s).
Proof.
  unfold pool_push.
  set (s1 := if share_of s c then upd_tok t (set_marker None) s else s).
  assert (H1 : mdf s s1) by (subst s1; destruct (share_of s c); [apply mdf_upd_tok|apply mdf_refl]).
  pose proof (mdf_walk_waiters t c (share_of s1 c) (p_waiting (get_tok s1 t)) s1) as H2.
  destruct (walk_waiters _ _ _ _ _) as [[rest moved] s2]. cbn [snd] in H2.
  assert (H3 : mdf s (upd_tok t (set_waiting rest) s2)).
  { eapply mdf_trans; [exact H1|]. eapply mdf_trans; [exact H2|apply mdf_upd_tok]. }
  destruct moved; [exact H3|].
  match goal with |- mdf _ (if ?b then _ else _) => destruct b end.
  - eapply mdf_trans; [exact H3|apply mdf_upd_tok].
  - eapply mdf_trans; [exact H3|apply mdf_drop_conn].
Qed.
Lemma mdf_register cfg t c s : mdf s (snd (register cfg t c s)).
Proof.
  unfold register. destruct (g_pool cfg && negb (t =? 0)); [destruct (share_of s c)|]; cbn [snd]; try apply mdf_refl.
  destruct (is_open s c); [|apply mdf_refl]. eapply mdf_trans; [apply mdf_clone_conn|apply mdf_pool_push].
Qed.
Lemma mdf_rx_drop ck s : mdf s (snd (rx_drop ck s)).
Proof. unfold rx_drop. destruct (k_waiter ck), (k_slot ck); cbn [snd]; try apply mdf_refl; apply mdf_pooled_drop. Qed.

(* ------------------------------------------------------------------ requests *)
Lemma isck_set_req_ne s w v r : w <> r -> (isck (set_req w v s) r <-> isck s r).
Proof. intros H. unfold isck. rewrite get_req_set_req. destruct (Nat.eqb_spec w r); [contradiction|reflexivity]. Qed.

Lemma MD_weaken cfg x s : MD cfg None s -> MD cfg x s.
Proof. intros [M1 M2 M3 M4 M5 M6 M7]. constructor; auto. intros r d _. apply M4. discriminate. Qed.

Lemma polled_by_frame s s' r d : tasks s' = tasks s -> runq s' = runq s -> polled_by s r d -> polled_by s' r d.
Proof. unfold polled_by. intros -> ->. auto. Qed.

(* the excepted request may be rewritten freely *)
Lemma MD_set_req_x cfg r v s : MD cfg (Some r) s ->
  (forall ck, v = RCheckout ck -> kin cfg ck /\ (forall d, get_dial s r = Some d -> gone_ok ck d)) ->
  (forall ck, v = RCheckout ck -> k_token ck <= List.length (toks s)) ->
  MD cfg (Some r) (set_req r v s).
Proof.
  intros [M1 M2 M3 M4 M5 M6 M7] Hv Hb. constructor.
  - cbn. rewrite upd_nth_len. exact M1.
  - intros r' ck. rewrite get_req_set_req. destruct (Nat.eqb_spec r r') as [<-|Hn]; [|apply M2].
    destruct (get_req s r); [|discriminate]. cbn. intros H. inversion H. apply Hv. assumption.
  - exact M3.
  - intros r' d Hx Hd Hn Hl. assert (Hne : r <> r') by congruence.
    apply (polled_by_frame s); try reflexivity. apply M4; auto. intros Hc. apply Hn. apply isck_set_req_ne; assumption.
  - exact M5.
  - intros r' ck. rewrite get_req_set_req. destruct (Nat.eqb_spec r r') as [<-|Hn]; [|apply M6].
    destruct (get_req s r); [|discriminate]. cbn. intros H. inversion H. apply Hb. assumption.
  - exact M7.
Qed.

Lemma MD_close cfg r s : MD cfg (Some r) s ->
  (forall d, get_dial s r = Some d -> ~ isck s r -> live_stage d -> polled_by s r d) -> MD cfg None s.
Proof.
  intros [M1 M2 M3 M4 M5 M6 M7] H. constructor; auto. intros r' d _ Hd Hn Hl.
  destruct (Nat.eq_dec r' r) as [->|Hne]; [apply H; auto|apply M4; auto; congruence].
Qed.
Lemma MD_close_ck cfg r s : MD cfg (Some r) s -> isck s r -> MD cfg None s.
Proof. intros H Hc. eapply MD_close; [exact H|]. intros d _ Hn. contradiction. Qed.

(* a request that is not a checkout stays one *)
Lemma MD_set_req_nock cfg x r q v s : get_req s r = Some q -> (forall ck, q <> RCheckout ck) -> (forall ck, v <> RCheckout ck) ->
  MD cfg x s -> MD cfg x (set_req r v s).
Proof.
  intros Hq Hnq Hnv [M1 M2 M3 M4 M5 M6 M7]. constructor.
  - cbn. rewrite upd_nth_len. exact M1.
  - intros r' ck. rewrite get_req_set_req. destruct (Nat.eqb_spec r r') as [<-|Hn]; [|apply M2].
    rewrite Hq. cbn. intros H. inversion H. exfalso. eapply Hnv; eauto.
  - exact M3.
  - intros r' d Hx Hd Hn Hl. apply (polled_by_frame s); try reflexivity. apply M4; auto.
    intros [ck Hc]. destruct (Nat.eq_dec r r') as [<-|Hne].
    + rewrite Hq in Hc. inversion Hc. eapply Hnq; eauto.
    + apply Hn. apply isck_set_req_ne; [exact Hne|]. exists ck. exact Hc.
  - exact M5.
  - intros r' ck. rewrite get_req_set_req. destruct (Nat.eqb_spec r r') as [<-|Hn]; [|apply M6].
    rewrite Hq. cbn. intros H. inversion H. exfalso. eapply Hnv; eauto.
  - exact M7.
Qed.

(* ------------------------------------------------------------------ dials *)
Lemma get_dial_upd s r f r' : get_dial (upd_dial r f s) r' = if Nat.eqb r r' then option_map f (get_dial s r') else get_dial s r'.
Proof. unfold get_dial, upd_dial. cbn [dials set_dials]. apply nth_error_upd. Qed.

Lemma MD_upd_dial cfg x r f s : MD cfg x s ->
  (forall d ck, get_dial s r = Some d -> get_req s r = Some (RCheckout ck) -> gone_ok ck d -> gone_ok ck (f d)) ->
  (forall d, get_dial s r = Some d -> x <> Some r -> ~ isck s r -> live_stage (f d) ->
     (live_stage d /\ (polled_by s r d -> polled_by s r (f d))) \/ polled_by s r (f d)) ->
  MD cfg x (upd_dial r f s).
Proof.
  intros [M1 M2 M3 M4 M5 M6 M7] Hg Hb. constructor.
  - cbn. rewrite upd_nth_len. exact M1.
  - intros r' ck Hr. destruct (M2 r' ck Hr) as [K1 K2]. split; [exact K1|]. intros d'. rewrite get_dial_upd.
    destruct (Nat.eqb_spec r r') as [<-|Hn]; [|apply K2]. destruct (get_dial s r) as [d|] eqn:Ed; [|discriminate].
    cbn. intros H. inversion H; subst d'. apply (Hg d ck); auto.
  - exact M3.
  - intros r' d' Hx. rewrite get_dial_upd. destruct (Nat.eqb_spec r r') as [<-|Hn].
    + destruct (get_dial s r) as [d|] eqn:Ed; [|discriminate]. cbn. intros H Hc Hl. inversion H; subst d'.
      apply (polled_by_frame s); try reflexivity.
      destruct (Hb d eq_refl Hx Hc Hl) as [[Hl0 Hp]|Hp]; [|exact Hp]. apply Hp. apply M4; auto.
    + intros Hd Hc Hl. apply (polled_by_frame s); try reflexivity. apply M4; auto.
  - exact M5.
  - exact M6.
  - exact M7.
Qed.

Lemma MD_dial_gone cfg x r s : MD cfg x s -> MD cfg x (upd_dial r (d_set_stage DGone) s).
Proof.
  intros H. apply MD_upd_dial; auto.
  - intros d ck _ _ _ _. reflexivity.
  - intros d _ _ _ [Hl|[y Hl]]; cbn in Hl; discriminate.
Qed.

(* ------------------------------------------------------------------ tasks *)
Lemma MD_spawn_delayed cfg x r t own s : MD cfg x s -> g_cont cfg = true -> g_pool cfg = true -> t <> 0 ->
  t <= List.length (toks s) ->
  MD cfg x (spawn (TDelayed r t own) s) /\ (forall d, polled_by (spawn (TDelayed r t own) s) r d).
Proof.
  intros [M1 M2 M3 M4 M5 M6 M7] H1 H2 H3 H4.
  assert (Hnew : nth (List.length (tasks s)) (tasks s ++ [Some (TDelayed r t own)]) None = Some (TDelayed r t own))
    by (rewrite app_nth2, Nat.sub_diag by lia; reflexivity).
  split.
  - constructor; auto.
    + intros tid r' t' own' H. cbn in H. destruct (Nat.lt_ge_cases tid (List.length (tasks s))) as [Hl|Hg].
      * rewrite app_nth1 in H by exact Hl. eapply M3; eauto.
      * rewrite app_nth2 in H by exact Hg. destruct (tid - List.length (tasks s)) as [|[|k]]; cbn in H; try discriminate.
        inversion H; subst. auto.
    + intros r' d Hx Hd Hn Hl. destruct (M4 r' d Hx Hd Hn Hl) as (tid & t' & own' & Ht & Hq).
      exists tid, t', own'. split; [cbn; apply nth_app_some; exact Ht|].
      destruct Hq as [Hq|Hq]; [left; cbn; apply in_or_app; left; exact Hq|right; exact Hq].
    + intros tid r' t' own' H. cbn in H. destruct (Nat.lt_ge_cases tid (List.length (tasks s))) as [Hl|Hg].
      * rewrite app_nth1 in H by exact Hl. eapply M7; eauto.
      * rewrite app_nth2 in H by exact Hg. destruct (tid - List.length (tasks s)) as [|[|k]]; cbn in H; try discriminate.
        inversion H; subst. exact H4.
  - intros d. exists (List.length (tasks s)), t, own. split; [exact Hnew|]. left. cbn. apply in_or_app. right. left. reflexivity.
Qed.

Lemma polled_by_mdf s s' r d : mdf s s' -> polled_by s r d -> polled_by s' r d.
Proof.
  intros F (tid & t & own & Ht & Hq). exists tid, t, own. split; [apply (mf_keep _ _ F); exact Ht|].
  destruct Hq as [Hq|Hq]; [left; apply (mf_runq _ _ F); exact Hq|right; exact Hq].
Qed.

Lemma MD_finish_delayed cfg rid tid t own s : MD cfg (Some rid) s -> nth tid (tasks s) None = Some (TDelayed rid t own) ->
  MD cfg (Some rid) (finish_task tid s).
Proof.
  intros [M1 M2 M3 M4 M5 M6 M7] Ht. constructor; auto.
  - intros n r t0 own0 H. cbn in H. rewrite nth_upd_none in H. destruct (Nat.eqb tid n); [discriminate|]. eapply M3; eauto.
  - intros r d Hx Hd Hn Hl. destruct (M4 r d Hx Hd Hn Hl) as (n & t' & own' & Hn' & Hq).
    exists n, t', own'. split; [|exact Hq]. cbn. rewrite nth_upd_none.
    destruct (Nat.eqb_spec tid n) as [->|]; [|exact Hn']. rewrite Ht in Hn'. inversion Hn'; subst. contradiction Hx. reflexivity.
  - intros n r t0 own0 H. cbn in H. rewrite nth_upd_none in H. destruct (Nat.eqb tid n); [discriminate|]. eapply M7; eauto.
Qed.

(* ------------------------------------------------------------------ the connector *)
Definition cp_post (rid : nat) (by_ : poller) (s : state) (rs : cpoll * state) : Prop :=
  (forall d', get_dial (snd rs) rid = Some d' -> live_stage d' -> d_stage d' = DInFlight /\ d_polled d' = Some by_)
  /\ (forall res d', fst rs = CReady res -> get_dial (snd rs) rid = Some d' -> d_stage d' = DGone)
  /\ tasks (snd rs) = tasks s /\ runq (snd rs) = runq s /\ reqs (snd rs) = reqs s.

Lemma get_dial_upd_same s r f d : get_dial s r = Some d -> get_dial (upd_dial r f s) r = Some (f d).
Proof. intros H. rewrite get_dial_upd, Nat.eqb_refl, H. reflexivity. Qed.

Lemma MD_connector_poll cfg rid by_ s : MD cfg (Some rid) s ->
  MD cfg (Some rid) (snd (connector_poll rid by_ s)) /\ cp_post rid by_ s (connector_poll rid by_ s).
Proof.
  intros H. unfold connector_poll, cp_post. destruct (get_dial s rid) as [d|] eqn:Ed; cbn [fst snd].
  2: { split; [exact H|]. rewrite Ed. repeat split; try discriminate. }
  assert (Hgo : forall f, d_stage d <> DGone -> forall d0 ck, get_dial s rid = Some d0 -> get_req s rid = Some (RCheckout ck) -> gone_ok ck d0 -> gone_ok ck (f d0)).
  { intros f Hs d0 ck H0 _ Hg Hk. rewrite Ed in H0. inversion H0; subst d0. contradiction Hs. auto. }
  assert (Hex : forall f d0, get_dial s rid = Some d0 -> Some rid <> Some rid -> ~ isck s rid -> live_stage (f d0) ->
                 (live_stage d0 /\ (polled_by s rid d0 -> polled_by s rid (f d0))) \/ polled_by s rid (f d0))
    by (intros f d0 _ Hx; contradiction Hx; reflexivity).
  assert (Hgd : forall f s0, get_dial s0 rid = Some d -> get_dial (upd_dial rid f s0) rid = Some (f d))
    by (intros f s0 H0; apply get_dial_upd_same; exact H0).
  assert (Hdead : forall d0, d_stage d0 = DGone -> live_stage d0 -> False)
    by (intros d0 E0 [Hl|[y Hl]]; rewrite E0 in Hl; discriminate).
  destruct (d_stage d) as [| |[a| |]|] eqn:Es; cbn [fst snd].
  - (* DNew *)
    split.
    + apply (MD_upd_dial cfg (Some rid) rid _ (emit (EDial rid (d_key d)) s)); [eapply MD_mdf; [apply mdf_emit|exact H]| |].
      * apply Hgo. discriminate.
      * apply Hex.
    + rewrite (Hgd _ (emit (EDial rid (d_key d)) s) Ed).
      split; [intros d' Hd Hl; inversion Hd; subst d'; clear Hd|split; [intros res d' Hr Hd; discriminate Hr|repeat split]].
      split; reflexivity.
  - (* DInFlight *)
    split.
    + apply MD_upd_dial; [exact H| |]; [apply Hgo; discriminate|apply Hex].
    + rewrite (Hgd _ s Ed).
      split; [intros d' Hd Hl; inversion Hd; subst d'; clear Hd|split; [intros res d' Hr Hd; discriminate Hr|repeat split]].
      cbn. split; [exact Es|reflexivity].
  - (* resolved, ok *)
    split.
    + apply MD_dial_gone. eapply MD_mdf; [|exact H]. apply mdf_frame; reflexivity.
    + match goal with |- context [upd_dial rid ?f ?s0] => rewrite (Hgd f s0 Ed) end.
      split; [intros d' Hd Hl; inversion Hd; subst d'; clear Hd|split; [intros res d' Hr Hd; inversion Hd; reflexivity|repeat split]].
      exfalso. eapply Hdead; [|exact Hl]. reflexivity.
  - split; [apply MD_dial_gone; exact H|]. rewrite (Hgd _ s Ed).
    split; [intros d' Hd Hl; inversion Hd; subst d'; clear Hd|split; [intros res d' Hr Hd; inversion Hd; reflexivity|repeat split]].
    exfalso. eapply Hdead; [|exact Hl]. reflexivity.
  - split; [apply MD_dial_gone; exact H|]. rewrite (Hgd _ s Ed).
    split; [intros d' Hd Hl; inversion Hd; subst d'; clear Hd|split; [intros res d' Hr Hd; inversion Hd; reflexivity|repeat split]].
    exfalso. eapply Hdead; [|exact Hl]. reflexivity.
  - split; [exact H|]. rewrite Ed.
    split; [intros d' Hd Hl; inversion Hd; subst d'; clear Hd|split; [intros res d' Hr Hd; discriminate Hr|repeat split]].
    exfalso. eapply Hdead; [exact Es|exact Hl].
Qed.

(* ------------------------------------------------------------------ dropping a checkout *)
Lemma mdf_get_dial s s' r : mdf s s' -> get_dial s' r = get_dial s r.
Proof. intros F. unfold get_dial. rewrite (mf_dials _ _ F). reflexivity. Qed.
Lemma mdf_not_isck s s' r : mdf s s' -> ~ isck s r -> ~ isck s' r.
Proof. intros F Hn Hc. apply Hn. apply (rel_req_isck s s' r (mf_req _ _ F r)). exact Hc. Qed.

Lemma not_live_gone d : d_stage d = DGone -> ~ live_stage d.
Proof. intros E [Hl|[y Hl]]; rewrite E in Hl; discriminate. Qed.

Lemma MD_checkout_drop cfg rid ck s : MD cfg (Some rid) s -> kin cfg ck -> (forall d, get_dial s rid = Some d -> gone_ok ck d) ->
  ~ isck s rid -> k_token ck <= List.length (toks s) -> MD cfg None (checkout_drop cfg rid ck s).
Proof.
  intros H (K1 & K2 & K3) Hg Hn Hb. unfold checkout_drop.
  set (s1 := match k_conn ck with
             | Some c => if is_open s c && (g_pool cfg && negb (k_token ck =? 0)) then pool_push (g_max_idle cfg) (k_token ck) c s else drop_conn c s
             | None => s end).
  assert (F1 : mdf s s1).
  { subst s1. destruct (k_conn ck) as [c|]; [|apply mdf_refl].
    destruct (is_open s c && (g_pool cfg && negb (k_token ck =? 0))); [apply mdf_pool_push|apply mdf_drop_conn]. }
  assert (H1 : MD cfg (Some rid) s1) by (eapply MD_mdf; eauto).
  assert (Hd1 : get_dial s1 rid = get_dial s rid) by (apply mdf_get_dial; exact F1).
  assert (Hn1 : ~ isck s1 rid) by (eapply mdf_not_isck; eauto).
  set (started := match get_dial s1 rid with Some d => match d_stage d with DNew => false | _ => true end | None => false end).
  set (delayed := match k_inner ck with IDelayDrop => started | _ => false end).
  set (s2 := if delayed then spawn (TDelayed rid (k_token ck) (k_owner ck)) s1
             else if g_pool cfg && negb (k_token ck =? 0) && k_owner ck then pool_cancel (k_token ck) rid s1 else s1).
  assert (H2 : MD cfg (Some rid) s2 /\ get_dial s2 rid = get_dial s rid /\ ~ isck s2 rid /\ (delayed = true -> forall d, polled_by s2 rid d)).
  { subst s2. destruct delayed eqn:Ed.
    - assert (Ei : k_inner ck = IDelayDrop) by (subst delayed; destruct (k_inner ck); try discriminate; reflexivity).
      destruct (K3 Ei) as (G1 & G2 & G3).
      assert (Hb1 : k_token ck <= List.length (toks s1)) by (rewrite (mf_tl _ _ F1); exact Hb).
      destruct (MD_spawn_delayed cfg (Some rid) rid (k_token ck) (k_owner ck) s1 H1 G1 G2 G3 Hb1) as [A B].
      split; [exact A|split; [exact Hd1|split; [exact Hn1|intros _; exact B]]].
    - assert (F2 : mdf s1 (if g_pool cfg && negb (k_token ck =? 0) && k_owner ck then pool_cancel (k_token ck) rid s1 else s1))
        by (destruct (g_pool cfg && negb (k_token ck =? 0) && k_owner ck); [apply mdf_pool_cancel|apply mdf_refl]).
      split; [eapply MD_mdf; eauto|split; [rewrite (mdf_get_dial _ _ rid F2); exact Hd1|split; [eapply mdf_not_isck; eauto|discriminate]]]. }
  destruct H2 as (H2 & Hd2 & Hn2 & Hp2).
  pose proof (mdf_rx_drop ck s2) as F3. destruct (rx_drop ck s2) as [ck' s3]. cbn [snd] in F3.
  assert (H3 : MD cfg (Some rid) s3) by (eapply MD_mdf; eauto).
  assert (Hd3 : get_dial s3 rid = get_dial s rid) by (rewrite (mdf_get_dial _ _ rid F3); exact Hd2).
  assert (Hgone : forall s4, s4 = upd_dial rid (d_set_stage DGone) s3 -> MD cfg None s4).
  { intros s4 ->. eapply MD_close; [apply MD_dial_gone; exact H3|]. intros d Hd _ Hl. exfalso.
    rewrite get_dial_upd, Nat.eqb_refl in Hd. destruct (get_dial s3 rid); [|discriminate]. inversion Hd; subst d.
    eapply not_live_gone; [|exact Hl]. reflexivity. }
  assert (Hstay : (forall d, get_dial s rid = Some d -> d_stage d = DGone) -> MD cfg None s3).
  { intros Hs. eapply MD_close; [exact H3|]. intros d Hd _ Hl. exfalso. rewrite Hd3 in Hd. eapply not_live_gone; eauto. }
  destruct (k_inner ck) eqn:Ei.
  - apply Hstay. intros d Hd. apply (Hg d Hd). left; exact Ei.
  - apply Hstay. intros d Hd. apply (Hg d Hd). right; exact Ei.
  - apply Hgone; reflexivity.
  - destruct delayed eqn:Ed; [|apply Hgone; reflexivity].
    eapply MD_close; [exact H3|]. intros d _ _ _. eapply polled_by_mdf; [exact F3|]. apply Hp2. reflexivity.
  - exfalso. congruence.
Qed.

(* ------------------------------------------------------------------ polling a checkout *)
Lemma waiter_poll_same ck : k_inner (snd (waiter_poll ck)) = k_inner ck /\ k_token (snd (waiter_poll ck)) = k_token ck
  /\ k_conn (snd (waiter_poll ck)) = k_conn ck /\ k_owner (snd (waiter_poll ck)) = k_owner ck.
Proof. unfold waiter_poll. destruct (k_waiter ck), (k_slot ck), (k_txdropped ck); cbn; auto. Qed.
Lemma rx_drop_same ck s : k_inner (fst (rx_drop ck s)) = k_inner ck /\ k_token (fst (rx_drop ck s)) = k_token ck
  /\ k_conn (fst (rx_drop ck s)) = k_conn ck /\ k_owner (fst (rx_drop ck s)) = k_owner ck.
Proof. unfold rx_drop. destruct (k_waiter ck), (k_slot ck); cbn; auto. Qed.

Lemma kin_same cfg ck ck' : k_inner ck' = k_inner ck -> k_token ck' = k_token ck -> kin cfg ck -> kin cfg ck'.
Proof. unfold kin. intros -> ->. auto. Qed.
Lemma gone_ok_same ck ck' d : k_inner ck' = k_inner ck -> gone_ok ck d -> gone_ok ck' d.
Proof. unfold gone_ok. intros ->. auto. Qed.
Lemma kin_connected cfg ck : kin cfg (k_set_inner IConnected ck).
Proof. unfold kin. cbn. repeat split; intros; discriminate. Qed.

Definition ckp_post cfg (rid : nat) (s : state) (rs : kpoll * checkout * state) : Prop :=
  MD cfg (Some rid) (snd rs) /\ kin cfg (snd (fst rs))
  /\ (forall d, get_dial (snd rs) rid = Some d -> gone_ok (snd (fst rs)) d)
  /\ List.length (reqs (snd rs)) = List.length (reqs s)
  /\ k_token (snd (fst rs)) <= List.length (toks (snd rs)).

Lemma MD_checkout_poll cfg rid ck s : MD cfg (Some rid) s -> kin cfg ck -> (forall d, get_dial s rid = Some d -> gone_ok ck d) ->
  k_token ck <= List.length (toks s) -> ckp_post cfg rid s (checkout_poll cfg rid ck s).
Proof.
  intros H Hk Hg Hb. unfold checkout_poll, ckp_post.
  destruct (waiter_poll_same ck) as (W1 & W2 & W3 & W4). destruct (waiter_poll ck) as [w ck1]. cbn [snd] in W1, W2, W3, W4.
  assert (Hk1 : kin cfg ck1) by (eapply kin_same; eauto).
  assert (Hg1 : forall d, get_dial s rid = Some d -> gone_ok ck1 d) by (intros d Hd; eapply gone_ok_same; eauto).
  assert (Hb1 : k_token ck1 <= List.length (toks s)) by (rewrite W2; exact Hb).
  assert (Hbase : MD cfg (Some rid) s /\ kin cfg ck1 /\ (forall d, get_dial s rid = Some d -> gone_ok ck1 d)
                  /\ List.length (reqs s) = List.length (reqs s) /\ k_token ck1 <= List.length (toks s)) by auto.
  destruct w; cbn [fst snd]; try exact Hbase.
  (* the connector branch, shared by the three inner states that own a connector *)
  assert (Hconn : k_inner ck1 <> IWaiting -> k_inner ck1 <> IConnected ->
    let rs := let '(r, s0) := connector_poll rid ByReq s in
              match r with
              | CPending => (KPending, ck1, s0)
              | CReady res =>
                  let '(ck0, s1) := rx_drop ck1 s0 in
                  let ck2 := k_set_inner IConnected ck0 in
                  let s2 := set_req rid (RCheckout ck2) s1 in
                  match res with
                  | inl c => let '(p, s3) := register cfg (k_token ck2) c s2 in (KReady (inl p), ck2, s3)
                  | inr e => (KReady (inr e), ck2, s2)
                  end
              end in
    MD cfg (Some rid) (snd rs) /\ kin cfg (snd (fst rs)) /\ (forall d, get_dial (snd rs) rid = Some d -> gone_ok (snd (fst rs)) d)
    /\ List.length (reqs (snd rs)) = List.length (reqs s) /\ k_token (snd (fst rs)) <= List.length (toks (snd rs))).
  { intros Hn1 Hn2. cbv zeta.
    destruct (MD_connector_poll cfg rid ByReq s H) as [H1 (P1 & P2 & P3 & P4 & P5)].
    pose proof (toks_connector_poll rid ByReq s) as T1.
    destruct (connector_poll rid ByReq s) as [r s1]. cbn [fst snd] in *.
    destruct r as [|res]; cbn [fst snd].
    { split; [exact H1|]. split; [exact Hk1|]. split; [|split; [rewrite P5; reflexivity|rewrite T1; exact Hb1]].
      intros d _ [E|E]; contradiction. }
    destruct (rx_drop_same ck1 s1) as (R1 & R2 & _). pose proof (mdf_rx_drop ck1 s1) as F2.
    destruct (rx_drop ck1 s1) as [ck2 s2]. cbn [fst snd] in R1, R2, F2.
    assert (Hb2 : k_token (k_set_inner IConnected ck2) <= List.length (toks s2)) by (cbn; rewrite R2, (mf_tl _ _ F2), T1; exact Hb1).
    assert (Hg2 : forall d, get_dial s2 rid = Some d -> gone_ok (k_set_inner IConnected ck2) d).
    { intros d Hd _. rewrite (mdf_get_dial _ _ rid F2) in Hd. eapply P2; eauto. }
    assert (H2 : MD cfg (Some rid) (set_req rid (RCheckout (k_set_inner IConnected ck2)) s2)).
    { apply MD_set_req_x; [eapply MD_mdf; eauto| |].
      - intros ck' E. inversion E; subst ck'. split; [apply kin_connected|exact Hg2].
      - intros ck' E. inversion E; subst ck'. exact Hb2. }
    assert (Hl2 : List.length (reqs (set_req rid (RCheckout (k_set_inner IConnected ck2)) s2)) = List.length (reqs s))
      by (cbn; rewrite upd_nth_len, (mf_rlen _ _ F2), P5; reflexivity).
    destruct res as [c|e]; cbn [fst snd].
    - pose proof (mdf_register cfg (k_token (k_set_inner IConnected ck2)) c (set_req rid (RCheckout (k_set_inner IConnected ck2)) s2)) as F3.
      destruct (register _ _ _ _) as [p s3]. cbn [fst snd] in *.
      split; [eapply MD_mdf; eauto|]. split; [apply kin_connected|]. split; [|split].
      + intros d Hd. rewrite (mdf_get_dial _ _ rid F3) in Hd. apply Hg2. exact Hd.
      + rewrite (mf_rlen _ _ F3). exact Hl2.
      + rewrite (mf_tl _ _ F3). exact Hb2.
    - split; [exact H2|]. split; [apply kin_connected|]. split; [exact Hg2|]. split; [exact Hl2|exact Hb2]. }
  destruct (k_inner ck1) eqn:Ei; cbn [fst snd]; try exact Hbase; try (apply Hconn; discriminate).
  - (* IConnected *)
    destruct (k_conn ck1) as [c|]; cbn [fst snd]; [|exact Hbase].
    destruct (rx_drop_same (k_set_conn None ck1) s) as (R1 & R2 & _). pose proof (mdf_rx_drop (k_set_conn None ck1) s) as F2.
    destruct (rx_drop (k_set_conn None ck1) s) as [ck2 s2]. cbn [fst snd] in R1, R2, F2.
    assert (Hk2 : kin cfg ck2) by (eapply kin_same; [exact R1|exact R2|]; eapply kin_same; [| |exact Hk1]; reflexivity).
    assert (Hb2 : k_token ck2 <= List.length (toks s2)) by (rewrite R2, (mf_tl _ _ F2); exact Hb1).
    assert (Hg2 : forall d, get_dial s2 rid = Some d -> gone_ok ck2 d).
    { intros d Hd. rewrite (mdf_get_dial _ _ rid F2) in Hd. eapply gone_ok_same; [exact R1|]. eapply gone_ok_same; [|apply Hg1; exact Hd]. reflexivity. }
    assert (H2 : MD cfg (Some rid) (set_req rid (RCheckout ck2) s2)).
    { apply MD_set_req_x; [eapply MD_mdf; eauto| |]; intros ck' E; inversion E; subst ck'; auto. }
    pose proof (mdf_register cfg (k_token ck2) c (set_req rid (RCheckout ck2) s2)) as F3.
    destruct (register cfg (k_token ck2) c (set_req rid (RCheckout ck2) s2)) as [p s3]. cbn [fst snd] in *.
    split; [eapply MD_mdf; eauto|]. split; [exact Hk2|]. split; [|split].
    + intros d Hd. rewrite (mdf_get_dial _ _ rid F3) in Hd. apply Hg2. exact Hd.
    + rewrite (mf_rlen _ _ F3). cbn. rewrite upd_nth_len. apply (mf_rlen _ _ F2).
    + rewrite (mf_tl _ _ F3). exact Hb2.
Qed.

(* ------------------------------------------------------------------ operations *)
Lemma mdf_hold_release r p s : mdf s (hold_release r p s).
Proof.
  unfold hold_release. eapply mdf_trans; [apply mdf_upd_conn|]. eapply mdf_trans; [apply mdf_emit|apply mdf_pooled_drop].
Qed.
Lemma mdf_drain_conn_waiters c s : mdf s (drain_conn_waiters c s).
Proof. unfold drain_conn_waiters. destruct (get_conn s c); [|apply mdf_refl]. eapply mdf_trans; [apply mdf_upd_conn|apply mdf_wake_tasks]. Qed.

Lemma isck_set_req_same s r q v : get_req s r = Some q -> get_req (set_req r v s) r = Some v.
Proof. intros H. rewrite get_req_set_req, Nat.eqb_refl, H. reflexivity. Qed.
Lemma get_req_len s r : r < List.length (reqs s) -> exists q, get_req s r = Some q.
Proof. apply nth_error_ex. Qed.

Lemma MD_do_poll cfg r s : MD cfg None s -> MD cfg None (do_poll cfg r s).
Proof.
  intros H. unfold do_poll. destruct (get_req s r) as [[|ck|p fin pl| |]|] eqn:Er; try exact H.
  - (* RError *)
    eapply (MD_set_req_nock cfg None r RError); [exact Er|discriminate|discriminate|].
    eapply MD_mdf; [|exact H]. eapply mdf_trans; [apply mdf_unwake_req|apply mdf_emit].
  - (* RCheckout *)
    destruct (md_ck _ _ _ H r ck Er) as [Hk Hg].
    assert (H0 : MD cfg (Some r) (unwake_req r s)) by (eapply MD_mdf; [apply mdf_unwake_req|apply MD_weaken; exact H]).
    assert (Hb : k_token ck <= List.length (toks (unwake_req r s))) by (apply (md_ct _ _ _ H r ck Er)).
    destruct (MD_checkout_poll cfg r ck (unwake_req r s) H0 Hk Hg Hb) as (H1 & Hk1 & Hg1 & Hl1 & Hb1).
    destruct (checkout_poll cfg r ck (unwake_req r s)) as [[res ck1] s1]. cbn [fst snd] in *.
    assert (Hin : r < List.length (reqs s1)) by (rewrite Hl1; cbn; eapply nth_error_lt; exact Er).
    destruct (get_req_len s1 r Hin) as [q1 Eq1].
    destruct res as [|[p|e]].
    + eapply MD_mdf; [apply mdf_emit|]. eapply MD_close_ck; [apply MD_set_req_x; [exact H1| |]|].
      * intros ck' E. inversion E; subst ck'. auto.
      * intros ck' E. inversion E; subst ck'. exact Hb1.
      * exists ck1. eapply isck_set_req_same; eauto.
    + destruct (match get_conn s1 (fst p) with Some cn => _ | None => _ end) as [[[sh op_] rd] hs].
      eapply MD_mdf; [apply mdf_emit|]. apply MD_checkout_drop; auto.
      * apply MD_set_req_x; [|discriminate|discriminate]. eapply MD_mdf; [|exact H1]. eapply mdf_trans; [apply mdf_emit|apply mdf_upd_conn].
      * intros [ck' Hc]. erewrite isck_set_req_same in Hc; [discriminate|]. exact Eq1.
    + eapply MD_mdf; [apply mdf_emit|]. apply MD_checkout_drop; auto.
      * apply MD_set_req_x; [exact H1|discriminate|discriminate].
      * intros [ck' Hc]. erewrite isck_set_req_same in Hc; [discriminate|]. exact Eq1.
  - (* RHolding *)
    destruct fin.
    + eapply MD_mdf; [eapply mdf_trans; [apply mdf_hold_release|apply mdf_emit]|].
      eapply (MD_set_req_nock cfg None r); [exact Er|discriminate|discriminate|]. eapply MD_mdf; [apply mdf_unwake_req|exact H].
    + eapply MD_mdf; [apply mdf_emit|].
      eapply (MD_set_req_nock cfg None r); [exact Er|discriminate|discriminate|]. eapply MD_mdf; [apply mdf_unwake_req|exact H].
Qed.

Lemma MD_do_cancel cfg r s : MD cfg None s -> MD cfg None (do_cancel cfg r s).
Proof.
  intros H. unfold do_cancel. destruct (get_req s r) as [[|ck|p fin pl| |]|] eqn:Er; try exact H.
  - eapply MD_mdf; [apply mdf_unwake_req|]. eapply (MD_set_req_nock cfg None r); [exact Er|discriminate|discriminate|exact H].
  - destruct (md_ck _ _ _ H r ck Er) as [Hk Hg].
    eapply MD_mdf; [apply mdf_unwake_req|]. apply MD_checkout_drop; auto.
    + apply MD_set_req_x; [apply MD_weaken; exact H|discriminate|discriminate].
    + intros [ck' Hc]. erewrite isck_set_req_same in Hc; [discriminate|]. exact Er.
    + apply (md_ct _ _ _ H r ck Er).
  - eapply MD_mdf; [eapply mdf_trans; [apply mdf_hold_release|apply mdf_unwake_req]|].
    eapply (MD_set_req_nock cfg None r); [exact Er|discriminate|discriminate|exact H].
  - eapply MD_mdf; [apply mdf_unwake_req|exact H].
  - eapply MD_mdf; [apply mdf_unwake_req|exact H].
Qed.

Lemma MD_do_dial_done cfg r x s : MD cfg None s -> MD cfg None (do_dial_done r x s).
Proof.
  intros H. unfold do_dial_done. destruct (get_dial s r) as [d|] eqn:Ed; [|exact H].
  destruct (d_stage d) eqn:Es; try exact H.
  set (f := fun d0 : dial => d_set_polled None (d_set_stage (DResolved x) d0)).
  (* wake first (on the old state), then update: the two commute on the components MD reads *)
  assert (Hw : MD cfg None (wake_poller (d_polled d) r s)) by (eapply MD_mdf; [apply mdf_wake_poller|exact H]).
  assert (Heq : forall s0, MD cfg None (upd_dial r f s0) -> reqs s0 = reqs (wake_poller (d_polled d) r s) -> True) by auto.
  assert (Hgoal : MD cfg None (upd_dial r f (wake_poller (d_polled d) r s))).
  { apply MD_upd_dial; [exact Hw| |].
    - intros d0 ck Hd0 _ Hg Hk. rewrite (mdf_get_dial _ _ r (mdf_wake_poller (d_polled d) r s)), Ed in Hd0. inversion Hd0; subst d0.
      specialize (Hg Hk). congruence.
    - intros d0 Hd0 _ Hn _. right.
      rewrite (mdf_get_dial _ _ r (mdf_wake_poller (d_polled d) r s)), Ed in Hd0. inversion Hd0; subst d0.
      assert (Hn0 : ~ isck s r).
      { intros Hc. apply Hn. apply (rel_req_isck _ _ r (mf_req _ _ (mdf_wake_poller (d_polled d) r s) r)). exact Hc. }
      destruct (md_bg _ _ _ H r d) as (tid & t & own & Ht & Hq); [discriminate|exact Ed|exact Hn0|left; exact Es|].
      exists tid, t, own. split; [apply (mf_keep _ _ (mdf_wake_poller (d_polled d) r s)); exact Ht|]. left.
      destruct Hq as [Hq|[_ Hq]]; [apply (mf_runq _ _ (mdf_wake_poller (d_polled d) r s)); exact Hq|].
      rewrite Hq. cbn [wake_poller]. unfold wake_task. destruct (existsb (Nat.eqb tid) (runq s)) eqn:Ee.
      + apply existsb_exists in Ee. destruct Ee as (y & Hy & Ey). apply Nat.eqb_eq in Ey. subst y. exact Hy.
      + cbn. apply in_or_app. right. left. reflexivity. }
  (* the model's order: update, then wake *)
  eapply MD_mdf; [|exact Hgoal]. clear.
  destruct (d_polled d) as [[|tid]|]; cbn [wake_poller]; try (apply mdf_frame; reflexivity).
  unfold wake_task. cbn [runq upd_dial set_dials]. destruct (existsb (Nat.eqb tid) (runq s)); apply mdf_frame; reflexivity.
Qed.

Definition add_req (q : req) (d : dial) (s : state) : state := set_dials (dials s ++ [d]) (set_reqs (reqs s ++ [q]) s).

Lemma MD_add cfg q d s : MD cfg None s ->
  (forall ck, q = RCheckout ck -> kin cfg ck /\ gone_ok ck d) ->
  ((forall ck, q <> RCheckout ck) -> ~ live_stage d) ->
  (forall ck, q = RCheckout ck -> k_token ck <= List.length (toks s)) -> MD cfg None (add_req q d s).
Proof.
  intros [M1 M2 M3 M4 M5 M6 M7] Hq Hd Hb. unfold add_req. constructor.
  - cbn. rewrite !app_length. cbn. lia.
  - intros r ck. unfold get_req, get_dial. cbn [reqs dials set_dials set_reqs]. rewrite !nth_error_snoc, <- M1.
    destruct (Nat.ltb_spec r (List.length (reqs s))) as [Hl|Hg]; [apply M2|].
    destruct (Nat.eqb r (List.length (reqs s))); [|discriminate]. intros E. inversion E; subst q.
    destruct (Hq ck eq_refl) as [A B]. split; [exact A|]. intros d' E'. inversion E'; subst d'. exact B.
  - exact M3.
  - intros r d' _. unfold get_dial, isck, get_req. cbn [reqs dials set_dials set_reqs]. rewrite !nth_error_snoc, <- M1.
    destruct (Nat.ltb_spec r (List.length (reqs s))) as [Hl|Hg].
    + intros Hd' Hn Hl'. destruct (M4 r d') as (tid & t & own & Ht & Hqq); auto; [discriminate|].
      exists tid, t, own. split; [exact Ht|exact Hqq].
    + destruct (Nat.eqb r (List.length (reqs s))); [|discriminate]. intros E Hn Hl'. inversion E; subst d'.
      exfalso. apply Hd; [|exact Hl']. intros ck ->. apply Hn. eauto.
  - exact M5.
  - intros r ck. unfold get_req. cbn [reqs toks set_dials set_reqs]. rewrite nth_error_snoc.
    destruct (Nat.ltb_spec r (List.length (reqs s))) as [Hl|Hg]; [apply M6|].
    destruct (Nat.eqb r (List.length (reqs s))); [|discriminate]. intros E. inversion E; subst q. apply Hb. reflexivity.
  - exact M7.
Qed.

Lemma kin_new cfg t w i c own txd : i <> IDelayed -> (i = IConnecting -> contp cfg = false) ->
  (i = IDelayDrop -> g_cont cfg = true /\ g_pool cfg = true /\ t <> 0) -> kin cfg (new_ck t w i c own txd).
Proof. intros A B C. unfold kin, new_ck. cbn. auto. Qed.

Lemma find_key_ge k : forall ks i t, find_key k ks i = Some t -> i <= t.
Proof.
  induction ks as [|k0 l IH]; intros i t E; cbn in E; [discriminate|].
  destruct (key_eqb k k0); [inversion E; lia|]. apply IH in E. lia.
Qed.
Lemma key_insert_pos k s : 1 <= fst (key_insert k s).
Proof.
  unfold key_insert. destruct (find_key k (keys s) 1) as [t|] eqn:E; cbn [fst]; [|lia].
  eapply find_key_ge; eauto.
Qed.

Lemma find_key_le k : forall ks i t, find_key k ks i = Some t -> t < i + List.length ks.
Proof.
  induction ks as [|k0 l IH]; intros i t E; cbn in E; [discriminate|].
  destruct (key_eqb k k0); [inversion E; cbn; lia|]. apply IH in E. cbn. lia.
Qed.

Lemma MD_key_insert cfg k s : MD cfg None s ->
  MD cfg None (snd (key_insert k s)) /\ fst (key_insert k s) <= List.length (toks (snd (key_insert k s))).
Proof.
  intros H. pose proof H as [M1 M2 M3 M4 M5 M6 M7]. unfold key_insert. destruct (find_key k (keys s) 1) as [t|] eqn:E; cbn [fst snd].
  - split; [exact H|]. apply find_key_le in E. lia.
  - split; [|cbn; rewrite app_length; cbn; lia]. constructor; auto.
    + cbn. rewrite !app_length. cbn. lia.
    + intros r ck Hr. cbn. rewrite app_length. specialize (M6 r ck Hr). lia.
    + intros tid r t own Ht. cbn. rewrite app_length. specialize (M7 tid r t own Ht). lia.
Qed.

Lemma MD_do_issue cfg u p s : MD cfg None s -> MD cfg None (do_issue cfg u p s).
Proof.
  intros H. unfold do_issue.
  assert (H0 : MD cfg None (set_woken (woken s ++ [false]) s)) by (apply (MD_mdf cfg None s); [apply mdf_frame; reflexivity|exact H]).
  destruct (nth u (g_uris cfg) None) as [k|].
  2: { apply (MD_add cfg RError _ _ H0); [discriminate| |discriminate]. intros _. apply not_live_gone. reflexivity. }
  destruct (g_pool cfg) eqn:Ep; cbn [negb].
  2: { apply (MD_add cfg _ _ _ H0).
       - intros ck E. inversion E; subst ck. split.
         + apply kin_new; [discriminate| |discriminate]. intros _. unfold contp. rewrite Ep. apply andb_false_r.
         + intros [E'|E']; discriminate.
       - intros Hn. exfalso. eapply Hn. reflexivity.
       - intros ck E. inversion E; subst ck. cbn. lia. }
  destruct (MD_key_insert cfg k (set_woken (woken s ++ [false]) s) H0) as [H1 Ht1].
  pose proof (key_insert_pos k (set_woken (woken s ++ [false]) s)) as Ht.
  destruct (key_insert k (set_woken (woken s ++ [false]) s)) as [t s1]. cbn [fst snd] in H1, Ht1, Ht.
  pose proof (mdf_pool_pop (g_timeout cfg) t s1) as F2.
  destruct (pool_pop (g_timeout cfg) t s1) as [found s2]. cbn [snd] in F2.
  assert (H2 : MD cfg None s2) by (eapply MD_mdf; [exact F2|exact H1]).
  assert (Ht2 : t <= List.length (toks s2)) by (rewrite (mf_tl _ _ F2); exact Ht1).
  destruct found as [c|].
  { apply (MD_add cfg _ _ _ H2).
    - intros ck E. inversion E; subst ck. split; [apply kin_new; discriminate|]. intros _. reflexivity.
    - intros Hn. exfalso. eapply Hn. reflexivity.
    - intros ck E. inversion E; subst ck. exact Ht2. }
  set (pend := match p_marker (get_tok s2 t) with Some _ => true | None => false end).
  set (s3 := upd_tok t (fun q => set_waiting (p_waiting q ++ [(List.length (reqs s), pend)]) q) s2).
  assert (F3 : mdf s2 s3) by apply mdf_upd_tok.
  assert (H3 : MD cfg None s3) by (eapply MD_mdf; [exact F3|exact H2]).
  assert (Ht3 : t <= List.length (toks s3)) by (rewrite (mf_tl _ _ F3); exact Ht2).
  destruct pend.
  { apply (MD_add cfg _ _ _ H3).
    - intros ck E. inversion E; subst ck. split; [apply kin_new; discriminate|]. intros _. reflexivity.
    - intros Hn. exfalso. eapply Hn. reflexivity.
    - intros ck E. inversion E; subst ck. exact Ht3. }
  set (own := match p with H2 => true | H1 => false end).
  set (s4 := if own then upd_tok t (set_marker (Some (List.length (reqs s)))) s3 else s3).
  assert (F4 : mdf s3 s4) by (subst s4; destruct own; [apply mdf_upd_tok|apply mdf_refl]).
  assert (H4 : MD cfg None s4) by (eapply MD_mdf; [exact F4|exact H3]).
  assert (Ht4 : t <= List.length (toks s4)) by (rewrite (mf_tl _ _ F4); exact Ht3).
  apply (MD_add cfg _ _ _ H4).
  - intros ck E. inversion E; subst ck. split.
    + destruct (g_cont cfg) eqn:Ec; apply kin_new; try discriminate.
      * intros _. repeat split; auto. lia.
      * intros _. unfold contp. rewrite Ec. reflexivity.
    + intros [E'|E']; cbn in E'; destruct (g_cont cfg); discriminate.
  - intros Hn. exfalso. eapply Hn. reflexivity.
  - intros ck E. inversion E; subst ck. exact Ht4.
Qed.

(* ------------------------------------------------------------------ background tasks *)
Lemma MD_set_runq cfg x tid rest s : MD cfg None s -> runq s = tid :: rest ->
  (forall r t own, nth tid (tasks s) None = Some (TDelayed r t own) -> x = Some r) -> MD cfg x (set_runq rest s).
Proof.
  intros [M1 M2 M3 M4 M5 M6 M7] Hq Hx. constructor; auto.
  intros r d Hne Hd Hn Hl. destruct (M4 r d) as (n & t & own & Hn' & Hw); auto; [discriminate|].
  exists n, t, own. split; [exact Hn'|]. destruct Hw as [Hw|Hw]; [|right; exact Hw]. left. cbn.
  rewrite Hq in Hw. destruct Hw as [Hw|Hw]; [|exact Hw]. subst n. exfalso. apply Hne. eapply Hx. exact Hn'.
Qed.

Lemma MD_run_task cfg tid rest s : MD cfg None s -> runq s = tid :: rest -> MD cfg None (run_task cfg tid (set_runq rest s)).
Proof.
  intros H Hq. unfold run_task. change (tasks (set_runq rest s)) with (tasks s).
  destruct (nth tid (tasks s) None) as [[c t|rid t own]|] eqn:Et.
  - (* hand-back *)
    assert (H0 : MD cfg None (set_runq rest s)) by (apply (MD_set_runq cfg None tid rest s H Hq); intros r0 t0 own0 E; rewrite Et in E; discriminate).
    destruct (get_conn (set_runq rest s) c) as [cn|].
    2: { eapply MD_mdf; [eapply mdf_finish_ready; exact Et|exact H0]. }
    assert (Hfin : forall e, MD cfg None
              (let s1 := finish_task tid (emit e (set_runq rest s)) in
               if is_open s1 c && negb (t =? 0) && g_pool cfg then pool_push (g_max_idle cfg) t c s1 else drop_conn c s1)).
    { intros e. cbv zeta. assert (H1 : MD cfg None (finish_task tid (emit e (set_runq rest s)))).
      { eapply MD_mdf; [eapply (mdf_finish_ready tid c t); exact Et|]. eapply MD_mdf; [apply mdf_emit|exact H0]. }
      destruct (_ && _); (eapply MD_mdf; [|exact H1]); [apply mdf_pool_push|apply mdf_drop_conn]. }
    destruct (negb (c_open cn)); [apply Hfin|].
    destruct (c_share cn || c_ready cn); [apply Hfin|]. eapply MD_mdf; [apply mdf_upd_conn|exact H0].
  - (* delayed connector *)
    assert (H0 : MD cfg (Some rid) (set_runq rest s)).
    { apply (MD_set_runq cfg (Some rid) tid rest s H Hq). intros r t0 own0 E. rewrite Et in E. inversion E. reflexivity. }
    destruct (MD_connector_poll cfg rid (ByTask tid) (set_runq rest s) H0) as [H1 (P1 & P2 & P3 & P4 & P5)].
    destruct (connector_poll rid (ByTask tid) (set_runq rest s)) as [r s1]. cbn [fst snd] in *.
    assert (Et1 : nth tid (tasks s1) None = Some (TDelayed rid t own)) by (rewrite P3; exact Et).
    destruct r as [|[c|e]].
    + eapply MD_close; [exact H1|]. intros d Hd _ Hl. destruct (P1 d Hd Hl) as [A B].
      exists tid, t, own. split; [exact Et1|]. right. auto.
    + pose proof (mdf_register cfg t c s1) as F2. destruct (register cfg t c s1) as [p s2]. cbn [snd] in F2.
      set (s3 := if g_pool cfg && negb (t =? 0) && own then pool_cancel t rid s2 else s2).
      assert (F3 : mdf s2 s3) by (subst s3; destruct (_ && _); [apply mdf_pool_cancel|apply mdf_refl]).
      assert (F13 : mdf s1 s3) by (eapply mdf_trans; eauto).
      assert (H4 : MD cfg (Some rid) (finish_task tid s3)).
      { eapply MD_finish_delayed; [eapply MD_mdf; eauto|]. apply (mf_keep _ _ F13). exact Et1. }
      eapply MD_close; [eapply MD_mdf; [apply mdf_pooled_drop|exact H4]|].
      intros d Hd _ Hl. exfalso. rewrite (mdf_get_dial _ _ rid (mdf_pooled_drop p (finish_task tid s3))) in Hd.
      change (get_dial (finish_task tid s3) rid) with (get_dial s3 rid) in Hd. rewrite (mdf_get_dial _ _ rid F13) in Hd.
      eapply not_live_gone; [|exact Hl]. eapply P2; eauto.
    + set (s3 := if g_pool cfg && negb (t =? 0) && own then pool_cancel t rid s1 else s1).
      assert (F13 : mdf s1 s3) by (subst s3; destruct (_ && _); [apply mdf_pool_cancel|apply mdf_refl]).
      eapply MD_close; [eapply MD_finish_delayed; [eapply MD_mdf; eauto|apply (mf_keep _ _ F13); exact Et1]|].
      intros d Hd _ Hl. exfalso.
      change (get_dial (finish_task tid s3) rid) with (get_dial s3 rid) in Hd. rewrite (mdf_get_dial _ _ rid F13) in Hd.
      eapply not_live_gone; [|exact Hl]. eapply P2; eauto.
  - apply (MD_set_runq cfg None tid rest s H Hq). intros r0 t0 own0 E. rewrite Et in E. discriminate.
Qed.

Lemma MD_bg_loop cfg fuel : forall s, MD cfg None s -> MD cfg None (bg_loop cfg fuel s).
Proof.
  induction fuel as [|f IH]; intros s H; cbn [bg_loop]; [exact H|].
  destruct (runq s) as [|tid rest] eqn:Hq; [exact H|]. apply IH. apply MD_run_task; assumption.
Qed.

Lemma MD_step cfg s o : MD cfg None s -> MD cfg None (step cfg s o).
Proof.
  intros H. unfold step. assert (H0 : MD cfg None (set_out [] s)) by (apply (MD_mdf cfg None s); [apply mdf_frame; reflexivity|exact H]).
  destruct o.
  - apply MD_do_issue; auto.
  - apply MD_do_poll; auto.
  - apply MD_do_cancel; auto.
  - unfold do_finish. destruct (get_req (set_out [] s) r) as [[|ck|p fin pl| |]|] eqn:Er; try exact H0.
    assert (H1 : MD cfg None (set_req r (RHolding p true false) (set_out [] s)))
      by (eapply (MD_set_req_nock cfg None r); [exact Er|discriminate|discriminate|exact H0]).
    destruct pl; [eapply MD_mdf; [apply mdf_wake_req|exact H1]|exact H1].
  - unfold do_upgrade. destruct (get_req (set_out [] s) r) as [[|ck|p fin pl| |]|]; try exact H0.
    eapply MD_mdf; [|exact H0]. eapply mdf_trans; [apply mdf_upd_conn|apply mdf_drain_conn_waiters].
  - apply MD_do_dial_done; auto.
  - unfold do_conn_ready. destruct (get_conn (set_out [] s) c); [|exact H0].
    eapply MD_mdf; [|exact H0]. eapply mdf_trans; [apply mdf_upd_conn|apply mdf_drain_conn_waiters].
  - unfold do_conn_close. destruct (get_conn (set_out [] s) c); [|exact H0].
    eapply MD_mdf; [|exact H0]. eapply mdf_trans; [apply mdf_upd_conn|apply mdf_drain_conn_waiters].
  - unfold do_bg. apply MD_bg_loop; auto.
  - apply (MD_mdf cfg None (set_out [] s)); [apply mdf_frame; reflexivity|exact H0].
Qed.

Lemma MD_init cfg : MD cfg None init.
Proof.
  constructor; cbn; auto.
  - intros r ck H. destruct r; discriminate.
  - intros tid r t own H. destruct tid; discriminate.
  - intros r d _ H. destruct r; discriminate.
  - intros r ck H. destruct r; discriminate.
  - intros tid r t own H. destruct tid; discriminate.
Qed.
