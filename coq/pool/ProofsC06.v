(* C06: a request is only ever handed a connection that was dialled for its own scheme + authority.
   The "same origin" invariant [Good] (pool/FramesC06.v) is carried through every primitive of the pool
   model, every operation and every history; the executable monitor [mon_C06] of pool/Spec.v is then
   shown to accept the model's trace of every history, for every configuration. *)
From HD Require Import common.Base http.Model pool.Model pool.Spec pool.Frames pool.FramesC06.
Local Open Scope list_scope.

Ltac orig := intros; cbn; dm; reflexivity.

Lemma CkOK_weaken E r ck ck' :
  CkOK E r ck -> k_token ck' = k_token ck ->
  (k_conn ck' = k_conn ck \/ k_conn ck' = None) -> (k_slot ck' = k_slot ck \/ k_slot ck' = None) -> CkOK E r ck'.
Proof.
  intros [H1 [H2 H3]] Ht Hc Hs. unfold CkOK. rewrite Ht. split; [exact H1|]. split.
  - intros c Hk. destruct Hc as [Hc|Hc]; rewrite Hc in Hk; [auto|discriminate].
  - intros p Hk. destruct Hs as [Hs|Hs]; rewrite Hs in Hk; [auto|discriminate].
Qed.

Section Prims.
Variables (m0 : mst) (pre : list (option key)).
Notation G E := (Good E m0 pre).

Lemma G_drop_conn E c s : G E s -> G E (drop_conn c s).
Proof.
  intros H. unfold drop_conn. destruct (get_conn s c) as [cn|]; [|exact H].
  destruct (Nat.eqb (pred (c_refs cn)) 0); [apply G_emit_triv; [exact I|]|]; apply G_upd_conn; auto.
Qed.

Lemma G_clone_conn E c s : G E s -> G E (clone_conn c s).
Proof. intros H. unfold clone_conn. apply G_upd_conn; auto. Qed.

Lemma G_drain_conn_waiters E c s : G E s -> G E (drain_conn_waiters c s).
Proof.
  intros H. unfold drain_conn_waiters. destruct (get_conn s c) as [cn|]; [|exact H].
  apply G_wake_tasks. apply G_upd_conn; auto.
Qed.

Lemma G_upd_dial_gone E r s : G E s -> G E (upd_dial r (d_set_stage DGone) s).
Proof. intros H. apply G_upd_dial; [|exact H]. intros d _. split; [reflexivity|]. intros _. right. reflexivity. Qed.

Lemma G_pooled_drop E p s : PooledOK E p -> G E s -> G E (pooled_drop p s).
Proof.
  intros Hp H. unfold pooled_drop. destruct p as [c t]. destruct (share_of s c); [apply G_drop_conn; exact H|].
  apply G_spawn; [exact Hp|exact H].
Qed.

Lemma G_deliver E w p s : cr E (fst p) w -> PooledOK E p -> G E s -> G E (deliver w p s).
Proof.
  intros Hc Hp H. unfold deliver. destruct (get_req s w) as [[|ck|? ? ?| |]|] eqn:Hr; try exact H.
  pose proof (G_get_req _ _ _ _ _ _ H Hr) as [A [B C]].
  assert (H1 : G E (set_req w (RCheckout (k_set_slot (Some p) ck)) s)).
  { apply G_set_req; [|exact H]. split; [exact A|]. split; [exact B|]. cbn. intros p' Hp'. inversion Hp'; subst. auto. }
  destruct (k_rxpolled ck); [apply G_wake_req|]; exact H1.
Qed.

Lemma G_walk_waiters E i c sh ws : forall s,
  ct E c (S i) -> WaitOK E i ws -> G E s ->
  G E (snd (walk_waiters (S i) c sh ws s)) /\ WaitOK E i (fst (fst (walk_waiters (S i) c sh ws s))).
Proof.
  induction ws as [|[w b] ws IH]; intros s Hc Hw H; cbn [walk_waiters].
  - split; [exact H|]. intros ? ? [].
  - assert (Hw' : WaitOK E i ws) by (intros w' b' Hin; apply (Hw w' b'); right; exact Hin).
    assert (Hcr : cr E c w) by (eapply ct_rt_cr; [exact Hc|]; cbn; apply (Hw w b); left; reflexivity).
    destruct (rx_live s w); [destruct sh|].
    + apply IH; auto. apply G_deliver; cbn; auto. apply G_clone_conn. exact H.
    + cbn [fst snd]. split; [|exact Hw']. apply G_deliver; cbn; auto.
    + apply IH; auto.
Qed.

Lemma G_pool_push E n t c s : ct E c t -> G E s -> G E (pool_push n t c s).
Proof.
  intros Hc H. unfold pool_push.
  set (s1 := if share_of s c then upd_tok t (set_marker None) s else s).
  assert (H1 : G E s1).
  { subst s1. destruct (share_of s c); [|exact H]. apply G_upd_tok; [|exact H]. intros j p _ _ Hp. exact Hp. }
  destruct t as [|i].
  - cbn [get_tok empty_tok p_waiting walk_waiters upd_tok p_idle].
    destruct (Nat.ltb (List.length (@nil (nat * N))) n); [exact H1|apply G_drop_conn; exact H1].
  - pose proof (G_get_tok _ _ _ s1 i H1) as [_ Hw].
    pose proof (G_walk_waiters E i c (share_of s1 c) _ s1 Hc Hw H1) as [H2 Hrest].
    destruct (walk_waiters (S i) c (share_of s1 c) (p_waiting (get_tok s1 (S i))) s1) as [[rest moved] s2].
    cbn [fst snd] in H2, Hrest.
    assert (H3 : G E (upd_tok (S i) (set_waiting rest) s2)).
    { apply G_upd_tok; [|exact H2]. intros j p Hj _ [Hi _]. inversion Hj; subst j. split; [exact Hi|exact Hrest]. }
    destruct moved; [exact H3|].
    match goal with |- G E (if ?b then _ else _) => destruct b end; [|apply G_drop_conn; exact H3].
    apply G_upd_tok; [|exact H3]. intros j p Hj _ [Hi Hwt]. inversion Hj; subst j. split; [|exact Hwt].
    cbn. intros c' a Hin. apply in_app_or in Hin. destruct Hin as [Hin|[Heq|[]]]; [eauto|]. inversion Heq; subst. exact Hc.
Qed.

Lemma G_drop_sender E w s : G E s -> G E (drop_sender w s).
Proof.
  intros H. unfold drop_sender. destruct (get_req s w) as [[|ck|? ? ?| |]|] eqn:Hr; try exact H.
  pose proof (G_get_req _ _ _ _ _ _ H Hr) as Hck.
  assert (H1 : G E (set_req w (RCheckout (k_set_txdropped true ck)) s)) by (apply G_set_req; [exact Hck|exact H]).
  destruct (k_waiter ck); try exact H; (destruct (k_rxpolled ck); [apply G_wake_req|]; exact H1).
Qed.

Lemma G_release_pending E i ws : forall s,
  WaitOK E i ws -> G E s ->
  G E (snd (release_pending ws s)) /\ WaitOK E i (fst (release_pending ws s)).
Proof.
  induction ws as [|[w b] ws IH]; intros s Hw H; cbn [release_pending].
  - split; [exact H|]. intros ? ? [].
  - assert (Hw' : WaitOK E i ws) by (intros w' b' Hin; apply (Hw w' b'); right; exact Hin).
    destruct b.
    + apply IH; [exact Hw'|]. apply G_drop_sender. exact H.
    + specialize (IH s Hw' H). destruct (release_pending ws s) as [rest' s']. cbn [fst snd] in *.
      destruct IH as [IH1 IH2]. split; [exact IH1|].
      intros w' b' [Heq|Hin]; [|eauto]. inversion Heq; subst. apply (Hw w' false). left. reflexivity.
Qed.

Lemma G_pool_cancel E t rid s : G E s -> G E (pool_cancel t rid s).
Proof.
  intros H. unfold pool_cancel. destruct (p_marker (get_tok s t)) as [o|]; [|exact H].
  destruct (Nat.eqb o rid); [|exact H].
  set (s1 := upd_tok t (set_marker None) s).
  assert (H1 : G E s1) by (apply G_upd_tok; [|exact H]; intros j p _ _ Hp; exact Hp).
  destruct t as [|i].
  - cbn [get_tok empty_tok p_waiting release_pending upd_tok]. exact H1.
  - pose proof (G_get_tok _ _ _ s1 i H1) as [_ Hw].
    pose proof (G_release_pending E i _ s1 Hw H1) as [H2 Hrest].
    destruct (release_pending (p_waiting (get_tok s1 (S i))) s1) as [rest s2]. cbn [fst snd] in H2, Hrest.
    apply G_upd_tok; [|exact H2]. intros j p Hj _ [Hi _]. inversion Hj; subst j. split; [exact Hi|exact Hrest].
Qed.

Lemma G_drop_all E l : forall s, G E s -> G E (drop_all l s).
Proof. induction l as [|[c a] l IH]; intros s H; cbn [drop_all]; [exact H|]. apply IH. apply G_drop_conn. exact H. Qed.

Lemma G_pop_loop E i thr rl : forall s,
  IdleOK E i rl -> G E s ->
  G E (snd (pop_loop thr rl s)) /\ IdleOK E i (snd (fst (pop_loop thr rl s)))
  /\ (forall c, fst (fst (pop_loop thr rl s)) = Some c -> ct E c (S i)).
Proof.
  induction rl as [|[c a] rl IH]; intros s Hi H; cbn [pop_loop].
  - cbn [fst snd]. split; [exact H|]. split; [intros ? ? []|discriminate].
  - assert (Hi' : IdleOK E i rl) by (intros c' a' Hin; apply (Hi c' a'); right; exact Hin).
    destruct (match thr with Some y => (a <? y)%N | None => false end).
    + cbn [fst snd]. split; [apply G_drop_all; apply G_drop_conn; exact H|]. split; [intros ? ? []|discriminate].
    + destruct (is_open s c).
      * cbn [fst snd]. split; [exact H|]. split; [exact Hi'|]. intros c' Hc'. inversion Hc'; subst. cbn. apply (Hi c' a). left. reflexivity.
      * apply IH; [exact Hi'|]. apply G_drop_conn. exact H.
Qed.

Lemma G_pool_pop E to t s :
  G E s -> G E (snd (pool_pop to t s)) /\ (forall c, fst (pool_pop to t s) = Some c -> ct E c t).
Proof.
  intros H. unfold pool_pop. destruct t as [|i].
  - cbn [get_tok empty_tok p_idle rev pop_loop upd_tok fst snd]. split; [exact H|discriminate].
  - pose proof (G_get_tok _ _ _ s i H) as [Hi _].
    assert (Hr : IdleOK E i (rev (p_idle (get_tok s (S i))))) by (intros c a Hin; apply in_rev in Hin; eauto).
    pose proof (G_pop_loop E i (expiry_threshold to (now s)) _ s Hr H) as [H1 [Hrest Hc]].
    destruct (pop_loop (expiry_threshold to (now s)) (rev (p_idle (get_tok s (S i)))) s) as [[r rest] s1].
    cbn [fst snd] in *. split; [|exact Hc].
    apply G_upd_tok; [|exact H1]. intros j p Hj _ [_ Hw]. inversion Hj; subst j. split; [|exact Hw].
    cbn. intros c a Hin. apply in_rev in Hin. eauto.
Qed.

Lemma G_register E cfg t c s :
  ct E c t -> G E s ->
  G E (snd (register cfg t c s)) /\ fst (fst (register cfg t c s)) = c /\ PooledOK E (fst (register cfg t c s)).
Proof.
  intros Hc H. unfold register.
  destruct (g_pool cfg && negb (t =? 0)); [destruct (share_of s c)|]; cbn [fst snd]; unfold PooledOK; cbn [fst snd]; auto.
  split; [|split; [reflexivity|exact I]]. destruct (is_open s c); [|exact H]. apply G_pool_push; [exact Hc|]. apply G_clone_conn. exact H.
Qed.

Lemma G_rx_drop E w ck s :
  CkOK E w ck -> G E s -> G E (snd (rx_drop ck s)) /\ CkOK E w (fst (rx_drop ck s)).
Proof.
  intros Hk H. unfold rx_drop.
  destruct (k_waiter ck); destruct (k_slot ck) as [p|] eqn:Hs; cbn [fst snd]; (split; [|try exact Hk; eapply CkOK_weaken; eauto]);
    try exact H; apply G_pooled_drop; try exact H; destruct Hk as [_ [_ Hk]]; apply (Hk p Hs).
Qed.

(* ---------------------------------------------------------------- TokenMap::insert *)
Lemma find_key_spec k : forall ks j t,
  find_key k ks j = Some t -> exists i k', t = j + i /\ nth_error ks i = Some k' /\ key_eqb k k' = true.
Proof.
  induction ks as [|k0 ks IH]; intros j t H; cbn [find_key] in H; [discriminate|].
  destruct (key_eqb k k0) eqn:Hk.
  - inversion H; subst. exists 0, k0. split; [lia|]. split; [reflexivity|exact Hk].
  - apply IH in H. destruct H as [i [k' [Ht [Hn Hkk]]]]. exists (S i), k'. split; [lia|]. split; [exact Hn|exact Hkk].
Qed.

Lemma G_key_insert E k s :
  G E s ->
  exists E', kext E E' /\ G E' (snd (key_insert k s))
             /\ exists i, fst (key_insert k s) = S i /\ same_key (Some k) (tki E' i) = true.
Proof.
  intros H. unfold key_insert. destruct (find_key k (keys s) 1) as [t|] eqn:Hf; cbn [fst snd].
  - exists E. split; [apply kext_refl|]. split; [exact H|].
    apply find_key_spec in Hf. destruct Hf as [i [k' [-> [Hn Hk]]]]. exists i. split; [reflexivity|].
    unfold tki. rewrite (g_ks _ _ _ _ H), Hn. exact Hk.
  - exists (mkE (e_co E) (e_du E) (e_ks E ++ [k])).
    split; [split; [exists []; cbn; rewrite app_nil_r; reflexivity|]; split; [exists []; cbn; rewrite app_nil_r; reflexivity|]; exists [k]; reflexivity|].
    split.
    + set (E' := mkE (e_co E) (e_du E) (e_ks E ++ [k])).
      assert (HX : kext E E').
      { split; [exists []; cbn; rewrite app_nil_r; reflexivity|]. split; [exists []; cbn; rewrite app_nil_r; reflexivity|]. exists [k]. reflexivity. }
      destruct H as [A1 A2 A3 A4 A5 A6 A7 A8 A9]. constructor; cbn [conns dials keys reqs tasks toks out set_toks set_keys]; auto.
      * cbn. rewrite A3. reflexivity.
      * intros w rq Hw. eapply ReqOK_mono; [exact HX|eauto].
      * eapply Forall_impl; [|exact A7]. intros x. apply TaskOK_mono. exact HX.
      * intros i p Hp. apply nth_error_app_inv in Hp. destruct Hp as [Hp|[-> ->]]; [eapply TokOK_mono; [exact HX|eauto]|].
        split; intros ? ? [].
    + exists (List.length (keys s)). split; [reflexivity|]. unfold tki. cbn [e_ks]. rewrite (g_ks _ _ _ _ H), nth_error_app_last. apply same_key_refl.
Qed.

(* ---------------------------------------------------------------- the connector *)
Lemma DialOK_live d : DialOK d -> d_stage d <> DGone -> d_uri d = Some (d_key d).
Proof. intros [H|H] Hn; [exact H|contradiction]. Qed.

Lemma G_connector_poll E rid by_ s :
  G E s ->
  exists E', kext E E' /\ G E' (snd (connector_poll rid by_ s))
             /\ (forall c, fst (connector_poll rid by_ s) = CReady (inl c) -> cr E' c rid).
Proof.
  intros H. unfold connector_poll. destruct (get_dial s rid) as [d|] eqn:Hd.
  2: { exists E. cbn [fst snd]. split; [apply kext_refl|]. split; [exact H|discriminate]. }
  pose proof (G_rk_dial _ _ _ _ _ _ H Hd) as Hrk. pose proof (G_dial_ok _ _ _ _ _ _ H Hd) as Hok.
  destruct (d_stage d) as [| |[alpn| |]|] eqn:Hst; cbn [fst snd].
  - (* DNew: the transport connect is started, for the request's own key *)
    exists E. split; [apply kext_refl|]. split; [|discriminate].
    assert (Hu : d_uri d = Some (d_key d)) by (apply DialOK_live; [exact Hok|congruence]).
    apply G_upd_dial.
    + intros d0 Hd0. change (nth_error (dials s) rid = Some d0) in Hd0. unfold get_dial in Hd. rewrite Hd in Hd0. inversion Hd0; subst d0.
      split; [reflexivity|]. intros _. left. exact Hu.
    + apply G_emit_dial; [|exact H]. rewrite Hrk. exact Hu.
  - exists E. split; [apply kext_refl|]. split; [|discriminate].
    apply G_upd_dial; [|exact H]. intros d0 _. split; [reflexivity|]. intros Hx. exact Hx.
  - (* a connection is born: origin = this dial *)
    set (E' := mkE (e_co E ++ [rid]) (e_du E) (e_ks E)).
    assert (HX : kext E E').
    { split; [exists [rid]; reflexivity|]. split; exists []; cbn; rewrite app_nil_r; reflexivity. }
    exists E'. split; [exact HX|]. split.
    + apply G_upd_dial_gone.
      destruct H as [A1 A2 A3 A4 A5 A6 A7 A8 A9].
      constructor; cbn [conns dials keys reqs tasks toks out set_conns emit set_out]; auto.
      * cbn [E' e_co]. rewrite map_app, A1. reflexivity.
      * intros w rq Hw. eapply ReqOK_mono; [exact HX|eauto].
      * eapply Forall_impl; [|exact A7]. intros x. apply TaskOK_mono. exact HX.
      * intros i p Hp. eapply TokOK_mono; [exact HX|eauto].
      * apply TT_emit_new. exact A9.
    + intros c Hc. inversion Hc; subst c. unfold cr, ok, okl. cbn [E' e_co e_du].
      assert (Hl : List.length (conns s) = List.length (e_co E)) by (rewrite (g_co _ _ _ _ H), map_length; reflexivity).
      rewrite Hl, nth_error_app_last. change (rk E' rid) with (rk E rid). fold (rk E rid).
      rewrite Hrk, (DialOK_live d Hok) by congruence. apply same_key_refl.
  - exists E. split; [apply kext_refl|]. split; [apply G_upd_dial_gone; exact H|discriminate].
  - exists E. split; [apply kext_refl|]. split; [apply G_upd_dial_gone; exact H|discriminate].
  - exists E. split; [apply kext_refl|]. split; [exact H|discriminate].
Qed.

(* ---------------------------------------------------------------- checkout *)
Lemma CkOK_waiter_poll E r ck :
  CkOK E r ck ->
  CkOK E r (snd (waiter_poll ck)) /\ (forall p, fst (waiter_poll ck) = WConnected p -> cr E (fst p) r /\ PooledOK E p).
Proof.
  intros Hk. unfold waiter_poll.
  destruct (k_waiter ck); destruct (k_slot ck) as [p|] eqn:Hs; try destruct (k_txdropped ck); cbn [fst snd];
    (split; [try exact Hk; eapply CkOK_weaken; eauto|]); try discriminate;
    intros p' Hp'; inversion Hp'; subst p'; destruct Hk as [_ [_ Hk]]; apply (Hk p Hs).
Qed.

Lemma G_checkout_poll E cfg rid ck s :
  G E s -> CkOK E rid ck ->
  exists E', kext E E' /\ G E' (snd (checkout_poll cfg rid ck s)) /\ CkOK E' rid (snd (fst (checkout_poll cfg rid ck s)))
             /\ (forall p, fst (fst (checkout_poll cfg rid ck s)) = KReady (inl p) -> cr E' (fst p) rid /\ PooledOK E' p).
Proof.
  intros H Hk. unfold checkout_poll.
  pose proof (CkOK_waiter_poll E rid ck Hk) as [Hk1 Hp1].
  destruct (waiter_poll ck) as [w ck1]. cbn [fst snd] in Hk1, Hp1.
  destruct w as [|p|].
  - exists E. cbn [fst snd]. split; [apply kext_refl|]. split; [exact H|]. split; [exact Hk1|discriminate].
  - exists E. cbn [fst snd]. split; [apply kext_refl|]. split; [exact H|]. split; [exact Hk1|].
    intros p' Hp'. inversion Hp'; subst p'. apply Hp1. reflexivity.
  - destruct (k_inner ck1).
    1: { exists E. cbn [fst snd]. split; [apply kext_refl|]. split; [exact H|]. split; [exact Hk1|discriminate]. }
    1: { destruct (k_conn ck1) as [c|] eqn:Hkc.
         2: { exists E. cbn [fst snd]. split; [apply kext_refl|]. split; [exact H|]. split; [exact Hk1|discriminate]. }
         assert (Hk1' : CkOK E rid (k_set_conn None ck1)) by (eapply CkOK_weaken; eauto).
         pose proof (G_rx_drop E rid _ s Hk1' H) as [H2 Hk2].
         destruct (rx_drop (k_set_conn None ck1) s) as [ck2 s2]. cbn [fst snd] in H2, Hk2.
         assert (H2' : G E (set_req rid (RCheckout ck2) s2)) by (apply G_set_req; [exact Hk2|exact H2]).
         assert (Hct : ct E c (k_token ck2)).
         { eapply cr_rt_ct; [|apply Hk2]. destruct Hk1 as [_ [Hc _]]. apply Hc. exact Hkc. }
         pose proof (G_register E cfg (k_token ck2) c _ Hct H2') as [H3 [Hf Hp]].
         destruct (register cfg (k_token ck2) c (set_req rid (RCheckout ck2) s2)) as [p s3]. cbn [fst snd] in *.
         exists E. split; [apply kext_refl|]. split; [exact H3|]. split; [exact Hk2|].
         intros p' Hp'. inversion Hp'; subst p'. split; [|exact Hp]. rewrite Hf. destruct Hk1 as [_ [Hc _]]. apply Hc. exact Hkc. }
    all: pose proof (G_connector_poll E rid ByReq s H) as [E1 [HX [H1 Hc1]]];
      destruct (connector_poll rid ByReq s) as [r s1]; cbn [fst snd] in H1, Hc1;
      assert (Hk1e : CkOK E1 rid ck1) by (eapply CkOK_mono; eauto);
      (destruct r as [|res];
       [exists E1; cbn [fst snd]; split; [exact HX|]; split; [exact H1|]; split; [exact Hk1e|discriminate]|]);
      pose proof (G_rx_drop E1 rid ck1 s1 Hk1e H1) as [H2 Hk2];
      destruct (rx_drop ck1 s1) as [ck2 s2]; cbn [fst snd] in H2, Hk2;
      assert (Hk3 : CkOK E1 rid (k_set_inner IConnected ck2)) by (eapply CkOK_weaken; eauto);
      assert (H2' : G E1 (set_req rid (RCheckout (k_set_inner IConnected ck2)) s2)) by (apply G_set_req; [exact Hk3|exact H2]);
      (destruct res as [c|e];
       [|exists E1; cbn [fst snd]; split; [exact HX|]; split; [exact H2'|]; split; [exact Hk3|discriminate]]);
      assert (Hcr : cr E1 c rid) by (apply Hc1; reflexivity);
      assert (Hct : ct E1 c (k_token (k_set_inner IConnected ck2))) by (eapply cr_rt_ct; [exact Hcr|apply Hk3]);
      pose proof (G_register E1 cfg _ c _ Hct H2') as [H3 [Hf Hp]];
      destruct (register cfg (k_token (k_set_inner IConnected ck2)) c (set_req rid (RCheckout (k_set_inner IConnected ck2)) s2)) as [p s3];
      cbn [fst snd] in *;
      exists E1; split; [exact HX|]; split; [exact H3|]; split; [exact Hk3|];
      intros p' Hp'; inversion Hp'; subst p'; split; [rewrite Hf; exact Hcr|exact Hp].
Qed.

Lemma G_checkout_drop E cfg rid ck s : CkOK E rid ck -> G E s -> G E (checkout_drop cfg rid ck s).
Proof.
  intros Hk H. unfold checkout_drop.
  set (s1 := match k_conn ck with
             | Some c => if is_open s c && (g_pool cfg && negb (k_token ck =? 0)) then pool_push (g_max_idle cfg) (k_token ck) c s else drop_conn c s
             | None => s end).
  assert (H1 : G E s1).
  { subst s1. destruct (k_conn ck) as [c|] eqn:Hc; [|exact H].
    destruct (is_open s c && (g_pool cfg && negb (k_token ck =? 0))); [|apply G_drop_conn; exact H].
    apply G_pool_push; [|exact H]. eapply cr_rt_ct; [|apply Hk]. destruct Hk as [_ [Hk _]]. apply Hk. exact Hc. }
  set (started := match get_dial s1 rid with Some d => match d_stage d with DNew => false | _ => true end | None => false end).
  set (delayed := match k_inner ck with IDelayDrop => started | _ => false end).
  set (s2 := if delayed then spawn (TDelayed rid (k_token ck) (k_owner ck)) s1
             else if g_pool cfg && negb (k_token ck =? 0) && k_owner ck then pool_cancel (k_token ck) rid s1 else s1).
  assert (H2 : G E s2).
  { subst s2. destruct delayed.
    - apply G_spawn; [|exact H1]. cbn. apply Hk.
    - destruct (g_pool cfg && negb (k_token ck =? 0) && k_owner ck); [apply G_pool_cancel|]; exact H1. }
  pose proof (G_rx_drop E rid ck s2 Hk H2) as [H3 _].
  destruct (rx_drop ck s2) as [ck' s3]. cbn [snd] in H3.
  destruct (k_inner ck); try exact H3; try (apply G_upd_dial_gone; exact H3).
  destruct delayed; [exact H3|apply G_upd_dial_gone; exact H3].
Qed.

Lemma G_hold_release E r p s : PooledOK E p -> G E s -> G E (hold_release r p s).
Proof.
  intros Hp H. unfold hold_release. apply G_pooled_drop; [exact Hp|]. apply G_emit_triv; [exact I|]. apply G_upd_conn; auto.
Qed.

(* ---------------------------------------------------------------- operations (all but Issue) *)
Lemma G_do_poll E cfg r s : G E s -> exists E', kext E E' /\ G E' (do_poll cfg r s).
Proof.
  intros H. unfold do_poll. destruct (get_req s r) as [[|ck|p fin pl| |]|] eqn:Hr;
    try (exists E; split; [apply kext_refl|exact H]).
  - exists E. split; [apply kext_refl|]. apply G_set_req; [exact I|]. apply G_emit_triv; [exact I|]. apply G_unwake_req. exact H.
  - pose proof (G_get_req _ _ _ _ _ _ H Hr) as Hk. cbn [ReqOK] in Hk.
    pose proof (G_checkout_poll E cfg r ck (unwake_req r s) (G_unwake_req _ _ _ r s H) Hk) as [E1 [HX [H1 [Hk1 Hp1]]]].
    destruct (checkout_poll cfg r ck (unwake_req r s)) as [[res ck1] s1]. cbn [fst snd] in H1, Hk1, Hp1.
    exists E1. split; [exact HX|].
    destruct res as [|[p|e]].
    + apply G_emit_triv; [exact I|]. apply G_set_req; [exact Hk1|exact H1].
    + destruct (Hp1 p eq_refl) as [Hcr Hpo].
      assert (HH : forall (sh a b d : bool) (h : nat),
                G E1 (emit (EPend r) (checkout_drop cfg r ck1
                       (set_req r (RHolding p false true)
                          (upd_conn (fst p) (fun cn => c_set_holders (S (c_holders cn)) (if sh then cn else c_set_ready false cn))
                             (emit (EHand r (fst p) a b d h) s1)))))).
      { intros sh a b d h. apply G_emit_triv; [exact I|]. apply G_checkout_drop; [exact Hk1|].
        apply G_set_req; [split; [exact Hpo|exact Hcr]|]. apply G_upd_conn; [intros cn; destruct sh; reflexivity|].
        apply G_emit_hand; [exact Hcr|exact H1]. }
      destruct (get_conn s1 (fst p)) as [cn|]; cbv beta iota; [apply HH|exact (HH false _ _ _ _)].
    + apply G_emit_triv; [exact I|]. apply G_checkout_drop; [exact Hk1|]. apply G_set_req; [exact I|exact H1].
  - pose proof (G_get_req _ _ _ _ _ _ H Hr) as Hp. cbn [ReqOK] in Hp.
    exists E. split; [apply kext_refl|]. destruct fin.
    + apply G_emit_triv; [exact I|]. apply G_hold_release; [apply Hp|]. apply G_set_req; [exact I|]. apply G_unwake_req. exact H.
    + apply G_emit_triv; [exact I|]. apply G_set_req; [exact Hp|]. apply G_unwake_req. exact H.
Qed.

Lemma G_do_cancel E cfg r s : G E s -> G E (do_cancel cfg r s).
Proof.
  intros H. unfold do_cancel. destruct (get_req s r) as [[|ck|p fin pl| |]|] eqn:Hr; try exact H; apply G_unwake_req; try exact H.
  - apply G_set_req; [exact I|exact H].
  - pose proof (G_get_req _ _ _ _ _ _ H Hr) as Hk. apply G_checkout_drop; [exact Hk|]. apply G_set_req; [exact I|exact H].
  - pose proof (G_get_req _ _ _ _ _ _ H Hr) as Hp. apply G_hold_release; [apply Hp|]. apply G_set_req; [exact I|exact H].
Qed.

Lemma G_do_finish E r s : G E s -> G E (do_finish r s).
Proof.
  intros H. unfold do_finish. destruct (get_req s r) as [[|ck|p fin pl| |]|] eqn:Hr; try exact H.
  pose proof (G_get_req _ _ _ _ _ _ H Hr) as Hp.
  assert (H1 : G E (set_req r (RHolding p true false) s)) by (apply G_set_req; [exact Hp|exact H]).
  destruct pl; [apply G_wake_req|]; exact H1.
Qed.

Lemma G_do_upgrade E r s : G E s -> G E (do_upgrade r s).
Proof.
  intros H. unfold do_upgrade. destruct (get_req s r) as [[|ck|p fin pl| |]|]; try exact H.
  apply G_drain_conn_waiters. apply G_upd_conn; auto.
Qed.

Lemma G_do_dial_done E r x s : G E s -> G E (do_dial_done r x s).
Proof.
  intros H. unfold do_dial_done. destruct (get_dial s r) as [d|] eqn:Hd; [|exact H].
  destruct (d_stage d) eqn:Hst; try exact H.
  apply G_wake_poller. apply G_upd_dial; [|exact H].
  intros d0 Hd0. unfold get_dial in Hd. rewrite Hd in Hd0. inversion Hd0; subst d0.
  split; [reflexivity|]. intros Hok. left. apply (DialOK_live d Hok). congruence.
Qed.

Lemma G_do_conn_ready E c s : G E s -> G E (do_conn_ready c s).
Proof.
  intros H. unfold do_conn_ready. destruct (get_conn s c); [|exact H]. apply G_drain_conn_waiters. apply G_upd_conn; auto.
Qed.
Lemma G_do_conn_close E c s : G E s -> G E (do_conn_close c s).
Proof.
  intros H. unfold do_conn_close. destruct (get_conn s c); [|exact H]. apply G_drain_conn_waiters. apply G_upd_conn; auto.
Qed.

Lemma G_run_task E cfg tid s : G E s -> exists E', kext E E' /\ G E' (run_task cfg tid s).
Proof.
  intros H. unfold run_task. destruct (nth tid (tasks s) None) as [[c t|rid t own]|] eqn:Ht.
  3: { exists E. split; [apply kext_refl|exact H]. }
  - pose proof (G_task _ _ _ _ _ _ H Ht) as Hct. cbn [TaskOK] in Hct.
    exists E. split; [apply kext_refl|].
    destruct (get_conn s c) as [cn|]; [|apply G_finish_task; exact H].
    assert (Hfin : forall s0, G E s0 ->
              G E (if is_open (finish_task tid s0) c && negb (t =? 0) && g_pool cfg
                   then pool_push (g_max_idle cfg) t c (finish_task tid s0) else drop_conn c (finish_task tid s0))).
    { intros s0 H0. destruct (is_open (finish_task tid s0) c && negb (t =? 0) && g_pool cfg).
      - apply G_pool_push; [exact Hct|]. apply G_finish_task. exact H0.
      - apply G_drop_conn. apply G_finish_task. exact H0. }
    destruct (negb (c_open cn)); [apply Hfin; apply G_emit_triv; [exact I|exact H]|].
    destruct (c_share cn || c_ready cn); [apply Hfin; apply G_emit_triv; [exact I|exact H]|].
    apply G_upd_conn; auto.
  - pose proof (G_task _ _ _ _ _ _ H Ht) as Hrt. cbn [TaskOK] in Hrt.
    pose proof (G_connector_poll E rid (ByTask tid) s H) as [E1 [HX [H1 Hc1]]].
    destruct (connector_poll rid (ByTask tid) s) as [r s1]. cbn [fst snd] in H1, Hc1.
    exists E1. split; [exact HX|].
    destruct r as [|[c|e]]; [exact H1| |].
    + assert (Hct : ct E1 c t) by (eapply cr_rt_ct; [apply Hc1; reflexivity|eapply rt_mono; eauto]).
      pose proof (G_register E1 cfg t c s1 Hct H1) as [H2 [_ Hp]].
      destruct (register cfg t c s1) as [p s2]. cbn [fst snd] in H2, Hp.
      apply G_pooled_drop; [exact Hp|]. apply G_finish_task.
      destruct (g_pool cfg && negb (t =? 0) && own); [apply G_pool_cancel|]; exact H2.
    + apply G_finish_task. destruct (g_pool cfg && negb (t =? 0) && own); [apply G_pool_cancel|]; exact H1.
Qed.

Lemma G_bg_loop cfg fuel : forall E s, G E s -> exists E', kext E E' /\ G E' (bg_loop cfg fuel s).
Proof.
  induction fuel as [|f IH]; intros E s H; cbn [bg_loop]; [exists E; split; [apply kext_refl|exact H]|].
  destruct (runq s) as [|tid rest]; [exists E; split; [apply kext_refl|exact H]|].
  destruct (G_run_task E cfg tid (set_runq rest s) (G_set_runq _ _ _ rest s H)) as [E1 [HX1 H1]].
  destruct (IH E1 _ H1) as [E2 [HX2 H2]]. exists E2. split; [eapply kext_trans; eauto|exact H2].
Qed.

End Prims.

(* ---------------------------------------------------------------- Issue *)
(* during [do_issue] the tracker already knows the new request (pre = [its key]) *)
Lemma G_rid E m k s : Good E m [k] s -> rk E (List.length (reqs s)) = k.
Proof.
  intros H. unfold rk, rkl. rewrite (g_du _ _ _ _ H), (g_len _ _ _ _ H), <- (map_length d_uri (dials s)), nth_error_app_last. reflexivity.
Qed.

Lemma G_add E m k s d r :
  Good E m [k] s -> d_uri d = k -> DialOK d -> ReqOK E (List.length (reqs s)) r ->
  Good E m [] (set_dials (dials s ++ [d]) (set_reqs (reqs s ++ [r]) s)).
Proof.
  intros [A1 A2 A3 A4 A5 A6 A7 A8 A9] Hd Hok Hr.
  constructor; cbn [conns dials keys reqs tasks toks out set_dials set_reqs]; auto.
  - rewrite map_app, A2. cbn. rewrite Hd, app_nil_r. reflexivity.
  - rewrite !app_length. cbn. lia.
  - apply Forall_app. split; auto.
  - intros w rq Hw. apply nth_error_app_inv in Hw. destruct Hw as [Hw|[-> ->]]; auto.
Qed.

Lemma G_do_issue E m cfg u p s :
  Good E m [nth u (g_uris cfg) None] s -> exists E', kext E E' /\ Good E' m [] (do_issue cfg u p s).
Proof.
  intros H. pose proof (G_rid _ _ _ _ H) as Hrid.
  unfold do_issue. cbv zeta.
  pose proof (G_set_woken _ _ _ (woken s ++ [false]) s H) as H0.
  set (s0 := set_woken (woken s ++ [false]) s) in *.
  destruct (nth u (g_uris cfg) None) as [k|] eqn:Hu.
  2: { exists E. split; [apply kext_refl|]. apply (G_add E m None s0); auto; [right; reflexivity|exact I]. }
  destruct (negb (g_pool cfg)).
  { exists E. split; [apply kext_refl|]. apply (G_add E m (Some k) s0); auto; [left; reflexivity|].
    split; [exact I|]. split; intros ? Hx; discriminate Hx. }
  destruct (G_key_insert m [Some k] E k s0 H0) as [E1 [HX [H1 [i [Ht Hk]]]]].
  destruct (key_insert k s0) as [t s1]. cbn [fst snd] in H1, Ht. subst t.
  pose proof (G_pool_pop m [Some k] E1 (g_timeout cfg) (S i) s1 H1) as [H2 Hc].
  destruct (pool_pop (g_timeout cfg) (S i) s1) as [found s2]. cbn [fst snd] in H2, Hc.
  assert (Hrt : forall r, rk E1 r = Some k -> rt E1 r (S i)) by (intros r Hr; cbn; rewrite Hr; exact Hk).
  exists E1. split; [exact HX|].
  destruct found as [c|].
  - apply (G_add E1 m (Some k) s2); auto; [left; reflexivity|].
    pose proof (Hrt _ (G_rid _ _ _ _ H2)) as Hr2.
    split; [exact Hr2|]. split; [|intros ? Hx; discriminate Hx].
    intros c' Hc'. cbn in Hc'. inversion Hc'; subst c'. eapply ct_rt_cr; [apply Hc; reflexivity|exact Hr2].
  - match goal with |- context [upd_tok (S i) ?f s2] =>
      assert (H3 : Good E1 m [Some k] (upd_tok (S i) f s2)) end.
    { apply G_upd_tok; [|exact H2]. intros j q Hj _ [Hi Hw]. inversion Hj; subst j. split; [exact Hi|].
      cbn. intros w b Hin. apply in_app_or in Hin. destruct Hin as [Hin|[Heq|[]]]; [eauto|]. inversion Heq; subst.
      apply Hrt. eapply rk_mono; eauto. }
    destruct (p_marker (get_tok s2 (S i))) as [mk|].
    + apply (G_add E1 m (Some k)); auto; [left; reflexivity|].
      split; [apply Hrt; apply (G_rid _ _ _ _ H3)|]. split; intros ? Hx; discriminate Hx.
    + match goal with |- context [if ?own then upd_tok (S i) (set_marker ?mk) ?s3 else ?s3] =>
        assert (H4 : Good E1 m [Some k] (if own then upd_tok (S i) (set_marker mk) s3 else s3)) end.
      { destruct p; [exact H3|]. apply G_upd_tok; [|exact H3]. intros j q _ _ Hq. exact Hq. }
      apply (G_add E1 m (Some k)); auto; [left; reflexivity|].
      split; [apply Hrt; apply (G_rid _ _ _ _ H4)|]. split; intros ? Hx; discriminate Hx.
Qed.

(* ---------------------------------------------------------------- one operation *)
Lemma mkeys_track_op cfg m o ob :
  match o with Issue _ _ => False | _ => True end -> mkeys (track_op cfg m o ob) = mkeys m.
Proof.
  intros Ho. destruct o; cbn [track_op] in *; try contradiction; try reflexivity.
  - destruct (nth_error (m_reqs m) r) as [x|]; [|reflexivity].
    destruct (ri_stat x); try reflexivity; (rewrite mkeys_ri_upd by orig); try reflexivity.
    destruct (ri_popx x) as [c|]; [|reflexivity]. destruct (nth_error (m_conns m) c) as [y|]; [|reflexivity].
    destruct (ci_share y); [reflexivity|]. apply mkeys_ci_upd. reflexivity.
  - destruct (holder_conn m r); [|reflexivity]. apply mkeys_ci_upd. reflexivity.
  - apply mkeys_ri_upd. orig.
  - apply mkeys_ci_upd. reflexivity.
Qed.

Lemma mkeys_track_op_issue cfg m u p ob :
  mkeys (track_op cfg m (Issue u p) ob) = (map ri_key (m_reqs m) ++ [nth u (g_uris cfg) None], map ci_origin (m_conns m)).
Proof. cbn [track_op]. unfold mkeys. cbn [m_reqs m_conns set_m_keys set_m_reqs]. rewrite map_app. reflexivity. Qed.

Lemma mkeys_track_offer ob : forall l m, mkeys (fold_left (track_offer ob) l m) = mkeys m.
Proof.
  induction l as [|e l IH]; intros m; cbn [fold_left]; [reflexivity|]. rewrite IH.
  destruct e as [r k|c sh r|r c a b d h|r|r x|r c|c|c okb]; try reflexivity. cbn [track_offer]. destruct okb; [|reflexivity].
  destruct (nth_error (m_conns m) c); [|reflexivity]. apply mkeys_ci_upd. reflexivity.
Qed.

Lemma Good_m0 E m m' pre s : Good E m pre (set_out [] s) -> mkeys m' = mkeys m -> Good E m' pre (set_out [] s).
Proof.
  intros [A1 A2 A3 A4 A5 A6 A7 A8 A9] Hm. constructor; auto.
  unfold TT in *. cbn in *. rewrite Hm. exact A9.
Qed.

Lemma Good_issue_start E m m' k s :
  Good E m [] (set_out [] s) -> mkeys m' = (e_du E ++ [k], e_co E) ->
  Good (mkE (e_co E) (e_du E ++ [k]) (e_ks E)) m' [k] (set_out [] s).
Proof.
  intros [A1 A2 A3 A4 A5 A6 A7 A8 A9] Hm.
  set (E' := mkE (e_co E) (e_du E ++ [k]) (e_ks E)).
  assert (HX : kext E E').
  { split; [exists []; cbn; rewrite app_nil_r; reflexivity|]. split; [exists [k]; reflexivity|]. exists []; cbn; rewrite app_nil_r; reflexivity. }
  constructor; auto.
  - cbn [E' e_du]. rewrite A2, app_nil_r. reflexivity.
  - intros w rq Hw. eapply ReqOK_mono; [exact HX|eauto].
  - eapply Forall_impl; [|exact A7]. intros x. apply TaskOK_mono. exact HX.
  - intros i p Hp. eapply TokOK_mono; [exact HX|eauto].
  - unfold TT. cbn. split; [reflexivity|exact Hm].
Qed.

Lemma Good_mkeys E m s : Good E m [] (set_out [] s) -> mkeys m = (e_du E, e_co E).
Proof. intros H. destruct (g_log _ _ _ _ H) as [_ Hm]. exact Hm. Qed.

Lemma step_good cfg E m s o ob :
  Good E m [] (set_out [] s) -> exists E', kext E E' /\ Good E' (track_op cfg m o ob) [] (step cfg s o).
Proof.
  intros H. pose proof (Good_mkeys _ _ _ H) as Hm.
  destruct o as [u p|r|r|r|r|r x|c|c| |dt]; unfold step.
  1: { assert (Hm' : mkeys (track_op cfg m (Issue u p) ob) = (e_du E ++ [nth u (g_uris cfg) None], e_co E)).
       { rewrite mkeys_track_op_issue. unfold mkeys in Hm. inversion Hm. reflexivity. }
       pose proof (Good_issue_start E m _ _ s H Hm') as H1.
       destruct (G_do_issue _ _ cfg u p _ H1) as [E2 [HX2 H2]]. exists E2. split; [|exact H2].
       eapply kext_trans; [|exact HX2].
       split; [exists []; cbn; rewrite app_nil_r; reflexivity|]. split; [eexists; reflexivity|]. exists []; cbn; rewrite app_nil_r; reflexivity. }
  all: match goal with |- exists E', _ /\ Good E' (track_op ?c ?mm ?o ?b) [] _ =>
         assert (H1 : Good E (track_op c mm o b) [] (set_out [] s)) by (apply (Good_m0 E m); [exact H|apply mkeys_track_op; exact I]) end.
  - apply G_do_poll. exact H1.
  - exists E. split; [apply kext_refl|]. apply G_do_cancel. exact H1.
  - exists E. split; [apply kext_refl|]. apply G_do_finish. exact H1.
  - exists E. split; [apply kext_refl|]. apply G_do_upgrade. exact H1.
  - exists E. split; [apply kext_refl|]. apply G_do_dial_done. exact H1.
  - exists E. split; [apply kext_refl|]. apply G_do_conn_ready. exact H1.
  - exists E. split; [apply kext_refl|]. apply G_do_conn_close. exact H1.
  - unfold do_bg. apply G_bg_loop. exact H1.
  - exists E. split; [apply kext_refl|]. apply G_set_now. exact H1.
Qed.

Lemma mkeys_idle_stamp prev : forall sn m, mkeys (track_idle_stamp prev m sn) = mkeys m.
Proof.
  intros sn. unfold track_idle_stamp. generalize (sn_idle sn). induction l as [|c l IH]; intros m; cbn [fold_left]; [reflexivity|].
  rewrite IH. destruct (mem c (idle_of prev (sn_token sn))); [reflexivity|]. apply mkeys_ci_upd. reflexivity.
Qed.
Lemma mkeys_idle_stamps prev : forall l m, mkeys (fold_left (track_idle_stamp prev) l m) = mkeys m.
Proof. induction l as [|sn l IH]; intros m; cbn [fold_left]; [reflexivity|]. rewrite IH. apply mkeys_idle_stamp. Qed.

Lemma Good_next cfg E m o s' :
  Good E (track_op cfg m o (observe s')) [] s' ->
  chk_C06 cfg m o (observe s') = true /\ Good E (track cfg m o (observe s')) [] (set_out [] s').
Proof.
  intros [A1 A2 A3 A4 A5 A6 A7 A8 [B1 B2]]. split.
  - unfold chk_C06. cbn [o_events observe]. exact B1.
  - constructor; auto. unfold TT. cbn [out set_out rev evs_ok fold_left]. split; [reflexivity|].
    unfold track. cbn [o_events observe].
    match goal with |- mkeys (set_m_prev _ (set_m_i _ ?X)) = _ => change (mkeys X = (e_du E, e_co E)) end.
    rewrite mkeys_idle_stamps, mkeys_track_offer. exact B2.
Qed.

(* ---------------------------------------------------------------- every history *)
Lemma Good_init : Good (mkE [] [] []) Spec.m0 [] (set_out [] init).
Proof.
  constructor; cbn; auto.
  - intros [|w] rq Hw; discriminate Hw.
  - intros [|i] p Hp; discriminate Hp.
  - split; reflexivity.
Qed.

Theorem mon_C06_trace_from cfg : forall ops s m E,
  Good E m [] (set_out [] s) -> mon_steps chk_C06 cfg m ops (trace_from cfg s ops) = true.
Proof.
  induction ops as [|o ops IH]; intros s m E H; cbn [trace_from mon_steps]; [reflexivity|].
  destruct (step_good cfg E m s o (observe (step cfg s o)) H) as [E' [_ H']].
  destruct (Good_next cfg E' m o (step cfg s o) H') as [Hc Hn].
  rewrite Hc. cbn [andb]. eapply IH. exact Hn.
Qed.

Theorem mon_C06_holds : forall cfg ops, mon_C06 cfg ops (trace cfg ops) = true.
Proof. intros cfg ops. unfold mon_C06, mon_with, trace. eapply mon_C06_trace_from. exact Good_init. Qed.


(* ---------------------------------------------------------------- state-level reading *)
(* the key of request r's URI; the key connection c was dialled for; the key of token t *)
Definition rkey (s : state) (r : nat) : option key := match nth_error (dials s) r with Some d => d_uri d | None => None end.
Definition okey (s : state) (c : nat) : option key := match nth_error (conns s) c with Some cn => rkey s (c_origin cn) | None => None end.
Definition tkey (s : state) (t : nat) : option key := match t with O => None | S i => nth_error (keys s) i end.

(* every stored occurrence of a connection sits under a token / request of its own origin *)
Record Inv_origin (s : state) : Prop := mkInvOrigin {
  io_idle : forall i p c a, nth_error (toks s) i = Some p -> In (c, a) (p_idle p) -> same_key (okey s c) (tkey s (S i)) = true;
  io_wait : forall i p w b, nth_error (toks s) i = Some p -> In (w, b) (p_waiting p) -> same_key (rkey s w) (tkey s (S i)) = true;
  io_ck_tok : forall w ck, nth_error (reqs s) w = Some (RCheckout ck) -> k_token ck <> 0 ->
              same_key (rkey s w) (tkey s (k_token ck)) = true;
  io_ck_conn : forall w ck c, nth_error (reqs s) w = Some (RCheckout ck) -> k_conn ck = Some c -> same_key (okey s c) (rkey s w) = true;
  io_ck_slot : forall w ck c t, nth_error (reqs s) w = Some (RCheckout ck) -> k_slot ck = Some (c, t) ->
               same_key (okey s c) (rkey s w) = true /\ (t <> 0 -> same_key (okey s c) (tkey s t) = true);
  io_hold : forall r c t fin pl, nth_error (reqs s) r = Some (RHolding (c, t) fin pl) ->
            same_key (okey s c) (rkey s r) = true /\ (t <> 0 -> same_key (okey s c) (tkey s t) = true);
  io_task_ready : forall i c t, nth_error (tasks s) i = Some (Some (TWhenReady c t)) -> t <> 0 -> same_key (okey s c) (tkey s t) = true;
  io_task_delayed : forall i rid t own, nth_error (tasks s) i = Some (Some (TDelayed rid t own)) -> t <> 0 ->
                    same_key (rkey s rid) (tkey s t) = true;
  io_dial : forall r d, nth_error (dials s) r = Some d -> d_uri d = Some (d_key d) \/ d_stage d = DGone
}.

Lemma Good_rkey E m s r : Good E m [] (set_out [] s) -> rk E r = rkey s r.
Proof.
  intros H. unfold rk, rkl, rkey. pose proof (g_du _ _ _ _ H) as Hd. cbn in Hd. rewrite app_nil_r in Hd. rewrite Hd, nth_error_map.
  destruct (nth_error (dials s) r); reflexivity.
Qed.
Lemma Good_okey E m s c : Good E m [] (set_out [] s) -> ok E c = okey s c.
Proof.
  intros H. unfold ok, okl, okey. pose proof (g_co _ _ _ _ H) as Hc. cbn in Hc. rewrite Hc, nth_error_map.
  destruct (nth_error (conns s) c); cbn; [apply (Good_rkey E m s _ H)|reflexivity].
Qed.
Lemma Good_tkey E m s i : Good E m [] (set_out [] s) -> tki E i = tkey s (S i).
Proof. intros H. unfold tki, tkey. pose proof (g_ks _ _ _ _ H) as Hk. cbn in Hk. rewrite Hk. reflexivity. Qed.

Lemma Good_ct E m s c t : Good E m [] (set_out [] s) -> ct E c t -> t <> 0 -> same_key (okey s c) (tkey s t) = true.
Proof. intros H Hc Ht. destruct t as [|i]; [contradiction|]. cbn [ct] in Hc. rewrite (Good_okey E m s c H), (Good_tkey E m s i H) in Hc. exact Hc. Qed.
Lemma Good_rt E m s r t : Good E m [] (set_out [] s) -> rt E r t -> t <> 0 -> same_key (rkey s r) (tkey s t) = true.
Proof. intros H Hc Ht. destruct t as [|i]; [contradiction|]. cbn [rt] in Hc. rewrite (Good_rkey E m s r H), (Good_tkey E m s i H) in Hc. exact Hc. Qed.
Lemma Good_cr E m s c r : Good E m [] (set_out [] s) -> cr E c r -> same_key (okey s c) (rkey s r) = true.
Proof. intros H Hc. unfold cr in Hc. rewrite (Good_okey E m s c H), (Good_rkey E m s r H) in Hc. exact Hc. Qed.

Lemma Good_Inv_origin E m s : Good E m [] (set_out [] s) -> Inv_origin s.
Proof.
  intros H. constructor.
  - intros i p c a Hp Hin. destruct (g_tok _ _ _ _ H i p Hp) as [Hi _]. apply (Good_ct E m s c (S i) H); [|discriminate]. exact (Hi c a Hin).
  - intros i p w b Hp Hin. destruct (g_tok _ _ _ _ H i p Hp) as [_ Hw]. apply (Good_rt E m s w (S i) H); [|discriminate]. exact (Hw w b Hin).
  - intros w ck Hw Ht. destruct (g_req _ _ _ _ H w _ Hw) as [A _]. exact (Good_rt E m s w _ H A Ht).
  - intros w ck c Hw Hc. destruct (g_req _ _ _ _ H w _ Hw) as [_ [B _]]. exact (Good_cr E m s c w H (B c Hc)).
  - intros w ck c t Hw Hs. destruct (g_req _ _ _ _ H w _ Hw) as [_ [_ C]]. destruct (C (c, t) Hs) as [C1 C2]. split.
    + exact (Good_cr E m s c w H C1).
    + intros Ht. exact (Good_ct E m s c t H C2 Ht).
  - intros r c t fin pl Hr. destruct (g_req _ _ _ _ H r _ Hr) as [C2 C1]. split.
    + exact (Good_cr E m s c r H C1).
    + intros Ht. exact (Good_ct E m s c t H C2 Ht).
  - intros i c t Hi Ht. pose proof (g_task _ _ _ _ H) as HF. rewrite Forall_forall in HF.
    exact (Good_ct E m s c t H (HF _ (nth_error_In _ _ Hi)) Ht).
  - intros i rid t own Hi Ht. pose proof (g_task _ _ _ _ H) as HF. rewrite Forall_forall in HF.
    exact (Good_rt E m s rid t H (HF _ (nth_error_In _ _ Hi)) Ht).
  - intros r d Hd. pose proof (g_dial _ _ _ _ H) as HF. rewrite Forall_forall in HF. exact (HF _ (nth_error_In _ _ Hd)).
Qed.

Lemma run_good cfg : forall ops s m E,
  Good E m [] (set_out [] s) ->
  exists E' m', kext E E' /\ Good E' m' [] (set_out [] (fold_left (step cfg) ops s)).
Proof.
  induction ops as [|o ops IH]; intros s m E H; cbn [fold_left].
  - exists E, m. split; [apply kext_refl|exact H].
  - destruct (step_good cfg E m s o (observe (step cfg s o)) H) as [E1 [HX1 H1]].
    destruct (Good_next cfg E1 m o (step cfg s o) H1) as [_ Hn].
    destruct (IH _ _ _ Hn) as [E2 [m2 [HX2 H2]]]. exists E2, m2. split; [eapply kext_trans; eauto|exact H2].
Qed.

(* in every reachable state *)
Theorem Inv_origin_run cfg ops : Inv_origin (run cfg ops).
Proof.
  destruct (run_good cfg ops init _ _ Good_init) as [E [m [_ H]]]. exact (Good_Inv_origin E m _ H).
Qed.

(* a token's key never changes: the TokenMap only grows at the end *)
Theorem keys_stable cfg ops ops' i k :
  nth_error (keys (run cfg ops)) i = Some k -> nth_error (keys (run cfg (ops ++ ops'))) i = Some k.
Proof.
  intros Hn. unfold run in *. rewrite fold_left_app.
  destruct (run_good cfg ops init _ _ Good_init) as [E1 [m1 [_ H1]]].
  destruct (run_good cfg ops' _ _ _ H1) as [E2 [m2 [[_ [_ [l Hl]]] H2]]].
  pose proof (g_ks _ _ _ _ H1) as K1. pose proof (g_ks _ _ _ _ H2) as K2. cbn in K1, K2.
  rewrite <- K2, Hl, K1. apply nth_error_app_some. exact Hn.
Qed.

(* ---------------------------------------------------------------- TokenMap facts *)
Lemma key_eqb_congr k1 k2 k : key_eqb k1 k2 = true -> key_eqb k1 k = key_eqb k2 k.
Proof.
  intros H. destruct (key_eqb k2 k) eqn:H2.
  - eapply key_eqb_trans; eauto.
  - destruct (key_eqb k1 k) eqn:H1; [|reflexivity]. rewrite <- H2. symmetry.
    eapply key_eqb_trans; [|exact H1]. rewrite key_eqb_sym. exact H.
Qed.

(* keys that are equal (scheme and authority, ASCII case-insensitively) get the same token *)
Lemma find_key_eqv k1 k2 : key_eqb k1 k2 = true -> forall ks j, find_key k1 ks j = find_key k2 ks j.
Proof.
  intros H. induction ks as [|k ks IH]; intros j; cbn [find_key]; [reflexivity|].
  rewrite (key_eqb_congr k1 k2 k H), IH. reflexivity.
Qed.

Lemma find_key_app_some k l : forall ks j t, find_key k ks j = Some t -> find_key k (ks ++ l) j = Some t.
Proof.
  induction ks as [|k0 ks IH]; intros j t H; cbn [find_key app] in *; [discriminate|].
  destruct (key_eqb k k0); [exact H|]. apply IH. exact H.
Qed.

Lemma find_key_app_none k l : forall ks j, find_key k ks j = None -> find_key k (ks ++ l) j = find_key k l (j + List.length ks).
Proof.
  induction ks as [|k0 ks IH]; intros j H; cbn [find_key app List.length] in *; [rewrite Nat.add_0_r; reflexivity|].
  destruct (key_eqb k k0); [discriminate|]. rewrite IH by exact H. f_equal. lia.
Qed.

(* ... also later, when the map has grown *)
Theorem token_same ks l k1 k2 t :
  key_eqb k1 k2 = true -> find_key k1 ks 1 = Some t -> find_key k2 (ks ++ l) 1 = Some t.
Proof. intros H Hf. apply find_key_app_some. rewrite <- (find_key_eqv k1 k2 H). exact Hf. Qed.

(* two keys with the same token are equal: different origins never share a token *)
Theorem token_distinct ks k1 k2 t :
  find_key k1 ks 1 = Some t -> find_key k2 ks 1 = Some t -> key_eqb k1 k2 = true.
Proof.
  intros H1 H2. apply find_key_spec in H1. apply find_key_spec in H2.
  destruct H1 as [i1 [a [T1 [N1 E1]]]]. destruct H2 as [i2 [b [T2 [N2 E2]]]].
  assert (i1 = i2) by lia. subst i2. rewrite N1 in N2. inversion N2; subst b.
  eapply key_eqb_trans; [exact E1|]. rewrite key_eqb_sym. exact E2.
Qed.

(* TokenMap::insert returns the token under which the key is found from then on *)
Theorem key_insert_token k s :
  find_key k (keys (snd (key_insert k s))) 1 = Some (fst (key_insert k s))
  /\ exists l, keys (snd (key_insert k s)) = keys s ++ l.
Proof.
  unfold key_insert. destruct (find_key k (keys s) 1) as [t|] eqn:Hf; cbn [fst snd].
  - split; [exact Hf|]. exists []. rewrite app_nil_r. reflexivity.
  - split; [|exists [k]; reflexivity]. cbn [keys set_toks set_keys].
    rewrite find_key_app_none by exact Hf. cbn [find_key]. rewrite key_eqb_refl. reflexivity.
Qed.

Print Assumptions mon_C06_holds.
Print Assumptions Inv_origin_run.
