(* C15, second clause, judged at the END of a drained case: what the pool retains.

   [mon_C15] bounds the idle list of every TOKEN in every snapshot.  The property's own observation
   point is coarser and independent of the pool's internal key table: the harness' connections
   count their Drop.  After the closing procedure [drain_ops] (+ probe) nothing is parked in
   channels, checkouts or hand-back tasks any more, so

       a connection that was created, has not been dropped and is not held by a request
       is retained by the pool,

   and for every origin (scheme + authority of the request whose dial created the connection) the
   number of such connections is at most max_idle_per_host (none at all when the pool is disabled).
   A connection that was closed in place (ConnClose / Upgrade) but still sits in an idle list is
   still retained and counts.  The probe's connection is held (EHand, and the probe has not completed)
   and does not count.  Observables only: ENew / EDrop / EHand / ERes events and the operations, as
   read by the tracker of pool/Spec.v. *)
From HD Require Import common.Base http.Model pool.Model pool.Spec.
Local Open Scope list_scope.

(* is connection [c] held by a request?  (handed to it - EHand - and that request has neither completed
   nor been cancelled since; exact for multiplexed connections with several holders, where the
   tracker's [ci_holder] only remembers the last hand-off / release) *)
Definition held (m : mst) (c : nat) : bool :=
  existsb (fun x => match ri_stat x with SHeld c' => Nat.eqb c' c | _ => false end) (m_reqs m).

Definition retained (m : mst) (c : nat) (x : cinfo) : bool := negb (ci_dropped x) && negb (held m c).

(* the connections (ids) retained for origin [k] *)
Definition retained_for (m : mst) (k : option key) : list nat :=
  map fst (filter (fun cx => retained m (fst cx) (snd cx) && same_key (conn_key m (fst cx)) k)
                  (combine (seq 0 (List.length (m_conns m))) (m_conns m))).

Definition retain_bound (cfg : config) : nat := if g_pool cfg then g_max_idle cfg else 0.

(* for every origin for which a connection was ever created *)
Definition mon_C15_drained (cfg : config) (m : mst) : bool :=
  forallb (fun c => Nat.leb (List.length (retained_for m (conn_key m c))) (retain_bound cfg))
          (seq 0 (List.length (m_conns m))).

(* both clauses: the per-snapshot bound on every history, the retention bound at the end of a drained one *)
Definition mon_C15_all (cfg : config) (ops : list op) (drained : bool) (obs : list opobs) : bool :=
  mon_C15 cfg ops obs && (if drained then mon_C15_drained cfg (final_mst cfg m0 ops obs) else true).
