(* C14 support, part 3: the "pool frame" [pf]: what the low-level pool primitives (everything except the
   connector, the dial table, the key table and the non-EDrop events) leave alone. *)
From HD Require Import common.Base http.Model pool.Model pool.Spec pool.Frames pool.BaseC14.
Local Open Scope list_scope.

(* the part of a connection record that only environment events and hand-offs change *)
Record cview := mkCvw { w_origin : nat; w_share : bool; w_open : bool; w_ready : bool; w_holders : nat }.
Definition cvw (cn : conn) : cview := mkCvw (c_origin cn) (c_share cn) (c_open cn) (c_ready cn) (c_holders cn).
Definition cvs (s : state) : list cview := map cvw (conns s).

Definition is_drop (e : ev) : Prop := match e with EDrop _ => True | _ => False end.
Definition drops (s s' : state) : Prop := exists es, out s' = es ++ out s /\ Forall is_drop es.

Lemma drops_refl s : drops s s. Proof. exists []. split; [reflexivity|constructor]. Qed.
Lemma drops_trans s1 s2 s3 : drops s1 s2 -> drops s2 s3 -> drops s1 s3.
Proof.
  intros (l1 & H1 & F1) (l2 & H2 & F2). exists (l2 ++ l1). split; [rewrite H2, H1, app_assoc; reflexivity|].
  apply Forall_app. auto.
Qed.
Lemma drops_same s s' : out s' = out s -> drops s s'.
Proof. intros H. exists []. split; [exact H|constructor]. Qed.

Record pf (s s' : state) : Prop := mkPf {
  pf_cvs : cvs s' = cvs s;
  pf_dials : dials s' = dials s;
  pf_keys : keys s' = keys s;
  pf_now : now s' = now s;
  pf_rlen : List.length (reqs s') = List.length (reqs s);
  pf_tl : List.length (toks s') = List.length (toks s);
  pf_out : drops s s'
}.

Lemma pf_refl s : pf s s.
Proof. constructor; auto using drops_refl. Qed.
Lemma pf_trans s1 s2 s3 : pf s1 s2 -> pf s2 s3 -> pf s1 s3.
Proof. intros [A1 A2 A3 A4 A5 A7 A6] [B1 B2 B3 B4 B5 B7 B6]. constructor; try congruence. eapply drops_trans; eauto. Qed.

Lemma pf_upd_conn c f s : (forall cn, cvw (f cn) = cvw cn) -> pf s (upd_conn c f s).
Proof. intros H. constructor; try reflexivity; [|apply drops_same; reflexivity]. unfold cvs, upd_conn. cbn [conns set_conns]. apply map_upd_id. exact H. Qed.
Lemma pf_set_req r v s : pf s (set_req r v s).
Proof. constructor; try reflexivity; [|apply drops_same; reflexivity]. unfold set_req. cbn [reqs set_reqs]. apply upd_nth_len. Qed.
Lemma pf_upd_tok t f s : pf s (upd_tok t f s).
Proof. destruct t; constructor; try reflexivity; try (apply drops_same; reflexivity). cbn. apply upd_nth_len. Qed.
Lemma pf_wake_req r s : pf s (wake_req r s). Proof. constructor; try reflexivity; apply drops_same; reflexivity. Qed.
Lemma pf_unwake_req r s : pf s (unwake_req r s). Proof. constructor; try reflexivity; apply drops_same; reflexivity. Qed.
Lemma pf_spawn t s : pf s (spawn t s). Proof. constructor; try reflexivity; apply drops_same; reflexivity. Qed.
Lemma pf_finish_task t s : pf s (finish_task t s). Proof. constructor; try reflexivity; apply drops_same; reflexivity. Qed.
Lemma pf_set_runq v s : pf s (set_runq v s). Proof. constructor; try reflexivity; apply drops_same; reflexivity. Qed.
Lemma pf_wake_task t s : pf s (wake_task t s).
Proof. unfold wake_task. destruct (existsb _ _); [apply pf_refl|apply pf_set_runq]. Qed.
Lemma pf_wake_tasks l : forall s, pf s (wake_tasks l s).
Proof. induction l as [|t l IH]; intros s; cbn [wake_tasks]; [apply pf_refl|]. eapply pf_trans; [apply pf_wake_task|apply IH]. Qed.
Lemma pf_wake_poller p r s : pf s (wake_poller p r s).
Proof. destruct p as [[|tid]|]; cbn [wake_poller]; [apply pf_wake_req|apply pf_wake_task|apply pf_refl]. Qed.
Lemma pf_emit_drop c s : pf s (emit (EDrop c) s).
Proof. constructor; try reflexivity. exists [EDrop c]. split; [reflexivity|]. constructor; [exact I|constructor]. Qed.
Lemma pf_clone_conn c s : pf s (clone_conn c s).
Proof. apply pf_upd_conn. reflexivity. Qed.
Lemma pf_drop_conn c s : pf s (drop_conn c s).
Proof.
  unfold drop_conn. destruct (get_conn s c) as [cn|]; [|apply pf_refl].
  destruct (Nat.eqb _ _).
  - eapply pf_trans; [apply (pf_upd_conn c (c_set_refs (pred (c_refs cn)))); reflexivity|apply pf_emit_drop].
  - apply (pf_upd_conn c (c_set_refs (pred (c_refs cn)))). reflexivity.
Qed.
Lemma pf_drop_all l : forall s, pf s (drop_all l s).
Proof. induction l as [|[c a] l IH]; intros s; cbn [drop_all]; [apply pf_refl|]. eapply pf_trans; [apply pf_drop_conn|apply IH]. Qed.
Lemma pf_pooled_drop p s : pf s (pooled_drop p s).
Proof. destruct p as [c t]. unfold pooled_drop. destruct (share_of s c); [apply pf_drop_conn|apply pf_spawn]. Qed.
Lemma pf_deliver w p s : pf s (deliver w p s).
Proof.
  unfold deliver. destruct (get_req s w) as [[|ck| | |]|]; try apply pf_refl.
  destruct (k_rxpolled ck); [eapply pf_trans; [apply pf_set_req|apply pf_wake_req]|apply pf_set_req].
Qed.
Lemma pf_drop_sender w s : pf s (drop_sender w s).
Proof.
  unfold drop_sender. destruct (get_req s w) as [[|ck| | |]|]; try apply pf_refl.
  destruct (k_waiter ck); try apply pf_refl;
    (destruct (k_rxpolled ck); [eapply pf_trans; [apply pf_set_req|apply pf_wake_req]|apply pf_set_req]).
Qed.
Lemma pf_walk_waiters t c sh ws : forall s, pf s (snd (walk_waiters t c sh ws s)).
Proof.
  induction ws as [|[w b] ws IH]; intros s; cbn [walk_waiters]; [apply pf_refl|].
  destruct (rx_live s w); [destruct sh|].
  - eapply pf_trans; [|apply IH]. eapply pf_trans; [apply pf_clone_conn|apply pf_deliver].
  - cbn [snd]. apply pf_deliver.
  - apply IH.
Qed.
Lemma pf_release_pending ws : forall s, pf s (snd (release_pending ws s)).
Proof.
  induction ws as [|[w b] ws IH]; intros s; cbn [release_pending]; [apply pf_refl|].
  destruct b.
  - eapply pf_trans; [apply pf_drop_sender|apply IH].
  - specialize (IH s). destruct (release_pending ws s). exact IH.
Qed.
Lemma pf_pool_cancel t rid s : pf s (pool_cancel t rid s).
Proof.
  unfold pool_cancel. destruct (p_marker (get_tok s t)) as [o|]; [|apply pf_refl].
  destruct (Nat.eqb o rid); [|apply pf_refl].
  pose proof (pf_release_pending (p_waiting (get_tok (upd_tok t (set_marker None) s) t)) (upd_tok t (set_marker None) s)) as H.
  destruct (release_pending _ _) as [rest s2]. cbn [snd] in H.
  eapply pf_trans; [apply pf_upd_tok|]. eapply pf_trans; [exact H|apply pf_upd_tok].
Qed.
Lemma pf_pop_loop thr rl : forall s, pf s (snd (pop_loop thr rl s)).
Proof.
  induction rl as [|[c a] rl IH]; intros s; cbn [pop_loop]; [apply pf_refl|].
  destruct (match thr with Some y => (a <? y)%N | None => false end); cbn [snd].
  - eapply pf_trans; [apply pf_drop_conn|apply pf_drop_all].
  - destruct (is_open s c); cbn [snd]; [apply pf_refl|]. eapply pf_trans; [apply pf_drop_conn|apply IH].
Qed.
Lemma pf_pool_pop to t s : pf s (snd (pool_pop to t s)).
Proof.
  unfold pool_pop.
  pose proof (pf_pop_loop (expiry_threshold to (now s)) (rev (p_idle (get_tok s t))) s) as H.
  destruct (pop_loop _ _ _) as [[r rest] s1]. cbn [snd] in *. eapply pf_trans; [exact H|apply pf_upd_tok].
Qed.
Lemma pf_pool_push n t c s : pf s (pool_push n t c s).
Proof.
  unfold pool_push.
  set (s1 := if share_of s c then upd_tok t (set_marker None) s else s).
  assert (H1 : pf s s1) by (subst s1; destruct (share_of s c); [apply pf_upd_tok|apply pf_refl]).
  pose proof (pf_walk_waiters t c (share_of s1 c) (p_waiting (get_tok s1 t)) s1) as H2.
  destruct (walk_waiters _ _ _ _ _) as [[rest moved] s2]. cbn [snd] in H2.
  assert (H3 : pf s (upd_tok t (set_waiting rest) s2)).
  { eapply pf_trans; [exact H1|]. eapply pf_trans; [exact H2|apply pf_upd_tok]. }
  destruct moved; [exact H3|].
  match goal with |- pf _ (if ?b then _ else _) => destruct b end.
  - eapply pf_trans; [exact H3|apply pf_upd_tok].
  - eapply pf_trans; [exact H3|apply pf_drop_conn].
Qed.
Lemma pf_register cfg t c s : pf s (snd (register cfg t c s)).
Proof.
  unfold register. destruct (g_pool cfg && negb (t =? 0)); [destruct (share_of s c)|]; cbn [snd]; try apply pf_refl.
  destruct (is_open s c); [|apply pf_refl]. eapply pf_trans; [apply pf_clone_conn|apply pf_pool_push].
Qed.
Lemma pf_rx_drop ck s : pf s (snd (rx_drop ck s)).
Proof. unfold rx_drop. destruct (k_waiter ck), (k_slot ck); cbn [snd]; try apply pf_refl; apply pf_pooled_drop. Qed.

(* reading a frame *)
Lemma pf_get_conn s s' c cn' : pf s s' -> get_conn s' c = Some cn' -> exists cn, get_conn s c = Some cn /\ cvw cn' = cvw cn.
Proof.
  intros H Hg. pose proof (pf_cvs _ _ H) as Hc. unfold cvs in Hc.
  assert (Hn : nth_error (map cvw (conns s')) c = Some (cvw cn')) by (rewrite nth_error_map'; unfold get_conn in Hg; rewrite Hg; reflexivity).
  rewrite Hc, nth_error_map' in Hn. unfold get_conn. destruct (nth_error (conns s) c) as [cn|]; [|discriminate].
  exists cn. split; [reflexivity|]. cbn in Hn. congruence.
Qed.
Lemma cvs_len s s' : cvs s' = cvs s -> List.length (conns s') = List.length (conns s).
Proof. unfold cvs. intros H. rewrite <- (map_length cvw (conns s')), H, map_length. reflexivity. Qed.
Lemma cvs_get s s' c : cvs s' = cvs s -> option_map cvw (get_conn s' c) = option_map cvw (get_conn s c).
Proof. unfold cvs, get_conn. intros H. rewrite <- !nth_error_map', H. reflexivity. Qed.
Lemma cvs_share_of s s' c : cvs s' = cvs s -> share_of s' c = share_of s c.
Proof.
  intros H. pose proof (cvs_get s s' c H) as Hg. unfold share_of.
  destruct (get_conn s' c) as [a|], (get_conn s c) as [b|]; cbn in Hg; try discriminate; [|reflexivity].
  inversion Hg. reflexivity.
Qed.
Lemma cvs_is_open s s' c : cvs s' = cvs s -> is_open s' c = is_open s c.
Proof.
  intros H. pose proof (cvs_get s s' c H) as Hg. unfold is_open.
  destruct (get_conn s' c) as [a|], (get_conn s c) as [b|]; cbn in Hg; try discriminate; [|reflexivity].
  inversion Hg as [[H1 H2 H3 H4 H5]]. rewrite H2, H3, H4. reflexivity.
Qed.
