(* C03, liveness half, part 3: the closing procedure [drain_ops] leaves no request waiting. *)
From HD Require Import common.Base http.Model pool.Model pool.Spec pool.Frames pool.ProofsLite pool.FramesC06 pool.FramesC03 pool.ProofsC03
  pool.LiveC03 pool.LiveC03b.
Local Open Scope list_scope.

(* ---------------------------------------------------------------- when a poll completes *)
Lemma connector_poll_ready_when rid b s : resolved s rid = true -> exists res, fst (connector_poll rid b s) = CReady res.
Proof.
  unfold resolved, connector_poll, rs_stage. destruct (get_dial s rid) as [d|]; [|discriminate].
  destruct (d_stage d) as [| |[a| |]|]; try discriminate; cbn; eauto.
Qed.

Lemma checkout_poll_ready_when cfg r ck s :
  (k_waiter ck = WConnecting -> k_inner ck = IWaiting) -> k_inner ck <> IDelayed ->
  (conn_inner (k_inner ck) = true /\ resolved s r = true) \/ (k_inner ck = IConnected /\ k_conn ck <> None)
  \/ (k_inner ck = IWaiting /\ stuckb ck = false) ->
  exists y, fst (fst (checkout_poll cfg r ck s)) = KReady y.
Proof.
  intros Hsh Hnd Hc. unfold checkout_poll.
  pose proof (waiter_poll_fields ck) as Hf. cbv zeta in Hf.
  assert (Hwp : fst (waiter_poll ck) = WPending -> k_waiter ck = WConnecting /\ stuckb ck = true).
  { unfold waiter_poll, stuckb. destruct (k_waiter ck), (k_slot ck), (k_txdropped ck); cbn; auto; discriminate. }
  destruct (waiter_poll ck) as [w ck1]. cbn [fst snd] in *. destruct Hf as (_ & _ & F3 & F4 & _).
  destruct w as [|p|]; cbn [fst snd]; eauto.
  - destruct (Hwp eq_refl) as [W1 W2]. specialize (Hsh W1).
    destruct Hc as [[Hc _]|[[Hc _]|[_ Hc]]]; [rewrite Hsh in Hc; discriminate|congruence|congruence].
  - rewrite F3. destruct (k_inner ck) eqn:Hi; cbn [fst snd]; eauto.
    + rewrite F4. destruct Hc as [[Hc _]|[[_ Hc]|[Hc _]]]; try discriminate.
      destruct (k_conn ck) as [c|]; [|contradiction Hc; reflexivity].
      destruct (rx_drop (k_set_conn None ck1) s) as [ck2 s2]. destruct (register cfg (k_token ck2) c _) as [p s3]. cbn [fst]. eauto.
    + destruct Hc as [[_ Hc]|[[Hc _]|[Hc _]]]; try discriminate.
      destruct (connector_poll_ready_when r ByReq s Hc) as [res Hr]. destruct (connector_poll r ByReq s) as [x s1]. cbn [fst] in Hr. subst x.
      destruct (rx_drop ck1 s1) as [ck2 s2]. destruct res as [c|e]; [destruct (register cfg _ c _) as [p s3]|]; cbn [fst]; eauto.
    + destruct Hc as [[_ Hc]|[[Hc _]|[Hc _]]]; try discriminate.
      destruct (connector_poll_ready_when r ByReq s Hc) as [res Hr]. destruct (connector_poll r ByReq s) as [x s1]. cbn [fst] in Hr. subst x.
      destruct (rx_drop ck1 s1) as [ck2 s2]. destruct res as [c|e]; [destruct (register cfg _ c _) as [p s3]|]; cbn [fst]; eauto.
    + contradiction Hnd. reflexivity.
Qed.

Lemma islv_of_get s r rq : get_req s r = Some rq -> islv s r = is_lv rq.
Proof. intros H. unfold islv. rewrite H. reflexivity. Qed.

(* a poll of a checkout that completes *)
Lemma do_poll_ready_post cfg r ck s y :
  get_req s r = Some (RCheckout ck) -> no_task s r ->
  fst (fst (checkout_poll cfg r ck (unwake_req r s))) = KReady y ->
  islv (do_poll cfg r s) r = false
  /\ (forall tid t own, nth tid (tasks (do_poll cfg r s)) None = Some (TDelayed r t own) ->
        k_inner ck = IDelayDrop /\ get_dial (do_poll cfg r s) r = get_dial s r).
Proof.
  intros Hr Hno Hy. unfold do_poll. rewrite Hr.
  pose proof (checkout_poll_ready_inner cfg r ck (unwake_req r s)) as HI.
  pose proof (Tr_checkout_poll cfg r ck (unwake_req r s)) as HT.
  destruct (checkout_poll cfg r ck (unwake_req r s)) as [[res ck1] s2]. cbn [fst snd] in *. subst res.
  assert (HT2 : Tr (Some r) (Some r) None s s2) by (eapply Tr_trans; [apply Tr_weaken; apply Tr_unwake_req|exact HT]).
  destruct (Fr_get_some _ _ _ _ _ r _ (proj1 HT2) Hr) as [rq2 Hq2].
  assert (Hgen : forall sA X e, Tr (Some r) (Some r) None s sA -> get_req sA r = Some X -> is_lv X = false -> get_dial sA r = get_dial s2 r ->
     islv (emit e (checkout_drop cfg r ck1 sA)) r = false
     /\ (forall tid t own, nth tid (tasks (emit e (checkout_drop cfg r ck1 sA))) None = Some (TDelayed r t own) ->
           k_inner ck = IDelayDrop /\ get_dial (emit e (checkout_drop cfg r ck1 sA)) r = get_dial s r)).
  { intros sA X e HA HX HvX HdA.
    assert (HnoA : no_task sA r).
    { intros tid t own E. destruct (f_new _ _ _ _ _ (proj1 HA) _ _ _ _ E) as [E1|E1]; [exact (Hno _ _ _ E1)|discriminate]. }
    destruct (checkout_drop_post cfg r ck1 sA HnoA) as (Q1 & _ & _). split.
    - assert (E : get_req (emit e (checkout_drop cfg r ck1 sA)) r = Some X).
      { change (get_req (checkout_drop cfg r ck1 sA) r = Some X). apply (nock_checkout_drop cfg r ck1 sA r X HX). destruct X; try discriminate; reflexivity. }
      rewrite (islv_of_get _ _ _ E). exact HvX.
    - intros tid t own Hn. change (nth tid (tasks (checkout_drop cfg r ck1 sA)) None = Some (TDelayed r t own)) in Hn.
      destruct (Q1 _ _ _ Hn) as (_ & _ & _ & Hd & _ & Hi).
      destruct (HI y eq_refl ltac:(rewrite Hi; reflexivity)) as [I1 I2]. split; [congruence|].
      change (get_dial (checkout_drop cfg r ck1 sA) r = get_dial s r). rewrite Hd, HdA, I2. reflexivity. }
  destruct y as [p|e].
  - destruct (match get_conn s2 (fst p) with Some cn => (c_share cn, c_open cn, c_ready cn, c_holders cn) | None => (false, false, false, 0) end)
      as [[[sh op_] rd] hs].
    apply (Hgen _ (RHolding p false true)); [| |reflexivity|reflexivity].
    + eapply Tr_trans; [exact HT2|]. eapply Tr_trans; [apply Tr_weaken; apply Tr_emit|].
      eapply Tr_trans; [apply Tr_weaken; apply Tr_upd_conn|apply Tr_set_req_x].
    + eapply get_req_set_same. exact Hq2.
  - apply (Hgen _ RDone); [| |reflexivity|reflexivity].
    + eapply Tr_trans; [exact HT2|apply Tr_set_req_x].
    + eapply get_req_set_same. exact Hq2.
Qed.

(* ---------------------------------------------------------------- what a step leaves alone about request r *)
Definition SameL (r : nat) (s s' : state) : Prop :=
  req_rel (get_req s r) (get_req s' r) /\ (islv s r = true -> get_dial s' r = get_dial s r).
Definition SameT (r : nat) (s s' : state) : Prop :=
  (forall tid t own, nth tid (tasks s') None = Some (TDelayed r t own) -> nth tid (tasks s) None = Some (TDelayed r t own))
  /\ ((resolved s r = true -> resolved s' r = true) \/ no_task s' r).

Lemma SameL_refl r s : SameL r s s.
Proof. split; [apply req_rel_refl|auto]. Qed.
Lemma SameL_trans r s1 s2 s3 : SameL r s1 s2 -> SameL r s2 s3 -> SameL r s1 s3.
Proof.
  intros [A1 A2] [B1 B2]. split; [eapply req_rel_trans; eauto|]. intros Hl. rewrite B2, A2; auto.
  rewrite (req_rel_islv _ _ _ A1). exact Hl.
Qed.
Lemma SameT_refl r s : SameT r s s.
Proof. split; auto. Qed.
Lemma SameT_trans r s1 s2 s3 : SameT r s1 s2 -> SameT r s2 s3 -> SameT r s1 s3.
Proof.
  intros [A1 A2] [B1 B2]. split; [auto|].
  destruct B2 as [B2|B2]; [|right; exact B2]. destruct A2 as [A2|A2]; [left; auto|].
  right. intros tid t own E. exact (A2 _ _ _ (B1 _ _ _ E)).
Qed.

Lemma Same_of_Fr xr xd xt s s' r :
  Fr xr xd xt s s' -> xr <> Some r -> xd <> Some r -> xt <> Some r -> SameL r s s' /\ SameT r s s'.
Proof.
  intros F H1 H2 H3. split; split.
  - destruct (f_req _ _ _ _ _ F r) as [E|E]; [congruence|exact E].
  - intros _. apply (f_dial _ _ _ _ _ F). exact H2.
  - intros tid t own E. destruct (f_new _ _ _ _ _ F _ _ _ _ E) as [E1|E1]; [exact E1|congruence].
  - left. unfold resolved. rewrite (f_dial _ _ _ _ _ F r H2). auto.
Qed.

Lemma Same_run_task cfg tid rest s r :
  Lv cfg None None s -> runq s = tid :: rest ->
  SameL r s (run_task cfg tid (set_runq rest s)) /\ SameT r s (run_task cfg tid (set_runq rest s)).
Proof.
  intros H Hq. set (s0 := set_runq rest s).
  pose proof (Tr_run_task cfg tid s0) as [F _]. change (task_rid s0 tid) with (task_rid s tid) in F.
  destruct (nth tid (tasks s) None) as [[c t|rid t own]|] eqn:Ht.
  1,3: (assert (E : task_rid s tid = None) by (unfold task_rid; rewrite Ht; reflexivity); rewrite E in F;
        apply (Same_of_Fr _ _ _ _ _ r F); discriminate).
  assert (E : task_rid s tid = Some rid) by (unfold task_rid; rewrite Ht; reflexivity). rewrite E in F.
  destruct (Nat.eq_dec rid r) as [->|Hne]; [|apply (Same_of_Fr _ _ _ _ _ r F); congruence].
  destruct (l_task _ _ _ _ H _ _ _ _ Ht) as ([rq [Hrq Hv]] & B2 & d & B3 & B4); try discriminate.
  assert (Hu : forall tid' t' own', nth tid' (tasks s0) None = Some (TDelayed r t' own') -> tid' = tid).
  { intros tid' t' own' E'. eapply (l_uniq _ _ _ _ H); eauto. discriminate. }
  destruct (run_task_delayed_post cfg tid r t own d s0 Ht Hu B3 B2) as [PA PB]. cbv zeta in *.
  split; split.
  - destruct (f_req _ _ _ _ _ F r) as [E0|E0]; [discriminate|exact E0].
  - intros Hl. rewrite (islv_of_get _ _ _ Hrq) in Hl. congruence.
  - intros tid' t' own' E'. destruct B4 as [[C1 C2]|[C1 C2]].
    + destruct (PB C1) as [Hno _]. destruct (Hno _ _ _ E').
    + destruct (PA C1) as (Q1 & _). rewrite Q1 in E'. exact E'.
  - destruct B4 as [[C1 C2]|[C1 C2]].
    + right. apply (PB C1).
    + left. intros Hr. unfold resolved, rs_stage in Hr. rewrite B3, C1 in Hr. discriminate.
Qed.

Lemma Same_bg_loop cfg r fuel : forall s,
  Lv cfg None None s -> SameL r s (bg_loop cfg fuel s) /\ SameT r s (bg_loop cfg fuel s).
Proof.
  induction fuel as [|f IH]; intros s H; cbn [bg_loop]; [split; [apply SameL_refl|apply SameT_refl]|].
  destruct (runq s) as [|tid rest] eqn:Hq; [split; [apply SameL_refl|apply SameT_refl]|].
  destruct (Same_run_task cfg tid rest s r H Hq) as [A1 A2].
  destruct (IH _ (Lv_bg_step cfg tid rest s H Hq)) as [B1 B2].
  split; [eapply SameL_trans; eauto|eapply SameT_trans; eauto].
Qed.

Lemma Same_set_out r s : SameL r s (set_out [] s) /\ SameT r s (set_out [] s).
Proof. apply (Same_of_Fr None None None); try discriminate. apply Fr_same; auto. Qed.

Definition other_op (o : op) (r : nat) : Prop :=
  match o with Poll r0 | DialDone r0 _ => r0 <> r | Issue _ _ | Cancel _ => False | _ => True end.

Lemma Same_step cfg s o r : Reach cfg s -> other_op o r -> SameL r s (step cfg s o) /\ SameT r s (step cfg s o).
Proof.
  intros (_ & HL & _) Ho. unfold step.
  assert (H0 : Lv cfg None None (set_out [] s)) by (apply (Lv_simple_ops cfg s HL)).
  destruct (Same_set_out r s) as [L0 T0].
  assert (Hc : forall s', SameL r (set_out [] s) s' /\ SameT r (set_out [] s) s' -> SameL r s s' /\ SameT r s s').
  { intros s' [A B]. split; [exact (SameL_trans _ _ _ _ L0 A)|exact (SameT_trans _ _ _ _ T0 B)]. }
  destruct o as [u p|r0|r0|r0|r0|r0 y|c|c| |dt]; cbn [other_op] in Ho; try contradiction; apply Hc.
  - apply (Same_of_Fr _ _ _ _ _ r (proj1 (Tr_do_poll cfg r0 _))); congruence.
  - apply (Same_of_Fr _ _ _ _ _ r (proj1 (Tr_do_finish r0 _))); discriminate.
  - apply (Same_of_Fr _ _ _ _ _ r (proj1 (Tr_do_upgrade r0 _))); discriminate.
  - apply (Same_of_Fr _ _ _ _ _ r (proj1 (Tr_do_dial_done r0 y _))); try discriminate; congruence.
  - apply (Same_of_Fr _ _ _ _ _ r (proj1 (Tr_do_conn_ready c _))); discriminate.
  - apply (Same_of_Fr _ _ _ _ _ r (proj1 (Tr_do_conn_close c _))); discriminate.
  - unfold do_bg. apply Same_bg_loop. exact H0.
  - apply (Same_of_Fr _ _ _ _ _ r (proj1 (Tr_set_now _ _))); discriminate.
Qed.

(* ---------------------------------------------------------------- the phase predicates (per request) *)
Definition noerr (s : state) (r : nat) : Prop := get_req s r <> Some RError.
Definition flying (s : state) (r : nat) : Prop := exists d, get_dial s r = Some d /\ (d_stage d = DInFlight \/ rs_stage d = true).
Definition A1 (s : state) (r : nat) : Prop :=
  noerr s r /\ forall ck, get_req s r = Some (RCheckout ck) -> k_inner ck = IWaiting \/ (conn_inner (k_inner ck) = true /\ flying s r).
Definition A2 (s : state) (r : nat) : Prop :=
  noerr s r /\ forall ck, get_req s r = Some (RCheckout ck) -> k_inner ck = IWaiting \/ (conn_inner (k_inner ck) = true /\ resolved s r = true).
Definition A3 (s : state) (r : nat) : Prop :=
  noerr s r /\ forall ck, get_req s r = Some (RCheckout ck) -> k_inner ck = IWaiting.
Definition E3 (s : state) (r : nat) : Prop :=
  noerr s r /\ forall ck, get_req s r = Some (RCheckout ck) -> k_inner ck = IWaiting /\ stuckb ck = false.
Definition NW (s : state) (r : nat) : Prop := forall ck, get_req s r = Some (RCheckout ck) -> k_inner ck <> IWaiting.
Definition VV (s : state) (r : nat) : Prop := forall tid t own, nth tid (tasks s) None = Some (TDelayed r t own) -> resolved s r = true.
Definition ZZ (s : state) (r : nat) : Prop := islv s r = false.

Lemma SameL_ck r s s' ck' : SameL r s s' -> get_req s' r = Some (RCheckout ck') ->
  exists ck, get_req s r = Some (RCheckout ck) /\ ck_rel ck ck' /\ get_dial s' r = get_dial s r.
Proof.
  intros [A B] Hr. rewrite Hr in A. destruct (req_rel_ck_inv _ _ A) as [ck [Hq Hc]]. exists ck. split; [exact Hq|]. split; [exact Hc|].
  apply B. rewrite (islv_of_get _ _ _ Hq). reflexivity.
Qed.

Lemma noerr_Same r s s' : SameL r s s' -> noerr s r -> noerr s' r.
Proof.
  intros [A _] Hn Hr. apply Hn. rewrite Hr in A. destruct (get_req s r) as [[|ck|p f pl| |]|]; cbn in A; try reflexivity;
    try discriminate; destruct A as [x [E Hv]]; inversion E; subst; discriminate.
Qed.

Lemma A1_Same r s s' : SameL r s s' -> A1 s r -> A1 s' r.
Proof.
  intros HS [N H]. split; [eapply noerr_Same; eauto|]. intros ck' Hr.
  destruct (SameL_ck _ _ _ _ HS Hr) as [ck [Hq [(_ & _ & T3 & _) Hd]]]. rewrite T3. unfold flying. rewrite Hd. apply H. exact Hq.
Qed.
Lemma A2_Same r s s' : SameL r s s' -> A2 s r -> A2 s' r.
Proof.
  intros HS [N H]. split; [eapply noerr_Same; eauto|]. intros ck' Hr.
  destruct (SameL_ck _ _ _ _ HS Hr) as [ck [Hq [(_ & _ & T3 & _) Hd]]]. rewrite T3. unfold resolved. rewrite Hd. apply H. exact Hq.
Qed.
Lemma A3_Same r s s' : SameL r s s' -> A3 s r -> A3 s' r.
Proof.
  intros HS [N H]. split; [eapply noerr_Same; eauto|]. intros ck' Hr.
  destruct (SameL_ck _ _ _ _ HS Hr) as [ck [Hq [(_ & _ & T3 & _) Hd]]]. rewrite T3. apply H. exact Hq.
Qed.
Lemma E3_Same r s s' : SameL r s s' -> E3 s r -> E3 s' r.
Proof.
  intros HS [N H]. split; [eapply noerr_Same; eauto|]. intros ck' Hr.
  destruct (SameL_ck _ _ _ _ HS Hr) as [ck [Hq [(_ & _ & T3 & _ & T5 & _) Hd]]]. rewrite T3. destruct (H ck Hq) as [H1 H2].
  split; [exact H1|]. destruct (stuckb ck') eqn:E; [rewrite (T5 eq_refl) in H2; discriminate|reflexivity].
Qed.
Lemma NW_Same r s s' : SameL r s s' -> NW s r -> NW s' r.
Proof.
  intros HS H ck' Hr. destruct (SameL_ck _ _ _ _ HS Hr) as [ck [Hq [(_ & _ & T3 & _) Hd]]]. rewrite T3. apply H. exact Hq.
Qed.
Lemma ZZ_Same r s s' : SameL r s s' -> ZZ s r -> ZZ s' r.
Proof. intros [A _] H. unfold ZZ in *. rewrite (req_rel_islv _ _ _ A). exact H. Qed.
Lemma VV_Same r s s' : SameT r s s' -> VV s r -> VV s' r.
Proof.
  intros [A B] H tid t own E. destruct B as [B|B]; [|destruct (B _ _ _ E)]. apply B. eapply H. apply A. exact E.
Qed.
Lemma no_task_Same r s s' : SameT r s s' -> no_task s r -> no_task s' r.
Proof. intros [A _] H tid t own E. exact (H _ _ _ (A _ _ _ E)). Qed.

(* ---------------------------------------------------------------- one poll, by cases *)
Lemma do_poll_pending_post cfg r ck s :
  Lv cfg None None s -> get_req s r = Some (RCheckout ck) ->
  fst (fst (checkout_poll cfg r ck (unwake_req r s))) = KPending ->
  exists ck1, get_req (do_poll cfg r s) r = Some (RCheckout ck1) /\ k_inner ck1 = k_inner ck
    /\ (stuckb ck1 = true -> stuckb ck = true) /\ tasks (do_poll cfg r s) = tasks s
    /\ (k_inner ck = IWaiting -> stuckb ck = true)
    /\ (k_inner ck = IWaiting
        \/ (conn_inner (k_inner ck) = true /\ resolved s r = false
            /\ exists d', get_dial (do_poll cfg r s) r = Some d' /\ d_stage d' = DInFlight)).
Proof.
  intros H Hr Hp.
  destruct (l_ck _ _ _ _ H r ck Hr) as (C1 & C2 & C3 & C4 & C5 & C6); [discriminate|].
  destruct (checkout_poll_pending_shape cfg r ck (unwake_req r s) Hp) as ((F1 & F2 & F3 & F4 & F5 & F6) & Pt & Pk & Pq & Prq & Pd & Pdial).
  pose proof (checkout_poll_ready_when cfg r ck (unwake_req r s) C5 C4) as Hrw.
  unfold do_poll. rewrite Hr.
  destruct (checkout_poll cfg r ck (unwake_req r s)) as [[res ck1] s2]. cbn [fst snd] in *. subst res.
  exists ck1. split.
  { change (get_req (set_req r (RCheckout ck1) s2) r = Some (RCheckout ck1)). rewrite get_req_set_req, Nat.eqb_refl.
    unfold get_req. rewrite Pq. change (reqs (unwake_req r s)) with (reqs s). unfold get_req in Hr. rewrite Hr. reflexivity. }
  split; [exact F3|]. split; [exact F5|]. split; [exact Pk|].
  split.
  { intros Hi. destruct (stuckb ck) eqn:Hs; [reflexivity|]. exfalso.
    destruct Hrw as [y Hy]; [right; right; split; [exact Hi|reflexivity]|discriminate]. }
  destruct (k_inner ck) eqn:Hi.
  - left. reflexivity.
  - exfalso. destruct Hrw as [y Hy]; [right; left; split; [reflexivity|apply C3; reflexivity]|discriminate].
  - right. split; [reflexivity|]. destruct (resolved s r) eqn:Hres.
    + exfalso. destruct Hrw as [y Hy]; [left; split; [reflexivity|exact Hres]|discriminate].
    + split; [reflexivity|]. destruct (l_dial _ _ _ _ H r ck Hr) as [d [Hd Hl]]; try discriminate; [rewrite Hi; reflexivity|].
      destruct (Pdial C5 eq_refl d Hd Hl) as [d' [Hd' [Hs' _]]]. exists d'. split; [exact Hd'|exact Hs'].
  - right. split; [reflexivity|]. destruct (resolved s r) eqn:Hres.
    + exfalso. destruct Hrw as [y Hy]; [left; split; [reflexivity|exact Hres]|discriminate].
    + split; [reflexivity|]. destruct (l_dial _ _ _ _ H r ck Hr) as [d [Hd Hl]]; try discriminate; [rewrite Hi; reflexivity|].
      destruct (Pdial C5 eq_refl d Hd Hl) as [d' [Hd' [Hs' _]]]. exists d'. split; [exact Hd'|exact Hs'].
  - contradiction C4. reflexivity.
Qed.

(* a poll of a request that is not waiting any more *)
Lemma do_poll_nlv cfg r s :
  islv s r = false ->
  islv (do_poll cfg r s) r = false /\ get_dial (do_poll cfg r s) r = get_dial s r
  /\ (forall tid t own, nth tid (tasks (do_poll cfg r s)) None = Some (TDelayed r t own) -> nth tid (tasks s) None = Some (TDelayed r t own)).
Proof.
  intros Hl. unfold islv in Hl. unfold do_poll. destruct (get_req s r) as [[|ck|p fin pl| |]|] eqn:Hr; try discriminate.
  - assert (T : Tr None None None s (if fin then emit (ERes r ROk) (hold_release r p (set_req r RDone (unwake_req r s)))
                                     else emit (EPend r) (set_req r (RHolding p fin true) (unwake_req r s)))).
    { eapply Tr_trans; [apply Tr_unwake_req|]. destruct fin.
      - eapply Tr_trans; [|apply Tr_emit]. eapply Tr_trans; [|apply Tr_hold_release].
        apply Tr_set_req. right. intros rq E. change (get_req s r = Some rq) in E. rewrite Hr in E. inversion E; subst. cbn. eauto.
      - eapply Tr_trans; [|apply Tr_emit].
        apply Tr_set_req. right. intros rq E. change (get_req s r = Some rq) in E. rewrite Hr in E. inversion E; subst. cbn. eauto. }
    destruct T as [F _]. split; [|split].
    + destruct (f_req _ _ _ _ _ F r) as [E|E]; [discriminate|]. rewrite (req_rel_islv _ _ _ E). unfold islv. rewrite Hr. reflexivity.
    + apply (f_dial _ _ _ _ _ F). discriminate.
    + intros tid t own E. destruct (f_new _ _ _ _ _ F _ _ _ _ E) as [E1|E1]; [exact E1|discriminate].
  - unfold islv. rewrite Hr. auto.
  - unfold islv. rewrite Hr. auto.
  - unfold islv. rewrite Hr. auto.
Qed.

Lemma nlv_preds s r : islv s r = false -> A1 s r /\ A2 s r /\ A3 s r /\ E3 s r.
Proof.
  intros H. unfold islv in H.
  assert (N : noerr s r) by (intros E; rewrite E in H; discriminate).
  assert (K : forall ck, get_req s r = Some (RCheckout ck) -> False) by (intros ck E; rewrite E in H; discriminate).
  split; [split; [exact N|intros ck0 E; destruct (K ck0 E)]|].
  split; [split; [exact N|intros ck0 E; destruct (K ck0 E)]|].
  split; [split; [exact N|intros ck0 E; destruct (K ck0 E)]|].
  split; [exact N|intros ck0 E; destruct (K ck0 E)].
Qed.

Definition poll_done (cfg : config) (r : nat) (s : state) : Prop :=
  islv (do_poll cfg r s) r = false
  /\ forall tid t own, nth tid (tasks (do_poll cfg r s)) None = Some (TDelayed r t own) ->
       exists ck, get_req s r = Some (RCheckout ck) /\ k_inner ck = IDelayDrop /\ get_dial (do_poll cfg r s) r = get_dial s r.
Definition poll_pend (cfg : config) (r : nat) (s : state) : Prop :=
  exists ck ck1, get_req s r = Some (RCheckout ck) /\ get_req (do_poll cfg r s) r = Some (RCheckout ck1) /\ k_inner ck1 = k_inner ck
    /\ (stuckb ck1 = true -> stuckb ck = true) /\ tasks (do_poll cfg r s) = tasks s
    /\ (k_inner ck = IWaiting -> stuckb ck = true)
    /\ (k_inner ck = IWaiting
        \/ (conn_inner (k_inner ck) = true /\ resolved s r = false
            /\ exists d', get_dial (do_poll cfg r s) r = Some d' /\ d_stage d' = DInFlight)).

Lemma do_poll_lv_cases cfg r s : Lv cfg None None s -> islv s r = true -> poll_done cfg r s \/ poll_pend cfg r s.
Proof.
  intros H Hl. destruct (Lv_lv_facts cfg s r H Hl) as [Hno _].
  unfold islv in Hl. destruct (get_req s r) as [[|ck|p fin pl| |]|] eqn:Hr; try discriminate.
  - left. split.
    + unfold do_poll. rewrite Hr. erewrite islv_of_get; [|eapply get_req_set_same; exact Hr]. reflexivity.
    + intros tid t own E. exfalso. unfold do_poll in E. rewrite Hr in E. exact (Hno _ _ _ E).
  - destruct (fst (fst (checkout_poll cfg r ck (unwake_req r s)))) as [|y] eqn:Hres.
    + right. destruct (do_poll_pending_post cfg r ck s H Hr Hres) as [ck1 Hp]. exists ck, ck1. split; [exact Hr|exact Hp].
    + left. destruct (do_poll_ready_post cfg r ck s y Hr Hno Hres) as [Q1 Q2]. split; [exact Q1|].
      intros tid t own E. destruct (Q2 _ _ _ E) as [I1 I2]. exists ck. auto.
Qed.

(* Phase 1: after its first poll a request is done, or waits for an attempt, or its dial is in flight *)
Lemma poll_A1 cfg r s : Lv cfg None None s -> A1 (do_poll cfg r s) r.
Proof.
  intros H. destruct (islv s r) eqn:Hl.
  - destruct (do_poll_lv_cases cfg r s H Hl) as [[D _]|(ck & ck1 & Hr & Hr' & Hi & _ & _ & _ & Hc)].
    + apply nlv_preds. exact D.
    + split; [intros E; rewrite Hr' in E; discriminate|]. intros ck' E. rewrite Hr' in E. inversion E; subst ck'. rewrite Hi.
      destruct Hc as [Hc|(Hc & _ & d' & Hd & Hs)]; [left; exact Hc|right]. split; [exact Hc|]. exists d'. auto.
  - apply nlv_preds. apply (do_poll_nlv cfg r s Hl).
Qed.

(* Phase 3: the scripted outcome resolves a dial that is in flight *)
Lemma dial_done_A2 cfg r y s : Lv cfg None None s -> A1 s r -> A2 (do_dial_done r y s) r /\ VV (do_dial_done r y s) r.
Proof.
  intros H [N A]. destruct (dial_done_facts r y s) as (S1 & S2 & S3 & S4 & S5). cbv zeta in *.
  assert (Hg : get_req (do_dial_done r y s) r = get_req s r) by (unfold get_req; rewrite S1; reflexivity).
  assert (Hres : forall d, get_dial s r = Some d -> (d_stage d = DInFlight \/ rs_stage d = true) -> resolved (do_dial_done r y s) r = true).
  { intros d Hd Hs. unfold resolved. destruct (S5 d Hd) as [[Hn Hd']|[_ [[d' [Hd' Hs']] _]]].
    - rewrite Hd'. destruct Hs as [Hs|Hs]; [contradiction|exact Hs].
    - rewrite Hd'. exact Hs'. }
  split.
  - split; [unfold noerr; rewrite Hg; exact N|]. intros ck E. rewrite Hg in E.
    destruct (A ck E) as [Hc|[Hc [d [Hd Hs]]]]; [left; exact Hc|right]. split; [exact Hc|]. eapply Hres; eauto.
  - intros tid t own E. rewrite S2 in E. destruct (l_task _ _ _ _ H _ _ _ _ E) as (_ & _ & d & B3 & B4); try discriminate.
    apply (Hres d B3). destruct B4 as [[C1 _]|[C1 _]]; auto.
Qed.

(* Phase 5: a checkout whose dial has resolved completes at its next poll *)
Lemma poll_A3 cfg r s : Lv cfg None None s -> A2 s r -> VV s r -> A3 (do_poll cfg r s) r /\ VV (do_poll cfg r s) r.
Proof.
  intros H [N A] HV. destruct (islv s r) eqn:Hl.
  - destruct (Lv_lv_facts cfg s r H Hl) as [Hno _].
    destruct (do_poll_lv_cases cfg r s H Hl) as [[D DT]|(ck & ck1 & Hr & Hr' & Hi & _ & Htk & _ & Hc)].
    + split; [apply nlv_preds; exact D|]. intros tid t own E. destruct (DT _ _ _ E) as (ck & Hr & Hi & Hd).
      unfold resolved. rewrite Hd. destruct (A ck Hr) as [Hc|[_ Hc]]; [congruence|exact Hc].
    + split.
      * split; [intros E; rewrite Hr' in E; discriminate|]. intros ck' E. rewrite Hr' in E. inversion E; subst ck'. rewrite Hi.
        destruct (A ck Hr) as [Ha|[_ Ha]]; [exact Ha|]. destruct Hc as [Hc|(_ & Hc & _)]; [exact Hc|congruence].
      * intros tid t own E. rewrite Htk in E. destruct (Hno _ _ _ E).
  - destruct (do_poll_nlv cfg r s Hl) as (D1 & D2 & D3). split; [apply nlv_preds; exact D1|].
    intros tid t own E. unfold resolved. rewrite D2. eapply HV. apply D3. exact E.
Qed.

(* Phase 7: a checkout that only waits, and has been served or released, completes at its next poll *)
Lemma poll_E3 cfg r s : Lv cfg None None s -> E3 s r -> no_task s r -> ZZ (do_poll cfg r s) r /\ no_task (do_poll cfg r s) r.
Proof.
  intros H [N A] Hno. destruct (islv s r) eqn:Hl.
  - destruct (do_poll_lv_cases cfg r s H Hl) as [[D DT]|(ck & ck1 & Hr & _ & _ & _ & _ & Hst & _)].
    + split; [exact D|]. intros tid t own E. destruct (DT _ _ _ E) as (ck & Hr & Hi & _). destruct (A ck Hr) as [Ha _]. congruence.
    + exfalso. destruct (A ck Hr) as [Ha Hb]. rewrite (Hst Ha) in Hb. discriminate.
  - destruct (do_poll_nlv cfg r s Hl) as (D1 & D2 & D3). split; [exact D1|]. intros tid t own E. exact (Hno _ _ _ (D3 _ _ _ E)).
Qed.

(* ---------------------------------------------------------------- phases *)
Definition Stb (P : state -> nat -> Prop) : Prop := forall r s s', SameL r s s' -> SameT r s s' -> P s r -> P s' r.

Lemma Stb_and P Q : Stb P -> Stb Q -> Stb (fun s r => P s r /\ Q s r).
Proof. intros HP HQ r s s' L T [A B]. split; [eapply HP|eapply HQ]; eauto. Qed.
Lemma Stb_A1 : Stb A1. Proof. intros r s s' L _. apply A1_Same. exact L. Qed.
Lemma Stb_A2 : Stb A2. Proof. intros r s s' L _. apply A2_Same. exact L. Qed.
Lemma Stb_A3 : Stb A3. Proof. intros r s s' L _. apply A3_Same. exact L. Qed.
Lemma Stb_E3 : Stb E3. Proof. intros r s s' L _. apply E3_Same. exact L. Qed.
Lemma Stb_NW : Stb NW. Proof. intros r s s' L _. apply NW_Same. exact L. Qed.
Lemma Stb_ZZ : Stb ZZ. Proof. intros r s s' L _. apply ZZ_Same. exact L. Qed.
Lemma Stb_VV : Stb VV. Proof. intros r s s' _ T. apply VV_Same. exact T. Qed.
Lemma Stb_NT : Stb no_task. Proof. intros r s s' _ T. apply no_task_Same. exact T. Qed.
Lemma Stb_True : Stb (fun _ _ => True). Proof. intros r s s' _ _ _. exact I. Qed.

Lemma Stb_step cfg P s o r : Stb P -> Reach cfg s -> other_op o r -> P s r -> P (step cfg s o) r.
Proof. intros HP HR Ho H. destruct (Same_step cfg s o r HR Ho) as [L T]. eapply HP; eauto. Qed.

(* a list of operations none of which is about a particular request *)
Lemma run_stable cfg P l : Stb P -> (forall o r, In o l -> other_op o r) ->
  forall s, Reach cfg s -> Reach cfg (fold_left (step cfg) l s) /\ forall r, P s r -> P (fold_left (step cfg) l s) r.
Proof.
  intros HP. induction l as [|o l IH]; intros Hl s HR; cbn [fold_left]; [auto|].
  destruct (IH (fun o' r' Hin => Hl o' r' (or_intror Hin)) (step cfg s o) (Reach_step cfg s o HR)) as [R1 R2].
  split; [exact R1|]. intros r Hp. apply R2. apply (Stb_step cfg P s o r HP HR); [apply Hl; left; reflexivity|exact Hp].
Qed.

(* one operation per request, in the order of the request ids *)
Lemma phase_all cfg (f : nat -> op) (Pre Post : state -> nat -> Prop) :
  Stb Pre -> Stb Post -> (forall r0 r, r0 <> r -> other_op (f r0) r) ->
  (forall s r, Reach cfg s -> Pre s r -> Post (step cfg s (f r)) r) ->
  forall n k s, Reach cfg s -> (forall r, k <= r < k + n -> Pre s r) -> (forall r, r < k -> Post s r) ->
    Reach cfg (fold_left (step cfg) (map f (seq k n)) s) /\ forall r, r < k + n -> Post (fold_left (step cfg) (map f (seq k n)) s) r.
Proof.
  intros HPre HPost Hf Hest. induction n as [|n IH]; intros k s HR Hpre Hpost; cbn [seq map fold_left].
  - split; [exact HR|]. intros r Hr. apply Hpost. lia.
  - destruct (IH (S k) (step cfg s (f k)) (Reach_step cfg s (f k) HR)) as [R1 R2].
    + intros r Hr. apply (Stb_step cfg Pre s (f k) r HPre HR); [apply Hf; lia|apply Hpre; lia].
    + intros r Hr. destruct (Nat.eq_dec r k) as [->|Hne]; [apply Hest; auto; apply Hpre; lia|].
      apply (Stb_step cfg Post s (f k) r HPost HR); [apply Hf; lia|apply Hpost; lia].
    + split; [exact R1|]. intros r Hr. apply R2. lia.
Qed.

Lemma Reach_Lv0 cfg s : Reach cfg s -> Lv cfg None None (set_out [] s).
Proof. intros (_ & HL & _). apply (Lv_simple_ops cfg s HL). Qed.

Lemma step_poll_A1 cfg s r : Reach cfg s -> True -> A1 (step cfg s (Poll r)) r.
Proof. intros HR _. apply (poll_A1 cfg r (set_out [] s)). apply Reach_Lv0. exact HR. Qed.

Lemma step_dd_A2 cfg y s r : Reach cfg s -> A1 s r -> A2 (step cfg s (DialDone r y)) r /\ VV (step cfg s (DialDone r y)) r.
Proof. intros HR H. apply (dial_done_A2 cfg r y (set_out [] s)); [apply Reach_Lv0; exact HR|exact H]. Qed.

Lemma step_poll_A3 cfg s r : Reach cfg s -> A2 s r /\ VV s r -> A3 (step cfg s (Poll r)) r /\ VV (step cfg s (Poll r)) r.
Proof. intros HR [H1 H2]. apply (poll_A3 cfg r (set_out [] s)); [apply Reach_Lv0; exact HR|exact H1|exact H2]. Qed.

Lemma step_poll_E3 cfg s r : Reach cfg s -> E3 s r /\ no_task s r -> ZZ (step cfg s (Poll r)) r /\ no_task (step cfg s (Poll r)) r.
Proof. intros HR [H1 H2]. apply (poll_E3 cfg r (set_out [] s)); [apply Reach_Lv0; exact HR|exact H1|exact H2]. Qed.

Lemma step_poll_ZZ cfg s r : Reach cfg s -> ZZ s r /\ no_task s r -> ZZ (step cfg s (Poll r)) r /\ no_task (step cfg s (Poll r)) r.
Proof.
  intros HR [H1 H2]. destruct (do_poll_nlv cfg r (set_out [] s) H1) as (D1 & D2 & D3). split; [exact D1|].
  intros tid t own E. exact (H2 _ _ _ (D3 _ _ _ E)).
Qed.

Lemma other_poll r0 r : r0 <> r -> other_op (Poll r0) r. Proof. auto. Qed.
Lemma other_dd y r0 r : r0 <> r -> other_op (DialDone r0 y) r. Proof. auto. Qed.

(* ---------------------------------------------------------------- the number of requests *)
Lemma len_bg_loop cfg fuel : forall s, List.length (reqs (bg_loop cfg fuel s)) = List.length (reqs s).
Proof.
  induction fuel as [|f IH]; intros s; cbn [bg_loop]; [reflexivity|].
  destruct (runq s) as [|tid rest]; [reflexivity|]. rewrite IH. apply (f_len _ _ _ _ _ (proj1 (Tr_run_task cfg tid (set_runq rest s)))).
Qed.

Lemma len_step cfg s o :
  List.length (reqs (step cfg s o)) = match o with Issue _ _ => S (List.length (reqs s)) | _ => List.length (reqs s) end.
Proof.
  unfold step. destruct o as [u p|r|r|r|r|r y|c|c| |dt].
  - unfold do_issue. cbv zeta.
    assert (Hadd : forall rq d st, List.length (reqs (set_dials (dials st ++ [d]) (set_reqs (reqs st ++ [rq]) st))) = S (List.length (reqs st)))
      by (intros; cbn; rewrite app_length; cbn; lia).
    destruct (nth u (g_uris cfg) None) as [k|]; [|rewrite Hadd; reflexivity].
    destruct (negb (g_pool cfg)); [rewrite Hadd; reflexivity|].
    pose proof (rd_key_insert k (set_woken (woken (set_out [] s) ++ [false]) (set_out [] s))) as [R1 _].
    destruct (key_insert k _) as [t s1]. cbn [snd] in R1.
    pose proof (rd_pool_pop (g_timeout cfg) t s1) as [R2 _]. destruct (pool_pop (g_timeout cfg) t s1) as [found s2]. cbn [snd] in R2.
    destruct found as [c|]; [rewrite Hadd, R2, R1; reflexivity|].
    destruct (match p_marker (get_tok s2 t) with Some _ => true | None => false end).
    + rewrite Hadd. destruct t; cbn [upd_tok reqs set_toks]; rewrite R2, R1; reflexivity.
    + rewrite Hadd. destruct p, t; cbn [upd_tok reqs set_toks]; rewrite R2, R1; reflexivity.
  - exact (f_len _ _ _ _ _ (proj1 (Tr_do_poll cfg r (set_out [] s)))).
  - exact (f_len _ _ _ _ _ (proj1 (Tr_do_cancel cfg r (set_out [] s)))).
  - exact (f_len _ _ _ _ _ (proj1 (Tr_do_finish r (set_out [] s)))).
  - exact (f_len _ _ _ _ _ (proj1 (Tr_do_upgrade r (set_out [] s)))).
  - exact (f_len _ _ _ _ _ (proj1 (Tr_do_dial_done r y (set_out [] s)))).
  - exact (f_len _ _ _ _ _ (proj1 (Tr_do_conn_ready c (set_out [] s)))).
  - exact (f_len _ _ _ _ _ (proj1 (Tr_do_conn_close c (set_out [] s)))).
  - unfold do_bg. exact (len_bg_loop cfg _ (set_out [] s)).
  - reflexivity.
Qed.

Lemma len_run cfg ops : forall s, List.length (reqs (fold_left (step cfg) ops s)) = List.length (reqs s) + count_issues ops.
Proof.
  induction ops as [|o ops IH]; intros s; cbn [fold_left]; [unfold count_issues; cbn; lia|].
  rewrite IH, len_step. unfold count_issues. cbn [filter]. destruct o; cbn [List.length]; lia.
Qed.

(* ---------------------------------------------------------------- a background run finishes the resolved connectors *)
Lemma run_task_resolved_gone cfg tid rest rid t own s :
  Lv cfg None None s -> runq s = tid :: rest -> nth tid (tasks s) None = Some (TDelayed rid t own) -> resolved s rid = true ->
  no_task (run_task cfg tid (set_runq rest s)) rid.
Proof.
  intros H Hq Ht Hres. set (s0 := set_runq rest s).
  destruct (l_task _ _ _ _ H _ _ _ _ Ht) as (_ & B2 & d & B3 & _); try discriminate.
  assert (Hu : forall tid' t' own', nth tid' (tasks s0) None = Some (TDelayed rid t' own') -> tid' = tid).
  { intros tid' t' own' E'. eapply (l_uniq _ _ _ _ H); eauto. discriminate. }
  destruct (run_task_delayed_post cfg tid rid t own d s0 Ht Hu B3 B2) as [_ PB]. cbv zeta in PB.
  apply PB. unfold resolved in Hres. rewrite B3 in Hres. exact Hres.
Qed.

Lemma firstn_app_in {A} (x : A) n : forall l l', In x (firstn n l) -> In x (firstn n (l ++ l')).
Proof.
  induction n as [|n IH]; intros l l' H; [destruct H|]. destruct l as [|a l]; [destruct H|]. cbn in *.
  destruct H as [H|H]; [left; exact H|right; apply IH; exact H].
Qed.

Lemma bg_all cfg fuel : forall s,
  Lv cfg None None s -> (forall r, VV s r) ->
  (forall tid rid t own, nth tid (tasks s) None = Some (TDelayed rid t own) -> In tid (firstn fuel (runq s))) ->
  forall r, no_task (bg_loop cfg fuel s) r.
Proof.
  induction fuel as [|f IH]; intros s H HV Hin r; cbn [bg_loop].
  - intros tid t own E. destruct (Hin _ _ _ _ E).
  - destruct (runq s) as [|tid rest] eqn:Hq; [intros tid t own E; destruct (Hin _ _ _ _ E)|].
    set (s1 := run_task cfg tid (set_runq rest s)).
    apply IH.
    + apply Lv_bg_step; assumption.
    + intros r'. destruct (Same_run_task cfg tid rest s r' H Hq) as [_ T]. eapply VV_Same; [exact T|apply HV].
    + intros tid' rid' t' own' E.
      destruct (Same_run_task cfg tid rest s rid' H Hq) as [_ [T1 _]]. pose proof (T1 _ _ _ E) as E0.
      destruct (Nat.eq_dec tid' tid) as [->|Hne].
      * exfalso. exact (run_task_resolved_gone cfg tid rest rid' t' own' s H Hq E0 (HV rid' _ _ _ E0) _ _ _ E).
      * pose proof (Hin _ _ _ _ E0) as Hi. cbn [firstn] in Hi. destruct Hi as [Hi|Hi]; [congruence|].
        destruct (f_runq _ _ _ _ _ (proj1 (Tr_run_task cfg tid (set_runq rest s)))) as [l El].
        change (runq (set_runq rest s)) with rest in El. fold s1 in El. rewrite El. apply firstn_app_in. exact Hi.
Qed.

Lemma step_bg_finishes cfg s : Reach cfg s -> (forall r, VV s r) -> forall r, no_task (step cfg s Bg) r.
Proof.
  intros HR HV. pose proof (Reach_Lv0 cfg s HR) as H0. unfold step, do_bg. apply bg_all; [exact H0|exact HV|].
  intros tid rid t own E. rewrite firstn_all2 by lia.
  destruct (l_task _ _ _ _ H0 _ _ _ _ E) as (_ & _ & d & B3 & B4); try discriminate.
  destruct B4 as [[_ C]|[C1 _]]; [exact C|].
  pose proof (HV rid _ _ _ E) as Hres. unfold resolved, rs_stage in Hres. change (get_dial s rid) with (get_dial (set_out [] s) rid) in Hres.
  rewrite B3, C1 in Hres. discriminate.
Qed.

(* ---------------------------------------------------------------- when nobody owns an attempt *)
Lemma markers_none cfg s :
  Lv cfg None None s ->
  (forall r ck, get_req s r = Some (RCheckout ck) -> k_owner ck = false) -> (forall r, no_task s r) ->
  forall t, marker s t = None.
Proof.
  intros H Hown Hno t. destruct (marker s t) as [o|] eqn:Hm; [|reflexivity]. exfalso.
  destruct (l_mark _ _ _ _ H t o Hm) as [[ck [Hq [Ho _]]]|[tid Hn]]; try discriminate.
  - rewrite (Hown o ck Hq) in Ho. discriminate.
  - exact (Hno o _ _ _ Hn).
Qed.

Lemma easy_all cfg s : Reach cfg s -> (forall r, A3 s r) -> (forall r, no_task s r) -> forall r, E3 s r.
Proof.
  intros (_ & H & _) HA Hno.
  assert (Hown : forall r ck, get_req s r = Some (RCheckout ck) -> k_owner ck = false).
  { intros r ck Hq. destruct (l_ck _ _ _ _ H r ck Hq) as (C1 & _); [discriminate|]. apply C1. apply (proj2 (HA r) ck Hq). }
  pose proof (markers_none cfg s H Hown Hno) as Hm.
  intros r. destruct (HA r) as [N A]. split; [exact N|]. intros ck Hq. split; [apply A; exact Hq|].
  destruct (stuckb ck) eqn:Hs; [|reflexivity]. exfalso.
  destruct (l_ck _ _ _ _ H r ck Hq) as (_ & _ & _ & _ & _ & C6); [discriminate|]. destruct (C6 Hs) as [M _]. apply M. apply Hm.
Qed.

Lemma issue_post cfg u p s :
  (forall t, marker s t = None) ->
  let s' := step cfg s (Issue u p) in
  (forall r, r < List.length (reqs s) -> get_req s' r = get_req s r) /\ (forall r, no_task s r -> no_task s' r)
  /\ NW s' (List.length (reqs s)).
Proof.
  intros Hm. unfold step, do_issue. cbv zeta.
  set (s0 := set_woken (woken (set_out [] s) ++ [false]) (set_out [] s)).
  assert (Hadd : forall st rq d, reqs st = reqs s -> tasks st = tasks s ->
            (forall ck, rq = RCheckout ck -> k_inner ck <> IWaiting) ->
            let s' := set_dials (dials st ++ [d]) (set_reqs (reqs st ++ [rq]) st) in
            (forall r, r < List.length (reqs s) -> get_req s' r = get_req s r) /\ (forall r, no_task s r -> no_task s' r)
            /\ NW s' (List.length (reqs s))).
  { intros st rq d R T Hrq. cbv zeta. split; [|split].
    - intros r Hr. unfold get_req. cbn [reqs set_dials set_reqs]. rewrite R. apply nth_error_app1. exact Hr.
    - intros r Hno tid t own E. cbn [tasks set_dials set_reqs] in E. rewrite T in E. exact (Hno _ _ _ E).
    - intros ck E. unfold get_req in E. cbn [reqs set_dials set_reqs] in E. rewrite R, nth_error_app_last in E. inversion E as [E1]. apply Hrq. exact E1. }
  change (List.length (reqs (set_out [] s))) with (List.length (reqs s)).
  destruct (nth u (g_uris cfg) None) as [k|]; [|apply Hadd; auto; intros ck E; discriminate].
  destruct (negb (g_pool cfg)); [apply Hadd; auto; intros ck E; inversion E; discriminate|].
  destruct (key_insert_view k s0) as (R1 & _ & K1 & _ & V1 & _). cbv zeta in *.
  destruct (key_insert k s0) as [t s1]. cbn [fst snd] in *.
  pose proof (Tr_pool_pop (g_timeout cfg) t s1) as T2. pose proof (rd_pool_pop (g_timeout cfg) t s1) as [R2 _].
  destruct (pool_pop (g_timeout cfg) t s1) as [found s2]. cbn [snd] in *.
  assert (Hk2 : forall r, no_task s r -> no_task s2 r).
  { intros r Hno. eapply no_task_Tr; [exact (proj1 T2)|]. intros tid t' own E. rewrite K1 in E. exact (Hno _ _ _ E). }
  assert (Hm2 : p_marker (get_tok s2 t) = None).
  { destruct (p_marker (get_tok s2 t)) as [o|] eqn:E; [|reflexivity]. apply (t_mark _ _ _ (proj2 T2)) in E. rewrite (proj1 (V1 t)) in E.
    change (marker s0 t) with (marker s t) in E. rewrite Hm in E. discriminate. }
  assert (Hadd2 : forall st rq d, reqs st = reqs s2 -> (forall r, no_task s2 r -> no_task st r) ->
            (forall ck, rq = RCheckout ck -> k_inner ck <> IWaiting) ->
            let s' := set_dials (dials st ++ [d]) (set_reqs (reqs st ++ [rq]) st) in
            (forall r, r < List.length (reqs s) -> get_req s' r = get_req s r) /\ (forall r, no_task s r -> no_task s' r)
            /\ NW s' (List.length (reqs s))).
  { intros st rq d R T Hrq. cbv zeta. assert (R' : reqs st = reqs s) by (rewrite R, R2, R1; reflexivity). split; [|split].
    - intros r Hr. unfold get_req. cbn [reqs set_dials set_reqs]. rewrite R'. apply nth_error_app1. exact Hr.
    - intros r Hno tid t' own E. exact (T r (Hk2 r Hno) tid t' own E).
    - intros ck E. unfold get_req in E. cbn [reqs set_dials set_reqs] in E. rewrite R', nth_error_app_last in E. inversion E as [E1]. apply Hrq. exact E1. }
  destruct found as [c|]; [apply Hadd2; auto; intros ck E; inversion E; discriminate|].
  rewrite Hm2.
  apply Hadd2.
  - destruct p, t; reflexivity.
  - intros r Hno tid t' own E. apply (Hno tid t' own). destruct p, t; exact E.
  - intros ck E. inversion E. cbn. destruct (g_cont cfg); discriminate.
Qed.

(* ---------------------------------------------------------------- bookkeeping *)
Definition no_issue (o : op) : Prop := match o with Issue _ _ => False | _ => True end.

Lemma len_noissue cfg l : (forall o, In o l -> no_issue o) -> forall s, List.length (reqs (fold_left (step cfg) l s)) = List.length (reqs s).
Proof.
  induction l as [|o l IH]; intros Hl s; cbn [fold_left]; [reflexivity|].
  rewrite IH by (intros o' Hin; apply Hl; right; exact Hin). rewrite len_step.
  specialize (Hl o (or_introl eq_refl)). destruct o; try reflexivity. destruct Hl.
Qed.

Lemma in_map_seq {A} (f : nat -> A) k n x : In x (map f (seq k n)) -> exists r, x = f r.
Proof. intros H. apply in_map_iff in H. destruct H as [r [E _]]. eauto. Qed.

Lemma out_of_range cfg s r :
  Reach cfg s -> List.length (reqs s) <= r -> islv s r = false /\ no_task s r.
Proof.
  intros (_ & H & _) Hr. split.
  - unfold islv, get_req. rewrite (proj2 (nth_error_None _ _) Hr). reflexivity.
  - intros tid t own E. destruct (l_task _ _ _ _ H _ _ _ _ E) as [[x [Hq _]] _]; try discriminate. apply get_req_lt in Hq. lia.
Qed.

Lemma VV_of_no_task s r : no_task s r -> VV s r.
Proof. intros H tid t own E. destruct (H _ _ _ E). Qed.

(* a phase "one operation per request" on a state with n requests *)
Lemma phase_n cfg (f : nat -> op) (Pre Post : state -> nat -> Prop) n s :
  Stb Pre -> Stb Post -> (forall r0 r, r0 <> r -> other_op (f r0) r) -> (forall r, no_issue (f r)) ->
  (forall s r, Reach cfg s -> Pre s r -> Post (step cfg s (f r)) r) ->
  Reach cfg s -> List.length (reqs s) = n -> (forall r, r < n -> Pre s r) ->
  let s' := fold_left (step cfg) (map f (seq 0 n)) s in
  Reach cfg s' /\ List.length (reqs s') = n /\ forall r, r < n -> Post s' r.
Proof.
  intros H1 H2 H3 H4 H5 HR Hn Hpre. cbv zeta.
  destruct (phase_all cfg f Pre Post H1 H2 H3 H5 n 0 s HR) as [R1 R2].
  - intros r Hr. apply Hpre. lia.
  - intros r Hr. lia.
  - split; [exact R1|]. split; [|exact R2].
    rewrite len_noissue; [exact Hn|]. intros o Hin. destruct (in_map_seq _ _ _ _ Hin) as [r ->]. apply H4.
Qed.

(* a single operation that is about no request in particular *)
Lemma phase_one cfg o (P : state -> nat -> Prop) n s :
  Stb P -> (forall r, other_op o r) -> no_issue o ->
  Reach cfg s -> List.length (reqs s) = n -> (forall r, r < n -> P s r) ->
  let s' := step cfg s o in Reach cfg s' /\ List.length (reqs s') = n /\ forall r, r < n -> P s' r.
Proof.
  intros H1 H2 H3 HR Hn HP. cbv zeta. split; [apply Reach_step; exact HR|]. split.
  - rewrite len_step. destruct o; try exact Hn. destruct H3.
  - intros r Hr. apply (Stb_step cfg P s o r H1 HR (H2 r)). apply HP. exact Hr.
Qed.

(* ---------------------------------------------------------------- the closing procedure *)
Lemma all_bg r : other_op Bg r. Proof. exact I. Qed.

Lemma drain_A cfg n s :
  Reach cfg s -> List.length (reqs s) = n ->
  let rs := seq 0 n in
  let l := map Poll rs ++ [Bg] ++ map (fun r => DialDone r (DOk false)) rs ++ [Bg] ++ map Poll rs ++ [Bg] in
  let s' := fold_left (step cfg) l s in
  Reach cfg s' /\ List.length (reqs s') = n /\ (forall r, E3 s' r) /\ (forall r, no_task s' r).
Proof.
  intros HR Hn. cbv zeta. rewrite !fold_left_app. cbn [fold_left].
  (* 1: poll everybody *)
  destruct (phase_n cfg Poll (fun _ _ => True) A1 n s Stb_True Stb_A1 other_poll (fun _ => I) (step_poll_A1 cfg) HR Hn (fun _ _ => I)) as (R1 & N1 & P1).
  set (s1 := fold_left (step cfg) (map Poll (seq 0 n)) s) in *.
  (* 2: background *)
  destruct (phase_one cfg Bg A1 n s1 Stb_A1 all_bg I R1 N1 P1) as (R2 & N2 & P2). set (s2 := step cfg s1 Bg) in *.
  (* 3: resolve every dial *)
  destruct (phase_n cfg (fun r => DialDone r (DOk false)) A1 (fun s r => A2 s r /\ VV s r) n s2 Stb_A1 (Stb_and _ _ Stb_A2 Stb_VV)
              (other_dd (DOk false)) (fun _ => I) (step_dd_A2 cfg (DOk false)) R2 N2 P2) as (R3 & N3 & P3).
  set (s3 := fold_left (step cfg) (map (fun r => DialDone r (DOk false)) (seq 0 n)) s2) in *.
  (* 4: background *)
  destruct (phase_one cfg Bg (fun s r => A2 s r /\ VV s r) n s3 (Stb_and _ _ Stb_A2 Stb_VV) all_bg I R3 N3 P3) as (R4 & N4 & P4).
  set (s4 := step cfg s3 Bg) in *.
  (* 5: poll everybody *)
  destruct (phase_n cfg Poll (fun s r => A2 s r /\ VV s r) (fun s r => A3 s r /\ VV s r) n s4 (Stb_and _ _ Stb_A2 Stb_VV) (Stb_and _ _ Stb_A3 Stb_VV)
              other_poll (fun _ => I) (step_poll_A3 cfg) R4 N4 P4) as (R5 & N5 & P5).
  set (s5 := fold_left (step cfg) (map Poll (seq 0 n)) s4) in *.
  (* 6: background: the resolved delayed connectors finish *)
  destruct (phase_one cfg Bg A3 n s5 Stb_A3 all_bg I R5 N5 (fun r Hr => proj1 (P5 r Hr))) as (R6 & N6 & P6).
  set (s6 := step cfg s5 Bg) in *.
  assert (HV5 : forall r, VV s5 r).
  { intros r. destruct (Nat.lt_ge_cases r n) as [Hr|Hr]; [apply (P5 r Hr)|].
    apply VV_of_no_task. apply (out_of_range cfg s5 r R5). lia. }
  pose proof (step_bg_finishes cfg s5 R5 HV5) as Hno6. fold s6 in Hno6.
  assert (HA6 : forall r, A3 s6 r).
  { intros r. destruct (Nat.lt_ge_cases r n) as [Hr|Hr]; [apply (P6 r Hr)|].
    apply nlv_preds. apply (out_of_range cfg s6 r R6). lia. }
  split; [exact R6|]. split; [exact N6|]. split; [apply (easy_all cfg s6 R6 HA6 Hno6)|exact Hno6].
Qed.

Definition ZN (s : state) (r : nat) : Prop := ZZ s r /\ no_task s r.
Lemma Stb_ZN : Stb ZN. Proof. apply Stb_and; [apply Stb_ZZ|apply Stb_NT]. Qed.

Lemma ZN_all cfg n s : Reach cfg s -> List.length (reqs s) = n -> (forall r, r < n -> ZN s r) -> forall r, ZN s r.
Proof. intros HR Hn H r. destruct (Nat.lt_ge_cases r n) as [Hr|Hr]; [apply H; exact Hr|]. apply (out_of_range cfg s r HR). lia. Qed.

(* polling everybody once more, running the background tasks, finishing, readying: nothing waits again *)
Lemma ZN_poll_all cfg n s :
  Reach cfg s -> List.length (reqs s) = n -> (forall r, ZN s r) ->
  let s' := fold_left (step cfg) (map Poll (seq 0 n)) s in Reach cfg s' /\ List.length (reqs s') = n /\ forall r, ZN s' r.
Proof.
  intros HR Hn H. cbv zeta.
  destruct (phase_n cfg Poll ZN ZN n s Stb_ZN Stb_ZN other_poll (fun _ => I) (step_poll_ZZ cfg) HR Hn (fun r _ => H r)) as (R1 & N1 & P1).
  split; [exact R1|]. split; [exact N1|]. apply (ZN_all cfg n _ R1 N1 P1).
Qed.

Lemma ZN_list cfg n l s :
  (forall o r, In o l -> other_op o r) -> (forall o, In o l -> no_issue o) ->
  Reach cfg s -> List.length (reqs s) = n -> (forall r, ZN s r) ->
  let s' := fold_left (step cfg) l s in Reach cfg s' /\ List.length (reqs s') = n /\ forall r, ZN s' r.
Proof.
  intros Hl Hi HR Hn H. cbv zeta. destruct (run_stable cfg ZN l Stb_ZN Hl s HR) as [R1 R2].
  split; [exact R1|]. split; [rewrite len_noissue; [exact Hn|exact Hi]|]. intros r. apply R2. apply H.
Qed.

Lemma drain_B cfg n s :
  Reach cfg s -> List.length (reqs s) = n -> (forall r, E3 s r) -> (forall r, no_task s r) ->
  let rs := seq 0 n in
  let l := map Poll rs ++ [Bg] ++ map Finish rs ++ map Poll rs ++ map ConnReady (seq 0 (S n)) ++ [Bg] ++ map Poll rs in
  let s' := fold_left (step cfg) l s in
  Reach cfg s' /\ List.length (reqs s') = n /\ forall r, ZN s' r.
Proof.
  intros HR Hn HE Hno. cbv zeta. rewrite !fold_left_app. cbn [fold_left].
  (* 7: the served / released waiters complete *)
  destruct (phase_n cfg Poll (fun s r => E3 s r /\ no_task s r) ZN n s (Stb_and _ _ Stb_E3 Stb_NT) Stb_ZN other_poll (fun _ => I)
              (step_poll_E3 cfg) HR Hn (fun r _ => conj (HE r) (Hno r))) as (R7 & N7 & P7).
  set (s7 := fold_left (step cfg) (map Poll (seq 0 n)) s) in *.
  pose proof (ZN_all cfg n s7 R7 N7 P7) as Z7.
  (* 8: background *)
  destruct (ZN_list cfg n [Bg] s7) as (R8 & N8 & Z8); auto.
  { intros o r [<-|[]]. exact I. } { intros o [<-|[]]. exact I. }
  cbn [fold_left] in *. set (s8 := step cfg s7 Bg) in *.
  (* 9: every holder finishes *)
  destruct (ZN_list cfg n (map Finish (seq 0 n)) s8) as (R9 & N9 & Z9); auto.
  { intros o r Hin. destruct (in_map_seq _ _ _ _ Hin) as [r0 ->]. exact I. }
  { intros o Hin. destruct (in_map_seq _ _ _ _ Hin) as [r0 ->]. exact I. }
  set (s9 := fold_left (step cfg) (map Finish (seq 0 n)) s8) in *.
  (* 10 *)
  destruct (ZN_poll_all cfg n s9 R9 N9 Z9) as (R10 & N10 & Z10). set (s10 := fold_left (step cfg) (map Poll (seq 0 n)) s9) in *.
  (* 11: every connection reports ready *)
  destruct (ZN_list cfg n (map ConnReady (seq 0 (S n))) s10) as (R11 & N11 & Z11); auto.
  { intros o r Hin. destruct (in_map_seq _ _ _ _ Hin) as [r0 ->]. exact I. }
  { intros o Hin. destruct (in_map_seq _ _ _ _ Hin) as [r0 ->]. exact I. }
  set (s11 := fold_left (step cfg) (map ConnReady (seq 0 (S n))) s10) in *.
  (* 12 *)
  destruct (ZN_list cfg n [Bg] s11) as (R12 & N12 & Z12); auto.
  { intros o r [<-|[]]. exact I. } { intros o [<-|[]]. exact I. }
  cbn [fold_left] in *. set (s12 := step cfg s11 Bg) in *.
  (* 13 *)
  apply (ZN_poll_all cfg n s12 R12 N12 Z12).
Qed.

Lemma poll_NW cfg r s : Lv cfg None None s -> NW s r -> NW (do_poll cfg r s) r.
Proof.
  intros H HN. destruct (islv s r) eqn:Hl.
  - destruct (do_poll_lv_cases cfg r s H Hl) as [[D _]|(ck & ck1 & Hr & Hr' & Hi & _)].
    + intros ck E. unfold islv in D. rewrite E in D. discriminate.
    + intros ck' E. rewrite Hr' in E. inversion E; subst ck'. rewrite Hi. apply (HN ck Hr).
  - destruct (do_poll_nlv cfg r s Hl) as (D & _). intros ck E. unfold islv in D. rewrite E in D. discriminate.
Qed.

Lemma A3_NW_done s r : A3 s r -> NW s r -> islv s r = false.
Proof.
  intros [N A] HN. unfold islv. destruct (get_req s r) as [[|ck|p f pl| |]|] eqn:Hr; try reflexivity.
  - exfalso. apply N. exact Hr.
  - exfalso. exact (HN ck Hr (A ck eq_refl)).
Qed.

(* the probe: a fresh request after the closing procedure obtains a connection or an error *)
Lemma drain_C cfg n u p s :
  Reach cfg s -> List.length (reqs s) = n -> (forall r, ZN s r) ->
  let s' := fold_left (step cfg) [Issue u p; Poll n; DialDone n (DOk false); Poll n] s in
  forall r, islv s' r = false.
Proof.
  intros HR Hn HZ. cbn [fold_left].
  assert (Hm : forall t, marker s t = None).
  { destruct HR as (_ & HL & _). apply (markers_none cfg s HL).
    - intros r ck Hq. destruct (HZ r) as [Z _]. unfold ZZ, islv in Z. rewrite Hq in Z. discriminate.
    - intros r. apply (HZ r). }
  destruct (issue_post cfg u p s Hm) as (I1 & I2 & I3). cbv zeta in *. rewrite Hn in *.
  set (sa := step cfg s (Issue u p)) in *.
  pose proof (Reach_step cfg s (Issue u p) HR) as Ra. fold sa in Ra.
  assert (Na : List.length (reqs sa) = S n) by (unfold sa; rewrite len_step; lia).
  assert (Za : forall r, r < n -> ZN sa r).
  { intros r Hr. destruct (HZ r) as [Z1 Z2]. split; [unfold ZZ, islv; rewrite (I1 r Hr); exact Z1|apply I2; exact Z2]. }
  (* Poll n *)
  set (sb := step cfg sa (Poll n)).
  pose proof (Reach_step cfg sa (Poll n) Ra) as Rb. fold sb in Rb.
  assert (Zb : forall r, r < n -> ZN sb r) by (intros r Hr; apply (Stb_step cfg ZN sa (Poll n) r Stb_ZN Ra); [cbn; lia|apply Za; exact Hr]).
  assert (Ab : A1 sb n) by (apply step_poll_A1; auto).
  assert (Wb : NW sb n) by (apply (poll_NW cfg n (set_out [] sa)); [apply Reach_Lv0; exact Ra|exact I3]).
  (* DialDone n *)
  set (sc := step cfg sb (DialDone n (DOk false))).
  pose proof (Reach_step cfg sb (DialDone n (DOk false)) Rb) as Rc. fold sc in Rc.
  assert (Zc : forall r, r < n -> ZN sc r) by (intros r Hr; apply (Stb_step cfg ZN sb _ r Stb_ZN Rb); [cbn; lia|apply Zb; exact Hr]).
  destruct (step_dd_A2 cfg (DOk false) sb n Rb Ab) as [Ac Vc]. fold sc in Ac, Vc.
  assert (Wc : NW sc n).
  { intros ck E. apply (Wb ck). destruct (dial_done_facts n (DOk false) (set_out [] sb)) as (S1 & _).
    unfold get_req in *. change (reqs sc) with (reqs (do_dial_done n (DOk false) (set_out [] sb))) in E. rewrite S1 in E. exact E. }
  (* Poll n *)
  set (sd := step cfg sc (Poll n)).
  pose proof (Reach_step cfg sc (Poll n) Rc) as Rd. fold sd in Rd.
  assert (Zd : forall r, r < n -> ZN sd r) by (intros r Hr; apply (Stb_step cfg ZN sc (Poll n) r Stb_ZN Rc); [cbn; lia|apply Zc; exact Hr]).
  destruct (step_poll_A3 cfg sc n Rc (conj Ac Vc)) as [Ad _]. fold sd in Ad.
  assert (Wd : NW sd n) by (apply (poll_NW cfg n (set_out [] sc)); [apply Reach_Lv0; exact Rc|exact Wc]).
  assert (Nd : List.length (reqs sd) = S n) by (unfold sd, sc, sb; rewrite !len_step; exact Na).
  intros r. destruct (Nat.lt_trichotomy r n) as [Hr|[->|Hr]].
  - apply (Zd r Hr).
  - apply A3_NW_done; assumption.
  - apply (out_of_range cfg sd r Rd). lia.
Qed.

Lemma drain_ops_split n u p :
  drain_ops n u p =
  (map Poll (seq 0 n) ++ [Bg] ++ map (fun r => DialDone r (DOk false)) (seq 0 n) ++ [Bg] ++ map Poll (seq 0 n) ++ [Bg])
  ++ (map Poll (seq 0 n) ++ [Bg] ++ map Finish (seq 0 n) ++ map Poll (seq 0 n) ++ map ConnReady (seq 0 (S n)) ++ [Bg] ++ map Poll (seq 0 n))
  ++ [Issue u p; Poll n; DialDone n (DOk false); Poll n].
Proof. unfold drain_ops. rewrite <- !app_assoc. reflexivity. Qed.

Theorem drain_resolves cfg body u p :
  forall r rq, get_req (run cfg (body ++ drain_ops (count_issues body) u p)) r = Some rq -> is_lv rq = false.
Proof.
  set (n := count_issues body).
  assert (HR0 : Reach cfg (run cfg body)) by apply Reach_run.
  assert (Hn0 : List.length (reqs (run cfg body)) = n) by (unfold run; rewrite len_run; reflexivity).
  unfold run at 1. rewrite fold_left_app. fold (run cfg body). rewrite drain_ops_split.
  match goal with |- context [fold_left _ (?a ++ ?b ++ ?c) _] => set (lA := a); set (lB := b) end.
  rewrite !fold_left_app. subst lA lB.
  destruct (drain_A cfg n (run cfg body) HR0 Hn0) as (RA & NA & EA & TA). cbv zeta in *.
  set (sA := fold_left (step cfg) (map Poll (seq 0 n) ++ [Bg] ++ map (fun r => DialDone r (DOk false)) (seq 0 n) ++ [Bg] ++ map Poll (seq 0 n) ++ [Bg]) (run cfg body)) in *.
  destruct (drain_B cfg n sA RA NA EA TA) as (RB & NB & ZB). cbv zeta in *.
  set (sB := fold_left (step cfg) (map Poll (seq 0 n) ++ [Bg] ++ map Finish (seq 0 n) ++ map Poll (seq 0 n) ++ map ConnReady (seq 0 (S n)) ++ [Bg] ++ map Poll (seq 0 n)) sA) in *.
  pose proof (drain_C cfg n u p sB RB NB ZB) as HC. cbv zeta in HC.
  intros r rq Hq. specialize (HC r). unfold islv in HC. rewrite Hq in HC. exact HC.
Qed.

(* the monitor theorem: no lost wake-up, nothing after cancel / completion, and after the closing
   procedure every request (and a fresh probe) holds a connection or an error *)
Theorem mon_C03_holds : forall cfg body u p,
  let ops := body ++ drain_ops (count_issues body) u p in mon_C03 cfg ops true (trace cfg ops) = true.
Proof.
  intros cfg body u p ops. unfold mon_C03. rewrite mon_C03_steps_holds. cbn [andb].
  apply all_resolved_of_model. apply drain_resolves.
Qed.

Print Assumptions mon_C03_holds.
