(* C04 support, part 1: list lemmas, occupancy counting of connection handles and the state-only
   invariant [SI] (linearity of non-multiplexed connection handles over idle lists, checkouts,
   holders and hand-back tasks; idle / popped non-multiplexed connections are ready).
   Used by pool/ProofsC04.v. *)
From HD Require Import common.Base http.Model pool.Model pool.Spec pool.Frames pool.ProofsLite.
Local Open Scope list_scope.

(* ------------------------------------------------------------------ lists *)
Lemma upd_len {A} (f : A -> A) : forall l n, List.length (upd_nth n f l) = List.length l.
Proof. induction l as [|x l IH]; intros [|n]; cbn [upd_nth List.length]; auto. Qed.

Lemma nth_upd_eq {A} (f : A -> A) l n : nth_error (upd_nth n f l) n = option_map f (nth_error l n).
Proof. rewrite nth_error_upd_nth, Nat.eqb_refl. reflexivity. Qed.

Lemma nth_upd_ne {A} (f : A -> A) l n k : n <> k -> nth_error (upd_nth n f l) k = nth_error l k.
Proof. intros H. rewrite nth_error_upd_nth. destruct (Nat.eqb_spec n k); [contradiction|reflexivity]. Qed.

Lemma upd_upd {A} (g h : A -> A) : forall l r, upd_nth r g (upd_nth r h l) = upd_nth r (fun a => g (h a)) l.
Proof. induction l as [|a l IH]; intros [|r]; cbn; auto. f_equal. apply IH. Qed.

Lemma upd_none {A} (g : A -> A) : forall l r, nth_error l r = None -> upd_nth r g l = l.
Proof. induction l as [|a l IH]; intros [|r] H; cbn in *; auto; try discriminate. f_equal. apply IH; exact H. Qed.

Lemma nth_snoc {A} (l : list A) x k :
  nth_error (l ++ [x]) k = if Nat.ltb k (List.length l) then nth_error l k
                           else if Nat.eqb k (List.length l) then Some x else None.
Proof.
  destruct (Nat.ltb_spec k (List.length l)) as [Hlt|Hge].
  - apply nth_error_app1. exact Hlt.
  - rewrite nth_error_app2 by exact Hge. destruct (Nat.eqb_spec k (List.length l)) as [->|Hne].
    + rewrite Nat.sub_diag. reflexivity.
    + destruct (k - List.length l) as [|[|j]] eqn:E; cbn; try reflexivity. lia.
Qed.

Lemma nth_lt {A} (l : list A) k x : nth_error l k = Some x -> k < List.length l.
Proof. intros H. apply nth_error_Some. rewrite H. discriminate. Qed.

Lemma nth_ex {A} (l : list A) k : k < List.length l -> exists x, nth_error l k = Some x.
Proof. intros H. destruct (nth_error l k) eqn:E; [eauto|]. apply nth_error_None in E. lia. Qed.

Lemma nth_map {A B} (f : A -> B) : forall l n, nth_error (map f l) n = option_map f (nth_error l n).
Proof. induction l as [|x l IH]; intros [|n]; cbn [map nth_error option_map]; auto. Qed.

Lemma nth_default_error {A} (d : A) : forall l n x, nth_error l n = Some x -> nth n l d = x.
Proof. induction l as [|a l IH]; intros [|n] x H; cbn in *; try discriminate; [inversion H; reflexivity|auto]. Qed.

Lemma nth_opt_error {A} (l : list (option A)) n a : nth n l None = Some a -> nth_error l n = Some (Some a).
Proof.
  revert n. induction l as [|y l IH]; intros [|n] H; cbn in *; try discriminate; [congruence|auto].
Qed.

(* ------------------------------------------------------------------ counting *)
Definition cnt (l : list nat) (c : nat) : nat := count_occ Nat.eq_dec l c.

Lemma cnt_app l1 l2 c : cnt (l1 ++ l2) c = cnt l1 c + cnt l2 c.
Proof. apply count_occ_app. Qed.
Lemma cnt_nil c : cnt [] c = 0. Proof. reflexivity. Qed.
Lemma cnt_cons a l c : cnt (a :: l) c = (if Nat.eq_dec a c then 1 else 0) + cnt l c.
Proof. unfold cnt. cbn. destruct (Nat.eq_dec a c); reflexivity. Qed.
Lemma cnt_In l c : 0 < cnt l c <-> In c l.
Proof. unfold cnt. split; intros H; apply (count_occ_In Nat.eq_dec); exact H. Qed.
Lemma cnt_notin l c : ~ In c l -> cnt l c = 0.
Proof. intros H. destruct (cnt l c) eqn:E; [reflexivity|]. exfalso. apply H, cnt_In. lia. Qed.
Lemma cnt_rev l c : cnt (rev l) c = cnt l c.
Proof. induction l as [|a l IH]; [reflexivity|]. cbn [rev]. rewrite cnt_app, IH, !cnt_cons, cnt_nil. lia. Qed.

Lemma cnt_fm_app {A} (f : A -> list nat) l1 l2 c :
  cnt (flat_map f (l1 ++ l2)) c = cnt (flat_map f l1) c + cnt (flat_map f l2) c.
Proof. rewrite flat_map_app. apply cnt_app. Qed.

(* replacing the r-th element: the old element's ids go, the new one's come *)
Lemma cnt_fm_upd {A} (f : A -> list nat) (g : A -> A) c : forall l r q,
  nth_error l r = Some q ->
  cnt (flat_map f (upd_nth r g l)) c + cnt (f q) c = cnt (flat_map f l) c + cnt (f (g q)) c.
Proof.
  induction l as [|a l IH]; intros [|r] q H; cbn [nth_error] in H; try discriminate.
  - inversion H; subst. cbn [upd_nth flat_map]. rewrite !cnt_app. lia.
  - cbn [upd_nth flat_map]. rewrite !cnt_app. specialize (IH r q H). lia.
Qed.

Lemma cnt_fm_nth {A} (f : A -> list nat) c : forall l r q,
  nth_error l r = Some q -> cnt (f q) c <= cnt (flat_map f l) c.
Proof.
  induction l as [|a l IH]; intros [|r] q H; cbn [nth_error] in H; try discriminate; cbn [flat_map]; rewrite cnt_app.
  - inversion H; subst. lia.
  - specialize (IH r q H). lia.
Qed.

Lemma in_fm_nth {A} (f : A -> list nat) c l : In c (flat_map f l) -> exists r q, nth_error l r = Some q /\ In c (f q).
Proof.
  intros H. apply in_flat_map in H as (q & Hq & Hc). apply In_nth_error in Hq as (r & Hr). eauto.
Qed.

(* ------------------------------------------------------------------ handles *)
Definition oconn (o : option nat) : list nat := match o with Some c => [c] | None => [] end.
Definition oslot (o : option pooled) : list nat := match o with Some p => [fst p] | None => [] end.
Definition ckH (ck : checkout) : list nat := oslot (k_slot ck) ++ oconn (k_conn ck).
Definition reqH (q : req) : list nat :=
  match q with RCheckout ck => ckH ck | RHolding p _ _ => [fst p] | _ => [] end.
Definition reqK (q : req) : list nat := match q with RCheckout ck => oconn (k_conn ck) | _ => [] end.
Definition taskH (t : option task) : list nat := match t with Some (TWhenReady c _) => [c] | _ => [] end.
Definition tokH (p : ptok) : list nat := map fst (p_idle p).
(* the request list with request [x] (the one being polled: its checkout is a local value) blanked *)
Definition rqx (x : option nat) (s : state) : list req :=
  match x with Some r => upd_nth r (fun _ => RDone) (reqs s) | None => reqs s end.
Definition HL x s : list nat := flat_map tokH (toks s) ++ flat_map reqH (rqx x s) ++ flat_map taskH (tasks s).
Definition RL x s : list nat := flat_map tokH (toks s) ++ flat_map reqK (rqx x s).

Definition ready_of s c := match get_conn s c with Some cn => c_ready cn | None => false end.
Definition rdy s c : Prop := share_of s c = false -> ready_of s c = true.

(* state-only invariant; [F]: handles in flight (held in local values of the running step) *)
Record SI (x : option nat) (F : list nat) (s : state) : Prop := mkSI {
  si_lin : forall c, share_of s c = false -> cnt (HL x s) c + cnt F c <= 1;
  si_bnd : forall c, In c (HL x s) \/ In c F -> c < List.length (conns s);
  si_rdy : forall c, In c (RL x s) -> rdy s c;
  si_tsk : forall tid c t, nth_error (tasks s) tid = Some (Some (TWhenReady c t)) -> share_of s c = false
}.

Lemma SI_eq x F s s' :
  conns s' = conns s -> toks s' = toks s -> reqs s' = reqs s -> tasks s' = tasks s -> SI x F s -> SI x F s'.
Proof.
  intros Hc Ht Hr Hk [A B C D].
  assert (E1 : HL x s' = HL x s) by (unfold HL, rqx; rewrite Ht, Hr, Hk; reflexivity).
  assert (E2 : RL x s' = RL x s) by (unfold RL, rqx; rewrite Ht, Hr; reflexivity).
  assert (E3 : forall c, share_of s' c = share_of s c) by (intros c; unfold share_of, get_conn; rewrite Hc; reflexivity).
  constructor; intros.
  - rewrite E1. apply A. rewrite <- E3. assumption.
  - rewrite Hc. apply B. rewrite <- E1. assumption.
  - rewrite E2 in H. specialize (C c H). unfold rdy, ready_of, get_conn in *. rewrite E3, Hc. exact C.
  - rewrite E3. rewrite Hk in H. eapply D; eauto.
Qed.

Lemma SI_F_le x F F' s : (forall c, cnt F' c <= cnt F c) -> SI x F s -> SI x F' s.
Proof.
  intros H [A B C D]. constructor; auto.
  - intros c Hs. specialize (A c Hs). specialize (H c). lia.
  - intros c [Hc|Hc]; [apply B; left; exact Hc|]. apply B. right. apply cnt_In. apply cnt_In in Hc. specialize (H c). lia.
Qed.

Lemma SI_F_drop x c F s : SI x (c :: F) s -> SI x F s.
Proof. apply SI_F_le. intros c'. rewrite cnt_cons. lia. Qed.

Lemma SI_F_app_r x F1 F2 s : SI x (F1 ++ F2) s -> SI x F2 s.
Proof. apply SI_F_le. intros c'. rewrite cnt_app. lia. Qed.

(* conns *)
Lemma get_conn_upd c f s c' :
  get_conn (upd_conn c f s) c' = if Nat.eqb c c' then option_map f (get_conn s c') else get_conn s c'.
Proof. unfold get_conn, upd_conn. cbn [conns set_conns]. apply nth_error_upd_nth. Qed.

Lemma share_of_upd c f s c' : (forall cn, c_share (f cn) = c_share cn) -> share_of (upd_conn c f s) c' = share_of s c'.
Proof.
  intros H. unfold share_of. rewrite get_conn_upd. destruct (Nat.eqb c c'); [|reflexivity].
  destruct (get_conn s c'); cbn; [apply H|reflexivity].
Qed.

Lemma SI_conn x F s c f :
  (forall cn, c_share (f cn) = c_share cn) ->
  (forall cn, c_ready cn = true -> c_ready (f cn) = true) \/ ~ In c (RL x s) ->
  SI x F s -> SI x F (upd_conn c f s).
Proof.
  intros Hs Hr [A B C D].
  constructor; intros.
  - change (HL x (upd_conn c f s)) with (HL x s). apply A. rewrite <- (share_of_upd c f s c0 Hs). assumption.
  - unfold upd_conn. cbn [conns set_conns]. rewrite upd_len. apply B. exact H.
  - change (RL x (upd_conn c f s)) with (RL x s) in H. specialize (C c0 H).
    unfold rdy, ready_of in *. rewrite (share_of_upd c f s c0 Hs), get_conn_upd. intros Hsh. specialize (C Hsh).
    destruct (Nat.eqb_spec c c0) as [<-|Hne]; [|exact C].
    destruct Hr as [Hr|Hr]; [|contradiction]. destruct (get_conn s c); cbn in *; [apply Hr, C|discriminate].
  - rewrite (share_of_upd c f s c0 Hs). eapply D. exact H.
Qed.

(* requests *)
Lemma upd_comm {A} (g h : A -> A) : forall l r w, r <> w -> upd_nth r g (upd_nth w h l) = upd_nth w h (upd_nth r g l).
Proof.
  induction l as [|a l IH]; intros [|r] [|w] H; cbn [upd_nth]; auto; try congruence. f_equal. apply IH. congruence.
Qed.

Lemma in_fm_upd {A} (f : A -> list nat) (g : A -> A) c : forall l r,
  In c (flat_map f (upd_nth r g l)) -> (exists q, nth_error l r = Some q /\ In c (f (g q))) \/ In c (flat_map f l).
Proof.
  induction l as [|a l IH]; intros [|r] H; cbn [upd_nth flat_map] in *; auto.
  - apply in_app_or in H as [H|H]; [left; exists a; split; [reflexivity|exact H]|right; apply in_or_app; auto].
  - apply in_app_or in H as [H|H]; [right; apply in_or_app; auto|].
    destruct (IH r H) as [(q & Hq & Hc)|Hc]; [left; exists q; auto|right; apply in_or_app; auto].
Qed.

Lemma rqx_set_req_x r v s : rqx (Some r) (set_req r v s) = rqx (Some r) s.
Proof. unfold rqx, set_req. cbn [reqs set_reqs]. apply upd_upd. Qed.

Lemma rqx_set_req x w v s : x <> Some w -> rqx x (set_req w v s) = upd_nth w (fun _ => v) (rqx x s).
Proof.
  intros H. unfold rqx, set_req. cbn [reqs set_reqs]. destruct x as [r|]; [|reflexivity]. apply upd_comm. congruence.
Qed.

Lemma rqx_nth x w s : x <> Some w -> nth_error (rqx x s) w = nth_error (reqs s) w.
Proof. intros H. unfold rqx. destruct x as [r|]; [|reflexivity]. apply nth_upd_ne. congruence. Qed.

Lemma SI_set_req_x r v F s : SI (Some r) F s -> SI (Some r) F (set_req r v s).
Proof.
  intros [A B C D].
  assert (E1 : HL (Some r) (set_req r v s) = HL (Some r) s) by (unfold HL; rewrite rqx_set_req_x; reflexivity).
  assert (E2 : RL (Some r) (set_req r v s) = RL (Some r) s) by (unfold RL; rewrite rqx_set_req_x; reflexivity).
  constructor; intros.
  - rewrite E1. apply A. exact H.
  - rewrite E1 in H. apply B. exact H.
  - rewrite E2 in H. apply C. exact H.
  - eapply D. exact H.
Qed.

Lemma SI_set_req x F F' s w q v :
  x <> Some w -> nth_error (reqs s) w = Some q ->
  (forall c, share_of s c = false -> cnt (reqH v) c + cnt F' c <= cnt (reqH q) c + cnt F c) ->
  (forall c, In c (reqH v) \/ In c F' -> c < List.length (conns s)) ->
  (forall c, In c (reqK v) -> rdy s c) ->
  SI x F s -> SI x F' (set_req w v s).
Proof.
  intros Hx Hq Hcnt Hb Hr [A B C D].
  assert (Hq' : nth_error (rqx x s) w = Some q) by (rewrite rqx_nth; assumption).
  constructor; intros.
  - change (share_of (set_req w v s) c) with (share_of s c) in H.
    unfold HL. rewrite rqx_set_req by exact Hx. change (toks (set_req w v s)) with (toks s). change (tasks (set_req w v s)) with (tasks s).
    pose proof (cnt_fm_upd reqH (fun _ => v) c _ _ _ Hq') as E. specialize (A c H). specialize (Hcnt c H).
    unfold HL in A. rewrite !cnt_app in *. lia.
  - change (conns (set_req w v s)) with (conns s). destruct H as [H|H]; [|apply Hb; auto].
    unfold HL in H. rewrite rqx_set_req in H by exact Hx. change (toks (set_req w v s)) with (toks s) in H. change (tasks (set_req w v s)) with (tasks s) in H.
    apply in_app_or in H as [H|H]; [apply B; left; unfold HL; apply in_or_app; auto|].
    apply in_app_or in H as [H|H]; [|apply B; left; unfold HL; apply in_or_app; right; apply in_or_app; auto].
    apply in_fm_upd in H as [(q0 & _ & H)|H]; [apply Hb; auto|]. apply B. left. unfold HL. apply in_or_app. right. apply in_or_app. auto.
  - unfold RL in H. rewrite rqx_set_req in H by exact Hx. change (toks (set_req w v s)) with (toks s) in H.
    assert (G : rdy s c -> rdy (set_req w v s) c) by (intros G; exact G). apply G.
    apply in_app_or in H as [H|H]; [apply C; unfold RL; apply in_or_app; auto|].
    apply in_fm_upd in H as [(q0 & _ & H)|H]; [apply Hr; exact H|]. apply C. unfold RL. apply in_or_app; auto.
  - eapply D. exact H.
Qed.

Lemma SI_x_on r q F s : nth_error (reqs s) r = Some q -> SI None F s -> SI (Some r) (reqH q ++ F) s.
Proof.
  intros Hq [A B C D].
  assert (E : forall c, cnt (HL (Some r) s) c + cnt (reqH q) c = cnt (HL None s) c).
  { intros c. unfold HL, rqx. pose proof (cnt_fm_upd reqH (fun _ => RDone) c _ _ _ Hq) as E. cbn [reqH] in E.
    rewrite !cnt_app in *. rewrite cnt_nil in E. lia. }
  assert (I1 : forall c, In c (HL (Some r) s) -> In c (HL None s)).
  { intros c H. unfold HL, rqx in *. apply in_app_or in H as [H|H]; [apply in_or_app; auto|]. apply in_or_app. right.
    apply in_app_or in H as [H|H]; [|apply in_or_app; auto]. apply in_or_app. left.
    apply in_fm_upd in H as [(q0 & _ & H)|H]; [destruct H|exact H]. }
  constructor; intros.
  - specialize (A c H). specialize (E c). rewrite cnt_app. lia.
  - apply B. destruct H as [H|H]; [left; auto|]. apply in_app_or in H as [H|H]; [|right; exact H].
    left. apply cnt_In. specialize (E c). apply cnt_In in H. lia.
  - apply C. unfold RL, rqx in *. apply in_app_or in H as [H|H]; [apply in_or_app; auto|]. apply in_or_app. right.
    apply in_fm_upd in H as [(q0 & _ & H)|H]; [destruct H|exact H].
  - eapply D. exact H.
Qed.

Lemma SI_x_off r v F F' s :
  r < List.length (reqs s) ->
  (forall c, share_of s c = false -> cnt (reqH v) c + cnt F' c <= cnt F c) ->
  (forall c, In c (reqH v) \/ In c F' -> c < List.length (conns s)) ->
  (forall c, In c (reqK v) -> rdy s c) ->
  SI (Some r) F s -> SI None F' (set_req r v s).
Proof.
  intros Hr Hcnt Hb Hrd [A B C D].
  assert (Hq : nth_error (rqx (Some r) s) r = Some RDone).
  { unfold rqx. rewrite nth_upd_eq. destruct (nth_ex _ _ Hr) as [q ->]. reflexivity. }
  assert (E0 : rqx None (set_req r v s) = upd_nth r (fun _ => v) (rqx (Some r) s)).
  { unfold rqx, set_req. cbn [reqs set_reqs]. rewrite upd_upd. reflexivity. }
  constructor; intros.
  - change (share_of (set_req r v s) c) with (share_of s c) in H.
    unfold HL. rewrite E0. change (toks (set_req r v s)) with (toks s). change (tasks (set_req r v s)) with (tasks s).
    pose proof (cnt_fm_upd reqH (fun _ => v) c _ _ _ Hq) as E. cbn [reqH] in E. rewrite cnt_nil in E.
    specialize (A c H). specialize (Hcnt c H). unfold HL in A. rewrite !cnt_app in *. lia.
  - change (conns (set_req r v s)) with (conns s). destruct H as [H|H]; [|apply Hb; auto].
    unfold HL in H. rewrite E0 in H. change (toks (set_req r v s)) with (toks s) in H. change (tasks (set_req r v s)) with (tasks s) in H.
    apply in_app_or in H as [H|H]; [apply B; left; unfold HL; apply in_or_app; auto|].
    apply in_app_or in H as [H|H]; [|apply B; left; unfold HL; apply in_or_app; right; apply in_or_app; auto].
    apply in_fm_upd in H as [(q0 & _ & H)|H]; [apply Hb; auto|]. apply B. left. unfold HL. apply in_or_app. right. apply in_or_app. auto.
  - unfold RL in H. rewrite E0 in H. change (toks (set_req r v s)) with (toks s) in H.
    assert (G : rdy s c -> rdy (set_req r v s) c) by (intros G; exact G). apply G.
    apply in_app_or in H as [H|H]; [apply C; unfold RL; apply in_or_app; auto|].
    apply in_fm_upd in H as [(q0 & _ & H)|H]; [apply Hrd; exact H|]. apply C. unfold RL. apply in_or_app; auto.
  - eapply D. exact H.
Qed.

(* tokens *)
Lemma fm_upd_same {A} (f : A -> list nat) (g : A -> A) : (forall q, f (g q) = f q) -> forall l r, flat_map f (upd_nth r g l) = flat_map f l.
Proof. intros H. induction l as [|a l IH]; intros [|r]; cbn [upd_nth flat_map]; auto; [rewrite H|rewrite IH]; reflexivity. Qed.

Lemma SI_toks_eq x F s v : flat_map tokH v = flat_map tokH (toks s) -> SI x F s -> SI x F (set_toks v s).
Proof.
  intros E [A B C D].
  assert (E1 : HL x (set_toks v s) = HL x s) by (unfold HL; cbn [toks set_toks]; rewrite E; reflexivity).
  assert (E2 : RL x (set_toks v s) = RL x s) by (unfold RL; cbn [toks set_toks]; rewrite E; reflexivity).
  constructor; intros.
  - rewrite E1. apply A. exact H.
  - rewrite E1 in H. apply B. exact H.
  - rewrite E2 in H. apply C. exact H.
  - eapply D. exact H.
Qed.

Lemma SI_tok_same x F s t f : (forall p, p_idle (f p) = p_idle p) -> SI x F s -> SI x F (upd_tok t f s).
Proof.
  intros H HS. destruct t as [|i]; [exact HS|]. cbn [upd_tok]. apply SI_toks_eq; [|exact HS].
  apply fm_upd_same. intros q. unfold tokH. rewrite H. reflexivity.
Qed.

Lemma get_tok_nth s i p : nth_error (toks s) i = Some p -> get_tok s (S i) = p.
Proof. intros H. cbn [get_tok]. apply nth_default_error. exact H. Qed.

Lemma SI_tok_gen x F F' s i f p :
  nth_error (toks s) i = Some p ->
  (forall c, share_of s c = false -> cnt (tokH (f p)) c + cnt F' c <= cnt (tokH p) c + cnt F c) ->
  (forall c, In c (tokH (f p)) \/ In c F' -> c < List.length (conns s)) ->
  (forall c, In c (tokH (f p)) -> rdy s c) ->
  SI x F s -> SI x F' (upd_tok (S i) f s).
Proof.
  intros Hp Hcnt Hb Hr [A B C D]. cbn [upd_tok].
  constructor; intros.
  - change (share_of (set_toks (upd_nth i f (toks s)) s) c) with (share_of s c) in H.
    unfold HL. cbn [toks set_toks]. change (rqx x (set_toks (upd_nth i f (toks s)) s)) with (rqx x s). cbn [tasks set_toks].
    pose proof (cnt_fm_upd tokH f c _ _ _ Hp) as E. specialize (A c H). specialize (Hcnt c H). unfold HL in A. rewrite !cnt_app in *. lia.
  - cbn [conns set_toks]. destruct H as [H|H]; [|apply Hb; auto].
    unfold HL in H. cbn [toks set_toks tasks] in H. change (rqx x (set_toks (upd_nth i f (toks s)) s)) with (rqx x s) in H.
    apply in_app_or in H as [H|H]; [|apply B; left; unfold HL; apply in_or_app; auto].
    apply in_fm_upd in H as [(q0 & Hq0 & H)|H]; [rewrite Hp in Hq0; inversion Hq0; subst; apply Hb; auto|].
    apply B. left. unfold HL. apply in_or_app. auto.
  - unfold RL in H. cbn [toks set_toks] in H. change (rqx x (set_toks (upd_nth i f (toks s)) s)) with (rqx x s) in H.
    assert (G : rdy s c -> rdy (set_toks (upd_nth i f (toks s)) s) c) by (intros G; exact G). apply G.
    apply in_app_or in H as [H|H]; [|apply C; unfold RL; apply in_or_app; auto].
    apply in_fm_upd in H as [(q0 & Hq0 & H)|H]; [rewrite Hp in Hq0; inversion Hq0; subst; apply Hr; exact H|].
    apply C. unfold RL. apply in_or_app; auto.
  - eapply D. exact H.
Qed.

(* an out-of-range token: nothing changes *)
Lemma upd_tok_none s i f : nth_error (toks s) i = None -> toks (upd_tok (S i) f s) = toks s.
Proof. intros H. cbn [upd_tok toks set_toks]. apply upd_none. exact H. Qed.

Lemma SI_key_insert x F k s : SI x F s -> SI x F (snd (key_insert k s)).
Proof.
  intros H. unfold key_insert. destruct (find_key k (keys s) 1); cbn [snd]; [exact H|].
  apply (SI_toks_eq x F (set_keys (keys s ++ [k]) s)); [|eapply SI_eq; [| | | |exact H]; reflexivity].
  cbn [toks set_keys]. rewrite flat_map_app. cbn. rewrite app_nil_r. reflexivity.
Qed.

(* tasks *)
Lemma SI_spawn x F F' s tk :
  (forall c, share_of s c = false -> cnt (taskH (Some tk)) c + cnt F' c <= cnt F c) ->
  (forall c, In c F' -> c < List.length (conns s)) ->
  (forall c t, tk = TWhenReady c t -> share_of s c = false /\ c < List.length (conns s)) ->
  SI x F s -> SI x F' (spawn tk s).
Proof.
  intros Hcnt Hb Hw [A B C D].
  assert (E : forall c, cnt (HL x (spawn tk s)) c = cnt (HL x s) c + cnt (taskH (Some tk)) c).
  { intros c. unfold HL, spawn. cbn [toks tasks set_runq set_tasks]. change (rqx x (set_runq _ (set_tasks _ s))) with (rqx x s).
    rewrite flat_map_app, !cnt_app. cbn [flat_map]. rewrite app_nil_r. lia. }
  constructor; intros.
  - change (share_of (spawn tk s) c) with (share_of s c) in H. rewrite E. specialize (A c H). specialize (Hcnt c H). lia.
  - change (conns (spawn tk s)) with (conns s). destruct H as [H|H]; [|apply Hb; exact H].
    apply cnt_In in H. rewrite E in H. destruct (Nat.eq_dec (cnt (HL x s) c) 0) as [Hz|Hz].
    + destruct tk as [c0 t0|]; cbn [taskH] in H; [|rewrite cnt_nil in H; lia].
      rewrite cnt_cons, cnt_nil in H. destruct (Nat.eq_dec c0 c) as [<-|]; [|lia]. apply (Hw c0 t0 eq_refl).
    + apply B. left. apply cnt_In. lia.
  - change (RL x (spawn tk s)) with (RL x s) in H. exact (C c H).
  - change (share_of (spawn tk s) c) with (share_of s c). unfold spawn in H. cbn [tasks set_runq set_tasks] in H.
    rewrite nth_snoc in H. destruct (Nat.ltb tid (List.length (tasks s))); [eapply D; exact H|].
    destruct (Nat.eqb tid (List.length (tasks s))); [|discriminate]. inversion H; subst. apply (Hw c t eq_refl).
Qed.

Lemma SI_finish_task x F s tid tk :
  nth_error (tasks s) tid = Some tk -> SI x F s -> SI x (taskH tk ++ F) (finish_task tid s).
Proof.
  intros Ht [A B C D].
  assert (E : forall c, cnt (HL x (finish_task tid s)) c + cnt (taskH tk) c = cnt (HL x s) c).
  { intros c. unfold HL, finish_task. cbn [toks tasks set_tasks]. change (rqx x (set_tasks _ s)) with (rqx x s).
    pose proof (cnt_fm_upd taskH (fun _ => None) c _ _ _ Ht) as E. cbn [taskH] in E. rewrite !cnt_app in *. rewrite cnt_nil in E. lia. }
  constructor; intros.
  - change (share_of (finish_task tid s) c) with (share_of s c) in H. specialize (A c H). specialize (E c). rewrite cnt_app. lia.
  - change (conns (finish_task tid s)) with (conns s). apply B.
    destruct H as [H|H]; [left; apply cnt_In; apply cnt_In in H; specialize (E c); lia|].
    apply in_app_or in H as [H|H]; [|right; exact H]. left. apply cnt_In. apply cnt_In in H. specialize (E c). lia.
  - change (RL x (finish_task tid s)) with (RL x s) in H. exact (C c H).
  - change (share_of (finish_task tid s) c) with (share_of s c). unfold finish_task in H. cbn [tasks set_tasks] in H.
    rewrite nth_error_upd_nth in H. destruct (Nat.eqb tid tid0); [|eapply D; exact H].
    destruct (nth_error (tasks s) tid0); cbn in H; discriminate.
Qed.

Lemma SI_finish_task_any x F s tid : SI x F s -> SI x F (finish_task tid s).
Proof.
  intros H. destruct (nth_error (tasks s) tid) as [tk|] eqn:E.
  - eapply SI_F_app_r. apply (SI_finish_task x F s tid tk E H).
  - eapply SI_eq; [| | | |exact H]; try reflexivity. unfold finish_task. cbn [tasks set_tasks]. apply upd_none. exact E.
Qed.

Lemma RL_sub_HL x s c : In c (RL x s) -> In c (HL x s).
Proof.
  unfold RL, HL. intros H. apply in_app_or in H as [H|H]; apply in_or_app; [auto|right]. apply in_or_app. left.
  apply in_flat_map in H as (q & Hq & Hc). apply in_flat_map. exists q. split; [exact Hq|].
  destruct q; cbn [reqK reqH] in *; try contradiction. unfold ckH. apply in_or_app. auto.
Qed.

(* new connection, new request *)
Lemma get_conn_app s cn c : c <> List.length (conns s) -> get_conn (set_conns (conns s ++ [cn]) s) c = get_conn s c.
Proof.
  intros H. unfold get_conn. cbn [conns set_conns]. rewrite nth_snoc.
  destruct (Nat.ltb_spec c (List.length (conns s))); [reflexivity|].
  destruct (Nat.eqb_spec c (List.length (conns s))); [contradiction|]. symmetry. apply nth_error_None. lia.
Qed.

Lemma SI_new_conn x F s cn : SI x F s -> SI x (List.length (conns s) :: F) (set_conns (conns s ++ [cn]) s).
Proof.
  intros [A B C D]. set (s' := set_conns (conns s ++ [cn]) s). set (n := List.length (conns s)).
  assert (Sh : forall c, c <> n -> share_of s' c = share_of s c) by (intros c H; unfold share_of, s'; rewrite get_conn_app by exact H; reflexivity).
  assert (Hn : cnt (HL x s) n = 0 /\ cnt F n = 0).
  { split; apply cnt_notin; intros H; [specialize (B n (or_introl H))|specialize (B n (or_intror H))]; unfold n in B; lia. }
  constructor; intros.
  - change (HL x s') with (HL x s). rewrite cnt_cons. destruct (Nat.eq_dec n c) as [<-|Hne]; [lia|].
    rewrite Sh in H by congruence. specialize (A c H). lia.
  - unfold s'. cbn [conns set_conns]. rewrite app_length. cbn [List.length]. change (HL x s') with (HL x s) in H.
    destruct H as [H|[<-|H]]; [specialize (B c (or_introl H))|fold n|specialize (B c (or_intror H))]; lia.
  - change (RL x s') with (RL x s) in H. pose proof (B c (or_introl (RL_sub_HL _ _ _ H))) as Hlt. specialize (C c H).
    unfold rdy, ready_of in *. rewrite Sh by (unfold n; lia). unfold s'. rewrite get_conn_app by lia. exact C.
  - change (tasks s') with (tasks s) in H. pose proof (D tid c t H) as Hs.
    assert (Hlt : c < n). { apply B. left. unfold HL. apply in_or_app. right. apply in_or_app. right.
      apply in_flat_map. exists (Some (TWhenReady c t)). split; [eapply nth_error_In; exact H|left; reflexivity]. }
    rewrite Sh by lia. exact Hs.
Qed.

Lemma SI_add_req F s q dl :
  (forall c, In c (reqK q) -> rdy s c) ->
  SI None (reqH q ++ F) s -> SI None F (set_dials dl (set_reqs (reqs s ++ [q]) s)).
Proof.
  intros Hr [A B C D]. set (s' := set_dials dl (set_reqs (reqs s ++ [q]) s)).
  assert (E : forall c, cnt (HL None s') c = cnt (HL None s) c + cnt (reqH q) c).
  { intros c. unfold HL, rqx, s'. cbn [toks reqs tasks set_dials set_reqs]. rewrite flat_map_app, !cnt_app. cbn [flat_map]. rewrite app_nil_r. lia. }
  constructor; intros.
  - change (share_of s' c) with (share_of s c) in H. specialize (A c H). rewrite cnt_app in A. rewrite E. lia.
  - change (conns s') with (conns s). apply B. destruct H as [H|H]; [|right; apply in_or_app; auto].
    apply cnt_In in H. rewrite E in H. destruct (Nat.eq_dec (cnt (HL None s) c) 0); [right; apply in_or_app; left; apply cnt_In; lia|left; apply cnt_In; lia].
  - assert (G : rdy s c -> rdy s' c) by (intros G; exact G). apply G.
    unfold RL, rqx, s' in H. cbn [toks reqs set_dials set_reqs] in H. rewrite flat_map_app in H. cbn [flat_map] in H. rewrite app_nil_r in H.
    apply in_app_or in H as [H|H]; [apply C; unfold RL; apply in_or_app; auto|].
    apply in_app_or in H as [H|H]; [apply C; unfold RL; apply in_or_app; auto|apply Hr; exact H].
  - eapply D. exact H.
Qed.

Lemma SI_dup_shared x F s c : share_of s c = true -> c < List.length (conns s) -> SI x F s -> SI x (c :: F) s.
Proof.
  intros Hs Hlt [A B C D]. constructor; auto.
  - intros c' H. rewrite cnt_cons. destruct (Nat.eq_dec c c') as [->|]; [congruence|]. apply A. exact H.
  - intros c' [H|[<-|H]]; auto.
Qed.

Lemma SI_init : SI None [] init.
Proof. constructor; cbn; intros; try lia; try tauto. destruct tid; discriminate. Qed.

(* membership helpers *)
Lemma in_fm_intro {A} (f : A -> list nat) l r q c : nth_error l r = Some q -> In c (f q) -> In c (flat_map f l).
Proof. intros H Hc. apply in_flat_map. exists q. split; [eapply nth_error_In; exact H|exact Hc]. Qed.

Lemma HL_req_in x s w q c : x <> Some w -> nth_error (reqs s) w = Some q -> In c (reqH q) -> In c (HL x s).
Proof.
  intros Hx Hq Hc. unfold HL. apply in_or_app. right. apply in_or_app. left.
  eapply in_fm_intro; [|exact Hc]. rewrite rqx_nth by exact Hx. exact Hq.
Qed.
Lemma RL_req_in x s w q c : x <> Some w -> nth_error (reqs s) w = Some q -> In c (reqK q) -> In c (RL x s).
Proof.
  intros Hx Hq Hc. unfold RL. apply in_or_app. right. eapply in_fm_intro; [|exact Hc]. rewrite rqx_nth by exact Hx. exact Hq.
Qed.
Lemma idle_in_toks s t c a : In (c, a) (p_idle (get_tok s t)) -> In c (flat_map tokH (toks s)).
Proof.
  intros H. destruct t as [|i]; [destruct H|]. cbn [get_tok] in H.
  destruct (nth_error (toks s) i) as [p|] eqn:E.
  - rewrite (nth_default_error empty_tok _ _ _ E) in H. eapply in_fm_intro; [exact E|]. unfold tokH. apply (in_map fst) in H. exact H.
  - rewrite nth_overflow in H by (apply nth_error_None; exact E). destruct H.
Qed.
Lemma HL_idle_in x s t c a : In (c, a) (p_idle (get_tok s t)) -> In c (HL x s).
Proof. intros H. unfold HL. apply in_or_app. left. eapply idle_in_toks; eauto. Qed.
Lemma RL_idle_in x s t c a : In (c, a) (p_idle (get_tok s t)) -> In c (RL x s).
Proof. intros H. unfold RL. apply in_or_app. left. eapply idle_in_toks; eauto. Qed.
Lemma HL_task_in x s tid c t : nth_error (tasks s) tid = Some (Some (TWhenReady c t)) -> In c (HL x s).
Proof. intros H. unfold HL. apply in_or_app. right. apply in_or_app. right. eapply in_fm_intro; [exact H|left; reflexivity]. Qed.

Lemma cnt_task_le s tid c t : nth_error (tasks s) tid = Some (Some (TWhenReady c t)) -> 1 <= cnt (flat_map taskH (tasks s)) c.
Proof. intros H. pose proof (cnt_fm_nth taskH c _ _ _ H) as L. cbn [taskH] in L. rewrite cnt_cons, cnt_nil in L. destruct (Nat.eq_dec c c); [lia|congruence]. Qed.

(* a connection with a hand-back task is in no idle list *)
Lemma task_not_idle x F s tid c t t' a :
  SI x F s -> nth_error (tasks s) tid = Some (Some (TWhenReady c t)) -> ~ In (c, a) (p_idle (get_tok s t')).
Proof.
  intros H Ht Hin. pose proof (si_tsk _ _ _ H tid c t Ht) as Hs. pose proof (si_lin _ _ _ H c Hs) as L.
  pose proof (cnt_task_le s tid c t Ht) as L1. apply idle_in_toks in Hin. apply cnt_In in Hin. unfold HL in L. rewrite !cnt_app in L. lia.
Qed.

Lemma SI_F_le' x F F' s :
  (forall c, share_of s c = false -> cnt F' c <= cnt F c) -> (forall c, In c F' -> c < List.length (conns s)) ->
  SI x F s -> SI x F' s.
Proof.
  intros H Hb [A B C D]. constructor; auto.
  - intros c Hs. specialize (A c Hs). specialize (H c Hs). lia.
  - intros c [Hc|Hc]; [apply B; left; exact Hc|apply Hb; exact Hc].
Qed.

(* the checkout of request w is replaced by one with the same popped connection *)
Lemma SI_set_ck x F F' s w ck ck' :
  nth_error (reqs s) w = Some (RCheckout ck) -> k_conn ck' = k_conn ck ->
  (forall c, share_of s c = false -> cnt (oslot (k_slot ck')) c + cnt F' c <= cnt (oslot (k_slot ck)) c + cnt F c) ->
  (forall c, share_of s c = false -> cnt F' c <= cnt F c) ->
  (x <> Some w -> forall c, In c (oslot (k_slot ck')) -> c < List.length (conns s)) ->
  (forall c, In c F' -> c < List.length (conns s)) ->
  SI x F s -> SI x F' (set_req w (RCheckout ck') s).
Proof.
  intros Hq Hk Hcnt Hle Hb Hb' HS.
  assert (Dx : x = Some w \/ x <> Some w) by (destruct x as [r|]; [destruct (Nat.eq_dec r w) as [->|]; [left; reflexivity|right; congruence]|right; discriminate]).
  destruct Dx as [->|Hx].
  - apply SI_set_req_x. eapply SI_F_le'; [exact Hle|exact Hb'|exact HS].
  - eapply SI_set_req; [exact Hx|exact Hq| | | |exact HS].
    + intros c Hs. cbn [reqH]. unfold ckH. rewrite !cnt_app, Hk. specialize (Hcnt c Hs). lia.
    + intros c [Hc|Hc]; [|apply Hb'; auto]. cbn [reqH] in Hc. unfold ckH in Hc. apply in_app_or in Hc as [Hc|Hc]; [apply Hb; auto|].
      apply (si_bnd _ _ _ HS). left. eapply HL_req_in; [exact Hx|exact Hq|]. cbn [reqH]. unfold ckH. apply in_or_app. right. rewrite <- Hk. exact Hc.
    + intros c Hc. cbn [reqK] in Hc. rewrite Hk in Hc. apply (si_rdy _ _ _ HS). eapply RL_req_in; [exact Hx|exact Hq|exact Hc].
Qed.
