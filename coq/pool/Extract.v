(* Extraction of the pool model and monitors for the bounded search tool (ocaml/poolsearch.ml).
   The search is a SUPPORT tool (finding failing inputs, calibrating monitors); it is not a proof and
   nothing in the checks' verdicts depends on it.  Directives: ExtrOcamlBasic + ExtrOcamlString only. *)
From HD Require Import common.Base http.Model pool.Model pool.Spec pool.Corr.
Require Extraction.
Require Import ExtrOcamlBasic ExtrOcamlString.
Extraction Language OCaml.
Extraction "poolmodel.ml" init step observe m0 track chk_C02 chk_C03 chk_C04 chk_C05 chk_C06 chk_C14 chk_C15
  all_resolved drain_ops mkCfg trace mon_of mkCase.
