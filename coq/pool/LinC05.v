(* C05, model-only part for the idle-timeout clause: handle accounting ("linearity").
   [W x s c] counts the pushable handles of connection c in state s: idle entries, connections popped by a
   checkout (k_conn), and - with a non-zero pool token - channel slots, held connections and hand-back
   tasks (a handle with the zero token is never pushed into the pool: multiplexed handles handed out are
   always (c, 0)).  Invariants: W <= 1 for every existing connection and 0 for the others; within an
   operation other than Issue the idle lists only grow at the end; a connection whose count is 0 ("dead")
   is never pushed, offered or handed out again. *)
From HD Require Import common.Base http.Model pool.Model pool.Frames pool.FramesC05 pool.CoreC05.
Local Open Scope list_scope.

(* ---------------------------------------------------------------- counting *)
Definition cnt (l : list nat) (c : nat) : nat := count_occ Nat.eq_dec l c.
Lemma cnt_app l1 l2 c : cnt (l1 ++ l2) c = cnt l1 c + cnt l2 c.
Proof. apply count_occ_app. Qed.
Lemma cnt_nil c : cnt [] c = 0. Proof. reflexivity. Qed.
Lemma cnt_cons a l c : cnt (a :: l) c = (if Nat.eq_dec a c then 1 else 0) + cnt l c.
Proof. unfold cnt. cbn. destruct (Nat.eq_dec a c); reflexivity. Qed.
Lemma cnt_pos_In l c : 0 < cnt l c <-> In c l.
Proof. unfold cnt. split; intros H; apply (count_occ_In Nat.eq_dec); exact H. Qed.
Lemma cnt_flat_map_upd {A} (f : A -> list nat) (g : A -> A) c : forall l r q,
  nth_error l r = Some q ->
  cnt (flat_map f (upd_nth r g l)) c + cnt (f q) c = cnt (flat_map f l) c + cnt (f (g q)) c.
Proof.
  induction l as [|a l IH]; intros [|r] q H; cbn in *; try discriminate.
  - inversion H; subst. rewrite !cnt_app, ?cnt_nil. lia.
  - rewrite !cnt_app. specialize (IH r q H). lia.
Qed.
Lemma cnt_flat_map_nth {A} (f : A -> list nat) c : forall l r q,
  nth_error l r = Some q -> cnt (f q) c <= cnt (flat_map f l) c.
Proof.
  induction l as [|a l IH]; intros [|r] q H; cbn in *; try discriminate.
  - inversion H; subst. rewrite cnt_app. lia.
  - rewrite cnt_app. specialize (IH r q H). lia.
Qed.
Lemma upd_nth_none {A} (g : A -> A) : forall l r, nth_error l r = None -> upd_nth r g l = l.
Proof. induction l as [|a l IH]; intros [|r] H; cbn in *; try discriminate; auto. rewrite IH; auto. Qed.
Lemma upd_nth_twice {A} (g h : A -> A) : forall l r, upd_nth r g (upd_nth r h l) = upd_nth r (fun x => g (h x)) l.
Proof. induction l as [|a l IH]; intros [|r]; cbn; auto. rewrite IH. reflexivity. Qed.
Lemma upd_nth_comm {A} (g h : A -> A) : forall l r k, r <> k -> upd_nth r g (upd_nth k h l) = upd_nth k h (upd_nth r g l).
Proof. induction l as [|a l IH]; intros [|r] [|k] H; cbn; auto; try congruence. rewrite IH by congruence. reflexivity. Qed.

(* ---------------------------------------------------------------- pushable handles *)
Definition pw (p : pooled) : list nat := if Nat.eqb (snd p) 0 then [] else [fst p].
Definition oconn (o : option nat) : list nat := match o with Some c => [c] | None => [] end.
Definition oslot (o : option pooled) : list nat := match o with Some p => pw p | None => [] end.
Definition ckW (ck : checkout) : list nat := oconn (k_conn ck) ++ oslot (k_slot ck).
Definition reqW (q : req) : list nat := match q with RCheckout ck => ckW ck | RHolding p _ _ => pw p | _ => [] end.
Definition taskW (t : option task) : list nat := match t with Some (TWhenReady c t) => pw (c, t) | _ => [] end.
Definition tokW (p : ptok) : list nat := map fst (p_idle p).
(* the request list with request [x] (the one being polled: its checkout is a local value) blanked *)
Definition reqs_x (x : option nat) (s : state) : list req :=
  match x with Some r => upd_nth r (fun _ => RDone) (reqs s) | None => reqs s end.
Definition WL (x : option nat) (s : state) : list nat :=
  flat_map tokW (toks s) ++ flat_map reqW (reqs_x x s) ++ flat_map taskW (tasks s).
Definition W (x : option nat) (s : state) (c : nat) : nat := cnt (WL x s) c.

Lemma pw_le p c : cnt (pw p) c <= cnt [fst p] c.
Proof. unfold pw. destruct (Nat.eqb (snd p) 0); [rewrite cnt_nil; lia|lia]. Qed.
Lemma pw_nz c t : Nat.eqb t 0 = false -> pw (c, t) = [c].
Proof. unfold pw. cbn [snd fst]. intros ->. reflexivity. Qed.

Definition ckfree (ck : checkout) (c : nat) : Prop := k_conn ck <> Some c /\ forall t, k_slot ck <> Some (c, t).
Definition qfree (q : option req) (c : nat) : Prop := match q with Some (RCheckout ck) => ckfree ck c | _ => True end.
Definition noHand (r c : nat) (l : list ev) : Prop := forall a b d n, ~ In (EHand r c a b d n) l.
Definition dead (s : state) (c : nat) : Prop := W None s c = 0 /\ c < List.length (conns s).

(* the popped connection of a checkout stays where it is as long as the request is a checkout *)
Definition kcq (q : option req) (c : nat) : Prop := exists ck, q = Some (RCheckout ck) /\ k_conn ck = Some c.
Definition goneq (q : option req) : Prop :=
  match q with Some (RHolding _ _ _) | Some RDone | Some RCancelled => True | _ => False end.
Definition kstep (q v : option req) : Prop := (forall c, kcq q c -> kcq v c \/ goneq v) /\ (goneq q -> goneq v).
Lemma kstep_refl q : kstep q q. Proof. split; auto. Qed.
Lemma kstep_trans a b c : kstep a b -> kstep b c -> kstep a c.
Proof. intros [A1 A2] [B1 B2]. split; [|auto]. intros k Hk. destruct (A1 k Hk) as [H|H]; [apply B1, H|right; auto]. Qed.

(* ---------------------------------------------------------------- the invariant of one (non-Issue) operation *)
Definition newc (s0 s : state) (c : nat) : nat :=
  if Nat.leb (List.length (conns s0)) c && Nat.ltb c (List.length (conns s)) then 1 else 0.
Definition PX (s0 s : state) : Prop :=
  Forall2 (fun l0 l : list (nat * N) => exists nw, l = l0 ++ nw) (map p_idle (toks s0)) (map p_idle (toks s)).

Record J (s0 : state) (dc : nat) (x : option nat) (F : list nat) (s : state) : Prop := mkJ {
  j_len : List.length (conns s0) <= List.length (conns s);
  j_cnt : forall c, W x s c + cnt F c <= W None s0 c + newc s0 s c;
  j_px : PX s0 s;
  j_keys : keys s = keys s0;
  j_now : now s = now s0;
  j_rlen : List.length (reqs s) = List.length (reqs s0);
  j_free : dead s0 dc -> forall w, Some w <> x -> qfree (nth_error (reqs s0) w) dc -> qfree (nth_error (reqs s) w) dc;
  j_hand : dead s0 dc -> forall r, qfree (nth_error (reqs s0) r) dc -> noHand r dc (out s);
  j_kc : forall w, Some w <> x -> kstep (nth_error (reqs s0) w) (nth_error (reqs s) w)
}.

Lemma PX_refl s : PX s s.
Proof. unfold PX. induction (map p_idle (toks s)); constructor; auto. exists []. rewrite app_nil_r. reflexivity. Qed.

Lemma J_refl' s dc : (forall r, noHand r dc (out s)) -> J s dc None [] s.
Proof.
  intros Ho. constructor; auto.
  - intros c. rewrite cnt_nil. lia.
  - apply PX_refl.
  - intros; apply kstep_refl.
Qed.
Lemma J_refl s dc : out s = [] -> J s dc None [] s.
Proof. intros Ho. apply J_refl'. intros r a b d n. rewrite Ho. intros []. Qed.

Lemma J_F s0 dc x F F' s : (forall c, cnt F' c <= cnt F c) -> J s0 dc x F s -> J s0 dc x F' s.
Proof. intros H [H1 H2 H3 H4 H5 H6 H7 H8 H9]. constructor; auto. intros c. specialize (H2 c). specialize (H c). lia. Qed.

Lemma J_alive s0 dc x F s c0 : J s0 dc x F s -> In c0 F -> dead s0 dc -> c0 <> dc.
Proof.
  intros HJ Hin [Hd Hlt] ->. pose proof (j_cnt _ _ _ _ _ HJ dc) as H. apply cnt_pos_In in Hin.
  assert (E : newc s0 s dc = 0) by (unfold newc; destruct (Nat.leb_spec (List.length (conns s0)) dc); [lia|reflexivity]).
  lia.
Qed.

(* frames *)
Definition fj (s s' : state) : Prop :=
  map p_idle (toks s') = map p_idle (toks s) /\ reqs s' = reqs s /\ flat_map taskW (tasks s') = flat_map taskW (tasks s)
  /\ List.length (conns s') = List.length (conns s) /\ out s' = out s /\ keys s' = keys s /\ now s' = now s.
Lemma fj_refl s : fj s s. Proof. repeat split. Qed.
Lemma fj_trans a b c : fj a b -> fj b c -> fj a c.
Proof. intros (A1&A2&A3&A4&A5&A6&A7) (B1&B2&B3&B4&B5&B6&B7). repeat split; congruence. Qed.

Lemma tokW_flat l : flat_map tokW l = flat_map (map fst) (map p_idle l).
Proof. induction l as [|p l IH]; cbn; [reflexivity|]. rewrite IH. reflexivity. Qed.

Lemma W_fj x s s' c : fj s s' -> W x s' c = W x s c.
Proof.
  intros (A1&A2&A3&A4&A5&A6&A7). unfold W, WL. rewrite !tokW_flat, A1, A3. unfold reqs_x. rewrite A2. reflexivity.
Qed.

Lemma J_fj s0 dc x F s s' : fj s s' -> J s0 dc x F s -> J s0 dc x F s'.
Proof.
  intros Hf [H1 H2 H3 H4 H5 H6 H7 H8 H9]. pose proof Hf as (A1&A2&A3&A4&A5&A6&A7).
  constructor; try congruence.
  - intros c. rewrite (W_fj x s s' c Hf). unfold newc in *. rewrite A4. apply H2.
  - unfold PX in *. rewrite A1. exact H3.
  - rewrite A2. exact H7.
  - rewrite A5. exact H8.
  - rewrite A2. exact H9.
Qed.

Lemma fj_upd_conn c f s : fj s (upd_conn c f s).
Proof. repeat split. unfold upd_conn. cbn [conns set_conns]. apply upd_nth_length. Qed.
Lemma fj_upd_dial r f s : fj s (upd_dial r f s). Proof. repeat split. Qed.
Lemma fj_upd_tok t f s : (forall p, p_idle (f p) = p_idle p) -> fj s (upd_tok t f s).
Proof. intros H. destruct t; [apply fj_refl|]. repeat split. cbn [upd_tok toks set_toks]. apply map_upd_nth_id. exact H. Qed.
Lemma fj_wake_req r s : fj s (wake_req r s). Proof. repeat split. Qed.
Lemma fj_unwake_req r s : fj s (unwake_req r s). Proof. repeat split. Qed.
Lemma fj_wake_task t s : fj s (wake_task t s). Proof. unfold wake_task. destruct (existsb _ _); repeat split. Qed.
Lemma fj_wake_tasks l : forall s, fj s (wake_tasks l s).
Proof. induction l as [|t l IH]; intros s; cbn [wake_tasks]; [apply fj_refl|]. eapply fj_trans; [apply fj_wake_task|apply IH]. Qed.
Lemma fj_wake_poller p r s : fj s (wake_poller p r s).
Proof. destruct p as [[|tid]|]; cbn [wake_poller]; [apply fj_wake_req|apply fj_wake_task|apply fj_refl]. Qed.
Lemma fj_clone_conn c s : fj s (clone_conn c s). Proof. apply fj_upd_conn. Qed.
Lemma fj_drain_conn_waiters c s : fj s (drain_conn_waiters c s).
Proof.
  unfold drain_conn_waiters. destruct (get_conn s c); [|apply fj_refl].
  eapply fj_trans; [apply (fj_upd_conn c (c_set_waiters []))|apply fj_wake_tasks].
Qed.
Lemma fj_spawn_other tk s : taskW (Some tk) = [] -> fj s (spawn tk s).
Proof.
  intros H. repeat split. unfold spawn. cbn [tasks set_runq set_tasks]. rewrite flat_map_app. cbn [flat_map]. rewrite H. cbn. rewrite app_nil_r. reflexivity.
Qed.

Definition plain (e : ev) : Prop := match e with EHand _ _ _ _ _ _ => False | _ => True end.

Lemma J_emit s0 dc x F e s : J s0 dc x F s ->
  (dead s0 dc -> forall r, qfree (nth_error (reqs s0) r) dc -> forall a b d n, e <> EHand r dc a b d n) ->
  J s0 dc x F (emit e s).
Proof.
  intros [H1 H2 H3 H4 H5 H6 H7 H8 H9] He. constructor; auto.
  intros Hd r Hq a b d n [E|Hin]; [eapply He; eauto|eapply H8; eauto].
Qed.
Lemma J_emit_plain s0 dc x F e s : plain e -> J s0 dc x F s -> J s0 dc x F (emit e s).
Proof. intros Hp HJ. apply J_emit; [exact HJ|]. intros _ r _ a b d n ->. exact Hp. Qed.

(* ---------------------------------------------------------------- elementary moves *)
Lemma PX_trans a b c : PX a b -> PX b c -> PX a c.
Proof.
  unfold PX. generalize (map p_idle (toks a)), (map p_idle (toks b)), (map p_idle (toks c)).
  intros la lb lc H. revert lc. induction H as [|x y la lb [n1 ->] H IH]; intros lc H2; inversion H2; subst; constructor; auto.
  destruct H3 as [n2 ->]. exists (n1 ++ n2). rewrite app_assoc. reflexivity.
Qed.

Lemma PX_same s s' : map p_idle (toks s') = map p_idle (toks s) -> PX s s'.
Proof. intros H. unfold PX. rewrite H. apply PX_refl. Qed.

Lemma J_gen s0 dc x F F' s s' :
  List.length (conns s') = List.length (conns s) -> out s' = out s -> keys s' = keys s -> now s' = now s ->
  List.length (reqs s') = List.length (reqs s) -> PX s s' ->
  (forall c, W x s' c + cnt F' c <= W x s c + cnt F c) ->
  (dead s0 dc -> forall w, Some w <> x -> qfree (nth_error (reqs s) w) dc -> qfree (nth_error (reqs s') w) dc) ->
  (forall w, Some w <> x -> kstep (nth_error (reqs s) w) (nth_error (reqs s') w)) ->
  J s0 dc x F s -> J s0 dc x F' s'.
Proof.
  intros A1 A2 A3 A4 A5 A6 A7 A8 A9 [H1 H2 H3 H4 H5 H6 H7 H8 H9]. constructor; try congruence.
  - intros c. specialize (H2 c). specialize (A7 c). unfold newc in *. rewrite A1. lia.
  - eapply PX_trans; eauto.
  - intros Hd w Hw Hq. apply (A8 Hd); auto.
  - rewrite A2. exact H8.
  - intros w Hw. eapply kstep_trans; [apply H9|apply A9]; exact Hw.
Qed.

Lemma W_set_req x s w v q c : nth_error (reqs s) w = Some q -> Some w <> x ->
  W x (set_req w v s) c + cnt (reqW q) c = W x s c + cnt (reqW v) c.
Proof.
  intros Hq Hne. unfold W, WL, set_req. cbn [toks tasks reqs set_reqs]. rewrite !cnt_app.
  assert (E : cnt (flat_map reqW (reqs_x x (set_reqs (upd_nth w (fun _ => v) (reqs s)) s))) c + cnt (reqW q) c
              = cnt (flat_map reqW (reqs_x x s)) c + cnt (reqW v) c).
  { destruct x as [r|]; unfold reqs_x; cbn [reqs set_reqs].
    - assert (r <> w) by congruence. rewrite upd_nth_comm by assumption.
      apply (cnt_flat_map_upd reqW (fun _ => v) c). rewrite nth_error_upd_nth_ne by assumption. exact Hq.
    - apply (cnt_flat_map_upd reqW (fun _ => v) c). exact Hq. }
  lia.
Qed.

Lemma W_set_req_x s w v c : W (Some w) (set_req w v s) c = W (Some w) s c.
Proof. unfold W, WL, set_req, reqs_x. cbn [toks tasks reqs set_reqs]. rewrite upd_nth_twice. reflexivity. Qed.

Lemma W_blank s r q c : nth_error (reqs s) r = Some q -> W None s c = W (Some r) s c + cnt (reqW q) c.
Proof.
  intros Hq. unfold W, WL, reqs_x. rewrite !cnt_app.
  pose proof (cnt_flat_map_upd reqW (fun _ => RDone) c (reqs s) r q Hq) as H. cbn [reqW] in H. rewrite cnt_nil in H. lia.
Qed.

Lemma qfree_set_req s w v w' dc : 
  (qfree (nth_error (reqs s) w) dc -> qfree (Some v) dc) ->
  w' <> w \/ True -> qfree (nth_error (reqs s) w') dc -> qfree (nth_error (reqs (set_req w v s)) w') dc.
Proof.
  intros Hv _ Hq. unfold set_req. cbn [reqs set_reqs]. rewrite nth_error_upd_nth.
  destruct (Nat.eqb_spec w w') as [<-|Hn]; [|exact Hq].
  destruct (nth_error (reqs s) w) eqn:E; cbn [option_map]; [auto|exact I].
Qed.

Lemma J_set_req_gen s0 dc x F F' s w v q :
  nth_error (reqs s) w = Some q -> Some w <> x ->
  (forall c, cnt (reqW v) c + cnt F' c <= cnt (reqW q) c + cnt F c) ->
  (dead s0 dc -> qfree (Some q) dc -> qfree (Some v) dc) -> kstep (Some q) (Some v) ->
  J s0 dc x F s -> J s0 dc x F' (set_req w v s).
Proof.
  intros Hq Hne Hc Hf Hk. apply J_gen; try reflexivity.
  - unfold set_req. cbn [reqs set_reqs]. apply upd_nth_length.
  - apply PX_same. reflexivity.
  - intros c. pose proof (W_set_req x s w v q c Hq Hne). specialize (Hc c). lia.
  - intros Hd w' _. apply qfree_set_req; [rewrite Hq; exact (Hf Hd)|auto].
  - intros w' _. unfold set_req. cbn [reqs set_reqs]. rewrite nth_error_upd_nth.
    destruct (Nat.eqb_spec w w') as [<-|Hn]; [|apply kstep_refl]. rewrite Hq. cbn [option_map]. exact Hk.
Qed.

Lemma J_set_req_x s0 dc F s w v : J s0 dc (Some w) F s -> J s0 dc (Some w) F (set_req w v s).
Proof.
  apply J_gen; try reflexivity.
  - unfold set_req. cbn [reqs set_reqs]. apply upd_nth_length.
  - apply PX_same. reflexivity.
  - intros c. rewrite W_set_req_x. lia.
  - intros _ w' Hne Hq. unfold set_req. cbn [reqs set_reqs]. rewrite nth_error_upd_nth_ne by congruence. exact Hq.
  - intros w' Hne. unfold set_req. cbn [reqs set_reqs]. rewrite nth_error_upd_nth_ne by congruence. apply kstep_refl.
Qed.

Lemma J_blank s0 dc F s r q : nth_error (reqs s) r = Some q -> J s0 dc None F s -> J s0 dc (Some r) (reqW q ++ F) s.
Proof.
  intros Hq [H1 H2 H3 H4 H5 H6 H7 H8 H9]. constructor; auto.
  - intros c. specialize (H2 c). rewrite (W_blank s r q c Hq) in H2. rewrite cnt_app. lia.
  - intros Hd w _. apply H7; [exact Hd|discriminate].
  - intros w _. apply H9. discriminate.
Qed.

Lemma J_unblank s0 dc F s r q : nth_error (reqs s) r = Some q ->
  (dead s0 dc -> qfree (nth_error (reqs s0) r) dc -> qfree (Some q) dc) -> kstep (nth_error (reqs s0) r) (Some q) ->
  J s0 dc (Some r) (reqW q ++ F) s -> J s0 dc None F s.
Proof.
  intros Hq Hf Hk [H1 H2 H3 H4 H5 H6 H7 H8 H9]. constructor; auto.
  - intros c. specialize (H2 c). rewrite (W_blank s r q c Hq). rewrite cnt_app in H2. lia.
  - intros Hd w _ Hw. destruct (Nat.eq_dec w r) as [->|Hn]; [rewrite Hq; auto|]. apply H7; auto. congruence.
  - intros w _. destruct (Nat.eq_dec w r) as [->|Hn]; [rewrite Hq; exact Hk|]. apply H9. congruence.
Qed.

(* tasks *)
Lemma J_spawn_wr s0 dc x F c t s : J s0 dc x (pw (c, t) ++ F) s -> J s0 dc x F (spawn (TWhenReady c t) s).
Proof.
  apply J_gen; try reflexivity; [apply PX_same; reflexivity| |auto|intros; apply kstep_refl].
  intros c'. unfold W, WL, spawn. cbn [toks reqs_x reqs tasks set_runq set_tasks].
  rewrite flat_map_app. cbn [flat_map taskW]. rewrite !cnt_app, cnt_nil. unfold reqs_x; destruct x; cbn [reqs set_runq set_tasks]; lia.
Qed.

Lemma J_finish_task s0 dc x F tid s : J s0 dc x F s -> J s0 dc x (taskW (nth tid (tasks s) None) ++ F) (finish_task tid s).
Proof.
  apply J_gen; try reflexivity; [apply PX_same; reflexivity| |auto|intros; apply kstep_refl].
  intros c. unfold W, WL, finish_task. cbn [toks tasks set_tasks]. rewrite !cnt_app.
  assert (E : cnt (flat_map taskW (upd_nth tid (fun _ => None) (tasks s))) c + cnt (taskW (nth tid (tasks s) None)) c
              = cnt (flat_map taskW (tasks s)) c).
  { destruct (nth_error (tasks s) tid) as [q|] eqn:Eq.
    - pose proof (cnt_flat_map_upd taskW (fun _ => None) c (tasks s) tid q Eq) as H. cbn [taskW] in H. rewrite cnt_nil in H.
      rewrite (nth_error_nth _ _ None Eq). lia.
    - rewrite (upd_nth_none _ _ _ Eq). rewrite nth_overflow by (apply nth_error_None; exact Eq). cbn [taskW]. rewrite cnt_nil. lia. }
  unfold reqs_x; destruct x; cbn [reqs set_tasks]; lia.
Qed.

(* idle lists *)
Lemma F2_refl (l : list (list (nat * N))) : Forall2 (fun l0 l1 : list (nat * N) => exists nw, l1 = l0 ++ nw) l l.
Proof. induction l; constructor; auto. exists []. rewrite app_nil_r. reflexivity. Qed.
Lemma F2_upd_app (f : ptok -> ptok) : (forall p, exists nw, p_idle (f p) = p_idle p ++ nw) ->
  forall l i, Forall2 (fun l0 l1 : list (nat * N) => exists nw, l1 = l0 ++ nw) (map p_idle l) (map p_idle (upd_nth i f l)).
Proof.
  intros Hf. induction l as [|p l IH]; intros [|i]; cbn [upd_nth map]; try constructor; auto.
  - apply F2_refl.
  - exists []. rewrite app_nil_r. reflexivity.
Qed.

Lemma J_push_idle s0 dc x F t c0 a s :
  J s0 dc x (c0 :: F) s -> J s0 dc x F (upd_tok t (fun p => set_idle (p_idle p ++ [(c0, a)]) p) s).
Proof.
  destruct t as [|i]; [apply J_F; intros c; rewrite cnt_cons; lia|].
  apply J_gen; try reflexivity.
  - unfold PX. cbn [upd_tok toks set_toks]. apply F2_upd_app. intros p. exists [(c0, a)]. reflexivity.
  - intros c. unfold W, WL. cbn [upd_tok toks set_toks tasks]. rewrite !cnt_app, cnt_cons.
    assert (E : cnt (flat_map tokW (upd_nth i (fun p => set_idle (p_idle p ++ [(c0, a)]) p) (toks s))) c
                <= cnt (flat_map tokW (toks s)) c + (if Nat.eq_dec c0 c then 1 else 0)).
    { destruct (nth_error (toks s) i) as [p|] eqn:Ep.
      - pose proof (cnt_flat_map_upd tokW (fun p => set_idle (p_idle p ++ [(c0, a)]) p) c (toks s) i p Ep) as H.
        unfold tokW at 4 in H. cbn [set_idle p_idle] in H. rewrite map_app, cnt_app in H. cbn [map fst] in H.
        rewrite cnt_cons, cnt_nil in H. fold (tokW p) in H. lia.
      - rewrite (upd_nth_none _ _ _ Ep). lia. }
    unfold reqs_x; destruct x; cbn [reqs set_toks]; lia.
  - auto.
  - intros; apply kstep_refl.
Qed.

(* a new connection *)
Lemma J_new_conn s0 dc x F cn s : J s0 dc x F s -> J s0 dc x (List.length (conns s) :: F) (set_conns (conns s ++ [cn]) s).
Proof.
  intros [H1 H2 H3 H4 H5 H6 H7 H8 H9]. constructor; auto.
  - cbn [conns set_conns]. rewrite app_length. lia.
  - intros c. specialize (H2 c). rewrite cnt_cons.
    change (W x (set_conns (conns s ++ [cn]) s) c) with (W x s c).
    unfold newc in *. cbn [conns set_conns]. rewrite app_length. cbn [List.length].
    destruct (Nat.eq_dec (List.length (conns s)) c) as [<-|Hn].
    + destruct (Nat.leb_spec (List.length (conns s0)) (List.length (conns s))); [|lia].
      destruct (Nat.ltb_spec (List.length (conns s)) (List.length (conns s))); [lia|].
      destruct (Nat.ltb_spec (List.length (conns s)) (List.length (conns s) + 1)); [|lia]. cbn [andb] in *. lia.
    + destruct (Nat.leb (List.length (conns s0)) c); cbn [andb] in *; [|lia].
      destruct (Nat.ltb_spec c (List.length (conns s))), (Nat.ltb_spec c (List.length (conns s) + 1)); lia.
Qed.

(* ---------------------------------------------------------------- the primitives *)
Section LIN.
Variable cfg : config.
Variable s0 : state.
Variable dc : nat.

Lemma J_weak x F a s : J s0 dc x (a ++ F) s -> J s0 dc x F s.
Proof. apply J_F. intros c. rewrite cnt_app. lia. Qed.

Lemma J_drop_conn x F c s : J s0 dc x F s -> J s0 dc x F (drop_conn c s).
Proof.
  intros H. unfold drop_conn. destruct (get_conn s c) as [cn|]; [|exact H].
  assert (H1 : J s0 dc x F (upd_conn c (c_set_refs (pred (c_refs cn))) s)) by (eapply J_fj; [apply fj_upd_conn|exact H]).
  destruct (Nat.eqb _ _); [apply J_emit_plain; [exact I|exact H1]|exact H1].
Qed.

Lemma J_drop_all x F l : forall s, J s0 dc x F s -> J s0 dc x F (drop_all l s).
Proof. induction l as [|[c a] l IH]; intros s H; cbn [drop_all]; [exact H|]. apply IH, J_drop_conn, H. Qed.

Lemma J_pooled_drop x F p s : J s0 dc x (pw p ++ F) s -> J s0 dc x F (pooled_drop p s).
Proof.
  intros H. destruct p as [c t]. unfold pooled_drop. destruct (share_of s c).
  - apply J_drop_conn. eapply J_weak; eauto.
  - apply J_spawn_wr. exact H.
Qed.

Lemma J_set_req_same x F w v q s : nth_error (reqs s) w = Some q -> reqW v = reqW q ->
  (qfree (Some q) dc -> qfree (Some v) dc) -> kstep (Some q) (Some v) -> J s0 dc x F s -> J s0 dc x F (set_req w v s).
Proof.
  intros Hq HW Hf Hk H. destruct x as [r|]; [destruct (Nat.eq_dec w r) as [->|Hn]|].
  - apply J_set_req_x, H.
  - eapply J_set_req_gen; eauto; [congruence|]. intros c. rewrite HW. lia.
  - eapply J_set_req_gen; eauto; [discriminate|]. intros c. rewrite HW. lia.
Qed.

Lemma kstep_ck (ck ck' : checkout) : k_conn ck' = k_conn ck -> kstep (Some (RCheckout ck)) (Some (RCheckout ck')).
Proof.
  intros E. split; [|intros []]. intros c (ck0 & E0 & Hk). inversion E0; subst. left. exists ck'. split; [reflexivity|congruence].
Qed.
Lemma kstep_gone q v : goneq (Some v) -> kstep q (Some v).
Proof. intros H. split; auto. Qed.

Lemma J_deliver x F w p s : J s0 dc x (pw p ++ F) s -> (dead s0 dc -> fst p <> dc) -> J s0 dc x F (deliver w p s).
Proof.
  intros H Hp. unfold deliver. destruct (get_req s w) as [[|ck| | |]|] eqn:Hq; try (eapply J_weak; exact H).
  assert (H1 : J s0 dc x F (set_req w (RCheckout (k_set_slot (Some p) ck)) s)).
  { assert (Hgen : Some w <> x -> J s0 dc x F (set_req w (RCheckout (k_set_slot (Some p) ck)) s)).
    { intros Hne. eapply (J_set_req_gen s0 dc x (pw p ++ F)); [exact Hq|exact Hne| | |apply kstep_ck; reflexivity|exact H].
      - intros c. cbn [reqW]. unfold ckW. cbn [k_set_slot k_conn k_slot oslot]. rewrite !cnt_app, ?cnt_nil. lia.
      - intros Hd [Ha Hb]. split; cbn [k_set_slot k_conn k_slot]; [exact Ha|]. intros t E. inversion E; subst. apply (Hp Hd). reflexivity. }
    destruct x as [r|]; [destruct (Nat.eq_dec w r) as [->|Hn]|].
    - apply J_set_req_x. eapply J_weak; exact H.
    - apply Hgen. congruence.
    - apply Hgen. discriminate. }
  destruct (k_rxpolled ck); [eapply J_fj; [apply fj_wake_req|exact H1]|exact H1].
Qed.

Lemma J_walk x F t c0 sh ws : forall s, J s0 dc x (c0 :: F) s ->
  J s0 dc x (if snd (fst (walk_waiters t c0 sh ws s)) then F else c0 :: F) (snd (walk_waiters t c0 sh ws s)).
Proof.
  induction ws as [|[w b] ws IH]; intros s H; cbn [walk_waiters]; [exact H|].
  assert (Hal : dead s0 dc -> c0 <> dc) by (intros Hd; eapply J_alive; [exact H|left; reflexivity|exact Hd]).
  destruct (rx_live s w); [destruct sh|].
  - apply IH. apply J_deliver; [|exact Hal]. change (pw (c0, 0)) with (@nil nat). cbn [app].
    eapply J_fj; [apply fj_clone_conn|exact H].
  - cbn [fst snd]. apply J_deliver; [|exact Hal]. eapply J_F; [|exact H].
    intros c. rewrite cnt_app. pose proof (pw_le (c0, t) c) as Hle. cbn [fst] in Hle. rewrite !cnt_cons in *. rewrite cnt_nil in Hle. lia.
  - apply IH, H.
Qed.

Lemma J_pool_push x F n t c0 s : J s0 dc x (c0 :: F) s -> J s0 dc x F (pool_push n t c0 s).
Proof.
  intros H. unfold pool_push.
  set (s1 := if share_of s c0 then upd_tok t (set_marker None) s else s).
  assert (H1 : J s0 dc x (c0 :: F) s1).
  { subst s1. destruct (share_of s c0); [|exact H]. eapply J_fj; [apply fj_upd_tok; reflexivity|exact H]. }
  pose proof (J_walk x F t c0 (share_of s1 c0) (p_waiting (get_tok s1 t)) s1 H1) as H2.
  destruct (walk_waiters t c0 (share_of s1 c0) (p_waiting (get_tok s1 t)) s1) as [[rest moved] s2]. cbn [fst snd] in H2.
  assert (H3 : J s0 dc x (if moved then F else c0 :: F) (upd_tok t (set_waiting rest) s2))
    by (eapply J_fj; [apply fj_upd_tok; reflexivity|exact H2]).
  destruct moved; [exact H3|].
  destruct (Nat.ltb _ _); [apply J_push_idle; exact H3|]. apply J_drop_conn. eapply (J_weak x F [c0]). exact H3.
Qed.

Lemma J_drop_sender x F w s : J s0 dc x F s -> J s0 dc x F (drop_sender w s).
Proof.
  intros H. unfold drop_sender. destruct (get_req s w) as [[|ck| | |]|] eqn:Hq; try exact H.
  assert (H1 : J s0 dc x F (set_req w (RCheckout (k_set_txdropped true ck)) s)).
  { eapply J_set_req_same; [exact Hq|reflexivity| |apply kstep_ck; reflexivity|exact H]. intros [A B]. split; cbn [k_set_txdropped k_conn k_slot]; auto. }
  destruct (k_waiter ck); try exact H; (destruct (k_rxpolled ck); [eapply J_fj; [apply fj_wake_req|exact H1]|exact H1]).
Qed.

Lemma J_release_pending x F ws : forall s, J s0 dc x F s -> J s0 dc x F (snd (release_pending ws s)).
Proof.
  induction ws as [|[w b] ws IH]; intros s H; cbn [release_pending]; [exact H|].
  destruct b; [apply IH, J_drop_sender, H|]. specialize (IH s H). destruct (release_pending ws s). exact IH.
Qed.

Lemma J_pool_cancel x F t rid s : J s0 dc x F s -> J s0 dc x F (pool_cancel t rid s).
Proof.
  intros H. unfold pool_cancel. destruct (p_marker (get_tok s t)) as [o|]; [|exact H].
  destruct (Nat.eqb o rid); [|exact H].
  set (s1 := upd_tok t (set_marker None) s).
  assert (H1 : J s0 dc x F s1) by (eapply J_fj; [apply fj_upd_tok; reflexivity|exact H]).
  pose proof (J_release_pending x F (p_waiting (get_tok s1 t)) s1 H1) as H2.
  destruct (release_pending (p_waiting (get_tok s1 t)) s1) as [rest s2]. cbn [snd] in H2.
  eapply J_fj; [apply fj_upd_tok; reflexivity|exact H2].
Qed.

Lemma J_connector_poll x F rid b s : J s0 dc x F s ->
  J s0 dc x (match fst (connector_poll rid b s) with CReady (inl c) => c :: F | _ => F end) (snd (connector_poll rid b s))
  /\ forall c, fst (connector_poll rid b s) = CReady (inl c) -> c = List.length (conns s).
Proof.
  intros H. unfold connector_poll. destruct (get_dial s rid) as [d|]; [|split; [exact H|discriminate]].
  destruct (d_stage d) as [| |[alpn| |]|]; cbn [fst snd]; (split; [|try discriminate]); try exact H.
  - eapply J_fj; [apply fj_upd_dial|]. apply J_emit_plain; [exact I|exact H].
  - eapply J_fj; [apply fj_upd_dial|exact H].
  - eapply J_fj; [apply fj_upd_dial|]. apply J_emit_plain; [exact I|]. apply J_new_conn, H.
  - intros c E. inversion E. reflexivity.
  - eapply J_fj; [apply fj_upd_dial|exact H].
  - eapply J_fj; [apply fj_upd_dial|exact H].
Qed.

Lemma J_register x F t c0 s : J s0 dc x (c0 :: F) s ->
  J s0 dc x (pw (fst (register cfg t c0 s)) ++ F) (snd (register cfg t c0 s)).
Proof.
  intros H.
  assert (Hw : forall t', J s0 dc x (pw (c0, t') ++ F) s).
  { intros t'. eapply J_F; [|exact H]. intros c. rewrite cnt_app. pose proof (pw_le (c0, t') c) as Hle. cbn [fst] in Hle.
    rewrite !cnt_cons in *. rewrite cnt_nil in Hle. lia. }
  unfold register. destruct (g_pool cfg && negb (Nat.eqb t 0)); [|cbn [fst snd]; apply Hw].
  destruct (share_of s c0); cbn [fst snd]; [|apply Hw].
  change (pw (c0, 0)) with (@nil nat). cbn [app].
  destruct (is_open s c0); [|eapply (J_weak x F [c0]); exact H].
  apply J_pool_push. eapply J_fj; [apply fj_clone_conn|exact H].
Qed.

Lemma J_rx_drop x F ck s : J s0 dc x (ckW ck ++ F) s -> J s0 dc x (ckW (fst (rx_drop ck s)) ++ F) (snd (rx_drop ck s)).
Proof.
  intros H. unfold rx_drop. destruct (k_waiter ck) eqn:Ew, (k_slot ck) as [p|] eqn:Es; cbn [fst snd]; try exact H.
  all: try (unfold ckW in *; cbn [k_set_waiter k_set_slot k_conn k_slot]; rewrite ?Es in *; exact H).
  all: apply J_pooled_drop; unfold ckW in *; cbn [k_set_waiter k_set_slot k_conn k_slot oslot]; rewrite Es in H; cbn [oslot] in H;
       (eapply J_F; [|exact H]); intros c; rewrite !cnt_app, cnt_nil; lia.
Qed.

Lemma ckfree_rx_drop ck s c : ckfree ck c -> ckfree (fst (rx_drop ck s)) c.
Proof.
  intros [A B]. unfold rx_drop. destruct (k_waiter ck), (k_slot ck) as [p|] eqn:Es; cbn [fst];
    split; cbn [k_set_waiter k_set_slot k_conn k_slot]; try rewrite Es; auto; discriminate.
Qed.

Definition wW (w : wpoll) : list nat := match w with WConnected p => pw p | _ => [] end.
Lemma waiter_poll_cnt ck c : cnt (ckW (snd (waiter_poll ck))) c + cnt (wW (fst (waiter_poll ck))) c <= cnt (ckW ck) c.
Proof.
  unfold waiter_poll, ckW. destruct (k_waiter ck); [destruct (k_slot ck) as [p|] eqn:Es|destruct (k_slot ck) as [p|] eqn:Es|];
    try destruct (k_txdropped ck); cbn [fst snd wW k_set_waiter k_set_slot k_set_rxpolled k_conn k_slot oslot];
    rewrite ?Es; cbn [oslot]; rewrite ?cnt_app, ?cnt_nil; lia.
Qed.
Lemma waiter_poll_free ck c : ckfree ck c ->
  ckfree (snd (waiter_poll ck)) c /\ forall p, fst (waiter_poll ck) = WConnected p -> fst p <> c.
Proof.
  intros [A B]. unfold waiter_poll.
  destruct (k_waiter ck); [destruct (k_slot ck) as [[c1 t1]|] eqn:Es|destruct (k_slot ck) as [[c1 t1]|] eqn:Es|];
    try destruct (k_txdropped ck); cbn [fst snd]; (split; [split; cbn [k_set_waiter k_set_slot k_set_rxpolled k_conn k_slot]; try rewrite Es; auto; discriminate|]);
    try discriminate.
  all: intros p E; inversion E; subst; cbn [fst]; intros ->; eapply B; eauto.
Qed.

(* Checkout::poll of request rid (blanked): its local checkout and the result are in flight *)
Definition kW (k : kpoll) : list nat := match k with KReady (inl p) => pw p | _ => [] end.
Definition LPost (Dd : Prop) (rid : nat) (F : list nat) (R : kpoll * checkout * state) : Prop :=
  J s0 dc (Some rid) (ckW (snd (fst R)) ++ kW (fst (fst R)) ++ F) (snd R)
  /\ (Dd -> ckfree (snd (fst R)) dc /\ forall p, fst (fst R) = KReady (inl p) -> fst p <> dc).

Lemma reg_tailL (Dd : Prop) rid F ck2 c s2 :
  J s0 dc (Some rid) (c :: ckW ck2 ++ F) s2 -> (Dd -> ckfree ck2 dc /\ c <> dc) ->
  LPost Dd rid F (let '(p, s4) := register cfg (k_token ck2) c (set_req rid (RCheckout ck2) s2) in (KReady (inl p), ck2, s4)).
Proof.
  intros H Hf.
  pose proof (J_register (Some rid) (ckW ck2 ++ F) (k_token ck2) c (set_req rid (RCheckout ck2) s2) (J_set_req_x _ _ _ _ _ _ H)) as H4.
  pose proof (register_fst cfg (k_token ck2) c (set_req rid (RCheckout ck2) s2)) as E4.
  destruct (register cfg (k_token ck2) c (set_req rid (RCheckout ck2) s2)) as [p s4]. cbn [fst snd] in *.
  split; cbn [fst snd kW].
  - eapply J_F; [|exact H4]. intros c'. rewrite !cnt_app, ?cnt_nil. lia.
  - intros Hd. destruct (Hf Hd) as [A B]. split; [exact A|]. intros p' E. inversion E; subst. exact B.
Qed.

Lemma conn_tailL (Dd : Prop) (HDd : Dd -> dead s0 dc) rid F ck1 s :
  J s0 dc (Some rid) (ckW ck1 ++ F) s -> (Dd -> ckfree ck1 dc) ->
  LPost Dd rid F
    (let '(r, s) := connector_poll rid ByReq s in
     match r with
     | CPending => (KPending, ck1, s)
     | CReady res =>
         let '(ck, s) := rx_drop ck1 s in
         let ck := k_set_inner IConnected ck in
         let s := set_req rid (RCheckout ck) s in
         match res with
         | inl c => let '(p, s) := register cfg (k_token ck) c s in (KReady (inl p), ck, s)
         | inr e => (KReady (inr e), ck, s)
         end
     end).
Proof.
  intros H Hf.
  destruct (J_connector_poll (Some rid) (ckW ck1 ++ F) rid ByReq s H) as [H1 Hc1].
  pose proof (j_len _ _ _ _ _ H) as Hlen.
  destruct (connector_poll rid ByReq s) as [r s1]. cbn [fst snd] in *.
  destruct r as [|res].
  - split; cbn [fst snd kW]; [exact H1|]. intros Hd. split; [auto|discriminate].
  - assert (H1' : J s0 dc (Some rid) (ckW ck1 ++ match res with inl c => c :: F | inr _ => F end) s1).
    { destruct res as [c|e]; [|exact H1]. eapply J_F; [|exact H1]. intros c'. rewrite !cnt_app, !cnt_cons, !cnt_app. lia. }
    pose proof (J_rx_drop (Some rid) _ ck1 s1 H1') as H2. pose proof (ckfree_rx_drop ck1 s1 dc) as F2.
    destruct (rx_drop ck1 s1) as [ck2 s2]. cbn [fst snd] in *.
    assert (E3 : ckW (k_set_inner IConnected ck2) = ckW ck2) by reflexivity.
    destruct res as [c|e].
    + apply reg_tailL.
      * rewrite E3. eapply J_F; [|exact H2]. intros c'. rewrite !cnt_app, !cnt_cons, !cnt_app. lia.
      * intros Hd. split; [destruct (F2 (Hf Hd)) as [A B]; split; cbn [k_set_inner k_conn k_slot]; auto|].
        rewrite (Hc1 c eq_refl). destruct (HDd Hd) as [_ Hd']. lia.
    + split; cbn [fst snd kW]; [rewrite E3; apply J_set_req_x; exact H2|].
      intros Hd. split; [destruct (F2 (Hf Hd)) as [A B]; split; cbn [k_set_inner k_conn k_slot]; auto|discriminate].
Qed.

Lemma J_checkout_poll (Dd : Prop) (HDd : Dd -> dead s0 dc) rid F ck s :
  J s0 dc (Some rid) (ckW ck ++ F) s -> (Dd -> ckfree ck dc) -> LPost Dd rid F (checkout_poll cfg rid ck s).
Proof.
  intros H Hf.
  pose proof (waiter_poll_cnt ck) as Hwc. pose proof (waiter_poll_free ck dc) as Hwf.
  unfold checkout_poll. destruct (waiter_poll ck) as [w ck1]. cbn [fst snd] in Hwc, Hwf.
  assert (H1 : J s0 dc (Some rid) (ckW ck1 ++ wW w ++ F) s)
    by (eapply J_F; [|exact H]; intros c; specialize (Hwc c); rewrite !cnt_app; lia).
  assert (Hf1 : Dd -> ckfree ck1 dc) by (intros Hd; apply (Hwf (Hf Hd))).
  assert (Hbase : forall k, kW k = [] -> (forall p, k <> KReady (inl p)) -> LPost Dd rid F (k, ck1, s)).
  { intros k Hk Hn. split; cbn [fst snd]; [rewrite Hk; eapply J_F; [|exact H1]; intros c; rewrite !cnt_app, cnt_nil; lia|].
    intros Hd. split; [auto|]. intros p E. exfalso. eapply Hn; eauto. }
  destruct w as [|p|].
  - apply Hbase; [reflexivity|discriminate].
  - split; cbn [fst snd kW wW] in *; [exact H1|]. intros Hd. split; [auto|]. intros p' E. inversion E; subst.
    apply (proj2 (Hwf (Hf Hd))). reflexivity.
  - assert (H2 : J s0 dc (Some rid) (ckW ck1 ++ F) s) by (eapply J_F; [|exact H1]; intros c; rewrite !cnt_app; cbn [wW]; rewrite cnt_nil; lia).
    destruct (k_inner ck1); try (apply conn_tailL; assumption).
    + apply Hbase; [reflexivity|discriminate].
    + destruct (k_conn ck1) as [c|] eqn:Ec; [|apply Hbase; [reflexivity|discriminate]].
      assert (H3 : J s0 dc (Some rid) (ckW (k_set_conn None ck1) ++ c :: F) s).
      { eapply J_F; [|exact H2]. intros c'. unfold ckW. cbn [k_set_conn k_conn k_slot]. rewrite Ec. cbn [oconn].
        rewrite !cnt_app, !cnt_cons, cnt_nil. lia. }
      pose proof (J_rx_drop (Some rid) _ (k_set_conn None ck1) s H3) as H4.
      pose proof (ckfree_rx_drop (k_set_conn None ck1) s dc) as F4.
      destruct (rx_drop (k_set_conn None ck1) s) as [ck2 s2]. cbn [fst snd] in *.
      apply reg_tailL.
      * eapply J_F; [|exact H4]. intros c'. rewrite !cnt_app, !cnt_cons, !cnt_app. lia.
      * intros Hd. destruct (Hf1 Hd) as [A B]. split.
        -- apply F4. split; cbn [k_set_conn k_conn k_slot]; [discriminate|exact B].
        -- intros ->. apply A. exact Ec.
Qed.

Lemma waiter_poll_kc ck : k_conn (snd (waiter_poll ck)) = k_conn ck.
Proof.
  unfold waiter_poll. destruct (k_waiter ck); [destruct (k_slot ck)|destruct (k_slot ck)|]; try destruct (k_txdropped ck); reflexivity.
Qed.

(* a pending poll leaves the popped connection in the checkout *)
Lemma checkout_poll_kc rid ck s :
  fst (fst (checkout_poll cfg rid ck s)) = KPending -> k_conn (snd (fst (checkout_poll cfg rid ck s))) = k_conn ck.
Proof.
  pose proof (waiter_poll_kc ck) as Hk. unfold checkout_poll. destruct (waiter_poll ck) as [w ck1]. cbn [snd] in Hk.
  destruct w; cbn [fst snd]; try (intros E; discriminate E); try (intros _; exact Hk).
  destruct (k_inner ck1); cbn [fst snd]; try (intros E; discriminate E); try (intros _; exact Hk).
  1: { destruct (k_conn ck1) as [c|] eqn:Ec; cbn [fst snd]; [|intros _; congruence].
       destruct (rx_drop (k_set_conn None ck1) s) as [ck2 s2].
       destruct (register cfg (k_token ck2) c (set_req rid (RCheckout ck2) s2)) as [p s3]. cbn [fst]. intros E; discriminate E. }
  all: destruct (connector_poll rid ByReq s) as [r s1]; destruct r as [|res]; cbn [fst snd]; [intros _; exact Hk|];
       destruct (rx_drop ck1 s1) as [ck2 s2]; destruct res as [c|e]; cbn [fst]; try (intros E; discriminate E);
       destruct (register cfg (k_token (k_set_inner IConnected ck2)) c (set_req rid (RCheckout (k_set_inner IConnected ck2)) s2)) as [p s3];
       cbn [fst]; intros E; discriminate E.
Qed.

Lemma J_checkout_drop x F rid ck s : J s0 dc x (ckW ck ++ F) s -> J s0 dc x F (checkout_drop cfg rid ck s).
Proof.
  intros H. unfold checkout_drop.
  set (s1 := match k_conn ck with
             | Some c => if is_open s c && (g_pool cfg && negb (k_token ck =? 0)) then pool_push (g_max_idle cfg) (k_token ck) c s else drop_conn c s
             | None => s end).
  assert (H1 : J s0 dc x (oslot (k_slot ck) ++ F) s1).
  { subst s1. unfold ckW in H. destruct (k_conn ck) as [c|]; cbn [oconn app] in H; [|exact H].
    destruct (is_open s c && (g_pool cfg && negb (k_token ck =? 0))); [apply J_pool_push; exact H|].
    apply J_drop_conn. eapply (J_weak x _ [c]). exact H. }
  clearbody s1. cbv zeta.
  generalize (match k_inner ck with
              | IDelayDrop => match get_dial s1 rid with
                              | Some d => match d_stage d with DNew => false | _ => true end
                              | None => false end
              | _ => false end).
  intros delayed.
  assert (H2 : J s0 dc x (oslot (k_slot ck) ++ F)
                 (if delayed then spawn (TDelayed rid (k_token ck) (k_owner ck)) s1
                  else if g_pool cfg && negb (k_token ck =? 0) && k_owner ck then pool_cancel (k_token ck) rid s1 else s1)).
  { destruct delayed; [eapply J_fj; [apply fj_spawn_other; reflexivity|exact H1]|].
    destruct (g_pool cfg && negb (k_token ck =? 0) && k_owner ck); [apply J_pool_cancel|]; exact H1. }
  match goal with |- context [rx_drop ck ?s2] =>
    assert (H3 : J s0 dc x F (snd (rx_drop ck s2)));
    [|destruct (rx_drop ck s2) as [ck' s3]] end.
  { match goal with |- context [rx_drop ck ?s2] => set (sx := s2) in * end.
    unfold rx_drop. destruct (k_waiter ck), (k_slot ck) as [p|] eqn:Es; cbn [snd oslot] in *;
      try (apply J_pooled_drop; exact H2); try exact H2; eapply J_weak; exact H2. }
  cbn [snd] in H3.
  destruct (k_inner ck); try destruct delayed; try exact H3; (eapply J_fj; [apply fj_upd_dial|exact H3]).
Qed.

Lemma J_hold_release x F r p s : J s0 dc x (pw p ++ F) s -> J s0 dc x F (hold_release r p s).
Proof.
  intros H. unfold hold_release. apply J_pooled_drop. apply J_emit_plain; [exact I|].
  eapply J_fj; [apply fj_upd_conn|exact H].
Qed.

(* ---------------------------------------------------------------- operations other than Issue *)
Lemma nth_set_req_eq s r v : r < List.length (reqs s) -> nth_error (reqs (set_req r v s)) r = Some v.
Proof. intros H. unfold set_req. cbn [reqs set_reqs]. rewrite nth_error_upd_nth_eq. destruct (nth_error_ex _ _ H) as [q ->]. reflexivity. Qed.

Lemma J_do_poll r s : J s0 dc None [] s -> J s0 dc None [] (do_poll cfg r s).
Proof.
  intros H. unfold do_poll. destruct (get_req s r) as [[|ck|p fin pl| |]|] eqn:Hq; try exact H.
  - eapply (J_set_req_gen s0 dc None [] [] _ r RDone RError); [exact Hq|discriminate| |auto|apply kstep_gone; exact I|].
    + intros c. cbn [reqW]. lia.
    + apply J_emit_plain; [exact I|]. eapply J_fj; [apply fj_unwake_req|exact H].
  - assert (Hr : r < List.length (reqs s)) by (eapply nth_error_lt; exact Hq).
    set (Dd := dead s0 dc /\ qfree (nth_error (reqs s0) r) dc).
    assert (H1 : J s0 dc (Some r) (ckW ck ++ []) (unwake_req r s)).
    { eapply J_fj; [apply fj_unwake_req|]. apply (J_blank s0 dc [] s r (RCheckout ck) Hq H). }
    assert (Hf : Dd -> ckfree ck dc).
    { intros [Hd Hq0]. pose proof (j_free _ _ _ _ _ H Hd r ltac:(discriminate) Hq0) as Hx. unfold get_req in Hq. rewrite Hq in Hx. exact Hx. }
    destruct (J_checkout_poll Dd (@proj1 _ _) r [] ck _ H1 Hf) as [HJ HF].
    pose proof (checkout_poll_kc r ck (unwake_req r s)) as Hkc.
    destruct (checkout_poll cfg r ck (unwake_req r s)) as [[res ck1] s2]. cbn [fst snd] in HJ, HF, Hkc.
    assert (Hr2 : r < List.length (reqs s2)).
    { rewrite (j_rlen _ _ _ _ _ HJ). rewrite <- (j_rlen _ _ _ _ _ H). exact Hr. }
    destruct res as [|[p|e]]; cbn [kW] in HJ.
    + specialize (Hkc eq_refl). apply J_emit_plain; [exact I|].
      apply (J_unblank s0 dc [] _ r (RCheckout ck1)); [apply nth_set_req_eq; exact Hr2| | |].
      * intros Hd Hq0. apply HF. split; assumption.
      * eapply kstep_trans; [apply (j_kc _ _ _ _ _ H r); discriminate|]. unfold get_req in Hq. rewrite Hq.
        apply kstep_ck. exact Hkc.
      * apply J_set_req_x. eapply J_F; [|exact HJ]. intros c. cbn [reqW]. rewrite !cnt_app, ?cnt_nil. lia.
    + destruct (match get_conn s2 (fst p) with
                | Some cn => (c_share cn, c_open cn, c_ready cn, c_holders cn)
                | None => (false, false, false, 0) end) as [[[sh op_] rd] hs].
      apply J_emit_plain; [exact I|]. apply J_checkout_drop.
      apply (J_unblank s0 dc (ckW ck1 ++ []) _ r (RHolding p false true)).
      * apply nth_set_req_eq. exact Hr2.
      * intros _ _. exact I.
      * apply kstep_gone. exact I.
      * apply J_set_req_x. eapply J_fj; [apply fj_upd_conn|]. apply J_emit.
        -- eapply J_F; [|exact HJ]. intros c. cbn [reqW]. rewrite !cnt_app, ?cnt_nil. lia.
        -- intros Hd r' Hq' a b d n E. injection E as Er Ec. subst r'. exact (proj2 (HF (conj Hd Hq')) p eq_refl Ec).
    + apply J_emit_plain; [exact I|]. apply J_checkout_drop.
      apply (J_unblank s0 dc (ckW ck1 ++ []) _ r RDone); [apply nth_set_req_eq; exact Hr2|intros _ _; exact I|apply kstep_gone; exact I|].
      apply J_set_req_x. eapply J_F; [|exact HJ]. intros c. cbn [reqW]. rewrite !cnt_app, ?cnt_nil. lia.
  - assert (H1 : J s0 dc None [] (unwake_req r s)) by (eapply J_fj; [apply fj_unwake_req|exact H]).
    destruct fin.
    + apply J_emit_plain; [exact I|]. apply J_hold_release.
      eapply (J_set_req_gen s0 dc None [] (pw p ++ []) _ r RDone (RHolding p true pl)); [exact Hq|discriminate| |auto|apply kstep_gone; exact I|exact H1].
      intros c. cbn [reqW]. rewrite !cnt_app, ?cnt_nil. lia.
    + apply J_emit_plain; [exact I|].
      eapply (J_set_req_same None [] r _ (RHolding p false pl)); [exact Hq|reflexivity|auto|apply kstep_gone; exact I|exact H1].
Qed.

Lemma J_do_cancel r s : J s0 dc None [] s -> J s0 dc None [] (do_cancel cfg r s).
Proof.
  intros H. unfold do_cancel. destruct (get_req s r) as [[|ck|p fin pl| |]|] eqn:Hq; try exact H.
  - eapply J_fj; [apply fj_unwake_req|].
    eapply (J_set_req_gen s0 dc None [] [] _ r RCancelled RError); [exact Hq|discriminate| |intros; exact I|apply kstep_gone; exact I|exact H]. intros c. cbn [reqW]. lia.
  - eapply J_fj; [apply fj_unwake_req|]. apply J_checkout_drop.
    eapply (J_set_req_gen s0 dc None [] (ckW ck ++ []) _ r RCancelled (RCheckout ck)); [exact Hq|discriminate| |intros; exact I|apply kstep_gone; exact I|exact H].
    intros c. cbn [reqW]. rewrite !cnt_app, ?cnt_nil. lia.
  - eapply J_fj; [apply fj_unwake_req|]. apply J_hold_release.
    eapply (J_set_req_gen s0 dc None [] (pw p ++ []) _ r RCancelled (RHolding p fin pl)); [exact Hq|discriminate| |intros; exact I|apply kstep_gone; exact I|exact H].
    intros c. cbn [reqW]. rewrite !cnt_app, ?cnt_nil. lia.
  - eapply J_fj; [apply fj_unwake_req|exact H].
  - eapply J_fj; [apply fj_unwake_req|exact H].
Qed.

Lemma J_do_finish r s : J s0 dc None [] s -> J s0 dc None [] (do_finish r s).
Proof.
  intros H. unfold do_finish. destruct (get_req s r) as [[|ck|p fin pl| |]|] eqn:Hq; try exact H.
  assert (H1 : J s0 dc None [] (set_req r (RHolding p true false) s))
    by (eapply (J_set_req_same None [] r _ (RHolding p fin pl)); [exact Hq|reflexivity|auto|apply kstep_gone; exact I|exact H]).
  destruct pl; [eapply J_fj; [apply fj_wake_req|exact H1]|exact H1].
Qed.

Lemma J_run_task tid s : J s0 dc None [] s -> J s0 dc None [] (run_task cfg tid s).
Proof.
  intros H. unfold run_task. destruct (nth tid (tasks s) None) as [[c t|rid t own]|] eqn:Et; [| |exact H].
  - assert (Hfin : forall s1, nth tid (tasks s1) None = Some (TWhenReady c t) -> J s0 dc None [] s1 ->
              J s0 dc None [] (if is_open (finish_task tid s1) c && negb (t =? 0) && g_pool cfg
                              then pool_push (g_max_idle cfg) t c (finish_task tid s1) else drop_conn c (finish_task tid s1))).
    { intros s1 E1 H1. pose proof (J_finish_task s0 dc None [] tid s1 H1) as H2. rewrite E1 in H2. cbn [taskW] in H2.
      destruct (is_open (finish_task tid s1) c); cbn [andb]; [|apply J_drop_conn; eapply J_weak; exact H2].
      destruct (t =? 0) eqn:Ez; cbn [negb andb]; [apply J_drop_conn; eapply J_weak; exact H2|].
      destruct (g_pool cfg); [|apply J_drop_conn; eapply J_weak; exact H2].
      apply J_pool_push. rewrite (pw_nz c t Ez) in H2. exact H2. }
    destruct (get_conn s c) as [cn|].
    + destruct (negb (c_open cn)); [apply Hfin; [exact Et|apply J_emit_plain; [exact I|exact H]]|].
      destruct (c_share cn || c_ready cn); [apply Hfin; [exact Et|apply J_emit_plain; [exact I|exact H]]|].
      eapply J_fj; [apply fj_upd_conn|exact H].
    + pose proof (J_finish_task s0 dc None [] tid s H) as H2. eapply J_weak; exact H2.
  - destruct (J_connector_poll None [] rid (ByTask tid) s H) as [H1 _].
    destruct (connector_poll rid (ByTask tid) s) as [r s1]. cbn [fst snd] in *.
    assert (Hft : forall s2 F, J s0 dc None F s2 -> J s0 dc None F (finish_task tid s2)).
    { intros s2 F H2. eapply J_weak. apply J_finish_task. exact H2. }
    destruct r as [|[c|e]]; [exact H1| |].
    + pose proof (J_register None [] t c s1 H1) as H2.
      destruct (register cfg t c s1) as [p s2]. cbn [fst snd] in *.
      apply J_pooled_drop. apply Hft.
      destruct (g_pool cfg && negb (t =? 0) && own); [apply J_pool_cancel|]; exact H2.
    + apply Hft. destruct (g_pool cfg && negb (t =? 0) && own); [apply J_pool_cancel|]; exact H1.
Qed.

Lemma J_bg_loop fuel : forall s, J s0 dc None [] s -> J s0 dc None [] (bg_loop cfg fuel s).
Proof.
  induction fuel as [|f IH]; intros s H; cbn [bg_loop]; [exact H|].
  destruct (runq s) as [|tid rest]; [exact H|]. apply IH, J_run_task. eapply J_fj; [|exact H]. repeat split.
Qed.

Definition plainop (o : op) : Prop := match o with Issue _ _ | Tick _ => False | _ => True end.

Lemma J_step_sec s o : s0 = set_out [] s -> plainop o -> J s0 dc None [] (step cfg s o).
Proof.
  intros E Hp. assert (H0 : J s0 dc None [] (set_out [] s)) by (rewrite <- E; apply J_refl; rewrite E; reflexivity).
  unfold step. destruct o; try contradiction.
  - apply J_do_poll, H0.
  - apply J_do_cancel, H0.
  - apply J_do_finish, H0.
  - unfold do_upgrade. destruct (get_req (set_out [] s) r) as [[|ck|p fin pl| |]|]; try exact H0.
    eapply J_fj; [|exact H0]. eapply fj_trans; [apply fj_upd_conn|apply fj_drain_conn_waiters].
  - unfold do_dial_done. destruct (get_dial (set_out [] s) r) as [d|]; [|exact H0].
    destruct (d_stage d); try exact H0. eapply J_fj; [|exact H0]. eapply fj_trans; [apply fj_upd_dial|apply fj_wake_poller].
  - unfold do_conn_ready. destruct (get_conn (set_out [] s) c); [|exact H0].
    eapply J_fj; [|exact H0]. eapply fj_trans; [apply fj_upd_conn|apply fj_drain_conn_waiters].
  - unfold do_conn_close. destruct (get_conn (set_out [] s) c); [|exact H0].
    eapply J_fj; [|exact H0]. eapply fj_trans; [apply fj_upd_conn|apply fj_drain_conn_waiters].
  - unfold do_bg. apply J_bg_loop, H0.
Qed.

Lemma J_pop_loop thr rl : forall s, J s0 dc None [] s -> J s0 dc None [] (snd (pop_loop thr rl s)).
Proof.
  induction rl as [|[c a] rl IH]; intros s H; cbn [pop_loop]; [exact H|].
  destruct (match thr with Some y => (a <? y)%N | None => false end); cbn [snd].
  - apply J_drop_all, J_drop_conn, H.
  - destruct (is_open s c); cbn [snd]; [exact H|]. apply IH, J_drop_conn, H.
Qed.
End LIN.

Theorem step_J cfg s o dc : plainop o -> J (set_out [] s) dc None [] (step cfg s o).
Proof. intros Hp. apply J_step_sec; [reflexivity|exact Hp]. Qed.

(* ---------------------------------------------------------------- Issue *)
Definition isdrop (e : ev) : Prop := match e with EDrop _ => True | _ => False end.
Definition od (s : state) : Prop := Forall isdrop (out s).

Lemma od_drop_conn c s : od s -> od (drop_conn c s).
Proof.
  intros H. unfold drop_conn. destruct (get_conn s c) as [cn|]; [|exact H].
  destruct (Nat.eqb _ _); [constructor; [exact I|exact H]|exact H].
Qed.
Lemma od_drop_all l : forall s, od s -> od (drop_all l s).
Proof. induction l as [|[c a] l IH]; intros s H; cbn [drop_all]; [exact H|]. apply IH, od_drop_conn, H. Qed.
Lemma od_pop_loop thr rl : forall s, od s -> od (snd (pop_loop thr rl s)).
Proof.
  induction rl as [|[c a] rl IH]; intros s H; cbn [pop_loop]; [exact H|].
  destruct (match thr with Some y => (a <? y)%N | None => false end); cbn [snd]; [apply od_drop_all, od_drop_conn, H|].
  destruct (is_open s c); cbn [snd]; [exact H|]. apply IH, od_drop_conn, H.
Qed.

Lemma len_drop_conn c s : List.length (conns (drop_conn c s)) = List.length (conns s).
Proof.
  unfold drop_conn. destruct (get_conn s c) as [cn|]; [|reflexivity].
  destruct (Nat.eqb _ _); cbn [conns emit set_out upd_conn set_conns]; apply upd_nth_length.
Qed.
Lemma len_drop_all l : forall s, List.length (conns (drop_all l s)) = List.length (conns s).
Proof. induction l as [|[c a] l IH]; intros s; cbn [drop_all]; [reflexivity|]. rewrite IH. apply len_drop_conn. Qed.
Lemma len_pop_loop thr rl : forall s, List.length (conns (snd (pop_loop thr rl s))) = List.length (conns s).
Proof.
  induction rl as [|[c a] rl IH]; intros s; cbn [pop_loop]; [reflexivity|].
  destruct (match thr with Some y => (a <? y)%N | None => false end); cbn [snd]; [rewrite len_drop_all; apply len_drop_conn|].
  destruct (is_open s c); cbn [snd]; [reflexivity|]. rewrite IH. apply len_drop_conn.
Qed.

Lemma pop_loop_spec thr rl : forall s found rest s', pop_loop thr rl s = (found, rest, s') ->
  exists pre, rl = pre ++ rest /\
    match found with
    | Some c => exists dis a, pre = dis ++ [(c, a)] /\ match thr with Some y => (y <= a)%N | None => True end
    | None => True
    end.
Proof.
  induction rl as [|[c0 a0] rl IH]; intros s found rest s' H; cbn [pop_loop] in H.
  - inversion H; subst. exists []. split; [reflexivity|exact I].
  - destruct (match thr with Some y => (a0 <? y)%N | None => false end) eqn:Ex.
    + inversion H; subst. exists ((c0, a0) :: rl). split; [rewrite app_nil_r; reflexivity|exact I].
    + destruct (is_open s c0).
      * inversion H; subst. exists [(c0, a0)]. split; [reflexivity|]. exists [], a0. split; [reflexivity|].
        destruct thr as [y|]; [|exact I]. apply N.ltb_ge. exact Ex.
      * destruct (IH _ _ _ _ H) as (pre & -> & Hf). exists ((c0, a0) :: pre). split; [reflexivity|].
        destruct found as [c|]; [|exact I]. destruct Hf as (dis & a & -> & Ht). exists ((c0, a0) :: dis), a. split; [reflexivity|exact Ht].
Qed.

Lemma W_dec s c : W None s c = cnt (flat_map tokW (toks s)) c + cnt (flat_map reqW (reqs s)) c + cnt (flat_map taskW (tasks s)) c.
Proof. unfold W, WL, reqs_x. rewrite !cnt_app. lia. Qed.

Lemma cnt_rev l c : cnt (rev l) c = cnt l c.
Proof. induction l as [|a l IH]; [reflexivity|]. cbn [rev]. rewrite cnt_app, IH, !cnt_cons, cnt_nil. lia. Qed.

Lemma nth_upd_nth {A} (f : A -> A) d : forall l i j,
  nth j (upd_nth i f l) d = if Nat.eqb i j && Nat.ltb j (List.length l) then f (nth j l d) else nth j l d.
Proof.
  induction l as [|a l IH]; intros [|i] [|j]; cbn [upd_nth nth Nat.eqb List.length andb]; auto.
  - destruct (Nat.eqb i j); reflexivity.
  - rewrite IH. change (S j <? S (List.length l)) with (j <? List.length l). reflexivity.
Qed.

Lemma idle_upd_tok_same t f s t' : (forall p, p_idle (f p) = p_idle p) -> p_idle (get_tok (upd_tok t f s) t') = p_idle (get_tok s t').
Proof.
  intros Hf. destruct t as [|i]; [reflexivity|]. destruct t' as [|j]; [reflexivity|].
  cbn [get_tok upd_tok toks set_toks]. rewrite nth_upd_nth. destruct (_ && _); [apply Hf|reflexivity].
Qed.

Lemma set_idle_prefix t l2 l3 s : p_idle (get_tok s t) = l2 ++ l3 ->
  (forall t', p_idle (get_tok s t') = p_idle (get_tok (upd_tok t (set_idle l2) s) t') ++ (if Nat.eqb t' t then l3 else []))
  /\ (forall c, cnt (flat_map tokW (toks (upd_tok t (set_idle l2) s))) c + cnt (map fst l3) c = cnt (flat_map tokW (toks s)) c).
Proof.
  intros H. destruct t as [|i].
  - cbn [get_tok empty_tok p_idle] in H. symmetry in H. apply app_eq_nil in H as [-> ->]. cbn [upd_tok]. split.
    + intros t'. destruct (Nat.eqb t' 0); rewrite app_nil_r; reflexivity.
    + intros c. cbn [map]. rewrite cnt_nil. lia.
  - cbn [get_tok] in H. destruct (nth_error (toks s) i) as [p|] eqn:Ep.
    + rewrite (nth_error_nth _ _ empty_tok Ep) in H. split.
      * intros [|j]; [reflexivity|].
        cbn [get_tok upd_tok toks set_toks]. rewrite nth_upd_nth. change (Nat.eqb (S j) (S i)) with (Nat.eqb j i).
        destruct (Nat.eqb_spec i j) as [<-|Hn].
        -- rewrite Nat.eqb_refl. rewrite (proj2 (Nat.ltb_lt _ _) (nth_error_lt _ _ _ Ep)). cbn [andb].
           rewrite (nth_error_nth _ _ empty_tok Ep). cbn [set_idle p_idle]. exact H.
        -- cbn [andb]. destruct (Nat.eqb_spec j i); [congruence|]. rewrite app_nil_r. reflexivity.
      * intros c. cbn [upd_tok toks set_toks].
        pose proof (cnt_flat_map_upd tokW (set_idle l2) c (toks s) i p Ep) as Hc.
        assert (E1 : tokW p = map fst l2 ++ map fst l3) by (unfold tokW; rewrite H, map_app; reflexivity).
        assert (E2 : tokW (set_idle l2 p) = map fst l2) by reflexivity.
        rewrite E1, E2, cnt_app in Hc. lia.
    + assert (E : nth i (toks s) empty_tok = empty_tok) by (apply nth_overflow, nth_error_None; exact Ep).
      rewrite E in H. cbn [empty_tok p_idle] in H. symmetry in H. apply app_eq_nil in H as [-> ->].
      cbn [upd_tok]. rewrite (upd_nth_none _ _ _ Ep). split.
      * intros t'. destruct (Nat.eqb t' (S i)); rewrite app_nil_r; destruct t'; reflexivity.
      * intros c. cbn [map toks set_toks]. rewrite cnt_nil. lia.
Qed.

Lemma idle_key_insert k s t' : p_idle (get_tok (snd (key_insert k s)) t') = p_idle (get_tok s t').
Proof.
  unfold key_insert. destruct (find_key k (keys s) 1); [reflexivity|]. cbn [snd]. destruct t' as [|j]; [reflexivity|].
  cbn [get_tok toks set_toks set_keys].
  destruct (Nat.ltb_spec j (List.length (toks s))) as [Hlt|Hge]; [rewrite app_nth1 by exact Hlt; reflexivity|].
  rewrite (nth_overflow (toks s)) by exact Hge. rewrite app_nth2 by exact Hge.
  destruct (j - List.length (toks s)) as [|[|m]]; reflexivity.
Qed.

Lemma tokcnt_key_insert k s c : cnt (flat_map tokW (toks (snd (key_insert k s)))) c = cnt (flat_map tokW (toks s)) c.
Proof.
  unfold key_insert. destruct (find_key k (keys s) 1); [reflexivity|]. cbn [snd toks set_toks set_keys].
  rewrite flat_map_app, cnt_app. cbn [flat_map tokW empty_tok p_idle map app]. rewrite cnt_nil. lia.
Qed.

Definition mtok (cfg : config) (u : nat) (s : state) : nat :=
  match nth u (g_uris cfg) None with Some k => if g_pool cfg then fst (key_insert k s) else 0 | None => 0 end.
Definition mkeys (cfg : config) (u : nat) (s : state) : list key :=
  match nth u (g_uris cfg) None with Some k => if g_pool cfg then keys (snd (key_insert k s)) else keys s | None => keys s end.

Record IssueSpec (cfg : config) (u : nat) (s s' : state) (pre : list (nat * N)) (found : option nat) (qn : req) : Prop := mkIS {
  is_reqs : reqs s' = reqs s ++ [qn];
  is_keys : keys s' = mkeys cfg u s;
  is_len : List.length (conns s') = List.length (conns s);
  is_now : now s' = now s;
  is_od : od s';
  is_idle : forall t', p_idle (get_tok s t') = p_idle (get_tok s' t') ++ (if Nat.eqb t' (mtok cfg u s) then rev pre else []);
  is_W : forall c, W None s' c + cnt (map fst pre) c <= W None s c + cnt (oconn found) c;
  is_qn : forall c, found <> Some c -> qfree (Some qn) c;
  is_kc : forall c, found = Some c -> kcq (Some qn) c;
  is_found : forall c, found = Some c ->
             exists dis a, pre = dis ++ [(c, a)] /\ forall d, g_timeout cfg = Some d -> (0 < d <= now s)%N -> (now s - d <= a)%N
}.

Lemma add_spec cfg u s sx qn dl found pre :
  reqs sx = reqs s -> keys sx = mkeys cfg u s -> List.length (conns sx) = List.length (conns s) -> now sx = now s -> od sx ->
  (forall t', p_idle (get_tok s t') = p_idle (get_tok sx t') ++ (if Nat.eqb t' (mtok cfg u s) then rev pre else [])) ->
  (forall c, W None sx c + cnt (map fst pre) c <= W None s c) ->
  reqW qn = oconn found -> (forall c, found <> Some c -> qfree (Some qn) c) ->
  (forall c, found = Some c ->
     exists dis a, pre = dis ++ [(c, a)] /\ forall d, g_timeout cfg = Some d -> (0 < d <= now s)%N -> (now s - d <= a)%N) ->
  (forall c, found = Some c -> kcq (Some qn) c) ->
  IssueSpec cfg u s (set_dials dl (set_reqs (reqs sx ++ [qn]) sx)) pre found qn.
Proof.
  intros A1 A2 A3 A4 A5 A6 A7 A8 A9 A10 A11. constructor; auto.
  - cbn [reqs set_dials set_reqs]. rewrite A1. reflexivity.
  - intros c. specialize (A7 c). rewrite (W_dec sx) in A7. rewrite W_dec. cbn [toks reqs tasks set_dials set_reqs].
    rewrite flat_map_app, cnt_app. cbn [flat_map]. rewrite app_nil_r, A8. lia.
Qed.

Lemma issue_spec cfg u p s : out s = [] -> exists pre found qn, IssueSpec cfg u s (do_issue cfg u p s) pre found qn.
Proof.
  intros Ho. unfold do_issue.
  set (sa := set_woken (woken s ++ [false]) s).
  assert (Hnil : forall t' : nat, p_idle (get_tok s t') = p_idle (get_tok sa t') ++ (if Nat.eqb t' (mtok cfg u s) then rev [] else []))
    by (intros t'; destruct (Nat.eqb t' (mtok cfg u s)); cbn [rev]; rewrite app_nil_r; reflexivity).
  assert (Hod : od sa) by (unfold od; cbn [sa out set_woken]; rewrite Ho; constructor).
  destruct (nth u (g_uris cfg) None) as [k|] eqn:Ek.
  2: { assert (Emk : mkeys cfg u s = keys s) by (unfold mkeys; rewrite Ek; reflexivity).
       exists [], None, RError. apply (add_spec cfg u s sa RError _ None []); auto; try discriminate.
       - intros c. cbn [map]. rewrite cnt_nil. change (W None sa c) with (W None s c). lia.
       - intros c _. exact I. }
  destruct (g_pool cfg) eqn:Eg; cbn [negb].
  2: { assert (Emk : mkeys cfg u s = keys s) by (unfold mkeys; rewrite Ek, Eg; reflexivity).
       exists [], None, (RCheckout (new_ck 0 WNoPool IConnecting None false true)).
       apply (add_spec cfg u s sa _ _ None []); auto; try discriminate.
       - intros c. cbn [map]. rewrite cnt_nil. change (W None sa c) with (W None s c). lia.
       - intros c _. split; cbn; intros; discriminate. }
  assert (Emt : mtok cfg u s = fst (key_insert k s)) by (unfold mtok; rewrite Ek, Eg; reflexivity).
  assert (Emk : mkeys cfg u s = keys (snd (key_insert k s))) by (unfold mkeys; rewrite Ek, Eg; reflexivity).
  assert (Eki : key_insert k sa = (fst (key_insert k s), set_woken (woken s ++ [false]) (snd (key_insert k s)))).
  { unfold key_insert. cbn [keys sa set_woken]. destruct (find_key k (keys s) 1); reflexivity. }
  rewrite Eki. set (t := fst (key_insert k s)) in *. set (sb := set_woken (woken s ++ [false]) (snd (key_insert k s))).
  assert (Bidle : forall t', p_idle (get_tok sb t') = p_idle (get_tok s t')) by (intros t'; apply (idle_key_insert k s t')).
  assert (Bcnt : forall c, W None sb c = W None s c).
  { intros c. rewrite !W_dec. cbn [sb toks reqs tasks set_woken]. rewrite tokcnt_key_insert.
    unfold key_insert. destruct (find_key k (keys s) 1); reflexivity. }
  assert (Breqs : reqs sb = reqs s) by (unfold sb, key_insert; destruct (find_key k (keys s) 1); reflexivity).
  assert (Blen : List.length (conns sb) = List.length (conns s)) by (unfold sb, key_insert; destruct (find_key k (keys s) 1); reflexivity).
  assert (Bnow : now sb = now s) by (unfold sb, key_insert; destruct (find_key k (keys s) 1); reflexivity).
  assert (Bout : out sb = []) by (unfold sb, key_insert; destruct (find_key k (keys s) 1); exact Ho).
  assert (Bkeys : keys sb = keys (snd (key_insert k s))) by reflexivity.
  unfold pool_pop.
  pose proof (J_pop_loop sb 0 (expiry_threshold (g_timeout cfg) (now sb)) (rev (p_idle (get_tok sb t))) sb (J_refl sb 0 Bout)) as HJ.
  pose proof (toks_pop_loop (expiry_threshold (g_timeout cfg) (now sb)) (rev (p_idle (get_tok sb t))) sb) as Ctoks.
  pose proof (now_pop_loop (expiry_threshold (g_timeout cfg) (now sb)) (rev (p_idle (get_tok sb t))) sb) as Cnow.
  pose proof (len_pop_loop (expiry_threshold (g_timeout cfg) (now sb)) (rev (p_idle (get_tok sb t))) sb) as Clen.
  pose proof (od_pop_loop (expiry_threshold (g_timeout cfg) (now sb)) (rev (p_idle (get_tok sb t))) sb) as Cod.
  destruct (pop_loop (expiry_threshold (g_timeout cfg) (now sb)) (rev (p_idle (get_tok sb t))) sb) as [[found rest] sc] eqn:El.
  cbn [snd] in *.
  destruct (pop_loop_spec _ _ _ _ _ _ El) as (pre & Hpre & Hfound).
  assert (Cidle : p_idle (get_tok sc t) = rev rest ++ rev pre).
  { assert (E : get_tok sc t = get_tok sb t) by (destruct t; cbn [get_tok]; [reflexivity|rewrite Ctoks; reflexivity]).
    rewrite E, <- (rev_involutive (p_idle (get_tok sb t))), Hpre, rev_app_distr. reflexivity. }
  destruct (set_idle_prefix t (rev rest) (rev pre) sc Cidle) as [Didle Dcnt].
  set (sd := upd_tok t (set_idle (rev rest)) sc) in *.
  assert (Cget : forall t', p_idle (get_tok sc t') = p_idle (get_tok s t')).
  { intros t'. rewrite <- Bidle. destruct t'; cbn [get_tok]; [reflexivity|rewrite Ctoks; reflexivity]. }
  assert (CW : forall c, W None sc c <= W None s c).
  { intros c. pose proof (j_cnt _ _ _ _ _ HJ c) as H. rewrite cnt_nil, Bcnt in H.
    assert (E : newc sb sc c = 0) by (unfold newc; rewrite Clen; destruct (Nat.leb_spec (List.length (conns sb)) c), (Nat.ltb_spec c (List.length (conns sb))); cbn; lia).
    lia. }
  assert (Creqs : reqs sc = reqs s).
  { destruct (fe_pop_loop (expiry_threshold (g_timeout cfg) (now sb)) (rev (p_idle (get_tok sb t))) sb) as [_ E].
    rewrite El in E. cbn [snd] in E. rewrite E. exact Breqs. }
  assert (Ckeys : keys sc = keys (snd (key_insert k s))) by (rewrite (j_keys _ _ _ _ _ HJ); exact Bkeys).
  assert (Dreqs : reqs sd = reqs sc) by (unfold sd; destruct t; reflexivity).
  assert (Dkeys : keys sd = keys sc) by (unfold sd; destruct t; reflexivity).
  assert (Dtasks : tasks sd = tasks sc) by (unfold sd; destruct t; reflexivity).
  assert (Dconns : conns sd = conns sc) by (unfold sd; destruct t; reflexivity).
  assert (Dnow : now sd = now sc) by (unfold sd; destruct t; reflexivity).
  assert (Dout : out sd = out sc) by (unfold sd; destruct t; reflexivity).
  (* everything after the pop touches neither idle lists nor counted handles, except the new request *)
  assert (Hfin : forall sx qn dl, toks sx = toks sd \/ (exists f g, (forall q, p_idle (f q) = p_idle q) /\ (forall q, p_idle (g q) = p_idle q) /\
                                                    (sx = upd_tok t f sd \/ sx = upd_tok t g (upd_tok t f sd))) ->
            reqs sx = reqs sd -> tasks sx = tasks sd -> conns sx = conns sd -> now sx = now sd -> out sx = out sd -> keys sx = keys sd ->
            reqW qn = oconn found -> (forall c, found <> Some c -> qfree (Some qn) c) ->
            (forall c, found = Some c -> kcq (Some qn) c) ->
            IssueSpec cfg u s (set_dials dl (set_reqs (reqs sx ++ [qn]) sx)) pre found qn).
  { intros sx qn dl Htk E1 E2 E3 E4 E5 E6 Hq1 Hq2 Hq3.
    assert (Xidle : forall t', p_idle (get_tok sx t') = p_idle (get_tok sd t')).
    { intros t'. destruct Htk as [E|(f & g & Hf & Hg & [->| ->])].
      - destruct t'; cbn [get_tok]; [reflexivity|rewrite E; reflexivity].
      - apply idle_upd_tok_same, Hf.
      - rewrite idle_upd_tok_same by exact Hg. apply idle_upd_tok_same, Hf. }
    assert (Xcnt : forall c, cnt (flat_map tokW (toks sx)) c = cnt (flat_map tokW (toks sd)) c).
    { intros c. destruct Htk as [E|(f & g & Hf & Hg & [->| ->])]; [rewrite E; reflexivity| |].
      - rewrite !tokW_flat. destruct (fj_upd_tok t f sd Hf) as (E & _). rewrite E. reflexivity.
      - rewrite !tokW_flat. destruct (fj_upd_tok t g (upd_tok t f sd) Hg) as (E & _). rewrite E.
        destruct (fj_upd_tok t f sd Hf) as (E' & _). rewrite E'. reflexivity. }
    apply (add_spec cfg u s sx qn dl found pre); rewrite ?Emt, ?Emk; fold t; auto.
    - rewrite E1, Dreqs. exact Creqs.
    - rewrite E6, Dkeys. exact Ckeys.
    - rewrite E3, Dconns, Clen. exact Blen.
    - rewrite E4, Dnow, Cnow. exact Bnow.
    - unfold od. rewrite E5, Dout. apply Cod. unfold od. rewrite Bout. constructor.
    - intros t'. rewrite Xidle, <- Cget. apply Didle.
    - intros c. rewrite W_dec, Xcnt, E1, E2. specialize (Dcnt c). specialize (CW c). rewrite W_dec in CW.
      rewrite Dreqs, Dtasks. rewrite map_rev, cnt_rev in Dcnt. lia.
    - intros c Ec. subst found. destruct Hfound as (dis & a & -> & Ht). exists dis, a. split; [reflexivity|].
      intros d Hd [Hd1 Hd2]. unfold expiry_threshold in Ht. rewrite Hd in Ht. rewrite Bnow in Ht.
      destruct (N.ltb_spec 0 d); [|lia]. destruct (N.leb_spec d (now s)); [|lia]. cbn [andb] in Ht. exact Ht. }
  destruct found as [c|].
  - exists pre, (Some c), (RCheckout (new_ck t WIdle IConnected (Some c) false true)).
    apply Hfin; auto.
    + intros c' Hc'. split; cbn [new_ck k_conn k_slot]; [congruence|discriminate].
    + intros c' Hc'. eexists. split; [reflexivity|]. cbn [new_ck k_conn]. exact Hc'.
  - set (pending := match p_marker (get_tok sd t) with Some _ => true | None => false end).
    destruct pending.
    + exists pre, None, (RCheckout (new_ck t WConnecting IWaiting None false false)).
      apply Hfin; auto.
      * right. eexists _, (fun q => q). split; [|split; [reflexivity|left; reflexivity]]. reflexivity.
      * destruct t; reflexivity.
      * destruct t; reflexivity.
      * destruct t; reflexivity.
      * destruct t; reflexivity.
      * destruct t; reflexivity.
      * destruct t; reflexivity.
      * intros c' _. split; cbn; intros; discriminate.
      * intros c' E; discriminate E.
    + exists pre, None, (RCheckout (new_ck t WIdle (if g_cont cfg then IDelayDrop else IConnecting) None match p with H1 => false | H2 => true end false)).
      apply Hfin; auto.
      * right. destruct p.
        -- eexists _, (fun q => q). split; [|split; [reflexivity|left; reflexivity]]. reflexivity.
        -- eexists _, _. split; [|split; [|right; reflexivity]]; reflexivity.
      * destruct p, t; reflexivity.
      * destruct p, t; reflexivity.
      * destruct p, t; reflexivity.
      * destruct p, t; reflexivity.
      * destruct p, t; reflexivity.
      * destruct p, t; reflexivity.
      * intros c' _. split; cbn; intros; discriminate.
      * intros c' E; discriminate E.
Qed.

(* ---------------------------------------------------------------- a dropped checkout whose popped connection is not open *)
Lemma set_req_drop_conn r v c s : set_req r v (drop_conn c s) = drop_conn c (set_req r v s).
Proof.
  unfold drop_conn, get_conn. cbn [conns set_req set_reqs]. destruct (nth_error (conns s) c) as [cn|]; [|reflexivity].
  destruct (Nat.eqb _ _); reflexivity.
Qed.
Lemma set_req_twice r v v' s : set_req r v (set_req r v' s) = set_req r v s.
Proof. unfold set_req. cbn [reqs set_reqs now keys toks conns dials woken tasks runq out]. rewrite upd_nth_twice. reflexivity. Qed.

Lemma checkout_drop_split cfg rid ck c s : k_conn ck = Some c -> is_open s c = false ->
  checkout_drop cfg rid ck s = checkout_drop cfg rid (k_set_conn None ck) (drop_conn c s).
Proof.
  intros Hk Ho. unfold checkout_drop, rx_drop. cbn [k_set_conn k_conn k_token k_inner k_owner k_waiter k_slot]. rewrite Hk, Ho.
  cbn [andb]. destruct (k_waiter ck), (k_slot ck); reflexivity.
Qed.

(* Cancel r, where r still has its popped connection c and c is not open: c is dropped for good *)
Theorem cancel_dead cfg s r ck c :
  nth_error (reqs s) r = Some (RCheckout ck) -> k_conn ck = Some c -> is_open s c = false ->
  W None s c <= 1 -> c < List.length (conns s) ->
  (forall r', r' <> r -> qfree (nth_error (reqs s) r') c) -> (forall t, k_slot ck <> Some (c, t)) ->
  dead (step cfg s (Cancel r)) c /\ (forall r', qfree (nth_error (reqs (step cfg s (Cancel r))) r') c)
  /\ (forall r', noHand r' c (out (step cfg s (Cancel r)))).
Proof.
  intros Hq Hk Ho HW Hlt Hfree Hslot.
  set (ck' := k_set_conn None ck).
  set (sA := drop_conn c (set_req r (RCheckout ck') (set_out [] s))).
  assert (Estep : step cfg s (Cancel r) = do_cancel cfg r sA).
  { unfold step, do_cancel. unfold get_req. cbn [reqs set_out]. rewrite Hq.
    assert (EA : nth_error (reqs sA) r = Some (RCheckout ck')).
    { unfold sA. assert (E : reqs (drop_conn c (set_req r (RCheckout ck') (set_out [] s))) = reqs (set_req r (RCheckout ck') (set_out [] s))).
      { destruct (fe_drop_conn c (set_req r (RCheckout ck') (set_out [] s))) as [_ E]. exact E. }
      rewrite E. apply nth_set_req_eq. cbn [reqs set_out]. eapply nth_error_lt; eauto. }
    rewrite EA. f_equal.
    rewrite (checkout_drop_split cfg r ck c (set_req r RCancelled (set_out [] s)) Hk Ho). fold ck'. f_equal.
    unfold sA. rewrite set_req_drop_conn, set_req_twice. reflexivity. }
  assert (WA : forall c', W None sA c' + cnt (oconn (k_conn ck)) c' = W None s c').
  { intros c'. pose proof (W_set_req None (set_out [] s) r (RCheckout ck') (RCheckout ck) c' Hq ltac:(discriminate)) as H.
    change (W None (set_out [] s) c') with (W None s c') in H. cbn [reqW] in H. unfold ckW in H.
    assert (E : W None sA c' = W None (set_req r (RCheckout ck') (set_out [] s)) c').
    { unfold sA, drop_conn. destruct (get_conn _ c) as [cn|]; [|reflexivity]. destruct (Nat.eqb _ _); reflexivity. }
    rewrite E. cbn [ck' k_set_conn k_conn k_slot oconn] in H. rewrite !cnt_app, ?cnt_nil in H. lia. }
  assert (LA : List.length (conns sA) = List.length (conns s)).
  { unfold sA. rewrite len_drop_conn. reflexivity. }
  assert (RA : forall r', nth_error (reqs sA) r' = if Nat.eqb r r' then Some (RCheckout ck') else nth_error (reqs s) r').
  { intros r'. unfold sA. destruct (fe_drop_conn c (set_req r (RCheckout ck') (set_out [] s))) as [_ E]. rewrite E.
    unfold set_req. cbn [reqs set_reqs set_out]. rewrite nth_error_upd_nth. destruct (Nat.eqb r r') eqn:Er; [|reflexivity].
    apply Nat.eqb_eq in Er. subst r'. rewrite Hq. reflexivity. }
  assert (DA : dead sA c).
  { split; [|rewrite LA; exact Hlt]. specialize (WA c). rewrite Hk in WA. cbn [oconn] in WA. rewrite cnt_cons in WA.
    destruct (Nat.eq_dec c c); [lia|congruence]. }
  assert (FA : forall r', qfree (nth_error (reqs sA) r') c).
  { intros r'. rewrite RA. destruct (Nat.eqb_spec r r') as [<-|Hn]; [|apply Hfree; congruence].
    split; cbn [ck' k_set_conn k_conn k_slot]; [discriminate|exact Hslot]. }
  assert (HA : forall r', noHand r' c (out sA)).
  { intros r' a b d n. unfold sA, drop_conn. destruct (get_conn _ c) as [cn|]; [|intros []].
    destruct (Nat.eqb _ _); cbn [out emit set_out upd_conn set_conns set_req set_reqs]; [intros [E|[]]; discriminate E|intros []]. }
  pose proof (J_do_cancel cfg sA c r sA (J_refl' sA c HA)) as HJ. rewrite <- Estep in HJ.
  split; [|split].
  - split.
    + pose proof (j_cnt _ _ _ _ _ HJ c) as H. rewrite cnt_nil in H. destruct DA as [D1 D2].
      assert (E : newc sA (step cfg s (Cancel r)) c = 0) by (unfold newc; destruct (Nat.leb_spec (List.length (conns sA)) c); [lia|reflexivity]).
      lia.
    + pose proof (j_len _ _ _ _ _ HJ). lia.
  - intros r'. apply (j_free _ _ _ _ _ HJ DA r' ltac:(discriminate) (FA r')).
  - intros r'. apply (j_hand _ _ _ _ _ HJ DA r' (FA r')).
Qed.
