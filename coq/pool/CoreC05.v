(* C05, core: the first clause of the monitor (a connection handed to r was not closed before it was
   acquired for r) holds at every hand-off of every history; pool/ProofsC05.v adds the idle-timeout clause.
   Method (pool/PROOF_NOTES.md): an invariant relating the tracker state to the model state is carried
   through every primitive of the model ("Hoare logic over the event log").
   - [cv]/[rv]: the tracker fields the monitor reads (views of m_conns / m_reqs);
   - [TI]: tracker-only invariant (op indices are bounded by m_i; the idle-timeout clause: the tracker's
     ri_popc is only set for a connection that was unexpired at the Issue);
   - [RM]: relation tracker/model: a connection that is open in the model has ci_closed = None; a request
     the tracker believes to hold c holds c in the model; ci_closed >= ci_back; every connection stored
     in a checkout (k_conn, channel slot) was not closed before the request's Issue ([Acq]);
   - [G]: the events emitted so far in this op are accepted, and TI/RM hold for the tracker state after
     these events. *)
From HD Require Import common.Base http.Model pool.Model pool.Spec pool.Frames.
Local Open Scope list_scope.

(* ------------------------------------------------------------------ lists *)
Lemma upd_nth_length {A} (f : A -> A) : forall l n, List.length (upd_nth n f l) = List.length l.
Proof. induction l as [|x l IH]; intros [|n]; cbn [upd_nth List.length]; auto. Qed.

Lemma nth_error_upd_nth {A} (f : A -> A) : forall l n k,
  nth_error (upd_nth n f l) k = if Nat.eqb n k then option_map f (nth_error l k) else nth_error l k.
Proof.
  induction l as [|x l IH]; intros [|n] [|k]; cbn [upd_nth nth_error Nat.eqb option_map]; auto.
  - destruct (Nat.eqb _ _); reflexivity.
Qed.

Lemma nth_error_upd_nth_ne {A} (f : A -> A) l n k : n <> k -> nth_error (upd_nth n f l) k = nth_error l k.
Proof. intros H. rewrite nth_error_upd_nth. destruct (Nat.eqb_spec n k); [contradiction|reflexivity]. Qed.

Lemma nth_error_upd_nth_eq {A} (f : A -> A) l n : nth_error (upd_nth n f l) n = option_map f (nth_error l n).
Proof. rewrite nth_error_upd_nth, Nat.eqb_refl. reflexivity. Qed.

Lemma map_upd_nth {A B} (g : A -> B) (f : A -> A) (h : B -> B) :
  (forall x, g (f x) = h (g x)) -> forall l n, map g (upd_nth n f l) = upd_nth n h (map g l).
Proof.
  intros H. induction l as [|x l IH]; intros [|n]; cbn [upd_nth map]; auto.
  - rewrite H. reflexivity.
  - rewrite IH. reflexivity.
Qed.

Lemma map_upd_nth_id {A B} (g : A -> B) (f : A -> A) :
  (forall x, g (f x) = g x) -> forall l n, map g (upd_nth n f l) = map g l.
Proof.
  intros H. induction l as [|x l IH]; intros [|n]; cbn [upd_nth map]; auto.
  - rewrite H. reflexivity.
  - rewrite IH. reflexivity.
Qed.

Lemma nth_error_map' {A B} (f : A -> B) : forall l n, nth_error (map f l) n = option_map f (nth_error l n).
Proof. induction l as [|x l IH]; intros [|n]; cbn [map nth_error option_map]; auto. Qed.

Lemma nth_error_snoc {A} (l : list A) x k :
  nth_error (l ++ [x]) k = if Nat.ltb k (List.length l) then nth_error l k
                           else if Nat.eqb k (List.length l) then Some x else None.
Proof.
  destruct (Nat.ltb_spec k (List.length l)) as [Hlt|Hge].
  - apply nth_error_app1. exact Hlt.
  - rewrite nth_error_app2 by exact Hge. destruct (Nat.eqb_spec k (List.length l)) as [->|Hne].
    + rewrite Nat.sub_diag. reflexivity.
    + destruct (k - List.length l) as [|[|j]] eqn:E; cbn; try reflexivity. lia.
Qed.

Lemma nth_error_lt {A} (l : list A) k x : nth_error l k = Some x -> k < List.length l.
Proof. intros H. apply nth_error_Some. rewrite H. discriminate. Qed.

Lemma nth_error_ex {A} (l : list A) k : k < List.length l -> exists x, nth_error l k = Some x.
Proof. intros H. destruct (nth_error l k) eqn:E; [eauto|]. apply nth_error_None in E. lia. Qed.

(* ------------------------------------------------------------------ views of the tracker *)
Record cvw := mkCv { v_closed : option nat; v_back : nat; v_btime : N }.
Record rvw := mkRv { v_stat : rstat; v_at : nat; v_time : N; v_popc : option nat }.
Definition cv_of (x : cinfo) := mkCv (ci_closed x) (ci_back x) (ci_back_time x).
Definition rv_of (y : rinfo) := mkRv (ri_stat y) (ri_at y) (ri_time y) (ri_popc y).
Definition cv (m : mst) := map cv_of (m_conns m).
Definition rv (m : mst) := map rv_of (m_reqs m).

Definition cv_ev (m : mst) (e : ev) (l : list cvw) : list cvw :=
  match e with
  | ENew _ _ _ => l ++ [mkCv None (m_i m) (m_time m)]
  | ERdy c true => upd_nth c (fun v => mkCv (v_closed v) (m_i m) (m_time m)) l
  | _ => l
  end.
Definition rv_ev (e : ev) (l : list rvw) : list rvw :=
  match e with
  | EHand r c _ _ _ _ => upd_nth r (fun w => mkRv (SHeld c) (v_at w) (v_time w) (v_popc w)) l
  | ERes r _ => upd_nth r (fun w => mkRv SDone (v_at w) (v_time w) (v_popc w)) l
  | _ => l
  end.

Lemma cv_ri_upd f r m : cv (ri_upd f r m) = cv m. Proof. reflexivity. Qed.
Lemma rv_ci_upd f c m : rv (ci_upd f c m) = rv m. Proof. reflexivity. Qed.
Lemma cv_ci_upd_id f c m : (forall x, cv_of (f x) = cv_of x) -> cv (ci_upd f c m) = cv m.
Proof. intros H. unfold cv, ci_upd. cbn [m_conns set_m_conns]. apply map_upd_nth_id. exact H. Qed.
Lemma rv_ri_upd_id f r m : (forall x, rv_of (f x) = rv_of x) -> rv (ri_upd f r m) = rv m.
Proof. intros H. unfold rv, ri_upd. cbn [m_reqs set_m_reqs]. apply map_upd_nth_id. exact H. Qed.
Lemma cv_ci_upd f h c m : (forall x, cv_of (f x) = h (cv_of x)) -> cv (ci_upd f c m) = upd_nth c h (cv m).
Proof. intros H. unfold cv, ci_upd. cbn [m_conns set_m_conns]. apply map_upd_nth. exact H. Qed.
Lemma rv_ri_upd f h r m : (forall x, rv_of (f x) = h (rv_of x)) -> rv (ri_upd f r m) = upd_nth r h (rv m).
Proof. intros H. unfold rv, ri_upd. cbn [m_reqs set_m_reqs]. apply map_upd_nth. exact H. Qed.

Lemma mi_track_ev m e : m_i (track_ev m e) = m_i m.
Proof. destruct e; cbn [track_ev]; try reflexivity. - destruct x as [|[]]; reflexivity. - destruct ok; reflexivity. Qed.
Lemma mtime_track_ev m e : m_time (track_ev m e) = m_time m.
Proof. destruct e; cbn [track_ev]; try reflexivity. - destruct x as [|[]]; reflexivity. - destruct ok; reflexivity. Qed.

Lemma cv_track_ev m e : cv (track_ev m e) = cv_ev m e (cv m).
Proof.
  destruct e; cbn [track_ev cv_ev]; try reflexivity.
  - unfold cv. cbn [m_conns set_m_conns ri_upd set_m_reqs m_i m_time]. rewrite map_app. reflexivity.
  - rewrite cv_ci_upd_id by reflexivity. reflexivity.
  - destruct x as [|[]]; reflexivity.
  - rewrite cv_ci_upd_id by reflexivity. reflexivity.
  - rewrite cv_ci_upd_id by reflexivity. reflexivity.
  - destruct ok; [|reflexivity]. apply cv_ci_upd. reflexivity.
Qed.

Lemma rv_track_ev m e : rv (track_ev m e) = rv_ev e (rv m).
Proof.
  destruct e; cbn [track_ev rv_ev].
  - apply rv_ri_upd_id. reflexivity.
  - unfold rv at 1. cbn [m_reqs set_m_conns]. fold (rv (ri_upd (set_ri_dial DsOver) r m)). apply rv_ri_upd_id. reflexivity.
  - rewrite rv_ci_upd. apply rv_ri_upd. intros x.
    destruct (_ && _); reflexivity.
  - apply rv_ri_upd_id. reflexivity.
  - assert (H : rv (ri_upd (fun y => set_ri_pend false (set_ri_stat SDone y)) r m)
               = upd_nth r (fun w => mkRv SDone (v_at w) (v_time w) (v_popc w)) (rv m)) by (apply rv_ri_upd; reflexivity).
    destruct x as [|[]]; try exact H; rewrite rv_ri_upd_id by reflexivity; exact H.
  - reflexivity.
  - reflexivity.
  - destruct ok; reflexivity.
Qed.

(* inversion principles: what an entry of the views after an event can be *)
Lemma rv_ev_inv e l r w : nth_error (rv_ev e l) r = Some w ->
  exists w0, nth_error l r = Some w0 /\ v_at w = v_at w0 /\ v_time w = v_time w0 /\ v_popc w = v_popc w0.
Proof.
  destruct e; cbn [rv_ev]; intros H; try (exists w; auto; fail).
  - rewrite nth_error_upd_nth in H. destruct (Nat.eqb r0 r); [|exists w; auto].
    destruct (nth_error l r) as [w0|]; [|discriminate]. inversion H; subst. exists w0. auto.
  - rewrite nth_error_upd_nth in H. destruct (Nat.eqb r0 r); [|exists w; auto].
    destruct (nth_error l r) as [w0|]; [|discriminate]. inversion H; subst. exists w0. auto.
Qed.

Lemma rv_ev_length e l : List.length (rv_ev e l) = List.length l.
Proof. destruct e; cbn [rv_ev]; auto using upd_nth_length. Qed.

Lemma cv_ev_length m e l : List.length l <= List.length (cv_ev m e l).
Proof.
  destruct e; cbn [cv_ev]; auto.
  - rewrite app_length. cbn. lia.
  - destruct ok; [rewrite upd_nth_length|]; auto.
Qed.

Lemma cv_ev_inv m e l c v : nth_error (cv_ev m e l) c = Some v ->
  (exists v0, nth_error l c = Some v0 /\ v_closed v = v_closed v0
              /\ ((v_back v = v_back v0 /\ v_btime v = v_btime v0) \/ (v_back v = m_i m /\ v_btime v = m_time m)))
  \/ (nth_error l c = None /\ v = mkCv None (m_i m) (m_time m)).
Proof.
  destruct e; cbn [cv_ev]; intros H; try (left; exists v; auto; fail).
  - rewrite nth_error_snoc in H. destruct (Nat.ltb_spec c (List.length l)) as [Hlt|Hge].
    + left. exists v. auto.
    + destruct (Nat.eqb c (List.length l)); [|discriminate]. inversion H; subst. right. split; [|reflexivity].
      apply nth_error_None. exact Hge.
  - destruct ok; [|left; exists v; auto].
    rewrite nth_error_upd_nth in H. destruct (Nat.eqb c0 c); [|left; exists v; auto].
    destruct (nth_error l c) as [v0|]; [|discriminate]. inversion H; subst. left. exists v0. cbn. auto.
Qed.

(* ------------------------------------------------------------------ invariants *)
Definition copen (s : state) : list bool := map c_open (conns s).
Definition cur (m0 : mst) (s : state) : mst := fold_left track_ev (rev (out s)) m0.

(* "c was not closed before request r was issued" (and c exists) *)
Definition Acq (m : mst) (r c : nat) : Prop :=
  c < List.length (cv m) /\
  forall v w cl, nth_error (cv m) c = Some v -> nth_error (rv m) r = Some w -> v_closed v = Some cl -> v_at w <= cl.
Definition CkOK (m : mst) (r : nat) (ck : checkout) : Prop :=
  (forall c, k_conn ck = Some c -> Acq m r c) /\ (forall c t, k_slot ck = Some (c, t) -> Acq m r c).

(* a request the tracker believes to be live (no hand-off, result or cancel yet) is a checkout or an error in the model *)
Definition live_req (q : req) : Prop := match q with RCheckout _ | RError => True | _ => False end.

Record RM (ex : option nat) (m : mst) (s : state) : Prop := mkRM {
  rm_len : List.length (cv m) = List.length (copen s);
  rm_rlen : List.length (reqs s) <= List.length (rv m);
  rm_open : forall c v, nth_error (copen s) c = Some true -> nth_error (cv m) c = Some v -> v_closed v = None;
  rm_held : forall r w c, Some r <> ex -> nth_error (rv m) r = Some w -> v_stat w = SHeld c ->
            exists t f p, nth_error (reqs s) r = Some (RHolding (c, t) f p);
  rm_store : forall r ck, nth_error (reqs s) r = Some (RCheckout ck) -> CkOK m r ck;
  rm_live : forall r w q, Some r <> ex -> nth_error (rv m) r = Some w -> v_stat w = SLive -> nth_error (reqs s) r = Some q -> live_req q
}.

Lemma Acq_track_ev m e r c : Acq m r c -> Acq (track_ev m e) r c.
Proof.
  intros [Hlt HA]. split.
  - rewrite cv_track_ev. pose proof (cv_ev_length m e (cv m)). lia.
  - intros v w cl Hv Hw Hcl. rewrite rv_track_ev in Hw. rewrite cv_track_ev in Hv.
    apply rv_ev_inv in Hw as (w0 & Hw0 & Hat & _).
    apply cv_ev_inv in Hv as [(v0 & Hv0 & Hc & _)|[_ ->]].
    + rewrite Hat. eapply HA; eauto. congruence.
    + cbn in Hcl. discriminate.
Qed.

Lemma CkOK_track_ev m e r ck : CkOK m r ck -> CkOK (track_ev m e) r ck.
Proof. intros [H1 H2]. split; intros; apply Acq_track_ev; eauto. Qed.

Lemma Acq_fold m r c : forall l, Acq m r c -> Acq (fold_left track_ev l m) r c.
Proof. intros l. revert m. induction l as [|e l IH]; intros m H; cbn [fold_left]; auto. apply IH, Acq_track_ev, H. Qed.

Lemma Acq_views m m' r c : cv m' = cv m -> rv m' = rv m -> Acq m r c -> Acq m' r c.
Proof. unfold Acq. intros -> ->. auto. Qed.

Lemma RM_views ex m m' s : cv m' = cv m -> rv m' = rv m -> RM ex m s -> RM ex m' s.
Proof.
  intros Hc Hr [H1 H2 H3 H4 H6 H7]. constructor; rewrite ?Hc, ?Hr; auto.
  intros r ck H. destruct (H6 r ck H) as [Ha Hb]. split; intros; eapply Acq_views; eauto.
Qed.

Lemma RM_fr ex m s s' : copen s' = copen s -> reqs s' = reqs s -> RM ex m s -> RM ex m s'.
Proof. intros Hc Hr [H1 H2 H3 H4 H6 H7]. constructor; rewrite ?Hc, ?Hr; auto. Qed.

Lemma RM_weaken ex m s : RM None m s -> RM ex m s.
Proof.
  intros [H1 H2 H3 H4 H6 H7]. constructor; auto.
  - intros r w c _. apply H4. discriminate.
  - intros r w q _. apply H7. discriminate.
Qed.

Lemma RM_restore r ex m s : RM (Some r) m s ->
  (forall w c, nth_error (rv m) r = Some w -> v_stat w = SHeld c ->
     exists t f p, nth_error (reqs s) r = Some (RHolding (c, t) f p)) ->
  (forall w, nth_error (rv m) r = Some w -> v_stat w <> SLive) ->
  RM ex m s.
Proof.
  intros [H1 H2 H3 H4 H6 H7] Hr Hnl. constructor; auto.
  - intros r' w c _ Hw Hs.
    destruct (Nat.eq_dec r' r) as [->|Hne]; [eapply Hr; eauto|]. eapply H4; eauto. congruence.
  - intros r' w q _ Hw Hs Hq. destruct (Nat.eq_dec r' r) as [->|Hne]; [exfalso; eapply Hnl; eauto|]. eapply H7; eauto. congruence.
Qed.

Lemma Acq_of_open ex m s r c : RM ex m s -> nth_error (copen s) c = Some true -> Acq m r c.
Proof.
  intros HR Ho. split.
  - rewrite (rm_len _ _ _ HR). eapply nth_error_lt; eauto.
  - intros v w cl Hv _ Hcl. rewrite (rm_open _ _ _ HR c v Ho Hv) in Hcl. discriminate.
Qed.

Lemma not_held_ck ex m s r ck w c : RM ex m s -> nth_error (reqs s) r = Some (RCheckout ck) -> Some r <> ex ->
  nth_error (rv m) r = Some w -> v_stat w = SHeld c -> False.
Proof. intros HR Hq Hne Hw Hs. destruct (rm_held _ _ _ HR r w c Hne Hw Hs) as (t & f & p & H). congruence. Qed.

(* tracker moves, model fixed *)
Definition irrel (e : ev) : Prop :=
  match e with EDial _ _ | EPend _ | ERel _ _ | EDrop _ | ERdy _ false => True | _ => False end.

Lemma RM_irrel ex m e s : irrel e -> RM ex m s -> RM ex (track_ev m e) s.
Proof.
  intros He. apply RM_views; [rewrite cv_track_ev|rewrite rv_track_ev]; destruct e; try contradiction; try reflexivity.
  destruct ok; [contradiction|reflexivity].
Qed.

Lemma RM_res ex m r x s : RM ex m s -> RM ex (track_ev m (ERes r x)) s.
Proof.
  intros HR. pose proof HR as [H1 H2 H3 H4 H6 H7].
  constructor; rewrite ?cv_track_ev, ?rv_track_ev; cbn [cv_ev rv_ev]; rewrite ?upd_nth_length; auto.
  - intros r' w c Hne Hw Hs. rewrite nth_error_upd_nth in Hw. destruct (Nat.eqb r r'); [|eauto].
    destruct (nth_error (rv m) r'); [|discriminate]. inversion Hw; subst. cbn in Hs. discriminate.
  - intros r' ck Hq. apply CkOK_track_ev. auto.
  - intros r' w q Hne Hw Hs. rewrite nth_error_upd_nth in Hw. destruct (Nat.eqb r r'); [|eauto].
    destruct (nth_error (rv m) r'); [|discriminate]. inversion Hw; subst. cbn in Hs. discriminate.
Qed.

Lemma res_not_live m r x w : nth_error (rv (track_ev m (ERes r x))) r = Some w -> v_stat w <> SLive.
Proof.
  rewrite rv_track_ev. cbn [rv_ev]. rewrite nth_error_upd_nth_eq. destruct (nth_error (rv m) r); [|discriminate].
  intros H Hs. inversion H; subst. cbn in Hs. discriminate.
Qed.

Lemma res_not_held m r x w c : nth_error (rv (track_ev m (ERes r x))) r = Some w -> v_stat w = SHeld c -> False.
Proof.
  rewrite rv_track_ev. cbn [rv_ev]. rewrite nth_error_upd_nth_eq. destruct (nth_error (rv m) r); [|discriminate].
  intros H Hs. inversion H; subst. cbn in Hs. discriminate.
Qed.

Lemma RM_rdy ex m c s : nth_error (copen s) c = Some true -> RM ex m s -> RM ex (track_ev m (ERdy c true)) s.
Proof.
  intros Ho HR. pose proof HR as [H1 H2 H3 H4 H6 H7].
  constructor; rewrite ?cv_track_ev, ?rv_track_ev; cbn [cv_ev rv_ev]; rewrite ?upd_nth_length; auto.
  - intros c' v Ho' Hv. rewrite nth_error_upd_nth in Hv. destruct (Nat.eqb c c'); [|eauto].
    destruct (nth_error (cv m) c') as [v0|] eqn:E; [|discriminate]. inversion Hv; subst. cbn. eauto.
  - intros r' ck Hq. apply CkOK_track_ev. auto.
Qed.

(* model moves, tracker fixed *)
Lemma RM_set_req ex m s r v :
  RM ex m s ->
  (forall w c, Some r <> ex -> nth_error (rv m) r = Some w -> v_stat w = SHeld c -> exists t f p, v = RHolding (c, t) f p) ->
  (forall ck, v = RCheckout ck -> CkOK m r ck) ->
  (forall w, Some r <> ex -> nth_error (rv m) r = Some w -> v_stat w = SLive -> live_req v) ->
  RM ex m (set_req r v s).
Proof.
  intros [H1 H2 H3 H4 H6 H7] Hh Hs Hl. constructor; auto.
  - unfold set_req. cbn [reqs set_reqs]. rewrite upd_nth_length. exact H2.
  - intros r' w c Hne Hw Hst. unfold set_req. cbn [reqs set_reqs]. rewrite nth_error_upd_nth.
    destruct (Nat.eqb_spec r r') as [<-|Hn]; [|eauto].
    destruct (H4 r w c Hne Hw Hst) as (t & f & p & Hq). rewrite Hq. cbn [option_map].
    destruct (Hh w c Hne Hw Hst) as (t' & f' & p' & ->). eauto.
  - intros r' ck. unfold set_req. cbn [reqs set_reqs]. rewrite nth_error_upd_nth.
    destruct (Nat.eqb_spec r r') as [<-|Hn]; [|eauto].
    destruct (nth_error (reqs s) r); [|discriminate]. cbn [option_map]. intros H. inversion H; subst. auto.
  - intros r' w q Hne Hw Hst. unfold set_req. cbn [reqs set_reqs]. rewrite nth_error_upd_nth.
    destruct (Nat.eqb_spec r r') as [<-|Hn]; [|eauto].
    destruct (nth_error (reqs s) r); [|discriminate]. cbn [option_map]. intros H. inversion H; subst. eauto.
Qed.

Lemma RM_close_model ex m s c : RM ex m s -> RM ex m (upd_conn c (c_set_open false) s).
Proof.
  intros [H1 H2 H3 H4 H6 H7]. constructor; auto.
  - unfold copen, upd_conn. cbn [conns set_conns]. rewrite map_length, upd_nth_length. rewrite H1. unfold copen. rewrite map_length. reflexivity.
  - intros c' v Ho. apply H3. unfold copen, upd_conn in Ho. cbn [conns set_conns] in Ho.
    rewrite nth_error_map', nth_error_upd_nth in Ho. unfold copen. rewrite nth_error_map'.
    destruct (Nat.eqb c c'); [|exact Ho]. destruct (nth_error (conns s) c'); cbn in *; [discriminate|exact Ho].
Qed.

Lemma copen_closed s c : nth_error (copen (upd_conn c (c_set_open false) s)) c <> Some true.
Proof.
  unfold copen, upd_conn. cbn [conns set_conns]. rewrite nth_error_map', nth_error_upd_nth_eq.
  destruct (nth_error (conns s) c); cbn; discriminate.
Qed.

Section C05.
Variable cfg : config.

(* tracker-only invariant *)
Record TI (m : mst) : Prop := mkTI {
  ti_at : forall r w, nth_error (rv m) r = Some w -> v_at w <= m_i m;
  ti_back : forall c v, nth_error (cv m) c = Some v -> v_back v <= m_i m;
  ti_pop : forall r w c v d, nth_error (rv m) r = Some w -> v_popc w = Some c -> nth_error (cv m) c = Some v ->
      g_timeout cfg = Some d -> (0 < d)%N -> v_back v < v_at w -> (v_time w - v_btime v <= d)%N
}.

Lemma TI_views m m' : cv m' = cv m -> rv m' = rv m -> m_i m' = m_i m -> TI m -> TI m'.
Proof. intros Hc Hr Hi [H1 H2 H3]. constructor; rewrite ?Hc, ?Hr, ?Hi; auto. Qed.

Lemma TI_track_ev m e : TI m -> TI (track_ev m e).
Proof.
  intros [H1 H2 H3]. constructor; rewrite ?cv_track_ev, ?rv_track_ev, ?mi_track_ev.
  - intros r w Hw. apply rv_ev_inv in Hw as (w0 & Hw0 & Hat & _). rewrite Hat. eauto.
  - intros c v Hv. apply cv_ev_inv in Hv as [(v0 & Hv0 & _ & [[Hb _]|[Hb _]])|[_ ->]];
      [rewrite Hb; eauto | lia | cbn; lia].
  - intros r w c v d Hw Hp Hv Hd Hpos Hlt.
    apply rv_ev_inv in Hw as (w0 & Hw0 & Hat & Htm & Hpc).
    pose proof (H1 r w0 Hw0) as Hle.
    apply cv_ev_inv in Hv as [(v0 & Hv0 & _ & [[Hb Hbt]|[Hb _]])|[_ ->]].
    + rewrite Htm, Hbt. eapply H3; eauto; try congruence; lia.
    + lia.
    + cbn in Hlt. lia.
Qed.

(* the part of the first clause of chk_ev_C05 that is proved here (with the existence of both tracker
   records): the connection was not closed before the request was issued; and, for the hand-back half
   (done in pool/ProofsC05.v), a closed connection's ci_back has not moved during this op ([m0]: the
   tracker after track_op) *)
Definition chk1 (m0 m : mst) (e : ev) : bool :=
  match e with
  | EHand r c _ _ _ _ =>
      match nth_error (m_conns m) c, nth_error (m_reqs m) r with
      | Some x, Some y =>
          match ci_closed x with
          | Some cl => negb (Nat.ltb cl (ri_at y))
                       && match nth_error (m_conns m0) c with Some x0 => Nat.eqb (ci_back x) (ci_back x0) | None => false end
          | None => true
          end
      | _, _ => false
      end
  | _ => true
  end.

(* within an op: the connections known at its start keep their ci_closed, and the closed ones their ci_back *)
Definition BK (m0 m : mst) : Prop :=
  List.length (cv m0) <= List.length (cv m) /\
  (forall c v0 v, nth_error (cv m0) c = Some v0 -> nth_error (cv m) c = Some v ->
    v_closed v = v_closed v0 /\ (v_closed v0 <> None -> v_back v = v_back v0)) /\
  (forall c v, nth_error (cv m0) c = None -> nth_error (cv m) c = Some v -> v_closed v = None).

Lemma BK_refl m : BK m m.
Proof. split; [lia|]. split; [intros c v0 v H0 H; rewrite H0 in H; inversion H; subst; auto|intros c v H0 H; congruence]. Qed.

Lemma BK_track_ev m0 m e : BK m0 m ->
  (forall c, e = ERdy c true -> forall v, nth_error (cv m) c = Some v -> v_closed v = None) -> BK m0 (track_ev m e).
Proof.
  intros (HL & HB & HN) He. split; [rewrite cv_track_ev; pose proof (cv_ev_length m e (cv m)); lia|]. split.
  - intros c v0 v H0 H. rewrite cv_track_ev in H.
    assert (Hlt : c < List.length (cv m)) by (pose proof (nth_error_lt _ _ _ H0); lia).
    destruct e; cbn [cv_ev] in H; try (apply (HB c v0 v H0 H)).
    + rewrite nth_error_app1 in H by exact Hlt. apply (HB c v0 v H0 H).
    + destruct ok; [|apply (HB c v0 v H0 H)]. rewrite nth_error_upd_nth in H. destruct (Nat.eqb_spec c0 c) as [->|Hn]; [|apply (HB c v0 v H0 H)].
      destruct (nth_error (cv m) c) as [v1|] eqn:E1; [|discriminate]. inversion H; subst. cbn [v_closed v_back].
      destruct (HB c v0 v1 H0 E1) as [A B]. split; [exact A|]. intros Hn. exfalso. apply Hn. rewrite <- A. apply (He c eq_refl v1 E1).
  - intros c v H0 H. rewrite cv_track_ev in H. apply cv_ev_inv in H as [(v1 & H1 & Hc & _)|[_ ->]]; [|reflexivity].
    rewrite Hc. eapply HN; eauto.
Qed.

Definition TB (m0 m : mst) : Prop := TI m /\ BK m0 m.

Lemma chk_hand m0 m r c b1 b2 b3 n v w :
  nth_error (cv m) c = Some v -> nth_error (rv m) r = Some w -> BK m0 m ->
  (forall cl, v_closed v = Some cl -> v_at w <= cl) ->
  chk1 m0 m (EHand r c b1 b2 b3 n) = true.
Proof.
  intros Hv Hw (_ & HB & HN) Hcl. cbn [chk1].
  assert (HB' : forall x0, nth_error (m_conns m0) c = Some x0 -> v_closed v <> None -> v_back v = ci_back x0).
  { intros x0 E0 Hn. assert (E : nth_error (cv m0) c = Some (cv_of x0)) by (unfold cv; rewrite nth_error_map', E0; reflexivity).
    destruct (HB c _ v E Hv) as [A B]. rewrite B; [reflexivity|]. rewrite <- A. exact Hn. }
  assert (HN' : nth_error (m_conns m0) c = None -> v_closed v = None).
  { intros E0. apply (HN c v); [unfold cv; rewrite nth_error_map', E0; reflexivity|exact Hv]. }
  unfold cv in Hv. unfold rv in Hw. rewrite nth_error_map' in Hv. rewrite nth_error_map' in Hw.
  destruct (nth_error (m_conns m) c) as [x|]; [|discriminate]. destruct (nth_error (m_reqs m) r) as [y|]; [|discriminate].
  cbn [option_map] in Hv, Hw. inversion Hv; inversion Hw; subst.
  cbn [cv_of rv_of v_closed v_back v_at v_time v_btime v_popc] in *.
  destruct (ci_closed x) as [cl|]; [|reflexivity]. apply andb_true_iff. split.
  - pose proof (Hcl cl eq_refl). apply negb_true_iff, Nat.ltb_ge. lia.
  - destruct (nth_error (m_conns m0) c) as [x0|] eqn:E0; [apply Nat.eqb_eq; apply HB'; [reflexivity|discriminate]|].
    exfalso. specialize (HN' eq_refl). congruence.
Qed.

Lemma evs_ok_snoc f : forall l m e, evs_ok f m (l ++ [e]) = evs_ok f m l && f (fold_left track_ev l m) e.
Proof.
  induction l as [|a l IH]; intros m e; cbn [app evs_ok fold_left].
  - rewrite andb_true_r. reflexivity.
  - rewrite IH, andb_assoc. reflexivity.
Qed.

Lemma cur_emit m0 e s : cur m0 (emit e s) = track_ev (cur m0 s) e.
Proof. unfold cur, emit. cbn [out set_out rev]. rewrite fold_left_app. reflexivity. Qed.

(* the events so far are accepted and the invariants hold for the tracker state after them *)
Definition G (ex : option nat) (m0 : mst) (s : state) : Prop :=
  evs_ok (chk1 m0) m0 (rev (out s)) = true /\ TB m0 (cur m0 s) /\ RM ex (cur m0 s) s.

Definition fr (s s' : state) : Prop := out s' = out s /\ copen s' = copen s /\ reqs s' = reqs s.
Lemma fr_refl s : fr s s. Proof. repeat split. Qed.
Lemma fr_trans s1 s2 s3 : fr s1 s2 -> fr s2 s3 -> fr s1 s3.
Proof. intros (A & B & C) (A' & B' & C'). repeat split; congruence. Qed.

Lemma G_fr ex m0 s s' : fr s s' -> G ex m0 s -> G ex m0 s'.
Proof.
  intros (Ho & Hc & Hr) (H1 & H2 & H3). unfold G, cur in *. rewrite Ho. split; [|split]; auto. eapply RM_fr; eauto.
Qed.

Lemma G_emit ex m0 e s : G ex m0 s -> chk1 m0 (cur m0 s) e = true -> RM ex (track_ev (cur m0 s) e) s ->
  (forall c, e = ERdy c true -> forall v, nth_error (cv (cur m0 s)) c = Some v -> v_closed v = None) -> G ex m0 (emit e s).
Proof.
  intros (H1 & [H2 H2'] & H3) Hc HR Hb. unfold G. rewrite cur_emit. split; [|split].
  - unfold emit. cbn [out set_out rev]. rewrite evs_ok_snoc, H1. exact Hc.
  - split; [apply TI_track_ev, H2|apply BK_track_ev; assumption].
  - eapply RM_fr; [| |exact HR]; reflexivity.
Qed.

Lemma G_emit_irrel ex m0 e s : irrel e -> G ex m0 s -> G ex m0 (emit e s).
Proof.
  intros He HG. apply G_emit; auto.
  - destruct e; try contradiction; reflexivity.
  - apply RM_irrel; auto. apply HG.
  - intros c E. subst e. contradiction.
Qed.

Lemma G_emit_res ex m0 r x s : G ex m0 s -> G ex m0 (emit (ERes r x) s).
Proof. intros HG. apply G_emit; auto; [apply RM_res, HG|discriminate]. Qed.

Lemma G_emit_rdy ex m0 c s : nth_error (copen s) c = Some true -> G ex m0 s -> G ex m0 (emit (ERdy c true) s).
Proof.
  intros Ho HG. apply G_emit; auto; [apply RM_rdy; auto; apply HG|].
  intros c' E v Hv. inversion E; subst c'. destruct HG as (_ & _ & HR). eapply rm_open; eauto.
Qed.

Lemma G_set_req ex m0 s r v : G ex m0 s ->
  (forall w c, Some r <> ex -> nth_error (rv (cur m0 s)) r = Some w -> v_stat w = SHeld c -> exists t f p, v = RHolding (c, t) f p) ->
  (forall ck, v = RCheckout ck -> CkOK (cur m0 s) r ck) ->
  (forall w, Some r <> ex -> nth_error (rv (cur m0 s)) r = Some w -> v_stat w = SLive -> live_req v) ->
  G ex m0 (set_req r v s).
Proof.
  intros (H1 & H2 & H3) Hh Hs Hl. split; [|split]; [exact H1|exact H2|]. apply (RM_set_req ex (cur m0 s) s r v); auto.
Qed.

Lemma G_set_req_ck ex m0 s r ck0 ck : G ex m0 s -> get_req s r = Some (RCheckout ck0) -> CkOK (cur m0 s) r ck ->
  G ex m0 (set_req r (RCheckout ck) s).
Proof.
  intros HG Hq Hck. apply G_set_req; auto.
  - intros w c Hne Hw Hs. exfalso. destruct HG as (_ & _ & HR). eapply not_held_ck; eauto.
  - intros ck' H. inversion H; subst. exact Hck.
  - intros; exact I.
Qed.

Lemma G_set_req_x r m0 s v : G (Some r) m0 s -> (forall ck, v <> RCheckout ck) -> G (Some r) m0 (set_req r v s).
Proof.
  intros HG Hv. apply G_set_req; auto.
  - intros w c Hne. contradiction Hne. reflexivity.
  - intros ck H. exfalso. eapply Hv; eauto.
  - intros w Hne. contradiction Hne. reflexivity.
Qed.

Lemma G_weaken ex m0 s : G None m0 s -> G ex m0 s.
Proof. intros (H1 & H2 & H3). split; [|split]; auto. apply RM_weaken, H3. Qed.

Lemma G_restore r ex m0 s : G (Some r) m0 s ->
  (forall w c, nth_error (rv (cur m0 s)) r = Some w -> v_stat w = SHeld c ->
     exists t f p, nth_error (reqs s) r = Some (RHolding (c, t) f p)) ->
  (forall w, nth_error (rv (cur m0 s)) r = Some w -> v_stat w <> SLive) ->
  G ex m0 s.
Proof. intros (H1 & H2 & H3) Hr Hnl. split; [|split]; auto. eapply RM_restore; eauto. Qed.

(* ------------------------------------------------------------------ frames *)
Lemma fr_upd_conn c f s : (forall cn, c_open (f cn) = c_open cn) -> fr s (upd_conn c f s).
Proof. intros H. repeat split. unfold copen, upd_conn. cbn [conns set_conns]. apply map_upd_nth_id. exact H. Qed.
Lemma fr_upd_dial r f s : fr s (upd_dial r f s). Proof. repeat split. Qed.
Lemma fr_upd_tok t f s : fr s (upd_tok t f s). Proof. destruct t; repeat split. Qed.
Lemma fr_wake_req r s : fr s (wake_req r s). Proof. repeat split. Qed.
Lemma fr_unwake_req r s : fr s (unwake_req r s). Proof. repeat split. Qed.
Lemma fr_spawn t s : fr s (spawn t s). Proof. repeat split. Qed.
Lemma fr_finish_task t s : fr s (finish_task t s). Proof. repeat split. Qed.
Lemma fr_wake_task t s : fr s (wake_task t s). Proof. unfold wake_task. destruct (existsb _ _); repeat split. Qed.
Lemma fr_wake_tasks l : forall s, fr s (wake_tasks l s).
Proof. induction l as [|t l IH]; intros s; cbn [wake_tasks]; [apply fr_refl|]. eapply fr_trans; [apply fr_wake_task|apply IH]. Qed.
Lemma fr_wake_poller p r s : fr s (wake_poller p r s).
Proof. destruct p as [[|tid]|]; cbn [wake_poller]; [apply fr_wake_req|apply fr_wake_task|apply fr_refl]. Qed.
Lemma fr_clone_conn c s : fr s (clone_conn c s).
Proof. apply fr_upd_conn. reflexivity. Qed.
Lemma fr_drain_conn_waiters c s : fr s (drain_conn_waiters c s).
Proof.
  unfold drain_conn_waiters. destruct (get_conn s c); [|apply fr_refl].
  eapply fr_trans; [apply (fr_upd_conn c (c_set_waiters [])); reflexivity|apply fr_wake_tasks].
Qed.
Lemma fr_key_insert k s : fr s (snd (key_insert k s)).
Proof. unfold key_insert. destruct (find_key k (keys s) 1); repeat split. Qed.

Definition out_ext (s s' : state) : Prop := exists l, out s' = l ++ out s.
Lemma out_ext_refl s : out_ext s s. Proof. exists []. reflexivity. Qed.
Lemma out_ext_trans s1 s2 s3 : out_ext s1 s2 -> out_ext s2 s3 -> out_ext s1 s3.
Proof. intros [l1 H1] [l2 H2]. exists (l2 ++ l1). rewrite H2, H1, app_assoc. reflexivity. Qed.

Lemma Acq_mono m0 s s' r c : out_ext s s' -> Acq (cur m0 s) r c -> Acq (cur m0 s') r c.
Proof. intros [l Hl] H. unfold cur. rewrite Hl, rev_app_distr, fold_left_app. apply Acq_fold. exact H. Qed.
Lemma CkOK_mono m0 s s' r ck : out_ext s s' -> CkOK (cur m0 s) r ck -> CkOK (cur m0 s') r ck.
Proof. intros He [H1 H2]. split; intros; eapply Acq_mono; eauto. Qed.

Definition ckreq (s : state) (r : nat) : Prop := exists ck, get_req s r = Some (RCheckout ck).
(* emitting frames: [fe] leaves the requests alone, [fk] keeps checkouts checkouts *)
Definition fe (s s' : state) : Prop := out_ext s s' /\ reqs s' = reqs s.
Definition fk (s s' : state) : Prop := out_ext s s' /\ forall r, ckreq s r -> ckreq s' r.
Lemma fe_refl s : fe s s. Proof. split; [apply out_ext_refl|reflexivity]. Qed.
Lemma fe_trans s1 s2 s3 : fe s1 s2 -> fe s2 s3 -> fe s1 s3.
Proof. intros [A B] [A' B']. split; [eapply out_ext_trans; eauto|congruence]. Qed.
Lemma fk_refl s : fk s s. Proof. split; [apply out_ext_refl|auto]. Qed.
Lemma fk_trans s1 s2 s3 : fk s1 s2 -> fk s2 s3 -> fk s1 s3.
Proof. intros [A B] [A' B']. split; [eapply out_ext_trans; eauto|auto]. Qed.
Lemma fe_of_fr s s' : fr s s' -> fe s s'.
Proof. intros (A & _ & C). split; [exists []; exact A|exact C]. Qed.
Lemma fk_of_fe s s' : fe s s' -> fk s s'.
Proof. intros [A B]. split; [exact A|]. intros r [ck H]. exists ck. unfold get_req in *. rewrite B. exact H. Qed.
Lemma fe_emit e s : fe s (emit e s).
Proof. split; [exists [e]; reflexivity|reflexivity]. Qed.

Lemma fe_drop_conn c s : fe s (drop_conn c s).
Proof.
  unfold drop_conn. destruct (get_conn s c) as [cn|]; [|apply fe_refl].
  destruct (Nat.eqb _ _).
  - eapply fe_trans; [apply fe_of_fr, (fr_upd_conn c (c_set_refs (pred (c_refs cn)))); reflexivity|apply fe_emit].
  - apply fe_of_fr, (fr_upd_conn c (c_set_refs (pred (c_refs cn)))). reflexivity.
Qed.
Lemma fe_drop_all l : forall s, fe s (drop_all l s).
Proof. induction l as [|[c a] l IH]; intros s; cbn [drop_all]; [apply fe_refl|]. eapply fe_trans; [apply fe_drop_conn|apply IH]. Qed.
Lemma fe_pooled_drop p s : fe s (pooled_drop p s).
Proof. destruct p as [c t]. unfold pooled_drop. destruct (share_of s c); [apply fe_drop_conn|apply fe_of_fr, fr_spawn]. Qed.
Lemma fe_rx_drop ck s : fe s (snd (rx_drop ck s)).
Proof. unfold rx_drop. destruct (k_waiter ck), (k_slot ck); cbn [snd]; try apply fe_refl; apply fe_pooled_drop. Qed.
Lemma fe_pop_loop thr rl : forall s, fe s (snd (pop_loop thr rl s)).
Proof.
  induction rl as [|[c a] rl IH]; intros s; cbn [pop_loop]; [apply fe_refl|].
  destruct (match thr with Some y => (a <? y)%N | None => false end); cbn [snd].
  - eapply fe_trans; [apply fe_drop_conn|apply fe_drop_all].
  - destruct (is_open s c); cbn [snd]; [apply fe_refl|]. eapply fe_trans; [apply fe_drop_conn|apply IH].
Qed.
Lemma fe_pool_pop to t s : fe s (snd (pool_pop to t s)).
Proof.
  unfold pool_pop. pose proof (fe_pop_loop (expiry_threshold to (now s)) (rev (p_idle (get_tok s t))) s) as H.
  destruct (pop_loop _ _ s) as [[r rest] s1]. cbn [snd] in *. eapply fe_trans; [exact H|apply fe_of_fr, fr_upd_tok].
Qed.
Lemma fe_connector_poll rid b s : fe s (snd (connector_poll rid b s)).
Proof.
  unfold connector_poll. destruct (get_dial s rid) as [d|]; [|apply fe_refl].
  destruct (d_stage d) as [| |[alpn| |]|]; cbn [snd]; try apply fe_refl.
  - eapply fe_trans; [apply fe_emit|apply fe_of_fr, fr_upd_dial].
  - apply fe_of_fr, fr_upd_dial.
  - split; [exists [ENew (List.length (conns s)) match d_proto d with H1 => alpn | H2 => true end rid]; reflexivity|reflexivity].
  - apply fe_of_fr, fr_upd_dial.
  - apply fe_of_fr, fr_upd_dial.
Qed.

Lemma ckreq_set_req s w ck r : ckreq s r -> ckreq (set_req w (RCheckout ck) s) r.
Proof.
  intros [ck0 H]. unfold ckreq, get_req, set_req in *. cbn [reqs set_reqs]. rewrite nth_error_upd_nth.
  destruct (Nat.eqb w r); [rewrite H; cbn; eauto|eauto].
Qed.
Lemma fk_set_req_ck s w ck : fk s (set_req w (RCheckout ck) s).
Proof. split; [exists []; reflexivity|]. intros r. apply ckreq_set_req. Qed.
Lemma fk_deliver w p s : fk s (deliver w p s).
Proof.
  unfold deliver. destruct (get_req s w) as [[|ck| | |]|]; try apply fk_refl.
  destruct (k_rxpolled ck); [|apply fk_set_req_ck].
  eapply fk_trans; [apply fk_set_req_ck|apply fk_of_fe, fe_of_fr, fr_wake_req].
Qed.
Lemma fk_walk_waiters t c sh ws : forall s, fk s (snd (walk_waiters t c sh ws s)).
Proof.
  induction ws as [|[w b] ws IH]; intros s; cbn [walk_waiters]; [apply fk_refl|].
  destruct (rx_live s w); [destruct sh|]; cbn [snd].
  - eapply fk_trans; [|apply IH]. eapply fk_trans; [apply fk_of_fe, fe_of_fr, fr_clone_conn|apply fk_deliver].
  - apply fk_deliver.
  - apply IH.
Qed.
Lemma fk_pool_push n t c s : fk s (pool_push n t c s).
Proof.
  unfold pool_push.
  set (s1 := if share_of s c then upd_tok t (set_marker None) s else s).
  assert (H1 : fk s s1) by (subst s1; destruct (share_of s c); [apply fk_of_fe, fe_of_fr, fr_upd_tok|apply fk_refl]).
  pose proof (fk_walk_waiters t c (share_of s1 c) (p_waiting (get_tok s1 t)) s1) as H2.
  destruct (walk_waiters t c (share_of s1 c) (p_waiting (get_tok s1 t)) s1) as [[rest moved] s2]. cbn [snd] in H2.
  assert (H3 : fk s (upd_tok t (set_waiting rest) s2)).
  { eapply fk_trans; [exact H1|]. eapply fk_trans; [exact H2|]. apply fk_of_fe, fe_of_fr, fr_upd_tok. }
  destruct moved; [exact H3|].
  destruct (Nat.ltb _ _); (eapply fk_trans; [exact H3|]); [apply fk_of_fe, fe_of_fr, fr_upd_tok|apply fk_of_fe, fe_drop_conn].
Qed.
Lemma fk_register t c s : fk s (snd (register cfg t c s)).
Proof.
  unfold register. destruct (g_pool cfg && negb (Nat.eqb t 0)); [|apply fk_refl].
  destruct (share_of s c); cbn [snd]; [|apply fk_refl]. destruct (is_open s c); [|apply fk_refl].
  eapply fk_trans; [apply fk_of_fe, fe_of_fr, fr_clone_conn|apply fk_pool_push].
Qed.

(* ------------------------------------------------------------------ the primitives preserve G *)
Lemma is_open_copen s c : is_open s c = true -> nth_error (copen s) c = Some true.
Proof.
  unfold is_open, get_conn, copen. rewrite nth_error_map'. destruct (nth_error (conns s) c) as [cn|]; [|discriminate].
  cbn [option_map]. destruct (c_share cn); [intros ->; reflexivity|]. intros H. apply andb_true_iff in H as [-> _]. reflexivity.
Qed.

Lemma copen_fr s s' : fr s s' -> copen s' = copen s. Proof. intros (_ & H & _). exact H. Qed.

Lemma G_Acq_open ex m0 s r c : G ex m0 s -> nth_error (copen s) c = Some true -> Acq (cur m0 s) r c.
Proof. intros (_ & _ & HR) Ho. eapply Acq_of_open; eauto. Qed.

Lemma G_drop_conn ex m0 c s : G ex m0 s -> G ex m0 (drop_conn c s).
Proof.
  intros H. unfold drop_conn. destruct (get_conn s c) as [cn|]; [|exact H].
  assert (H1 : G ex m0 (upd_conn c (c_set_refs (pred (c_refs cn))) s))
    by (eapply G_fr; [apply (fr_upd_conn c (c_set_refs (pred (c_refs cn)))); reflexivity|exact H]).
  destruct (Nat.eqb _ _); [apply G_emit_irrel; [exact I|exact H1]|exact H1].
Qed.

Lemma G_drop_all ex m0 l : forall s, G ex m0 s -> G ex m0 (drop_all l s).
Proof. induction l as [|[c a] l IH]; intros s H; cbn [drop_all]; [exact H|]. apply IH, G_drop_conn, H. Qed.

Lemma G_pooled_drop ex m0 p s : G ex m0 s -> G ex m0 (pooled_drop p s).
Proof.
  intros H. destruct p as [c t]. unfold pooled_drop. destruct (share_of s c); [apply G_drop_conn, H|].
  eapply G_fr; [apply fr_spawn|exact H].
Qed.

Lemma G_rx_drop ex m0 ck s : G ex m0 s -> G ex m0 (snd (rx_drop ck s)).
Proof. intros H. unfold rx_drop. destruct (k_waiter ck), (k_slot ck); cbn [snd]; try exact H; apply G_pooled_drop, H. Qed.

Lemma copen_deliver w p s : copen (deliver w p s) = copen s.
Proof. unfold deliver. destruct (get_req s w) as [[|ck| | |]|]; try reflexivity. destruct (k_rxpolled ck); reflexivity. Qed.

Lemma G_deliver ex m0 w p s : G ex m0 s -> Acq (cur m0 s) w (fst p) -> G ex m0 (deliver w p s).
Proof.
  intros H HA. unfold deliver. destruct (get_req s w) as [[|ck| | |]|] eqn:Hq; try exact H.
  assert (H1 : G ex m0 (set_req w (RCheckout (k_set_slot (Some p) ck)) s)).
  { eapply G_set_req_ck; eauto. destruct H as (_ & _ & HR). destruct (rm_store _ _ _ HR w ck Hq) as [Ha Hb].
    split; cbn [k_set_slot k_conn k_slot]; [exact Ha|]. intros c t E. inversion E; subst. exact HA. }
  destruct (k_rxpolled ck); [eapply G_fr; [apply fr_wake_req|exact H1]|exact H1].
Qed.

Lemma G_walk_waiters ex m0 t c sh ws : forall s, G ex m0 s -> nth_error (copen s) c = Some true ->
  G ex m0 (snd (walk_waiters t c sh ws s)).
Proof.
  induction ws as [|[w b] ws IH]; intros s H Ho; cbn [walk_waiters]; [exact H|].
  assert (Hc : G ex m0 (clone_conn c s)) by (eapply G_fr; [apply fr_clone_conn|exact H]).
  assert (Hoc : nth_error (copen (clone_conn c s)) c = Some true) by (rewrite (copen_fr _ _ (fr_clone_conn c s)); exact Ho).
  destruct (rx_live s w); [destruct sh|]; cbn [snd].
  - apply IH.
    + apply G_deliver; [exact Hc|]. cbn [fst]. eapply G_Acq_open; eauto.
    + rewrite copen_deliver. exact Hoc.
  - apply G_deliver; [exact H|]. cbn [fst]. eapply G_Acq_open; eauto.
  - apply IH; assumption.
Qed.

Lemma G_pool_push ex m0 n t c s : G ex m0 s -> nth_error (copen s) c = Some true -> G ex m0 (pool_push n t c s).
Proof.
  intros H Ho. unfold pool_push.
  set (s1 := if share_of s c then upd_tok t (set_marker None) s else s).
  assert (F1 : fr s s1) by (subst s1; destruct (share_of s c); [apply fr_upd_tok|apply fr_refl]).
  assert (H1 : G ex m0 s1) by (eapply G_fr; eauto).
  assert (Ho1 : nth_error (copen s1) c = Some true) by (rewrite (copen_fr _ _ F1); exact Ho).
  pose proof (G_walk_waiters ex m0 t c (share_of s1 c) (p_waiting (get_tok s1 t)) s1 H1 Ho1) as H2.
  destruct (walk_waiters t c (share_of s1 c) (p_waiting (get_tok s1 t)) s1) as [[rest moved] s2]. cbn [snd] in H2.
  assert (H3 : G ex m0 (upd_tok t (set_waiting rest) s2)) by (eapply G_fr; [apply fr_upd_tok|exact H2]).
  destruct moved; [exact H3|].
  destruct (Nat.ltb _ _); [eapply G_fr; [apply fr_upd_tok|exact H3]|apply G_drop_conn, H3].
Qed.

Lemma G_drop_sender ex m0 w s : G ex m0 s -> G ex m0 (drop_sender w s).
Proof.
  intros H. unfold drop_sender. destruct (get_req s w) as [[|ck| | |]|] eqn:Hq; try exact H.
  assert (H1 : G ex m0 (set_req w (RCheckout (k_set_txdropped true ck)) s)).
  { eapply G_set_req_ck; eauto. destruct H as (_ & _ & HR). exact (rm_store _ _ _ HR w ck Hq). }
  destruct (k_waiter ck); try exact H;
    (destruct (k_rxpolled ck); [eapply G_fr; [apply fr_wake_req|exact H1]|exact H1]).
Qed.

Lemma G_release_pending ex m0 ws : forall s, G ex m0 s -> G ex m0 (snd (release_pending ws s)).
Proof.
  induction ws as [|[w b] ws IH]; intros s H; cbn [release_pending]; [exact H|].
  destruct b.
  - apply IH, G_drop_sender, H.
  - specialize (IH s H). destruct (release_pending ws s). exact IH.
Qed.

Lemma G_pool_cancel ex m0 t rid s : G ex m0 s -> G ex m0 (pool_cancel t rid s).
Proof.
  intros H. unfold pool_cancel. destruct (p_marker (get_tok s t)) as [o|]; [|exact H].
  destruct (Nat.eqb o rid); [|exact H].
  set (s1 := upd_tok t (set_marker None) s).
  assert (H1 : G ex m0 s1) by (eapply G_fr; [apply fr_upd_tok|exact H]).
  pose proof (G_release_pending ex m0 (p_waiting (get_tok s1 t)) s1 H1) as H2.
  destruct (release_pending (p_waiting (get_tok s1 t)) s1) as [rest s2]. cbn [snd] in H2.
  eapply G_fr; [apply fr_upd_tok|exact H2].
Qed.

Lemma G_pop_loop ex m0 thr rl : forall s, G ex m0 s ->
  G ex m0 (snd (pop_loop thr rl s)) /\
  forall c, fst (fst (pop_loop thr rl s)) = Some c -> nth_error (copen (snd (pop_loop thr rl s))) c = Some true.
Proof.
  induction rl as [|[c a] rl IH]; intros s H; cbn [pop_loop]; [split; [exact H|discriminate]|].
  destruct (match thr with Some y => (a <? y)%N | None => false end); cbn [fst snd].
  - split; [apply G_drop_all, G_drop_conn, H|discriminate].
  - destruct (is_open s c) eqn:Ho; cbn [fst snd].
    + split; [exact H|]. intros c' E. inversion E; subst. apply is_open_copen, Ho.
    + apply IH, G_drop_conn, H.
Qed.

Lemma G_pool_pop ex m0 to t s : G ex m0 s ->
  G ex m0 (snd (pool_pop to t s)) /\
  forall c, fst (pool_pop to t s) = Some c -> nth_error (copen (snd (pool_pop to t s))) c = Some true.
Proof.
  intros H. unfold pool_pop.
  destruct (G_pop_loop ex m0 (expiry_threshold to (now s)) (rev (p_idle (get_tok s t))) s H) as [H1 H2].
  destruct (pop_loop (expiry_threshold to (now s)) (rev (p_idle (get_tok s t))) s) as [[r rest] s1]. cbn [fst snd] in *.
  split; [eapply G_fr; [apply fr_upd_tok|exact H1]|].
  intros c E. rewrite (copen_fr _ _ (fr_upd_tok t (set_idle (rev rest)) s1)). auto.
Qed.

Lemma G_register ex m0 t c s : G ex m0 s -> G ex m0 (snd (register cfg t c s)).
Proof.
  intros H. unfold register. destruct (g_pool cfg && negb (Nat.eqb t 0)); [|exact H].
  destruct (share_of s c); cbn [snd]; [|exact H]. destruct (is_open s c) eqn:Ho; [|exact H].
  apply G_pool_push; [eapply G_fr; [apply fr_clone_conn|exact H]|].
  rewrite (copen_fr _ _ (fr_clone_conn c s)). apply is_open_copen, Ho.
Qed.

Lemma register_fst t c s : fst (fst (register cfg t c s)) = c.
Proof. unfold register. destruct (g_pool cfg && negb (Nat.eqb t 0)); [destruct (share_of s c)|]; reflexivity. Qed.

Lemma RM_new ex m s sh rid cn :
  RM ex m s -> RM ex (track_ev m (ENew (List.length (conns s)) sh rid)) (set_conns (conns s ++ [cn]) s).
Proof.
  intros HR. pose proof HR as [H1 H2 H3 H4 H6 H7].
  assert (Hco : copen (set_conns (conns s ++ [cn]) s) = copen s ++ [c_open cn])
    by (unfold copen; cbn [conns set_conns]; rewrite map_app; reflexivity).
  constructor; rewrite ?cv_track_ev, ?rv_track_ev, ?Hco; cbn [cv_ev rv_ev]; auto.
  - rewrite !app_length, H1. reflexivity.
  - intros c v Ho Hv. rewrite nth_error_snoc in Hv. rewrite nth_error_snoc in Ho. rewrite <- H1 in Ho.
    destruct (Nat.ltb c (List.length (cv m))); [eauto|].
    destruct (Nat.eqb c (List.length (cv m))); [|discriminate]. inversion Hv; reflexivity.
  - intros r ck Hq. apply CkOK_track_ev. auto.
Qed.

Lemma G_new_conn ex m0 s sh rid cn :
  G ex m0 s -> G ex m0 (emit (ENew (List.length (conns s)) sh rid) (set_conns (conns s ++ [cn]) s)).
Proof.
  intros (H1 & H2 & H3). unfold G. rewrite cur_emit. split; [|split].
  - unfold emit. cbn [out set_out set_conns rev]. rewrite evs_ok_snoc, H1. reflexivity.
  - destruct H2 as [H2 H2']. split; [apply TI_track_ev, H2|apply BK_track_ev; [exact H2'|discriminate]].
  - eapply RM_fr; [| |apply (RM_new ex (cur m0 s) s sh rid cn H3)]; reflexivity.
Qed.

Lemma G_connector_poll ex m0 rid b s : G ex m0 s ->
  G ex m0 (snd (connector_poll rid b s)) /\
  forall c, fst (connector_poll rid b s) = CReady (inl c) -> nth_error (copen (snd (connector_poll rid b s))) c = Some true.
Proof.
  intros H. unfold connector_poll. destruct (get_dial s rid) as [d|]; [|split; [exact H|discriminate]].
  destruct (d_stage d) as [| |[alpn| |]|]; cbn [fst snd]; try (split; [exact H|discriminate]).
  - split; [|discriminate]. eapply G_fr; [apply fr_upd_dial|]. apply G_emit_irrel; [exact I|exact H].
  - split; [|discriminate]. eapply G_fr; [apply fr_upd_dial|exact H].
  - split.
    + eapply G_fr; [apply fr_upd_dial|]. apply G_new_conn, H.
    + intros c E. inversion E; subst. unfold copen. cbn [upd_dial set_dials emit set_out set_conns conns].
      rewrite map_app, nth_error_app2 by (rewrite map_length; lia). rewrite map_length, Nat.sub_diag. reflexivity.
  - split; [|discriminate]. eapply G_fr; [apply fr_upd_dial|exact H].
  - split; [|discriminate]. eapply G_fr; [apply fr_upd_dial|exact H].
Qed.

Lemma waiter_poll_ok m r ck : CkOK m r ck ->
  CkOK m r (snd (waiter_poll ck)) /\ forall p, fst (waiter_poll ck) = WConnected p -> Acq m r (fst p).
Proof.
  intros [Ha Hb]. unfold waiter_poll.
  destruct (k_waiter ck); [destruct (k_slot ck) as [[c t]|] eqn:Es|destruct (k_slot ck) as [[c t]|] eqn:Es|];
    try destruct (k_txdropped ck); cbn [fst snd]; (split; [|try discriminate]);
    try (split; cbn [k_set_waiter k_set_slot k_set_rxpolled k_conn k_slot]; try rewrite Es; eauto; discriminate).
  all: intros p E; inversion E; subst; cbn [fst]; eauto.
Qed.

Lemma rx_drop_ck m r ck s : CkOK m r ck -> CkOK m r (fst (rx_drop ck s)).
Proof.
  intros [Ha Hb]. unfold rx_drop. destruct (k_waiter ck), (k_slot ck) as [p|] eqn:Es; cbn [fst];
    split; cbn [k_set_waiter k_set_slot k_conn k_slot]; try rewrite Es; eauto; discriminate.
Qed.

(* postcondition of Checkout::poll for request rid *)
Definition CPost ex m0 rid (res : kpoll * checkout * state) : Prop :=
  G ex m0 (snd res) /\ ckreq (snd res) rid /\ CkOK (cur m0 (snd res)) rid (snd (fst res)) /\
  forall p, fst (fst res) = KReady (inl p) -> Acq (cur m0 (snd res)) rid (fst p).

Lemma reg_tail ex m0 rid ck2 c s2 :
  G ex m0 s2 -> ckreq s2 rid -> CkOK (cur m0 s2) rid ck2 -> Acq (cur m0 s2) rid c ->
  CPost ex m0 rid (let '(p, s4) := register cfg (k_token ck2) c (set_req rid (RCheckout ck2) s2) in (KReady (inl p), ck2, s4)).
Proof.
  intros H [ck0 Hq] Hck HA.
  set (s3 := set_req rid (RCheckout ck2) s2).
  assert (H3 : G ex m0 s3) by (eapply G_set_req_ck; eauto).
  assert (K3 : ckreq s3 rid) by (apply ckreq_set_req; exists ck0; exact Hq).
  pose proof (G_register ex m0 (k_token ck2) c s3 H3) as H4.
  pose proof (fk_register (k_token ck2) c s3) as [F4 K4].
  pose proof (register_fst (k_token ck2) c s3) as E4.
  destruct (register cfg (k_token ck2) c s3) as [p s4]. cbn [fst snd] in *.
  unfold CPost. cbn [fst snd]. split; [exact H4|]. split; [auto|]. split.
  - apply (CkOK_mono m0 s3 s4 rid ck2 F4). exact Hck.
  - intros p' E. inversion E; subst. apply (Acq_mono m0 s3 s4 rid (fst p') F4). exact HA.
Qed.

Lemma CkOK_set_inner m r i ck : CkOK m r ck -> CkOK m r (k_set_inner i ck).
Proof. intros [A B]. split; cbn [k_set_inner k_conn k_slot]; auto. Qed.

Lemma conn_tail ex m0 rid ck1 s :
  G ex m0 s -> ckreq s rid -> CkOK (cur m0 s) rid ck1 ->
  CPost ex m0 rid
    (let '(r, s) := connector_poll rid ByReq s in
     match r with
     | CPending => (KPending, ck1, s)
     | CReady res =>
         let '(ck, s) := rx_drop ck1 s in
         let ck := k_set_inner IConnected ck in
         let s := set_req rid (RCheckout ck) s in
         match res with
         | inl c => let '(p, s) := register cfg (k_token ck) c s in (KReady (inl p), ck, s)
         | inr e => (KReady (inr e), ck, s)
         end
     end).
Proof.
  intros H Hkr Hck.
  destruct (G_connector_poll ex m0 rid ByReq s H) as [H1 Ho1]. pose proof (fe_connector_poll rid ByReq s) as F1.
  destruct (connector_poll rid ByReq s) as [r s1]. cbn [fst snd] in *.
  assert (K1 : ckreq s1 rid) by (apply (proj2 (fk_of_fe _ _ F1)); exact Hkr).
  assert (C1 : CkOK (cur m0 s1) rid ck1) by (eapply CkOK_mono; [apply F1|exact Hck]).
  destruct r as [|res].
  - unfold CPost. cbn [fst snd]. split; [exact H1|]. split; [exact K1|]. split; [exact C1|discriminate].
  - pose proof (G_rx_drop ex m0 ck1 s1 H1) as H2. pose proof (fe_rx_drop ck1 s1) as F2.
    pose proof (rx_drop_ck (cur m0 s1) rid ck1 s1 C1) as C2.
    destruct (rx_drop ck1 s1) as [ck2 s2]. cbn [fst snd] in *.
    assert (K2 : ckreq s2 rid) by (apply (proj2 (fk_of_fe _ _ F2)); exact K1).
    assert (C3 : CkOK (cur m0 s2) rid (k_set_inner IConnected ck2))
      by (apply CkOK_set_inner; eapply CkOK_mono; [apply F2|exact C2]).
    destruct res as [c|e].
    + apply reg_tail; auto. eapply Acq_mono; [apply F2|]. eapply G_Acq_open; eauto.
    + destruct K2 as [ck0 Hq0]. unfold CPost. cbn [fst snd]. split; [eapply G_set_req_ck; eauto|].
      split; [apply ckreq_set_req; exists ck0; exact Hq0|]. split; [exact C3|discriminate].
Qed.

Lemma G_checkout_poll ex m0 rid ck s :
  G ex m0 s -> get_req s rid = Some (RCheckout ck) -> CPost ex m0 rid (checkout_poll cfg rid ck s).
Proof.
  intros H Hq.
  assert (Hck : CkOK (cur m0 s) rid ck) by (destruct H as (_ & _ & HR); exact (rm_store _ _ _ HR rid ck Hq)).
  assert (Hkr : ckreq s rid) by (exists ck; exact Hq).
  destruct (waiter_poll_ok _ _ _ Hck) as [Hck1 Hw].
  unfold checkout_poll. destruct (waiter_poll ck) as [w ck1]. cbn [fst snd] in Hck1, Hw.
  destruct w as [|p|].
  - unfold CPost. cbn [fst snd]. split; [exact H|]. split; [exact Hkr|]. split; [exact Hck1|discriminate].
  - unfold CPost. cbn [fst snd]. split; [exact H|]. split; [exact Hkr|]. split; [exact Hck1|].
    intros p' E. inversion E; subst. apply Hw. reflexivity.
  - destruct (k_inner ck1); try (apply conn_tail; assumption).
    + unfold CPost. cbn [fst snd]. split; [exact H|]. split; [exact Hkr|]. split; [exact Hck1|discriminate].
    + destruct (k_conn ck1) as [c|] eqn:Ec.
      * pose proof (G_rx_drop ex m0 (k_set_conn None ck1) s H) as H2. pose proof (fe_rx_drop (k_set_conn None ck1) s) as F2.
        assert (C1 : CkOK (cur m0 s) rid (k_set_conn None ck1))
          by (destruct Hck1 as [A B]; split; cbn [k_set_conn k_conn k_slot]; [discriminate|exact B]).
        pose proof (rx_drop_ck (cur m0 s) rid (k_set_conn None ck1) s C1) as C2.
        destruct (rx_drop (k_set_conn None ck1) s) as [ck2 s2]. cbn [fst snd] in *.
        apply reg_tail; auto.
        -- apply (proj2 (fk_of_fe _ _ F2)); exact Hkr.
        -- eapply CkOK_mono; [apply F2|exact C2].
        -- eapply Acq_mono; [apply F2|]. apply (proj1 Hck1). exact Ec.
      * unfold CPost. cbn [fst snd]. split; [exact H|]. split; [exact Hkr|]. split; [exact Hck1|discriminate].
Qed.

Lemma G_checkout_drop ex m0 rid ck s : G ex m0 s -> G ex m0 (checkout_drop cfg rid ck s).
Proof.
  intros H. unfold checkout_drop.
  set (s1 := match k_conn ck with
             | Some c => if is_open s c && (g_pool cfg && negb (k_token ck =? 0)) then pool_push (g_max_idle cfg) (k_token ck) c s else drop_conn c s
             | None => s end).
  assert (H1 : G ex m0 s1).
  { subst s1. destruct (k_conn ck) as [c|]; [|exact H].
    destruct (is_open s c) eqn:Ho; cbn [andb]; [|apply G_drop_conn, H].
    destruct (g_pool cfg && negb (k_token ck =? 0)); [apply G_pool_push; [exact H|apply is_open_copen, Ho]|apply G_drop_conn, H]. }
  clearbody s1. cbv zeta.
  generalize (match k_inner ck with
              | IDelayDrop => match get_dial s1 rid with
                              | Some d => match d_stage d with DNew => false | _ => true end
                              | None => false end
              | _ => false end).
  intros delayed.
  assert (H2 : G ex m0 (if delayed then spawn (TDelayed rid (k_token ck) (k_owner ck)) s1
                        else if g_pool cfg && negb (k_token ck =? 0) && k_owner ck then pool_cancel (k_token ck) rid s1 else s1)).
  { destruct delayed; [eapply G_fr; [apply fr_spawn|exact H1]|].
    destruct (g_pool cfg && negb (k_token ck =? 0) && k_owner ck); [apply G_pool_cancel|]; exact H1. }
  match goal with |- context [rx_drop ck ?s2] => pose proof (G_rx_drop ex m0 ck s2 H2) as H3; destruct (rx_drop ck s2) as [ck' s3] end.
  cbn [snd] in H3.
  destruct (k_inner ck); try destruct delayed; try exact H3; (eapply G_fr; [apply fr_upd_dial|exact H3]).
Qed.

(* ------------------------------------------------------------------ operations *)
Lemma rv_len_fold l : forall m, List.length (rv (fold_left track_ev l m)) = List.length (rv m).
Proof. induction l as [|e l IH]; intros m; cbn [fold_left]; [reflexivity|]. rewrite IH, rv_track_ev. apply rv_ev_length. Qed.
Lemma rv_len_cur m0 s : List.length (rv (cur m0 s)) = List.length (rv m0).
Proof. apply rv_len_fold. Qed.

Lemma G_add_req ex m0 s v dl :
  G ex m0 s -> List.length (reqs s) < List.length (rv (cur m0 s)) ->
  (forall ck, v = RCheckout ck -> CkOK (cur m0 s) (List.length (reqs s)) ck) -> live_req v ->
  G ex m0 (set_dials dl (set_reqs (reqs s ++ [v]) s)).
Proof.
  intros (H1 & H2 & H3) Hlt Hs Hlv. split; [exact H1|]. split; [exact H2|].
  change (cur m0 (set_dials dl (set_reqs (reqs s ++ [v]) s))) with (cur m0 s).
  destruct H3 as [R1 R2 R3 R4 R6 R7]. constructor; auto.
  - cbn [reqs set_dials set_reqs]. rewrite app_length. cbn [List.length]. lia.
  - intros r w c Hne Hw Hst. destruct (R4 r w c Hne Hw Hst) as (t & f & p & Hq). exists t, f, p.
    cbn [reqs set_dials set_reqs]. rewrite nth_error_app1 by (eapply nth_error_lt; eauto). exact Hq.
  - intros r ck. cbn [reqs set_dials set_reqs]. rewrite nth_error_snoc.
    destruct (Nat.ltb r (List.length (reqs s))); [apply R6|].
    destruct (Nat.eqb_spec r (List.length (reqs s))) as [->|]; [|discriminate]. intros E. inversion E; subst. auto.
  - intros r w q Hne Hw Hst. cbn [reqs set_dials set_reqs]. rewrite nth_error_snoc.
    destruct (Nat.ltb r (List.length (reqs s))); [eauto|].
    destruct (Nat.eqb r (List.length (reqs s))); [|discriminate]. intros E. inversion E; subst. exact Hlv.
Qed.

Lemma CkOK_new m r t w i own txd : CkOK m r (new_ck t w i None own txd).
Proof. split; cbn [new_ck k_conn k_slot]; discriminate. Qed.

Lemma G_do_issue ex m0 u p s : G ex m0 s -> List.length (reqs s) < List.length (rv m0) -> G ex m0 (do_issue cfg u p s).
Proof.
  intros H Hlt. unfold do_issue.
  set (s0 := set_woken (woken s ++ [false]) s).
  assert (H0 : G ex m0 s0) by (eapply G_fr; [|exact H]; repeat split).
  assert (L0 : reqs s0 = reqs s) by reflexivity.
  destruct (nth u (g_uris cfg) None) as [k|].
  2: { apply G_add_req; [exact H0|rewrite rv_len_cur, L0; exact Hlt|discriminate|exact I]. }
  destruct (negb (g_pool cfg)).
  { apply G_add_req; [exact H0|rewrite rv_len_cur, L0; exact Hlt| |exact I]. intros ck E. inversion E; subst. apply CkOK_new. }
  pose proof (fr_key_insert k s0) as F1. destruct (key_insert k s0) as [t s1]. cbn [snd] in F1.
  assert (H1 : G ex m0 s1) by (eapply G_fr; eauto).
  assert (L1 : reqs s1 = reqs s) by (destruct F1 as (_ & _ & ->); exact L0).
  destruct (G_pool_pop ex m0 (g_timeout cfg) t s1 H1) as [H2 Ho2]. pose proof (fe_pool_pop (g_timeout cfg) t s1) as [_ L2].
  destruct (pool_pop (g_timeout cfg) t s1) as [found s2]. cbn [fst snd] in *. rewrite L1 in L2.
  destruct found as [c|].
  { apply G_add_req; [exact H2|rewrite rv_len_cur, L2; exact Hlt| |exact I].
    intros ck E. inversion E; subst. split; cbn [new_ck k_conn k_slot]; [|discriminate].
    intros c' Ec. inversion Ec; subst. eapply G_Acq_open; eauto. }
  set (pending := match p_marker (get_tok s2 t) with Some _ => true | None => false end).
  set (s3 := upd_tok t (fun q => set_waiting (p_waiting q ++ [(List.length (reqs s), pending)]) q) s2).
  assert (F3 : fr s2 s3) by apply fr_upd_tok.
  assert (H3 : G ex m0 s3) by (eapply G_fr; eauto).
  assert (L3 : reqs s3 = reqs s) by (destruct F3 as (_ & _ & ->); exact L2).
  destruct pending.
  { apply G_add_req; [exact H3|rewrite rv_len_cur, L3; exact Hlt| |exact I].
    intros ck E. inversion E; subst. apply CkOK_new. }
  set (s4 := if match p with H1 => false | H2 => true end then upd_tok t (set_marker (Some (List.length (reqs s)))) s3 else s3).
  assert (F4 : fr s3 s4) by (subst s4; destruct p; [apply fr_refl|apply fr_upd_tok]).
  assert (H4 : G ex m0 s4) by (eapply G_fr; eauto).
  assert (L4 : reqs s4 = reqs s) by (destruct F4 as (_ & _ & ->); exact L3).
  apply G_add_req; [exact H4|rewrite rv_len_cur, L4; exact Hlt| |exact I].
  intros ck E. inversion E; subst. apply CkOK_new.
Qed.

Lemma G_restore_res r x m0 s s' : G (Some r) m0 s' -> cur m0 s' = track_ev (cur m0 s) (ERes r x) -> G None m0 s'.
Proof.
  intros H E. apply (G_restore r); [exact H| |].
  - intros w c Hw Hs. exfalso. rewrite E in Hw. eapply res_not_held; eauto.
  - intros w Hw. rewrite E in Hw. eapply res_not_live; eauto.
Qed.

Lemma G_hold_release ex m0 r p s : G ex m0 s -> G ex m0 (hold_release r p s).
Proof.
  intros H. unfold hold_release. apply G_pooled_drop. apply G_emit_irrel; [exact I|].
  eapply G_fr; [|exact H]. apply (fr_upd_conn (fst p) (fun cn => c_set_holders (pred (c_holders cn)) cn)). reflexivity.
Qed.

Lemma RM_hand m r c b1 b2 b3 n s : RM None m s -> RM (Some r) (track_ev m (EHand r c b1 b2 b3 n)) s.
Proof.
  intros HR. pose proof HR as [H1 H2 H3 H4 H6 H7].
  constructor; rewrite ?cv_track_ev, ?rv_track_ev; cbn [cv_ev rv_ev]; rewrite ?upd_nth_length; auto.
  - intros r' w c' Hne Hw Hs. rewrite nth_error_upd_nth_ne in Hw by congruence. eapply H4; eauto. discriminate.
  - intros r' ck Hq. apply CkOK_track_ev. auto.
  - intros r' w q Hne Hw Hs. rewrite nth_error_upd_nth_ne in Hw by congruence. eapply H7; eauto. discriminate.
Qed.

Lemma G_hand m0 r p b1 b2 b3 n f s :
  G None m0 s -> Acq (cur m0 s) r (fst p) -> r < List.length (reqs s) -> (forall cn, c_open (f cn) = c_open cn) ->
  G None m0 (set_req r (RHolding p false true) (upd_conn (fst p) f (emit (EHand r (fst p) b1 b2 b3 n) s))).
Proof.
  intros H HA Hr Hf. destruct p as [c t]. cbn [fst] in *.
  assert (H1 : G (Some r) m0 (emit (EHand r c b1 b2 b3 n) s)).
  { pose proof H as (_ & [HT HB] & HR). apply G_emit; [apply G_weaken, H| |apply RM_hand, HR|discriminate].
    destruct HA as [Hc HA]. destruct (nth_error_ex _ _ Hc) as [v Hv].
    assert (Hr' : r < List.length (rv (cur m0 s))) by (pose proof (rm_rlen _ _ _ HR); lia).
    destruct (nth_error_ex _ _ Hr') as [w Hw].
    eapply chk_hand; eauto. }
  apply (G_restore r).
  - apply G_set_req_x; [|discriminate]. eapply G_fr; [apply fr_upd_conn, Hf|exact H1].
  - intros w c' Hw Hs.
    change (cur m0 (set_req r (RHolding (c, t) false true) (upd_conn c f (emit (EHand r c b1 b2 b3 n) s))))
      with (cur m0 (emit (EHand r c b1 b2 b3 n) s)) in Hw.
    rewrite cur_emit, rv_track_ev in Hw. cbn [rv_ev] in Hw. rewrite nth_error_upd_nth_eq in Hw.
    destruct (nth_error (rv (cur m0 s)) r); [|discriminate]. inversion Hw; subst. cbn in Hs. inversion Hs; subst.
    exists t, false, true. unfold set_req. cbn [reqs set_reqs upd_conn set_conns emit set_out].
    rewrite nth_error_upd_nth_eq. destruct (nth_error_ex _ _ Hr) as [q ->]. reflexivity.
  - intros w Hw.
    change (cur m0 (set_req r (RHolding (c, t) false true) (upd_conn c f (emit (EHand r c b1 b2 b3 n) s))))
      with (cur m0 (emit (EHand r c b1 b2 b3 n) s)) in Hw.
    rewrite cur_emit, rv_track_ev in Hw. cbn [rv_ev] in Hw. rewrite nth_error_upd_nth_eq in Hw.
    destruct (nth_error (rv (cur m0 s)) r); [|discriminate]. inversion Hw; subst. cbn. discriminate.
Qed.

Lemma G_do_poll m0 r s : G None m0 s -> G None m0 (do_poll cfg r s).
Proof.
  intros H. unfold do_poll. destruct (get_req s r) as [[|ck|p fin pl| |]|] eqn:Hq; try exact H.
  - eapply (G_restore_res r (RErr EUri) m0 (unwake_req r s)); [|apply cur_emit].
    apply G_set_req_x; [|discriminate]. apply G_emit_res. eapply G_fr; [apply fr_unwake_req|]. apply G_weaken, H.
  - assert (H1 : G None m0 (unwake_req r s)) by (eapply G_fr; [apply fr_unwake_req|exact H]).
    assert (Hq1 : get_req (unwake_req r s) r = Some (RCheckout ck)) by exact Hq.
    pose proof (G_checkout_poll None m0 r ck (unwake_req r s) H1 Hq1) as HP.
    destruct (checkout_poll cfg r ck (unwake_req r s)) as [[res ck1] s2]. unfold CPost in HP. cbn [fst snd] in HP.
    destruct HP as (H2 & [ck0 Hq2] & C2 & A2).
    destruct res as [|[p|e]].
    + apply G_emit_irrel; [exact I|]. eapply G_set_req_ck; eauto.
    + destruct (match get_conn s2 (fst p) with
                | Some cn => (c_share cn, c_open cn, c_ready cn, c_holders cn)
                | None => (false, false, false, 0) end) as [[[sh op_] rd] hs].
      apply G_emit_irrel; [exact I|]. apply G_checkout_drop. apply G_hand; auto.
      * eapply nth_error_lt; exact Hq2.
      * intros cn. destruct sh; reflexivity.
    + eapply (G_restore_res r (RErr e) m0); [|apply cur_emit].
      apply G_emit_res, G_checkout_drop. apply G_set_req_x; [|discriminate]. apply G_weaken, H2.
  - assert (H1 : G None m0 (unwake_req r s)) by (eapply G_fr; [apply fr_unwake_req|exact H]).
    destruct fin.
    + eapply (G_restore_res r ROk m0); [|apply cur_emit].
      apply G_emit_res, G_hold_release. apply G_set_req_x; [|discriminate]. apply G_weaken, H1.
    + apply G_emit_irrel; [exact I|]. apply G_set_req; [exact H1| |discriminate|].
      * intros w c _ Hw Hs. destruct H as (_ & _ & HR).
        destruct (rm_held _ _ _ HR r w c ltac:(discriminate) Hw Hs) as (t & f & p' & Hq').
        unfold get_req in Hq. rewrite Hq in Hq'. inversion Hq'; subst. eauto.
      * intros w _ Hw Hs. destruct H as (_ & _ & HR). apply (rm_live _ _ _ HR r w _ ltac:(discriminate) Hw Hs Hq).
Qed.

Lemma cur_nil m0 s : out s = [] -> cur m0 s = m0.
Proof. intros E. unfold cur. rewrite E. reflexivity. Qed.

Lemma G_do_cancel m0 r s : out s = [] ->
  (forall w, nth_error (rv m0) r = Some w -> v_stat w = SDone \/ v_stat w = SCancelled) ->
  G None m0 s -> G None m0 (do_cancel cfg r s).
Proof.
  intros Ho Hnh H.
  assert (Hset : G None m0 (set_req r RCancelled s)).
  { apply G_set_req; [exact H| |discriminate|].
    - intros w c _ Hw Hs. exfalso. rewrite (cur_nil m0 s Ho) in Hw. destruct (Hnh w Hw); congruence.
    - intros w _ Hw Hs. exfalso. rewrite (cur_nil m0 s Ho) in Hw. destruct (Hnh w Hw); congruence. }
  unfold do_cancel. destruct (get_req s r) as [[|ck|p fin pl| |]|]; try exact H.
  - eapply G_fr; [apply fr_unwake_req|exact Hset].
  - eapply G_fr; [apply fr_unwake_req|]. apply G_checkout_drop, Hset.
  - eapply G_fr; [apply fr_unwake_req|]. apply G_hold_release, Hset.
  - eapply G_fr; [apply fr_unwake_req|exact H].
  - eapply G_fr; [apply fr_unwake_req|exact H].
Qed.

Lemma G_do_finish m0 r s : G None m0 s -> G None m0 (do_finish r s).
Proof.
  intros H. unfold do_finish. destruct (get_req s r) as [[|ck|p fin pl| |]|] eqn:Hq; try exact H.
  assert (H1 : G None m0 (set_req r (RHolding p true false) s)).
  { apply G_set_req; [exact H| |discriminate|].
    - intros w c _ Hw Hs. destruct H as (_ & _ & HR).
      destruct (rm_held _ _ _ HR r w c ltac:(discriminate) Hw Hs) as (t & f & p' & Hq').
      unfold get_req in Hq. rewrite Hq in Hq'. inversion Hq'; subst. eauto.
    - intros w _ Hw Hs. destruct H as (_ & _ & HR). apply (rm_live _ _ _ HR r w _ ltac:(discriminate) Hw Hs Hq). }
  destruct pl; [eapply G_fr; [apply fr_wake_req|exact H1]|exact H1].
Qed.

Lemma G_run_task ex m0 tid s : G ex m0 s -> G ex m0 (run_task cfg tid s).
Proof.
  intros H. unfold run_task. destruct (nth tid (tasks s) None) as [[c t|rid t own]|]; [| |exact H].
  - destruct (get_conn s c) as [cn|] eqn:Ec; [|eapply G_fr; [apply fr_finish_task|exact H]].
    assert (Hfin : forall s0, G ex m0 s0 ->
              G ex m0 (if is_open (finish_task tid s0) c && negb (t =? 0) && g_pool cfg
                       then pool_push (g_max_idle cfg) t c (finish_task tid s0) else drop_conn c (finish_task tid s0))).
    { intros s0 H0. assert (H0' : G ex m0 (finish_task tid s0)) by (eapply G_fr; [apply fr_finish_task|exact H0]).
      destruct (is_open (finish_task tid s0) c) eqn:Ho; cbn [andb]; [|apply G_drop_conn, H0'].
      destruct (negb (t =? 0) && g_pool cfg); [|apply G_drop_conn, H0'].
      apply G_pool_push; [exact H0'|apply is_open_copen, Ho]. }
    destruct (negb (c_open cn)) eqn:Eo.
    + apply Hfin. apply G_emit_irrel; [exact I|exact H].
    + destruct (c_share cn || c_ready cn).
      * apply Hfin. apply G_emit_rdy; [|exact H].
        unfold copen. unfold get_conn in Ec. rewrite nth_error_map', Ec. cbn [option_map].
        apply negb_false_iff in Eo. rewrite Eo. reflexivity.
      * eapply G_fr; [|exact H]. apply (fr_upd_conn c (fun cn0 => c_set_waiters (c_waiters cn0 ++ [tid]) cn0)). reflexivity.
  - destruct (G_connector_poll ex m0 rid (ByTask tid) s H) as [H1 _].
    destruct (connector_poll rid (ByTask tid) s) as [r s1]. cbn [snd] in H1.
    destruct r as [|[c|e]]; [exact H1| |].
    + pose proof (G_register ex m0 t c s1 H1) as H2. destruct (register cfg t c s1) as [p s2]. cbn [snd] in H2.
      apply G_pooled_drop. eapply G_fr; [apply fr_finish_task|].
      destruct (g_pool cfg && negb (t =? 0) && own); [apply G_pool_cancel|]; exact H2.
    + eapply G_fr; [apply fr_finish_task|].
      destruct (g_pool cfg && negb (t =? 0) && own); [apply G_pool_cancel|]; exact H1.
Qed.

Lemma G_bg_loop ex m0 fuel : forall s, G ex m0 s -> G ex m0 (bg_loop cfg fuel s).
Proof.
  induction fuel as [|f IH]; intros s H; cbn [bg_loop]; [exact H|].
  destruct (runq s) as [|tid rest]; [exact H|]. apply IH, G_run_task. eapply G_fr; [|exact H]. repeat split.
Qed.

(* ------------------------------------------------------------------ the tracker's reading of the op *)
Definition Inv (m : mst) (s : state) : Prop := TI m /\ RM None m s.

Lemma G_of_Inv m0 s : out s = [] -> TI m0 -> RM None m0 s -> G None m0 s.
Proof. intros Ho HT HR. unfold G. rewrite (cur_nil m0 s Ho), Ho. split; [reflexivity|]. split; [split; [assumption|apply BK_refl]|assumption]. Qed.

Lemma G_start m0 s : TI m0 -> RM None m0 s -> G None m0 (set_out [] s).
Proof. intros HT HR. apply G_of_Inv; [reflexivity|exact HT|]. eapply RM_fr; [| |exact HR]; reflexivity. Qed.

Lemma Acq_ext m m' r c : cv m' = cv m ->
  (forall w', nth_error (rv m') r = Some w' -> exists w, nth_error (rv m) r = Some w /\ v_at w = v_at w') ->
  Acq m r c -> Acq m' r c.
Proof.
  intros Hc Hr [H1 H2]. split; rewrite Hc; [exact H1|]. intros v w' cl Hv Hw' Hcl.
  destruct (Hr w' Hw') as (w & Hw & <-). eauto.
Qed.

Lemma TI_pres m m' : m_i m' = m_i m ->
  (forall r w', nth_error (rv m') r = Some w' ->
     exists w, nth_error (rv m) r = Some w /\ v_at w' = v_at w /\ v_time w' = v_time w /\ v_popc w' = v_popc w) ->
  (forall c v', nth_error (cv m') c = Some v' ->
     exists v, nth_error (cv m) c = Some v /\ v_back v' = v_back v /\ v_btime v' = v_btime v) ->
  TI m -> TI m'.
Proof.
  intros Hi Hr Hc [H1 H2 H3]. constructor; rewrite ?Hi.
  - intros r w' Hw'. destruct (Hr r w' Hw') as (w & Hw & -> & _). eauto.
  - intros c v' Hv'. destruct (Hc c v' Hv') as (v & Hv & -> & _). eauto.
  - intros r w' c v' d Hw' Hp Hv' Hd Hpos Hlt.
    destruct (Hr r w' Hw') as (w & Hw & E1 & E2 & E3). destruct (Hc c v' Hv') as (v & Hv & E4 & E5).
    rewrite E2, E5. eapply H3; eauto; congruence.
Qed.

Lemma TI_next m m' : cv m' = cv m -> rv m' = rv m -> m_i m' = S (m_i m) -> TI m -> TI m'.
Proof.
  intros Hc Hr Hi [H1 H2 H3]. constructor; rewrite ?Hc, ?Hr, ?Hi.
  - intros r w Hw. pose proof (H1 r w Hw). lia.
  - intros c v Hv. pose proof (H2 c v Hv). lia.
  - exact H3.
Qed.

Lemma upd_stat_inv r st l k w' :
  nth_error (upd_nth r (fun w => mkRv st (v_at w) (v_time w) (v_popc w)) l) k = Some w' ->
  exists w, nth_error l k = Some w /\ v_at w' = v_at w /\ v_time w' = v_time w /\ v_popc w' = v_popc w.
Proof.
  rewrite nth_error_upd_nth. destruct (Nat.eqb r k); [|intros H; exists w'; auto].
  destruct (nth_error l k) as [w|]; [|discriminate]. intros H. inversion H; subst. exists w. auto.
Qed.

Lemma RM_stat ex m m' s r st : cv m' = cv m ->
  rv m' = upd_nth r (fun w => mkRv st (v_at w) (v_time w) (v_popc w)) (rv m) -> (forall c, st <> SHeld c) -> st <> SLive ->
  RM ex m s -> RM ex m' s.
Proof.
  intros Hc Hr Hst Hsl [H1 H2 H3 H4 H6 H7]. constructor; rewrite ?Hc, ?Hr, ?upd_nth_length; auto.
  - intros r' w c Hne Hw Hs. rewrite nth_error_upd_nth in Hw. destruct (Nat.eqb r r'); [|eauto].
    destruct (nth_error (rv m) r'); [|discriminate]. inversion Hw; subst. cbn in Hs. exfalso. eapply Hst; eauto.
  - intros r' ck Hq. destruct (H6 r' ck Hq) as [A B].
    assert (E : forall c, Acq m r' c -> Acq m' r' c).
    { intros c. apply Acq_ext; [exact Hc|]. rewrite Hr. intros w' Hw'.
      destruct (upd_stat_inv _ _ _ _ _ Hw') as (w & Hw & E1 & _). exists w. auto. }
    split; intros; apply E; eauto.
  - intros r' w q Hne Hw Hs. rewrite nth_error_upd_nth in Hw. destruct (Nat.eqb r r'); [|eauto].
    destruct (nth_error (rv m) r'); [|discriminate]. inversion Hw; subst. cbn in Hs. contradiction.
Qed.

Lemma RM_rv_snoc ex m m' s w : cv m' = cv m -> rv m' = rv m ++ [w] -> (forall c, v_stat w <> SHeld c) ->
  RM ex m s -> RM ex m' s.
Proof.
  intros Hc Hr Hst [H1 H2 H3 H4 H6 H7]. constructor; rewrite ?Hc, ?Hr; auto.
  - rewrite app_length. cbn [List.length]. lia.
  - intros r' w' c Hne Hw Hs. rewrite nth_error_snoc in Hw. destruct (Nat.ltb r' (List.length (rv m))); [eauto|].
    destruct (Nat.eqb r' (List.length (rv m))); [|discriminate]. inversion Hw; subst. exfalso. eapply Hst; eauto.
  - intros r' ck Hq. destruct (H6 r' ck Hq) as [A B].
    assert (Hlt : r' < List.length (rv m)) by (pose proof (nth_error_lt _ _ _ Hq); lia).
    assert (E : forall c, Acq m r' c -> Acq m' r' c).
    { intros c. apply Acq_ext; [exact Hc|]. rewrite Hr. intros w' Hw'. rewrite nth_error_app1 in Hw' by exact Hlt. eauto. }
    split; intros; apply E; eauto.
  - intros r' w' q Hne Hw Hs Hq. assert (Hlt : r' < List.length (rv m)) by (pose proof (nth_error_lt _ _ _ Hq); lia).
    rewrite nth_error_app1 in Hw by exact Hlt. eauto.
Qed.

Definition closef (i : nat) (v : cvw) : cvw := mkCv (first_some (v_closed v) i) (v_back v) (v_btime v).

Lemma RM_close ex m m' s c : cv m' = upd_nth c (closef (m_i m)) (cv m) -> rv m' = rv m -> TI m ->
  nth_error (copen s) c <> Some true -> RM ex m s -> RM ex m' s.
Proof.
  intros Hc Hr [T1 T2 T3] Hno [H1 H2 H3 H4 H6 H7]. constructor; rewrite ?Hc, ?Hr, ?upd_nth_length; auto.
  - intros c' v Ho Hv. rewrite nth_error_upd_nth in Hv. destruct (Nat.eqb_spec c c') as [<-|Hne]; [contradiction|eauto].
  - intros r ck Hq. destruct (H6 r ck Hq) as [A B].
    assert (E : forall c0, Acq m r c0 -> Acq m' r c0).
    { intros c0 [L HA]. split; rewrite Hc, ?Hr, ?upd_nth_length; [exact L|].
      intros v w cl Hv Hw Hcl. rewrite nth_error_upd_nth in Hv. destruct (Nat.eqb c c0); [|eauto].
      destruct (nth_error (cv m) c0) as [v0|] eqn:E; [|discriminate]. inversion Hv; subst. cbn [closef v_closed] in Hcl.
      destruct (v_closed v0) as [cl0|] eqn:E0; cbn [first_some] in Hcl; inversion Hcl; subst; eauto. }
    split; intros; apply E; eauto.
Qed.

Lemma TI_close m m' c : cv m' = upd_nth c (closef (m_i m)) (cv m) -> rv m' = rv m -> m_i m' = m_i m -> TI m -> TI m'.
Proof.
  intros Hc Hr Hi. apply TI_pres; [exact Hi| |].
  - rewrite Hr. intros r w' Hw'. exists w'. auto.
  - rewrite Hc. intros c' v' Hv'. rewrite nth_error_upd_nth in Hv'. destruct (Nat.eqb c c'); [|exists v'; auto].
    destruct (nth_error (cv m) c') as [v0|]; [|discriminate]. inversion Hv'; subst. exists v0. auto.
Qed.

Lemma issue_views m u p ob : exists popc,
  rv (track_op cfg m (Issue u p) ob) = rv m ++ [mkRv SLive (m_i m) (m_time m) popc] /\
  cv (track_op cfg m (Issue u p) ob) = cv m /\ m_i (track_op cfg m (Issue u p) ob) = m_i m /\
  (forall c, popc = Some c -> usable cfg m c = true).
Proof.
  cbn [track_op]. cbv zeta. eexists. split; [|split; [|split]].
  - unfold rv. cbn [m_reqs set_m_keys set_m_reqs]. rewrite map_app. cbn [map rv_of ri_stat ri_at ri_time ri_popc]. reflexivity.
  - reflexivity.
  - reflexivity.
  - intros c. unfold popped_conn. destruct (skipn _ _) as [|c0 l]; [discriminate|].
    destruct (usable cfg m c0) eqn:E; [|discriminate]. intros H; inversion H; subst; exact E.
Qed.

Lemma TI_issue m u p ob : TI m -> TI (track_op cfg m (Issue u p) ob).
Proof.
  intros HT. pose proof HT as [H1 H2 H3]. destruct (issue_views m u p ob) as (popc & Hr & Hc & Hi & Hu).
  constructor; rewrite ?Hr, ?Hc, ?Hi; auto.
  - intros r w Hw. rewrite nth_error_snoc in Hw. destruct (Nat.ltb r (List.length (rv m))); [eauto|].
    destruct (Nat.eqb r (List.length (rv m))); [|discriminate]. inversion Hw; subst. cbn. lia.
  - intros r w c v d Hw Hp Hv Hd Hpos Hlt. rewrite nth_error_snoc in Hw.
    destruct (Nat.ltb r (List.length (rv m))); [eauto|].
    destruct (Nat.eqb r (List.length (rv m))); [|discriminate]. inversion Hw; subst. cbn [v_popc v_time v_at] in *.
    specialize (Hu c Hp). unfold usable in Hu. unfold cv in Hv. rewrite nth_error_map' in Hv.
    destruct (nth_error (m_conns m) c) as [x|]; [|discriminate]. cbn [option_map] in Hv. inversion Hv; subst. cbn [cv_of v_btime].
    destruct (ci_closed x); [discriminate|]. unfold unexpired in Hu. rewrite Hd in Hu.
    destruct (N.ltb_spec 0 d); [|lia]. apply N.leb_le. exact Hu.
Qed.

(* the hand-back stamp of a dropped checkout (Cancel): only ci_back moves *)
Definition backf (b : nat) (v : cvw) : cvw := mkCv (v_closed v) b (v_btime v).

Lemma RM_backupd ex m m' s c b : cv m' = upd_nth c (backf b) (cv m) -> rv m' = rv m -> RM ex m s -> RM ex m' s.
Proof.
  intros Hc Hr [H1 H2 H3 H4 H6 H7]. constructor; rewrite ?Hc, ?Hr, ?upd_nth_length; auto.
  - intros c' v Ho Hv. rewrite nth_error_upd_nth in Hv. destruct (Nat.eqb c c'); [|eauto].
    destruct (nth_error (cv m) c') as [v0|] eqn:E; [|discriminate]. inversion Hv; subst. cbn [backf v_closed]. eauto.
  - intros r ck Hq. destruct (H6 r ck Hq) as [A B].
    assert (E : forall c0, Acq m r c0 -> Acq m' r c0).
    { intros c0 [L HA]. split; rewrite Hc, ?Hr, ?upd_nth_length; [exact L|].
      intros v w cl Hv Hw Hcl. rewrite nth_error_upd_nth in Hv. destruct (Nat.eqb c c0); [|eauto].
      destruct (nth_error (cv m) c0) as [v0|] eqn:E; [|discriminate]. inversion Hv; subst. cbn [backf v_closed] in Hcl. eauto. }
    split; intros; apply E; eauto.
Qed.

Lemma TI_backupd m m' c : cv m' = upd_nth c (backf (m_i m)) (cv m) -> rv m' = rv m -> m_i m' = m_i m -> TI m -> TI m'.
Proof.
  intros Hc Hr Hi [H1 H2 H3]. constructor; rewrite ?Hc, ?Hr, ?Hi; auto.
  - intros c' v Hv. rewrite nth_error_upd_nth in Hv. destruct (Nat.eqb c c'); [|eauto].
    destruct (nth_error (cv m) c') as [v0|]; [|discriminate]. inversion Hv; subst. cbn [backf v_back]. lia.
  - intros r w c' v d Hw Hp Hv Hd Hpos Hlt. rewrite nth_error_upd_nth in Hv. destruct (Nat.eqb c c'); [|eauto].
    destruct (nth_error (cv m) c') as [v0|]; [|discriminate]. inversion Hv; subst. cbn [backf v_back] in Hlt.
    pose proof (H1 r w Hw). lia.
Qed.

Lemma cancel_stat (F : rinfo -> rinfo) mb r x s :
  (forall y, rv_of (F y) = mkRv SCancelled (v_at (rv_of y)) (v_time (rv_of y)) (v_popc (rv_of y))) ->
  nth_error (m_reqs mb) r = Some x -> TI mb -> RM None mb s ->
  TI (ri_upd F r mb) /\ RM None (ri_upd F r mb) s /\
  (forall w, nth_error (rv (ri_upd F r mb)) r = Some w -> v_stat w = SDone \/ v_stat w = SCancelled).
Proof.
  intros HF E HT HR.
  assert (Hx : nth_error (rv mb) r = Some (rv_of x)) by (unfold rv; rewrite nth_error_map', E; reflexivity).
  assert (Hupd : rv (ri_upd F r mb) = upd_nth r (fun w => mkRv SCancelled (v_at w) (v_time w) (v_popc w)) (rv mb))
    by (apply rv_ri_upd; exact HF).
  split; [|split].
  - apply (TI_pres mb (ri_upd F r mb)); [reflexivity| | |exact HT].
    + rewrite Hupd. intros k w' Hw'. eapply upd_stat_inv; eauto.
    + intros c v' Hv'. exists v'. auto.
  - apply (RM_stat None mb (ri_upd F r mb) s r SCancelled); [reflexivity|exact Hupd|discriminate|discriminate|exact HR].
  - rewrite Hupd, nth_error_upd_nth_eq, Hx. intros w Hw. inversion Hw; subst. right. reflexivity.
Qed.

Lemma cancel_ok m r ob s : TI m -> RM None m s ->
  TI (track_op cfg m (Cancel r) ob) /\ RM None (track_op cfg m (Cancel r) ob) s /\
  (forall w, nth_error (rv (track_op cfg m (Cancel r) ob)) r = Some w -> v_stat w = SDone \/ v_stat w = SCancelled).
Proof.
  intros HT HR. cbn [track_op]. destruct (nth_error (m_reqs m) r) as [x|] eqn:E.
  2: { split; [exact HT|]. split; [exact HR|]. intros w Hw. unfold rv in Hw. rewrite nth_error_map', E in Hw. discriminate. }
  assert (Hx : nth_error (rv m) r = Some (rv_of x)) by (unfold rv; rewrite nth_error_map', E; reflexivity).
  assert (HF : forall y, rv_of (set_ri_pend false (set_ri_stat SCancelled
                       match ri_stat y, ri_dial y with SLive, DsFlying => set_ri_aband true y | _, _ => y end))
                  = mkRv SCancelled (v_at (rv_of y)) (v_time (rv_of y)) (v_popc (rv_of y)))
    by (intros y; destruct (ri_stat y), (ri_dial y); reflexivity).
  destruct (ri_stat x) eqn:Es.
  - destruct (ri_popx x) as [c|]; [|apply (cancel_stat _ m r x s HF E HT HR)].
    destruct (nth_error (m_conns m) c) as [y|]; [|apply (cancel_stat _ m r x s HF E HT HR)].
    destruct (ci_share y); [apply (cancel_stat _ m r x s HF E HT HR)|].
    assert (Hc : cv (ci_upd (set_ci_back (m_i m)) c m) = upd_nth c (backf (m_i m)) (cv m)) by (apply cv_ci_upd; reflexivity).
    apply (cancel_stat _ (ci_upd (set_ci_back (m_i m)) c m) r x s HF E).
    + eapply TI_backupd; [exact Hc|reflexivity|reflexivity|exact HT].
    + eapply RM_backupd; [exact Hc|reflexivity|exact HR].
  - apply (cancel_stat _ m r x s HF E HT HR).
  - split; [exact HT|]. split; [exact HR|]. rewrite Hx. intros w Hw. inversion Hw; subst. left. exact Es.
  - split; [exact HT|]. split; [exact HR|]. rewrite Hx. intros w Hw. inversion Hw; subst. right. exact Es.
Qed.

Lemma close_view m c : cv (ci_upd (fun x => set_ci_closed (first_some (ci_closed x) (m_i m)) x) c m) = upd_nth c (closef (m_i m)) (cv m).
Proof. apply cv_ci_upd. reflexivity. Qed.

Lemma upgrade_views m r ob :
  m_i (track_op cfg m (Upgrade r) ob) = m_i m /\ rv (track_op cfg m (Upgrade r) ob) = rv m /\
  (cv (track_op cfg m (Upgrade r) ob) = cv m \/
   exists c w, nth_error (rv m) r = Some w /\ v_stat w = SHeld c /\
               cv (track_op cfg m (Upgrade r) ob) = upd_nth c (closef (m_i m)) (cv m)).
Proof.
  cbn [track_op]. unfold holder_conn. destruct (nth_error (m_reqs m) r) as [x|] eqn:E; [|auto].
  destruct (ri_stat x) eqn:Es; auto.
  split; [reflexivity|]. split; [reflexivity|]. right. exists c, (rv_of x).
  split; [unfold rv; rewrite nth_error_map', E; reflexivity|]. split; [exact Es|]. apply cv_ci_upd. reflexivity.
Qed.

Lemma cv_track_offer ob m e : cv (track_offer ob m e) = cv m.
Proof.
  destruct e; try reflexivity. destruct ok; try reflexivity. cbn [track_offer].
  destruct (nth_error (m_conns m) c); [|reflexivity]. apply cv_ci_upd_id. reflexivity.
Qed.
Lemma rv_track_offer ob m e : rv (track_offer ob m e) = rv m.
Proof. destruct e; try reflexivity. destruct ok; try reflexivity. cbn [track_offer]. destruct (nth_error (m_conns m) c); reflexivity. Qed.
Lemma mi_track_offer ob m e : m_i (track_offer ob m e) = m_i m.
Proof. destruct e; try reflexivity. destruct ok; try reflexivity. cbn [track_offer]. destruct (nth_error (m_conns m) c); reflexivity. Qed.
Lemma offer_fold ob l : forall m, cv (fold_left (track_offer ob) l m) = cv m /\ rv (fold_left (track_offer ob) l m) = rv m
                                  /\ m_i (fold_left (track_offer ob) l m) = m_i m.
Proof.
  induction l as [|e l IH]; intros m; cbn [fold_left]; [auto|].
  destruct (IH (track_offer ob m e)) as (A & B & C). rewrite A, B, C, cv_track_offer, rv_track_offer, mi_track_offer. auto.
Qed.

Lemma stamp_views prev sn : forall m, cv (track_idle_stamp prev m sn) = cv m /\ rv (track_idle_stamp prev m sn) = rv m
                                     /\ m_i (track_idle_stamp prev m sn) = m_i m.
Proof.
  unfold track_idle_stamp. induction (sn_idle sn) as [|c l IH]; intros m; cbn [fold_left]; [auto|].
  destruct (mem c (idle_of prev (sn_token sn))); [apply IH|].
  destruct (IH (ci_upd (set_ci_idle_time (m_time m)) c m)) as (A & B & C). rewrite A, B, C.
  rewrite cv_ci_upd_id by reflexivity. auto.
Qed.
Lemma stamp_fold prev l : forall m, cv (fold_left (track_idle_stamp prev) l m) = cv m /\ rv (fold_left (track_idle_stamp prev) l m) = rv m
                                  /\ m_i (fold_left (track_idle_stamp prev) l m) = m_i m.
Proof.
  induction l as [|sn l IH]; intros m; cbn [fold_left]; [auto|].
  destruct (IH (track_idle_stamp prev m sn)) as (A & B & C). destruct (stamp_views prev sn m) as (A' & B' & C').
  rewrite A, B, C. auto.
Qed.

Lemma Inv_track m o ob s' : G None (track_op cfg m o ob) s' -> o_events ob = rev (out s') -> Inv (track cfg m o ob) s'.
Proof.
  intros (_ & HT & HR) E. unfold track. rewrite E. fold (cur (track_op cfg m o ob) s').
  set (m1 := cur (track_op cfg m o ob) s') in *.
  destruct (offer_fold ob (rev (out s')) m1) as (A & B & C).
  destruct (stamp_fold (o_snap (m_prev m)) (o_snap ob) (fold_left (track_offer ob) (rev (out s')) m1)) as (A' & B' & C').
  rewrite A in A'. rewrite B in B'. rewrite C in C'.
  split.
  - eapply TI_next; [| | |exact (proj1 HT)]; [exact A'|exact B'|]. cbn [m_i set_m_prev set_m_i]. rewrite C'. reflexivity.
  - eapply RM_views; [| |exact HR]; [exact A'|exact B'].
Qed.

(* every op: the events are accepted and the invariants hold afterwards *)
Lemma G_step m s o ob : Inv m s -> G None (track_op cfg m o ob) (step cfg s o).
Proof.
  intros [HT HR]. unfold step. destruct o.
  - (* Issue *)
    destruct (issue_views m u p ob) as (popc & Hr & Hc & Hi & Hu).
    assert (HR' : RM None (track_op cfg m (Issue u p) ob) s) by (eapply RM_rv_snoc; eauto; cbn; discriminate).
    apply G_do_issue; [apply G_start; [apply TI_issue, HT|exact HR']|].
    rewrite Hr, app_length. cbn [List.length reqs set_out]. pose proof (rm_rlen _ _ _ HR). lia.
  - apply G_do_poll, G_start; assumption.
  - (* Cancel *)
    destruct (cancel_ok m r ob s HT HR) as (HT' & HR' & Hnh).
    apply G_do_cancel; [reflexivity|exact Hnh|]. apply G_start; assumption.
  - apply G_do_finish, G_start; assumption.
  - (* Upgrade *)
    destruct (upgrade_views m r ob) as (Hi & Hr & Hc).
    assert (Hm : forall c, RM None m (drain_conn_waiters c (upd_conn c (c_set_open false) (set_out [] s)))).
    { intros c. eapply RM_fr; [| |apply (RM_close_model None m s c HR)].
      - rewrite (copen_fr _ _ (fr_drain_conn_waiters c (upd_conn c (c_set_open false) (set_out [] s)))). reflexivity.
      - destruct (fr_drain_conn_waiters c (upd_conn c (c_set_open false) (set_out [] s))) as (_ & _ & ->). reflexivity. }
    assert (Ho : forall c, out (drain_conn_waiters c (upd_conn c (c_set_open false) (set_out [] s))) = [])
      by (intros c; destruct (fr_drain_conn_waiters c (upd_conn c (c_set_open false) (set_out [] s))) as (-> & _); reflexivity).
    destruct Hc as [Hc | (c & w & Hw & Hs & Hc)].
    + assert (HT' : TI (track_op cfg m (Upgrade r) ob)) by (eapply TI_views; eauto).
      unfold do_upgrade. destruct (get_req (set_out [] s) r) as [[|ck|p fin pl| |]|];
        try (apply G_start; [exact HT'|eapply RM_views; eauto]).
      apply G_of_Inv; [apply Ho|exact HT'|]. eapply RM_views; [exact Hc|exact Hr|apply Hm].
    + assert (HT' : TI (track_op cfg m (Upgrade r) ob)) by (eapply TI_close; eauto).
      destruct (rm_held _ _ _ HR r w c ltac:(discriminate) Hw Hs) as (t & f & pl & Hq).
      unfold do_upgrade, get_req. cbn [reqs set_out]. rewrite Hq. cbn [fst].
      apply G_of_Inv; [apply Ho|exact HT'|].
      eapply RM_fr; [| |eapply (RM_close None m _ (upd_conn c (c_set_open false) (set_out [] s)) c Hc Hr HT);
                        [apply copen_closed|apply (RM_close_model None m (set_out [] s) c)]].
      * rewrite (copen_fr _ _ (fr_drain_conn_waiters c (upd_conn c (c_set_open false) (set_out [] s)))). reflexivity.
      * destruct (fr_drain_conn_waiters c (upd_conn c (c_set_open false) (set_out [] s))) as (_ & _ & ->). reflexivity.
      * eapply RM_fr; [| |exact HR]; reflexivity.
  - (* DialDone *)
    assert (Hr : rv (track_op cfg m (DialDone r x) ob) = rv m).
    { cbn [track_op]. apply rv_ri_upd_id. intros y. destruct (ri_dial y), (ri_resolved y); reflexivity. }
    assert (HG : G None (track_op cfg m (DialDone r x) ob) (set_out [] s)).
    { apply G_start; [eapply TI_views; [| | |exact HT]|eapply RM_views; [| |exact HR]]; auto. }
    unfold do_dial_done. destruct (get_dial (set_out [] s) r) as [d|]; [|exact HG].
    destruct (d_stage d); try exact HG. eapply G_fr; [|exact HG].
    eapply fr_trans; [apply fr_upd_dial|apply fr_wake_poller].
  - (* ConnReady *)
    assert (HG : G None m (set_out [] s)) by (apply G_start; assumption).
    cbn [track_op]. unfold do_conn_ready. destruct (get_conn (set_out [] s) c); [|exact HG].
    eapply G_fr; [|exact HG]. eapply fr_trans; [apply (fr_upd_conn c (c_set_ready true)); reflexivity|apply fr_drain_conn_waiters].
  - (* ConnClose *)
    cbn [track_op].
    assert (Hc := close_view m c).
    assert (HT' : TI (ci_upd (fun x => set_ci_closed (first_some (ci_closed x) (m_i m)) x) c m))
      by (eapply TI_close; eauto).
    unfold do_conn_close. destruct (get_conn (set_out [] s) c) as [cn|] eqn:Ec.
    + apply G_of_Inv; [destruct (fr_drain_conn_waiters c (upd_conn c (c_set_open false) (set_out [] s))) as (-> & _); reflexivity|exact HT'|].
      eapply RM_fr; [| |eapply (RM_close None m _ (upd_conn c (c_set_open false) (set_out [] s)) c Hc eq_refl HT);
                        [apply copen_closed|apply (RM_close_model None m (set_out [] s) c)]].
      * rewrite (copen_fr _ _ (fr_drain_conn_waiters c (upd_conn c (c_set_open false) (set_out [] s)))). reflexivity.
      * destruct (fr_drain_conn_waiters c (upd_conn c (c_set_open false) (set_out [] s))) as (_ & _ & ->). reflexivity.
      * eapply RM_fr; [| |exact HR]; reflexivity.
    + apply G_start; [exact HT'|]. eapply (RM_close None m _ s c Hc eq_refl HT); [|exact HR].
      unfold copen. unfold get_conn in Ec. cbn [conns set_out] in Ec. rewrite nth_error_map', Ec. discriminate.
  - (* Bg *)
    unfold do_bg. apply G_bg_loop, G_start; assumption.
  - (* Tick *)
    eapply G_fr; [|apply G_start; [eapply TI_views; [| | |exact HT]|eapply RM_views; [| |exact HR]]]; try reflexivity.
    repeat split.
Qed.

Lemma Inv_init : Inv m0 init.
Proof.
  split.
  - constructor; intros [|?]; cbn; discriminate.
  - constructor; cbn; auto; try (intros [|?]; cbn; discriminate).
Qed.

End C05.

(* ------------------------------------------------------------------ Prop-level facts about the primitives *)
Lemma pop_loop_some thr rl : forall s c rest s', pop_loop thr rl s = (Some c, rest, s') ->
  is_open s' c = true /\ exists a, In (c, a) rl /\ match thr with Some y => (y <= a)%N | None => True end.
Proof.
  induction rl as [|[c0 a0] rl IH]; intros s c rest s' H; cbn [pop_loop] in H; [discriminate|].
  destruct (match thr with Some y => (a0 <? y)%N | None => false end) eqn:Ex; [discriminate|].
  destruct (is_open s c0) eqn:Ho.
  - inversion H; subst. split; [exact Ho|]. exists a0. split; [left; reflexivity|].
    destruct thr as [y|]; [|exact I]. apply N.ltb_ge. exact Ex.
  - destruct (IH _ _ _ _ H) as (A & a & Hin & Ht). split; [exact A|]. exists a. split; [right; exact Hin|exact Ht].
Qed.

Lemma is_open_upd_tok t f s c : is_open (upd_tok t f s) c = is_open s c.
Proof. destruct t; reflexivity. Qed.

(* whatever [pool_pop] returns is open in the resulting state and, for a non-zero idle timeout that has
   already become effective, entered the idle list no longer than the timeout ago *)
Theorem pool_pop_open_unexpired to t s c s' : pool_pop to t s = (Some c, s') ->
  is_open s' c = true /\
  exists a, In (c, a) (p_idle (get_tok s t)) /\ forall d, to = Some d -> (0 < d <= now s)%N -> (now s - d <= a)%N.
Proof.
  unfold pool_pop. intros H.
  destruct (pop_loop (expiry_threshold to (now s)) (rev (p_idle (get_tok s t))) s) as [[r rest] s1] eqn:E.
  inversion H; subst. destruct (pop_loop_some _ _ _ _ _ _ E) as (A & a & Hin & Ht).
  split; [rewrite is_open_upd_tok; exact A|]. exists a. split; [apply in_rev; exact Hin|].
  intros d -> [Hd1 Hd2]. unfold expiry_threshold in Ht.
  destruct (N.ltb_spec 0 d); [|lia]. destruct (N.leb_spec d (now s)); [|lia]. cbn [andb] in Ht. exact Ht.
Qed.

(* a hand-back task leaves every idle list alone unless the connection is open at that moment *)
Theorem handback_only_open cfg tid c t s :
  nth tid (tasks s) None = Some (TWhenReady c t) -> is_open s c = false -> toks (run_task cfg tid s) = toks s.
Proof.
  intros Ht Ho. unfold run_task. rewrite Ht. destruct (get_conn s c) as [cn|]; [|reflexivity].
  destruct (negb (c_open cn)).
  - change (is_open (finish_task tid (emit (ERdy c false) s)) c) with (is_open s c). rewrite Ho. cbn [andb].
    rewrite toks_drop_conn. reflexivity.
  - destruct (c_share cn || c_ready cn); [|reflexivity].
    change (is_open (finish_task tid (emit (ERdy c true) s)) c) with (is_open s c). rewrite Ho. cbn [andb].
    rewrite toks_drop_conn. reflexivity.
Qed.
