(* C15, retention clause, part 6: what the closing procedure leaves behind: no checkout, no holder that has
   finished, no task at all. *)
From HD Require Import common.Base http.Model pool.Model pool.Spec pool.Frames pool.ProofsLite pool.FramesC06 pool.FramesC03 pool.ProofsC03
  pool.LiveC03 pool.LiveC03b pool.LiveC03c pool.SchedC15.
Local Open Scope list_scope.

(* requests that are no checkouts are not touched by anybody else's operation *)
Definition nk (x : option nat) (s s' : state) : Prop :=
  forall r rq, x <> Some r -> get_req s r = Some rq -> is_ck rq = false -> get_req s' r = Some rq.
Lemma nk_refl x s : nk x s s. Proof. intros r rq _ H _. exact H. Qed.
Lemma nk_trans x a b c : nk x a b -> nk x b c -> nk x a c.
Proof. intros H1 H2 r rq Hx Hr Hk. apply H2; auto. Qed.
Lemma nk_of_nock x s s' : nock s s' -> nk x s s'.
Proof. intros H r rq _ Hr Hk. apply H; auto. Qed.
Lemma nk_frame x s s' : reqs s' = reqs s -> nk x s s'.
Proof. intros H. apply nk_of_nock. apply nock_frame. exact H. Qed.
Lemma nk_set_req_x r v s : nk (Some r) s (set_req r v s).
Proof. intros r' rq Hx Hr _. rewrite get_req_set_req. destruct (Nat.eqb_spec r r'); [congruence|exact Hr]. Qed.

Lemma nk_register x cfg t c s : nk x s (snd (register cfg t c s)).
Proof.
  unfold register. destruct (g_pool cfg && negb (t =? 0)); [destruct (share_of s c)|]; cbn [snd]; try apply nk_refl.
  destruct (is_open s c); [|apply nk_refl]. eapply nk_trans; [apply (nk_frame x s (clone_conn c s)); reflexivity|apply nk_of_nock; apply nock_pool_push].
Qed.

Lemma nk_checkout_poll cfg rid ck s : nk (Some rid) s (snd (checkout_poll cfg rid ck s)).
Proof.
  unfold checkout_poll. destruct (waiter_poll ck) as [w ck1]. destruct w as [|p|]; cbn [snd]; try apply nk_refl.
  destruct (k_inner ck1); cbn [snd]; try apply nk_refl.
  1: { destruct (k_conn ck1) as [c|]; cbn [snd]; [|apply nk_refl].
       pose proof (reqs_rx_drop (k_set_conn None ck1) s) as H2. destruct (rx_drop (k_set_conn None ck1) s) as [ck2 s2]. cbn [snd] in H2.
       pose proof (nk_register (Some rid) cfg (k_token ck2) c (set_req rid (RCheckout ck2) s2)) as H4.
       destruct (register cfg (k_token ck2) c (set_req rid (RCheckout ck2) s2)) as [p s3]. cbn [snd] in *.
       eapply nk_trans; [apply nk_frame; exact H2|]. eapply nk_trans; [apply nk_set_req_x|exact H4]. }
  all: pose proof (reqs_connector_poll rid ByReq s) as H1; destruct (connector_poll rid ByReq s) as [r s1]; cbn [snd] in H1;
    (destruct r as [|res]; cbn [snd]; [apply nk_frame; exact H1|]);
    pose proof (reqs_rx_drop ck1 s1) as H2; destruct (rx_drop ck1 s1) as [ck2 s2]; cbn [snd] in H2;
    assert (H3 : nk (Some rid) s (set_req rid (RCheckout (k_set_inner IConnected ck2)) s2))
      by (eapply nk_trans; [apply nk_frame; exact H1|]; eapply nk_trans; [apply nk_frame; exact H2|apply nk_set_req_x]);
    (destruct res as [c|e]; cbn [snd]; [|exact H3]);
    pose proof (nk_register (Some rid) cfg (k_token (k_set_inner IConnected ck2)) c (set_req rid (RCheckout (k_set_inner IConnected ck2)) s2)) as H4;
    destruct (register cfg (k_token (k_set_inner IConnected ck2)) c (set_req rid (RCheckout (k_set_inner IConnected ck2)) s2)) as [p s3];
    cbn [snd] in *; eapply nk_trans; [exact H3|exact H4].
Qed.

Lemma nk_pre x s s1 s' : reqs s1 = reqs s -> nk x s1 s' -> nk x s s'.
Proof. intros H1 H2. eapply nk_trans; [apply nk_frame; exact H1|exact H2]. Qed.
Lemma nk_post x s s1 s' : nk x s s1 -> reqs s' = reqs s1 -> nk x s s'.
Proof. intros H1 H2. eapply nk_trans; [exact H1|apply nk_frame; exact H2]. Qed.

Lemma nk_hold_release x r p s : nk x s (hold_release r p s).
Proof. apply nk_frame. unfold hold_release. rewrite reqs_pooled_drop. reflexivity. Qed.

Lemma nk_do_poll cfg r s : nk (Some r) s (do_poll cfg r s).
Proof.
  unfold do_poll. destruct (get_req s r) as [[|ck|p fin pl| |]|]; try apply nk_refl.
  - eapply nk_pre; [|apply nk_set_req_x]. reflexivity.
  - pose proof (nk_checkout_poll cfg r ck (unwake_req r s)) as H2.
    destruct (checkout_poll cfg r ck (unwake_req r s)) as [[res ck1] s2]. cbn [snd] in H2.
    assert (H2' : nk (Some r) s s2) by (eapply nk_pre; [|exact H2]; reflexivity).
    destruct res as [|[p|e]].
    + eapply nk_post; [eapply nk_trans; [exact H2'|apply nk_set_req_x]|reflexivity].
    + destruct (match get_conn s2 (fst p) with Some cn => (c_share cn, c_open cn, c_ready cn, c_holders cn) | None => (false, false, false, 0) end)
        as [[[sh op_] rd] hs].
      eapply nk_post; [|reflexivity]. eapply nk_trans; [|apply nk_of_nock; apply nock_checkout_drop].
      eapply nk_trans; [exact H2'|]. eapply nk_pre; [|apply nk_set_req_x]. reflexivity.
    + eapply nk_post; [|reflexivity]. eapply nk_trans; [|apply nk_of_nock; apply nock_checkout_drop].
      eapply nk_trans; [exact H2'|apply nk_set_req_x].
  - destruct fin.
    + eapply nk_post; [|reflexivity]. eapply nk_trans; [|apply nk_hold_release]. eapply nk_pre; [|apply nk_set_req_x]. reflexivity.
    + eapply nk_post; [|reflexivity]. eapply nk_pre; [|apply nk_set_req_x]. reflexivity.
Qed.

Lemma nk_run_task x cfg tid s : nk x s (run_task cfg tid s).
Proof.
  unfold run_task. destruct (nth tid (tasks s) None) as [[c t|rid t own]|]; [| |apply nk_refl].
  - destruct (get_conn s c) as [cn|]; [|apply nk_frame; reflexivity].
    assert (Hfin : forall e, nk x s (let s0 := finish_task tid (emit e s) in
               if is_open s0 c && negb (t =? 0) && g_pool cfg then pool_push (g_max_idle cfg) t c s0 else drop_conn c s0)).
    { intros e. cbv zeta. apply (nk_pre x s (finish_task tid (emit e s))); [reflexivity|].
      apply nk_of_nock. destruct (is_open _ c && negb (t =? 0) && g_pool cfg); [apply nock_pool_push|apply nock_drop_conn]. }
    destruct (negb (c_open cn)); [apply Hfin|]. destruct (c_share cn || c_ready cn); [apply Hfin|apply nk_frame; reflexivity].
  - pose proof (reqs_connector_poll rid (ByTask tid) s) as H1. destruct (connector_poll rid (ByTask tid) s) as [r s1]. cbn [snd] in H1.
    assert (Hc : forall st, nk x st (if g_pool cfg && negb (t =? 0) && own then pool_cancel t rid st else st))
      by (intros st; destruct (g_pool cfg && negb (t =? 0) && own); [apply nk_of_nock; apply nock_pool_cancel|apply nk_refl]).
    destruct r as [|[c|e]]; [apply nk_frame; exact H1| |].
    + pose proof (nk_register x cfg t c s1) as H2. destruct (register cfg t c s1) as [p s2]. cbn [snd] in H2.
      eapply nk_pre; [exact H1|]. eapply nk_trans; [exact H2|]. eapply nk_post; [apply Hc|].
      rewrite reqs_pooled_drop. reflexivity.
    + eapply nk_pre; [exact H1|]. eapply nk_post; [apply Hc|reflexivity].
Qed.

Lemma nk_bg_loop x cfg fuel : forall s, nk x s (bg_loop cfg fuel s).
Proof.
  induction fuel as [|f IH]; intros s; cbn [bg_loop]; [apply nk_refl|].
  destruct (runq s) as [|tid rest]; [apply nk_refl|]. eapply nk_trans; [|apply IH].
  eapply nk_pre; [|apply nk_run_task]. reflexivity.
Qed.

(* ---------------------------------------------------------------- a poll of a checkout with an empty channel spawns nothing *)
Lemma tasks_rx_drop_none ck s : k_slot ck = None -> snd (rx_drop ck s) = s /\ k_slot (fst (rx_drop ck s)) = None /\ k_inner (fst (rx_drop ck s)) = k_inner ck.
Proof. intros H. unfold rx_drop. rewrite H. destruct (k_waiter ck); cbn; auto. Qed.

Lemma checkout_poll_tasks cfg r ck s :
  k_slot ck = None ->
  tasks (snd (checkout_poll cfg r ck s)) = tasks s /\ k_slot (snd (fst (checkout_poll cfg r ck s))) = None
  /\ (forall y, fst (fst (checkout_poll cfg r ck s)) = KReady y -> k_inner (snd (fst (checkout_poll cfg r ck s))) <> IDelayDrop).
Proof.
  intros Hs. unfold checkout_poll, waiter_poll. rewrite Hs.
  assert (Hgen : forall ck1, k_slot ck1 = None ->
    let r3 := match k_inner ck1 with
      | IWaiting => (KReady (inr EUnavail), ck1, s)
      | IConnected => match k_conn ck1 with
                      | Some c => let '(ck0, s0) := rx_drop (k_set_conn None ck1) s in let s1 := set_req r (RCheckout ck0) s0 in
                                  let '(p, s2) := register cfg (k_token ck0) c s1 in (KReady (inl p), ck0, s2)
                      | None => (KPending, ck1, s) end
      | _ => let '(r0, s0) := connector_poll r ByReq s in
             match r0 with
             | CPending => (KPending, ck1, s0)
             | CReady res => let '(ck0, s1) := rx_drop ck1 s0 in let ck2 := k_set_inner IConnected ck0 in let s2 := set_req r (RCheckout ck2) s1 in
                             match res with inl c => let '(p, s3) := register cfg (k_token ck2) c s2 in (KReady (inl p), ck2, s3)
                                          | inr e => (KReady (inr e), ck2, s2) end
             end
      end in
    tasks (snd r3) = tasks s /\ k_slot (snd (fst r3)) = None /\ (forall y, fst (fst r3) = KReady y -> k_inner (snd (fst r3)) <> IDelayDrop)).
  { intros ck1 H1. cbv zeta.
    assert (Hconn : tasks (snd (let '(r0, s0) := connector_poll r ByReq s in
             match r0 with
             | CPending => (KPending, ck1, s0)
             | CReady res => let '(ck0, s1) := rx_drop ck1 s0 in let ck2 := k_set_inner IConnected ck0 in let s2 := set_req r (RCheckout ck2) s1 in
                             match res with inl c => let '(p, s3) := register cfg (k_token ck2) c s2 in (KReady (inl p), ck2, s3)
                                          | inr e => (KReady (inr e), ck2, s2) end
             end)) = tasks s
        /\ k_slot (snd (fst (let '(r0, s0) := connector_poll r ByReq s in
             match r0 with
             | CPending => (KPending, ck1, s0)
             | CReady res => let '(ck0, s1) := rx_drop ck1 s0 in let ck2 := k_set_inner IConnected ck0 in let s2 := set_req r (RCheckout ck2) s1 in
                             match res with inl c => let '(p, s3) := register cfg (k_token ck2) c s2 in (KReady (inl p), ck2, s3)
                                          | inr e => (KReady (inr e), ck2, s2) end
             end))) = None
        /\ (forall y, fst (fst (let '(r0, s0) := connector_poll r ByReq s in
             match r0 with
             | CPending => (KPending, ck1, s0)
             | CReady res => let '(ck0, s1) := rx_drop ck1 s0 in let ck2 := k_set_inner IConnected ck0 in let s2 := set_req r (RCheckout ck2) s1 in
                             match res with inl c => let '(p, s3) := register cfg (k_token ck2) c s2 in (KReady (inl p), ck2, s3)
                                          | inr e => (KReady (inr e), ck2, s2) end
             end)) = KReady y -> k_inner (snd (fst (let '(r0, s0) := connector_poll r ByReq s in
             match r0 with
             | CPending => (KPending, ck1, s0)
             | CReady res => let '(ck0, s1) := rx_drop ck1 s0 in let ck2 := k_set_inner IConnected ck0 in let s2 := set_req r (RCheckout ck2) s1 in
                             match res with inl c => let '(p, s3) := register cfg (k_token ck2) c s2 in (KReady (inl p), ck2, s3)
                                          | inr e => (KReady (inr e), ck2, s2) end
             end))) <> IDelayDrop)).
    { pose proof (q_tasks _ _ (Qt_connector_poll r ByReq s)) as T1. destruct (connector_poll r ByReq s) as [r0 s0]. cbn [snd] in T1.
      destruct r0 as [|res]; cbn [fst snd]; [split; [exact T1|split; [exact H1|intros y E; discriminate]]|].
      destruct (tasks_rx_drop_none ck1 s0 H1) as (E1 & E2 & E3). destruct (rx_drop ck1 s0) as [ck0 s1]. cbn [fst snd] in *. subst s1.
      destruct res as [c|e]; cbn [fst snd].
      - pose proof (q_tasks _ _ (Qt_register cfg (k_token (k_set_inner IConnected ck0)) c (set_req r (RCheckout (k_set_inner IConnected ck0)) s0))) as T2.
        destruct (register cfg _ c _) as [p s3]. cbn [fst snd] in *. split; [rewrite T2; exact T1|]. split; [exact E2|intros y _; cbn; discriminate].
      - split; [exact T1|]. split; [exact E2|intros y _; cbn; discriminate]. }
    destruct (k_inner ck1) eqn:Hi; cbn [fst snd]; try exact Hconn.
    - split; [reflexivity|]. split; [exact H1|intros y _; congruence].
    - destruct (k_conn ck1) as [c|]; cbn [fst snd]; [|split; [reflexivity|split; [exact H1|intros y E; discriminate]]].
      destruct (tasks_rx_drop_none (k_set_conn None ck1) s H1) as (E1 & E2 & E3). destruct (rx_drop (k_set_conn None ck1) s) as [ck0 s0]. cbn [fst snd] in *. subst s0.
      pose proof (q_tasks _ _ (Qt_register cfg (k_token ck0) c (set_req r (RCheckout ck0) s))) as T2.
      destruct (register cfg (k_token ck0) c (set_req r (RCheckout ck0) s)) as [p s2]. cbn [fst snd] in *.
      split; [exact T2|]. split; [exact E2|intros y _; rewrite E3; cbn; congruence]. }
  destruct (k_waiter ck); cbn [fst snd].
  - destruct (k_txdropped ck); apply Hgen; exact Hs.
  - destruct (k_txdropped ck); [apply Hgen; exact Hs|]. cbn [fst snd]. split; [reflexivity|split; [exact Hs|intros y E; discriminate]].
  - apply Hgen. exact Hs.
Qed.

Lemma checkout_drop_tasks cfg r ck s :
  k_slot ck = None -> k_inner ck <> IDelayDrop -> tasks (checkout_drop cfg r ck s) = tasks s.
Proof.
  intros Hs Hi. unfold checkout_drop.
  set (s1 := match k_conn ck with
             | Some c => if is_open s c && (g_pool cfg && negb (k_token ck =? 0)) then pool_push (g_max_idle cfg) (k_token ck) c s else drop_conn c s
             | None => s end).
  assert (H1 : tasks s1 = tasks s).
  { subst s1. destruct (k_conn ck) as [c|]; [|reflexivity].
    destruct (is_open s c && (g_pool cfg && negb (k_token ck =? 0))); [apply (q_tasks _ _ (Qt_pool_push _ _ _ _))|apply (q_tasks _ _ (Qt_drop_conn _ _))]. }
  assert (Hd : match k_inner ck with IDelayDrop => match get_dial s1 r with Some d => match d_stage d with DNew => false | _ => true end | None => false end | _ => false end = false)
    by (destruct (k_inner ck); try reflexivity; contradiction Hi; reflexivity).
  rewrite Hd.
  set (s2 := if g_pool cfg && negb (k_token ck =? 0) && k_owner ck then pool_cancel (k_token ck) r s1 else s1).
  assert (H2 : tasks s2 = tasks s1) by (subst s2; destruct (g_pool cfg && negb (k_token ck =? 0) && k_owner ck); [apply (q_tasks _ _ (Qt_pool_cancel _ _ _))|reflexivity]).
  destruct (tasks_rx_drop_none ck s2 Hs) as (E1 & _). destruct (rx_drop ck s2) as [ck' s3]. cbn [snd] in E1. subst s3.
  destruct (k_inner ck); cbn [tasks upd_dial set_dials]; congruence.
Qed.

Lemma do_poll_ck_tasks cfg r ck s :
  get_req s r = Some (RCheckout ck) -> k_slot ck = None ->
  tasks (do_poll cfg r s) = tasks s
  /\ (forall ck', get_req (do_poll cfg r s) r = Some (RCheckout ck') -> k_slot ck' = None)
  /\ (forall p f pl, get_req (do_poll cfg r s) r = Some (RHolding p f pl) -> f = false)
  /\ get_req (do_poll cfg r s) r <> None /\ get_req (do_poll cfg r s) r <> Some RError.
Proof.
  intros Hr Hs. unfold do_poll. rewrite Hr.
  destruct (checkout_poll_tasks cfg r ck (unwake_req r s) Hs) as (T1 & T2 & T3).
  pose proof (Tr_checkout_poll cfg r ck (unwake_req r s)) as HT.
  destruct (checkout_poll cfg r ck (unwake_req r s)) as [[res ck1] s2]. cbn [fst snd] in *.
  destruct (Fr_get_some _ _ _ _ _ r _ (proj1 HT) Hr) as [rq2 Hq2].
  assert (Hg : forall v, get_req (set_req r v s2) r = Some v) by (intros v; rewrite get_req_set_req, Nat.eqb_refl, Hq2; reflexivity).
  destruct res as [|[p|e]].
  - change (get_req (emit (EPend r) (set_req r (RCheckout ck1) s2)) r) with (get_req (set_req r (RCheckout ck1) s2) r). rewrite Hg.
    split; [exact T1|]. split; [intros ck' E; inversion E; subst; exact T2|]. split; [intros p f pl E; discriminate|]. split; discriminate.
  - destruct (match get_conn s2 (fst p) with Some cn => (c_share cn, c_open cn, c_ready cn, c_holders cn) | None => (false, false, false, 0) end)
      as [[[sh op_] rd] hs].
    match goal with |- tasks (emit _ (checkout_drop cfg r ck1 ?sA)) = _ /\ _ => set (s5 := sA) end.
    assert (Hq5 : get_req s5 r = Some (RHolding p false true)) by apply Hg.
    assert (Hq6 : get_req (emit (EPend r) (checkout_drop cfg r ck1 s5)) r = Some (RHolding p false true))
      by (change (get_req (checkout_drop cfg r ck1 s5) r = Some (RHolding p false true)); apply (nock_checkout_drop cfg r ck1 s5 r _ Hq5 eq_refl)).
    rewrite Hq6. split.
    + change (tasks (checkout_drop cfg r ck1 s5) = tasks s). rewrite (checkout_drop_tasks cfg r ck1 s5 T2 (T3 _ eq_refl)). exact T1.
    + split; [intros ck' E; discriminate|]. split; [intros p0 f pl E; inversion E; reflexivity|]. split; discriminate.
  - assert (Hq3 : get_req (set_req r RDone s2) r = Some RDone) by apply Hg.
    assert (Hq6 : get_req (emit (ERes r (RErr e)) (checkout_drop cfg r ck1 (set_req r RDone s2))) r = Some RDone)
      by (change (get_req (checkout_drop cfg r ck1 (set_req r RDone s2)) r = Some RDone); apply (nock_checkout_drop cfg r ck1 _ r _ Hq3 eq_refl)).
    rewrite Hq6. split.
    + change (tasks (checkout_drop cfg r ck1 (set_req r RDone s2)) = tasks s). rewrite (checkout_drop_tasks cfg r ck1 _ T2 (T3 _ eq_refl)). exact T1.
    + split; [intros ck' E; discriminate|]. split; [intros p0 f pl E; discriminate|]. split; discriminate.
Qed.

(* ---------------------------------------------------------------- end-of-drain predicates *)
Definition Z2 (s : state) (r : nat) : Prop :=
  exists rq, get_req s r = Some rq /\ match rq with RError | RCheckout _ | RHolding _ true _ => False | _ => True end.
Definition NT (s : state) : Prop := forall tid, nth tid (tasks s) None = None.
Definition W0 (s : state) : Prop := forall c, waiters s c = [] /\ rdy s c = true.

Lemma Z2_nock s r : Z2 s r -> exists rq, get_req s r = Some rq /\ is_ck rq = false.
Proof. intros [rq [H1 H2]]. exists rq. split; [exact H1|]. destruct rq; auto; contradiction. Qed.

Lemma Z2_keep x s s' r : nk x s s' -> x <> Some r -> Z2 s r -> Z2 s' r.
Proof.
  intros Hn Hx [rq [H1 H2]]. exists rq. split; [|exact H2]. apply Hn; auto. destruct rq; auto; contradiction.
Qed.

(* polling a request that neither waits nor has finished changes nothing but its poll flag *)
Lemma Z2_poll cfg s r : Z2 s r -> Z2 (do_poll cfg r s) r /\ tasks (do_poll cfg r s) = tasks s.
Proof.
  intros [rq [H1 H2]]. unfold do_poll. rewrite H1. destruct rq as [|ck|p fin pl| |]; try contradiction.
  - destruct fin; [contradiction|]. split; [|reflexivity]. exists (RHolding p false true). split; [|exact Logic.I].
    change (get_req (set_req r (RHolding p false true) (unwake_req r s)) r = Some (RHolding p false true)).
    rewrite get_req_set_req, Nat.eqb_refl. change (get_req (unwake_req r s) r) with (get_req s r). rewrite H1. reflexivity.
  - split; [exists RDone; auto|reflexivity].
  - split; [exists RCancelled; auto|reflexivity].
Qed.

(* ---------------------------------------------------------------- background runs *)
Lemma bg_loop_NT cfg fuel : forall s, NT s -> tasks (bg_loop cfg fuel s) = tasks s.
Proof.
  induction fuel as [|f IH]; intros s H; cbn [bg_loop]; [reflexivity|].
  destruct (runq s) as [|tid rest]; [reflexivity|].
  assert (E : run_task cfg tid (set_runq rest s) = set_runq rest s) by (unfold run_task; change (tasks (set_runq rest s)) with (tasks s); rewrite (H tid); reflexivity).
  rewrite E. rewrite IH; [reflexivity|exact H].
Qed.

Definition only_ready (s : state) : Prop := forall tid rid t own, nth tid (tasks s) None <> Some (TDelayed rid t own).

(* with every connection ready, a hand-back task that runs finishes *)
Lemma run_ready_task cfg tid c t s :
  W0 s -> nth tid (tasks s) None = Some (TWhenReady c t) ->
  let s' := run_task cfg tid s in
  tasks s' = upd_nth tid (fun _ => None) (tasks s) /\ W0 s' /\ runq s' = runq s.
Proof.
  intros HW Ht. cbv zeta. unfold run_task. rewrite Ht.
  assert (Hf : forall e, let s0 := finish_task tid (emit e s) in
             let s' := if is_open s0 c && negb (t =? 0) && g_pool cfg then pool_push (g_max_idle cfg) t c s0 else drop_conn c s0 in
             tasks s' = upd_nth tid (fun _ => None) (tasks s) /\ W0 s' /\ runq s' = runq s).
  { intros e. cbv zeta. set (s0 := finish_task tid (emit e s)).
    assert (Q : Qt s0 (if is_open s0 c && negb (t =? 0) && g_pool cfg then pool_push (g_max_idle cfg) t c s0 else drop_conn c s0))
      by (destruct (is_open s0 c && negb (t =? 0) && g_pool cfg); [apply Qt_pool_push|apply Qt_drop_conn]).
    destruct Q as [Q1 Q2 Q3 Q4 _]. split; [rewrite Q1; reflexivity|]. split; [|rewrite Q4; reflexivity].
    intros c'. rewrite Q2, Q3. apply (HW c'). }
  destruct (get_conn s c) as [cn|] eqn:Hc.
  2: { split; [reflexivity|]. split; [exact HW|reflexivity]. }
  destruct (negb (c_open cn)); [apply Hf|].
  assert (Hr : c_ready cn = true) by (destruct (HW c) as [_ R]; unfold rdy in R; rewrite Hc in R; exact R).
  rewrite Hr, orb_true_r. apply Hf.
Qed.

Lemma bg_flush cfg fuel : forall s,
  W0 s -> only_ready s ->
  (forall tid c t, nth tid (tasks s) None = Some (TWhenReady c t) -> In tid (firstn fuel (runq s))) ->
  NT (bg_loop cfg fuel s).
Proof.
  induction fuel as [|f IH]; intros s HW Ho Hin; cbn [bg_loop].
  - intros tid. destruct (nth tid (tasks s) None) as [[c t|rid t own]|] eqn:E; [destruct (Hin _ _ _ E)|destruct (Ho _ _ _ _ E)|reflexivity].
  - destruct (runq s) as [|tid rest] eqn:Hq.
    { intros tid. destruct (nth tid (tasks s) None) as [[c t|rid t own]|] eqn:E; [destruct (Hin _ _ _ E)|destruct (Ho _ _ _ _ E)|reflexivity]. }
    set (s0 := set_runq rest s).
    assert (HW0 : W0 s0) by exact HW.
    destruct (nth tid (tasks s) None) as [[c t|rid t own]|] eqn:Ht.
    + destruct (run_ready_task cfg tid c t s0 HW0 Ht) as (T1 & T2 & T3). cbv zeta in *.
      apply IH; [exact T2| |].
      * intros tid' rid t' own E. rewrite T1 in E. change (tasks s0) with (tasks s) in E.
        destruct (Nat.eq_dec tid tid') as [<-|Hne]; [|rewrite nth_upd_nth_other in E by exact Hne; exact (Ho _ _ _ _ E)].
        destruct (Nat.lt_ge_cases tid (List.length (tasks s))) as [Hl|Hl]; [rewrite nth_upd_nth_same in E by exact Hl; discriminate|].
        rewrite nth_overflow in E by (rewrite upd_nth_length; exact Hl). discriminate.
      * intros tid' c' t' E. rewrite T1 in E. change (tasks s0) with (tasks s) in E. rewrite T3. change (runq s0) with rest.
        destruct (Nat.eq_dec tid tid') as [<-|Hne].
        { destruct (Nat.lt_ge_cases tid (List.length (tasks s))) as [Hl|Hl]; [rewrite nth_upd_nth_same in E by exact Hl; discriminate|].
          rewrite nth_overflow in E by (rewrite upd_nth_length; exact Hl). discriminate. }
        rewrite nth_upd_nth_other in E by exact Hne. pose proof (Hin _ _ _ E) as Hi. cbn [firstn] in Hi. destruct Hi as [Hi|Hi]; [congruence|exact Hi].
    + destruct (Ho _ _ _ _ Ht).
    + assert (E : run_task cfg tid s0 = s0) by (unfold run_task; change (tasks s0) with (tasks s); rewrite Ht; reflexivity).
      rewrite E. apply IH; [exact HW0|exact Ho|]. intros tid' c' t' E'. change (tasks s0) with (tasks s) in E'. change (runq s0) with rest.
      pose proof (Hin _ _ _ E') as Hi. cbn [firstn] in Hi. destruct Hi as [Hi|Hi]; [|exact Hi]. subst tid'. congruence.
Qed.

(* ---------------------------------------------------------------- every connection reports ready *)
Lemma conns_wake_tasks l : forall s, conns (wake_tasks l s) = conns s /\ tasks (wake_tasks l s) = tasks s /\ reqs (wake_tasks l s) = reqs s.
Proof.
  induction l as [|t l IH]; intros s; cbn [wake_tasks]; [auto|]. destruct (IH (wake_task t s)) as (E1 & E2 & E3).
  assert (E : conns (wake_task t s) = conns s /\ tasks (wake_task t s) = tasks s /\ reqs (wake_task t s) = reqs s)
    by (unfold wake_task; destruct (existsb (Nat.eqb t) (runq s)); auto).
  destruct E as (F1 & F2 & F3). repeat split; congruence.
Qed.

Lemma conn_ready_facts cfg c s :
  let s' := step cfg s (ConnReady c) in
  reqs s' = reqs s /\ tasks s' = tasks s
  /\ waiters s' c = [] /\ rdy s' c = true
  /\ forall c', c' <> c -> waiters s' c' = waiters s c' /\ rdy s' c' = rdy s c'.
Proof.
  cbv zeta. unfold step, do_conn_ready. change (get_conn (set_out [] s) c) with (get_conn s c).
  destruct (get_conn s c) as [cn|] eqn:Hc.
  2: { repeat split; auto; unfold waiters, rdy; change (get_conn (set_out [] s) c) with (get_conn s c); rewrite Hc; reflexivity. }
  unfold drain_conn_waiters.
  set (s1 := upd_conn c (c_set_ready true) (set_out [] s)).
  assert (Hc1 : get_conn s1 c = Some (c_set_ready true cn)) by (unfold s1; rewrite get_conn_upd_conn, Nat.eqb_refl; change (get_conn (set_out [] s) c) with (get_conn s c); rewrite Hc; reflexivity).
  rewrite Hc1.
  set (s2 := upd_conn c (c_set_waiters []) s1).
  destruct (conns_wake_tasks (c_waiters (c_set_ready true cn)) s2) as (E1 & E2 & E3).
  assert (Hg : forall c', get_conn (wake_tasks (c_waiters (c_set_ready true cn)) s2) c' = get_conn s2 c') by (intros c'; unfold get_conn; rewrite E1; reflexivity).
  assert (Hc2 : get_conn s2 c = Some (c_set_waiters [] (c_set_ready true cn))) by (unfold s2; rewrite get_conn_upd_conn, Nat.eqb_refl, Hc1; reflexivity).
  split; [rewrite E3; reflexivity|]. split; [rewrite E2; reflexivity|].
  split; [unfold waiters; rewrite Hg, Hc2; reflexivity|]. split; [unfold rdy; rewrite Hg, Hc2; reflexivity|].
  intros c' Hne. unfold waiters, rdy. rewrite Hg. unfold s2, s1. rewrite !get_conn_upd_conn.
  destruct (Nat.eqb_spec c c'); [congruence|]. split; reflexivity.
Qed.

Lemma conn_ready_all cfg : forall k s0 s,
  (forall c, c < s0 -> waiters s c = [] /\ rdy s c = true) ->
  let s' := fold_left (step cfg) (map ConnReady (seq s0 k)) s in
  reqs s' = reqs s /\ tasks s' = tasks s /\ forall c, c < s0 + k -> waiters s' c = [] /\ rdy s' c = true.
Proof.
  induction k as [|k IH]; intros s0 s H; cbn [seq map fold_left].
  - split; [reflexivity|]. split; [reflexivity|]. intros c Hc. apply H. lia.
  - destruct (conn_ready_facts cfg s0 s) as (R1 & R2 & R3 & R4 & R5). cbv zeta in *.
    destruct (IH (S s0) (step cfg s (ConnReady s0))) as (E1 & E2 & E3).
    + intros c Hc. destruct (Nat.eq_dec c s0) as [->|Hne]; [auto|]. destruct (R5 c Hne) as [F1 F2]. rewrite F1, F2. apply H. lia.
    + split; [congruence|]. split; [congruence|]. intros c Hc. apply E3. lia.
Qed.

Lemma W0_of_ready_all s k : List.length (conns s) <= k -> (forall c, c < k -> waiters s c = [] /\ rdy s c = true) -> W0 s.
Proof.
  intros Hk H c. destruct (Nat.lt_ge_cases c k) as [Hc|Hc]; [apply H; exact Hc|].
  unfold waiters, rdy, get_conn. rewrite (proj2 (nth_error_None _ _)) by lia. auto.
Qed.

(* ---------------------------------------------------------------- folds over the request ids *)
Lemma TW_GN_steps cfg l : forall s, TW s -> GN s -> TW (fold_left (step cfg) l s) /\ GN (fold_left (step cfg) l s).
Proof. induction l as [|o l IH]; intros s H1 H2; cbn [fold_left]; [auto|]. destruct (TW_GN_step cfg s o H1 H2). apply IH; assumption. Qed.

Lemma nk_step_poll cfg s r : nk (Some r) s (step cfg s (Poll r)).
Proof. unfold step. eapply nk_pre; [|apply nk_do_poll]. reflexivity. Qed.
Lemma nk_step_bg cfg s : nk None s (step cfg s Bg).
Proof. unfold step, do_bg. eapply nk_pre; [|apply nk_bg_loop]. reflexivity. Qed.

(* a holder has finished *)
Definition HF (s : state) (r : nat) : Prop :=
  exists rq, get_req s r = Some rq /\ is_lv rq = false /\ forall p f pl, rq = RHolding p f pl -> f = true.

Lemma HF_keep x s s' r : nk x s s' -> x <> Some r -> HF s r -> HF s' r.
Proof. intros Hn Hx [rq [H1 [H2 H3]]]. exists rq. split; [|auto]. apply Hn; auto. destruct rq; auto; discriminate. Qed.

Lemma finish_other r0 s r : r0 <> r -> get_req (do_finish r0 s) r = get_req s r.
Proof.
  intros Hne. unfold do_finish. destruct (get_req s r0) as [[|ck|p fin pl| |]|]; try reflexivity.
  destruct pl; [change (get_req (wake_req r0 (set_req r0 (RHolding p true false) s)) r) with (get_req (set_req r0 (RHolding p true false) s) r)|];
    rewrite get_req_set_req; destruct (Nat.eqb_spec r0 r); congruence.
Qed.

Lemma finish_self r s : nlv s r -> HF (do_finish r s) r.
Proof.
  intros [rq [H1 H2]]. unfold do_finish. rewrite H1. destruct rq as [|ck|p fin pl| |]; try discriminate.
  - exists (RHolding p true false). split; [|split; [reflexivity|intros p0 f pl0 E; inversion E; reflexivity]].
    destruct pl; [change (get_req (wake_req r (set_req r (RHolding p true false) s)) r) with (get_req (set_req r (RHolding p true false) s) r)|];
      rewrite get_req_set_req, Nat.eqb_refl, H1; reflexivity.
  - exists RDone. split; [exact H1|split; [reflexivity|intros p f pl E; discriminate]].
  - exists RCancelled. split; [exact H1|split; [reflexivity|intros p f pl E; discriminate]].
Qed.

Lemma fold_finish cfg : forall k s0 s,
  (forall r, s0 <= r < s0 + k -> nlv s r) -> (forall r, r < s0 -> HF s r) ->
  forall r, r < s0 + k -> HF (fold_left (step cfg) (map Finish (seq s0 k)) s) r.
Proof.
  induction k as [|k IH]; intros s0 s Hn Hh r Hr; cbn [seq map fold_left]; [apply Hh; lia|].
  assert (Hst : forall r', r' <> s0 -> get_req (step cfg s (Finish s0)) r' = get_req s r') by (intros r' Hne; unfold step; rewrite (finish_other s0 (set_out [] s) r') by congruence; reflexivity).
  apply (IH (S s0) (step cfg s (Finish s0))); [| |lia].
  - intros r' Hr'. destruct (Hn r' ltac:(lia)) as [rq [H1 H2]]. exists rq. rewrite Hst by lia. auto.
  - intros r' Hr'. destruct (Nat.eq_dec r' s0) as [->|Hne].
    + unfold step. apply finish_self. destruct (Hn s0 ltac:(lia)) as [rq Hq]. exists rq. exact Hq.
    + destruct (Hh r' ltac:(lia)) as [rq [H1 H2]]. exists rq. rewrite Hst by exact Hne. auto.
Qed.

(* polling a holder that has finished, or a request that is done *)
Lemma HF_poll cfg s r : HF s r -> Z2 (do_poll cfg r s) r.
Proof.
  intros [rq [H1 [H2 H3]]]. unfold do_poll. rewrite H1. destruct rq as [|ck|p fin pl| |]; try discriminate.
  - rewrite (H3 p fin pl eq_refl). exists RDone. split; [|exact Logic.I].
    change (get_req (hold_release r p (set_req r RDone (unwake_req r s))) r = Some RDone).
    unfold hold_release, get_req. rewrite reqs_pooled_drop. change (get_req (set_req r RDone (unwake_req r s)) r = Some RDone).
    rewrite get_req_set_req, Nat.eqb_refl. change (get_req (unwake_req r s) r) with (get_req s r). rewrite H1. reflexivity.
  - exists RDone. auto.
  - exists RCancelled. auto.
Qed.

Lemma fold_poll_HF cfg : forall k s0 s,
  (forall r, s0 <= r < s0 + k -> HF s r) -> (forall r, r < s0 -> Z2 s r) ->
  forall r, r < s0 + k -> Z2 (fold_left (step cfg) (map Poll (seq s0 k)) s) r.
Proof.
  induction k as [|k IH]; intros s0 s Hn Hh r Hr; cbn [seq map fold_left]; [apply Hh; lia|].
  apply (IH (S s0) (step cfg s (Poll s0))); [| |lia].
  - intros r' Hr'. eapply HF_keep; [apply nk_step_poll|intros E; inversion E; lia|apply Hn; lia].
  - intros r' Hr'. destruct (Nat.eq_dec r' s0) as [->|Hne].
    + unfold step. apply HF_poll. destruct (Hn s0 ltac:(lia)) as [rq Hq]. exists rq. exact Hq.
    + eapply Z2_keep; [apply nk_step_poll|congruence|apply Hh; lia].
Qed.

Lemma fold_poll_Z2 cfg : forall k s0 s,
  (forall r, r < s0 + k -> Z2 s r) ->
  (forall r, r < s0 + k -> Z2 (fold_left (step cfg) (map Poll (seq s0 k)) s) r) /\ tasks (fold_left (step cfg) (map Poll (seq s0 k)) s) = tasks s.
Proof.
  induction k as [|k IH]; intros s0 s Hz; cbn [seq map fold_left]; [auto|].
  destruct (Z2_poll cfg (set_out [] s) s0) as [Z1 T1]; [destruct (Hz s0 ltac:(lia)) as [rq Hq]; exists rq; exact Hq|].
  destruct (IH (S s0) (step cfg s (Poll s0))) as [E1 E2].
  - intros r' Hr'. destruct (Nat.eq_dec r' s0) as [->|Hne]; [exact Z1|]. eapply Z2_keep; [apply nk_step_poll|congruence|apply Hz; lia].
  - split; [intros r' Hr'; apply E1; lia|]. rewrite E2. exact T1.
Qed.

(* ---------------------------------------------------------------- the probe *)
Definition PB (s : state) (r : nat) : Prop :=
  exists rq, get_req s r = Some rq /\ match rq with RCheckout ck => k_slot ck = None | RHolding _ true _ => False | _ => True end.

Lemma issue_shape cfg u p s :
  exists rq, reqs (step cfg s (Issue u p)) = reqs s ++ [rq] /\ match rq with RCheckout ck => k_slot ck = None | RError => True | _ => False end.
Proof.
  unfold step, do_issue. cbv zeta.
  assert (Hadd : forall st rq d, reqs st = reqs s -> match rq with RCheckout ck => k_slot ck = None | RError => True | _ => False end ->
            exists rq0, reqs (set_dials (dials st ++ [d]) (set_reqs (reqs st ++ [rq]) st)) = reqs s ++ [rq0]
                        /\ match rq0 with RCheckout ck => k_slot ck = None | RError => True | _ => False end).
  { intros st rq d R Hq. exists rq. cbn [reqs set_dials set_reqs]. rewrite R. auto. }
  destruct (nth u (g_uris cfg) None) as [k|]; [|apply Hadd; [reflexivity|exact Logic.I]].
  destruct (negb (g_pool cfg)); [apply Hadd; reflexivity|].
  pose proof (rd_key_insert k (set_woken (woken (set_out [] s) ++ [false]) (set_out [] s))) as [R1 _].
  destruct (key_insert k _) as [t s1]. cbn [snd] in R1.
  pose proof (rd_pool_pop (g_timeout cfg) t s1) as [R2 _]. destruct (pool_pop (g_timeout cfg) t s1) as [found s2]. cbn [snd] in R2.
  assert (R : reqs s2 = reqs s) by (rewrite R2, R1; reflexivity).
  destruct found as [c|]; [apply Hadd; [exact R|reflexivity]|].
  destruct (match p_marker (get_tok s2 t) with Some _ => true | None => false end).
  - apply Hadd; [destruct t; exact R|reflexivity].
  - apply Hadd; [destruct p, t; exact R|reflexivity].
Qed.

Lemma PB_poll cfg s r : PB s r -> PB (do_poll cfg r s) r /\ tasks (do_poll cfg r s) = tasks s.
Proof.
  intros [rq [H1 H2]]. destruct rq as [|ck|p fin pl| |].
  - unfold do_poll. rewrite H1. split; [|reflexivity]. exists RDone. split; [|exact Logic.I].
    rewrite get_req_set_req, Nat.eqb_refl. change (get_req (emit _ (unwake_req r s)) r) with (get_req s r). rewrite H1. reflexivity.
  - destruct (do_poll_ck_tasks cfg r ck s H1 H2) as (T1 & T2 & T3 & T4 & T5). split; [|exact T1].
    destruct (get_req (do_poll cfg r s) r) as [[|ck'|p' f' pl'| |]|] eqn:E; try congruence.
    + exists (RCheckout ck'). split; [exact E|apply T2; reflexivity].
    + exists (RHolding p' f' pl'). split; [exact E|]. rewrite (T3 p' f' pl' eq_refl). exact Logic.I.
    + exists RDone. split; [exact E|exact Logic.I].
    + exists RCancelled. split; [exact E|exact Logic.I].
  - destruct fin; [contradiction|]. destruct (Z2_poll cfg s r) as [[rq' [Q1 Q2]] T]; [exists (RHolding p false pl); auto|].
    split; [|exact T]. exists rq'. split; [exact Q1|]. destruct rq' as [|ck'|p' f' pl'| |]; try contradiction; try exact Logic.I. destruct f'; [contradiction|exact Logic.I].
  - destruct (Z2_poll cfg s r) as [[rq' [Q1 Q2]] T]; [exists RDone; auto|]. split; [|exact T]. exists rq'. split; [exact Q1|].
    destruct rq' as [|ck'|p' f' pl'| |]; try contradiction; try exact Logic.I. destruct f'; [contradiction|exact Logic.I].
  - destruct (Z2_poll cfg s r) as [[rq' [Q1 Q2]] T]; [exists RCancelled; auto|]. split; [|exact T]. exists rq'. split; [exact Q1|].
    destruct rq' as [|ck'|p' f' pl'| |]; try contradiction; try exact Logic.I. destruct f'; [contradiction|exact Logic.I].
Qed.

Lemma probe_NT cfg n u p s :
  List.length (reqs s) = n -> NT s ->
  NT (fold_left (step cfg) [Issue u p; Poll n; DialDone n (DOk false); Poll n] s).
Proof.
  intros Hn HT. cbn [fold_left].
  destruct (issue_shape cfg u p s) as [rq [R Hq]].
  set (sa := step cfg s (Issue u p)) in *.
  assert (Ta : tasks sa = tasks s) by (unfold sa, step; apply (q_tasks _ _ (Qt_do_issue cfg u p (set_out [] s)))).
  assert (Pa : PB sa n).
  { exists rq. split; [unfold get_req; rewrite R, <- Hn; apply nth_error_app_last|]. destruct rq as [|ck|? ? ?| |]; auto; contradiction. }
  destruct (PB_poll cfg (set_out [] sa) n Pa) as [Pb Tb]. change (do_poll cfg n (set_out [] sa)) with (step cfg sa (Poll n)) in *. set (sb := step cfg sa (Poll n)) in *.
  destruct (dial_done_facts n (DOk false) (set_out [] sb)) as (S1 & S2 & _). cbv zeta in *.
  change (do_dial_done n (DOk false) (set_out [] sb)) with (step cfg sb (DialDone n (DOk false))) in *. set (sc := step cfg sb (DialDone n (DOk false))) in *.
  assert (Pc : PB sc n) by (destruct Pb as [rq' [Q1 Q2]]; exists rq'; split; [unfold get_req; rewrite S1; exact Q1|exact Q2]).
  destruct (PB_poll cfg (set_out [] sc) n Pc) as [_ Td].
  intros tid. change (step cfg sc (Poll n)) with (do_poll cfg n (set_out [] sc)). rewrite Td. change (tasks (set_out [] sc)) with (tasks sc).
  rewrite S2. change (tasks (set_out [] sb)) with (tasks sb). rewrite Tb. change (tasks (set_out [] sa)) with (tasks sa). rewrite Ta. apply HT.
Qed.

(* ---------------------------------------------------------------- the second half of the closing procedure *)
Lemma nlv_of_ZZ s r : islv s r = false -> r < List.length (reqs s) -> nlv s r.
Proof.
  intros H Hr. unfold islv in H. destruct (get_req s r) as [rq|] eqn:E; [exists rq; auto|]. apply nth_error_None in E. lia.
Qed.
Lemma gone_le l : gone l <= List.length l.
Proof. unfold gone. induction l as [|d l IH]; cbn; [lia|]. destruct (is_gone_d d); cbn; lia. Qed.

Lemma drain_tail cfg n u p s :
  Reach cfg s -> List.length (reqs s) = n -> (forall r, E3 s r) -> (forall r, no_task s r) -> TW s -> GN s ->
  let rs := seq 0 n in
  let lB := map Poll rs ++ [Bg] ++ map Finish rs ++ map Poll rs ++ map ConnReady (seq 0 (S n)) ++ [Bg] ++ map Poll rs in
  NT (fold_left (step cfg) [Issue u p; Poll n; DialDone n (DOk false); Poll n] (fold_left (step cfg) lB s)).
Proof.
  intros HR Hn HE Hno HTW HGN. cbv zeta. rewrite !fold_left_app. cbn [fold_left].
  (* 7 *)
  destruct (phase_n cfg Poll (fun s r => E3 s r /\ no_task s r) ZN n s (Stb_and _ _ Stb_E3 Stb_NT) Stb_ZN other_poll (fun _ => Logic.I)
              (step_poll_E3 cfg) HR Hn (fun r _ => conj (HE r) (Hno r))) as (R7 & N7 & P7).
  set (s7 := fold_left (step cfg) (map Poll (seq 0 n)) s) in *.
  pose proof (ZN_all cfg n s7 R7 N7 P7) as Z7.
  destruct (TW_GN_steps cfg (map Poll (seq 0 n)) s HTW HGN) as [TW7 GN7]. fold s7 in TW7, GN7.
  (* 8 *)
  destruct (ZN_list cfg n [Bg] s7) as (R8 & N8 & Z8); auto.
  { intros o r [<-|[]]. exact Logic.I. } { intros o [<-|[]]. exact Logic.I. }
  destruct (TW_GN_steps cfg [Bg] s7 TW7 GN7) as [TW8 GN8].
  cbn [fold_left] in *. set (s8 := step cfg s7 Bg) in *.
  (* 9 *)
  destruct (ZN_list cfg n (map Finish (seq 0 n)) s8) as (R9 & N9 & Z9); auto.
  { intros o r Hin. destruct (in_map_seq _ _ _ _ Hin) as [r0 ->]. exact Logic.I. }
  { intros o Hin. destruct (in_map_seq _ _ _ _ Hin) as [r0 ->]. exact Logic.I. }
  destruct (TW_GN_steps cfg (map Finish (seq 0 n)) s8 TW8 GN8) as [TW9 GN9].
  assert (H9 : forall r, r < n -> HF (fold_left (step cfg) (map Finish (seq 0 n)) s8) r).
  { intros r Hr. apply (fold_finish cfg n 0 s8); [|intros r' Hr'; lia|lia].
    intros r' Hr'. apply nlv_of_ZZ; [apply (Z8 r')|lia]. }
  set (s9 := fold_left (step cfg) (map Finish (seq 0 n)) s8) in *.
  (* 10 *)
  destruct (ZN_poll_all cfg n s9 R9 N9 Z9) as (R10 & N10 & Z10).
  destruct (TW_GN_steps cfg (map Poll (seq 0 n)) s9 TW9 GN9) as [TW10 GN10].
  assert (H10 : forall r, r < n -> Z2 (fold_left (step cfg) (map Poll (seq 0 n)) s9) r).
  { intros r Hr. apply (fold_poll_HF cfg n 0 s9); [intros r' Hr'; apply H9; lia|intros r' Hr'; lia|lia]. }
  set (s10 := fold_left (step cfg) (map Poll (seq 0 n)) s9) in *.
  (* 11 *)
  destruct (ZN_list cfg n (map ConnReady (seq 0 (S n))) s10) as (R11 & N11 & Z11); auto.
  { intros o r Hin. destruct (in_map_seq _ _ _ _ Hin) as [r0 ->]. exact Logic.I. }
  { intros o Hin. destruct (in_map_seq _ _ _ _ Hin) as [r0 ->]. exact Logic.I. }
  destruct (TW_GN_steps cfg (map ConnReady (seq 0 (S n))) s10 TW10 GN10) as [TW11 GN11].
  destruct (conn_ready_all cfg (S n) 0 s10) as (Q1 & Q2 & Q3); [intros c Hc; lia|]. cbv zeta in *.
  set (s11 := fold_left (step cfg) (map ConnReady (seq 0 (S n))) s10) in *.
  assert (W11 : W0 s11).
  { apply (W0_of_ready_all s11 (S n)); [|exact Q3]. pose proof (Reach_dlen cfg s11 R11) as Hd. pose proof (gone_le (dials s11)). unfold GN in GN11. lia. }
  assert (H11 : forall r, r < n -> Z2 s11 r) by (intros r Hr; destruct (H10 r Hr) as [rq Hq]; exists rq; unfold get_req; rewrite Q1; exact Hq).
  (* 12 *)
  destruct (ZN_list cfg n [Bg] s11) as (R12 & N12 & Z12); auto.
  { intros o r [<-|[]]. exact Logic.I. } { intros o [<-|[]]. exact Logic.I. }
  cbn [fold_left] in *.
  assert (NT12 : NT (step cfg s11 Bg)).
  { unfold step, do_bg. apply bg_flush.
    - exact W11.
    - intros tid rid t own E. exact (proj2 (Z11 rid) tid t own E).
    - intros tid c t E. rewrite firstn_all2 by lia. destruct (TW11 tid c t E) as [Hq|Hq]; [exact Hq|].
      rewrite (proj1 (W11 c)) in Hq. destruct Hq. }
  assert (H12 : forall r, r < n -> Z2 (step cfg s11 Bg) r) by (intros r Hr; eapply Z2_keep; [apply nk_step_bg|discriminate|apply H11; exact Hr]).
  set (s12 := step cfg s11 Bg) in *.
  (* 13 *)
  destruct (ZN_poll_all cfg n s12 R12 N12 Z12) as (R13 & N13 & Z13).
  destruct (fold_poll_Z2 cfg n 0 s12 H12) as [H13 T13].
  set (s13 := fold_left (step cfg) (map Poll (seq 0 n)) s12) in *.
  assert (NT13 : NT s13) by (intros tid; rewrite T13; apply NT12).
  (* the probe *)
  apply probe_NT; [exact N13|exact NT13].
Qed.
