(* Correspondence for M-POOL: the harness (harness/src/bin/pool.rs) prints, after every op, the
   events, the pool snapshot (verif-hooks) and the set of woken requests; [trace] computes the same
   for the model.  Each property compares its own projection of the observations (DESIGN 6.3). *)
From HD Require Import common.Base http.Model pool.Model pool.Spec pool.SpecC04d.
From HD Require Import pool.SpecC15d.
Local Open Scope string_scope.

(* [k_drained]: the driver appended the closing procedure [drain_ops] (checked, not trusted: see
   [well_formed]) *)
Record case := mkCase { k_cfg : config; k_ops : list op; k_drained : option (nat * proto) }.

Definition op_eqb (a b : op) : bool :=
  match a, b with
  | Issue u p, Issue u' p' => Nat.eqb u u' && match p, p' with H1, H1 | H2, H2 => true | _, _ => false end
  | Poll r, Poll r' | Cancel r, Cancel r' | Finish r, Finish r' | Upgrade r, Upgrade r'
  | ConnReady r, ConnReady r' | ConnClose r, ConnClose r' => Nat.eqb r r'
  | DialDone r x, DialDone r' x' =>
      Nat.eqb r r' && match x, x' with DOk a, DOk b => Bool.eqb a b | DErrConnect, DErrConnect | DErrHandshake, DErrHandshake => true | _, _ => false end
  | Bg, Bg => true
  | Tick a, Tick b => N.eqb a b
  | _, _ => false
  end.

(* does [ops] end with the closing procedure for its own number of requests? *)
Definition well_formed (c : case) : bool :=
  match k_drained c with
  | None => true
  | Some (u, p) =>
      let ops := k_ops c in
      let n := count_issues ops - 1 in
      let d := drain_ops n u p in
      list_eqb op_eqb (skipn (List.length ops - List.length d) ops) d
      && Nat.eqb (count_issues (firstn (List.length ops - List.length d) ops)) n
  end.
Definition obs := list opobs.

Definition key_str_eqb (a b : key) : bool := String.eqb (fst a) (fst b) && String.eqb (snd a) (snd b).
Definition err_eqb (a b : err) : bool :=
  match a, b with EConn, EConn | EHs, EHs | EUnavail, EUnavail | EUri, EUri => true | _, _ => false end.
Definition rres_eqb (a b : rres) : bool :=
  match a, b with ROk, ROk => true | RErr x, RErr y => err_eqb x y | _, _ => false end.

Definition ev_eqb (a b : ev) : bool :=
  match a, b with
  | EDial r k, EDial r' k' => Nat.eqb r r' && key_str_eqb k k'
  | ENew c s r, ENew c' s' r' => Nat.eqb c c' && Bool.eqb s s' && Nat.eqb r r'
  | EHand r c u o y h, EHand r' c' u' o' y' h' =>
      Nat.eqb r r' && Nat.eqb c c' && Bool.eqb u u' && Bool.eqb o o' && Bool.eqb y y' && Nat.eqb h h'
  | EPend r, EPend r' => Nat.eqb r r'
  | ERes r x, ERes r' x' => Nat.eqb r r' && rres_eqb x x'
  | ERel r c, ERel r' c' => Nat.eqb r r' && Nat.eqb c c'
  | EDrop c, EDrop c' => Nat.eqb c c'
  | ERdy c k, ERdy c' k' => Nat.eqb c c' && Bool.eqb k k'
  | _, _ => false
  end.

Definition snap_eqb (a b : snap) : bool :=
  Nat.eqb (sn_token a) (sn_token b) && list_eqb Nat.eqb (sn_idle a) (sn_idle b)
  && Nat.eqb (sn_live a) (sn_live b) && Nat.eqb (sn_closed a) (sn_closed b) && Bool.eqb (sn_marker a) (sn_marker b).

Definition opobs_eqb (a b : opobs) : bool :=
  list_eqb ev_eqb (o_events a) (o_events b) && list_eqb snap_eqb (o_snap a) (o_snap b)
  && list_eqb Nat.eqb (o_woken a) (o_woken b).

Definition model_obs (c : case) : obs := trace (k_cfg c) (k_ops c).

Definition obs_eqb (a b : obs) : bool := list_eqb opobs_eqb a b.

(* full correspondence, used while developing and by every pool property as the outer tie *)
Definition full_eq (c : case) (o : obs) : bool := obs_eqb (model_obs c) o.

(* first op index at which model and implementation differ (for replay files) *)
Fixpoint first_diff (i : N) (a b : obs) : option N :=
  match a, b with
  | [], [] => None
  | x :: a', y :: b' => if opobs_eqb x y then first_diff (N.succ i) a' b' else Some i
  | _, _ => Some i
  end.
Definition diff_at (c : case) (o : obs) := first_diff 0 (model_obs c) o.

Definition check_full (cs : list (case * obs)) : list N * list N :=
  (falses (map (fun co => full_eq (fst co) (snd co)) cs), []).

(* per property: (indices where the property's projection of model and implementation differ,
   indices where the property's monitor rejects the implementation's trace) *)
Definition drained_b (c : case) : bool := match k_drained c with Some _ => true | None => false end.

Definition mon_of (which : nat) (c : case) (o : obs) : bool :=
  well_formed c &&
  match which with
  | 2 => mon_C02 (k_cfg c) (k_ops c) o
  | 3 => mon_C03 (k_cfg c) (k_ops c) (drained_b c) o
  | 4 => mon_C04 (k_cfg c) (k_ops c) o && mon_C04_dial (k_cfg c) (k_ops c) o
  | 5 => mon_C05 (k_cfg c) (k_ops c) o
  | 6 => mon_C06 (k_cfg c) (k_ops c) o
  | 14 => mon_C14 (k_cfg c) (k_ops c) o
  | 40 => mon_C04_but_D6 (k_cfg c) (k_ops c) o && mon_C04_dial (k_cfg c) (k_ops c) o
  | 15 => mon_C15_all (k_cfg c) (k_ops c) (drained_b c) o
  | _ => mon_C02 (k_cfg c) (k_ops c) o && mon_C03 (k_cfg c) (k_ops c) (drained_b c) o && mon_C04 (k_cfg c) (k_ops c) o
         && mon_C05 (k_cfg c) (k_ops c) o && mon_C06 (k_cfg c) (k_ops c) o && mon_C14 (k_cfg c) (k_ops c) o
         && mon_C15 (k_cfg c) (k_ops c) o
  end.

Definition check_prop (which : nat) (cs : list (case * obs)) : list N * list N :=
  (falses (map (fun co => full_eq (fst co) (snd co)) cs),
   falses (map (fun co => mon_of which (fst co) (snd co)) cs)).

(* which monitors reject (for replay files and for known-finding matching) *)
Definition verdicts (c : case) (o : obs) : list (nat * bool) :=
  map (fun w => (w, mon_of w c o)) [2; 3; 4; 5; 6; 14; 15; 40].
