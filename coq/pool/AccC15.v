(* C15, retention clause, part 1: exact accounting of connection handles.
   Every connection record counts its handles ([c_refs]); the handles of a state sit in the idle lists,
   in the channels / popped slots of checkouts, with the holders and in the hand-back tasks.  The
   invariant [K] ties the two together (no handle is lost, none is duplicated without a clone), and
   ties the tracker's reading of the events to the model: a connection that the tracker has not seen
   dropped still has a handle, and a request that holds a connection is recorded as holding it. *)
From HD Require Import common.Base http.Model pool.Model pool.Spec pool.Frames pool.ProofsLite pool.FramesC06 pool.FramesC03 pool.LiveC03 pool.FramesC02.
Local Open Scope list_scope.

Definition refs (s : state) (c : nat) : nat := match get_conn s c with Some cn => c_refs cn | None => 0 end.
Definition Hs (x : option nat) (s : state) : list nat := LA x s ++ LH x s ++ LT s.
Definition ntok (s : state) : nat := List.length (toks s).
Definition waitingl (s : state) (t : nat) : list (nat * bool) := p_waiting (get_tok s t).

(* multisets of connection ids *)
Definition meq (a b : list nat) : Prop := forall c, cnt a c = cnt b c.
Lemma meq_refl a : meq a a. Proof. intros c. reflexivity. Qed.
Lemma meq_sym a b : meq a b -> meq b a. Proof. intros H c. symmetry. apply H. Qed.
Lemma meq_trans a b c : meq a b -> meq b c -> meq a c. Proof. intros H1 H2 x. rewrite H1. apply H2. Qed.
Lemma meq_app a a' b b' : meq a a' -> meq b b' -> meq (a ++ b) (a' ++ b').
Proof. intros H1 H2 c. rewrite !cnt_app, H1, H2. reflexivity. Qed.
Lemma meq_comm a b : meq (a ++ b) (b ++ a). Proof. intros c. rewrite !cnt_app. lia. Qed.

(* tokens stored in a request / a task are tokens of the table *)
Definition ptok_ok (n : nat) (p : pooled) : Prop := snd p <= n.
Definition req_tok_ok (n : nat) (q : req) : Prop :=
  match q with
  | RCheckout ck => k_token ck <= n /\ (forall p, k_slot ck = Some p -> ptok_ok n p /\ k_waiter ck <> WNoPool)
  | RHolding p _ _ => ptok_ok n p
  | _ => True
  end.
Definition task_tok_ok (n : nat) (t : option task) : Prop :=
  match t with Some (TWhenReady _ t) => t <= n | Some (TDelayed _ t _) => t <= n | None => True end.

Record KD (D : list nat) (hx : option (nat * nat)) (x : option nat) (F : list nat) (m0 : mst) (s : state) : Prop := mkK {
  kb : forall c, cnt (Hs x s) c + cnt F c = refs s c;
  kl : List.length (m_conns (tm m0 s)) = List.length (conns s);
  kd : forall c ci, nth_error (m_conns (tm m0 s)) c = Some ci -> ci_dropped ci = false -> 0 < refs s c;
  kh : forall r c t f p, get_req s r = Some (RHolding (c, t) f p) -> x <> Some r ->
         exists ri, nth_error (m_reqs (tm m0 s)) r = Some ri /\ ri_stat ri = SHeld c;
  kw : forall t, NoDup (map fst (waitingl s t))
                 /\ forall w b, In (w, b) (waitingl s t) ->
                      w < List.length (reqs s)
                      /\ forall ck, x <> Some w -> get_req s w = Some (RCheckout ck) -> k_token ck = t /\ (~ In w D -> k_slot ck = None);
  kt : (forall r q, get_req s r = Some q -> x <> Some r -> req_tok_ok (ntok s) q)
       /\ (forall tid, task_tok_ok (ntok s) (nth tid (tasks s) None));
  km : List.length (reqs s) <= List.length (m_reqs (tm m0 s));
  kx : forall r c, hx = Some (r, c) -> exists ri, nth_error (m_reqs (tm m0 s)) r = Some ri /\ ri_stat ri = SHeld c
}.

Section WithD.
Variable D : list nat.      (* waiters that have just been served and are about to leave their queue *)
Variable hx : option (nat * nat).   (* the polled request has just been handed this connection (EHand seen) *)
Notation K := (KD D hx).

Lemma K_meq x F F' m0 s : meq F F' -> K x F m0 s -> K x F' m0 s.
Proof. intros H [A1 A2 A3 A4 A5 A6 A7 A8]. constructor; auto. intros c. rewrite <- H. apply A1. Qed.

(* ---------------------------------------------------------------- frames *)
Lemma refs_frame s s' c : conns s' = conns s -> refs s' c = refs s c.
Proof. intros H. unfold refs, get_conn. rewrite H. reflexivity. Qed.

Lemma Hs_frame x s s' : toks s' = toks s -> reqs s' = reqs s -> tasks s' = tasks s -> Hs x s' = Hs x s.
Proof. intros H1 H2 H3. unfold Hs, LA, LH, LT. rewrite (reqs_x_frame x s s' H2), H1, H3. reflexivity. Qed.

Lemma K_frame x F m0 s s' :
  conns s' = conns s -> toks s' = toks s -> reqs s' = reqs s -> tasks s' = tasks s -> out s' = out s ->
  K x F m0 s -> K x F m0 s'.
Proof.
  intros H1 H2 H3 H4 H5 [A1 A2 A3 A4 A5 A6 A7 A8].
  assert (Ht : tm m0 s' = tm m0 s) by (unfold tm; rewrite H5; reflexivity).
  assert (Hg : forall r, get_req s' r = get_req s r) by (intros; unfold get_req; rewrite H3; reflexivity).
  assert (Hw : forall t, waitingl s' t = waitingl s t) by (intros [|i]; unfold waitingl; cbn [get_tok]; [reflexivity|rewrite H2; reflexivity]).
  constructor.
  - intros c. rewrite (Hs_frame x s s' H2 H3 H4), (refs_frame s s' c H1). apply A1.
  - rewrite Ht, H1. exact A2.
  - intros c ci. rewrite Ht, (refs_frame s s' c H1). apply A3.
  - intros r c t f p. rewrite Hg, Ht. apply A4.
  - intros t. rewrite Hw. destruct (A5 t) as [B1 B2]. split; [exact B1|]. intros w b Hin. rewrite H3. destruct (B2 w b Hin) as [C1 C2].
    split; [exact C1|]. intros ck. rewrite Hg. apply C2.
  - unfold ntok. rewrite H2, H4. destruct A6 as [B1 B2]. split; [|exact B2]. intros r q. rewrite Hg. apply B1.
  - rewrite Ht, H3. exact A7.
  - rewrite Ht. exact A8.
Qed.

(* ---------------------------------------------------------------- events *)
Lemma tm_emit m0 e s : tm m0 (emit e s) = track_ev (tm m0 s) e.
Proof. unfold tm. cbn [out emit set_out rev]. rewrite fold_left_app. reflexivity. Qed.

Definition ev_about (e : ev) : option nat :=
  match e with EHand r _ _ _ _ _ | ERes r _ => Some r | _ => None end.
Definition not_new (e : ev) : Prop := match e with ENew _ _ _ => False | _ => True end.

Lemma ri_upd_stat f r m r' ri c :
  (r <> r' \/ forall y, ri_stat y = SHeld c -> ri_stat (f y) = SHeld c) ->
  nth_error (m_reqs m) r' = Some ri -> ri_stat ri = SHeld c ->
  exists ri', nth_error (m_reqs (ri_upd f r m)) r' = Some ri' /\ ri_stat ri' = SHeld c.
Proof.
  intros Hf Hn Hs. cbn [ri_upd set_m_reqs m_reqs]. destruct (Nat.eq_dec r r') as [->|Hne].
  - rewrite (nth_error_upd_nth_eq f _ _ _ Hn). eexists. split; [reflexivity|]. destruct Hf as [Hf|Hf]; [contradiction Hf; reflexivity|auto].
  - rewrite nth_error_upd_nth_neq by exact Hne. eauto.
Qed.

Lemma ci_upd_dropped f c m c' ci' :
  (forall y, ci_dropped (f y) = false -> ci_dropped y = false) ->
  nth_error (m_conns (ci_upd f c m)) c' = Some ci' ->
  exists ci, nth_error (m_conns m) c' = Some ci /\ (ci_dropped ci' = false -> ci_dropped ci = false).
Proof.
  intros Hf Hn. cbn [ci_upd set_m_conns m_conns] in Hn. apply nth_error_upd_nth_inv in Hn.
  destruct Hn as [(-> & q & Hq & ->)|(Hne & Hn)]; eauto.
Qed.

Lemma track_ev_conns m e : not_new e ->
  List.length (m_conns (track_ev m e)) = List.length (m_conns m)
  /\ forall c ci', nth_error (m_conns (track_ev m e)) c = Some ci' ->
       exists ci, nth_error (m_conns m) c = Some ci /\ (ci_dropped ci' = false -> ci_dropped ci = false).
Proof.
  intros Hn. destruct e as [r k|c sh r|r c a b d h|r|r y|r c|c|c okb]; cbn [not_new] in Hn; try contradiction; cbn [track_ev].
  - split; [reflexivity|]. intros c ci' H. eauto.
  - split; [cbn; apply upd_nth_length|]. intros c' ci' H. eapply ci_upd_dropped; [|exact H]. auto.
  - split; [reflexivity|]. intros c ci' H. eauto.
  - split; [destruct y as [|[| | |]]; reflexivity|]. intros c ci' H. exists ci'. split; [|auto]. destruct y as [|[| | |]]; exact H.
  - split; [cbn; apply upd_nth_length|]. intros c' ci' H. eapply ci_upd_dropped; [|exact H]. auto.
  - split; [cbn; apply upd_nth_length|]. intros c' ci' H. eapply ci_upd_dropped; [|exact H]. cbn. discriminate.
  - destruct okb; [|split; [reflexivity|eauto]]. split; [cbn; apply upd_nth_length|]. intros c' ci' H. eapply ci_upd_dropped; [|exact H]. auto.
Qed.

Lemma track_ev_stat m e r ri c : not_new e -> ev_about e <> Some r ->
  nth_error (m_reqs m) r = Some ri -> ri_stat ri = SHeld c ->
  exists ri', nth_error (m_reqs (track_ev m e)) r = Some ri' /\ ri_stat ri' = SHeld c.
Proof.
  intros Hn Ha H1 H2. destruct e as [r0 k|c0 sh r0|r0 c0 a b d h|r0|r0 y|r0 c0|c0|c0 okb]; cbn [not_new ev_about] in *; try contradiction; cbn [track_ev].
  - eapply ri_upd_stat; [right; auto|exact H1|exact H2].
  - change (m_reqs (ci_upd ?f c0 ?m')) with (m_reqs m'). eapply ri_upd_stat; [left; congruence|exact H1|exact H2].
  - eapply ri_upd_stat; [right; auto|exact H1|exact H2].
  - assert (E : exists ri', nth_error (m_reqs (ri_upd (fun y0 => set_ri_pend false (set_ri_stat SDone y0)) r0 m)) r = Some ri' /\ ri_stat ri' = SHeld c)
      by (eapply ri_upd_stat; [left; congruence|exact H1|exact H2]).
    destruct y as [|[| | |]]; try exact E; destruct E as [ri' [E1 E2]]; (eapply ri_upd_stat; [right; auto|exact E1|exact E2]).
  - eauto.
  - eauto.
  - destruct okb; eauto.
Qed.

Lemma track_ev_reqs_len m e : List.length (m_reqs (track_ev m e)) = List.length (m_reqs m).
Proof.
  destruct e as [r k|c sh r|r c a b d h|r|r y|r c|c|c okb]; cbn [track_ev]; try (cbn; apply upd_nth_length); try reflexivity.
  - destruct y as [|[| | |]]; cbn; rewrite ?upd_nth_length; reflexivity.
  - destruct okb; reflexivity.
Qed.

Lemma K_emit x F m0 e s :
  not_new e -> (forall r, ev_about e = Some r -> x = Some r /\ forall c, hx <> Some (r, c)) -> K x F m0 s -> K x F m0 (emit e s).
Proof.
  intros Hn Ha [A1 A2 A3 A4 A5 A6 A7 A8].
  destruct (track_ev_conns (tm m0 s) e Hn) as [L1 L2].
  constructor; rewrite ?tm_emit.
  - exact A1.
  - rewrite L1. exact A2.
  - intros c ci' H Hd. destruct (L2 c ci' H) as [ci [G1 G2]]. apply (A3 c ci G1). auto.
  - intros r c t f p Hr Hx. destruct (A4 r c t f p Hr Hx) as [ri [G1 G2]]. eapply track_ev_stat; [exact Hn| |exact G1|exact G2].
    intros E. apply Hx. apply Ha. exact E.
  - exact A5.
  - exact A6.
  - rewrite track_ev_reqs_len. exact A7.
  - intros r c E. destruct (A8 r c E) as [ri [G1 G2]]. eapply track_ev_stat; [exact Hn| |exact G1|exact G2].
    intros E'. destruct (Ha r E') as [_ Hh]. exact (Hh c E).
Qed.

(* ---------------------------------------------------------------- connection records *)
Lemma get_conn_upd c f s c' : get_conn (upd_conn c f s) c' = if Nat.eq_dec c c' then option_map f (get_conn s c') else get_conn s c'.
Proof.
  unfold get_conn, upd_conn. cbn [conns set_conns]. destruct (Nat.eq_dec c c') as [->|Hne].
  - destruct (nth_error (conns s) c') as [cn|] eqn:E; [rewrite (nth_error_upd_nth_eq f _ _ _ E); reflexivity|].
    rewrite (upd_nth_none f _ _ E), E. reflexivity.
  - apply nth_error_upd_nth_neq. exact Hne.
Qed.

Lemma refs_upd c f s c' : refs (upd_conn c f s) c' = if Nat.eq_dec c c' then match get_conn s c' with Some cn => c_refs (f cn) | None => 0 end else refs s c'.
Proof. unfold refs. rewrite get_conn_upd. destruct (Nat.eq_dec c c'); [destruct (get_conn s c'); reflexivity|reflexivity]. Qed.

(* a change of a connection record: [d] is what happens to the reference counts *)
Lemma K_upd_conn_gen x F F' m0 c f s :
  (forall c', cnt (Hs x s) c' + cnt F' c' = refs (upd_conn c f s) c') ->
  (forall c', 0 < refs s c' -> c' <> c -> 0 < refs (upd_conn c f s) c') ->
  (forall ci, nth_error (m_conns (tm m0 s)) c = Some ci -> ci_dropped ci = false -> 0 < refs (upd_conn c f s) c) ->
  K x F m0 s -> K x F' m0 (upd_conn c f s).
Proof.
  intros Hb Hp Hc [A1 A2 A3 A4 A5 A6 A7 A8]. constructor; auto.
  - cbn [conns upd_conn set_conns]. rewrite upd_nth_length. exact A2.
  - intros c' ci H Hd. change (tm m0 (upd_conn c f s)) with (tm m0 s) in H.
    destruct (Nat.eq_dec c' c) as [->|Hne]; [apply (Hc ci H Hd)|]. apply Hp; [apply (A3 c' ci H Hd)|exact Hne].
Qed.

Lemma K_upd_conn x F m0 c f s : (forall cn, c_refs (f cn) = c_refs cn) -> K x F m0 s -> K x F m0 (upd_conn c f s).
Proof.
  intros Hf H. assert (E : forall c', refs (upd_conn c f s) c' = refs s c').
  { intros c'. rewrite refs_upd. destruct (Nat.eq_dec c c') as [->|]; [|reflexivity]. unfold refs. destruct (get_conn s c'); [apply Hf|reflexivity]. }
  apply (K_upd_conn_gen x F F m0 c f s); [| | |exact H].
  - intros c'. rewrite E. apply (kb _ _ _ _ _ _ H).
  - intros c' Hp _. rewrite E. exact Hp.
  - intros ci Hn Hd. rewrite E. apply (kd _ _ _ _ _ _ H c ci Hn Hd).
Qed.

Lemma K_in_flight x c F m0 s : K x (c :: F) m0 s -> exists cn, get_conn s c = Some cn /\ 0 < c_refs cn.
Proof.
  intros H. pose proof (kb _ _ _ _ _ _ H c) as E. rewrite cnt_cons in E. destruct (Nat.eq_dec c c); [|congruence].
  unfold refs in E. destruct (get_conn s c) as [cn|]; [exists cn; split; [reflexivity|lia]|lia].
Qed.

Lemma K_clone_conn x c F m0 s : K x (c :: F) m0 s -> K x (c :: c :: F) m0 (clone_conn c s).
Proof.
  intros H. destruct (K_in_flight _ _ _ _ _ H) as [cn [Hc Hp]]. unfold clone_conn.
  apply (K_upd_conn_gen x (c :: F)); [| | |exact H].
  - intros c'. rewrite refs_upd. pose proof (kb _ _ _ _ _ _ H c') as E. rewrite !cnt_cons in *.
    destruct (Nat.eq_dec c c') as [<-|]; [|exact E]. unfold refs in E. rewrite Hc in *. cbn. lia.
  - intros c' Hp' Hne. rewrite refs_upd. destruct (Nat.eq_dec c c'); [congruence|exact Hp'].
  - intros ci _ _. rewrite refs_upd. destruct (Nat.eq_dec c c); [|congruence]. rewrite Hc. cbn. lia.
Qed.

Lemma K_drop_conn x c F m0 s : K x (c :: F) m0 s -> K x F m0 (drop_conn c s).
Proof.
  intros H. destruct (K_in_flight _ _ _ _ _ H) as [cn [Hc Hp]]. unfold drop_conn. rewrite Hc.
  set (s1 := upd_conn c (c_set_refs (pred (c_refs cn))) s).
  assert (Hr : forall c', refs s1 c' = if Nat.eq_dec c c' then pred (c_refs cn) else refs s c').
  { intros c'. unfold s1. rewrite refs_upd. destruct (Nat.eq_dec c c') as [<-|]; [rewrite Hc; reflexivity|reflexivity]. }
  assert (Hb : forall c', cnt (Hs x s) c' + cnt F c' = refs s1 c').
  { intros c'. rewrite Hr. pose proof (kb _ _ _ _ _ _ H c') as E. rewrite cnt_cons in E.
    destruct (Nat.eq_dec c c') as [<-|]; [|exact E]. unfold refs in E. rewrite Hc in E. lia. }
  destruct (Nat.eqb_spec (pred (c_refs cn)) 0) as [Hz|Hnz].
  - (* the last handle: the connection is dropped *)
    destruct H as [A1 A2 A3 A4 A5 A6 A7 A8].
    destruct (track_ev_conns (tm m0 s) (EDrop c) Logic.I) as [L1 L2].
    assert (Et : tm m0 s1 = tm m0 s) by reflexivity.
    constructor; rewrite ?tm_emit, ?Et; [exact Hb| | | |exact A5|exact A6|rewrite track_ev_reqs_len; exact A7|].
    4: { intros r c' E. destruct (A8 r c' E) as [ri [G1 G2]]. eapply track_ev_stat; [exact Logic.I|discriminate|exact G1|exact G2]. }
    + cbn [conns emit set_out]. unfold s1. cbn [conns upd_conn set_conns]. rewrite L1, upd_nth_length. exact A2.
    + intros c' ci' Hn Hd. change (refs (emit (EDrop c) s1) c') with (refs s1 c'). rewrite Hr.
      destruct (Nat.eq_dec c c') as [<-|Hne].
      * exfalso. cbn [track_ev ci_upd set_m_conns m_conns] in Hn. apply nth_error_upd_nth_inv in Hn.
        destruct Hn as [(_ & q & _ & ->)|(Hne & _)]; [cbn in Hd; discriminate|congruence].
      * destruct (L2 c' ci' Hn) as [ci [G1 G2]]. apply (A3 c' ci G1). auto.
    + intros r c' t f p Hr' Hx. destruct (A4 r c' t f p Hr' Hx) as [ri [G1 G2]]. eapply track_ev_stat; [exact Logic.I|discriminate|exact G1|exact G2].
  - apply (K_upd_conn_gen x (c :: F)); [exact Hb| | |exact H].
    + intros c' Hp' Hne. fold s1. rewrite Hr. destruct (Nat.eq_dec c c'); [congruence|exact Hp'].
    + intros ci _ _. fold s1. rewrite Hr. destruct (Nat.eq_dec c c); [lia|congruence].
Qed.

(* ---------------------------------------------------------------- requests *)
Lemma get_req_set r v s r' : get_req (set_req r v s) r' = if Nat.eq_dec r r' then match get_req s r' with Some _ => Some v | None => None end else get_req s r'.
Proof.
  destruct (Nat.eq_dec r r') as [->|Hne]; [|apply get_req_set_req_neq; exact Hne].
  destruct (get_req s r') as [q|] eqn:E; [apply (get_req_set_req_eq _ _ _ _ E)|].
  unfold get_req, set_req in *. cbn [reqs set_reqs]. rewrite (upd_nth_none _ _ _ E). exact E.
Qed.

(* overwriting the request that is being polled: its handles are accounted as in flight *)
Lemma K_set_req_x r v F m0 s : K (Some r) F m0 s -> K (Some r) F m0 (set_req r v s).
Proof.
  intros [A1 A2 A3 A4 A5 A6 A7 A8]. constructor; auto.
  - intros c. unfold Hs, LA, LH. rewrite reqs_x_set_req_same. apply A1.
  - intros r' c t f p Hr Hx. rewrite get_req_set in Hr. destruct (Nat.eq_dec r r'); [congruence|]. eapply A4; eauto.
  - intros t. destruct (A5 t) as [B1 B2]. split; [exact B1|]. intros w b Hin. destruct (B2 w b Hin) as [C1 C2].
    split; [cbn [reqs set_req set_reqs]; rewrite upd_nth_length; exact C1|].
    intros ck Hx Hr. rewrite get_req_set in Hr. destruct (Nat.eq_dec r w); [congruence|]. eapply C2; eauto.
  - destruct A6 as [B1 B2]. split; [|exact B2]. intros r' q Hr Hx. rewrite get_req_set in Hr. destruct (Nat.eq_dec r r'); [congruence|]. eapply B1; eauto.
  - cbn [reqs set_req set_reqs]. rewrite upd_nth_length. exact A7.
Qed.

(* overwriting another request *)
Lemma K_set_req x Fin Fout m0 w q v s :
  get_req s w = Some q -> x <> Some w ->
  (forall c, cnt (reqA v) c + cnt (reqH v) c + cnt Fout c = cnt (reqA q) c + cnt (reqH q) c + cnt Fin c) ->
  (forall c t f p, v = RHolding (c, t) f p -> exists ri, nth_error (m_reqs (tm m0 s)) w = Some ri /\ ri_stat ri = SHeld c) ->
  (forall ck' t b, v = RCheckout ck' -> In (w, b) (waitingl s t) -> k_token ck' = t /\ (~ In w D -> k_slot ck' = None)) ->
  req_tok_ok (ntok s) v ->
  K x Fin m0 s -> K x Fout m0 (set_req w v s).
Proof.
  intros Hq Hx Hb Hh Hw Ht [A1 A2 A3 A4 A5 A6 A7 A8]. constructor; auto.
  - intros c. pose proof (A1 c) as E. unfold Hs, LA, LH in *. cbn [toks tasks set_req set_reqs].
    pose proof (cnt_reqs_x_set_req reqA x w v q s c Hq Hx) as E1. pose proof (cnt_reqs_x_set_req reqH x w v q s c Hq Hx) as E2.
    change (LT (set_req w v s)) with (LT s). rewrite !cnt_app in *. specialize (Hb c). change (refs (set_req w v s) c) with (refs s c). lia.
  - intros r' c t f p Hr Hx'. rewrite get_req_set in Hr. destruct (Nat.eq_dec w r') as [<-|]; [|eapply A4; eauto].
    rewrite Hq in Hr. inversion Hr. eapply Hh. eauto.
  - intros t. destruct (A5 t) as [B1 B2]. split; [exact B1|]. intros w' b Hin. destruct (B2 w' b Hin) as [C1 C2].
    split; [cbn [reqs set_req set_reqs]; rewrite upd_nth_length; exact C1|].
    intros ck Hx' Hr. rewrite get_req_set in Hr. destruct (Nat.eq_dec w w') as [<-|]; [|eapply C2; eauto].
    rewrite Hq in Hr. inversion Hr; subst v. eapply Hw; eauto.
  - destruct A6 as [B1 B2]. split; [|exact B2]. intros r' q' Hr Hx'. rewrite get_req_set in Hr. destruct (Nat.eq_dec w r') as [<-|]; [|eapply B1; eauto].
    rewrite Hq in Hr. inversion Hr; subst q'. exact Ht.
  - cbn [reqs set_req set_reqs]. rewrite upd_nth_length. exact A7.
Qed.

(* ---------------------------------------------------------------- the token table *)
Lemma K_upd_tok x Fin Fout m0 i f s :
  i < ntok s ->
  (forall c, cnt (tokA (f (get_tok s (S i)))) c + cnt Fout c = cnt (tokA (get_tok s (S i))) c + cnt Fin c) ->
  (NoDup (map fst (p_waiting (f (get_tok s (S i)))))
   /\ forall w b, In (w, b) (p_waiting (f (get_tok s (S i)))) ->
        w < List.length (reqs s) /\ forall ck, x <> Some w -> get_req s w = Some (RCheckout ck) -> k_token ck = S i /\ (~ In w D -> k_slot ck = None)) ->
  K x Fin m0 s -> K x Fout m0 (upd_tok (S i) f s).
Proof.
  intros Hi Hb Hw [A1 A2 A3 A4 A5 A6 A7 A8].
  assert (Hp : nth_error (toks s) i = Some (get_tok s (S i))) by (cbn [get_tok]; apply nth_error_nth'; exact Hi).
  constructor; auto.
  - intros c. pose proof (A1 c) as E. unfold Hs, LA in *. cbn [upd_tok toks set_toks].
    rewrite (reqs_x_frame x s (set_toks (upd_nth i f (toks s)) s)) by reflexivity.
    change (LH x (set_toks (upd_nth i f (toks s)) s)) with (LH x s). change (LT (set_toks (upd_nth i f (toks s)) s)) with (LT s).
    change (refs (set_toks (upd_nth i f (toks s)) s) c) with (refs s c).
    pose proof (cnt_flat_map_upd tokA f c (toks s) i _ Hp) as E1. rewrite !cnt_app in *. specialize (Hb c). lia.
  - intros t. unfold waitingl. destruct (Nat.eq_dec (S i) t) as [<-|Hne].
    + rewrite tok_upd_same by exact Hi. exact Hw.
    + rewrite tok_upd_other by exact Hne. apply A5.
  - unfold ntok. cbn [upd_tok toks set_toks]. rewrite upd_nth_length. exact A6.
Qed.

Lemma K_tok_keep x F m0 t f s :
  (forall p, p_idle (f p) = p_idle p /\ p_waiting (f p) = p_waiting p) -> K x F m0 s -> K x F m0 (upd_tok t f s).
Proof.
  intros Hf H. destruct t as [|i]; [exact H|]. destruct (Nat.lt_ge_cases i (ntok s)) as [Hi|Hi].
  - apply (K_upd_tok x F F m0 i f s Hi); [| |exact H].
    + intros c. unfold tokA. rewrite (proj1 (Hf _)). reflexivity.
    + rewrite (proj2 (Hf _)). apply (kw _ _ _ _ _ _ H (S i)).
  - unfold upd_tok. rewrite upd_nth_none by (apply nth_error_None; exact Hi).
    revert H. apply K_frame; reflexivity.
Qed.

Lemma K_tok_idle_app x c a F m0 i s :
  i < ntok s -> K x (c :: F) m0 s -> K x F m0 (upd_tok (S i) (fun p => set_idle (p_idle p ++ [(c, a)]) p) s).
Proof.
  intros Hi H. apply (K_upd_tok x (c :: F) F m0 i _ s Hi); [| |exact H].
  - intros c'. unfold tokA. cbn [p_idle set_idle]. rewrite map_app, cnt_app. cbn [map fst]. rewrite cnt_one, cnt_cons. lia.
  - apply (kw _ _ _ _ _ _ H (S i)).
Qed.

Lemma K_tok_waiting_sub x F m0 t v s :
  NoDup (map fst v) -> incl v (waitingl s t) -> K x F m0 s -> K x F m0 (upd_tok t (set_waiting v) s).
Proof.
  intros Hn Hv H. destruct t as [|i]; [exact H|]. destruct (Nat.lt_ge_cases i (ntok s)) as [Hi|Hi].
  - apply (K_upd_tok x F F m0 i _ s Hi); [| |exact H].
    + intros c'. reflexivity.
    + cbn [p_waiting set_waiting]. split; [exact Hn|]. intros w b Hin. apply (proj2 (kw _ _ _ _ _ _ H (S i)) w b). apply Hv. exact Hin.
  - unfold upd_tok. rewrite upd_nth_none by (apply nth_error_None; exact Hi). revert H. apply K_frame; reflexivity.
Qed.

(* ---------------------------------------------------------------- tasks *)
Lemma nth_app_last {A} (l : list A) a d : nth (List.length l) (l ++ [a]) d = a.
Proof. rewrite app_nth2 by lia. rewrite Nat.sub_diag. reflexivity. Qed.

Lemma K_spawn x F F' m0 tk s :
  (forall c, cnt (taskT (Some tk)) c + cnt F' c = cnt F c) -> task_tok_ok (ntok s) (Some tk) ->
  K x F m0 s -> K x F' m0 (spawn tk s).
Proof.
  intros Hb Ht [A1 A2 A3 A4 A5 A6 A7 A8]. constructor; auto.
  - intros c. pose proof (A1 c) as E. unfold Hs, LT in *. unfold spawn. cbn [tasks set_tasks set_runq].
    change (LA x (set_runq _ (set_tasks _ s))) with (LA x s). change (LH x (set_runq _ (set_tasks _ s))) with (LH x s).
    change (refs (set_runq _ (set_tasks _ s)) c) with (refs s c).
    rewrite flat_map_app, !cnt_app in *. cbn [flat_map]. rewrite app_nil_r. specialize (Hb c). lia.
  - destruct A6 as [B1 B2]. split; [exact B1|]. intros tid. unfold spawn. cbn [tasks set_tasks set_runq ntok toks].
    destruct (Nat.lt_ge_cases tid (List.length (tasks s))) as [Hl|Hl]; [rewrite app_nth1 by exact Hl; apply B2|].
    rewrite app_nth2 by exact Hl. destruct (tid - List.length (tasks s)) as [|[|k]]; cbn; auto.
Qed.

Lemma K_spawn_ready x c t F m0 s : t <= ntok s -> K x (c :: F) m0 s -> K x F m0 (spawn (TWhenReady c t) s).
Proof. intros Ht. apply K_spawn; [|exact Ht]. intros c'. cbn [taskT]. rewrite cnt_one, cnt_cons. lia. Qed.
Lemma K_spawn_delayed x rid t own F m0 s : t <= ntok s -> K x F m0 s -> K x F m0 (spawn (TDelayed rid t own) s).
Proof. intros Ht. apply K_spawn; [|exact Ht]. intros c'. cbn [taskT]. rewrite cnt_nil. lia. Qed.

Lemma K_finish_task x F m0 tid s :
  K x F m0 s -> K x (taskT (nth tid (tasks s) None) ++ F) m0 (finish_task tid s).
Proof.
  intros [A1 A2 A3 A4 A5 A6 A7 A8]. constructor; auto.
  - intros c. pose proof (A1 c) as E. unfold Hs, LT in *. unfold finish_task. cbn [tasks set_tasks].
    change (LA x (set_tasks _ s)) with (LA x s). change (LH x (set_tasks _ s)) with (LH x s). change (refs (set_tasks _ s) c) with (refs s c).
    rewrite !cnt_app in *. destruct (nth_error (tasks s) tid) as [tk|] eqn:En.
    + pose proof (cnt_flat_map_upd taskT (fun _ => None) c (tasks s) tid tk En) as E1. cbn [taskT] in E1. rewrite cnt_nil in E1.
      rewrite (nth_error_nth _ _ None En). lia.
    + rewrite (upd_nth_none _ _ _ En). rewrite nth_overflow by (apply nth_error_None; exact En). cbn [taskT]. rewrite cnt_nil. lia.
  - destruct A6 as [B1 B2]. split; [exact B1|]. intros tid'. unfold finish_task. cbn [tasks set_tasks ntok toks].
    destruct (Nat.eq_dec tid tid') as [<-|Hne]; [|rewrite nth_upd_nth_other by exact Hne; apply B2].
    destruct (Nat.lt_ge_cases tid (List.length (tasks s))) as [Hl|Hl]; [rewrite nth_upd_nth_same by exact Hl; exact Logic.I|].
    rewrite nth_overflow by (rewrite upd_nth_length; exact Hl). exact Logic.I.
Qed.

(* ---------------------------------------------------------------- a new connection *)
Lemma K_new_conn x F m0 rid sh s :
  K x F m0 s ->
  let c := List.length (conns s) in
  K x (c :: F) m0 (emit (ENew c sh rid) (set_conns (conns s ++ [mkConn rid sh true true 1 0 []]) s)).
Proof.
  intros [A1 A2 A3 A4 A5 A6 A7 A8] c. set (s1 := set_conns (conns s ++ [mkConn rid sh true true 1 0 []]) s).
  assert (Hr : forall c', refs s1 c' = if Nat.eq_dec c c' then 1 else refs s c').
  { intros c'. unfold refs, get_conn, s1. cbn [conns set_conns]. destruct (Nat.eq_dec c c') as [<-|Hne].
    - unfold c. rewrite nth_error_app2, Nat.sub_diag by lia. reflexivity.
    - destruct (Nat.lt_ge_cases c' (List.length (conns s))) as [Hl|Hl]; [rewrite nth_error_app1 by exact Hl; reflexivity|].
      rewrite (proj2 (nth_error_None _ _)) by (rewrite app_length; cbn; unfold c in Hne; lia).
      rewrite (proj2 (nth_error_None _ _)) by exact Hl. reflexivity. }
  assert (Hz : refs s c = 0) by (unfold refs, get_conn; rewrite (proj2 (nth_error_None _ _)) by (unfold c; lia); reflexivity).
  constructor; rewrite ?tm_emit.
  - intros c'. change (Hs x (emit (ENew c sh rid) s1)) with (Hs x s). change (refs (emit (ENew c sh rid) s1) c') with (refs s1 c').
    rewrite Hr, cnt_cons. pose proof (A1 c') as E. destruct (Nat.eq_dec c c') as [<-|]; [lia|exact E].
  - change (tm m0 s1) with (tm m0 s). cbn [track_ev m_conns set_m_conns ri_upd set_m_reqs conns emit set_out s1 set_conns].
    rewrite !app_length, A2. reflexivity.
  - change (tm m0 s1) with (tm m0 s). intros c' ci Hn Hd. change (refs (emit (ENew c sh rid) s1) c') with (refs s1 c'). rewrite Hr.
    destruct (Nat.eq_dec c c'); [lia|]. cbn [track_ev m_conns set_m_conns ri_upd set_m_reqs] in Hn.
    apply nth_error_app_inv in Hn. destruct Hn as [Hn|[E _]]; [apply (A3 c' ci Hn Hd)|]. rewrite A2 in E. unfold c in *. congruence.
  - change (tm m0 s1) with (tm m0 s). intros r c' t f p Hr' Hx. destruct (A4 r c' t f p Hr' Hx) as [ri [G1 G2]].
    cbn [track_ev]. change (m_reqs (set_m_conns ?v ?m)) with (m_reqs m).
    eapply ri_upd_stat; [right; auto|exact G1|exact G2].
  - exact A5.
  - exact A6.
  - change (tm m0 s1) with (tm m0 s). rewrite track_ev_reqs_len. exact A7.
  - change (tm m0 s1) with (tm m0 s). intros r c' E. destruct (A8 r c' E) as [ri [G1 G2]].
    cbn [track_ev]. change (m_reqs (set_m_conns ?v ?m)) with (m_reqs m).
    eapply ri_upd_stat; [right; auto|exact G1|exact G2].
Qed.

End WithD.

Notation K := (KD [] None).

Lemma KD_mono D D' hx x F m0 s : incl D D' -> KD D hx x F m0 s -> KD D' hx x F m0 s.
Proof.
  intros Hi [A1 A2 A3 A4 A5 A6 A7 A8]. constructor; auto. intros t. destruct (A5 t) as [B1 B2]. split; [exact B1|].
  intros w b Hin. destruct (B2 w b Hin) as [C1 C2]. split; [exact C1|]. intros ck Hx Hr. destruct (C2 ck Hx Hr) as [E1 E2].
  split; [exact E1|]. intros Hn. apply E2. intros Hd. apply Hn. apply Hi. exact Hd.
Qed.

Lemma KD_reset D hx x F m0 s :
  (forall w t b ck, In w D -> In (w, b) (waitingl s t) -> x <> Some w -> get_req s w = Some (RCheckout ck) -> k_slot ck = None) ->
  KD D hx x F m0 s -> KD [] hx x F m0 s.
Proof.
  intros Hd [A1 A2 A3 A4 A5 A6 A7 A8]. constructor; auto. intros t. destruct (A5 t) as [B1 B2]. split; [exact B1|].
  intros w b Hin. destruct (B2 w b Hin) as [C1 C2]. split; [exact C1|]. intros ck Hx Hr. destruct (C2 ck Hx Hr) as [E1 E2].
  split; [exact E1|]. intros _. destruct (in_dec Nat.eq_dec w D) as [Hw|Hw]; [exact (Hd w t b ck Hw Hin Hx Hr)|exact (E2 Hw)].
Qed.

Lemma K_hx_drop D hx x F m0 s : KD D hx x F m0 s -> KD D None x F m0 s.
Proof. intros [A1 A2 A3 A4 A5 A6 A7 A8]. constructor; auto. intros r c E. discriminate. Qed.

(* the hand-off event of the polled request *)
Lemma K_emit_hand D r c a b d h F m0 s :
  get_req s r <> None -> KD D None (Some r) F m0 s -> KD D (Some (r, c)) (Some r) F m0 (emit (EHand r c a b d h) s).
Proof.
  intros Hr H. assert (H1 : KD D None (Some r) F m0 (emit (EHand r c a b d h) s)).
  { apply K_emit; [exact Logic.I| |exact H]. intros r' E. inversion E; subst. split; [reflexivity|discriminate]. }
  destruct H1 as [A1 A2 A3 A4 A5 A6 A7 A8]. constructor; auto.
  intros r' c' E. inversion E; subst r' c'. rewrite tm_emit. cbn [track_ev].
  change (m_reqs (ci_upd ?f c ?m')) with (m_reqs m').
  assert (Hl : r < List.length (m_reqs (tm m0 s))).
  { pose proof (km _ _ _ _ _ _ H). assert (r < List.length (reqs s)) by (apply nth_error_Some; exact Hr). lia. }
  destruct (nth_error (m_reqs (tm m0 s)) r) as [ri|] eqn:En; [|apply nth_error_None in En; lia].
  cbn [ri_upd set_m_reqs m_reqs]. rewrite (nth_error_upd_nth_eq _ _ _ _ En). eexists. split; [reflexivity|]. reflexivity.
Qed.
