(* C15, retention clause, part 2: the accounting invariant [K] through the pool primitives. *)
From HD Require Import common.Base http.Model pool.Model pool.Spec pool.Frames pool.ProofsLite pool.FramesC06 pool.FramesC03 pool.ProofsC03
  pool.LiveC03 pool.LiveC03b pool.FramesC02 pool.AccC15.
Local Open Scope list_scope.

Lemma K_pooled_drop D hx x p F m0 s : ptok_ok (ntok s) p -> KD D hx x (fst p :: F) m0 s -> KD D hx x F m0 (pooled_drop p s).
Proof.
  intros Ht H. unfold pooled_drop. destruct p as [c t]. cbn [fst snd] in *.
  destruct (share_of s c); [apply K_drop_conn; exact H|apply K_spawn_ready; [exact Ht|exact H]].
Qed.

Lemma K_drop_all D hx x l : forall F m0 s, KD D hx x (map fst l ++ F) m0 s -> KD D hx x F m0 (drop_all l s).
Proof.
  induction l as [|[c a] l IH]; intros F m0 s H; cbn [drop_all]; [exact H|].
  apply IH. apply K_drop_conn. exact H.
Qed.

Lemma rx_live_ck s w : rx_live s w = true -> exists ck, get_req s w = Some (RCheckout ck) /\ k_waiter ck <> WNoPool.
Proof.
  unfold rx_live. destruct (get_req s w) as [[|ck| | |]|]; try discriminate. intros H. exists ck. split; [reflexivity|].
  destruct (k_waiter ck); try discriminate; discriminate.
Qed.

Lemma K_wake_req D hx x F m0 r s : KD D hx x F m0 s -> KD D hx x F m0 (wake_req r s).
Proof. apply K_frame; reflexivity. Qed.

(* a connection is put into the channel of waiter [w] (which is marked as served) *)
Lemma K_deliver D hx x w p ck F m0 s :
  get_req s w = Some (RCheckout ck) -> x <> Some w -> k_slot ck = None -> k_waiter ck <> WNoPool -> In w D -> ptok_ok (ntok s) p ->
  KD D hx x (fst p :: F) m0 s -> KD D hx x F m0 (deliver w p s).
Proof.
  intros Hr Hx Hs Hwt Hd Hp H. unfold deliver. rewrite Hr.
  assert (H1 : KD D hx x F m0 (set_req w (RCheckout (k_set_slot (Some p) ck)) s)).
  { apply (K_set_req D hx x (fst p :: F) F m0 w (RCheckout ck)); auto.
    - intros c. unfold reqA, reqH, ck_conns. cbn [k_slot k_conn k_set_slot]. rewrite Hs. cbn [oslot]. rewrite !cnt_app, !cnt_cons, !cnt_nil. lia.
    - intros c t f p0 E. discriminate.
    - intros ck' t b E Hin. inversion E; subst ck'. cbn [k_token k_set_slot k_slot].
      destruct (proj2 (kw _ _ _ _ _ _ H t) w b Hin) as [_ C2]. destruct (C2 ck Hx Hr) as [E1 _]. split; [exact E1|]. intros Hn. contradiction.
    - destruct (proj1 (kt _ _ _ _ _ _ H) w _ Hr Hx) as [T1 T2]. cbn [req_tok_ok k_token k_slot k_set_slot]. split; [exact T1|].
      intros p0 E. inversion E; subst. split; [exact Hp|exact Hwt]. }
  destruct (k_rxpolled ck); [apply K_wake_req|]; exact H1.
Qed.

Lemma rx_live_deliver w p s r : rx_live (deliver w p s) r = rx_live s r.
Proof.
  unfold deliver. destruct (get_req s w) as [[|ck| | |]|] eqn:Hr; try reflexivity.
  assert (E : rx_live (set_req w (RCheckout (k_set_slot (Some p) ck)) s) r = rx_live s r).
  { unfold rx_live. rewrite get_req_set. destruct (Nat.eq_dec w r) as [<-|]; [rewrite Hr; reflexivity|reflexivity]. }
  destruct (k_rxpolled ck); exact E.
Qed.

Lemma waitingl_toks s s' t : toks s' = toks s -> waitingl s' t = waitingl s t.
Proof. intros H. unfold waitingl. destruct t; cbn [get_tok]; [reflexivity|rewrite H; reflexivity]. Qed.

(* the waiter walk of a push: [pre] is the part of the queue that has been consumed *)
Lemma K_walk hx x t c sh m0 ws : forall s D F,
  KD D hx x (c :: F) m0 s -> NoDup (map fst ws) -> incl ws (waitingl s t) -> (forall w b, In (w, b) ws -> ~ In w D) ->
  (forall r, x = Some r -> rx_live s r = false) -> t <= ntok s ->
  exists pre, ws = pre ++ fst (fst (walk_waiters t c sh ws s))
    /\ KD (D ++ map fst pre) hx x (if snd (fst (walk_waiters t c sh ws s)) then F else c :: F) m0 (snd (walk_waiters t c sh ws s))
    /\ toks (snd (walk_waiters t c sh ws s)) = toks s.
Proof.
  induction ws as [|[w b] ws IH]; intros s D F H Hnd Hin HD Hx Ht; cbn [walk_waiters].
  - exists []. cbn [fst snd map app]. rewrite app_nil_r. auto.
  - inversion Hnd as [|? ? Hnw Hnd']; subst.
    assert (Hin' : incl ws (waitingl s t)) by (intros y Hy; apply Hin; right; exact Hy).
    assert (Hw : In (w, b) (waitingl s t)) by (apply Hin; left; reflexivity).
    assert (HD1 : forall w' b', In (w', b') ws -> ~ In w' (D ++ [w])).
    { intros w' b' Hy Hd. apply in_app_or in Hd. destruct Hd as [Hd|[<-|[]]]; [exact (HD w' b' (or_intror Hy) Hd)|].
      apply Hnw. cbn [map fst]. change w with (fst (w, b')). apply in_map. exact Hy. }
    assert (H1 : KD (D ++ [w]) hx x (c :: F) m0 s) by (eapply KD_mono; [|exact H]; intros y Hy; apply in_or_app; left; exact Hy).
    assert (Hcons : forall pre rest, ws = pre ++ rest -> (w, b) :: ws = ((w, b) :: pre) ++ rest) by (intros pre rest ->; reflexivity).
    assert (HDe : forall pre, (D ++ [w]) ++ map fst pre = D ++ map fst ((w, b) :: pre)) by (intros pre; rewrite <- app_assoc; reflexivity).
    destruct (rx_live s w) eqn:Hl.
    + destruct (rx_live_ck s w Hl) as [ck [Hr Hwt]].
      assert (Hxw : x <> Some w) by (intros E; rewrite (Hx w E) in Hl; discriminate).
      assert (Hsl : k_slot ck = None).
      { destruct (proj2 (kw _ _ _ _ _ _ H t) w b Hw) as [_ C2]. apply (C2 ck Hxw Hr). apply (HD w b). left. reflexivity. }
      assert (Hwd : In w (D ++ [w])) by (apply in_or_app; right; left; reflexivity).
      destruct sh.
      * (* a multiplexed connection: every live waiter gets a clone *)
        set (s1 := deliver w (c, 0) (clone_conn c s)).
        assert (K1 : KD (D ++ [w]) hx x (c :: F) m0 s1).
        { unfold s1. apply (K_deliver (D ++ [w]) hx x w (c, 0) ck (c :: F) m0 (clone_conn c s)); auto.
          - unfold ptok_ok. cbn. lia.
          - apply K_clone_conn. exact H1. }
        assert (Ht1 : toks s1 = toks s) by (unfold s1; rewrite toks_deliver; reflexivity).
        destruct (IH s1 (D ++ [w]) F K1 Hnd') as [pre [E1 [E2 E3]]].
        { rewrite (waitingl_toks s s1 t Ht1). exact Hin'. }
        { exact HD1. }
        { intros r E. unfold s1. rewrite rx_live_deliver. apply (Hx r E). }
        { unfold ntok. rewrite Ht1. exact Ht. }
        exists ((w, b) :: pre). split; [apply Hcons; exact E1|]. split; [rewrite <- HDe; exact E2|]. rewrite E3. exact Ht1.
      * (* a non-multiplexed connection goes to the first live waiter *)
        cbn [fst snd]. exists [(w, b)]. split; [reflexivity|]. split; [|apply toks_deliver].
        cbn [map fst]. apply (K_deliver (D ++ [w]) hx x w (c, t) ck F m0 s); auto.
    + destruct (IH s (D ++ [w]) F H1 Hnd' Hin' HD1 Hx Ht) as [pre [E1 [E2 E3]]].
      exists ((w, b) :: pre). split; [apply Hcons; exact E1|]. split; [rewrite <- HDe; exact E2|exact E3].
Qed.

Lemma NoDup_app_l {A} (l1 l2 : list A) : NoDup (l1 ++ l2) -> NoDup l2.
Proof. induction l1 as [|a l1 IH]; cbn; [auto|]. intros H. inversion H; subst. apply IH. assumption. Qed.
Lemma NoDup_app_disj {A} (l1 l2 : list A) a : NoDup (l1 ++ l2) -> In a l1 -> In a l2 -> False.
Proof.
  induction l1 as [|b l1 IH]; cbn; [tauto|]. intros H [->|H1] H2; inversion H; subst; [|eauto].
  apply H3. apply in_or_app. right. exact H2.
Qed.

(* a handle is given back to the pool *)
Lemma K_pool_push hx x n i c F m0 s :
  KD [] hx x (c :: F) m0 s -> i < ntok s -> (forall r, x = Some r -> rx_live s r = false) -> KD [] hx x F m0 (pool_push n (S i) c s).
Proof.
  intros H Hi Hx. unfold pool_push.
  set (s1 := if share_of s c then upd_tok (S i) (set_marker None) s else s).
  assert (H1 : KD [] hx x (c :: F) m0 s1) by (subst s1; destruct (share_of s c); [apply K_tok_keep; [intros p; split; reflexivity|exact H]|exact H]).
  assert (Hn1 : ntok s1 = ntok s) by (subst s1; destruct (share_of s c); [unfold ntok; cbn; apply upd_nth_length|reflexivity]).
  assert (Hx1 : forall r, x = Some r -> rx_live s1 r = false) by (intros r E; subst s1; destruct (share_of s c); apply (Hx r E)).
  destruct (K_walk hx x (S i) c (share_of s1 c) m0 (waitingl s1 (S i)) s1 [] F H1) as [pre [E1 [E2 E3]]].
  { apply (kw _ _ _ _ _ _ H1 (S i)). } { apply incl_refl. } { intros w b _ []. } { exact Hx1. } { lia. }
  fold (waitingl s1 (S i)). destruct (walk_waiters (S i) c (share_of s1 c) (waitingl s1 (S i)) s1) as [[rest moved] s2]. cbn [fst snd app] in *.
  assert (Hnd : NoDup (map fst (pre ++ rest))) by (rewrite <- E1; apply (kw _ _ _ _ _ _ H1 (S i))).
  assert (Hw2 : waitingl s2 (S i) = pre ++ rest) by (rewrite (waitingl_toks s1 s2 (S i) E3); exact E1).
  set (s3 := upd_tok (S i) (set_waiting rest) s2).
  assert (Hn2 : ntok s2 = ntok s) by (unfold ntok; rewrite E3; exact Hn1).
  assert (H3' : KD (map fst pre) hx x (if moved then F else c :: F) m0 s3).
  { apply K_tok_waiting_sub; [| |exact E2].
    - rewrite map_app in Hnd. apply (NoDup_app_l _ _ Hnd).
    - rewrite Hw2. intros y Hy. apply in_or_app. right. exact Hy. }
  assert (H3 : KD [] hx x (if moved then F else c :: F) m0 s3).
  { eapply KD_reset; [|exact H3']. intros w t' b' ck Hd Hin' Hxw Hr. exfalso.
    destruct (proj2 (kw _ _ _ _ _ _ H3' t') w b' Hin') as [_ C2]. destruct (C2 ck Hxw Hr) as [Tk _].
    apply in_map_iff in Hd. destruct Hd as [[w0 b0] [Ew Hp]]. cbn in Ew. subst w0.
    assert (Hin2 : In (w, b0) (waitingl s2 (S i))) by (rewrite Hw2; apply in_or_app; left; exact Hp).
    destruct (proj2 (kw _ _ _ _ _ _ E2 (S i)) w b0 Hin2) as [_ C3]. destruct (C3 ck Hxw Hr) as [Tk2 _].
    assert (Et : t' = S i) by congruence. rewrite Et in Hin'.
    unfold waitingl, s3 in Hin'. rewrite tok_upd_same in Hin' by (fold (ntok s2); lia). cbn [p_waiting set_waiting] in Hin'.
    rewrite map_app in Hnd. eapply (NoDup_app_disj _ _ w Hnd).
    - change w with (fst (w, b0)). apply in_map. exact Hp.
    - change w with (fst (w, b')). apply in_map. exact Hin'. }
  destruct moved; [exact H3|].
  match goal with |- context [if ?b then _ else _] => destruct b end.
  - apply K_tok_idle_app; [|exact H3]. unfold s3, ntok. rewrite toks_upd_tok_length. fold (ntok s2). lia.
  - apply K_drop_conn. exact H3.
Qed.

Lemma optnat_dec (a b : option nat) : {a = b} + {a <> b}.
Proof. decide equality. apply Nat.eq_dec. Qed.

(* ---------------------------------------------------------------- releasing the waiters of an attempt *)
Lemma K_drop_sender D hx x w F m0 s : KD D hx x F m0 s -> KD D hx x F m0 (drop_sender w s).
Proof.
  intros H. unfold drop_sender. destruct (get_req s w) as [[|ck|? ? ?| |]|] eqn:Hr; try exact H.
  assert (H1 : KD D hx x F m0 (set_req w (RCheckout (k_set_txdropped true ck)) s)).
  { destruct (optnat_dec x (Some w)) as [->|Hx]; [apply K_set_req_x; exact H|].
    apply (K_set_req D hx x F F m0 w (RCheckout ck)); auto.
    - intros c t f p E. discriminate.
    - intros ck' t b E Hin. inversion E; subst ck'. cbn [k_token k_slot k_set_txdropped].
      destruct (proj2 (kw _ _ _ _ _ _ H t) w b Hin) as [_ C2]. apply (C2 ck Hx Hr).
    - exact (proj1 (kt _ _ _ _ _ _ H) w _ Hr Hx). }
  destruct (k_waiter ck); try exact H; (destruct (k_rxpolled ck); [apply K_wake_req|]; exact H1).
Qed.

Lemma release_pending_spec ws : forall s,
  fst (release_pending ws s) = filter (fun wb => negb (snd wb)) ws.
Proof.
  induction ws as [|[w b] ws IH]; intros s; cbn [release_pending filter snd]; [reflexivity|].
  destruct b; cbn [negb]; [apply IH|]. specialize (IH s). destruct (release_pending ws s) as [rest' s']. cbn [fst] in *. rewrite IH. reflexivity.
Qed.

Lemma K_release_pending D hx x F m0 ws : forall s, KD D hx x F m0 s -> KD D hx x F m0 (snd (release_pending ws s)).
Proof.
  induction ws as [|[w b] ws IH]; intros s H; cbn [release_pending]; [exact H|].
  destruct b; [apply IH; apply K_drop_sender; exact H|]. specialize (IH s H). destruct (release_pending ws s) as [rest' s']. exact IH.
Qed.

Lemma NoDup_map_filter {A B} (f : A -> B) (g : A -> bool) l : NoDup (map f l) -> NoDup (map f (filter g l)).
Proof.
  induction l as [|a l IH]; cbn; [auto|]. intros H. inversion H; subst. destruct (g a); cbn; [constructor|]; auto.
  intros Hin. apply H2. apply in_map_iff in Hin. destruct Hin as [y [E Hy]]. apply filter_In in Hy. rewrite <- E. apply in_map. apply Hy.
Qed.

Lemma K_pool_cancel hx x t rid F m0 s : KD [] hx x F m0 s -> KD [] hx x F m0 (pool_cancel t rid s).
Proof.
  intros H. unfold pool_cancel. destruct (p_marker (get_tok s t)) as [o|]; [|exact H]. destruct (Nat.eqb o rid); [|exact H].
  set (s1 := upd_tok t (set_marker None) s).
  assert (H1 : KD [] hx x F m0 s1) by (apply K_tok_keep; [intros p; split; reflexivity|exact H]).
  pose proof (K_release_pending [] hx x F m0 (p_waiting (get_tok s1 t)) s1 H1) as H2.
  pose proof (release_pending_spec (p_waiting (get_tok s1 t)) s1) as Hs.
  pose proof (toks_release_pending (p_waiting (get_tok s1 t)) s1) as Ht.
  destruct (release_pending (p_waiting (get_tok s1 t)) s1) as [rest s2]. cbn [fst snd] in *. subst rest.
  apply K_tok_waiting_sub; [| |exact H2].
  - apply NoDup_map_filter. apply (kw _ _ _ _ _ _ H1 t).
  - rewrite (waitingl_toks s1 s2 t Ht). intros y Hy. apply filter_In in Hy. apply Hy.
Qed.

(* ---------------------------------------------------------------- taking a connection out of the idle list *)
Lemma drop_conn_upd_tok c t f s : drop_conn c (upd_tok t f s) = upd_tok t f (drop_conn c s).
Proof.
  destruct t as [|i]; [reflexivity|]. unfold drop_conn. change (get_conn (upd_tok (S i) f s) c) with (get_conn s c).
  destruct (get_conn s c) as [cn|]; [|reflexivity]. destruct (Nat.eqb (pred (c_refs cn)) 0); reflexivity.
Qed.
Lemma drop_all_upd_tok l t f : forall s, drop_all l (upd_tok t f s) = upd_tok t f (drop_all l s).
Proof. induction l as [|[c a] l IH]; intros s; cbn [drop_all]; [reflexivity|]. rewrite drop_conn_upd_tok. apply IH. Qed.
Lemma is_open_upd_tok t f s c : is_open (upd_tok t f s) c = is_open s c.
Proof. destruct t; reflexivity. Qed.

Lemma pop_loop_upd_tok thr t f rl : forall s,
  pop_loop thr rl (upd_tok t f s) = (fst (pop_loop thr rl s), upd_tok t f (snd (pop_loop thr rl s))).
Proof.
  induction rl as [|[c a] rl IH]; intros s; cbn [pop_loop]; [reflexivity|].
  destruct (match thr with Some y => (a <? y)%N | None => false end).
  - cbn [fst snd]. rewrite drop_conn_upd_tok, drop_all_upd_tok. reflexivity.
  - rewrite is_open_upd_tok. destruct (is_open s c); [reflexivity|]. rewrite drop_conn_upd_tok. apply IH.
Qed.

Lemma K_pop_loop D hx x m0 thr rl : forall F s,
  KD D hx x (map fst rl ++ F) m0 s ->
  KD D hx x (map fst (snd (fst (pop_loop thr rl s))) ++ oconn (fst (fst (pop_loop thr rl s))) ++ F) m0 (snd (pop_loop thr rl s)).
Proof.
  induction rl as [|[c a] rl IH]; intros F s H; cbn [pop_loop]; [exact H|].
  destruct (match thr with Some y => (a <? y)%N | None => false end).
  - cbn [fst snd map oconn app]. apply K_drop_all. cbn [map fst app] in H. apply K_drop_conn in H.
    eapply K_meq; [|exact H]. intros c'. rewrite !cnt_app, map_rev, cnt_rev. reflexivity.
  - destruct (is_open s c).
    + cbn [fst snd map oconn app]. eapply K_meq; [|exact H]. intros c'. cbn [map fst app]. rewrite ?cnt_app, ?cnt_cons, ?cnt_app, ?cnt_nil. lia.
    + apply IH. apply K_drop_conn. exact H.
Qed.

Lemma upd_tok_twice t f g s : upd_tok t g (upd_tok t f s) = upd_tok t (fun p => g (f p)) s.
Proof. destruct t as [|i]; [reflexivity|]. unfold upd_tok. cbn [toks set_toks]. rewrite upd_nth_twice. reflexivity. Qed.

Lemma K_pool_pop hx x to t F m0 s :
  KD [] hx x F m0 s -> KD [] hx x (oconn (fst (pool_pop to t s)) ++ F) m0 (snd (pool_pop to t s)).
Proof.
  intros H. unfold pool_pop.
  set (thr := expiry_threshold to (now s)). set (rl := rev (p_idle (get_tok s t))).
  destruct t as [|i].
  { subst rl. cbn [get_tok empty_tok p_idle rev pop_loop fst snd upd_tok oconn app]. exact H. }
  destruct (Nat.lt_ge_cases i (ntok s)) as [Hi|Hi].
  2: { assert (E : rl = []) by (subst rl; cbn [get_tok]; rewrite nth_overflow by exact Hi; reflexivity).
       rewrite E. cbn [pop_loop fst snd oconn app]. unfold upd_tok. rewrite upd_nth_none by (apply nth_error_None; exact Hi).
       revert H. apply K_frame; reflexivity. }
  (* empty the idle list first: its handles are in flight while the loop runs *)
  set (s0 := upd_tok (S i) (set_idle []) s).
  assert (H0 : KD [] hx x (map fst rl ++ F) m0 s0).
  { apply (K_upd_tok [] hx x F (map fst rl ++ F) m0 i _ s Hi); [| |exact H].
    - intros c. unfold tokA, rl. cbn [p_idle set_idle map]. rewrite cnt_nil, cnt_app, map_rev, cnt_rev. lia.
    - cbn [p_waiting set_idle]. apply (kw _ _ _ _ _ _ H (S i)). }
  pose proof (K_pop_loop [] hx x m0 thr rl F s0 H0) as H1.
  pose proof (pop_loop_upd_tok thr (S i) (set_idle []) rl s) as Ec. fold s0 in Ec.
  destruct (pop_loop thr rl s) as [[r rest] s'] eqn:Ep. rewrite Ec in H1. cbn [fst snd] in *.
  assert (Hn' : ntok s' = ntok s).
  { unfold ntok. pose proof (toks_pop_loop thr rl s) as Et. rewrite Ep in Et. cbn [snd] in Et. rewrite Et. reflexivity. }
  replace (upd_tok (S i) (set_idle (rev rest)) s') with (upd_tok (S i) (set_idle (rev rest)) (upd_tok (S i) (set_idle []) s'))
    by (rewrite upd_tok_twice; reflexivity).
  apply (K_upd_tok [] hx x (map fst rest ++ oconn r ++ F) (oconn r ++ F) m0 i _ _); [| | |exact H1].
  - unfold ntok. rewrite toks_upd_tok_length. fold (ntok s'). lia.
  - intros c. rewrite tok_upd_same by (fold (ntok s'); lia). unfold tokA. cbn [p_idle set_idle map].
    rewrite cnt_nil, !cnt_app, map_rev, cnt_rev. lia.
  - cbn [p_waiting set_idle]. apply (kw _ _ _ _ _ _ H1 (S i)).
Qed.

(* ---------------------------------------------------------------- key table, registration, channel close, connector *)
Lemma req_tok_mono n n' q : n <= n' -> req_tok_ok n q -> req_tok_ok n' q.
Proof.
  intros Hn. destruct q as [|ck|p f pl| |]; cbn; auto; unfold ptok_ok; [|lia].
  intros [H1 H2]. split; [lia|]. intros p E. destruct (H2 p E) as [H3 H4]. split; [lia|exact H4].
Qed.
Lemma task_tok_mono n n' t : n <= n' -> task_tok_ok n t -> task_tok_ok n' t.
Proof. intros Hn. destruct t as [[c t|r t o]|]; cbn; auto; lia. Qed.

Lemma K_key_insert D hx x k F m0 s : KD D hx x F m0 s -> KD D hx x F m0 (snd (key_insert k s)).
Proof.
  intros H. unfold key_insert. destruct (find_key k (keys s) 1); cbn [snd]; [exact H|].
  destruct H as [A1 A2 A3 A4 A5 A6 A7 A8].
  set (s' := set_toks (toks s ++ [empty_tok]) (set_keys (keys s ++ [k]) s)).
  assert (Hw : forall t, waitingl s' t = waitingl s t).
  { intros [|i]; unfold waitingl; cbn [get_tok s' toks set_toks set_keys]; [reflexivity|].
    destruct (Nat.lt_ge_cases i (List.length (toks s))) as [Hl|Hl]; [rewrite app_nth1 by exact Hl; reflexivity|].
    rewrite app_nth2 by exact Hl. rewrite (nth_overflow (toks s)) by exact Hl. destruct (i - List.length (toks s)) as [|[|n]]; reflexivity. }
  assert (Hn : ntok s <= ntok s') by (unfold ntok, s'; cbn; rewrite app_length; lia).
  constructor; auto.
  - intros c. pose proof (A1 c) as E. unfold Hs, LA in *. cbn [s' toks set_toks set_keys].
    rewrite (reqs_x_frame x s s') by reflexivity. change (LH x s') with (LH x s). change (LT s') with (LT s). change (refs s' c) with (refs s c).
    rewrite flat_map_app, !cnt_app in *. cbn [flat_map tokA empty_tok p_idle map app]. rewrite cnt_nil. lia.
  - intros t. rewrite Hw. apply A5.
  - destruct A6 as [B1 B2]. split; [intros r q Hr Hx; eapply req_tok_mono; [exact Hn|]; eapply B1; eauto|].
    intros tid. eapply task_tok_mono; [exact Hn|apply B2].
Qed.

Lemma K_register hx x cfg t c F m0 s :
  KD [] hx x (c :: F) m0 s -> (g_pool cfg = true -> t <> 0 -> t <= ntok s) -> (forall r, x = Some r -> rx_live s r = false) ->
  KD [] hx x (c :: F) m0 (snd (register cfg t c s)) /\ fst (fst (register cfg t c s)) = c
  /\ (snd (fst (register cfg t c s)) = 0 \/ snd (fst (register cfg t c s)) = t).
Proof.
  intros H Ht Hx. unfold register.
  destruct (g_pool cfg && negb (t =? 0)) eqn:Hg; [destruct (share_of s c)|]; cbn [fst snd]; auto.
  apply andb_true_iff in Hg. destruct Hg as [Hp Hz]. destruct t as [|i]; [discriminate|].
  split; [|auto]. destruct (is_open s c); [|exact H].
  apply K_pool_push; [apply K_clone_conn; exact H| |exact Hx]. unfold ntok. cbn [clone_conn upd_conn toks set_conns].
  specialize (Ht Hp ltac:(discriminate)). unfold ntok in Ht. lia.
Qed.

Lemma K_rx_drop D hx x ck F m0 s :
  (forall p, k_slot ck = Some p -> ptok_ok (ntok s) p /\ k_waiter ck <> WNoPool) ->
  KD D hx x (oslot (k_slot ck) ++ F) m0 s -> KD D hx x F m0 (snd (rx_drop ck s)).
Proof.
  intros Hp H. unfold rx_drop. destruct (k_waiter ck) eqn:Hw; destruct (k_slot ck) as [p|] eqn:Hs; cbn [snd oslot app] in *; try exact H;
    try (apply K_pooled_drop; [apply (Hp p eq_refl)|exact H]).
  destruct (Hp p eq_refl) as [_ Hn]. contradiction Hn. reflexivity.
Qed.

Lemma rx_drop_ck ck s :
  (k_waiter ck = WNoPool -> k_slot ck = None) ->
  let ck' := fst (rx_drop ck s) in
  k_slot ck' = None /\ k_conn ck' = k_conn ck /\ k_token ck' = k_token ck /\ k_owner ck' = k_owner ck /\ k_inner ck' = k_inner ck
  /\ k_waiter ck' = WNoPool.
Proof.
  intros Hn. unfold rx_drop. destruct (k_waiter ck) eqn:Hw; destruct (k_slot ck) eqn:Hs;
    cbn [fst k_slot k_conn k_token k_owner k_inner k_waiter k_set_waiter k_set_slot]; repeat split; auto.
  specialize (Hn eq_refl). discriminate.
Qed.

Definition cres (r : cpoll) : list nat := match r with CReady (inl c) => [c] | _ => [] end.

Lemma K_upd_dial D hx x r f F m0 s : KD D hx x F m0 s -> KD D hx x F m0 (upd_dial r f s).
Proof. apply K_frame; reflexivity. Qed.

Lemma K_connector_poll D hx x rid by_ F m0 s :
  KD D hx x F m0 s ->
  KD D hx x (cres (fst (connector_poll rid by_ s)) ++ F) m0 (snd (connector_poll rid by_ s))
  /\ toks (snd (connector_poll rid by_ s)) = toks s /\ reqs (snd (connector_poll rid by_ s)) = reqs s.
Proof.
  intros H. unfold connector_poll. destruct (get_dial s rid) as [d|]; [|auto].
  destruct (d_stage d) as [| |[alpn| |]|]; cbn [fst snd cres app]; auto.
  - split; [|auto]. apply K_upd_dial. apply K_emit; [exact Logic.I|intros r E; discriminate|exact H].
  - split; [|auto]. apply K_upd_dial. exact H.
  - split; [|auto]. apply K_upd_dial. apply K_new_conn. exact H.
  - split; [|auto]. apply K_upd_dial. exact H.
  - split; [|auto]. apply K_upd_dial. exact H.
Qed.

(* ---------------------------------------------------------------- one poll of a checkout *)
Definition wres (w : wpoll) : list nat := match w with WConnected p => [fst p] | _ => [] end.
Definition kres (k : kpoll) : list nat := match k with KReady (inl p) => [fst p] | _ => [] end.
Definition ck_tok_ok (n : nat) (ck : checkout) : Prop := req_tok_ok n (RCheckout ck).

Lemma waiter_poll_acc n ck :
  ck_tok_ok n ck ->
  let w := fst (waiter_poll ck) in let ck1 := snd (waiter_poll ck) in
  meq (wres w ++ ck_conns ck1) (ck_conns ck) /\ k_token ck1 = k_token ck /\ k_conn ck1 = k_conn ck /\ k_inner ck1 = k_inner ck
  /\ ck_tok_ok n ck1 /\ (forall p, w = WConnected p -> ptok_ok n p) /\ (w = WContinue -> k_slot ck1 = None).
Proof.
  intros [T1 T2]. unfold waiter_poll, ck_tok_ok, req_tok_ok, ck_conns.
  destruct (k_waiter ck) eqn:Hw; destruct (k_slot ck) as [p|] eqn:Hs; try destruct (k_txdropped ck) eqn:Ht;
    cbn [fst snd wres k_slot k_conn k_token k_inner k_waiter k_set_waiter k_set_slot k_set_rxpolled oslot app];
    rewrite ?Hs, ?Hw; cbn [oslot app];
    (split; [apply meq_refl|]); repeat split; auto; try discriminate;
    try (intros p0 E; inversion E; subst; apply (T2 _ eq_refl));
    try (intros p0 E; discriminate E).
  all: try (destruct (T2 p eq_refl) as [_ Hn]; contradiction Hn; reflexivity).
Qed.

Lemma rx_live_set_closed rid ck s : k_waiter ck = WNoPool -> rx_live (set_req rid (RCheckout ck) s) rid = false.
Proof.
  intros Hw. unfold rx_live. rewrite get_req_set. destruct (Nat.eq_dec rid rid); [|congruence].
  destruct (get_req s rid); [rewrite Hw; reflexivity|reflexivity].
Qed.

Lemma ntok_set_req r v s : ntok (set_req r v s) = ntok s. Proof. reflexivity. Qed.

Definition conn_branch (cfg : config) (rid : nat) (ck1 : checkout) (s : state) : kpoll * checkout * state :=
  let '(r, s) := connector_poll rid ByReq s in
  match r with
  | CPending => (KPending, ck1, s)
  | CReady res =>
      let '(ck, s) := rx_drop ck1 s in
      let ck := k_set_inner IConnected ck in
      let s := set_req rid (RCheckout ck) s in
      match res with
      | inl c => let '(p, s) := register cfg (k_token ck) c s in (KReady (inl p), ck, s)
      | inr e => (KReady (inr e), ck, s)
      end
  end.

Definition cp_post (hx : option (nat * nat)) (rid : nat) (F : list nat) (m0 : mst) (n : nat) (r : kpoll * checkout * state) : Prop :=
  KD [] hx (Some rid) (kres (fst (fst r)) ++ ck_conns (snd (fst r)) ++ F) m0 (snd r) /\ ck_tok_ok (ntok (snd r)) (snd (fst r))
  /\ (forall p, fst (fst r) = KReady (inl p) -> ptok_ok (ntok (snd r)) p) /\ ntok (snd r) = n.

Lemma cp_post_simple hx rid F m0 res ck1 s :
  (forall p, res <> KReady (inl p)) -> KD [] hx (Some rid) (ck_conns ck1 ++ F) m0 s -> ck_tok_ok (ntok s) ck1 ->
  cp_post hx rid F m0 (ntok s) (res, ck1, s).
Proof.
  intros Hr H Hk. unfold cp_post. cbn [fst snd]. split; [|split; [exact Hk|split; [intros p E; destruct (Hr p E)|reflexivity]]].
  destruct res as [|[p|e]]; cbn [kres app]; try exact H. destruct (Hr p eq_refl).
Qed.

Lemma K_conn_branch hx cfg rid ck1 F m0 s :
  k_slot ck1 = None -> KD [] hx (Some rid) (oconn (k_conn ck1) ++ F) m0 s -> ck_tok_ok (ntok s) ck1 ->
  cp_post hx rid F m0 (ntok s) (conn_branch cfg rid ck1 s).
Proof.
  intros Hs H Hk. unfold conn_branch.
  destruct (K_connector_poll [] hx (Some rid) rid ByReq _ m0 s H) as (H1 & Ht1 & Hq1).
  assert (Hn1 : ntok (snd (connector_poll rid ByReq s)) = ntok s) by (unfold ntok; rewrite Ht1; reflexivity).
  destruct (connector_poll rid ByReq s) as [r s1]. cbn [fst snd] in *.
  assert (Hcc : ck_conns ck1 = oconn (k_conn ck1)) by (unfold ck_conns; rewrite Hs; reflexivity).
  destruct r as [|res]; cbn [cres app] in H1.
  - rewrite <- Hn1. apply cp_post_simple; [intros p E; discriminate|rewrite Hcc; exact H1|rewrite Hn1; exact Hk].
  - destruct (rx_drop_ck ck1 s1) as (R1 & R2 & R3 & _ & _ & R6); [intros _; exact Hs|]. cbv zeta in *.
    pose proof (K_rx_drop [] hx (Some rid) ck1 (cres (CReady res) ++ oconn (k_conn ck1) ++ F) m0 s1) as H2. rewrite Hs in H2. cbn [oslot app] in H2.
    assert (Hn2 : ntok (snd (rx_drop ck1 s1)) = ntok s) by (unfold ntok; rewrite toks_rx_drop; exact Hn1).
    destruct (rx_drop ck1 s1) as [ck2 s2]. cbn [fst snd] in *.
    specialize (H2 ltac:(intros p E; discriminate) H1).
    set (ck3 := k_set_inner IConnected ck2).
    assert (Hcc3 : ck_conns ck3 = oconn (k_conn ck1)) by (unfold ck_conns, ck3; cbn [k_slot k_conn k_set_inner]; rewrite R1, R2; reflexivity).
    assert (Hk3 : ck_tok_ok (ntok s) ck3).
    { unfold ck_tok_ok, req_tok_ok, ck3. cbn [k_token k_slot k_waiter k_set_inner]. rewrite R3. split; [apply Hk|]. intros p E. rewrite R1 in E. discriminate. }
    assert (H3 : KD [] hx (Some rid) (cres (CReady res) ++ oconn (k_conn ck1) ++ F) m0 (set_req rid (RCheckout ck3) s2)) by (apply K_set_req_x; exact H2).
    destruct res as [c|e]; cbn [cres app] in H3.
    + destruct (K_register hx (Some rid) cfg (k_token ck3) c (oconn (k_conn ck1) ++ F) m0 _ H3) as (H4 & Hf & Hsnd).
      { intros _ _. rewrite ntok_set_req, Hn2. apply Hk3. }
      { intros r E. inversion E; subst. apply rx_live_set_closed. exact R6. }
      assert (Hn3 : ntok (snd (register cfg (k_token ck3) c (set_req rid (RCheckout ck3) s2))) = ntok s).
      { unfold ntok. rewrite (f_tl _ _ _ _ _ (proj1 (Tr_register cfg (k_token ck3) c _))). exact Hn2. }
      destruct (register cfg (k_token ck3) c (set_req rid (RCheckout ck3) s2)) as [p s3]. cbn [fst snd] in *.
      unfold cp_post. cbn [fst snd kres]. rewrite Hcc3, Hf, Hn3. cbn [app]. split; [exact H4|]. split; [exact Hk3|]. split; [|reflexivity].
      intros p0 E. inversion E; subst p0. unfold ptok_ok. destruct Hsnd as [->| ->]; [lia|apply Hk3].
    + rewrite <- Hn2. change (ntok s2) with (ntok (set_req rid (RCheckout ck3) s2)).
      apply cp_post_simple; [intros p E; discriminate|rewrite Hcc3; exact H3|rewrite ntok_set_req, Hn2; exact Hk3].
Qed.

Lemma K_checkout_poll hx cfg rid ck F m0 s :
  KD [] hx (Some rid) (ck_conns ck ++ F) m0 s -> ck_tok_ok (ntok s) ck ->
  cp_post hx rid F m0 (ntok s) (checkout_poll cfg rid ck s).
Proof.
  intros H Hk. unfold checkout_poll.
  destruct (waiter_poll_acc (ntok s) ck Hk) as (W1 & W2 & W3 & W4 & W5 & W6 & W7). cbv zeta in *.
  destruct (waiter_poll ck) as [w ck1]. cbn [fst snd] in *.
  assert (H1 : KD [] hx (Some rid) (wres w ++ ck_conns ck1 ++ F) m0 s).
  { eapply K_meq; [|exact H]. intros c. rewrite !cnt_app. pose proof (W1 c) as E. rewrite cnt_app in E. lia. }
  destruct w as [|p|]; cbn [wres app] in *.
  - apply cp_post_simple; [intros p E; discriminate|exact H1|exact W5].
  - unfold cp_post. cbn [fst snd kres]. split; [exact H1|]. split; [exact W5|]. split; [|reflexivity]. intros p0 E. inversion E; subst. apply W6. reflexivity.
  - specialize (W7 eq_refl).
    assert (Hcc : ck_conns ck1 = oconn (k_conn ck1)) by (unfold ck_conns; rewrite W7; reflexivity).
    destruct (k_inner ck1) eqn:Hi.
    + apply cp_post_simple; [intros p E; discriminate|exact H1|exact W5].
    + destruct (k_conn ck1) as [c|] eqn:Hc; [|apply cp_post_simple; [intros p E; discriminate|exact H1|exact W5]].
      (* a popped connection: close the channel, then register *)
      set (ck0 := k_set_conn None ck1).
      assert (Hs0 : k_slot ck0 = None) by exact W7.
      destruct (rx_drop_ck ck0 s) as (R1 & R2 & R3 & _ & _ & R6); [intros _; exact Hs0|]. cbv zeta in *.
      pose proof (K_rx_drop [] hx (Some rid) ck0 (c :: F) m0 s) as H2. rewrite Hs0 in H2. cbn [oslot app] in H2.
      assert (Hn2 : ntok (snd (rx_drop ck0 s)) = ntok s) by (unfold ntok; rewrite toks_rx_drop; reflexivity).
      destruct (rx_drop ck0 s) as [ck2 s2]. cbn [fst snd] in *.
      assert (H2' : KD [] hx (Some rid) (c :: F) m0 s2).
      { apply H2; [intros p E; discriminate|]. eapply K_meq; [|exact H1]. intros c'. rewrite Hcc. cbn [oconn app]. reflexivity. }
      assert (H3 : KD [] hx (Some rid) (c :: F) m0 (set_req rid (RCheckout ck2) s2)) by (apply K_set_req_x; exact H2').
      destruct (K_register hx (Some rid) cfg (k_token ck2) c F m0 _ H3) as (H4 & Hf & Hsnd).
      { intros _ _. rewrite ntok_set_req, Hn2, R3. cbn [k_token ck0 k_set_conn]. apply W5. }
      { intros r E. inversion E; subst. apply rx_live_set_closed. exact R6. }
      assert (Hn3 : ntok (snd (register cfg (k_token ck2) c (set_req rid (RCheckout ck2) s2))) = ntok s).
      { unfold ntok. rewrite (f_tl _ _ _ _ _ (proj1 (Tr_register cfg (k_token ck2) c _))). exact Hn2. }
      destruct (register cfg (k_token ck2) c (set_req rid (RCheckout ck2) s2)) as [p s3]. cbn [fst snd] in *.
      assert (Hcc2 : ck_conns ck2 = []) by (unfold ck_conns; rewrite R1, R2; reflexivity).
      unfold cp_post. cbn [fst snd kres]. rewrite Hcc2, Hf, Hn3. cbn [app]. split; [exact H4|]. split.
      { unfold ck_tok_ok, req_tok_ok. rewrite R3. split; [apply W5|]. intros p0 E. rewrite R1 in E. discriminate. }
      split; [|reflexivity]. intros p0 E. inversion E; subst p0. unfold ptok_ok.
      destruct Hsnd as [->| ->]; [lia|]. rewrite R3. apply W5.
    + apply (K_conn_branch hx cfg rid ck1 F m0 s W7); [rewrite <- Hcc; exact H1|exact W5].
    + apply (K_conn_branch hx cfg rid ck1 F m0 s W7); [rewrite <- Hcc; exact H1|exact W5].
    + apply (K_conn_branch hx cfg rid ck1 F m0 s W7); [rewrite <- Hcc; exact H1|exact W5].
Qed.

(* ---------------------------------------------------------------- dropping a checkout *)
Lemma ntok_Tr xr xd xt s s' : Tr xr xd xt s s' -> ntok s' = ntok s.
Proof. intros [F _]. unfold ntok. apply (f_tl _ _ _ _ _ F). Qed.

Lemma K_checkout_drop hx cfg rid ck F m0 s :
  KD [] hx (Some rid) (ck_conns ck ++ F) m0 s -> ck_tok_ok (ntok s) ck -> rx_live s rid = false ->
  KD [] hx (Some rid) F m0 (checkout_drop cfg rid ck s).
Proof.
  intros H [Tk Ts] Hl. unfold checkout_drop.
  set (s1 := match k_conn ck with
             | Some c => if is_open s c && (g_pool cfg && negb (k_token ck =? 0)) then pool_push (g_max_idle cfg) (k_token ck) c s else drop_conn c s
             | None => s end).
  assert (H1 : KD [] hx (Some rid) (oslot (k_slot ck) ++ F) m0 s1 /\ ntok s1 = ntok s).
  { subst s1. unfold ck_conns in H. destruct (k_conn ck) as [c|]; cbn [oconn] in H.
    2: { split; [|reflexivity]. eapply K_meq; [|exact H]. intros c'. rewrite !cnt_app, cnt_nil. lia. }
    assert (H' : KD [] hx (Some rid) (c :: oslot (k_slot ck) ++ F) m0 s).
    { eapply K_meq; [|exact H]. intros c'. rewrite !cnt_app, !cnt_cons, !cnt_app, cnt_nil. lia. }
    destruct (is_open s c && (g_pool cfg && negb (k_token ck =? 0))) eqn:Hg.
    - apply andb_true_iff in Hg. destruct Hg as [_ Hg]. apply andb_true_iff in Hg. destruct Hg as [_ Hz].
      destruct (k_token ck) as [|i] eqn:Et; [discriminate|]. split; [|apply (ntok_Tr _ _ _ _ _ (Tr_pool_push _ _ _ _))].
      apply K_pool_push; [exact H'|lia|]. intros r E. inversion E; subst. exact Hl.
    - split; [apply K_drop_conn; exact H'|apply (ntok_Tr _ _ _ _ _ (Tr_drop_conn _ _))]. }
  destruct H1 as [H1 Hn1].
  set (started := match get_dial s1 rid with Some d => match d_stage d with DNew => false | _ => true end | None => false end).
  set (delayed := match k_inner ck with IDelayDrop => started | _ => false end).
  set (s2 := if delayed then spawn (TDelayed rid (k_token ck) (k_owner ck)) s1
             else if g_pool cfg && negb (k_token ck =? 0) && k_owner ck then pool_cancel (k_token ck) rid s1 else s1).
  assert (H2 : KD [] hx (Some rid) (oslot (k_slot ck) ++ F) m0 s2 /\ ntok s2 = ntok s).
  { subst s2. destruct delayed.
    - split; [apply K_spawn_delayed; [rewrite Hn1; exact Tk|exact H1]|exact Hn1].
    - destruct (g_pool cfg && negb (k_token ck =? 0) && k_owner ck); [|auto].
      split; [apply K_pool_cancel; exact H1|]. rewrite (ntok_Tr _ _ _ _ _ (Tr_pool_cancel _ _ _)). exact Hn1. }
  destruct H2 as [H2 Hn2].
  pose proof (K_rx_drop [] hx (Some rid) ck F m0 s2) as H3.
  destruct (rx_drop ck s2) as [ck' s3]. cbn [snd] in H3.
  assert (H3' : KD [] hx (Some rid) F m0 s3) by (apply H3; [intros p E; rewrite Hn2; apply (Ts p E)|exact H2]).
  destruct (k_inner ck); try exact H3'; try (apply K_upd_dial; exact H3').
  destruct delayed; [exact H3'|apply K_upd_dial; exact H3'].
Qed.

Lemma K_hold_release D hx x r p F m0 s :
  ptok_ok (ntok s) p -> KD D hx x (fst p :: F) m0 s -> KD D hx x F m0 (hold_release r p s).
Proof.
  intros Hp H. unfold hold_release. apply K_pooled_drop; [exact Hp|].
  apply K_emit; [exact Logic.I|intros r' E; discriminate|]. apply K_upd_conn; [intros cn; reflexivity|exact H].
Qed.

(* ---------------------------------------------------------------- taking a request out of / putting it back into the books *)
Lemma cnt_blank (f : req -> list nat) r q l c : f RDone = [] -> nth_error l r = Some q ->
  cnt (flat_map f (upd_nth r (fun _ => RDone) l)) c + cnt (f q) c = cnt (flat_map f l) c.
Proof. intros Hf Hn. pose proof (cnt_flat_map_upd f (fun _ => RDone) c l r q Hn) as E. cbv beta in E. rewrite Hf, cnt_nil in E. lia. Qed.

Lemma K_open D hx r q F m0 s :
  KD D hx None F m0 s -> get_req s r = Some q -> KD D hx (Some r) (reqA q ++ reqH q ++ F) m0 s.
Proof.
  intros [A1 A2 A3 A4 A5 A6 A7 A8] Hq. constructor; auto.
  - intros c. pose proof (A1 c) as E. unfold Hs, LA, LH, reqs_x in *. rewrite !cnt_app in *.
    pose proof (cnt_blank reqA r q (reqs s) c eq_refl Hq) as E1. pose proof (cnt_blank reqH r q (reqs s) c eq_refl Hq) as E2. lia.
  - intros r' c t f p Hr _. eapply A4; eauto. discriminate.
  - intros t. destruct (A5 t) as [B1 B2]. split; [exact B1|]. intros w b Hin. destruct (B2 w b Hin) as [C1 C2]. split; [exact C1|].
    intros ck _ Hr. apply C2; [discriminate|exact Hr].
  - destruct A6 as [B1 B2]. split; [|exact B2]. intros r' q' Hr _. eapply B1; eauto. discriminate.
Qed.

Lemma K_close hx r q F m0 s :
  KD [] hx (Some r) (reqA q ++ reqH q ++ F) m0 s -> get_req s r = Some q ->
  (forall c t f p, q = RHolding (c, t) f p -> exists ri, nth_error (m_reqs (tm m0 s)) r = Some ri /\ ri_stat ri = SHeld c) ->
  (forall ck t b, q = RCheckout ck -> In (r, b) (waitingl s t) -> k_token ck = t /\ k_slot ck = None) ->
  req_tok_ok (ntok s) q -> KD [] hx None F m0 s.
Proof.
  intros [A1 A2 A3 A4 A5 A6 A7 A8] Hq Hh Hw Ht. constructor; auto.
  - intros c. pose proof (A1 c) as E. unfold Hs, LA, LH, reqs_x in *. rewrite !cnt_app in *.
    pose proof (cnt_blank reqA r q (reqs s) c eq_refl Hq) as E1. pose proof (cnt_blank reqH r q (reqs s) c eq_refl Hq) as E2. lia.
  - intros r' c t f p Hr _. destruct (Nat.eq_dec r' r) as [->|Hne]; [|eapply A4; eauto; congruence].
    rewrite Hq in Hr. inversion Hr; subst q. eapply Hh. reflexivity.
  - intros t. destruct (A5 t) as [B1 B2]. split; [exact B1|]. intros w b Hin. destruct (B2 w b Hin) as [C1 C2]. split; [exact C1|].
    intros ck _ Hr. destruct (Nat.eq_dec w r) as [->|Hne]; [|apply C2; [congruence|exact Hr]].
    rewrite Hq in Hr. inversion Hr; subst q. destruct (Hw ck t b eq_refl Hin) as [E1 E2]. auto.
  - destruct A6 as [B1 B2]. split; [|exact B2]. intros r' q' Hr _. destruct (Nat.eq_dec r' r) as [->|Hne]; [|eapply B1; eauto; congruence].
    rewrite Hq in Hr. inversion Hr; subst q'. exact Ht.
Qed.

Lemma K_open_hold D r c t f p F m0 s :
  KD D None None F m0 s -> get_req s r = Some (RHolding (c, t) f p) -> KD D (Some (r, c)) (Some r) (c :: F) m0 s.
Proof.
  intros H Hq. pose proof (K_open D None r _ F m0 s H Hq) as H1. cbn [reqA reqH app fst] in H1.
  destruct H1 as [A1 A2 A3 A4 A5 A6 A7 A8]. constructor; auto.
  intros r' c' E. inversion E; subst r' c'. apply (kh _ _ _ _ _ _ H r c t f p Hq). discriminate.
Qed.

Lemma checkout_poll_pending_slot cfg r ck s n :
  ck_tok_ok n ck -> fst (fst (checkout_poll cfg r ck s)) = KPending ->
  k_slot (snd (fst (checkout_poll cfg r ck s))) = None /\ k_token (snd (fst (checkout_poll cfg r ck s))) = k_token ck
  /\ toks (snd (checkout_poll cfg r ck s)) = toks s.
Proof.
  intros Hk. unfold checkout_poll.
  destruct (waiter_poll_acc n ck Hk) as (_ & W2 & _ & _ & _ & _ & W7). cbv zeta in *.
  assert (Hwp : fst (waiter_poll ck) = WPending -> k_slot (snd (waiter_poll ck)) = None).
  { unfold waiter_poll. destruct (k_waiter ck), (k_slot ck) eqn:Hs, (k_txdropped ck); cbn; auto; discriminate. }
  destruct (waiter_poll ck) as [w ck1]. cbn [fst snd] in *.
  destruct w as [|p|]; cbn [fst snd]; try discriminate; [auto|].
  specialize (W7 eq_refl). destruct (k_inner ck1); cbn [fst snd]; try discriminate.
  - destruct (k_conn ck1) as [c|]; cbn [fst snd]; [|auto].
    destruct (rx_drop (k_set_conn None ck1) s) as [ck2 s2]. destruct (register cfg (k_token ck2) c _) as [p s3]. cbn [fst]. discriminate.
  - pose proof (toks_connector_poll r ByReq s) as Ht. destruct (connector_poll r ByReq s) as [[|res] s1]; cbn [fst snd] in *; [auto|].
    destruct (rx_drop ck1 s1) as [ck2 s2]. destruct res as [c|e]; [destruct (register cfg _ c _) as [p s3]|]; cbn [fst]; discriminate.
  - pose proof (toks_connector_poll r ByReq s) as Ht. destruct (connector_poll r ByReq s) as [[|res] s1]; cbn [fst snd] in *; [auto|].
    destruct (rx_drop ck1 s1) as [ck2 s2]. destruct res as [c|e]; [destruct (register cfg _ c _) as [p s3]|]; cbn [fst]; discriminate.
  - pose proof (toks_connector_poll r ByReq s) as Ht. destruct (connector_poll r ByReq s) as [[|res] s1]; cbn [fst snd] in *; [auto|].
    destruct (rx_drop ck1 s1) as [ck2 s2]. destruct res as [c|e]; [destruct (register cfg _ c _) as [p s3]|]; cbn [fst]; discriminate.
Qed.
