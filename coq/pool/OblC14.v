(* C14 support, part 7 (clause (b)): the fate of a connection created by a delayed task during one run
   of the background tasks: parked, surplus, offered to a waiter that was already waiting, or still to be
   handed back by a queued task.  Model only. *)
From HD Require Import common.Base http.Model pool.Model pool.Spec pool.Frames pool.BaseC14 pool.FramesC14 pool.TokC14 pool.DialC14 pool.BgC14.
Local Open Scope list_scope.

Definition idl (s : state) (t : nat) : list nat := map fst (p_idle (get_tok s t)).
Definition wtg (s : state) (t : nat) : list (nat * bool) := p_waiting (get_tok s t).
Definition lv (s : state) (t : nat) : bool := existsb (fun w => rx_live s (fst w)) (wtg s t).

(* ------------------------------------------------------------------ liveness of receivers is not touched by the pool *)
Definition rxl (s s' : state) : Prop := forall w, rx_live s' w = rx_live s w.
Lemma rxl_refl s : rxl s s. Proof. intros w. reflexivity. Qed.
Lemma rxl_trans a b c : rxl a b -> rxl b c -> rxl a c.
Proof. intros H1 H2 w. rewrite H2, H1. reflexivity. Qed.
Lemma rxl_reqs s s' : reqs s' = reqs s -> rxl s s'.
Proof. intros E w. unfold rx_live, get_req. rewrite E. reflexivity. Qed.

Lemma rxl_set_req_ck w ck ck' s : get_req s w = Some (RCheckout ck) -> k_waiter ck' = k_waiter ck -> rxl s (set_req w (RCheckout ck') s).
Proof.
  intros Hw Hk w'. unfold rx_live, get_req, set_req. cbn [reqs set_reqs]. rewrite nth_error_upd.
  destruct (Nat.eqb_spec w w') as [<-|]; [|reflexivity]. unfold get_req in Hw. rewrite Hw. cbn. rewrite Hk. reflexivity.
Qed.
Lemma rxl_wake_req r s : rxl s (wake_req r s). Proof. apply rxl_reqs. reflexivity. Qed.
Lemma rxl_deliver w p s : rxl s (deliver w p s).
Proof.
  unfold deliver. destruct (get_req s w) as [[|ck| | |]|] eqn:E; try apply rxl_refl.
  assert (H : rxl s (set_req w (RCheckout (k_set_slot (Some p) ck)) s)) by (eapply rxl_set_req_ck; eauto).
  destruct (k_rxpolled ck); [eapply rxl_trans; [exact H|apply rxl_wake_req]|exact H].
Qed.
Lemma rxl_drop_sender w s : rxl s (drop_sender w s).
Proof.
  unfold drop_sender. destruct (get_req s w) as [[|ck| | |]|] eqn:E; try apply rxl_refl.
  assert (H : rxl s (set_req w (RCheckout (k_set_txdropped true ck)) s)) by (eapply rxl_set_req_ck; eauto).
  destruct (k_waiter ck); try apply rxl_refl;
    (destruct (k_rxpolled ck); [eapply rxl_trans; [exact H|apply rxl_wake_req]|exact H]).
Qed.
Lemma rxl_upd_tok t f s : rxl s (upd_tok t f s). Proof. apply rxl_reqs. destruct t; reflexivity. Qed.
Lemma rxl_drop_conn c s : rxl s (drop_conn c s).
Proof. apply rxl_reqs. unfold drop_conn. destruct (get_conn s c); [|reflexivity]. destruct (Nat.eqb _ _); reflexivity. Qed.
Lemma rxl_clone_conn c s : rxl s (clone_conn c s). Proof. apply rxl_reqs. reflexivity. Qed.
Lemma rxl_walk_waiters t c sh ws : forall s, rxl s (snd (walk_waiters t c sh ws s)).
Proof.
  induction ws as [|[w b] ws IH]; intros s; cbn [walk_waiters]; [apply rxl_refl|].
  destruct (rx_live s w); [destruct sh|].
  - eapply rxl_trans; [|apply IH]. eapply rxl_trans; [apply rxl_clone_conn|apply rxl_deliver].
  - cbn [snd]. apply rxl_deliver.
  - apply IH.
Qed.
Lemma rxl_release_pending ws : forall s, rxl s (snd (release_pending ws s)).
Proof.
  induction ws as [|[w b] ws IH]; intros s; cbn [release_pending]; [apply rxl_refl|].
  destruct b.
  - eapply rxl_trans; [apply rxl_drop_sender|apply IH].
  - specialize (IH s). destruct (release_pending ws s). exact IH.
Qed.

(* ------------------------------------------------------------------ tokens *)
Lemma get_tok_upd_cases t f s t' :
  get_tok (upd_tok t f s) t' = get_tok s t' \/ (t' = t /\ get_tok (upd_tok t f s) t' = f (get_tok s t)).
Proof.
  destruct t as [|i]; [left; reflexivity|]. destruct t' as [|j]; [left; reflexivity|].
  cbn [get_tok upd_tok toks set_toks]. rewrite nth_upd. destruct (Nat.eqb_spec i j) as [->|]; [|left; reflexivity].
  destruct (Nat.ltb_spec j (List.length (toks s))); [right; auto|left; rewrite nth_overflow by lia; reflexivity].
Qed.

(* sub-queues *)
Definition subq (l' l : list (nat * bool)) : Prop := forall w, In w l' -> In w l.
Lemma existsb_subq (f g : nat * bool -> bool) l' l : subq l' l -> (forall w, f w = g w) -> existsb f l' = true -> existsb g l = true.
Proof.
  intros Hs Hf H. apply existsb_exists in H. destruct H as (w & Hin & Hw). apply existsb_exists. exists w. split; [apply Hs, Hin|rewrite <- Hf; exact Hw].
Qed.

Lemma walk_rest_subq t c sh ws : forall s, subq (fst (fst (walk_waiters t c sh ws s))) ws.
Proof.
  induction ws as [|[w b] ws IH]; intros s; cbn [walk_waiters]; [intros x []|].
  destruct (rx_live s w); [destruct sh|].
  - intros x Hx. right. eapply IH; eauto.
  - cbn [fst]. intros x Hx. right. exact Hx.
  - intros x Hx. right. eapply IH; eauto.
Qed.
Lemma walk_moved_live t c ws : forall s, snd (fst (walk_waiters t c false ws s)) = true -> existsb (fun w => rx_live s (fst w)) ws = true.
Proof.
  induction ws as [|[w b] ws IH]; intros s; cbn [walk_waiters existsb fst snd]; [discriminate|].
  destruct (rx_live s w) eqn:E; [reflexivity|]. cbn [orb]. apply IH.
Qed.
Lemma walk_shared_not_moved t c ws : forall s, snd (fst (walk_waiters t c true ws s)) = false.
Proof.
  induction ws as [|[w b] ws IH]; intros s; cbn [walk_waiters fst snd]; [reflexivity|].
  destruct (rx_live s w); apply IH.
Qed.
Lemma release_rest_subq ws : forall s, subq (fst (release_pending ws s)) ws.
Proof.
  induction ws as [|[w b] ws IH]; intros s; cbn [release_pending]; [intros x []|].
  destruct b.
  - intros x Hx. right. eapply IH; eauto.
  - specialize (IH s). destruct (release_pending ws s) as [rest s']. cbn [fst] in *. intros x [<-|Hx]; [left; reflexivity|right; apply IH, Hx].
Qed.

(* ------------------------------------------------------------------ the token frame: idle lists grow, queues shrink *)
Record tkf (s s' : state) : Prop := mkTkf {
  tk_in : forall t c, In c (idl s t) -> In c (idl s' t);
  tk_len : forall t, List.length (p_idle (get_tok s t)) <= List.length (p_idle (get_tok s' t));
  tk_sub : forall t, subq (wtg s' t) (wtg s t);
  tk_tl : List.length (toks s') = List.length (toks s)
}.
Lemma tkf_refl s : tkf s s.
Proof. constructor; auto. intros t w H. exact H. Qed.
Lemma tkf_trans a b c : tkf a b -> tkf b c -> tkf a c.
Proof.
  intros [A1 A2 A3 A4] [B1 B2 B3 B4]. constructor; auto; try congruence.
  - intros t. specialize (A2 t). specialize (B2 t). lia.
  - intros t w H. apply A3, B3, H.
Qed.
Lemma tkf_toks s s' : toks s' = toks s -> tkf s s'.
Proof.
  intros E. assert (G : forall t, get_tok s' t = get_tok s t) by (intros t; apply get_tok_frame; exact E).
  constructor; unfold idl, wtg; intros; rewrite ?G; auto; try lia. - intros w H. exact H. - congruence.
Qed.
Lemma tkf_upd_tok t f s :
  (forall c, In c (map fst (p_idle (get_tok s t))) -> In c (map fst (p_idle (f (get_tok s t))))) ->
  List.length (p_idle (get_tok s t)) <= List.length (p_idle (f (get_tok s t))) ->
  subq (p_waiting (f (get_tok s t))) (p_waiting (get_tok s t)) -> tkf s (upd_tok t f s).
Proof.
  intros H1 H2 H3. constructor.
  - intros t' c Hc. unfold idl in *. destruct (get_tok_upd_cases t f s t') as [->|[-> ->]]; auto.
  - intros t'. destruct (get_tok_upd_cases t f s t') as [->|[-> ->]]; auto.
  - intros t'. unfold wtg. destruct (get_tok_upd_cases t f s t') as [->|[-> ->]]; auto. intros w H. exact H.
  - destruct t; [reflexivity|]. cbn. apply upd_nth_len.
Qed.
Lemma subq_refl l : subq l l. Proof. intros w H. exact H. Qed.

Lemma tkf_pool_push n t c s : tkf s (pool_push n t c s).
Proof.
  unfold pool_push.
  set (s1 := if share_of s c then upd_tok t (set_marker None) s else s).
  assert (H1 : tkf s s1) by (subst s1; destruct (share_of s c); [apply tkf_upd_tok; auto using subq_refl|apply tkf_refl]).
  pose proof (toks_walk_waiters t c (share_of s1 c) (p_waiting (get_tok s1 t)) s1) as T2.
  pose proof (walk_rest_subq t c (share_of s1 c) (p_waiting (get_tok s1 t)) s1) as S2.
  destruct (walk_waiters t c (share_of s1 c) (p_waiting (get_tok s1 t)) s1) as [[rest moved] s2]. cbn [fst snd] in T2, S2.
  assert (G2 : get_tok s2 t = get_tok s1 t) by (apply get_tok_frame; exact T2).
  assert (H3 : tkf s (upd_tok t (set_waiting rest) s2)).
  { eapply tkf_trans; [exact H1|]. eapply tkf_trans; [apply tkf_toks; exact T2|].
    apply tkf_upd_tok; auto. cbn. rewrite G2. exact S2. }
  destruct moved; [exact H3|].
  match goal with |- tkf _ (if ?b then _ else _) => destruct b end.
  - eapply tkf_trans; [exact H3|]. apply tkf_upd_tok; cbn; auto using subq_refl.
    + intros c0 Hc. rewrite map_app. apply in_or_app. left. exact Hc.
    + rewrite app_length. lia.
  - eapply tkf_trans; [exact H3|apply tkf_toks, toks_drop_conn].
Qed.

Lemma tkf_pool_cancel t rid s : tkf s (pool_cancel t rid s).
Proof.
  unfold pool_cancel. destruct (p_marker (get_tok s t)) as [o|]; [|apply tkf_refl]. destruct (Nat.eqb o rid); [|apply tkf_refl].
  set (s1 := upd_tok t (set_marker None) s).
  assert (H1 : tkf s s1) by (apply tkf_upd_tok; auto using subq_refl).
  pose proof (toks_release_pending (p_waiting (get_tok s1 t)) s1) as T2.
  pose proof (release_rest_subq (p_waiting (get_tok s1 t)) s1) as S2.
  destruct (release_pending (p_waiting (get_tok s1 t)) s1) as [rest s2]. cbn [fst snd] in T2, S2.
  assert (G2 : get_tok s2 t = get_tok s1 t) by (apply get_tok_frame; exact T2).
  eapply tkf_trans; [exact H1|]. eapply tkf_trans; [apply tkf_toks; exact T2|].
  apply tkf_upd_tok; auto. cbn. rewrite G2. exact S2.
Qed.

Lemma share_of_upd_tok t f s c : share_of (upd_tok t f s) c = share_of s c.
Proof. destruct t; reflexivity. Qed.

Lemma push_outcome n t c s : 1 <= t -> t <= List.length (toks s) ->
  (share_of s c = false /\ lv s t = true) \/ In c (idl (pool_push n t c s) t)
  \/ n <= List.length (p_idle (get_tok (pool_push n t c s) t)).
Proof.
  intros Ht1 Ht2. unfold pool_push.
  set (s1 := if share_of s c then upd_tok t (set_marker None) s else s).
  assert (Hsh : share_of s1 c = share_of s c) by (subst s1; destruct (share_of s c) eqn:E; [rewrite share_of_upd_tok|]; exact E).
  assert (L1 : List.length (toks s1) = List.length (toks s)).
  { subst s1. destruct (share_of s c); [|reflexivity]. destruct t; [reflexivity|]. cbn. apply upd_nth_len. }
  assert (Hmv : snd (fst (walk_waiters t c (share_of s1 c) (p_waiting (get_tok s1 t)) s1)) = true ->
                share_of s c = false /\ lv s t = true).
  { rewrite Hsh. destruct (share_of s c) eqn:Es.
    - rewrite walk_shared_not_moved. discriminate.
    - intros Hm. split; [reflexivity|]. apply walk_moved_live in Hm. subst s1. exact Hm. }
  pose proof (toks_walk_waiters t c (share_of s1 c) (p_waiting (get_tok s1 t)) s1) as T2.
  destruct (walk_waiters t c (share_of s1 c) (p_waiting (get_tok s1 t)) s1) as [[rest moved] s2]. cbn [fst snd] in T2, Hmv.
  assert (L2 : t <= List.length (toks s2)) by (rewrite T2, L1; exact Ht2).
  set (s3 := upd_tok t (set_waiting rest) s2).
  assert (L3 : t <= List.length (toks s3)) by (subst s3; destruct t; [lia|]; cbn; rewrite upd_nth_len; exact L2).
  destruct moved; [left; apply Hmv; reflexivity|].
  right. match goal with |- context [if ?b then _ else _] => destruct b eqn:Eb end.
  - left. unfold idl. rewrite (get_tok_upd_same t _ s3) by lia. cbn. rewrite map_app. apply in_or_app. right. left. reflexivity.
  - right. apply Nat.ltb_ge in Eb. rewrite (get_tok_frame _ _ t (toks_drop_conn c s3)). exact Eb.
Qed.

(* ------------------------------------------------------------------ the task table is only touched by spawn / finish_task *)
Lemma tasks_emit e s : tasks (emit e s) = tasks s. Proof. reflexivity. Qed.
Lemma tasks_upd_conn c f s : tasks (upd_conn c f s) = tasks s. Proof. reflexivity. Qed.
Lemma tasks_set_req r v s : tasks (set_req r v s) = tasks s. Proof. reflexivity. Qed.
Lemma tasks_upd_dial r f s : tasks (upd_dial r f s) = tasks s. Proof. reflexivity. Qed.
Lemma tasks_upd_tok t f s : tasks (upd_tok t f s) = tasks s. Proof. destruct t; reflexivity. Qed.
Lemma tasks_drop_conn c s : tasks (drop_conn c s) = tasks s.
Proof. unfold drop_conn. dm; reflexivity. Qed.
Lemma tasks_clone_conn c s : tasks (clone_conn c s) = tasks s. Proof. reflexivity. Qed.
Lemma tasks_deliver w p s : tasks (deliver w p s) = tasks s.
Proof. unfold deliver. dm; reflexivity. Qed.
Lemma tasks_drop_sender w s : tasks (drop_sender w s) = tasks s.
Proof. unfold drop_sender. dm; reflexivity. Qed.
Lemma tasks_walk_waiters t c sh ws : forall s, tasks (snd (walk_waiters t c sh ws s)) = tasks s.
Proof.
  induction ws as [|[w b] ws IH]; intros s; cbn [walk_waiters]; [reflexivity|].
  destruct (rx_live s w); [destruct sh|].
  - rewrite IH, tasks_deliver. reflexivity.
  - cbn [snd]. apply tasks_deliver.
  - apply IH.
Qed.
Lemma tasks_release_pending ws : forall s, tasks (snd (release_pending ws s)) = tasks s.
Proof.
  induction ws as [|[w b] ws IH]; intros s; cbn [release_pending]; [reflexivity|].
  destruct b.
  - rewrite IH. apply tasks_drop_sender.
  - specialize (IH s). destruct (release_pending ws s). exact IH.
Qed.
Lemma tasks_pool_cancel t rid s : tasks (pool_cancel t rid s) = tasks s.
Proof.
  unfold pool_cancel. destruct (p_marker (get_tok s t)) as [o|]; [|reflexivity]. destruct (Nat.eqb o rid); [|reflexivity].
  pose proof (tasks_release_pending (p_waiting (get_tok (upd_tok t (set_marker None) s) t)) (upd_tok t (set_marker None) s)) as H.
  destruct (release_pending _ _) as [rest s2]. cbn [snd] in H. rewrite tasks_upd_tok, H, tasks_upd_tok. reflexivity.
Qed.
Lemma tasks_pool_push n t c s : tasks (pool_push n t c s) = tasks s.
Proof.
  unfold pool_push.
  set (s1 := if share_of s c then upd_tok t (set_marker None) s else s).
  assert (H1 : tasks s1 = tasks s) by (subst s1; destruct (share_of s c); [apply tasks_upd_tok|reflexivity]).
  pose proof (tasks_walk_waiters t c (share_of s1 c) (p_waiting (get_tok s1 t)) s1) as H2.
  destruct (walk_waiters _ _ _ _ _) as [[rest moved] s2]. cbn [snd] in H2.
  destruct moved; [rewrite tasks_upd_tok; congruence|].
  match goal with |- tasks (if ?b then _ else _) = _ => destruct b end.
  - rewrite !tasks_upd_tok. congruence.
  - rewrite tasks_drop_conn, tasks_upd_tok. congruence.
Qed.
Lemma tasks_register cfg t c s : tasks (snd (register cfg t c s)) = tasks s.
Proof.
  unfold register. destruct (g_pool cfg && negb (t =? 0)); [destruct (share_of s c)|]; cbn [snd]; try reflexivity.
  destruct (is_open s c); [|reflexivity]. rewrite tasks_pool_push. reflexivity.
Qed.
Lemma tasks_connector_poll rid b s : tasks (snd (connector_poll rid b s)) = tasks s.
Proof. unfold connector_poll. dm; reflexivity. Qed.
Lemma rxl_pool_push n t c s : rxl s (pool_push n t c s).
Proof.
  unfold pool_push.
  set (s1 := if share_of s c then upd_tok t (set_marker None) s else s).
  assert (H1 : rxl s s1) by (subst s1; destruct (share_of s c); [apply rxl_upd_tok|apply rxl_refl]).
  pose proof (rxl_walk_waiters t c (share_of s1 c) (p_waiting (get_tok s1 t)) s1) as H2.
  destruct (walk_waiters _ _ _ _ _) as [[rest moved] s2]. cbn [snd] in H2.
  assert (H3 : rxl s (upd_tok t (set_waiting rest) s2)).
  { eapply rxl_trans; [exact H1|]. eapply rxl_trans; [exact H2|apply rxl_upd_tok]. }
  destruct moved; [exact H3|].
  match goal with |- rxl _ (if ?b then _ else _) => destruct b end.
  - eapply rxl_trans; [exact H3|apply rxl_upd_tok].
  - eapply rxl_trans; [exact H3|apply rxl_drop_conn].
Qed.
Lemma rxl_pool_cancel t rid s : rxl s (pool_cancel t rid s).
Proof.
  unfold pool_cancel. destruct (p_marker (get_tok s t)) as [o|]; [|apply rxl_refl]. destruct (Nat.eqb o rid); [|apply rxl_refl].
  pose proof (rxl_release_pending (p_waiting (get_tok (upd_tok t (set_marker None) s) t)) (upd_tok t (set_marker None) s)) as H.
  destruct (release_pending _ _) as [rest s2]. cbn [snd] in H.
  eapply rxl_trans; [apply rxl_upd_tok|]. eapply rxl_trans; [exact H|apply rxl_upd_tok].
Qed.

(* ------------------------------------------------------------------ the frame of the obligations *)
Definition pendw (s : state) (c t tid : nat) : Prop :=
  In tid (runq s) /\ nth tid (tasks s) None = Some (TWhenReady c t) /\ is_open s c = true /\ share_of s c = false.

Record obf (x : option nat) (s s' : state) : Prop := mkObf {
  ob_tk : tkf s s';
  ob_rx : rxl s s';
  ob_rq : forall tid, Some tid <> x -> In tid (runq s) -> In tid (runq s');
  ob_ts : forall tid c t, Some tid <> x -> nth tid (tasks s) None = Some (TWhenReady c t) -> nth tid (tasks s') None = Some (TWhenReady c t);
  ob_cn : forall c cn, get_conn s c = Some cn -> exists cn', get_conn s' c = Some cn' /\ cvw cn' = cvw cn
}.
Lemma obf_refl x s : obf x s s.
Proof. constructor; auto using tkf_refl, rxl_refl. intros c cn H. eauto. Qed.
Lemma obf_trans x a b c : obf x a b -> obf x b c -> obf x a c.
Proof.
  intros [A1 A2 A3 A4 A5] [B1 B2 B3 B4 B5]. constructor; auto.
  - eapply tkf_trans; eauto.
  - eapply rxl_trans; eauto.
  - intros c0 cn H. destruct (A5 c0 cn H) as (cn1 & H1 & E1). destruct (B5 c0 cn1 H1) as (cn2 & H2 & E2). exists cn2. split; [exact H2|congruence].
Qed.
(* pool primitives that leave run queue and task table alone *)
Lemma obf_quiet x s s' : tkf s s' -> rxl s s' -> runq s' = runq s -> tasks s' = tasks s -> cvs s' = cvs s -> obf x s s'.
Proof.
  intros H1 H2 H3 H4 H5. constructor; auto.
  - intros tid _. rewrite H3. auto.
  - intros tid c t _. rewrite H4. auto.
  - intros c cn H. pose proof (cvs_get s s' c H5) as Hg. rewrite H in Hg. destruct (get_conn s' c) as [cn'|]; [|discriminate].
    exists cn'. split; [reflexivity|]. cbn in Hg. congruence.
Qed.

Lemma is_open_obf x s s' c : obf x s s' -> is_open s c = true -> is_open s' c = true.
Proof.
  intros F H. unfold is_open in *. destruct (get_conn s c) as [cn|] eqn:E; [|discriminate].
  destruct (ob_cn _ _ _ F c cn E) as (cn' & -> & Hv). inversion Hv as [[H1 H2 H3 H4 H5]]. rewrite H2, H3, H4. exact H.
Qed.
Lemma share_of_obf x s s' c : obf x s s' -> is_open s c = true -> share_of s' c = share_of s c.
Proof.
  intros F H. unfold is_open, share_of in *. destruct (get_conn s c) as [cn|] eqn:E; [|discriminate].
  destruct (ob_cn _ _ _ F c cn E) as (cn' & -> & Hv). inversion Hv. reflexivity.
Qed.
Lemma pendw_obf x s s' c t tid : obf x s s' -> Some tid <> x -> pendw s c t tid -> pendw s' c t tid.
Proof.
  intros F Hx (A & B & C & D). split; [apply (ob_rq _ _ _ F); auto|]. split; [apply (ob_ts _ _ _ F); auto|].
  split; [eapply is_open_obf; eauto|]. rewrite (share_of_obf x s s' c F C). exact D.
Qed.

Lemma obf_emit x e s : obf x s (emit e s).
Proof. apply obf_quiet; try reflexivity; [apply tkf_toks; reflexivity|apply rxl_reqs; reflexivity]. Qed.
Lemma obf_upd_dial x r f s : obf x s (upd_dial r f s).
Proof. apply obf_quiet; try reflexivity; [apply tkf_toks; reflexivity|apply rxl_reqs; reflexivity]. Qed.
Lemma obf_drop_conn x c s : obf x s (drop_conn c s).
Proof.
  apply obf_quiet; [apply tkf_toks, toks_drop_conn|apply rxl_drop_conn|apply runq_drop_conn|apply tasks_drop_conn|apply (pf_cvs _ _ (pf_drop_conn c s))].
Qed.
Lemma obf_clone_conn x c s : obf x s (clone_conn c s).
Proof. apply obf_quiet; try reflexivity; [apply tkf_toks; reflexivity|apply rxl_reqs; reflexivity|apply (pf_cvs _ _ (pf_clone_conn c s))]. Qed.
Lemma obf_pool_push x n t c s : obf x s (pool_push n t c s).
Proof.
  apply obf_quiet; [apply tkf_pool_push|apply rxl_pool_push|apply runq_pool_push|apply tasks_pool_push|apply (pf_cvs _ _ (pf_pool_push n t c s))].
Qed.
Lemma obf_pool_cancel x t rid s : obf x s (pool_cancel t rid s).
Proof.
  apply obf_quiet; [apply tkf_pool_cancel|apply rxl_pool_cancel|apply runq_pool_cancel|apply tasks_pool_cancel|apply (pf_cvs _ _ (pf_pool_cancel t rid s))].
Qed.
Lemma obf_register x cfg t c s : obf x s (snd (register cfg t c s)).
Proof.
  unfold register. destruct (g_pool cfg && negb (t =? 0)); [destruct (share_of s c)|]; cbn [snd]; try apply obf_refl.
  destruct (is_open s c); [|apply obf_refl]. eapply obf_trans; [apply obf_clone_conn|apply obf_pool_push].
Qed.
Lemma obf_spawn x tk s : obf x s (spawn tk s).
Proof.
  constructor.
  - apply tkf_toks. reflexivity.
  - apply rxl_reqs. reflexivity.
  - intros tid _ H. cbn. apply in_or_app. left. exact H.
  - intros tid c t _ H. cbn. apply nth_app_some. exact H.
  - intros c cn H. eauto.
Qed.
Lemma obf_pooled_drop x p s : obf x s (pooled_drop p s).
Proof. destruct p as [c t]. unfold pooled_drop. destruct (share_of s c); [apply obf_drop_conn|apply obf_spawn]. Qed.
Lemma obf_finish tid s : obf (Some tid) s (finish_task tid s).
Proof.
  constructor.
  - apply tkf_toks. reflexivity.
  - apply rxl_reqs. reflexivity.
  - intros n _ H. exact H.
  - intros n c t Hn H. cbn. rewrite nth_upd_none. destruct (Nat.eqb_spec tid n) as [->|]; [contradiction Hn; reflexivity|exact H].
  - intros c cn H. eauto.
Qed.
Lemma obf_set_runq tid rest s : runq s = tid :: rest -> obf (Some tid) s (set_runq rest s).
Proof.
  intros Hq. constructor.
  - apply tkf_toks. reflexivity.
  - apply rxl_reqs. reflexivity.
  - intros n Hn H. rewrite Hq in H. destruct H as [->|H]; [contradiction Hn; reflexivity|exact H].
  - intros n c t _ H. exact H.
  - intros c cn H. eauto.
Qed.
Lemma obf_connector_poll x rid b s : obf x s (snd (connector_poll rid b s)).
Proof.
  unfold connector_poll. destruct (get_dial s rid) as [d|]; [|apply obf_refl].
  destruct (d_stage d) as [| |[a| |]|]; cbn [snd]; try apply obf_refl; try apply obf_upd_dial.
  - eapply obf_trans; [apply obf_emit|apply obf_upd_dial].
  - eapply obf_trans; [|apply obf_upd_dial]. eapply obf_trans; [|apply obf_emit].
    constructor; try (intros; assumption).
    + apply tkf_toks. reflexivity.
    + apply rxl_reqs. reflexivity.
    + intros c cn H. exists cn. split; [|reflexivity]. unfold get_conn in *. cbn. rewrite nth_error_app1; [exact H|]. eapply nth_error_lt; eauto.
Qed.
Lemma obf_weaken x s s' : obf None s s' -> obf x s s'.
Proof. intros [A1 A2 A3 A4 A5]. constructor; auto; intros; [apply A3|apply A4]; auto; discriminate. Qed.

(* ------------------------------------------------------------------ obligations *)
Section Obl.
Variables (n : nat) (gp : bool) (live0 : nat -> bool).

Definition Fate (s : state) (p : nat * nat) : Prop :=
  1 <= snd p /\ snd p <= List.length (toks s) /\
  (In (fst p) (idl s (snd p)) \/ n <= List.length (p_idle (get_tok s (snd p))) \/ live0 (snd p) = true
   \/ (gp = true /\ exists tid, pendw s (fst p) (snd p) tid)).
Definition LW (s : state) : Prop := forall t, lv s t = true -> live0 t = true.
Definition OB (obl : list (nat * nat)) (s : state) : Prop := (forall p, In p obl -> Fate s p) /\ LW s.

Lemma LW_obf x s s' : obf x s s' -> LW s -> LW s'.
Proof.
  intros F H t Hl. apply H. unfold lv in *. eapply existsb_subq; [apply (tk_sub _ _ (ob_tk _ _ _ F) t)| |exact Hl].
  intros w. cbn. apply (ob_rx _ _ _ F).
Qed.

Lemma Fate_obf tid s s' p : obf (Some tid) s s' -> Fate s p -> (gp = true -> pendw s (fst p) (snd p) tid -> Fate s' p) -> Fate s' p.
Proof.
  intros F (H1 & H2 & H3) Hsp. pose proof (ob_tk _ _ _ F) as [T1 T2 T3 T4].
  destruct H3 as [H3|[H3|[H3|[Hg [tid' H3]]]]].
  - split; [exact H1|]. split; [lia|]. left. apply T1. exact H3.
  - split; [exact H1|]. split; [lia|]. right. left. specialize (T2 (snd p)). lia.
  - split; [exact H1|]. split; [lia|]. right. right. left. exact H3.
  - destruct (Nat.eq_dec tid' tid) as [->|Hne]; [apply Hsp; [exact Hg|exact H3]|].
    split; [exact H1|]. split; [lia|]. right. right. right. split; [exact Hg|]. exists tid'. eapply pendw_obf; [exact F| |exact H3]. congruence.
Qed.

Lemma OB_obf tid obl s s' : obf (Some tid) s s' -> OB obl s ->
  (forall p, In p obl -> Fate s p -> gp = true -> pendw s (fst p) (snd p) tid -> Fate s' p) -> OB obl s'.
Proof.
  intros F [H1 H2] Hsp. split; [|eapply LW_obf; eauto]. intros p Hp. eapply Fate_obf; [exact F|apply H1; exact Hp|]. apply Hsp; auto.
Qed.
Lemma OB_obf_none obl s s' : obf None s s' -> OB obl s -> OB obl s'.
Proof.
  intros F [H1 H2]. split; [|eapply LW_obf; eauto]. intros p Hp. destruct (H1 p Hp) as (A & B & C).
  pose proof (ob_tk _ _ _ F) as [T1 T2 T3 T4]. split; [exact A|]. split; [lia|].
  destruct C as [C|[C|[C|[Hg [tid C]]]]]; [left; apply T1; exact C|right; left; specialize (T2 (snd p)); lia|right; right; left; exact C|].
  right. right. right. split; [exact Hg|]. exists tid. eapply pendw_obf; [exact F|discriminate|exact C].
Qed.
End Obl.

(* ------------------------------------------------------------------ one task *)
Lemma obf_hand_back x cfg t c s1 :
  obf x s1 (if is_open s1 c && negb (t =? 0) && g_pool cfg then pool_push (g_max_idle cfg) t c s1 else drop_conn c s1).
Proof. destruct (_ && _); [apply obf_pool_push|apply obf_drop_conn]. Qed.

Lemma is_open_true s c : is_open s c = true -> exists cn, get_conn s c = Some cn /\ c_open cn = true /\ (c_share cn = false -> c_ready cn = true).
Proof.
  unfold is_open. destruct (get_conn s c) as [cn|]; [|discriminate]. intros H. exists cn. split; [reflexivity|].
  destruct (c_share cn).
  - split; [exact H|discriminate].
  - apply andb_true_iff in H. destruct H. split; auto.
Qed.

Lemma run_ready_spec cfg tid rest c0 t0 s : runq s = tid :: rest -> nth tid (tasks s) None = Some (TWhenReady c0 t0) ->
  let s' := run_task cfg tid (set_runq rest s) in
  obf (Some tid) s s' /\
  (is_open s c0 = true -> share_of s c0 = false -> 1 <= t0 -> t0 <= List.length (toks s) -> g_pool cfg = true ->
   lv s t0 = true \/ In c0 (idl s' t0) \/ g_max_idle cfg <= List.length (p_idle (get_tok s' t0))).
Proof.
  intros Hq Et. cbv zeta. unfold run_task. change (tasks (set_runq rest s)) with (tasks s). rewrite Et.
  pose proof (obf_set_runq tid rest s Hq) as F0. change (get_conn (set_runq rest s) c0) with (get_conn s c0).
  destruct (get_conn s c0) as [cn|] eqn:Ec.
  2: { split; [eapply obf_trans; [exact F0|apply obf_finish]|]. intros Ho. unfold is_open in Ho. rewrite Ec in Ho. discriminate. }
  assert (Hfin : forall e, let s1 := finish_task tid (emit e (set_runq rest s)) in
            obf (Some tid) s s1 /\ is_open s1 c0 = is_open s c0 /\ share_of s1 c0 = share_of s c0 /\ toks s1 = toks s
            /\ (forall t, lv s1 t = lv s t)).
  { intros e s1. split; [|repeat split].
    eapply obf_trans; [exact F0|]. eapply obf_trans; [apply obf_weaken, obf_emit|apply obf_finish]. }
  destruct (negb (c_open cn)) eqn:Eo.
  - destruct (Hfin (ERdy c0 false)) as (F1 & O1 & _). split; [eapply obf_trans; [exact F1|apply obf_hand_back]|].
    intros Ho. unfold is_open in Ho. rewrite Ec in Ho. apply negb_true_iff in Eo. rewrite Eo in Ho. destruct (c_share cn); discriminate.
  - destruct (c_share cn || c_ready cn) eqn:Er.
    + destruct (Hfin (ERdy c0 true)) as (F1 & O1 & S1 & T1 & L1). split; [eapply obf_trans; [exact F1|apply obf_hand_back]|].
      intros Ho Hs Ht1 Ht2 Hp. rewrite O1, Ho, Hp. replace (negb (t0 =? 0)) with true by (symmetry; apply negb_true_iff, Nat.eqb_neq; lia).
      cbn [andb]. set (s1 := finish_task tid (emit (ERdy c0 true) (set_runq rest s))) in *.
      destruct (push_outcome (g_max_idle cfg) t0 c0 s1 Ht1) as [[_ A]|A]; [rewrite T1; exact Ht2|left; rewrite <- L1; exact A|right; exact A].
    + split; [eapply obf_trans; [exact F0|]|].
      * apply obf_quiet; try reflexivity; [apply tkf_toks; reflexivity|apply rxl_reqs; reflexivity|].
        apply (pf_cvs _ _ (pf_upd_conn c0 (fun cn0 => c_set_waiters (c_waiters cn0 ++ [tid]) cn0) (set_runq rest s) ltac:(reflexivity))).
      * intros Ho Hs. exfalso. unfold is_open, share_of in Ho, Hs. rewrite Ec in Ho, Hs. rewrite Hs in Ho, Er. cbn in Er.
        apply andb_true_iff in Ho. destruct Ho. congruence.
Qed.

Lemma connector_poll_new rid b s c : fst (connector_poll rid b s) = CReady (inl c) ->
  is_open (snd (connector_poll rid b s)) c = true /\ toks (snd (connector_poll rid b s)) = toks s.
Proof.
  unfold connector_poll. destruct (get_dial s rid) as [d|]; cbn [fst snd]; [|discriminate].
  destruct (d_stage d) as [| |[a| |]|]; cbn [fst snd]; try discriminate. intros E. inversion E; subst c. split; [|reflexivity].
  unfold is_open, get_conn, upd_dial, emit. cbn [conns set_dials set_out set_conns].
  rewrite nth_error_app2, Nat.sub_diag by lia. cbn. destruct (match d_proto d with H2 => true | H1 => a end); reflexivity.
Qed.

Lemma run_delayed_spec cfg live0 tid rest rid t own s : runq s = tid :: rest -> nth tid (tasks s) None = Some (TDelayed rid t own) ->
  g_pool cfg = true -> 1 <= t -> t <= List.length (toks s) ->
  let s0 := set_runq rest s in
  obf (Some tid) s (run_task cfg tid s0) /\
  (forall c, fst (connector_poll rid (ByTask tid) s0) = CReady (inl c) -> Fate (g_max_idle cfg) (g_pool cfg) live0 (run_task cfg tid s0) (c, t)).
Proof.
  intros Hq Et Hp Ht1 Ht2. cbv zeta. unfold run_task. change (tasks (set_runq rest s)) with (tasks s). rewrite Et.
  pose proof (obf_set_runq tid rest s Hq) as F0.
  pose proof (obf_connector_poll (Some tid) rid (ByTask tid) (set_runq rest s)) as F1.
  pose proof (connector_poll_new rid (ByTask tid) (set_runq rest s)) as N1.
  destruct (connector_poll rid (ByTask tid) (set_runq rest s)) as [r s1]. cbn [fst snd] in *.
  assert (F01 : obf (Some tid) s s1) by (eapply obf_trans; eauto).
  destruct r as [|[c|e]].
  - split; [exact F01|discriminate].
  - destruct (N1 c eq_refl) as [O1 T1].
    assert (L1 : t <= List.length (toks s1)) by (rewrite T1; exact Ht2).
    pose proof (obf_register (Some tid) cfg t c s1) as F2.
    (* what register does to the new connection *)
    assert (R2 : let rs := register cfg t c s1 in
                 (share_of s1 c = true /\ fst rs = (c, 0) /\ (In c (idl (snd rs) t) \/ g_max_idle cfg <= List.length (p_idle (get_tok (snd rs) t))))
                 \/ (share_of s1 c = false /\ rs = ((c, t), s1))).
    { cbv zeta. unfold register. rewrite Hp. replace (negb (t =? 0)) with true by (symmetry; apply negb_true_iff, Nat.eqb_neq; lia).
      cbn [andb]. destruct (share_of s1 c) eqn:Es; [|right; auto]. left. split; [reflexivity|]. rewrite O1. cbn [fst snd]. split; [reflexivity|].
      destruct (push_outcome (g_max_idle cfg) t c (clone_conn c s1) Ht1 L1) as [[A _]|A]; [|exact A].
      unfold share_of, clone_conn, upd_conn, get_conn in A. cbn [conns set_conns] in A. rewrite nth_error_upd_eq in A.
      unfold share_of, get_conn in Es. destruct (nth_error (conns s1) c); cbn in A; congruence. }
    destruct (register cfg t c s1) as [p s2]. cbn [fst snd] in *.
    set (s3 := if g_pool cfg && negb (t =? 0) && own then pool_cancel t rid s2 else s2).
    assert (F3 : obf (Some tid) s2 s3) by (subst s3; destruct (_ && _); [apply obf_pool_cancel|apply obf_refl]).
    assert (F4 : obf (Some tid) s3 (finish_task tid s3)) by apply obf_finish.
    assert (F5 : obf (Some tid) (finish_task tid s3) (pooled_drop p (finish_task tid s3))) by apply obf_pooled_drop.
    assert (F24 : obf (Some tid) s2 (finish_task tid s3)) by (eapply obf_trans; eauto).
    split; [eapply obf_trans; [exact F01|]; eapply obf_trans; [exact F2|]; eapply obf_trans; eauto|].
    intros c' Ec. inversion Ec; subst c'.
    assert (Hlen : t <= List.length (toks (pooled_drop p (finish_task tid s3)))).
    { rewrite (tk_tl _ _ (ob_tk _ _ _ F5)), (tk_tl _ _ (ob_tk _ _ _ F24)), (tk_tl _ _ (ob_tk _ _ _ F2)). exact L1. }
    split; [exact Ht1|]. split; [exact Hlen|]. cbn [fst snd].
    destruct R2 as [(Es & -> & [A|A])|(Es & E2)].
    + left. apply (tk_in _ _ (ob_tk _ _ _ F5)). apply (tk_in _ _ (ob_tk _ _ _ F24)). exact A.
    + right. left. pose proof (tk_len _ _ (ob_tk _ _ _ F5) t). pose proof (tk_len _ _ (ob_tk _ _ _ F24) t). lia.
    + inversion E2; subst p s2. right. right. right.
      assert (O4 : is_open (finish_task tid s3) c = true) by (eapply is_open_obf; [exact F24|exact O1]).
      assert (S4 : share_of (finish_task tid s3) c = false) by (rewrite (share_of_obf _ _ _ c F24 O1); exact Es).
      split; [exact Hp|]. unfold pooled_drop. rewrite S4. exists (List.length (tasks (finish_task tid s3))). split; [|split; [|split]].
      * cbn. apply in_or_app. right. left. reflexivity.
      * cbn [spawn tasks set_runq set_tasks]. rewrite app_nth2, Nat.sub_diag by lia. reflexivity.
      * exact O4.
      * exact S4.
  - split; [|discriminate].
    set (s3 := if g_pool cfg && negb (t =? 0) && own then pool_cancel t rid s1 else s1).
    assert (F3 : obf (Some tid) s1 s3) by (subst s3; destruct (_ && _); [apply obf_pool_cancel|apply obf_refl]).
    eapply obf_trans; [exact F01|]. eapply obf_trans; [exact F3|apply obf_finish].
Qed.

(* ------------------------------------------------------------------ obligations through one task *)
Lemma OB_run_ready cfg live0 obl tid rest c0 t0 s : runq s = tid :: rest -> nth tid (tasks s) None = Some (TWhenReady c0 t0) ->
  OB (g_max_idle cfg) (g_pool cfg) live0 obl s -> OB (g_max_idle cfg) (g_pool cfg) live0 obl (run_task cfg tid (set_runq rest s)).
Proof.
  intros Hq Et H. destruct (run_ready_spec cfg tid rest c0 t0 s Hq Et) as [F Hout].
  eapply OB_obf; [exact F|exact H|]. intros [c t] Hp (R1 & R2 & _) Hg (_ & Ht & Ho & Hs). cbn [fst snd] in *.
  rewrite Et in Ht. inversion Ht; subst c t. pose proof (ob_tk _ _ _ F) as [T1 T2 T3 T4].
  split; [exact R1|]. split; [cbn; lia|]. cbn [fst snd].
  destruct (Hout Ho Hs R1 R2 Hg) as [A|[A|A]]; [right; right; left; apply (proj2 H); exact A|left; exact A|right; left; exact A].
Qed.

Lemma OB_run_delayed cfg live0 obl tid rest rid t own s : runq s = tid :: rest -> nth tid (tasks s) None = Some (TDelayed rid t own) ->
  g_pool cfg = true -> 1 <= t -> t <= List.length (toks s) ->
  OB (g_max_idle cfg) (g_pool cfg) live0 obl s ->
  OB (g_max_idle cfg) (g_pool cfg) live0
     (match fst (connector_poll rid (ByTask tid) (set_runq rest s)) with CReady (inl c) => (c, t) :: obl | _ => obl end)
     (run_task cfg tid (set_runq rest s)).
Proof.
  intros Hq Et Hp Ht1 Ht2 H. destruct (run_delayed_spec cfg live0 tid rest rid t own s Hq Et Hp Ht1 Ht2) as [F Hnew].
  assert (Hold : OB (g_max_idle cfg) (g_pool cfg) live0 obl (run_task cfg tid (set_runq rest s))).
  { eapply OB_obf; [exact F|exact H|]. intros p _ _ _ (_ & Ht & _). rewrite Et in Ht. discriminate. }
  destruct (fst (connector_poll rid (ByTask tid) (set_runq rest s))) as [|[c|e]]; try exact Hold.
  destruct Hold as [A B]. split; [|exact B]. intros p [<-|Hin]; [apply Hnew; reflexivity|apply A; exact Hin].
Qed.
