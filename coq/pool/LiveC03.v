(* C03, liveness half, part 1: the frame relation [Tr] between two states of the pool model (what the
   pool primitives may change about requests other than the one being polled), and its proof for every
   primitive. *)
From HD Require Import common.Base http.Model pool.Model pool.Spec pool.Frames pool.ProofsLite pool.FramesC06 pool.FramesC03 pool.ProofsC03.
Local Open Scope list_scope.

(* a checkout that waits for somebody else's attempt and has been neither served nor released *)
Definition stuckb (ck : checkout) : bool :=
  match k_waiter ck, k_slot ck with WConnecting, None => negb (k_txdropped ck) | _, _ => false end.

Definition ck_rel (ck ck' : checkout) : Prop :=
  k_token ck' = k_token ck /\ k_owner ck' = k_owner ck /\ k_inner ck' = k_inner ck /\ k_conn ck' = k_conn ck
  /\ (stuckb ck' = true -> stuckb ck = true) /\ k_waiter ck' = k_waiter ck.

Definition req_rel (o o' : option req) : Prop :=
  match o with
  | None => o' = None
  | Some (RCheckout ck) => exists ck', o' = Some (RCheckout ck') /\ ck_rel ck ck'
  | Some RError => o' = Some RError
  | Some _ => exists rq', o' = Some rq' /\ is_lv rq' = false
  end.

Definition islv (s : state) (r : nat) : bool := match get_req s r with Some rq => is_lv rq | None => false end.

Definition marker (s : state) (t : nat) : option nat := p_marker (get_tok s t).
Definition waiting (s : state) (t : nat) : list (nat * bool) := p_waiting (get_tok s t).

(* [xr]: the request that is being polled / cancelled (anything may happen to it);
   [xd]: the request whose connector is being polled (its dial may change);
   [xt]: the request whose delayed connector task is being created or finished *)
Record Fr (xr xd xt : option nat) (s s' : state) : Prop := mkFr {
  f_req : forall r, xr = Some r \/ req_rel (get_req s r) (get_req s' r);
  f_dial : forall r, xd <> Some r -> get_dial s' r = get_dial s r;
  f_keep : forall tid rid t own, nth tid (tasks s) None = Some (TDelayed rid t own) ->
           nth tid (tasks s') None = Some (TDelayed rid t own) \/ xt = Some rid;
  f_new : forall tid rid t own, nth tid (tasks s') None = Some (TDelayed rid t own) ->
          nth tid (tasks s) None = Some (TDelayed rid t own) \/ xt = Some rid;
  f_runq : exists l, runq s' = runq s ++ l;
  f_len : List.length (reqs s') = List.length (reqs s);
  f_tl : List.length (toks s') = List.length (toks s);
  f_keys : keys s' = keys s
}.

Record TokRel (x : option nat) (s s' : state) : Prop := mkTokRel {
  t_mark : forall t o, marker s' t = Some o -> marker s t = Some o;
  t_wait : forall r ck, x <> Some r -> get_req s' r = Some (RCheckout ck) -> stuckb ck = true ->
           In (r, true) (waiting s (k_token ck)) -> marker s (k_token ck) <> None ->
           In (r, true) (waiting s' (k_token ck)) /\ marker s' (k_token ck) <> None
}.

Definition Tr (xr xd xt : option nat) (s s' : state) : Prop := Fr xr xd xt s s' /\ TokRel xr s s'.

Lemma ck_rel_refl ck : ck_rel ck ck.
Proof. repeat split; auto. Qed.
Lemma ck_rel_trans a b c : ck_rel a b -> ck_rel b c -> ck_rel a c.
Proof. intros (A1 & A2 & A3 & A4 & A5 & A6) (B1 & B2 & B3 & B4 & B5 & B6). repeat split; try congruence. auto. Qed.

Lemma req_rel_refl o : req_rel o o.
Proof. destruct o as [[|ck|p f pl| |]|]; cbn; eauto using ck_rel_refl. Qed.

Lemma req_rel_trans a b c : req_rel a b -> req_rel b c -> req_rel a c.
Proof.
  destruct a as [[|ck|p f pl| |]|]; cbn.
  - intros ->. cbn. auto.
  - intros [ck' [-> H1]]. cbn. intros [ck'' [-> H2]]. eauto using ck_rel_trans.
  - intros [rq' [-> H1]]. destruct rq'; try discriminate; cbn; auto.
  - intros [rq' [-> H1]]. destruct rq'; try discriminate; cbn; auto.
  - intros [rq' [-> H1]]. destruct rq'; try discriminate; cbn; auto.
  - intros ->. cbn. auto.
Qed.

Lemma req_rel_islv s s' r : req_rel (get_req s r) (get_req s' r) -> islv s' r = islv s r.
Proof.
  unfold islv. destruct (get_req s r) as [[|ck|p f pl| |]|]; cbn.
  - intros ->. reflexivity.
  - intros [ck' [-> _]]. reflexivity.
  - intros [rq' [-> H]]. destruct rq'; try discriminate; reflexivity.
  - intros [rq' [-> H]]. destruct rq'; try discriminate; reflexivity.
  - intros [rq' [-> H]]. destruct rq'; try discriminate; reflexivity.
  - intros ->. reflexivity.
Qed.

Lemma Fr_refl xr xd xt s : Fr xr xd xt s s.
Proof. constructor; auto; [intros r; right; apply req_rel_refl|exists []; rewrite app_nil_r; reflexivity]. Qed.

Lemma Fr_runq_in xr xd xt s s' tid : Fr xr xd xt s s' -> In tid (runq s) -> In tid (runq s').
Proof. intros F H. destruct (f_runq _ _ _ _ _ F) as [l E]. rewrite E. apply in_or_app. left. exact H. Qed.

Lemma Fr_trans xr xd xt s1 s2 s3 : Fr xr xd xt s1 s2 -> Fr xr xd xt s2 s3 -> Fr xr xd xt s1 s3.
Proof.
  intros [A1 A2 A3 A4 A5 A6 A7 A8] [B1 B2 B3 B4 B5 B6 B7 B8]. constructor.
  - intros r. destruct (A1 r) as [Ha|Ha]; [left; exact Ha|].
    destruct (B1 r) as [Hb|Hb]; [left; exact Hb|right; eapply req_rel_trans; eauto].
  - intros r Hx. rewrite B2, A2; auto.
  - intros tid rid t own H. destruct (A3 _ _ _ _ H) as [H1|H1]; [|right; exact H1]. apply B3. exact H1.
  - intros tid rid t own H. destruct (B4 _ _ _ _ H) as [H1|H1]; [|right; exact H1]. apply A4. exact H1.
  - destruct A5 as [l1 E1]. destruct B5 as [l2 E2]. exists (l1 ++ l2). rewrite E2, E1, app_assoc. reflexivity.
  - congruence.
  - congruence.
  - congruence.
Qed.

Lemma Fr_weaken xr xd xt s s' : Fr None None None s s' -> Fr xr xd xt s s'.
Proof.
  intros [A1 A2 A3 A4 A5 A6 A7 A8]. constructor; auto.
  - intros r. destruct (A1 r) as [Ha|Ha]; [discriminate|right; exact Ha].
  - intros r _. apply A2. discriminate.
  - intros tid rid t own H. destruct (A3 _ _ _ _ H) as [H1|H1]; [left; exact H1|discriminate].
  - intros tid rid t own H. destruct (A4 _ _ _ _ H) as [H1|H1]; [left; exact H1|discriminate].
Qed.

Lemma req_rel_ck_inv o ck' : req_rel o (Some (RCheckout ck')) -> exists ck, o = Some (RCheckout ck) /\ ck_rel ck ck'.
Proof.
  destruct o as [[|ck|p f pl| |]|]; cbn; try discriminate.
  - intros [ck'' [E H]]. inversion E; subst. eauto.
  - intros [rq' [E H]]. inversion E; subst. discriminate.
  - intros [rq' [E H]]. inversion E; subst. discriminate.
  - intros [rq' [E H]]. inversion E; subst. discriminate.
Qed.

Lemma TokRel_refl x s : TokRel x s s.
Proof. constructor; auto. Qed.

Lemma Tr_refl xr xd xt s : Tr xr xd xt s s.
Proof. split; [apply Fr_refl|apply TokRel_refl]. Qed.

Lemma Tr_trans xr xd xt s1 s2 s3 : Tr xr xd xt s1 s2 -> Tr xr xd xt s2 s3 -> Tr xr xd xt s1 s3.
Proof.
  intros [FA [A1 A2]] [FB [B1 B2]]. split; [eapply Fr_trans; eauto|]. constructor.
  - auto.
  - intros r ck3 Hx Hr3 Hs3 Hin Hm.
    destruct (f_req _ _ _ _ _ FB r) as [E|Hrel]; [congruence|]. rewrite Hr3 in Hrel.
    destruct (req_rel_ck_inv _ _ Hrel) as [ck2 [Hr2 (T1 & _ & _ & _ & T5 & _)]].
    rewrite T1 in Hin, Hm.
    destruct (A2 r ck2 Hx Hr2 (T5 Hs3) Hin Hm) as [Hin2 Hm2].
    rewrite <- T1 in Hin2, Hm2. exact (B2 r ck3 Hx Hr3 Hs3 Hin2 Hm2).
Qed.

Lemma Tr_weaken xr xd xt s s' : Tr None None None s s' -> Tr xr xd xt s s'.
Proof.
  intros [F [A1 A2]]. split; [apply Fr_weaken; exact F|]. constructor; auto.
  intros r ck _. apply A2. discriminate.
Qed.

Lemma Tr_weaken_t xr xd xt s s' : Tr xr xd None s s' -> Tr xr xd xt s s'.
Proof.
  intros [[A1 A2 A3 A4 A5 A6 A7 A8] T]. split; [|exact T]. constructor; auto.
  - intros tid rid t own H. destruct (A3 _ _ _ _ H) as [H1|H1]; [left; exact H1|discriminate].
  - intros tid rid t own H. destruct (A4 _ _ _ _ H) as [H1|H1]; [left; exact H1|discriminate].
Qed.

(* a step that touches neither the queues nor the marks *)
Lemma Tr_of_Fr xr xd xt s s' : (forall t, marker s' t = marker s t /\ waiting s' t = waiting s t) -> Fr xr xd xt s s' -> Tr xr xd xt s s'.
Proof.
  intros Ht F. split; [exact F|]. constructor.
  - intros t o. rewrite (proj1 (Ht t)). auto.
  - intros r ck _ _ _. rewrite (proj1 (Ht _)), (proj2 (Ht _)). auto.
Qed.

Lemma get_tok_frame s s' : toks s' = toks s -> forall t, marker s' t = marker s t /\ waiting s' t = waiting s t.
Proof. intros H [|i]; unfold marker, waiting; cbn; [auto|]. rewrite H. auto. Qed.

Lemma app_nil_ex {A} (l : list A) : exists l0, l = l ++ l0.
Proof. exists []. rewrite app_nil_r. reflexivity. Qed.
#[export] Hint Resolve app_nil_ex : core.

Lemma Fr_same s s' :
  reqs s' = reqs s -> dials s' = dials s -> tasks s' = tasks s -> (exists l, runq s' = runq s ++ l) ->
  List.length (toks s') = List.length (toks s) -> keys s' = keys s -> Fr None None None s s'.
Proof.
  intros H1 H2 H3 H4 H5 H6. constructor; auto.
  - intros r. right. unfold get_req. rewrite H1. apply req_rel_refl.
  - intros r _. unfold get_dial. rewrite H2. reflexivity.
  - intros tid rid t own. rewrite H3. auto.
  - intros tid rid t own. rewrite H3. auto.
  - rewrite H1. reflexivity.
Qed.

Lemma Tr_same s s' :
  reqs s' = reqs s -> dials s' = dials s -> tasks s' = tasks s -> (exists l, runq s' = runq s ++ l) ->
  toks s' = toks s -> keys s' = keys s -> Tr None None None s s'.
Proof. intros H1 H2 H3 H4 H5 H6. apply Tr_of_Fr; [apply get_tok_frame; exact H5|apply Fr_same; try assumption; rewrite H5; reflexivity]. Qed.

Lemma Tr_emit e s : Tr None None None s (emit e s). Proof. apply Tr_same; auto. Qed.
Lemma Tr_upd_conn c f s : Tr None None None s (upd_conn c f s). Proof. apply Tr_same; auto. Qed.
Lemma Tr_wake_req r s : Tr None None None s (wake_req r s). Proof. apply Tr_same; auto. Qed.
Lemma Tr_unwake_req r s : Tr None None None s (unwake_req r s). Proof. apply Tr_same; auto. Qed.
Lemma Tr_set_now v s : Tr None None None s (set_now v s). Proof. apply Tr_same; auto. Qed.
Lemma Tr_wake_task t s : Tr None None None s (wake_task t s).
Proof.
  unfold wake_task. destruct (existsb (Nat.eqb t) (runq s)); [apply Tr_refl|].
  apply Tr_same; auto. cbn. eexists. reflexivity.
Qed.
Lemma Tr_wake_tasks l : forall s, Tr None None None s (wake_tasks l s).
Proof. induction l as [|t l IH]; intros s; cbn [wake_tasks]; [apply Tr_refl|]. eapply Tr_trans; [apply Tr_wake_task|apply IH]. Qed.
Lemma Tr_wake_poller p r s : Tr None None None s (wake_poller p r s).
Proof. destruct p as [[|tid]|]; cbn; [apply Tr_wake_req|apply Tr_wake_task|apply Tr_refl]. Qed.

Lemma Tr_drop_conn c s : Tr None None None s (drop_conn c s).
Proof.
  unfold drop_conn. destruct (get_conn s c) as [cn|]; [|apply Tr_refl].
  destruct (Nat.eqb (pred (c_refs cn)) 0); [eapply Tr_trans; [apply Tr_upd_conn|apply Tr_emit]|apply Tr_upd_conn].
Qed.
Lemma Tr_clone_conn c s : Tr None None None s (clone_conn c s). Proof. apply Tr_upd_conn. Qed.
Lemma Tr_drain_conn_waiters c s : Tr None None None s (drain_conn_waiters c s).
Proof.
  unfold drain_conn_waiters. destruct (get_conn s c) as [cn|]; [|apply Tr_refl].
  eapply Tr_trans; [apply Tr_upd_conn|apply Tr_wake_tasks].
Qed.
Lemma Tr_drop_all l : forall s, Tr None None None s (drop_all l s).
Proof. induction l as [|[c a] l IH]; intros s; cbn [drop_all]; [apply Tr_refl|]. eapply Tr_trans; [apply Tr_drop_conn|apply IH]. Qed.

Lemma Tr_spawn_ready c t s : Tr None None None s (spawn (TWhenReady c t) s).
Proof.
  apply Tr_of_Fr; [apply get_tok_frame; reflexivity|]. constructor.
  - intros r. right. apply req_rel_refl.
  - reflexivity.
  - intros tid rid t' own H. left. unfold spawn. cbn [tasks set_tasks set_runq].
    rewrite app_nth1; [exact H|]. destruct (Nat.lt_ge_cases tid (List.length (tasks s))); [assumption|].
    rewrite nth_overflow in H by assumption. discriminate.
  - intros tid rid t' own H. left. unfold spawn in H. cbn [tasks set_tasks set_runq] in H.
    destruct (Nat.lt_ge_cases tid (List.length (tasks s))) as [Hl|Hl]; [rewrite app_nth1 in H by exact Hl; exact H|].
    rewrite app_nth2 in H by exact Hl. destruct (tid - List.length (tasks s)) as [|[|n]]; cbn in H; discriminate.
  - unfold spawn. cbn. eexists. reflexivity.
  - reflexivity.
  - reflexivity.
  - reflexivity.
Qed.
Lemma Tr_pooled_drop p s : Tr None None None s (pooled_drop p s).
Proof. unfold pooled_drop. destruct p as [c t]. destruct (share_of s c); [apply Tr_drop_conn|apply Tr_spawn_ready]. Qed.
Lemma Tr_rx_drop ck s : Tr None None None s (snd (rx_drop ck s)).
Proof. unfold rx_drop. destruct (k_waiter ck), (k_slot ck); cbn [snd]; try apply Tr_refl; apply Tr_pooled_drop. Qed.

Lemma Fr_set_req xr xd xt s r v :
  xr = Some r \/ (forall rq, get_req s r = Some rq -> req_rel (Some rq) (Some v)) ->
  Fr xr xd xt s (set_req r v s).
Proof.
  intros H. constructor; auto.
  intros r'. rewrite get_req_set_req. destruct (Nat.eqb_spec r r') as [<-|Hne]; [|right; apply req_rel_refl].
  destruct H as [H|H]; [left; exact H|right]. destruct (get_req s r) as [rq|]; [apply H; reflexivity|reflexivity].
  - cbn. apply upd_nth_length.
Qed.

Lemma Tr_set_req xr xd xt s r v :
  xr = Some r \/ (forall rq, get_req s r = Some rq -> req_rel (Some rq) (Some v)) ->
  Tr xr xd xt s (set_req r v s).
Proof. intros H. apply Tr_of_Fr; [apply get_tok_frame; reflexivity|apply Fr_set_req; exact H]. Qed.

Lemma Tr_set_ck s w ck ck' : get_req s w = Some (RCheckout ck) -> ck_rel ck ck' -> Tr None None None s (set_req w (RCheckout ck') s).
Proof. intros Hr Hc. apply Tr_set_req. right. intros rq E. rewrite Hr in E. inversion E; subst. cbn. eauto. Qed.

Lemma Tr_deliver w p s : Tr None None None s (deliver w p s).
Proof.
  unfold deliver. destruct (get_req s w) as [[|ck|? ? ?| |]|] eqn:Hr; try apply Tr_refl.
  assert (H : Tr None None None s (set_req w (RCheckout (k_set_slot (Some p) ck)) s)).
  { eapply Tr_set_ck; [exact Hr|]. repeat split; auto. unfold stuckb. cbn. destruct (k_waiter ck); discriminate. }
  destruct (k_rxpolled ck); [eapply Tr_trans; [exact H|apply Tr_wake_req]|exact H].
Qed.

Lemma Tr_drop_sender w s : Tr None None None s (drop_sender w s).
Proof.
  unfold drop_sender. destruct (get_req s w) as [[|ck|? ? ?| |]|] eqn:Hr; try apply Tr_refl.
  assert (H : Tr None None None s (set_req w (RCheckout (k_set_txdropped true ck)) s)).
  { eapply Tr_set_ck; [exact Hr|]. repeat split; auto. unfold stuckb. cbn. destruct (k_waiter ck), (k_slot ck); discriminate. }
  destruct (k_waiter ck); try apply Tr_refl; (destruct (k_rxpolled ck); [eapply Tr_trans; [exact H|apply Tr_wake_req]|exact H]).
Qed.

Lemma Tr_walk_waiters t c sh ws : forall s, Tr None None None s (snd (walk_waiters t c sh ws s)).
Proof.
  induction ws as [|[w b] ws IH]; intros s; cbn [walk_waiters]; [apply Tr_refl|].
  destruct (rx_live s w); [destruct sh|].
  - eapply Tr_trans; [|apply IH]. eapply Tr_trans; [apply Tr_clone_conn|apply Tr_deliver].
  - cbn [snd]. apply Tr_deliver.
  - apply IH.
Qed.

Lemma Tr_release_pending ws : forall s, Tr None None None s (snd (release_pending ws s)).
Proof.
  induction ws as [|[w b] ws IH]; intros s; cbn [release_pending]; [apply Tr_refl|].
  destruct b.
  - eapply Tr_trans; [apply Tr_drop_sender|apply IH].
  - specialize (IH s). destruct (release_pending ws s) as [rest' s']. exact IH.
Qed.

Lemma Tr_pop_loop thr rl : forall s, Tr None None None s (snd (pop_loop thr rl s)).
Proof.
  induction rl as [|[c a] rl IH]; intros s; cbn [pop_loop]; [apply Tr_refl|].
  destruct (match thr with Some y => (a <? y)%N | None => false end).
  - cbn [snd]. eapply Tr_trans; [apply Tr_drop_conn|apply Tr_drop_all].
  - destruct (is_open s c); [apply Tr_refl|]. eapply Tr_trans; [apply Tr_drop_conn|apply IH].
Qed.

(* a change of the idle lists only *)
Lemma Tr_upd_tok_idle t f s : (forall p, p_marker (f p) = p_marker p /\ p_waiting (f p) = p_waiting p) -> Tr None None None s (upd_tok t f s).
Proof.
  intros Hf. destruct t as [|i]; [apply Tr_refl|]. apply Tr_of_Fr; [|apply Fr_same; auto; cbn; apply upd_nth_length].
  intros [|j]; unfold marker, waiting; cbn [get_tok upd_tok toks set_toks]; [auto|].
  destruct (Nat.eq_dec i j) as [<-|Hne].
  - destruct (Nat.lt_ge_cases i (List.length (toks s))) as [Hl|Hl].
    + rewrite nth_upd_nth_same by exact Hl. apply Hf.
    + rewrite !nth_overflow by (rewrite ?upd_nth_length; exact Hl). auto.
  - rewrite nth_upd_nth_other by exact Hne. auto.
Qed.

Lemma Tr_pool_pop to t s : Tr None None None s (snd (pool_pop to t s)).
Proof.
  unfold pool_pop.
  pose proof (Tr_pop_loop (expiry_threshold to (now s)) (rev (p_idle (get_tok s t))) s) as H1.
  destruct (pop_loop (expiry_threshold to (now s)) (rev (p_idle (get_tok s t))) s) as [[r rest] s1]. cbn [snd] in *.
  eapply Tr_trans; [exact H1|]. apply Tr_upd_tok_idle. intros p. split; reflexivity.
Qed.


(* ---------------------------------------------------------------- stuck waiters *)
Definition stuck_at (s : state) (r : nat) : bool :=
  match get_req s r with Some (RCheckout ck) => stuckb ck | _ => false end.

Lemma stuck_mono xr xd xt s s' r : Fr xr xd xt s s' -> xr <> Some r -> stuck_at s' r = true -> stuck_at s r = true.
Proof.
  intros F Hx. unfold stuck_at. destruct (get_req s' r) as [[|ck'| | |]|] eqn:Hr'; try discriminate. intros Hs.
  destruct (f_req _ _ _ _ _ F r) as [E|Hrel]; [congruence|]. rewrite Hr' in Hrel.
  destruct (req_rel_ck_inv _ _ Hrel) as [ck [-> (_ & _ & _ & _ & T5 & _)]]. auto.
Qed.

Lemma not_live_not_stuck s w : rx_live s w = false -> stuck_at s w = false.
Proof.
  unfold rx_live, stuck_at, stuckb. destruct (get_req s w) as [[|ck| | |]|]; auto. destruct (k_waiter ck); auto; discriminate.
Qed.

Lemma stuck_deliver s w p : rx_live s w = true -> stuck_at (deliver w p s) w = false.
Proof.
  unfold rx_live, deliver. destruct (get_req s w) as [[|ck| | |]|] eqn:Hr; try discriminate. intros _.
  assert (E : stuck_at (set_req w (RCheckout (k_set_slot (Some p) ck)) s) w = false).
  { unfold stuck_at. erewrite get_req_set_same by exact Hr. unfold stuckb. cbn. destruct (k_waiter ck); reflexivity. }
  destruct (k_rxpolled ck); exact E.
Qed.

Lemma walk_unsticks t c sh ws : forall s w b, In (w, b) ws ->
  (sh = false /\ In (w, b) (fst (fst (walk_waiters t c sh ws s)))) \/ stuck_at (snd (walk_waiters t c sh ws s)) w = false.
Proof.
  induction ws as [|[w0 b0] ws IH]; intros s w b Hin; [destruct Hin|]. cbn [walk_waiters].
  destruct (rx_live s w0) eqn:Hl; [destruct sh|].
  - destruct Hin as [E|Hin]; [|apply IH; exact Hin]. inversion E; subst w0 b0. right.
    set (s1 := deliver w (c, 0) (clone_conn c s)).
    assert (H1 : stuck_at s1 w = false) by (apply stuck_deliver; exact Hl).
    destruct (stuck_at (snd (walk_waiters t c true ws s1)) w) eqn:E2; [|reflexivity].
    rewrite (stuck_mono None None None s1 _ w (proj1 (Tr_walk_waiters t c true ws s1))) in H1; [discriminate|discriminate|exact E2].
  - cbn [fst snd]. destruct Hin as [E|Hin]; [|left; auto]. inversion E; subst w0 b0. right. apply stuck_deliver. exact Hl.
  - destruct Hin as [E|Hin]; [|apply IH; exact Hin]. inversion E; subst w0 b0. right.
    pose proof (not_live_not_stuck s w Hl) as H1.
    destruct (stuck_at (snd (walk_waiters t c sh ws s)) w) eqn:E2; [|reflexivity].
    rewrite (stuck_mono None None None s _ w (proj1 (Tr_walk_waiters t c sh ws s))) in H1; [discriminate|discriminate|exact E2].
Qed.

Lemma tok_upd_other t t' f s : t <> t' -> get_tok (upd_tok t f s) t' = get_tok s t'.
Proof.
  intros Hne. destruct t as [|i]; [reflexivity|]. destruct t' as [|j]; [reflexivity|].
  cbn [get_tok upd_tok toks set_toks]. apply nth_upd_nth_other. congruence.
Qed.
Lemma tok_upd_same i f s : i < List.length (toks s) -> get_tok (upd_tok (S i) f s) (S i) = f (get_tok s (S i)).
Proof. intros Hl. cbn [get_tok upd_tok toks set_toks]. apply nth_upd_nth_same. exact Hl. Qed.
Lemma waiting_in_range s t x : In x (waiting s t) -> exists i, t = S i /\ i < List.length (toks s).
Proof.
  unfold waiting. destruct t as [|i]; [intros []|]. intros H. exists i. split; [reflexivity|].
  destruct (Nat.lt_ge_cases i (List.length (toks s))); [assumption|]. cbn [get_tok] in H. rewrite nth_overflow in H by assumption. destruct H.
Qed.
Lemma marker_in_range s t : marker s t <> None -> exists i, t = S i /\ i < List.length (toks s).
Proof.
  unfold marker. destruct t as [|i]; [intros H; contradiction H; reflexivity|]. intros H. exists i. split; [reflexivity|].
  destruct (Nat.lt_ge_cases i (List.length (toks s))); [assumption|]. cbn [get_tok] in H. rewrite nth_overflow in H by assumption. contradiction H. reflexivity.
Qed.

Lemma marker_upd_waiting t v s t' : marker (upd_tok t (set_waiting v) s) t' = marker s t'.
Proof.
  unfold marker. destruct (Nat.eq_dec t t') as [<-|Hne]; [|rewrite tok_upd_other by exact Hne; reflexivity].
  destruct t as [|i]; [reflexivity|]. destruct (Nat.lt_ge_cases i (List.length (toks s))) as [Hl|Hl].
  - rewrite tok_upd_same by exact Hl. reflexivity.
  - cbn [get_tok upd_tok toks set_toks]. rewrite !nth_overflow by (rewrite ?upd_nth_length; exact Hl). reflexivity.
Qed.
Lemma waiting_upd_marker t v s t' : waiting (upd_tok t (set_marker v) s) t' = waiting s t'.
Proof.
  unfold waiting. destruct (Nat.eq_dec t t') as [<-|Hne]; [|rewrite tok_upd_other by exact Hne; reflexivity].
  destruct t as [|i]; [reflexivity|]. destruct (Nat.lt_ge_cases i (List.length (toks s))) as [Hl|Hl].
  - rewrite tok_upd_same by exact Hl. reflexivity.
  - cbn [get_tok upd_tok toks set_toks]. rewrite !nth_overflow by (rewrite ?upd_nth_length; exact Hl). reflexivity.
Qed.
Lemma marker_upd_none t s t' o : marker (upd_tok t (set_marker None) s) t' = Some o -> marker s t' = Some o.
Proof.
  unfold marker. destruct (Nat.eq_dec t t') as [<-|Hne]; [|rewrite tok_upd_other by exact Hne; auto].
  destruct t as [|i]; [auto|]. destruct (Nat.lt_ge_cases i (List.length (toks s))) as [Hl|Hl].
  - rewrite tok_upd_same by exact Hl. cbn. discriminate.
  - cbn [get_tok upd_tok toks set_toks]. rewrite !nth_overflow by (rewrite ?upd_nth_length; exact Hl). auto.
Qed.
Lemma toks_upd_tok_length t f s : List.length (toks (upd_tok t f s)) = List.length (toks s).
Proof. destruct t; [reflexivity|]. cbn. apply upd_nth_length. Qed.

Lemma get_req_upd_tok t f s r : get_req (upd_tok t f s) r = get_req s r.
Proof. destruct t; reflexivity. Qed.

Lemma Fr_upd_tok t f s : Fr None None None s (upd_tok t f s).
Proof. destruct t; [apply Fr_refl|]. apply Fr_same; auto. cbn. apply upd_nth_length. Qed.

(* push up to the rewrite of the waiting queue *)
Lemma Tr_push_walk t c s :
  let s1 := if share_of s c then upd_tok t (set_marker None) s else s in
  let w := walk_waiters t c (share_of s1 c) (p_waiting (get_tok s1 t)) s1 in
  Tr None None None s (upd_tok t (set_waiting (fst (fst w))) (snd w)).
Proof.
  intros s1 w.
  assert (Hsh : share_of s1 c = share_of s c) by (subst s1; destruct (share_of s c) eqn:E; [destruct t; exact E|exact E]).
  assert (F1 : Fr None None None s s1) by (subst s1; destruct (share_of s c); [apply Fr_upd_tok|apply Fr_refl]).
  pose proof (Tr_walk_waiters t c (share_of s1 c) (p_waiting (get_tok s1 t)) s1) as [F2 _]. fold w in F2.
  pose proof (toks_walk_waiters t c (share_of s1 c) (p_waiting (get_tok s1 t)) s1) as Ht2. fold w in Ht2.
  pose proof (walk_unsticks t c (share_of s1 c) (p_waiting (get_tok s1 t)) s1) as Hu. fold w in Hu.
  set (s2 := snd w) in *. set (rest := fst (fst w)) in *.
  assert (Hg2 : forall t', get_tok s2 t' = get_tok s1 t') by (intros [|j]; cbn [get_tok]; [reflexivity|rewrite Ht2; reflexivity]).
  split; [eapply Fr_trans; [exact F1|]; eapply Fr_trans; [exact F2|apply Fr_upd_tok]|]. constructor.
  - intros t' o. rewrite marker_upd_waiting. unfold marker at 1. rewrite Hg2. fold (marker s1 t').
    subst s1. destruct (share_of s c); [apply marker_upd_none|auto].
  - intros r ck _ Hr Hs Hin Hm. rewrite get_req_upd_tok in Hr.
    assert (Hw1 : forall t', waiting s1 t' = waiting s t') by (intros t'; subst s1; destruct (share_of s c); [apply waiting_upd_marker|reflexivity]).
    rewrite marker_upd_waiting. unfold marker at 1. rewrite Hg2. fold (marker s1 (k_token ck)).
    destruct (Nat.eq_dec t (k_token ck)) as [E|Hne].
    + rewrite <- E in Hin, Hm |- *. destruct (waiting_in_range _ _ _ Hin) as [i [Ei Hl]]. clear E. subst t.
      assert (Hin1 : In (r, true) (p_waiting (get_tok s1 (S i)))) by (fold (waiting s1 (S i)); rewrite Hw1; exact Hin).
      destruct (Hu r true Hin1) as [[Hsf Hrest]|Hns].
      * rewrite Hsh in Hsf. assert (E1 : s1 = s) by (subst s1; rewrite Hsf; reflexivity).
        split; [|rewrite E1; exact Hm].
        unfold waiting. rewrite tok_upd_same by (rewrite Ht2, E1; exact Hl). exact Hrest.
      * unfold stuck_at in Hns. rewrite Hr in Hns. congruence.
    + split.
      * unfold waiting. rewrite tok_upd_other by exact Hne. rewrite Hg2. fold (waiting s1 (k_token ck)). rewrite Hw1. exact Hin.
      * subst s1. destruct (share_of s c); [|exact Hm]. unfold marker. rewrite tok_upd_other by exact Hne. exact Hm.
Qed.

Lemma Tr_pool_push n t c s : Tr None None None s (pool_push n t c s).
Proof.
  unfold pool_push. pose proof (Tr_push_walk t c s) as H. cbv zeta in H.
  destruct (walk_waiters t c _ _ _) as [[rest moved] s2]. cbn [fst snd] in H.
  destruct moved; [exact H|].
  match goal with |- context [if ?b then _ else _] => destruct b end.
  - eapply Tr_trans; [exact H|]. apply Tr_upd_tok_idle. intros p. split; reflexivity.
  - eapply Tr_trans; [exact H|]. apply Tr_drop_conn.
Qed.

Lemma stuck_drop_sender s w : stuck_at (drop_sender w s) w = false.
Proof.
  unfold drop_sender. destruct (get_req s w) as [[|ck| | |]|] eqn:Hr; try (unfold stuck_at; rewrite Hr; reflexivity).
  assert (E : stuck_at (set_req w (RCheckout (k_set_txdropped true ck)) s) w = false).
  { unfold stuck_at. erewrite get_req_set_same by exact Hr. unfold stuckb. cbn. destruct (k_waiter ck), (k_slot ck); reflexivity. }
  destruct (k_waiter ck) eqn:Hw; try (destruct (k_rxpolled ck); exact E).
  unfold stuck_at, stuckb. rewrite Hr, Hw. reflexivity.
Qed.

Lemma release_unsticks ws : forall s w, In (w, true) ws -> stuck_at (snd (release_pending ws s)) w = false.
Proof.
  induction ws as [|[w0 b0] ws IH]; intros s w Hin; [destruct Hin|]. cbn [release_pending].
  destruct b0.
  - destruct Hin as [E|Hin]; [|apply IH; exact Hin]. inversion E; subst w0.
    pose proof (stuck_drop_sender s w) as H1.
    destruct (stuck_at (snd (release_pending ws (drop_sender w s))) w) eqn:E2; [|reflexivity].
    rewrite (stuck_mono None None None _ _ w (proj1 (Tr_release_pending ws (drop_sender w s)))) in H1; [discriminate|discriminate|exact E2].
  - destruct Hin as [E|Hin]; [inversion E|]. specialize (IH s w Hin). destruct (release_pending ws s) as [rest' s']. exact IH.
Qed.

Lemma Tr_pool_cancel t rid s : Tr None None None s (pool_cancel t rid s).
Proof.
  unfold pool_cancel. destruct (p_marker (get_tok s t)) as [o|]; [|apply Tr_refl]. destruct (Nat.eqb o rid); [|apply Tr_refl].
  set (s1 := upd_tok t (set_marker None) s).
  pose proof (Tr_release_pending (p_waiting (get_tok s1 t)) s1) as [F2 _].
  pose proof (toks_release_pending (p_waiting (get_tok s1 t)) s1) as Ht2.
  pose proof (release_unsticks (p_waiting (get_tok s1 t)) s1) as Hu.
  destruct (release_pending (p_waiting (get_tok s1 t)) s1) as [rest s2]. cbn [snd] in *.
  assert (Hg2 : forall t', get_tok s2 t' = get_tok s1 t') by (intros [|j]; cbn [get_tok]; [reflexivity|rewrite Ht2; reflexivity]).
  split; [eapply Fr_trans; [apply Fr_upd_tok|]; eapply Fr_trans; [exact F2|apply Fr_upd_tok]|]. constructor.
  - intros t' o'. rewrite marker_upd_waiting. unfold marker at 1. rewrite Hg2. apply marker_upd_none.
  - intros r ck _ Hr Hs Hin Hm. rewrite get_req_upd_tok in Hr.
    destruct (Nat.eq_dec t (k_token ck)) as [E|Hne].
    + exfalso. rewrite <- E in Hin.
      assert (Hin1 : In (r, true) (p_waiting (get_tok s1 t))) by (fold (waiting s1 t); unfold s1; rewrite waiting_upd_marker; exact Hin).
      specialize (Hu r Hin1). unfold stuck_at in Hu. rewrite Hr in Hu. congruence.
    + split.
      * unfold waiting. rewrite tok_upd_other by exact Hne. rewrite Hg2. unfold s1. rewrite tok_upd_other by exact Hne. exact Hin.
      * unfold marker. rewrite tok_upd_other by exact Hne. rewrite Hg2. unfold s1. rewrite tok_upd_other by exact Hne. exact Hm.
Qed.

Lemma Tr_register cfg t c s : Tr None None None s (snd (register cfg t c s)).
Proof.
  unfold register. destruct (g_pool cfg && negb (t =? 0)); [destruct (share_of s c)|]; cbn [snd]; try apply Tr_refl.
  destruct (is_open s c); [|apply Tr_refl]. eapply Tr_trans; [apply Tr_clone_conn|apply Tr_pool_push].
Qed.

Lemma Tr_hold_release r p s : Tr None None None s (hold_release r p s).
Proof. unfold hold_release. eapply Tr_trans; [apply Tr_upd_conn|]. eapply Tr_trans; [apply Tr_emit|apply Tr_pooled_drop]. Qed.

(* ---------------------------------------------------------------- steps about the exempt request *)
Lemma Tr_upd_dial_x xr xt r f s : Tr xr (Some r) xt s (upd_dial r f s).
Proof.
  apply Tr_of_Fr; [apply get_tok_frame; reflexivity|]. constructor; auto.
  - intros r'. right. apply req_rel_refl.
  - intros r' Hne. rewrite get_dial_upd_dial. destruct (Nat.eqb_spec r r'); [congruence|reflexivity].
Qed.

Lemma Tr_set_conns v s : Tr None None None s (set_conns v s).
Proof. apply Tr_same; auto. Qed.

Lemma Tr_connector_poll xr xt rid by_ s : Tr xr (Some rid) xt s (snd (connector_poll rid by_ s)).
Proof.
  unfold connector_poll. destruct (get_dial s rid) as [d|]; [|apply Tr_refl].
  destruct (d_stage d) as [| |[alpn| |]|]; cbn [snd]; try apply Tr_refl; try apply Tr_upd_dial_x.
  - eapply Tr_trans; [apply Tr_weaken; apply Tr_emit|apply Tr_upd_dial_x].
  - eapply Tr_trans; [apply Tr_weaken; apply Tr_set_conns|]. eapply Tr_trans; [apply Tr_weaken; apply Tr_emit|apply Tr_upd_dial_x].
Qed.

Lemma Tr_set_req_x xd xt r v s : Tr (Some r) xd xt s (set_req r v s).
Proof. apply Tr_set_req. left. reflexivity. Qed.

Lemma Tr_spawn_delayed xr xd rid t own s : Tr xr xd (Some rid) s (spawn (TDelayed rid t own) s).
Proof.
  apply Tr_of_Fr; [apply get_tok_frame; reflexivity|]. constructor.
  - intros r. right. apply req_rel_refl.
  - reflexivity.
  - intros tid rid' t' own' H. left. unfold spawn. cbn [tasks set_tasks set_runq].
    rewrite app_nth1; [exact H|]. destruct (Nat.lt_ge_cases tid (List.length (tasks s))); [assumption|].
    rewrite nth_overflow in H by assumption. discriminate.
  - intros tid rid' t' own' H. unfold spawn in H. cbn [tasks set_tasks set_runq] in H.
    destruct (Nat.lt_ge_cases tid (List.length (tasks s))) as [Hl|Hl]; [rewrite app_nth1 in H by exact Hl; left; exact H|].
    rewrite app_nth2 in H by exact Hl. destruct (tid - List.length (tasks s)) as [|[|n]]; cbn in H; try discriminate.
    inversion H; subst. right. reflexivity.
  - unfold spawn. cbn. eexists. reflexivity.
  - reflexivity.
  - reflexivity.
  - reflexivity.
Qed.

Lemma Tr_finish_task xr xd xt tid s :
  (forall rid t own, nth tid (tasks s) None = Some (TDelayed rid t own) -> xt = Some rid) -> Tr xr xd xt s (finish_task tid s).
Proof.
  intros Hx. apply Tr_of_Fr; [apply get_tok_frame; reflexivity|]. constructor; auto.
  - intros r. right. apply req_rel_refl.
  - intros tid' rid t own H. unfold finish_task. cbn [tasks set_tasks].
    destruct (Nat.eq_dec tid tid') as [<-|Hne]; [right; eapply Hx; exact H|]. left. rewrite nth_upd_nth_other by exact Hne. exact H.
  - intros tid' rid t own H. left. unfold finish_task in H. cbn [tasks set_tasks] in H.
    destruct (Nat.eq_dec tid tid') as [<-|Hne]; [|rewrite nth_upd_nth_other in H by exact Hne; exact H].
    destruct (Nat.lt_ge_cases tid (List.length (tasks s))) as [Hl|Hl].
    + rewrite nth_upd_nth_same in H by exact Hl. discriminate.
    + rewrite nth_overflow in H by (rewrite upd_nth_length; exact Hl). discriminate.
Qed.

Lemma Tr_checkout_poll cfg rid ck s : Tr (Some rid) (Some rid) None s (snd (checkout_poll cfg rid ck s)).
Proof.
  unfold checkout_poll.
  destruct (waiter_poll ck) as [w ck1]. destruct w as [|p|]; cbn [snd]; try apply Tr_refl.
  destruct (k_inner ck1); cbn [snd]; try apply Tr_refl.
  1: { destruct (k_conn ck1) as [c|]; cbn [snd]; [|apply Tr_refl].
       pose proof (Tr_rx_drop (k_set_conn None ck1) s) as H2.
       destruct (rx_drop (k_set_conn None ck1) s) as [ck2 s2]. cbn [snd] in H2.
       pose proof (Tr_register cfg (k_token ck2) c (set_req rid (RCheckout ck2) s2)) as H4.
       destruct (register cfg (k_token ck2) c (set_req rid (RCheckout ck2) s2)) as [p s3]. cbn [snd] in *.
       eapply Tr_trans; [apply Tr_weaken; exact H2|]. eapply Tr_trans; [apply Tr_set_req_x|apply Tr_weaken; exact H4]. }
  all: pose proof (Tr_connector_poll (Some rid) None rid ByReq s) as H1;
    destruct (connector_poll rid ByReq s) as [r s1]; cbn [snd] in H1;
    (destruct r as [|res]; cbn [snd]; [exact H1|]);
    pose proof (Tr_rx_drop ck1 s1) as H2;
    destruct (rx_drop ck1 s1) as [ck2 s2]; cbn [snd] in H2;
    assert (H3 : Tr (Some rid) (Some rid) None s (set_req rid (RCheckout (k_set_inner IConnected ck2)) s2))
      by (eapply Tr_trans; [exact H1|]; eapply Tr_trans; [apply Tr_weaken; exact H2|apply Tr_set_req_x]);
    (destruct res as [c|e]; cbn [snd]; [|exact H3]);
    pose proof (Tr_register cfg (k_token (k_set_inner IConnected ck2)) c (set_req rid (RCheckout (k_set_inner IConnected ck2)) s2)) as H4;
    destruct (register cfg (k_token (k_set_inner IConnected ck2)) c (set_req rid (RCheckout (k_set_inner IConnected ck2)) s2)) as [p s3];
    cbn [snd] in *; eapply Tr_trans; [exact H3|apply Tr_weaken; exact H4].
Qed.

Lemma Tr_checkout_drop cfg rid ck s : Tr (Some rid) (Some rid) (Some rid) s (checkout_drop cfg rid ck s).
Proof.
  unfold checkout_drop.
  set (s1 := match k_conn ck with
             | Some c => if is_open s c && (g_pool cfg && negb (k_token ck =? 0)) then pool_push (g_max_idle cfg) (k_token ck) c s else drop_conn c s
             | None => s end).
  assert (H1 : Tr None None None s s1).
  { subst s1. destruct (k_conn ck) as [c|]; [|apply Tr_refl].
    destruct (is_open s c && (g_pool cfg && negb (k_token ck =? 0))); [apply Tr_pool_push|apply Tr_drop_conn]. }
  set (started := match get_dial s1 rid with Some d => match d_stage d with DNew => false | _ => true end | None => false end).
  set (delayed := match k_inner ck with IDelayDrop => started | _ => false end).
  set (s2 := if delayed then spawn (TDelayed rid (k_token ck) (k_owner ck)) s1
             else if g_pool cfg && negb (k_token ck =? 0) && k_owner ck then pool_cancel (k_token ck) rid s1 else s1).
  assert (H2 : Tr (Some rid) (Some rid) (Some rid) s1 s2).
  { subst s2. destruct delayed; [apply Tr_spawn_delayed|].
    destruct (g_pool cfg && negb (k_token ck =? 0) && k_owner ck); [apply Tr_weaken; apply Tr_pool_cancel|apply Tr_refl]. }
  pose proof (Tr_rx_drop ck s2) as H3.
  destruct (rx_drop ck s2) as [ck' s3]. cbn [snd] in H3.
  assert (H4 : Tr (Some rid) (Some rid) (Some rid) s s3).
  { eapply Tr_trans; [apply Tr_weaken; exact H1|]. eapply Tr_trans; [exact H2|apply Tr_weaken; exact H3]. }
  assert (H5 : Tr (Some rid) (Some rid) (Some rid) s (upd_dial rid (d_set_stage DGone) s3)) by (eapply Tr_trans; [exact H4|apply Tr_upd_dial_x]).
  destruct (k_inner ck); try exact H4; try exact H5. destruct delayed; [exact H4|exact H5].
Qed.

(* ---------------------------------------------------------------- operations *)
Lemma Tr_do_poll cfg r s : Tr (Some r) (Some r) (Some r) s (do_poll cfg r s).
Proof.
  unfold do_poll. destruct (get_req s r) as [[|ck|p fin pl| |]|] eqn:Hr; try apply Tr_refl.
  - eapply Tr_trans; [apply Tr_weaken; apply Tr_unwake_req|]. eapply Tr_trans; [apply Tr_weaken; apply Tr_emit|apply Tr_set_req_x].
  - pose proof (Tr_checkout_poll cfg r ck (unwake_req r s)) as H2.
    destruct (checkout_poll cfg r ck (unwake_req r s)) as [[res ck1] s2]. cbn [snd] in H2.
    assert (H2' : Tr (Some r) (Some r) (Some r) s s2) by (eapply Tr_trans; [apply Tr_weaken; apply Tr_unwake_req|apply Tr_weaken_t; exact H2]).
    destruct res as [|[p|e]].
    + eapply Tr_trans; [exact H2'|]. eapply Tr_trans; [apply Tr_set_req_x|apply Tr_weaken; apply Tr_emit].
    + destruct (match get_conn s2 (fst p) with Some cn => (c_share cn, c_open cn, c_ready cn, c_holders cn) | None => (false, false, false, 0) end)
        as [[[sh op_] rd] hs].
      eapply Tr_trans; [exact H2'|]. eapply Tr_trans; [apply Tr_weaken; apply Tr_emit|].
      eapply Tr_trans; [apply Tr_weaken; apply Tr_upd_conn|]. eapply Tr_trans; [apply Tr_set_req_x|].
      eapply Tr_trans; [apply Tr_checkout_drop|apply Tr_weaken; apply Tr_emit].
    + eapply Tr_trans; [exact H2'|]. eapply Tr_trans; [apply Tr_set_req_x|].
      eapply Tr_trans; [apply Tr_checkout_drop|apply Tr_weaken; apply Tr_emit].
  - eapply Tr_trans; [apply Tr_weaken; apply Tr_unwake_req|]. destruct fin.
    + eapply Tr_trans; [apply Tr_set_req_x|]. eapply Tr_trans; [apply Tr_weaken; apply Tr_hold_release|apply Tr_weaken; apply Tr_emit].
    + eapply Tr_trans; [apply Tr_set_req_x|apply Tr_weaken; apply Tr_emit].
Qed.

Lemma Tr_do_cancel cfg r s : Tr (Some r) (Some r) (Some r) s (do_cancel cfg r s).
Proof.
  unfold do_cancel. destruct (get_req s r) as [[|ck|p fin pl| |]|] eqn:Hr; try apply Tr_refl.
  - eapply Tr_trans; [apply Tr_set_req_x|apply Tr_weaken; apply Tr_unwake_req].
  - eapply Tr_trans; [apply Tr_set_req_x|]. eapply Tr_trans; [apply Tr_checkout_drop|apply Tr_weaken; apply Tr_unwake_req].
  - eapply Tr_trans; [apply Tr_set_req_x|]. eapply Tr_trans; [apply Tr_weaken; apply Tr_hold_release|apply Tr_weaken; apply Tr_unwake_req].
  - apply Tr_weaken; apply Tr_unwake_req.
  - apply Tr_weaken; apply Tr_unwake_req.
Qed.

Lemma Tr_do_finish r s : Tr None None None s (do_finish r s).
Proof.
  unfold do_finish. destruct (get_req s r) as [[|ck|p fin pl| |]|] eqn:Hr; try apply Tr_refl.
  assert (H : Tr None None None s (set_req r (RHolding p true false) s)).
  { apply Tr_set_req. right. intros rq E. rewrite Hr in E. inversion E; subst. cbn. eauto. }
  destruct pl; [eapply Tr_trans; [exact H|apply Tr_wake_req]|exact H].
Qed.

Lemma Tr_do_upgrade r s : Tr None None None s (do_upgrade r s).
Proof.
  unfold do_upgrade. destruct (get_req s r) as [[|ck|p fin pl| |]|]; try apply Tr_refl.
  eapply Tr_trans; [apply Tr_upd_conn|apply Tr_drain_conn_waiters].
Qed.
Lemma Tr_do_conn_ready c s : Tr None None None s (do_conn_ready c s).
Proof. unfold do_conn_ready. destruct (get_conn s c); [|apply Tr_refl]. eapply Tr_trans; [apply Tr_upd_conn|apply Tr_drain_conn_waiters]. Qed.
Lemma Tr_do_conn_close c s : Tr None None None s (do_conn_close c s).
Proof. unfold do_conn_close. destruct (get_conn s c); [|apply Tr_refl]. eapply Tr_trans; [apply Tr_upd_conn|apply Tr_drain_conn_waiters]. Qed.

Lemma Tr_do_dial_done r y s : Tr None (Some r) None s (do_dial_done r y s).
Proof.
  unfold do_dial_done. destruct (get_dial s r) as [d|]; [|apply Tr_refl]. destruct (d_stage d); try apply Tr_refl.
  eapply Tr_trans; [apply Tr_upd_dial_x|apply Tr_weaken; apply Tr_wake_poller].
Qed.

Definition task_rid (s : state) (tid : nat) : option nat :=
  match nth tid (tasks s) None with Some (TDelayed rid _ _) => Some rid | _ => None end.

Lemma Tr_run_task cfg tid s : Tr None (task_rid s tid) (task_rid s tid) s (run_task cfg tid s).
Proof.
  unfold run_task, task_rid. destruct (nth tid (tasks s) None) as [[c t|rid t own]|] eqn:Ht; [| |apply Tr_refl].
  - assert (Hf : forall s0, nth tid (tasks s0) None = Some (TWhenReady c t) -> Tr None None None s0 (finish_task tid s0)).
    { intros s0 H0. apply Tr_finish_task. intros rid t' own E. rewrite H0 in E. discriminate. }
    destruct (get_conn s c) as [cn|]; [|apply Hf; exact Ht].
    assert (Hfin : forall s0, nth tid (tasks s0) None = Some (TWhenReady c t) ->
              Tr None None None s0 (if is_open (finish_task tid s0) c && negb (t =? 0) && g_pool cfg
                   then pool_push (g_max_idle cfg) t c (finish_task tid s0) else drop_conn c (finish_task tid s0))).
    { intros s0 H0. eapply Tr_trans; [apply Hf; exact H0|].
      destruct (is_open (finish_task tid s0) c && negb (t =? 0) && g_pool cfg); [apply Tr_pool_push|apply Tr_drop_conn]. }
    destruct (negb (c_open cn)); [eapply Tr_trans; [apply Tr_emit|apply Hfin; exact Ht]|].
    destruct (c_share cn || c_ready cn); [eapply Tr_trans; [apply Tr_emit|apply Hfin; exact Ht]|apply Tr_upd_conn].
  - pose proof (Tr_connector_poll None (Some rid) rid (ByTask tid) s) as H1.
    assert (Hk : forall s0, Tr None (Some rid) (Some rid) s s0 -> Tr None (Some rid) (Some rid) s (finish_task tid s0)).
    { intros s0 H0. eapply Tr_trans; [exact H0|]. apply Tr_finish_task. intros rid' t' own' E.
      destruct (f_new _ _ _ _ _ (proj1 H0) _ _ _ _ E) as [E1|E1]; [|exact E1]. rewrite Ht in E1. inversion E1. reflexivity. }
    destruct (connector_poll rid (ByTask tid) s) as [r s1]. cbn [snd] in H1.
    destruct r as [|[c|e]]; [exact H1| |].
    + pose proof (Tr_register cfg t c s1) as H2.
      destruct (register cfg t c s1) as [p s2]. cbn [snd] in H2.
      assert (H3 : Tr None (Some rid) (Some rid) s s2) by (eapply Tr_trans; [exact H1|apply Tr_weaken; exact H2]).
      eapply Tr_trans; [apply Hk|apply Tr_weaken; apply Tr_pooled_drop].
      destruct (g_pool cfg && negb (t =? 0) && own); [eapply Tr_trans; [exact H3|apply Tr_weaken; apply Tr_pool_cancel]|exact H3].
    + apply Hk. destruct (g_pool cfg && negb (t =? 0) && own); [eapply Tr_trans; [exact H1|apply Tr_weaken; apply Tr_pool_cancel]|exact H1].
Qed.
