(* C03, liveness half, part 1: the frame relation [Tr] between two states of the pool model (what the
   pool primitives may change about requests other than the one being polled), and its proof for every
   primitive. *)
From HD Require Import common.Base http.Model pool.Model pool.Spec pool.Frames pool.ProofsLite pool.FramesC06 pool.FramesC03 pool.ProofsC03.
Local Open Scope list_scope.

(* a checkout that waits for somebody else's attempt and has been neither served nor released *)
Definition stuckb (ck : checkout) : bool :=
  match k_waiter ck, k_slot ck with WConnecting, None => negb (k_txdropped ck) | _, _ => false end.

Definition ck_rel (ck ck' : checkout) : Prop :=
  k_token ck' = k_token ck /\ k_owner ck' = k_owner ck /\ k_inner ck' = k_inner ck /\ k_conn ck' = k_conn ck
  /\ (stuckb ck' = true -> stuckb ck = true).

Definition req_rel (o o' : option req) : Prop :=
  match o with
  | None => o' = None
  | Some (RCheckout ck) => exists ck', o' = Some (RCheckout ck') /\ ck_rel ck ck'
  | Some RError => o' = Some RError
  | Some _ => exists rq', o' = Some rq' /\ is_lv rq' = false
  end.

Definition marker (s : state) (t : nat) : option nat := p_marker (get_tok s t).
Definition waiting (s : state) (t : nat) : list (nat * bool) := p_waiting (get_tok s t).

(* [x]: the request whose poll / cancellation / delayed connector is being executed *)
Record Fr (x : option nat) (s s' : state) : Prop := mkFr {
  f_req : forall r, (x = Some r /\ isck s r = true) \/ req_rel (get_req s r) (get_req s' r);
  f_dial : forall r, x <> Some r -> get_dial s' r = get_dial s r;
  f_keep : forall tid rid t own, nth tid (tasks s) None = Some (TDelayed rid t own) ->
           nth tid (tasks s') None = Some (TDelayed rid t own) \/ x = Some rid;
  f_new : forall tid rid t own, nth tid (tasks s') None = Some (TDelayed rid t own) ->
          nth tid (tasks s) None = Some (TDelayed rid t own) \/ x = Some rid;
  f_runq : forall tid, In tid (runq s) -> In tid (runq s')
}.

Record TokRel (x : option nat) (s s' : state) : Prop := mkTokRel {
  t_mark : forall t o, marker s' t = Some o -> marker s t = Some o;
  t_wait : forall r ck, x <> Some r -> get_req s' r = Some (RCheckout ck) -> stuckb ck = true ->
           In (r, true) (waiting s (k_token ck)) -> marker s (k_token ck) <> None ->
           In (r, true) (waiting s' (k_token ck)) /\ marker s' (k_token ck) <> None
}.

Definition Tr (x : option nat) (s s' : state) : Prop := Fr x s s' /\ TokRel x s s'.

Lemma ck_rel_refl ck : ck_rel ck ck.
Proof. repeat split; auto. Qed.
Lemma ck_rel_trans a b c : ck_rel a b -> ck_rel b c -> ck_rel a c.
Proof. intros (A1 & A2 & A3 & A4 & A5) (B1 & B2 & B3 & B4 & B5). repeat split; try congruence. auto. Qed.

Lemma req_rel_refl o : req_rel o o.
Proof. destruct o as [[|ck|p f pl| |]|]; cbn; eauto using ck_rel_refl. Qed.

Lemma req_rel_trans a b c : req_rel a b -> req_rel b c -> req_rel a c.
Proof.
  destruct a as [[|ck|p f pl| |]|]; cbn.
  - intros ->. cbn. auto.
  - intros [ck' [-> H1]]. cbn. intros [ck'' [-> H2]]. eauto using ck_rel_trans.
  - intros [rq' [-> H1]]. destruct rq'; try discriminate; cbn; auto.
  - intros [rq' [-> H1]]. destruct rq'; try discriminate; cbn; auto.
  - intros [rq' [-> H1]]. destruct rq'; try discriminate; cbn; auto.
  - intros ->. cbn. auto.
Qed.

Lemma req_rel_isck s s' r : req_rel (get_req s r) (get_req s' r) -> isck s' r = isck s r.
Proof.
  unfold isck. destruct (get_req s r) as [[|ck|p f pl| |]|]; cbn.
  - intros ->. reflexivity.
  - intros [ck' [-> _]]. reflexivity.
  - intros [rq' [-> H]]. destruct rq'; try discriminate; reflexivity.
  - intros [rq' [-> H]]. destruct rq'; try discriminate; reflexivity.
  - intros [rq' [-> H]]. destruct rq'; try discriminate; reflexivity.
  - intros ->. reflexivity.
Qed.

Lemma Fr_refl x s : Fr x s s.
Proof. constructor; auto. intros r. right. apply req_rel_refl. Qed.

Lemma Fr_trans x s1 s2 s3 : Fr x s1 s2 -> Fr x s2 s3 -> Fr x s1 s3.
Proof.
  intros [A1 A2 A3 A4 A5] [B1 B2 B3 B4 B5]. constructor.
  - intros r. destruct (A1 r) as [Ha|Ha]; [left; exact Ha|].
    destruct (B1 r) as [[Hb1 Hb2]|Hb]; [|right; eapply req_rel_trans; eauto].
    left. split; [exact Hb1|]. rewrite <- (req_rel_isck _ _ _ Ha). exact Hb2.
  - intros r Hx. rewrite B2, A2; auto.
  - intros tid rid t own H. destruct (A3 _ _ _ _ H) as [H1|H1]; [|right; exact H1]. apply B3. exact H1.
  - intros tid rid t own H. destruct (B4 _ _ _ _ H) as [H1|H1]; [|right; exact H1]. apply A4. exact H1.
  - auto.
Qed.

Lemma Fr_weaken x s s' : Fr None s s' -> Fr x s s'.
Proof.
  intros [A1 A2 A3 A4 A5]. constructor; auto.
  - intros r. destruct (A1 r) as [[Ha _]|Ha]; [discriminate|right; exact Ha].
  - intros r _. apply A2. discriminate.
  - intros tid rid t own H. destruct (A3 _ _ _ _ H) as [H1|H1]; [left; exact H1|discriminate].
  - intros tid rid t own H. destruct (A4 _ _ _ _ H) as [H1|H1]; [left; exact H1|discriminate].
Qed.

Lemma req_rel_ck_inv o ck' : req_rel o (Some (RCheckout ck')) -> exists ck, o = Some (RCheckout ck) /\ ck_rel ck ck'.
Proof.
  destruct o as [[|ck|p f pl| |]|]; cbn; try discriminate.
  - intros [ck'' [E H]]. inversion E; subst. eauto.
  - intros [rq' [E H]]. inversion E; subst. discriminate.
  - intros [rq' [E H]]. inversion E; subst. discriminate.
  - intros [rq' [E H]]. inversion E; subst. discriminate.
Qed.

Lemma TokRel_refl x s : TokRel x s s.
Proof. constructor; auto. Qed.

Lemma Tr_refl x s : Tr x s s.
Proof. split; [apply Fr_refl|apply TokRel_refl]. Qed.

Lemma Tr_trans x s1 s2 s3 : Tr x s1 s2 -> Tr x s2 s3 -> Tr x s1 s3.
Proof.
  intros [FA [A1 A2]] [FB [B1 B2]]. split; [eapply Fr_trans; eauto|]. constructor.
  - auto.
  - intros r ck3 Hx Hr3 Hs3 Hin Hm.
    destruct (f_req _ _ _ FB r) as [[E _]|Hrel]; [congruence|]. rewrite Hr3 in Hrel.
    destruct (req_rel_ck_inv _ _ Hrel) as [ck2 [Hr2 (T1 & _ & _ & _ & T5)]].
    rewrite T1 in Hin, Hm.
    destruct (A2 r ck2 Hx Hr2 (T5 Hs3) Hin Hm) as [Hin2 Hm2].
    rewrite <- T1 in Hin2, Hm2. exact (B2 r ck3 Hx Hr3 Hs3 Hin2 Hm2).
Qed.

Lemma Tr_weaken x s s' : Tr None s s' -> Tr x s s'.
Proof.
  intros [F [A1 A2]]. split; [apply Fr_weaken; exact F|]. constructor; auto.
  intros r ck _. apply A2. discriminate.
Qed.

(* a step that touches neither the queues nor the marks *)
Lemma Tr_of_Fr x s s' : (forall t, get_tok s' t = get_tok s t) -> Fr x s s' -> Tr x s s'.
Proof.
  intros Ht F. split; [exact F|]. constructor; unfold marker, waiting.
  - intros t o. rewrite Ht. auto.
  - intros r ck _ _ _. rewrite !Ht. auto.
Qed.

Lemma get_tok_frame s s' : toks s' = toks s -> forall t, get_tok s' t = get_tok s t.
Proof. intros H [|i]; cbn; [reflexivity|]. rewrite H. reflexivity. Qed.

Lemma Fr_same s s' :
  reqs s' = reqs s -> dials s' = dials s -> tasks s' = tasks s -> (forall tid, In tid (runq s) -> In tid (runq s')) -> Fr None s s'.
Proof.
  intros H1 H2 H3 H4. constructor; auto.
  - intros r. right. unfold get_req. rewrite H1. apply req_rel_refl.
  - intros r _. unfold get_dial. rewrite H2. reflexivity.
  - intros tid rid t own. rewrite H3. auto.
  - intros tid rid t own. rewrite H3. auto.
Qed.

Lemma Tr_same s s' :
  reqs s' = reqs s -> dials s' = dials s -> tasks s' = tasks s -> (forall tid, In tid (runq s) -> In tid (runq s')) ->
  toks s' = toks s -> Tr None s s'.
Proof. intros H1 H2 H3 H4 H5. apply Tr_of_Fr; [apply get_tok_frame; exact H5|apply Fr_same; assumption]. Qed.
