(* C03, safety half: no lost wake-up, and nothing happens to a request after its cancellation or
   completion.  The wake invariant [Inv] (pool/FramesC03.v) is carried through every primitive of the
   pool model, every operation and every history; the executable check [chk_C03] of pool/Spec.v is then
   shown to accept the model's trace of every history, for every configuration. *)
From HD Require Import common.Base http.Model pool.Model pool.Spec pool.Frames pool.ProofsLite pool.FramesC06 pool.FramesC03.
Local Open Scope list_scope.

(* ---------------------------------------------------------------- which requests are checkouts *)
Lemma isck_frame s s' r : reqs s' = reqs s -> isck s' r = isck s r.
Proof. intros H. unfold isck, get_req. rewrite H. reflexivity. Qed.

Lemma isck_set_req s w v r : isck s w = is_ck v -> isck (set_req w v s) r = isck s r.
Proof.
  intros H. unfold isck at 1. rewrite get_req_set_req. destruct (Nat.eqb_spec w r) as [<-|Hne]; [|reflexivity].
  unfold isck in *. destruct (get_req s w); [symmetry; exact H|reflexivity].
Qed.

Lemma isck_deliver w p s r : isck (deliver w p s) r = isck s r.
Proof.
  unfold deliver. destruct (get_req s w) as [[|ck|? ? ?| |]|] eqn:Hr; try reflexivity.
  assert (E : isck (set_req w (RCheckout (k_set_slot (Some p) ck)) s) r = isck s r)
    by (apply isck_set_req; unfold isck; rewrite Hr; reflexivity).
  destruct (k_rxpolled ck); [|exact E]. rewrite <- E. apply isck_frame. reflexivity.
Qed.

Lemma isck_drop_conn c s r : isck (drop_conn c s) r = isck s r.
Proof. unfold drop_conn. dm; apply isck_frame; reflexivity. Qed.

Lemma isck_upd_tok t f s r : isck (upd_tok t f s) r = isck s r.
Proof. destruct t; reflexivity. Qed.

Lemma isck_walk_waiters t c sh ws r : forall s, isck (snd (walk_waiters t c sh ws s)) r = isck s r.
Proof.
  induction ws as [|[w b] ws IH]; intros s; cbn [walk_waiters]; [reflexivity|].
  destruct (rx_live s w); [destruct sh|].
  - rewrite IH, isck_deliver. apply isck_frame. reflexivity.
  - cbn [snd]. apply isck_deliver.
  - apply IH.
Qed.

Lemma isck_pool_push n t c s r : isck (pool_push n t c s) r = isck s r.
Proof.
  unfold pool_push.
  set (s1 := if share_of s c then upd_tok t (set_marker None) s else s).
  assert (H1 : isck s1 r = isck s r) by (subst s1; destruct (share_of s c); [apply isck_upd_tok|reflexivity]).
  pose proof (isck_walk_waiters t c (share_of s1 c) (p_waiting (get_tok s1 t)) r s1) as Hw.
  destruct (walk_waiters t c (share_of s1 c) (p_waiting (get_tok s1 t)) s1) as [[rest moved] s2]. cbn [snd] in Hw.
  rewrite <- H1, <- Hw. destruct moved; [apply isck_upd_tok|].
  match goal with |- context [if ?b then _ else _] => destruct b end.
  - rewrite isck_upd_tok. apply isck_upd_tok.
  - rewrite isck_drop_conn. apply isck_upd_tok.
Qed.

(* ---------------------------------------------------------------- primitives *)
Section Prims.
Variables (wb : list nat) (m0 : mst).
Notation GG := (G wb m0).

Lemma G_set_ck x pre P s w ck ck' :
  get_req s w = Some (RCheckout ck) ->
  (x <> Some w -> pend P w = true -> Wreq s w (RCheckout ck) -> Wreq s w (RCheckout ck')) ->
  GG x pre P s -> GG x pre P (set_req w (RCheckout ck') s).
Proof.
  intros Hr Hw H. apply G_set_req; [| | | |exact H].
  - intros _. unfold isck. rewrite Hr. reflexivity.
  - intros Hx Hg. destruct H as [HI _]. exact (i_gone _ _ _ _ HI w _ Hr Hx Hg).
  - intros Hx Hp. apply Hw; auto. destruct H as [HI _]. exact (i_wake _ _ _ _ HI w _ Hr Hx Hp).
  - reflexivity.
Qed.

Lemma G_set_ck_wake x pre P s w ck ck' :
  get_req s w = Some (RCheckout ck) -> k_rxpolled ck' = true ->
  GG x pre P s -> GG x pre P (wake_req w (set_req w (RCheckout ck') s)).
Proof.
  intros Hr Hp H. change (GG x pre P (set_req w (RCheckout ck') (wake_req w s))).
  assert (Hl : w < List.length (woken s)).
  { destruct H as [HI _]. pose proof (i_wok _ _ _ _ HI). pose proof (get_req_lt _ _ _ Hr). lia. }
  apply (G_set_ck x pre P (wake_req w s) w ck ck'); [exact Hr| |apply G_wake_req; exact H].
  intros _ _ _. split; [intros _; exact Hp|]. intros _. apply wok_wake_same. exact Hl.
Qed.

Lemma G_drop_conn x pre P c s : GG x pre P s -> GG x pre P (drop_conn c s).
Proof.
  intros H. unfold drop_conn. destruct (get_conn s c) as [cn|]; [|exact H].
  destruct (Nat.eqb (pred (c_refs cn)) 0); [apply G_emit_triv; [reflexivity|]|]; apply G_upd_conn; exact H.
Qed.
Lemma G_clone_conn x pre P c s : GG x pre P s -> GG x pre P (clone_conn c s).
Proof. apply G_upd_conn. Qed.
Lemma G_drain_conn_waiters x pre P c s : GG x pre P s -> GG x pre P (drain_conn_waiters c s).
Proof.
  intros H. unfold drain_conn_waiters. destruct (get_conn s c) as [cn|]; [|exact H].
  apply G_wake_tasks. apply G_upd_conn. exact H.
Qed.
Lemma G_pooled_drop x pre P p s : GG x pre P s -> GG x pre P (pooled_drop p s).
Proof.
  intros H. unfold pooled_drop. destruct p as [c t]. destruct (share_of s c); [apply G_drop_conn; exact H|].
  apply G_spawn; [discriminate|exact H].
Qed.
Lemma G_drop_all x pre P l : forall s, GG x pre P s -> GG x pre P (drop_all l s).
Proof. induction l as [|[c a] l IH]; intros s H; cbn [drop_all]; [exact H|]. apply IH. apply G_drop_conn. exact H. Qed.

Lemma G_deliver x pre P w p s : GG x pre P s -> GG x pre P (deliver w p s).
Proof.
  intros H. unfold deliver. destruct (get_req s w) as [[|ck|? ? ?| |]|] eqn:Hr; try exact H.
  destruct (k_rxpolled ck) eqn:Hp; [eapply G_set_ck_wake; eauto|].
  eapply G_set_ck; [exact Hr| |exact H]. intros _ _ [W1 W2].
  destruct (k_waiter ck) eqn:Hw; try (rewrite W1 in Hp by discriminate; discriminate).
  split; [cbn; rewrite Hw; congruence|]. unfold prog, cont in *. cbn. rewrite Hw in *. exact W2.
Qed.

Lemma G_drop_sender x pre P w s : GG x pre P s -> GG x pre P (drop_sender w s).
Proof.
  intros H. unfold drop_sender. destruct (get_req s w) as [[|ck|? ? ?| |]|] eqn:Hr; try exact H.
  destruct (k_waiter ck) eqn:Hw; try exact H;
    (destruct (k_rxpolled ck) eqn:Hp; [eapply G_set_ck_wake; eauto|]);
    (eapply G_set_ck; [exact Hr| |exact H]); intros _ _ [W1 W2]; rewrite W1 in Hp by (rewrite Hw; discriminate); discriminate.
Qed.

Lemma G_walk_waiters x pre P t c sh ws : forall s, GG x pre P s -> GG x pre P (snd (walk_waiters t c sh ws s)).
Proof.
  induction ws as [|[w b] ws IH]; intros s H; cbn [walk_waiters]; [exact H|].
  destruct (rx_live s w); [destruct sh|].
  - apply IH. apply G_deliver. apply G_clone_conn. exact H.
  - cbn [snd]. apply G_deliver. exact H.
  - apply IH. exact H.
Qed.

Lemma G_pool_push x pre P n t c s : GG x pre P s -> GG x pre P (pool_push n t c s).
Proof.
  intros H. unfold pool_push.
  set (s1 := if share_of s c then upd_tok t (set_marker None) s else s).
  assert (H1 : GG x pre P s1) by (subst s1; destruct (share_of s c); [apply G_upd_tok|]; exact H).
  pose proof (G_walk_waiters x pre P t c (share_of s1 c) (p_waiting (get_tok s1 t)) s1 H1) as H2.
  destruct (walk_waiters t c (share_of s1 c) (p_waiting (get_tok s1 t)) s1) as [[rest moved] s2]. cbn [snd] in H2.
  assert (H3 : GG x pre P (upd_tok t (set_waiting rest) s2)) by (apply G_upd_tok; exact H2).
  destruct moved; [exact H3|].
  match goal with |- context [if ?b then _ else _] => destruct b end; [apply G_upd_tok|apply G_drop_conn]; exact H3.
Qed.

Lemma G_release_pending x pre P ws : forall s, GG x pre P s -> GG x pre P (snd (release_pending ws s)).
Proof.
  induction ws as [|[w b] ws IH]; intros s H; cbn [release_pending]; [exact H|].
  destruct b.
  - apply IH. apply G_drop_sender. exact H.
  - specialize (IH s H). destruct (release_pending ws s) as [rest' s']. exact IH.
Qed.

Lemma G_pool_cancel x pre P t rid s : GG x pre P s -> GG x pre P (pool_cancel t rid s).
Proof.
  intros H. unfold pool_cancel. destruct (p_marker (get_tok s t)) as [o|]; [|exact H]. destruct (Nat.eqb o rid); [|exact H].
  set (s1 := upd_tok t (set_marker None) s).
  assert (H1 : GG x pre P s1) by (apply G_upd_tok; exact H).
  pose proof (G_release_pending x pre P (p_waiting (get_tok s1 t)) s1 H1) as H2.
  destruct (release_pending (p_waiting (get_tok s1 t)) s1) as [rest s2]. cbn [snd] in H2.
  apply G_upd_tok. exact H2.
Qed.

Lemma G_pop_loop x pre P thr rl : forall s, GG x pre P s -> GG x pre P (snd (pop_loop thr rl s)).
Proof.
  induction rl as [|[c a] rl IH]; intros s H; cbn [pop_loop]; [exact H|].
  destruct (match thr with Some y => (a <? y)%N | None => false end).
  - cbn [snd]. apply G_drop_all. apply G_drop_conn. exact H.
  - destruct (is_open s c); [exact H|]. apply IH. apply G_drop_conn. exact H.
Qed.

Lemma G_pool_pop x pre P to t s : GG x pre P s -> GG x pre P (snd (pool_pop to t s)).
Proof.
  intros H. unfold pool_pop.
  pose proof (G_pop_loop x pre P (expiry_threshold to (now s)) (rev (p_idle (get_tok s t))) s H) as H1.
  destruct (pop_loop (expiry_threshold to (now s)) (rev (p_idle (get_tok s t))) s) as [[r rest] s1]. cbn [snd] in *.
  apply G_upd_tok. exact H1.
Qed.

Lemma G_key_insert x pre P k s : GG x pre P s -> GG x pre P (snd (key_insert k s)).
Proof.
  intros H. unfold key_insert. destruct (find_key k (keys s) 1); cbn [snd]; [exact H|].
  revert H. apply G_frame; reflexivity.
Qed.

Lemma G_register x pre P cfg t c s : GG x pre P s -> GG x pre P (snd (register cfg t c s)).
Proof.
  intros H. unfold register.
  destruct (g_pool cfg && negb (t =? 0)); [destruct (share_of s c)|]; cbn [snd]; auto.
  destruct (is_open s c); [|exact H]. apply G_pool_push. apply G_clone_conn. exact H.
Qed.

Lemma G_rx_drop x pre P ck s : GG x pre P s -> GG x pre P (snd (rx_drop ck s)).
Proof.
  intros H. unfold rx_drop. destruct (k_waiter ck); destruct (k_slot ck); cbn [snd]; auto; apply G_pooled_drop; exact H.
Qed.

Lemma reqs_drop_conn c s : reqs (drop_conn c s) = reqs s.
Proof. unfold drop_conn. dm; reflexivity. Qed.
Lemma reqs_pooled_drop p s : reqs (pooled_drop p s) = reqs s.
Proof. unfold pooled_drop. destruct p. dm; [apply reqs_drop_conn|reflexivity]. Qed.
Lemma reqs_rx_drop ck s : reqs (snd (rx_drop ck s)) = reqs s.
Proof. unfold rx_drop. dm; cbn [snd]; try reflexivity; apply reqs_pooled_drop. Qed.
Lemma reqs_connector_poll rid b s : reqs (snd (connector_poll rid b s)) = reqs s.
Proof. unfold connector_poll. dm; reflexivity. Qed.

(* the connector: polled by its own request (which is exempt), or by a delayed task (its request is
   no checkout any more) *)
Lemma G_connector_poll x pre P rid by_ s :
  (by_ = ByReq /\ x = Some rid) \/ isck s rid = false ->
  GG x pre P s -> GG x pre P (snd (connector_poll rid by_ s)).
Proof.
  intros Hb H. unfold connector_poll. destruct (get_dial s rid) as [d|] eqn:Hd; [|exact H].
  assert (Hnc : forall ck, get_req s rid = Some (RCheckout ck) -> by_ = ByReq).
  { intros ck Hr. destruct Hb as [[Hb _]|Hb]; [exact Hb|]. unfold isck in Hb. rewrite Hr in Hb. discriminate. }
  assert (Hx : x <> Some rid -> isck s rid = true -> False).
  { intros Hx Hi. destruct Hb as [[_ Hb]|Hb]; congruence. }
  destruct (d_stage d) as [| |[alpn| |]|] eqn:Hst; cbn [snd]; try exact H.
  - apply G_upd_dial; [|apply G_emit_triv; [reflexivity|exact H]].
    intros d0 _. split; [intros ck Hr _; cbn; rewrite (Hnc ck Hr); reflexivity|intros _ _; discriminate].
  - apply G_upd_dial; [|exact H].
    intros d0 Hd0. split; [intros ck Hr _; cbn; rewrite (Hnc ck Hr); reflexivity|].
    intros Hx1 Hx2. destruct (Hx Hx1 Hx2).
  - apply G_upd_dial_gone. apply G_emit_triv; [reflexivity|]. revert H. apply G_frame; reflexivity.
  - apply G_upd_dial_gone. exact H.
  - apply G_upd_dial_gone. exact H.
Qed.

Lemma connector_poll_ready rid b s res : fst (connector_poll rid b s) = CReady res -> resolved s rid = true.
Proof.
  unfold connector_poll, resolved, rs_stage. destruct (get_dial s rid) as [d|]; [|discriminate].
  destruct (d_stage d) as [| |[alpn| |]|]; cbn [fst]; try discriminate; reflexivity.
Qed.

Lemma connector_poll_pending rid b s : fst (connector_poll rid b s) = CPending -> resolved (snd (connector_poll rid b s)) rid = false.
Proof.
  unfold connector_poll. destruct (get_dial s rid) as [d|] eqn:Hd; cbn [fst snd].
  2: { intros _. unfold resolved. rewrite Hd. reflexivity. }
  destruct (d_stage d) as [| |[alpn| |]|] eqn:Hst; cbn [fst snd]; try discriminate; intros _; unfold resolved;
    rewrite ?get_dial_upd_dial, ?Nat.eqb_refl; try (change (get_dial (emit ?e s) rid) with (get_dial s rid));
    rewrite Hd; cbn [option_map]; unfold rs_stage; cbn; rewrite ?Hst; reflexivity.
Qed.

(* a poll that completes was enabled *)
Lemma checkout_poll_ready cfg r ck s res : fst (fst (checkout_poll cfg r ck s)) = KReady res -> prog s r ck = true.
Proof.
  unfold checkout_poll, waiter_poll, prog, cont.
  destruct (k_waiter ck) eqn:Hw, (k_slot ck) eqn:Hs, (k_txdropped ck) eqn:Ht; cbn [fst snd]; try reflexivity; try discriminate;
  cbn [k_inner k_conn k_set_waiter k_set_slot k_set_rxpolled];
  (destruct (k_inner ck) eqn:Hi; [reflexivity|destruct (k_conn ck); [reflexivity|cbn [fst]; discriminate]|..]);
  (pose proof (connector_poll_ready r ByReq s) as Hc; destruct (connector_poll r ByReq s) as [[|res'] s1]; cbn [fst] in *;
   [discriminate|intros _; eapply Hc; reflexivity]).
Qed.

Lemma waiter_poll_cont ck :
  fst (waiter_poll ck) = WContinue ->
  (forall s r, prog s r (snd (waiter_poll ck)) = cont s r (snd (waiter_poll ck)))
  /\ (k_waiter (snd (waiter_poll ck)) <> WNoPool -> k_rxpolled (snd (waiter_poll ck)) = true).
Proof.
  unfold waiter_poll.
  destruct (k_waiter ck) eqn:Hw, (k_slot ck) eqn:Hs, (k_txdropped ck) eqn:Ht; cbn [fst snd]; try discriminate; intros _;
    (split; [intros s r; unfold prog; cbn; rewrite ?Hw, ?Hs, ?Ht; reflexivity|cbn; congruence]).
Qed.

Lemma waiter_poll_pend ck :
  fst (waiter_poll ck) = WPending ->
  (forall s r, prog s r (snd (waiter_poll ck)) = false) /\ k_rxpolled (snd (waiter_poll ck)) = true.
Proof.
  unfold waiter_poll.
  destruct (k_waiter ck) eqn:Hw, (k_slot ck) eqn:Hs, (k_txdropped ck) eqn:Ht; cbn [fst snd]; try discriminate; intros _;
    (split; [intros s r; unfold prog; cbn; rewrite ?Hw, ?Hs, ?Ht; reflexivity|reflexivity]).
Qed.

(* a poll that returns Pending leaves the checkout disabled, with its waker registered *)
Lemma checkout_poll_pending cfg r ck s :
  fst (fst (checkout_poll cfg r ck s)) = KPending ->
  prog (snd (checkout_poll cfg r ck s)) r (snd (fst (checkout_poll cfg r ck s))) = false
  /\ (k_waiter (snd (fst (checkout_poll cfg r ck s))) <> WNoPool -> k_rxpolled (snd (fst (checkout_poll cfg r ck s))) = true).
Proof.
  unfold checkout_poll.
  pose proof (waiter_poll_cont ck) as Hc. pose proof (waiter_poll_pend ck) as Hp.
  destruct (waiter_poll ck) as [w ck1]. cbn [fst snd] in Hc, Hp.
  destruct w as [|p|]; cbn [fst snd]; try discriminate.
  - intros _. destruct (Hp eq_refl) as [H1 H2]. split; [apply H1|intros _; exact H2].
  - destruct (Hc eq_refl) as [H1 H2]. clear Hc Hp.
    destruct (k_inner ck1) eqn:Hi; cbn [fst snd]; try discriminate.
    + destruct (k_conn ck1) eqn:Hk; cbn [fst snd].
      * destruct (rx_drop (k_set_conn None ck1) s) as [ck2 s2]. destruct (register cfg (k_token ck2) n _) as [p s3]. cbn [fst]. discriminate.
      * intros _. split; [|exact H2]. rewrite H1. unfold cont. rewrite Hi, Hk. reflexivity.
    + pose proof (connector_poll_pending r ByReq s) as Hq. destruct (connector_poll r ByReq s) as [[|res'] s1]; cbn [fst snd] in *.
      * intros _. split; [|exact H2]. rewrite H1. unfold cont. rewrite Hi. apply Hq. reflexivity.
      * destruct (rx_drop ck1 s1) as [ck2 s2]. destruct res' as [c|e]; [destruct (register cfg _ c _) as [p s3]|]; cbn [fst]; discriminate.
    + pose proof (connector_poll_pending r ByReq s) as Hq. destruct (connector_poll r ByReq s) as [[|res'] s1]; cbn [fst snd] in *.
      * intros _. split; [|exact H2]. rewrite H1. unfold cont. rewrite Hi. apply Hq. reflexivity.
      * destruct (rx_drop ck1 s1) as [ck2 s2]. destruct res' as [c|e]; [destruct (register cfg _ c _) as [p s3]|]; cbn [fst]; discriminate.
    + pose proof (connector_poll_pending r ByReq s) as Hq. destruct (connector_poll r ByReq s) as [[|res'] s1]; cbn [fst snd] in *.
      * intros _. split; [|exact H2]. rewrite H1. unfold cont. rewrite Hi. apply Hq. reflexivity.
      * destruct (rx_drop ck1 s1) as [ck2 s2]. destruct res' as [c|e]; [destruct (register cfg _ c _) as [p s3]|]; cbn [fst]; discriminate.
Qed.

Lemma isck_register cfg t c s r : isck (snd (register cfg t c s)) r = isck s r.
Proof.
  unfold register. destruct (g_pool cfg && negb (t =? 0)); [destruct (share_of s c)|]; cbn [snd]; auto.
  destruct (is_open s c); [|reflexivity]. rewrite isck_pool_push. apply isck_frame. reflexivity.
Qed.

(* set the exempt request *)
Lemma G_set_req_x pre P r v s :
  (is_ck v = true -> isck s r = true) -> GG (Some r) pre P s -> GG (Some r) pre P (set_req r v s).
Proof. intros Hc. apply G_set_req; [exact Hc| | |]; intros Hx; contradiction Hx; reflexivity. Qed.

Lemma G_checkout_poll pre P cfg rid ck s :
  isck s rid = true -> GG (Some rid) pre P s ->
  GG (Some rid) pre P (snd (checkout_poll cfg rid ck s)) /\ isck (snd (checkout_poll cfg rid ck s)) rid = true.
Proof.
  intros Hk H. unfold checkout_poll.
  destruct (waiter_poll ck) as [w ck1]. destruct w as [|p|]; cbn [snd]; auto.
  destruct (k_inner ck1); cbn [snd]; auto.
  1: { destruct (k_conn ck1) as [c|]; cbn [snd]; auto.
       pose proof (G_rx_drop _ pre P (k_set_conn None ck1) s H) as H2. pose proof (reqs_rx_drop (k_set_conn None ck1) s) as Hq.
       destruct (rx_drop (k_set_conn None ck1) s) as [ck2 s2]. cbn [snd] in H2, Hq.
       assert (Hk2 : isck s2 rid = true) by (rewrite (isck_frame s s2 rid Hq); exact Hk).
       assert (H3 : GG (Some rid) pre P (set_req rid (RCheckout ck2) s2)) by (apply G_set_req_x; auto).
       assert (Hk3 : isck (set_req rid (RCheckout ck2) s2) rid = true) by (rewrite isck_set_req; auto).
       pose proof (G_register _ pre P cfg (k_token ck2) c _ H3) as H4. pose proof (isck_register cfg (k_token ck2) c (set_req rid (RCheckout ck2) s2) rid) as Hk4.
       destruct (register cfg (k_token ck2) c (set_req rid (RCheckout ck2) s2)) as [p s3]. cbn [snd] in *. split; [exact H4|congruence]. }
  all: assert (H1 : GG (Some rid) pre P (snd (connector_poll rid ByReq s))) by (apply G_connector_poll; [left; auto|exact H]);
    pose proof (reqs_connector_poll rid ByReq s) as Hq1;
    destruct (connector_poll rid ByReq s) as [r s1]; cbn [snd] in H1, Hq1;
    assert (Hk1 : isck s1 rid = true) by (rewrite (isck_frame s s1 rid Hq1); exact Hk);
    (destruct r as [|res]; cbn [snd]; [auto|]);
    pose proof (G_rx_drop _ pre P ck1 s1 H1) as H2; pose proof (reqs_rx_drop ck1 s1) as Hq2;
    destruct (rx_drop ck1 s1) as [ck2 s2]; cbn [snd] in H2, Hq2;
    assert (Hk2 : isck s2 rid = true) by (rewrite (isck_frame s1 s2 rid Hq2); exact Hk1);
    assert (H3 : GG (Some rid) pre P (set_req rid (RCheckout (k_set_inner IConnected ck2)) s2)) by (apply G_set_req_x; auto);
    assert (Hk3 : isck (set_req rid (RCheckout (k_set_inner IConnected ck2)) s2) rid = true) by (rewrite isck_set_req; auto);
    (destruct res as [c|e]; cbn [snd]; [|auto]);
    pose proof (G_register _ pre P cfg (k_token (k_set_inner IConnected ck2)) c _ H3) as H4;
    pose proof (isck_register cfg (k_token (k_set_inner IConnected ck2)) c (set_req rid (RCheckout (k_set_inner IConnected ck2)) s2) rid) as Hk4;
    destruct (register cfg (k_token (k_set_inner IConnected ck2)) c (set_req rid (RCheckout (k_set_inner IConnected ck2)) s2)) as [p s3];
    cbn [snd] in *; split; [exact H4|congruence].
Qed.

(* ---------------------------------------------------------------- requests that are no checkouts are not touched *)
Definition nock (s s' : state) : Prop := forall r rq, get_req s r = Some rq -> is_ck rq = false -> get_req s' r = Some rq.
Lemma nock_refl s : nock s s. Proof. intros r rq H _. exact H. Qed.
Lemma nock_trans s1 s2 s3 : nock s1 s2 -> nock s2 s3 -> nock s1 s3.
Proof. intros H1 H2 r rq Hr Hk. apply H2; auto. Qed.
Lemma nock_frame s s' : reqs s' = reqs s -> nock s s'.
Proof. intros H r rq Hr _. unfold get_req in *. rewrite H. exact Hr. Qed.
Lemma nock_set_ck s w ck v : get_req s w = Some (RCheckout ck) -> nock s (set_req w v s).
Proof.
  intros Hw r rq Hr Hk. rewrite get_req_set_req. destruct (Nat.eqb_spec w r) as [<-|Hne]; [|exact Hr].
  rewrite Hw in Hr. inversion Hr; subst rq. discriminate.
Qed.
Lemma nock_deliver w p s : nock s (deliver w p s).
Proof.
  unfold deliver. destruct (get_req s w) as [[|ck|? ? ?| |]|] eqn:Hr; try apply nock_refl.
  destruct (k_rxpolled ck); [eapply nock_trans; [eapply nock_set_ck; exact Hr|apply nock_frame; reflexivity]|eapply nock_set_ck; exact Hr].
Qed.
Lemma nock_drop_sender w s : nock s (drop_sender w s).
Proof.
  unfold drop_sender. destruct (get_req s w) as [[|ck|? ? ?| |]|] eqn:Hr; try apply nock_refl.
  destruct (k_waiter ck); try apply nock_refl;
    (destruct (k_rxpolled ck); [eapply nock_trans; [eapply nock_set_ck; exact Hr|apply nock_frame; reflexivity]|eapply nock_set_ck; exact Hr]).
Qed.
Lemma nock_upd_tok t f s : nock s (upd_tok t f s).
Proof. destruct t; [apply nock_refl|apply nock_frame; reflexivity]. Qed.
Lemma nock_drop_conn c s : nock s (drop_conn c s).
Proof. apply nock_frame. apply reqs_drop_conn. Qed.
Lemma nock_walk_waiters t c sh ws : forall s, nock s (snd (walk_waiters t c sh ws s)).
Proof.
  induction ws as [|[w b] ws IH]; intros s; cbn [walk_waiters]; [apply nock_refl|].
  destruct (rx_live s w); [destruct sh|].
  - eapply nock_trans; [|apply IH]. eapply nock_trans; [|apply nock_deliver]. apply nock_frame. reflexivity.
  - cbn [snd]. apply nock_deliver.
  - apply IH.
Qed.
Lemma nock_pool_push n t c s : nock s (pool_push n t c s).
Proof.
  unfold pool_push.
  set (s1 := if share_of s c then upd_tok t (set_marker None) s else s).
  assert (H1 : nock s s1) by (subst s1; destruct (share_of s c); [apply nock_upd_tok|apply nock_refl]).
  pose proof (nock_walk_waiters t c (share_of s1 c) (p_waiting (get_tok s1 t)) s1) as Hw.
  destruct (walk_waiters t c (share_of s1 c) (p_waiting (get_tok s1 t)) s1) as [[rest moved] s2]. cbn [snd] in Hw.
  eapply nock_trans; [exact H1|]. eapply nock_trans; [exact Hw|]. destruct moved; [apply nock_upd_tok|].
  match goal with |- context [if ?b then _ else _] => destruct b end.
  - eapply nock_trans; apply nock_upd_tok.
  - eapply nock_trans; [apply nock_upd_tok|apply nock_drop_conn].
Qed.
Lemma nock_release_pending ws : forall s, nock s (snd (release_pending ws s)).
Proof.
  induction ws as [|[w b] ws IH]; intros s; cbn [release_pending]; [apply nock_refl|].
  destruct b.
  - eapply nock_trans; [apply nock_drop_sender|apply IH].
  - specialize (IH s). destruct (release_pending ws s) as [rest' s']. exact IH.
Qed.
Lemma nock_pool_cancel t rid s : nock s (pool_cancel t rid s).
Proof.
  unfold pool_cancel. destruct (p_marker (get_tok s t)) as [o|]; [|apply nock_refl]. destruct (Nat.eqb o rid); [|apply nock_refl].
  set (s1 := upd_tok t (set_marker None) s).
  pose proof (nock_release_pending (p_waiting (get_tok s1 t)) s1) as H2.
  destruct (release_pending (p_waiting (get_tok s1 t)) s1) as [rest s2]. cbn [snd] in H2.
  eapply nock_trans; [apply nock_upd_tok|]. eapply nock_trans; [exact H2|apply nock_upd_tok].
Qed.
Lemma nock_rx_drop ck s : nock s (snd (rx_drop ck s)).
Proof. apply nock_frame. apply reqs_rx_drop. Qed.
Lemma nock_checkout_drop cfg rid ck s : nock s (checkout_drop cfg rid ck s).
Proof.
  unfold checkout_drop.
  set (s1 := match k_conn ck with
             | Some c => if is_open s c && (g_pool cfg && negb (k_token ck =? 0)) then pool_push (g_max_idle cfg) (k_token ck) c s else drop_conn c s
             | None => s end).
  assert (H1 : nock s s1).
  { subst s1. destruct (k_conn ck) as [c|]; [|apply nock_refl].
    destruct (is_open s c && (g_pool cfg && negb (k_token ck =? 0))); [apply nock_pool_push|apply nock_drop_conn]. }
  set (started := match get_dial s1 rid with Some d => match d_stage d with DNew => false | _ => true end | None => false end).
  set (delayed := match k_inner ck with IDelayDrop => started | _ => false end).
  set (s2 := if delayed then spawn (TDelayed rid (k_token ck) (k_owner ck)) s1
             else if g_pool cfg && negb (k_token ck =? 0) && k_owner ck then pool_cancel (k_token ck) rid s1 else s1).
  assert (H2 : nock s1 s2).
  { subst s2. destruct delayed; [apply nock_frame; reflexivity|].
    destruct (g_pool cfg && negb (k_token ck =? 0) && k_owner ck); [apply nock_pool_cancel|apply nock_refl]. }
  pose proof (nock_rx_drop ck s2) as H3.
  destruct (rx_drop ck s2) as [ck' s3]. cbn [snd] in H3.
  assert (H4 : nock s s3) by (eapply nock_trans; [exact H1|]; eapply nock_trans; [exact H2|exact H3]).
  assert (H5 : nock s (upd_dial rid (d_set_stage DGone) s3)) by (eapply nock_trans; [exact H4|apply nock_frame; reflexivity]).
  destruct (k_inner ck); try exact H4; try exact H5. destruct delayed; [exact H4|exact H5].
Qed.

Lemma G_checkout_drop x pre P cfg rid ck s : nck s rid -> GG x pre P s -> GG x pre P (checkout_drop cfg rid ck s).
Proof.
  intros Hk H. unfold checkout_drop.
  set (s1 := match k_conn ck with
             | Some c => if is_open s c && (g_pool cfg && negb (k_token ck =? 0)) then pool_push (g_max_idle cfg) (k_token ck) c s else drop_conn c s
             | None => s end).
  assert (H1 : GG x pre P s1 /\ nck s1 rid).
  { destruct Hk as [rq [Hk1 Hk2]]. subst s1. destruct (k_conn ck) as [c|]; [|split; [exact H|exists rq; auto]].
    destruct (is_open s c && (g_pool cfg && negb (k_token ck =? 0))).
    - split; [apply G_pool_push; exact H|exists rq; split; [apply nock_pool_push; auto|exact Hk2]].
    - split; [apply G_drop_conn; exact H|exists rq; split; [apply nock_drop_conn; auto|exact Hk2]]. }
  destruct H1 as [H1 Hk1].
  set (started := match get_dial s1 rid with Some d => match d_stage d with DNew => false | _ => true end | None => false end).
  set (delayed := match k_inner ck with IDelayDrop => started | _ => false end).
  set (s2 := if delayed then spawn (TDelayed rid (k_token ck) (k_owner ck)) s1
             else if g_pool cfg && negb (k_token ck =? 0) && k_owner ck then pool_cancel (k_token ck) rid s1 else s1).
  assert (H2 : GG x pre P s2).
  { subst s2. destruct delayed.
    - apply G_spawn; [|exact H1]. intros rid' t own E. inversion E; subst. exact Hk1.
    - destruct (g_pool cfg && negb (k_token ck =? 0) && k_owner ck); [apply G_pool_cancel|]; exact H1. }
  pose proof (G_rx_drop x pre P ck s2 H2) as H3.
  destruct (rx_drop ck s2) as [ck' s3]. cbn [snd] in H3.
  destruct (k_inner ck); try exact H3; try (apply G_upd_dial_gone; exact H3).
  destruct delayed; [exact H3|apply G_upd_dial_gone; exact H3].
Qed.

Lemma G_hold_release x pre P r p s : GG x pre P s -> GG x pre P (hold_release r p s).
Proof.
  intros H. unfold hold_release. apply G_pooled_drop. apply G_emit_triv; [reflexivity|]. apply G_upd_conn. exact H.
Qed.

(* ---------------------------------------------------------------- operations other than Poll, Cancel, Issue *)
Lemma G_do_finish pre P r s : GG None pre P s -> GG None pre P (do_finish r s).
Proof.
  intros H. unfold do_finish. destruct (get_req s r) as [[|ck|p fin pl| |]|] eqn:Hr; try exact H.
  assert (Hl : r < List.length (woken s)).
  { destruct H as [HI _]. pose proof (i_wok _ _ _ _ HI). pose proof (get_req_lt _ _ _ Hr). lia. }
  assert (Hg : gone P r = true -> is_fin (RHolding p true false) = true).
  { intros Hg. destruct H as [HI _]. apply (i_gone _ _ _ _ HI r _ Hr); [discriminate|exact Hg]. }
  assert (Hlv : live P r = true -> is_lv (RHolding p true false) = true).
  { intros Hv. destruct H as [HI _]. apply (i_live _ _ _ _ HI r _ Hr); [discriminate|exact Hv]. }
  destruct pl.
  - change (GG None pre P (set_req r (RHolding p true false) (wake_req r s))).
    apply G_set_req; [discriminate|intros _; exact Hg| |intros _; exact Hlv|apply G_wake_req; exact H].
    intros _ _. split; [discriminate|]. intros _. apply wok_wake_same. exact Hl.
  - apply G_set_req; [discriminate|intros _; exact Hg| |intros _; exact Hlv|exact H].
    intros Hx Hp. destruct H as [HI _]. destruct (i_wake _ _ _ _ HI r _ Hr Hx Hp) as [W1 W2].
    split; [discriminate|]. intros _. destruct fin; [apply W2; reflexivity|]. specialize (W1 eq_refl). discriminate.
Qed.

Lemma G_do_upgrade x pre P r s : GG x pre P s -> GG x pre P (do_upgrade r s).
Proof.
  intros H. unfold do_upgrade. destruct (get_req s r) as [[|ck|p fin pl| |]|]; try exact H.
  apply G_drain_conn_waiters. apply G_upd_conn. exact H.
Qed.
Lemma G_do_conn_ready x pre P c s : GG x pre P s -> GG x pre P (do_conn_ready c s).
Proof.
  intros H. unfold do_conn_ready. destruct (get_conn s c); [|exact H]. apply G_drain_conn_waiters. apply G_upd_conn. exact H.
Qed.
Lemma G_do_conn_close x pre P c s : GG x pre P s -> GG x pre P (do_conn_close c s).
Proof.
  intros H. unfold do_conn_close. destruct (get_conn s c); [|exact H]. apply G_drain_conn_waiters. apply G_upd_conn. exact H.
Qed.

Lemma G_do_dial_done x pre P r y s : GG x pre P s -> GG x pre P (do_dial_done r y s).
Proof.
  intros H. unfold do_dial_done. destruct (get_dial s r) as [d|] eqn:Hd; [|exact H].
  destruct (d_stage d) eqn:Hst; try exact H.
  assert (Hby : isck s r = true -> d_polled d = Some ByReq /\ r < List.length (woken s)).
  { intros Hi. destruct (isck_get _ _ Hi) as [ck Hr]. destruct H as [HI _]. split; [exact (i_dial _ _ _ _ HI r d ck Hd Hr Hst)|].
    pose proof (i_wok _ _ _ _ HI). pose proof (get_req_lt _ _ _ Hr). lia. }
  destruct (d_polled d) as [[|tid]|] eqn:Hp; cbn [wake_poller].
  - change (GG x pre P (upd_dial r (fun d => d_set_polled None (d_set_stage (DResolved y) d)) (wake_req r s))).
    apply G_upd_dial; [|apply G_wake_req; exact H].
    intros d0 _. split; [intros ck _; discriminate|]. intros _ Hi _. right. apply wok_wake_same. apply Hby. exact Hi.
  - apply G_wake_task. apply G_upd_dial; [|exact H].
    intros d0 _. split; [intros ck _; discriminate|]. intros _ Hi _. destruct (Hby Hi) as [E _]. discriminate.
  - apply G_upd_dial; [|exact H].
    intros d0 _. split; [intros ck _; discriminate|]. intros _ Hi _. destruct (Hby Hi) as [E _]. discriminate.
Qed.

Lemma G_task_nock x pre P s tid rid t own : GG x pre P s -> nth tid (tasks s) None = Some (TDelayed rid t own) -> isck s rid = false.
Proof. intros [HI _] Hn. apply nck_isck. exact (i_task _ _ _ _ HI _ _ _ _ Hn). Qed.

Lemma G_run_task x pre P cfg tid s : GG x pre P s -> GG x pre P (run_task cfg tid s).
Proof.
  intros H. unfold run_task. destruct (nth tid (tasks s) None) as [[c t|rid t own]|] eqn:Ht; [| |exact H].
  - destruct (get_conn s c) as [cn|]; [|apply G_finish_task; exact H].
    assert (Hfin : forall s0, GG x pre P s0 ->
              GG x pre P (if is_open (finish_task tid s0) c && negb (t =? 0) && g_pool cfg
                   then pool_push (g_max_idle cfg) t c (finish_task tid s0) else drop_conn c (finish_task tid s0))).
    { intros s0 H0. destruct (is_open (finish_task tid s0) c && negb (t =? 0) && g_pool cfg).
      - apply G_pool_push. apply G_finish_task. exact H0.
      - apply G_drop_conn. apply G_finish_task. exact H0. }
    destruct (negb (c_open cn)); [apply Hfin; apply G_emit_triv; [reflexivity|exact H]|].
    destruct (c_share cn || c_ready cn); [apply Hfin; apply G_emit_triv; [reflexivity|exact H]|].
    apply G_upd_conn. exact H.
  - pose proof (G_task_nock _ _ _ _ _ _ _ _ H Ht) as Hk.
    pose proof (G_connector_poll x pre P rid (ByTask tid) s (or_intror Hk) H) as H1.
    destruct (connector_poll rid (ByTask tid) s) as [r s1]. cbn [snd] in H1.
    destruct r as [|[c|e]]; [exact H1| |].
    + pose proof (G_register x pre P cfg t c s1 H1) as H2.
      destruct (register cfg t c s1) as [p s2]. cbn [snd] in H2.
      apply G_pooled_drop. apply G_finish_task.
      destruct (g_pool cfg && negb (t =? 0) && own); [apply G_pool_cancel|]; exact H2.
    + apply G_finish_task. destruct (g_pool cfg && negb (t =? 0) && own); [apply G_pool_cancel|]; exact H1.
Qed.

Lemma G_bg_loop x pre P cfg fuel : forall s, GG x pre P s -> GG x pre P (bg_loop cfg fuel s).
Proof.
  induction fuel as [|f IH]; intros s H; cbn [bg_loop]; [exact H|].
  destruct (runq s) as [|tid rest]; [exact H|]. apply IH. apply G_run_task. apply G_set_runq. exact H.
Qed.

(* ---------------------------------------------------------------- events about the polled request *)
Lemma nth_gp (P : list gp) r : r < List.length P -> nth_error P r = Some (gone P r, pend P r, live P r).
Proof.
  intros H. unfold gone, pend, live. destruct (nth_error P r) as [[[g p] l]|] eqn:E; [reflexivity|].
  apply nth_error_None in E. lia.
Qed.

Lemma Inv_P_x r pre P f s : Inv (Some r) pre P s -> Inv (Some r) pre (upd_nth r f P) s.
Proof.
  apply Inv_P.
  - apply upd_nth_length.
  - intros r' Hne. rewrite gone_upd. destruct (Nat.eqb_spec r r'); [congruence|auto].
  - intros r' Hne. rewrite pend_upd. destruct (Nat.eqb_spec r r'); [congruence|auto].
  - intros r' Hne. rewrite live_upd. destruct (Nat.eqb_spec r r'); [congruence|auto].
Qed.

Lemma G_emit_pend pre P r p l s :
  nth_error P r = Some (false, p, l) -> GG (Some r) pre P s -> GG (Some r) pre (upd_nth r (fun q => (fst (fst q), true, snd q)) P) (emit (EPend r) s).
Proof.
  intros Hn [H1 H2]. split.
  - apply Inv_P_x. revert H1. apply Inv_frame; auto.
  - cbn. eapply TT_emit_pend; eauto.
Qed.

Lemma G_emit_res pre P r p l res s :
  nth_error P r = Some (false, p, l) -> (p = true -> mem r wb = true) ->
  GG (Some r) pre P s -> GG (Some r) pre (upd_nth r (fun _ => (true, false, false)) P) (emit (ERes r res) s).
Proof.
  intros Hn Hw [H1 H2]. split.
  - apply Inv_P_x. revert H1. apply Inv_frame; auto.
  - cbn. eapply TT_emit_res; eauto.
Qed.

Lemma G_emit_hand pre P r p l c a b d h s :
  nth_error P r = Some (false, p, l) -> (p = true -> mem r wb = true) ->
  GG (Some r) pre P s -> GG (Some r) pre (upd_nth r (fun q => (false, snd (fst q), false)) P) (emit (EHand r c a b d h) s).
Proof.
  intros Hn Hw [H1 H2]. split.
  - apply Inv_P_x. revert H1. apply Inv_frame; auto.
  - cbn. eapply TT_emit_hand; eauto.
Qed.

Lemma G_open r pre P s : GG None pre P s -> GG (Some r) pre P s.
Proof. intros [H1 H2]. split; [apply Inv_open; exact H1|exact H2]. Qed.

Lemma G_close r pre P s :
  (forall rq, get_req s r = Some rq -> (gone P r = true -> is_fin rq = true) /\ (pend P r = true -> Wreq s r rq)
                                       /\ (live P r = true -> is_lv rq = true)) ->
  GG (Some r) pre P s -> GG None pre P s.
Proof. intros Hr [H1 H2]. split; [eapply Inv_close; eauto|exact H2]. Qed.

Lemma G_unwake_x pre P r s : GG (Some r) pre P s -> GG (Some r) pre P (unwake_req r s).
Proof. apply G_inv; [reflexivity|]. apply Inv_unwake_x. Qed.

(* what the invariant says about a live request at the start of its poll *)
Lemma G_start pre P r rq s :
  GG None pre P s -> get_req s r = Some rq -> is_fin rq = false ->
  nth_error P r = Some (false, pend P r, live P r) /\ (pend P r = true -> Wreq s r rq) /\ (live P r = true -> is_lv rq = true).
Proof.
  intros [HI _] Hr Hf. split; [|split; [|apply (i_live _ _ _ _ HI r rq Hr); discriminate]].
  - rewrite nth_gp by (pose proof (i_len _ _ _ _ HI); pose proof (get_req_lt _ _ _ Hr); lia).
    destruct (gone P r) eqn:Hg; [|reflexivity].
    pose proof (i_gone _ _ _ _ HI r rq Hr (fun E => match E with end) Hg). congruence.
  - apply (i_wake _ _ _ _ HI r rq Hr). discriminate.
Qed.

Lemma gone_set r f P q : nth_error P r = Some q -> gone (upd_nth r f P) r = fst (fst (f q)).
Proof. intros H. rewrite gone_upd, Nat.eqb_refl, H. reflexivity. Qed.
Lemma pend_set r f P q : nth_error P r = Some q -> pend (upd_nth r f P) r = snd (fst (f q)).
Proof. intros H. rewrite pend_upd, Nat.eqb_refl, H. reflexivity. Qed.
Lemma live_set r f P q : nth_error P r = Some q -> live (upd_nth r f P) r = snd (f q).
Proof. intros H. rewrite live_upd, Nat.eqb_refl, H. reflexivity. Qed.
Lemma nth_set {A} r (f : A -> A) P q : nth_error P r = Some q -> nth_error (upd_nth r f P) r = Some (f q).
Proof. intros H. rewrite nth_error_upd_nth, Nat.eqb_refl, H. reflexivity. Qed.

Lemma get_req_set_same r v s rq0 : get_req s r = Some rq0 -> get_req (set_req r v s) r = Some v.
Proof. intros H. rewrite get_req_set_req, Nat.eqb_refl, H. reflexivity. Qed.
Lemma isck_set_nock r v s : is_ck v = false -> isck (set_req r v s) r = false.
Proof. intros H. unfold isck. rewrite get_req_set_req, Nat.eqb_refl. destruct (get_req s r); [exact H|reflexivity]. Qed.

Lemma G_do_poll_error pre P r s :
  (forall r', mem r' wb = wok s r') -> get_req s r = Some RError ->
  GG None pre P s -> exists P', GG None pre P' (set_req r RDone (emit (ERes r (RErr EUri)) (unwake_req r s))).
Proof.
  intros Hwb Hr H. destruct (G_start pre P r _ s H Hr eq_refl) as [Hn [Hw _]].
  assert (Hp : pend P r = false) by (destruct (pend P r); [destruct (Hw eq_refl)|reflexivity]).
  eexists. eapply (G_close r).
  2: { apply G_set_req_x; [discriminate|]. eapply G_emit_res; [exact Hn|rewrite Hp; discriminate|]. apply G_unwake_x. apply G_open. exact H. }
  intros rq Hq. erewrite get_req_set_same in Hq by exact Hr. inversion Hq; subst rq. split; [reflexivity|].
  split; [rewrite (pend_set _ _ _ _ Hn)|rewrite (live_set _ _ _ _ Hn)]; discriminate.
Qed.

Lemma G_do_poll_holding pre P r p fin pl s :
  (forall r', mem r' wb = wok s r') -> get_req s r = Some (RHolding p fin pl) ->
  GG None pre P s ->
  exists P', GG None pre P' (if fin then emit (ERes r ROk) (hold_release r p (set_req r RDone (unwake_req r s)))
                            else emit (EPend r) (set_req r (RHolding p fin true) (unwake_req r s))).
Proof.
  intros Hwb Hr H. destruct (G_start pre P r _ s H Hr eq_refl) as [Hn [Hw Hv]].
  assert (Hl : live P r = false) by (destruct (live P r); [discriminate (Hv eq_refl)|reflexivity]).
  pose proof (G_unwake_x pre P r s (G_open r pre P s H)) as H1.
  assert (Hr1 : get_req (unwake_req r s) r = Some (RHolding p fin pl)) by exact Hr.
  destruct fin.
  - eexists. eapply (G_close r).
    2: { eapply G_emit_res; [exact Hn| |].
         - intros Hp. rewrite Hwb. rewrite Hp in Hw. destruct (Hw eq_refl) as [_ W2]. apply W2. reflexivity.
         - apply G_hold_release. apply G_set_req_x; [discriminate|exact H1]. }
    intros rq Hq. split; [|split; [rewrite (pend_set _ _ _ _ Hn)|rewrite (live_set _ _ _ _ Hn)]; discriminate]. intros _.
    change (get_req (hold_release r p (set_req r RDone (unwake_req r s))) r = Some rq) in Hq.
    unfold hold_release, get_req in Hq. rewrite reqs_pooled_drop in Hq.
    change (get_req (set_req r RDone (unwake_req r s)) r = Some rq) in Hq.
    erewrite get_req_set_same in Hq by exact Hr1. inversion Hq. reflexivity.
  - eexists. eapply (G_close r).
    2: { eapply G_emit_pend; [exact Hn|]. apply G_set_req_x; [discriminate|exact H1]. }
    intros rq Hq. change (get_req (set_req r (RHolding p false true) (unwake_req r s)) r = Some rq) in Hq.
    erewrite get_req_set_same in Hq by exact Hr1. inversion Hq; subst rq.
    split; [rewrite (gone_set _ _ _ _ Hn); discriminate|]. split; [intros _; split; [reflexivity|discriminate]|].
    rewrite (live_set _ _ _ _ Hn). cbn [snd]. rewrite Hl. discriminate.
Qed.

Lemma G_do_poll_ck pre P cfg r ck s :
  (forall r', mem r' wb = wok s r') -> get_req s r = Some (RCheckout ck) ->
  GG None pre P s -> exists P', GG None pre P' (do_poll cfg r s).
Proof.
  intros Hwb Hr H. destruct (G_start pre P r _ s H Hr eq_refl) as [Hn [Hw _]].
  pose proof (G_unwake_x pre P r s (G_open r pre P s H)) as H1.
  assert (Hk1 : isck (unwake_req r s) r = true) by (unfold isck; change (get_req (unwake_req r s) r) with (get_req s r); rewrite Hr; reflexivity).
  unfold do_poll. rewrite Hr.
  pose proof (G_checkout_poll pre P cfg r ck (unwake_req r s) Hk1 H1) as [H2 Hk2].
  pose proof (checkout_poll_ready cfg r ck (unwake_req r s)) as Hrdy.
  pose proof (checkout_poll_pending cfg r ck (unwake_req r s)) as Hpnd.
  destruct (checkout_poll cfg r ck (unwake_req r s)) as [[res ck1] s2]. cbn [fst snd] in *.
  destruct (isck_get _ _ Hk2) as [ck2 Hr2].
  assert (Hprog : forall y, res = KReady y -> pend P r = true -> mem r wb = true).
  { intros y Hy Hp. rewrite Hwb. destruct (Hw Hp) as [_ W2]. apply W2. exact (Hrdy y Hy). }
  destruct res as [|[p|e]].
  - (* Pending *)
    destruct (Hpnd eq_refl) as [Q1 Q2].
    eexists. eapply (G_close r).
    2: { eapply G_emit_pend; [exact Hn|]. apply G_set_req_x; [intros _; exact Hk2|exact H2]. }
    intros rq Hq. change (get_req (set_req r (RCheckout ck1) s2) r = Some rq) in Hq.
    erewrite get_req_set_same in Hq by exact Hr2. inversion Hq; subst rq.
    split; [rewrite (gone_set _ _ _ _ Hn); discriminate|]. split; [|reflexivity]. intros _. split; [exact Q2|].
    intros Hp. change (prog s2 r ck1 = true) in Hp. congruence.
  - (* handed a connection *)
    set (c := fst p).
    destruct (match get_conn s2 c with Some cn => (c_share cn, c_open cn, c_ready cn, c_holders cn) | None => (false, false, false, 0) end)
      as [[[sh op_] rd] hs].
    match goal with |- exists P', GG None pre P' (emit (EPend r) (checkout_drop cfg r ck1 ?s3)) => set (s4 := s3) end.
    pose proof (nth_set r (fun q : gp => (false, snd (fst q), false)) P _ Hn) as Hn1. cbn [fst snd] in Hn1.
    assert (H4 : GG (Some r) pre (upd_nth r (fun q : gp => (false, snd (fst q), false)) P) s4).
    { subst s4. apply G_set_req_x; [discriminate|]. apply G_upd_conn. eapply G_emit_hand; [exact Hn|apply (Hprog _ eq_refl)|exact H2]. }
    assert (Hr4 : get_req s4 r = Some (RHolding p false true)) by (subst s4; eapply get_req_set_same; exact Hr2).
    assert (Hk4 : nck s4 r) by (eexists; split; [exact Hr4|reflexivity]).
    eexists. eapply (G_close r).
    2: { eapply G_emit_pend; [exact Hn1|]. apply G_checkout_drop; [exact Hk4|exact H4]. }
    intros rq Hq. change (get_req (checkout_drop cfg r ck1 s4) r = Some rq) in Hq.
    rewrite (nock_checkout_drop cfg r ck1 s4 r _ Hr4 eq_refl) in Hq. inversion Hq; subst rq.
    split; [rewrite (gone_set _ _ _ _ Hn1); discriminate|]. split; [intros _; split; [reflexivity|discriminate]|].
    rewrite (live_set _ _ _ _ Hn1). discriminate.
  - (* an error *)
    assert (Hr3 : get_req (set_req r RDone s2) r = Some RDone) by (eapply get_req_set_same; exact Hr2).
    eexists. eapply (G_close r).
    2: { eapply G_emit_res; [exact Hn|apply (Hprog _ eq_refl)|]. apply G_checkout_drop; [eexists; split; [exact Hr3|reflexivity]|].
         apply G_set_req_x; [discriminate|exact H2]. }
    intros rq Hq. change (get_req (checkout_drop cfg r ck1 (set_req r RDone s2)) r = Some rq) in Hq.
    rewrite (nock_checkout_drop cfg r ck1 _ r _ Hr3 eq_refl) in Hq. inversion Hq; subst rq.
    split; [reflexivity|]. split; [rewrite (pend_set _ _ _ _ Hn)|rewrite (live_set _ _ _ _ Hn)]; discriminate.
Qed.

Lemma G_do_poll pre P cfg r s :
  (forall r', mem r' wb = wok s r') -> GG None pre P s -> exists P', GG None pre P' (do_poll cfg r s).
Proof.
  intros Hwb H. destruct (get_req s r) as [[|ck|p fin pl| |]|] eqn:Hr.
  - unfold do_poll. rewrite Hr. eapply G_do_poll_error; eauto.
  - eapply G_do_poll_ck; eauto.
  - unfold do_poll. rewrite Hr. eapply G_do_poll_holding; eauto.
  - exists P. unfold do_poll. rewrite Hr. exact H.
  - exists P. unfold do_poll. rewrite Hr. exact H.
  - exists P. unfold do_poll. rewrite Hr. exact H.
Qed.

(* ---------------------------------------------------------------- Cancel: the tracker already knows *)
Lemma G_do_cancel pre P cfg r s : live P r = false -> GG (Some r) pre P s -> GG None pre P (do_cancel cfg r s).
Proof.
  intros Hlv H. assert (Hl3 : live P r = true -> forall b : bool, b = true) by (intros E; congruence). unfold do_cancel. destruct (get_req s r) as [[|ck|p fin pl| |]|] eqn:Hr.
  - eapply (G_close r); [|apply G_unwake_x; apply G_set_req_x; [discriminate|exact H]].
    intros rq Hq. change (get_req (set_req r RCancelled s) r = Some rq) in Hq. erewrite get_req_set_same in Hq by exact Hr.
    inversion Hq; subst rq. split; [reflexivity|split; [intros _; exact I|intros E; apply Hl3; exact E]].
  - assert (Hr1 : get_req (set_req r RCancelled s) r = Some RCancelled) by (eapply get_req_set_same; exact Hr).
    eapply (G_close r).
    2: { apply G_unwake_x. apply G_checkout_drop; [eexists; split; [exact Hr1|reflexivity]|]. apply G_set_req_x; [discriminate|exact H]. }
    intros rq Hq. change (get_req (checkout_drop cfg r ck (set_req r RCancelled s)) r = Some rq) in Hq.
    rewrite (nock_checkout_drop cfg r ck _ r _ Hr1 eq_refl) in Hq. inversion Hq; subst rq. split; [reflexivity|split; [intros _; exact I|intros E; apply Hl3; exact E]].
  - assert (Hr1 : get_req (set_req r RCancelled s) r = Some RCancelled) by (eapply get_req_set_same; exact Hr).
    eapply (G_close r).
    2: { apply G_unwake_x. apply G_hold_release. apply G_set_req_x; [discriminate|exact H]. }
    intros rq Hq. change (get_req (hold_release r p (set_req r RCancelled s)) r = Some rq) in Hq.
    unfold hold_release, get_req in Hq. rewrite reqs_pooled_drop in Hq.
    change (get_req (set_req r RCancelled s) r = Some rq) in Hq. rewrite Hr1 in Hq. inversion Hq; subst rq. split; [reflexivity|split; [intros _; exact I|intros E; apply Hl3; exact E]].
  - eapply (G_close r); [|apply G_unwake_x; exact H].
    intros rq Hq. change (get_req s r = Some rq) in Hq. rewrite Hr in Hq. inversion Hq; subst rq. split; [reflexivity|split; [intros _; exact I|intros E; apply Hl3; exact E]].
  - eapply (G_close r); [|apply G_unwake_x; exact H].
    intros rq Hq. change (get_req s r = Some rq) in Hq. rewrite Hr in Hq. inversion Hq; subst rq. split; [reflexivity|split; [intros _; exact I|intros E; apply Hl3; exact E]].
  - eapply (G_close r); [|exact H]. intros rq Hq. congruence.
Qed.

(* ---------------------------------------------------------------- Issue: the tracker already has the new entry *)
Lemma G_add (P : list gp) s d rq :
  @nth_error gp P (List.length (reqs s)) = Some (false, false, true) -> d_stage d <> DInFlight -> is_lv rq = true ->
  GG None 1 P s -> GG None 0 P (set_dials (dials s ++ [d]) (set_reqs (reqs s ++ [rq]) s)).
Proof.
  intros Hn Hd Hlv [[A1 A2 A3 A4 A5 A6 A7 A8] HT]. split; [|exact HT].
  set (s' := set_dials (dials s ++ [d]) (set_reqs (reqs s ++ [rq]) s)).
  assert (Hg : forall r x, get_req s' r = Some x -> get_req s r = Some x \/ (r = List.length (reqs s) /\ x = rq)).
  { intros r x Hx. unfold get_req in *. cbn [s' reqs set_dials set_reqs] in Hx. apply nth_error_app_inv in Hx. exact Hx. }
  assert (Hgd : forall r x, get_dial s' r = Some x -> get_dial s r = Some x \/ (r = List.length (reqs s) /\ x = d)).
  { intros r x Hx. unfold get_dial in *. cbn [s' dials set_dials set_reqs] in Hx. apply nth_error_app_inv in Hx. rewrite A7 in Hx. exact Hx. }
  assert (Hnew : forall r x, r = List.length (reqs s) -> get_req s r = Some x -> False).
  { intros r x -> Hx. apply get_req_lt in Hx. lia. }
  assert (Hnewd : forall r x, r = List.length (reqs s) -> get_dial s r = Some x -> False).
  { intros r x -> Hx. unfold get_dial in Hx. assert (nth_error (dials s) (List.length (reqs s)) <> None) by congruence.
    apply nth_error_Some in H. lia. }
  constructor.
  - cbn [s' reqs set_dials set_reqs]. rewrite app_length. cbn. lia.
  - cbn [s' reqs woken set_dials set_reqs]. rewrite app_length. cbn. lia.
  - intros r x Hx _ Hgn. destruct (Hg r x Hx) as [Hy|[-> ->]]; [apply (A3 r x Hy); [discriminate|exact Hgn]|].
    unfold gone in Hgn. rewrite Hn in Hgn. discriminate.
  - intros r x Hx _ Hp. destruct (Hg r x Hx) as [Hy|[-> ->]].
    + pose proof (A4 r x Hy (fun E => match E with end) Hp) as HW. revert HW. apply Wreq_mono; [|auto].
      unfold resolved. destruct (get_dial s' r) as [d'|] eqn:Hd'; [|discriminate].
      destruct (Hgd r d' Hd') as [Hz|[Hz _]]; [rewrite Hz; auto|]. exfalso. exact (Hnew r x Hz Hy).
    + unfold pend in Hp. rewrite Hn in Hp. discriminate.
  - intros r d' ck Hd' Hr Hst. destruct (Hg r _ Hr) as [Hy|[Hy _]]; destruct (Hgd r d' Hd') as [Hz|[Hz Hz2]].
    + eapply A5; eauto.
    + exfalso. exact (Hnew r _ Hz Hy).
    + exfalso. exact (Hnewd _ _ Hy Hz).
    + subst d'. contradiction.
  - intros tid rid t own Hnt. destruct (A6 tid rid t own Hnt) as [x [Hx Hk]]. exists x. split; [|exact Hk].
    unfold get_req in *. cbn [s' reqs set_dials set_reqs]. apply nth_error_app_some. exact Hx.
  - cbn [s' reqs dials set_dials set_reqs]. rewrite !app_length. cbn. lia.
  - intros r x Hx _ Hv. destruct (Hg r x Hx) as [Hy|[-> ->]]; [apply (A8 r x Hy); [discriminate|exact Hv]|exact Hlv].
Qed.

Lemma G_last (P : list gp) s :
  @nth_error gp P (List.length P - 1) = Some (false, false, true) -> GG None 1 P s -> @nth_error gp P (List.length (reqs s)) = Some (false, false, true).
Proof. intros Hn [HI _]. pose proof (i_len _ _ _ _ HI) as Hl. replace (List.length (reqs s)) with (List.length P - 1) by lia. exact Hn. Qed.

Lemma G_do_issue (P : list gp) cfg u p s :
  @nth_error gp P (List.length P - 1) = Some (false, false, true) ->
  GG None 1 P (set_woken (woken s ++ [false]) s) -> GG None 0 P (do_issue cfg u p s).
Proof.
  intros Hn H0. unfold do_issue. cbv zeta.
  set (s0 := set_woken (woken s ++ [false]) s) in *.
  change (List.length (reqs s)) with (List.length (reqs s0)).
  destruct (nth u (g_uris cfg) None) as [k|].
  2: { apply G_add; [apply G_last; assumption|discriminate|reflexivity|exact H0]. }
  destruct (negb (g_pool cfg)).
  { apply G_add; [apply G_last; assumption|discriminate|reflexivity|exact H0]. }
  pose proof (G_key_insert None 1 P k s0 H0) as H1.
  destruct (key_insert k s0) as [t s1]. cbn [snd] in H1.
  pose proof (G_pool_pop None 1 P (g_timeout cfg) t s1 H1) as H2.
  destruct (pool_pop (g_timeout cfg) t s1) as [found s2]. cbn [snd] in H2.
  destruct found as [c|].
  - apply G_add; [apply G_last; assumption|discriminate|reflexivity|exact H2].
  - match goal with |- context [upd_tok t ?f s2] => assert (H3 : GG None 1 P (upd_tok t f s2)) by (apply G_upd_tok; exact H2) end.
    destruct (match p_marker (get_tok s2 t) with Some _ => true | None => false end).
    + apply G_add; [apply G_last; assumption|discriminate|reflexivity|exact H3].
    + match goal with |- context [if ?own then upd_tok t (set_marker ?mk) ?s3 else ?s3] =>
        assert (H4 : GG None 1 P (if own then upd_tok t (set_marker mk) s3 else s3)) by (destruct own; [apply G_upd_tok|]; exact H3) end.
      apply G_add; [apply G_last; assumption|discriminate|reflexivity|exact H4].
Qed.

End Prims.

(* ---------------------------------------------------------------- one operation *)
Lemma proj_track_op_other cfg m o ob :
  match o with Issue _ _ | Cancel _ => False | _ => True end -> proj (track_op cfg m o ob) = proj m.
Proof.
  intros Ho. destruct o; cbn [track_op] in *; try contradiction; try reflexivity.
  - destruct (holder_conn m r); reflexivity.
  - apply proj_ri_upd_same. intros y. unfold pj. dm; reflexivity.
Qed.

Lemma proj_track_op_issue cfg m u p ob : proj (track_op cfg m (Issue u p) ob) = proj m ++ [(false, false, true)].
Proof. cbn [track_op]. unfold proj. cbn [m_reqs set_m_keys set_m_reqs]. rewrite map_app. reflexivity. Qed.

Lemma proj_ri_upd' f f' r m m' : proj m' = proj m -> (forall x, pj (f x) = f' (pj x)) -> proj (ri_upd f r m') = upd_nth r f' (proj m).
Proof. intros E H. rewrite (proj_ri_upd f f' r m' H). f_equal. exact E. Qed.

Lemma proj_track_op_cancel cfg m r ob :
  proj (track_op cfg m (Cancel r) ob) = proj m \/ proj (track_op cfg m (Cancel r) ob) = upd_nth r (fun _ => (true, false, false)) (proj m).
Proof.
  cbn [track_op]. destruct (nth_error (m_reqs m) r) as [x|]; [|left; reflexivity].
  destruct (ri_stat x); try (left; reflexivity); right;
    (apply proj_ri_upd'; [dm; reflexivity|intros y; unfold pj; dm; reflexivity]).
Qed.

Lemma live_track_op_cancel cfg m r ob : live (proj (track_op cfg m (Cancel r) ob)) r = false.
Proof.
  cbn [track_op]. destruct (nth_error (m_reqs m) r) as [x|] eqn:Hx.
  2: { unfold live, proj. rewrite nth_error_map, Hx. reflexivity. }
  assert (Hn : nth_error (proj m) r = Some (pj x)) by (unfold proj; rewrite nth_error_map, Hx; reflexivity).
  destruct (ri_stat x) eqn:Hs.
  - erewrite proj_ri_upd' with (f' := fun _ => (true, false, false)) (m := m); [|dm; reflexivity|intros y; unfold pj; dm; reflexivity].
    rewrite (live_set _ _ _ _ Hn). reflexivity.
  - erewrite proj_ri_upd' with (f' := fun _ => (true, false, false)) (m := m); [|dm; reflexivity|intros y; unfold pj; dm; reflexivity].
    rewrite (live_set _ _ _ _ Hn). reflexivity.
  - unfold live. rewrite Hn. unfold pj, is_live. rewrite Hs. reflexivity.
  - unfold live. rewrite Hn. unfold pj, is_live. rewrite Hs. reflexivity.
Qed.

Lemma proj_track_offer ob : forall l m, proj (fold_left (track_offer ob) l m) = proj m.
Proof.
  induction l as [|e l IH]; intros m; cbn [fold_left]; [reflexivity|]. rewrite IH.
  destruct e as [r k|c sh r|r c a b d h|r|r x|r c|c|c okb]; try reflexivity. cbn [track_offer]. destruct okb; [|reflexivity].
  destruct (nth_error (m_conns m) c); reflexivity.
Qed.

Lemma proj_track_idle_stamp prev : forall l m, proj (fold_left (track_idle_stamp prev) l m) = proj m.
Proof.
  induction l as [|sn l IH]; intros m; cbn [fold_left]; [reflexivity|]. rewrite IH. unfold track_idle_stamp.
  generalize (sn_idle sn). clear. intros l. revert m. induction l as [|c l IH]; intros m; cbn [fold_left]; [reflexivity|].
  rewrite IH. destruct (mem c (idle_of prev (sn_token sn))); reflexivity.
Qed.

Definition Bd (m : mst) (s : state) : Prop := Inv None 0 (proj m) s /\ o_woken (m_prev m) = trues_from 0 (woken s).

Lemma Inv_issue_start P s : Inv None 0 P s -> Inv None 1 (P ++ [(false, false, true)]) (set_woken (woken s ++ [false]) s).
Proof.
  intros [A1 A2 A3 A4 A5 A6 A7 A8]. constructor; cbn [reqs woken dials tasks set_woken]; auto.
  - rewrite app_length. cbn. lia.
  - rewrite app_length. cbn. lia.
  - intros r rq Hr Hx Hg. apply (A3 r rq Hr Hx). unfold gone in *. rewrite nth_error_app1 in Hg; [exact Hg|].
    apply get_req_lt in Hr. change (reqs (set_woken (woken s ++ [false]) s)) with (reqs s) in Hr. lia.
  - intros r rq Hr Hx Hp.
    assert (Hl : r < List.length P) by (apply get_req_lt in Hr; change (reqs (set_woken (woken s ++ [false]) s)) with (reqs s) in Hr; lia).
    unfold pend in Hp. rewrite nth_error_app1 in Hp by exact Hl.
    pose proof (A4 r rq Hr Hx Hp) as HW. revert HW. apply Wreq_mono; [auto|].
    unfold wok. cbn [woken set_woken]. intros Hw. rewrite app_nth1; [exact Hw|].
    destruct (Nat.lt_ge_cases r (List.length (woken s))); [assumption|]. rewrite nth_overflow in Hw by assumption. discriminate.
  - intros r rq Hr Hx Hv. apply (A8 r rq Hr Hx). unfold live in *. rewrite nth_error_app1 in Hv; [exact Hv|].
    apply get_req_lt in Hr. change (reqs (set_woken (woken s ++ [false]) s)) with (reqs s) in Hr. lia.
Qed.

Lemma Inv_cancel_start cfg m r ob s : Inv None 0 (proj m) s -> Inv (Some r) 0 (proj (track_op cfg m (Cancel r) ob)) s.
Proof.
  intros H. apply Inv_open with (r := r) in H. destruct (proj_track_op_cancel cfg m r ob) as [-> | ->]; [exact H|].
  apply Inv_P_x. exact H.
Qed.

Lemma Inv_set_out x pre P s : Inv x pre P s -> Inv x pre P (set_out [] s).
Proof. apply Inv_frame; auto. Qed.

Lemma G_begin wb m' x pre s : Inv x pre (proj m') s -> G wb m' x pre (proj m') (set_out [] s).
Proof. intros H. split; [apply Inv_set_out; exact H|]. split; reflexivity. Qed.

Lemma step_G cfg m s o ob :
  Bd m s -> exists P', G (o_woken (m_prev m)) (track_op cfg m o ob) None 0 P' (step cfg s o).
Proof.
  intros [HI Hw]. set (wb := o_woken (m_prev m)). set (m' := track_op cfg m o ob).
  destruct o as [u p|r|r|r|r|r y|c|c| |dt]; unfold step.
  - (* Issue *)
    eexists. apply G_do_issue with (P := proj m').
    + subst m'. rewrite proj_track_op_issue, app_length. cbn. replace (List.length (proj m) + 1 - 1) with (List.length (proj m)) by lia.
      apply nth_error_app_last.
    + change (set_woken (woken (set_out [] s) ++ [false]) (set_out [] s)) with (set_out [] (set_woken (woken s ++ [false]) s)).
      apply G_begin. subst m'. rewrite proj_track_op_issue. apply Inv_issue_start. exact HI.
  - (* Poll *)
    apply G_do_poll with (P := proj m').
    + intros r'. subst wb. rewrite Hw. apply mem_trues.
    + apply G_begin. subst m'. rewrite proj_track_op_other by exact I. exact HI.
  - (* Cancel *)
    eexists. apply G_do_cancel; [apply live_track_op_cancel|]. apply G_begin. apply Inv_cancel_start. exact HI.
  - eexists. apply G_do_finish. apply G_begin. subst m'. rewrite proj_track_op_other by exact I. exact HI.
  - eexists. apply G_do_upgrade. apply G_begin. subst m'. rewrite proj_track_op_other by exact I. exact HI.
  - eexists. apply G_do_dial_done. apply G_begin. subst m'. rewrite proj_track_op_other by exact I. exact HI.
  - eexists. apply G_do_conn_ready. apply G_begin. subst m'. rewrite proj_track_op_other by exact I. exact HI.
  - eexists. apply G_do_conn_close. apply G_begin. subst m'. rewrite proj_track_op_other by exact I. exact HI.
  - eexists. unfold do_bg. apply G_bg_loop. apply G_begin. subst m'. rewrite proj_track_op_other by exact I. exact HI.
  - eexists. apply G_set_now. apply G_begin. subst m'. rewrite proj_track_op_other by exact I. exact HI.
Qed.

Lemma Bd_next cfg m o s' P' :
  G (o_woken (m_prev m)) (track_op cfg m o (observe s')) None 0 P' s' ->
  chk_C03 cfg m o (observe s') = true /\ Bd (track cfg m o (observe s')) s'.
Proof.
  intros [HI [B1 B2]]. split.
  - unfold chk_C03. cbn [o_events observe]. exact B1.
  - split; [|reflexivity].
    assert (E : proj (track cfg m o (observe s')) = P').
    { unfold track. cbn [o_events observe].
      match goal with |- proj (set_m_prev _ (set_m_i _ ?X)) = _ => change (proj X = P') end.
      rewrite proj_track_idle_stamp, proj_track_offer. exact B2. }
    rewrite E. exact HI.
Qed.

(* ---------------------------------------------------------------- every history *)
Lemma Bd_init : Bd Spec.m0 init.
Proof.
  split; [|reflexivity]. constructor; cbn; auto.
  - intros [|r] rq Hr; discriminate Hr.
  - intros [|r] rq Hr; discriminate Hr.
  - intros [|r] d ck Hd; discriminate Hd.
  - intros [|tid] rid t own Hn; discriminate Hn.
  - intros [|r] rq Hr; discriminate Hr.
Qed.

Lemma Bd_set_out m s : Bd m s -> Bd m (set_out [] s).
Proof. intros [H1 H2]. split; [apply Inv_set_out; exact H1|exact H2]. Qed.

Theorem mon_C03_trace_from cfg : forall ops s m,
  Bd m s -> mon_steps chk_C03 cfg m ops (trace_from cfg s ops) = true.
Proof.
  induction ops as [|o ops IH]; intros s m H; cbn [trace_from mon_steps]; [reflexivity|].
  destruct (step_G cfg m s o (observe (step cfg s o)) H) as [P' H'].
  destruct (Bd_next cfg m o (step cfg s o) P' H') as [Hc Hn].
  rewrite Hc. cbn [andb]. apply IH. exact Hn.
Qed.

Theorem mon_C03_steps_holds : forall cfg ops, mon_with chk_C03 cfg ops (trace cfg ops) = true.
Proof. intros cfg ops. unfold mon_with, trace. apply mon_C03_trace_from. exact Bd_init. Qed.

(* ---------------------------------------------------------------- the tracker at the end of a history *)
Lemma Bd_final cfg : forall ops s m,
  Bd m s -> Bd (final_mst cfg m ops (trace_from cfg s ops)) (fold_left (step cfg) ops s).
Proof.
  induction ops as [|o ops IH]; intros s m H; cbn [trace_from final_mst fold_left]; [exact H|].
  destruct (step_G cfg m s o (observe (step cfg s o)) H) as [P' H'].
  destruct (Bd_next cfg m o (step cfg s o) P' H') as [_ Hn]. apply IH. exact Hn.
Qed.

(* if no request of the model is still waiting, none is live in the tracker *)
Theorem all_resolved_of_model cfg ops :
  (forall r rq, get_req (run cfg ops) r = Some rq -> is_lv rq = false) ->
  all_resolved (final_mst cfg Spec.m0 ops (trace cfg ops)) = true.
Proof.
  intros Hm. destruct (Bd_final cfg ops init Spec.m0 Bd_init) as [HI _]. fold (run cfg ops) in HI. fold (trace cfg ops) in HI.
  set (m := final_mst cfg Spec.m0 ops (trace cfg ops)) in *.
  unfold all_resolved. apply forallb_forall. intros x Hin. apply In_nth_error in Hin. destruct Hin as [r Hr].
  destruct (is_live x) eqn:Hl; [|reflexivity]. exfalso.
  assert (Hp : nth_error (proj m) r = Some (pj x)) by (unfold proj; rewrite nth_error_map, Hr; reflexivity).
  assert (Hlt : r < List.length (reqs (run cfg ops))).
  { pose proof (i_len _ _ _ _ HI) as E. rewrite Nat.add_0_r in E. rewrite <- E. apply nth_error_Some. congruence. }
  destruct (get_req (run cfg ops) r) as [rq|] eqn:Hq.
  - pose proof (i_live _ _ _ _ HI r rq Hq (fun E => match E with end)) as Hv.
    unfold live in Hv. rewrite Hp in Hv. cbn in Hv. rewrite (Hm r rq Hq) in Hv. specialize (Hv Hl). discriminate.
  - apply nth_error_None in Hq. lia.
Qed.

Print Assumptions mon_C03_steps_holds.
