(* C04, clause S3 at the start of a dial (pool/SpecC04d.v): the model never starts a dial while the
   idle list of the request's origin shows a usable connection - in fact the list is EMPTY:
     - a dial starts only in the poll of the request itself, from stage DNew, with nothing delivered
       to the request (FramesC04d.step_dial; delayed attempts have all been started: R2.z_F);
     - such a request sits in the waiter queue of its token (R2.z_A);
     - idle list and waiter queue of one token are never both non-empty (ProofsC04np.J);
     - the tracker reads the same token off the request's key (R1.q_ck) and keeps the previous
       snapshot (Inv.iv_p). *)
From HD Require Import common.Base http.Model pool.Model pool.Spec pool.SpecC04d pool.Frames pool.ProofsLite.
From HD Require Import pool.FramesC04 pool.ProofsC04a pool.ProofsC04np pool.ProofsC04s2 pool.FramesC04d.
Local Open Scope list_scope.

Section C04D.
Variable cfg : config.

Lemma FD_of_R2 ex m s : R2 cfg ex m s -> FD s.
Proof. intros H tid rid t own E. exact (z_F _ _ _ _ H tid rid t own E). Qed.

Lemma waiting_idle_nil s t w : J s -> In w (p_waiting (get_tok s t)) -> p_idle (get_tok s t) = [].
Proof.
  intros HJ Hi. destruct (get_tok_J s t HJ) as [A|A]; [exact A|]. rewrite A in Hi. destruct Hi.
Qed.

Lemma step_chk_dial m s o : Inv2 cfg m s -> J s -> chk_C04_dial cfg m o (observe (step cfg s o)) = true.
Proof.
  intros HI HJ. unfold chk_C04_dial. apply forallb_forall. intros e He. cbn [o_events observe] in He. apply in_rev in He.
  destruct e as [r k| | | | | | |]; try reflexivity. cbn [chk_ev_C04_dial].
  destruct HI as [HA HR _].
  destruct (step_dial cfg s o r k (FD_of_R2 _ _ _ HR) He) as (Eo & ck & d & Hq & Hd & Hs & Hw). subst o.
  cbn [track_op].
  assert (L : r < List.length (m_reqs m)).
  { rewrite (iv_l _ _ _ HA). unfold get_req in Hq. eapply nth_lt; eauto. }
  destruct (nth_ex _ _ L) as [x Hx]. rewrite Hx.
  destruct (g_pool cfg) eqn:Hp; [|reflexivity]. cbn [negb orb].
  destruct (z_A _ _ _ _ HR Hp r ck d Hq Hd Hs) as (Wi & Wq). destruct (Wq (Hw Wi)) as (_ & Hin).
  destruct (q_ck _ _ _ (iv_r _ _ _ HA) r ck Hq) as (Tk & _). destruct (Tk Hp) as (_ & Et).
  assert (Ek : key_tok m (ri_key x) = k_token ck).
  { rewrite <- Et, <- rtk_tv. unfold rtk, req_key. rewrite Hx. reflexivity. }
  rewrite Ek, (iv_p _ _ _ HA), idle_of_snapshot, (waiting_idle_nil s (k_token ck) _ HJ Hin). reflexivity.
Qed.

Theorem mon_dial_trace_from : forall ops s m, Inv2 cfg m s -> J s -> mon_steps chk_C04_dial cfg m ops (trace_from cfg s ops) = true.
Proof.
  induction ops as [|o ops IH]; intros s m HI HJ; cbn [trace_from mon_steps]; [reflexivity|].
  rewrite (step_chk_dial m s o HI HJ), (IH _ _ (Inv2_next cfg m s o HI) (J_step cfg s o HJ)). reflexivity.
Qed.

End C04D.

Theorem mon_C04_dial_holds : forall cfg ops, mon_C04_dial cfg ops (trace cfg ops) = true.
Proof. intros cfg ops. apply (mon_dial_trace_from cfg ops init m0 (Inv2_init cfg) J_init). Qed.
Print Assumptions mon_C04_dial_holds.
