(* C15, retention clause, part 4: the accounting invariant at the operation boundaries, for every history. *)
From HD Require Import common.Base http.Model pool.Model pool.Spec pool.Frames pool.ProofsLite pool.FramesC06 pool.FramesC03 pool.ProofsC03
  pool.LiveC03 pool.LiveC03b pool.LiveC03c pool.FramesC02 pool.AccC15 pool.AccC15b pool.AccC15c.
Local Open Scope list_scope.

(* the part of a tracker that [K] reads, and what an operation's own reading may do to it *)
Record tstep (x : option nat) (m m' : mst) : Prop := mkTs {
  ts_len : List.length (m_conns m') = List.length (m_conns m);
  ts_drop : forall c ci', nth_error (m_conns m') c = Some ci' ->
              exists ci, nth_error (m_conns m) c = Some ci /\ (ci_dropped ci' = false -> ci_dropped ci = false);
  ts_reqs : List.length (m_reqs m) <= List.length (m_reqs m');
  ts_stat : forall r ri c, x <> Some r -> nth_error (m_reqs m) r = Some ri -> ri_stat ri = SHeld c ->
              exists ri', nth_error (m_reqs m') r = Some ri' /\ ri_stat ri' = SHeld c
}.

Lemma tstep_refl x m : tstep x m m.
Proof. constructor; eauto. Qed.
Lemma tstep_trans x a b c : tstep x a b -> tstep x b c -> tstep x a c.
Proof.
  intros [A1 A2 A3 A4] [B1 B2 B3 B4]. constructor; try lia.
  - intros k ci' H. destruct (B2 k ci' H) as [ci1 [G1 G2]]. destruct (A2 k ci1 G1) as [ci [G3 G4]]. eauto.
  - intros r ri k Hx H Hs. destruct (A4 r ri k Hx H Hs) as [ri1 [G1 G2]]. eauto.
Qed.

Lemma tstep_ci_upd x f c m : (forall y, ci_dropped (f y) = false -> ci_dropped y = false) -> tstep x m (ci_upd f c m).
Proof.
  intros Hf. constructor; cbn [ci_upd set_m_conns m_conns m_reqs]; eauto.
  - apply upd_nth_length.
  - intros c' ci' H. apply (ci_upd_dropped f c m c' ci' Hf). exact H.
Qed.
Lemma tstep_ri_upd x f r m : (x = Some r \/ forall y c, ri_stat y = SHeld c -> ri_stat (f y) = SHeld c) -> tstep x m (ri_upd f r m).
Proof.
  intros Hf. constructor; cbn [ri_upd set_m_reqs m_conns m_reqs]; eauto.
  - rewrite upd_nth_length. lia.
  - intros r' ri c Hx H Hs. change (set_m_reqs (upd_nth r f (m_reqs m)) m) with (ri_upd f r m). eapply ri_upd_stat; [|exact H|exact Hs].
    destruct Hf as [->|Hf]; [left; congruence|right; intros y; apply Hf].
Qed.

Lemma K_rebase x F m0 m0' s : out s = [] -> tstep x m0 m0' -> KD [] None x F m0 s -> KD [] None x F m0' s.
Proof.
  intros Ho [T1 T2 T3 T4] [A1 A2 A3 A4 A5 A6 A7 A8].
  assert (E : forall m, tm m s = m) by (intros m; unfold tm; rewrite Ho; reflexivity). rewrite E in *.
  constructor; rewrite ?E; auto; try lia.
  - intros c ci' H Hd. destruct (T2 c ci' H) as [ci [G1 G2]]. apply (A3 c ci G1). auto.
  - intros r c t f p Hr Hx. destruct (A4 r c t f p Hr Hx) as [ri [G1 G2]]. eapply T4; eauto.
  - intros r c E'. discriminate.
Qed.

Lemma K_reset_out x F m0 s : KD [] None x F m0 s -> KD [] None x F (tm m0 s) (set_out [] s).
Proof.
  intros [A1 A2 A3 A4 A5 A6 A7 A8].
  assert (E : tm (tm m0 s) (set_out [] s) = tm m0 s) by reflexivity.
  constructor; rewrite ?E; auto.
Qed.

Definition op_x (o : op) : option nat := match o with Cancel r => Some r | _ => None end.

Lemma tstep_same x m m' : m_conns m' = m_conns m -> m_reqs m' = m_reqs m -> tstep x m m'.
Proof. intros H1 H2. constructor; rewrite ?H1, ?H2; eauto. Qed.

Lemma tstep_track_op cfg m o ob : tstep (op_x o) m (track_op cfg m o ob).
Proof.
  destruct o as [u p|r|r|r|r|r y|c|c| |dt]; cbn [track_op op_x]; try apply tstep_refl.
  - constructor; cbn [m_conns m_reqs set_m_keys set_m_reqs]; eauto.
    + rewrite app_length. lia.
    + intros r ri c _ H Hs. exists ri. split; [apply nth_error_app_some; exact H|exact Hs].
  - destruct (nth_error (m_reqs m) r) as [x|]; [|apply tstep_refl]. destruct (ri_stat x) eqn:Hs; try apply tstep_refl.
    + eapply tstep_trans; [|apply tstep_ri_upd; left; reflexivity].
      destruct (ri_popx x) as [c|]; [|apply tstep_refl]. destruct (nth_error (m_conns m) c) as [y|]; [|apply tstep_refl].
      destruct (ci_share y); [apply tstep_refl|apply tstep_ci_upd; auto].
    + eapply tstep_trans; [|apply tstep_ri_upd; left; reflexivity]. apply tstep_refl.
  - destruct (holder_conn m r); [apply tstep_ci_upd; auto|apply tstep_refl].
  - apply tstep_ri_upd. right. intros y0 c Hs. destruct (ri_dial y0), (ri_resolved y0); exact Hs.
  - apply tstep_ci_upd. auto.
  - apply tstep_same; reflexivity.
Qed.

Lemma tstep_track_offer x ob : forall l m, tstep x m (fold_left (track_offer ob) l m).
Proof.
  induction l as [|e l IH]; intros m; cbn [fold_left]; [apply tstep_refl|]. eapply tstep_trans; [|apply IH].
  destruct e as [r k|c sh r|r c a b d h|r|r y|r c|c|c okb]; try apply tstep_refl. cbn [track_offer]. destruct okb; [|apply tstep_refl].
  destruct (nth_error (m_conns m) c); [apply tstep_ci_upd; auto|apply tstep_refl].
Qed.

Lemma tstep_idle_stamp x prev : forall l m, tstep x m (fold_left (track_idle_stamp prev) l m).
Proof.
  induction l as [|sn l IH]; intros m; cbn [fold_left]; [apply tstep_refl|]. eapply tstep_trans; [|apply IH]. unfold track_idle_stamp.
  generalize (sn_idle sn). intros l0. revert m. induction l0 as [|c l0 IH0]; intros m; cbn [fold_left]; [apply tstep_refl|].
  eapply tstep_trans; [|apply IH0]. destruct (mem c (idle_of prev (sn_token sn))); [apply tstep_refl|apply tstep_ci_upd; auto].
Qed.

(* the tracker after the whole operation, from the tracker after its events *)
Lemma tstep_track_tail cfg m o ob :
  tstep None (fold_left track_ev (o_events ob) (track_op cfg m o ob)) (track cfg m o ob).
Proof.
  unfold track. eapply tstep_trans; [apply tstep_track_offer|]. eapply tstep_trans; [apply tstep_idle_stamp|].
  apply tstep_same; reflexivity.
Qed.

(* ---------------------------------------------------------------- operation boundaries *)
Definition KB (m : mst) (s : state) : Prop := K None [] m (set_out [] s) /\ List.length (reqs s) = List.length (m_reqs m).

Lemma fold_offer_reqs ob : forall l m, m_reqs (fold_left (track_offer ob) l m) = m_reqs m.
Proof.
  induction l as [|e l IH]; intros m; cbn [fold_left]; [reflexivity|]. rewrite IH.
  destruct e as [r k|c sh r|r c a b d h|r|r y|r c|c|c okb]; try reflexivity. cbn [track_offer]. destruct okb; [|reflexivity].
  destruct (nth_error (m_conns m) c); reflexivity.
Qed.
Lemma fold_stamp_reqs prev : forall l m, m_reqs (fold_left (track_idle_stamp prev) l m) = m_reqs m.
Proof.
  induction l as [|sn l IH]; intros m; cbn [fold_left]; [reflexivity|]. rewrite IH. unfold track_idle_stamp.
  generalize (sn_idle sn). intros l0. revert m. induction l0 as [|c l0 IH0]; intros m; cbn [fold_left]; [reflexivity|].
  rewrite IH0. destruct (mem c (idle_of prev (sn_token sn))); reflexivity.
Qed.

Lemma track_reqs_len cfg m o ob :
  List.length (m_reqs (track cfg m o ob)) = match o with Issue _ _ => S (List.length (m_reqs m)) | _ => List.length (m_reqs m) end.
Proof.
  unfold track. cbn [m_reqs set_m_prev set_m_i]. rewrite fold_stamp_reqs, fold_offer_reqs, fold_track_ev_reqs_len.
  destruct o as [u p|r|r|r|r|r y|c|c| |dt]; cbn [track_op]; try reflexivity.
  - cbn. rewrite app_length. cbn. lia.
  - destruct (nth_error (m_reqs m) r) as [x|]; [|reflexivity]. destruct (ri_stat x); try reflexivity; cbn [ri_upd set_m_reqs m_reqs]; rewrite upd_nth_length;
      repeat match goal with |- context [match ?a with _ => _ end] => destruct a end; reflexivity.
  - destruct (holder_conn m r); reflexivity.
  - cbn. apply upd_nth_length.
Qed.

Lemma KB_step cfg m s o : KB m s -> TL s -> KB (track cfg m o (observe (step cfg s o))) (step cfg s o).
Proof.
  intros [H Hl] HTL. set (s' := step cfg s o). set (ob := observe s'). set (m1 := track_op cfg m o ob). set (s0 := set_out [] s).
  assert (Hop : K None [] m1 s').
  { subst s'. unfold step. fold s0.
    assert (Hreb : op_x o = None -> K None [] m1 s0).
    { intros E. apply (K_rebase None [] m m1 s0 eq_refl); [|exact H]. rewrite <- E. apply tstep_track_op. }
    destruct o as [u p|r|r|r|r|r y|c|c| |dt].
    - apply K_do_issue; [exact (Hreb eq_refl)|exact HTL|]. subst m1. cbn [track_op m_reqs set_m_keys set_m_reqs]. rewrite app_length. cbn.
      change (reqs s0) with (reqs s). lia.
    - apply K_do_poll. exact (Hreb eq_refl).
    - destruct (get_req s0 r) as [q|] eqn:Hq.
      + apply (K_do_cancel cfg r q m1 s0 Hq).
        * apply (proj1 (kt _ _ _ _ _ _ H) r q Hq). discriminate.
        * apply (K_rebase (Some r) _ m m1 s0 eq_refl (tstep_track_op cfg m (Cancel r) ob)). apply K_open; assumption.
      + unfold do_cancel. rewrite Hq. subst m1. cbn [track_op].
        assert (E : nth_error (m_reqs m) r = None).
        { apply nth_error_None. rewrite <- Hl. apply nth_error_None. exact Hq. }
        rewrite E. exact H.
    - apply K_do_finish. exact (Hreb eq_refl).
    - apply K_do_upgrade. exact (Hreb eq_refl).
    - apply K_do_dial_done. exact (Hreb eq_refl).
    - apply K_do_conn_ready. exact (Hreb eq_refl).
    - apply K_do_conn_close. exact (Hreb eq_refl).
    - unfold do_bg. apply K_bg_loop. exact (Hreb eq_refl).
    - generalize (Hreb eq_refl). apply K_frame; reflexivity. }
  split.
  - apply K_reset_out in Hop. apply (K_rebase None [] (tm m1 s') _ (set_out [] s') eq_refl); [|exact Hop].
    apply (tstep_track_tail cfg m o ob).
  - rewrite track_reqs_len. subst s'. rewrite len_step. destruct o; lia.
Qed.

Lemma KB_init : KB Spec.m0 init.
Proof.
  split; [|reflexivity]. constructor; cbn; auto.
  - intros c. unfold refs, get_conn. cbn. destruct c; reflexivity.
  - intros [|c] ci H; discriminate H.
  - intros [|r] c t f p H; discriminate H.
  - intros t. assert (E : waitingl (set_out [] init) t = []) by (unfold waitingl; destruct t as [|[|i]]; reflexivity).
    rewrite E. split; [constructor|intros w b []].
  - split; [intros [|r] q H; discriminate H|intros [|tid]; exact Logic.I].
  - intros r c E. discriminate.
Qed.

Lemma KB_final_from cfg : forall ops s m,
  Reach cfg s -> KB m s -> KB (final_mst cfg m ops (trace_from cfg s ops)) (fold_left (step cfg) ops s).
Proof.
  induction ops as [|o ops IH]; intros s m HR HK; cbn [trace_from final_mst fold_left]; [exact HK|].
  apply IH; [apply Reach_step; exact HR|]. apply KB_step; [exact HK|apply HR].
Qed.

Theorem KB_final cfg ops : KB (final_mst cfg Spec.m0 ops (trace cfg ops)) (run cfg ops).
Proof. apply KB_final_from; [apply Reach_init|apply KB_init]. Qed.
