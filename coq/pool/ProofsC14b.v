(* C14, clauses (a1), (b), (b') (the full theorem mon_C14_holds is in pool/ProofsC14.v).
   The monitor is split into one monitor per clause (pool/BaseC14.v):
     (a1) chk_A1  - a released open connection is not parked while a request waits for its origin
                    (model invariant TD, pool/TokC14.v);
     (a2) chk_A2  - a request that was offered a connection takes it at its next poll;
     (b)  chk_B   - the connection of an abandoned attempt ends up available in the pool
                    (pool/OblC14.v, pool/BTrkC14.v);
     (b') chk_bg_C14 - an abandoned, resolved dial completes at the next run of the background tasks
                    (pool/DialC14.v, pool/BgC14.v, pool/BTrkC14.v). *)
From HD Require Import common.Base http.Model pool.Model pool.Spec pool.BaseC14 pool.TokC14 pool.DialC14 pool.BgC14
  pool.OblC14 pool.BTrkC14.
Local Open Scope list_scope.

Lemma Bnd3_init cfg : Bnd3 cfg m0 init.
Proof.
  split; [|split; [apply MD_init|split; [apply TD_init|reflexivity]]].
  constructor; try reflexivity.
  - intros r q H. destruct r; discriminate.
  - intros _ r q d H. destruct r; discriminate.
  - intros tid r t own H. destruct tid; discriminate.
  - intros r ck H. destruct r; discriminate.
Qed.

Theorem mon_C14_a1_holds : forall cfg ops, mon_with chk_A1 cfg ops (trace cfg ops) = true.
Proof.
  intros cfg ops. unfold mon_with, trace. apply (mon_skeleton (Bnd3 cfg) chk_A1 cfg); [|apply Bnd3_init].
  intros m s o H. split; [apply step_A1; exact H|apply step_Bnd3; exact H].
Qed.

Theorem mon_C14_b_holds : forall cfg ops, mon_with chk_B cfg ops (trace cfg ops) = true.
Proof.
  intros cfg ops. unfold mon_with, trace. apply (mon_skeleton (Bnd3 cfg) chk_B cfg); [|apply Bnd3_init].
  intros m s o H. split; [apply step_B; exact H|apply step_Bnd3; exact H].
Qed.

Theorem mon_C14_bg_holds : forall cfg ops, mon_with chk_bg_C14 cfg ops (trace cfg ops) = true.
Proof.
  intros cfg ops. unfold mon_with, trace. apply (mon_skeleton (Bnd3 cfg) chk_bg_C14 cfg); [|apply Bnd3_init].
  intros m s o H. split; [apply step_bg; exact H|apply step_Bnd3; exact H].
Qed.

Print Assumptions mon_C14_a1_holds.
Print Assumptions mon_C14_b_holds.
Print Assumptions mon_C14_bg_holds.
