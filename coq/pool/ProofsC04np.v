(* C04, snapshot clause (no_parked_while_waiting): in every reachable state no token has both a
   non-empty idle list and a non-empty waiter queue - a connection is only parked after the waiter
   walk has emptied the queue, and a checkout only queues up after its pop has emptied the idle
   list.  Hence after every operation no origin has both a live waiting request and a usable parked
   connection.  State invariant [J], same scheme as pool/ProofsC15.v. *)
From HD Require Import common.Base http.Model pool.Model pool.Spec pool.Frames.
Local Open Scope list_scope.

Definition Jp (p : ptok) : Prop := p_idle p = [] \/ p_waiting p = [].
Definition J (s : state) : Prop := Forall Jp (toks s).

Lemma J_frame s s' : toks s' = toks s -> J s -> J s'.
Proof. unfold J. intros ->. auto. Qed.

Lemma Jp_empty : Jp empty_tok. Proof. left. reflexivity. Qed.

Lemma get_tok_J s t : J s -> Jp (get_tok s t).
Proof.
  intros H. destruct t; cbn [get_tok]; [apply Jp_empty|].
  unfold J in H. rewrite Forall_forall in H.
  destruct (nth_in_or_default t (toks s) empty_tok) as [Hin|Hd]; [apply H, Hin | rewrite Hd; apply Jp_empty].
Qed.

Lemma Forall_upd_at {A} (P : A -> Prop) (f : A -> A) (d : A) : forall l i,
  Forall P l -> (P (nth i l d) -> P (f (nth i l d))) -> Forall P (upd_nth i f l).
Proof.
  induction l as [|x l IH]; intros i H Hf; destruct i; cbn [upd_nth nth] in *; auto; inversion H; subst; constructor; auto.
Qed.

(* the token's entry is replaced by [f] of it *)
Lemma J_upd_tok t f s : (Jp (get_tok s t) -> Jp (f (get_tok s t))) -> J s -> J (upd_tok t f s).
Proof.
  intros Hf H. destruct t as [|i]; [exact H|]. unfold J. cbn [upd_tok toks set_toks].
  apply (Forall_upd_at Jp f empty_tok); [exact H|]. exact Hf.
Qed.

Lemma get_tok_frame s s' t : toks s' = toks s -> get_tok s' t = get_tok s t.
Proof. intros E. destruct t; [reflexivity|]. cbn [get_tok]. rewrite E. reflexivity. Qed.

(* the waiter walk returns a suffix of the queue, the empty one unless it moved the connection *)
Lemma walk_rest t c sh : forall ws s,
  (snd (fst (walk_waiters t c sh ws s)) = false -> fst (fst (walk_waiters t c sh ws s)) = []) /\
  (ws = [] -> fst (fst (walk_waiters t c sh ws s)) = []).
Proof.
  induction ws as [|[w b] ws IH]; intros s; cbn [walk_waiters fst snd]; [auto|].
  destruct (rx_live s w); [destruct sh|]; cbn [fst snd].
  - destruct (IH (deliver w (c, 0) (clone_conn c s))) as [A _]. split; [exact A|discriminate].
  - split; discriminate.
  - destruct (IH s) as [A _]. split; [exact A|discriminate].
Qed.

Lemma J_pool_push n t c s : J s -> J (pool_push n t c s).
Proof.
  intros H. unfold pool_push.
  set (s1 := if share_of s c then upd_tok t (set_marker None) s else s).
  assert (H1 : J s1) by (subst s1; destruct (share_of s c); [apply J_upd_tok; [intros [A|A]; [left|right]; exact A|exact H]|exact H]).
  pose proof (toks_walk_waiters t c (share_of s1 c) (p_waiting (get_tok s1 t)) s1) as Tk.
  destruct (walk_rest t c (share_of s1 c) (p_waiting (get_tok s1 t)) s1) as [Wm We].
  destruct (walk_waiters t c (share_of s1 c) (p_waiting (get_tok s1 t)) s1) as [[rest moved] s2]. cbn [fst snd] in *.
  assert (H2 : J s2) by (eapply J_frame; [exact Tk|exact H1]).
  assert (G2 : get_tok s2 t = get_tok s1 t) by (apply get_tok_frame, Tk).
  assert (H3 : J (upd_tok t (set_waiting rest) s2)).
  { apply J_upd_tok; [|exact H2]. rewrite G2. intros [A|A]; [left; exact A|right]. cbn [set_waiting p_waiting]. apply We. exact A. }
  destruct moved; [exact H3|]. specialize (Wm eq_refl). subst rest.
  set (s3 := upd_tok t (set_waiting []) s2) in *.
  destruct (Nat.ltb _ _).
  - apply J_upd_tok; [|exact H3]. intros _. right. cbn [set_idle p_waiting].
    destruct t as [|i]; [reflexivity|]. unfold s3. cbn [get_tok upd_tok toks set_toks].
    clear. generalize (toks s2). revert i. induction i as [|i IH]; intros [|p l]; cbn [upd_nth nth]; auto.
  - eapply J_frame; [apply toks_drop_conn|exact H3].
Qed.

Lemma release_nil s : fst (release_pending [] s) = []. Proof. reflexivity. Qed.

Lemma J_pool_cancel t rid s : J s -> J (pool_cancel t rid s).
Proof.
  intros H. unfold pool_cancel. destruct (p_marker (get_tok s t)) as [o|]; [|exact H]. destruct (Nat.eqb o rid); [|exact H].
  set (s1 := upd_tok t (set_marker None) s).
  assert (H1 : J s1) by (apply J_upd_tok; [intros [A|A]; [left|right]; exact A|exact H]).
  pose proof (toks_release_pending (p_waiting (get_tok s1 t)) s1) as Tk.
  assert (Hr : p_waiting (get_tok s1 t) = [] -> fst (release_pending (p_waiting (get_tok s1 t)) s1) = []) by (intros ->; reflexivity).
  destruct (release_pending (p_waiting (get_tok s1 t)) s1) as [rest s2]. cbn [fst snd] in *.
  apply J_upd_tok; [|eapply J_frame; [exact Tk|exact H1]].
  rewrite (get_tok_frame s1 s2 t Tk). intros [A|A]; [left; exact A|right; cbn [set_waiting p_waiting]; apply Hr, A].
Qed.

Lemma pop_loop_nil thr s : pop_loop thr [] s = (None, [], s). Proof. reflexivity. Qed.
Lemma pop_loop_none_rest thr : forall rl s rest s', pop_loop thr rl s = (None, rest, s') -> rest = [].
Proof.
  induction rl as [|[c a] rl IH]; intros s rest s' H; cbn [pop_loop] in H; [inversion H; reflexivity|].
  destruct (match thr with Some y => (a <? y)%N | None => false end); [inversion H; reflexivity|].
  destruct (is_open s c); [discriminate|]. eapply IH; eauto.
Qed.

Lemma J_pool_pop to t s : J s ->
  J (snd (pool_pop to t s)) /\ (fst (pool_pop to t s) = None -> p_idle (get_tok (snd (pool_pop to t s)) t) = []).
Proof.
  intros H. unfold pool_pop.
  pose proof (toks_pop_loop (expiry_threshold to (now s)) (rev (p_idle (get_tok s t))) s) as Tk.
  pose proof (pop_loop_none_rest (expiry_threshold to (now s)) (rev (p_idle (get_tok s t))) s) as Hn.
  assert (Hnil : p_idle (get_tok s t) = [] -> fst (fst (pop_loop (expiry_threshold to (now s)) (rev (p_idle (get_tok s t))) s)) = None /\
                                              snd (fst (pop_loop (expiry_threshold to (now s)) (rev (p_idle (get_tok s t))) s)) = [])
    by (intros ->; cbn; auto).
  destruct (pop_loop (expiry_threshold to (now s)) (rev (p_idle (get_tok s t))) s) as [[r rest] s1]. cbn [fst snd] in *.
  assert (H1 : J s1) by (eapply J_frame; [exact Tk|exact H]).
  split.
  - apply J_upd_tok; [|exact H1]. rewrite (get_tok_frame s s1 t Tk). intros [A|A]; [left|right; exact A].
    cbn [set_idle p_idle]. destruct (Hnil A) as [_ ->]. reflexivity.
  - intros ->. specialize (Hn rest s1 eq_refl). subst rest. destruct t as [|i]; [reflexivity|].
    cbn [get_tok upd_tok toks set_toks rev]. generalize (toks s1). clear. revert i.
    induction i as [|i IH]; intros [|p l]; cbn [upd_nth nth]; auto.
Qed.

Lemma J_key_insert k s : J s -> J (snd (key_insert k s)).
Proof.
  intros H. unfold key_insert. destruct (find_key k (keys s) 1); cbn [snd]; [exact H|].
  unfold J in *. cbn. apply Forall_app. split; [exact H|]. constructor; [apply Jp_empty|constructor].
Qed.

Lemma J_register cfg t c s : J s -> J (snd (register cfg t c s)).
Proof.
  intros H. unfold register.
  destruct (g_pool cfg && negb (t =? 0)); [destruct (share_of s c)|]; cbn [snd]; auto.
  destruct (is_open s c); [|exact H].
  apply J_pool_push. eapply J_frame; [apply toks_clone_conn|exact H].
Qed.

Lemma J_rx_drop ck s : J s -> J (snd (rx_drop ck s)).
Proof. intros H. eapply J_frame; [apply toks_rx_drop|exact H]. Qed.

Lemma J_connector_poll rid b s : J s -> J (snd (connector_poll rid b s)).
Proof. intros H. eapply J_frame; [apply toks_connector_poll|exact H]. Qed.

Lemma J_checkout_poll cfg rid ck s : J s -> J (snd (checkout_poll cfg rid ck s)).
Proof.
  intros H. unfold checkout_poll.
  destruct (waiter_poll ck) as [w ck1]. destruct w; cbn [snd]; auto.
  destruct (k_inner ck1); cbn [snd]; auto.
  1: { destruct (k_conn ck1) as [c|]; cbn [snd]; auto.
    pose proof (J_rx_drop (k_set_conn None ck1) s H) as H2.
    destruct (rx_drop (k_set_conn None ck1) s) as [ck2 s2]. cbn [snd] in H2.
    pose proof (J_register cfg (k_token ck2) c (set_req rid (RCheckout ck2) s2) H2) as H3.
    destruct (register cfg (k_token ck2) c (set_req rid (RCheckout ck2) s2)) as [p s3]. exact H3. }
  all: pose proof (J_connector_poll rid ByReq s H) as H1;
      destruct (connector_poll rid ByReq s) as [r s1]; cbn [snd] in H1;
      destruct r as [|res]; cbn [snd]; auto;
      pose proof (J_rx_drop ck1 s1 H1) as H2;
      destruct (rx_drop ck1 s1) as [ck2 s2]; cbn [snd] in H2;
      destruct res as [c|e]; cbn [snd]; auto;
      pose proof (J_register cfg (k_token (k_set_inner IConnected ck2)) c (set_req rid (RCheckout (k_set_inner IConnected ck2)) s2) H2) as H3;
      destruct (register cfg (k_token (k_set_inner IConnected ck2)) c (set_req rid (RCheckout (k_set_inner IConnected ck2)) s2)) as [p s3];
      exact H3.
Qed.

Lemma J_checkout_drop cfg rid ck s : J s -> J (checkout_drop cfg rid ck s).
Proof.
  intros H. unfold checkout_drop.
  set (s1 := match k_conn ck with Some c => _ | None => s end).
  assert (H1 : J s1).
  { subst s1. destruct (k_conn ck) as [c|]; [|exact H].
    destruct (_ && _); [apply J_pool_push; exact H|]. eapply J_frame; [apply toks_drop_conn|exact H]. }
  clearbody s1. cbv zeta.
  match goal with |- context [if ?d then spawn ?tk s1 else ?e] => set (s2 := if d then spawn tk s1 else e) end.
  assert (H2 : J s2).
  { subst s2. match goal with |- context [if ?d then _ else _] => destruct d end; [exact H1|].
    destruct (_ && _); [apply J_pool_cancel|]; exact H1. }
  clearbody s2. pose proof (J_rx_drop ck s2 H2) as H3. destruct (rx_drop ck s2) as [ck' s3]. cbn [snd] in H3.
  destruct (k_inner ck); try exact H3. match goal with |- context [if ?d then _ else _] => destruct d end; exact H3.
Qed.

Lemma J_do_issue cfg u p s : J s -> J (do_issue cfg u p s).
Proof.
  intros H. unfold do_issue.
  destruct (nth u (g_uris cfg) None) as [k|]; [|exact H].
  destruct (negb (g_pool cfg)); [exact H|].
  pose proof (J_key_insert k (set_woken (woken s ++ [false]) s) H) as H1.
  destruct (key_insert k (set_woken (woken s ++ [false]) s)) as [t s1]. cbn [snd] in H1.
  destruct (J_pool_pop (g_timeout cfg) t s1 H1) as [H2 Hn].
  destruct (pool_pop (g_timeout cfg) t s1) as [found s2]. cbn [fst snd] in *.
  destruct found; [exact H2|]. specialize (Hn eq_refl).
  set (pend := match p_marker (get_tok s2 t) with Some _ => true | None => false end).
  set (s3 := upd_tok t (fun q => set_waiting (p_waiting q ++ [(List.length (reqs s), pend)]) q) s2).
  assert (H3 : J s3) by (apply J_upd_tok; [intros _; left; cbn [set_waiting p_idle]; exact Hn|exact H2]).
  destruct pend; [exact H3|].
  destruct p; cbn; [exact H3|]. apply J_upd_tok; [intros [A|A]; [left|right]; exact A|exact H3].
Qed.

Lemma J_hold_release r p s : J s -> J (hold_release r p s).
Proof. intros H. unfold hold_release. eapply J_frame; [rewrite toks_pooled_drop; reflexivity|exact H]. Qed.

Lemma J_do_poll cfg r s : J s -> J (do_poll cfg r s).
Proof.
  intros H. unfold do_poll. destruct (get_req s r) as [[|ck|p fin pl| |]|]; try exact H.
  - pose proof (J_checkout_poll cfg r ck (unwake_req r s) H) as H1.
    destruct (checkout_poll cfg r ck (unwake_req r s)) as [[res ck1] s1]. cbn [snd] in H1.
    destruct res as [|[p|e]]; [exact H1| |].
    + destruct (get_conn s1 (fst p)) as [cn|]; apply (J_checkout_drop cfg r ck1); exact H1.
    + apply (J_checkout_drop cfg r ck1); exact H1.
  - destruct fin; [|exact H]. apply (J_hold_release r p (set_req r RDone (unwake_req r s))). exact H.
Qed.

Lemma J_do_cancel cfg r s : J s -> J (do_cancel cfg r s).
Proof.
  intros H. unfold do_cancel. destruct (get_req s r) as [[|ck|p fin pl| |]|]; try exact H.
  - apply (J_checkout_drop cfg r ck (set_req r RCancelled s)); exact H.
  - apply (J_hold_release r p (set_req r RCancelled s)). exact H.
Qed.

Lemma J_run_task cfg tid s : J s -> J (run_task cfg tid s).
Proof.
  intros H. unfold run_task. destruct (nth tid (tasks s) None) as [[c t|rid t own]|]; [| |exact H].
  - destruct (get_conn s c) as [cn|]; [|exact H].
    assert (Hfin : forall s0, J s0 ->
              J (if is_open (finish_task tid s0) c && negb (t =? 0) && g_pool cfg
                 then pool_push (g_max_idle cfg) t c (finish_task tid s0) else drop_conn c (finish_task tid s0))).
    { intros s0 H0. destruct (is_open (finish_task tid s0) c && negb (t =? 0) && g_pool cfg).
      - apply J_pool_push. exact H0.
      - eapply J_frame; [apply toks_drop_conn|exact H0]. }
    destruct (negb (c_open cn)); [apply Hfin; exact H|].
    destruct (c_share cn || c_ready cn); [apply Hfin; exact H|exact H].
  - pose proof (J_connector_poll rid (ByTask tid) s H) as H1.
    destruct (connector_poll rid (ByTask tid) s) as [r s1]. cbn [snd] in H1.
    destruct r as [|[c|e]]; [exact H1| |].
    + pose proof (J_register cfg t c s1 H1) as H2. destruct (register cfg t c s1) as [p s2]. cbn [snd] in H2.
      eapply J_frame; [apply toks_pooled_drop|].
      destruct (g_pool cfg && negb (t =? 0) && own); [apply (J_pool_cancel t rid s2 H2)|exact H2].
    + destruct (g_pool cfg && negb (t =? 0) && own); [apply (J_pool_cancel t rid s1 H1)|exact H1].
Qed.

Lemma J_bg_loop cfg fuel : forall s, J s -> J (bg_loop cfg fuel s).
Proof.
  induction fuel as [|f IH]; intros s H; cbn [bg_loop]; [exact H|].
  destruct (runq s) as [|tid rest]; [exact H|]. apply IH. apply J_run_task. exact H.
Qed.

Lemma J_step cfg s o : J s -> J (step cfg s o).
Proof.
  intros H. unfold step. assert (H0 : J (set_out [] s)) by exact H.
  destruct o.
  - apply J_do_issue; auto.
  - apply J_do_poll; auto.
  - apply J_do_cancel; auto.
  - unfold do_finish. destruct (get_req (set_out [] s) r) as [[|ck|p fin pl| |]|]; try exact H0. destruct pl; exact H0.
  - unfold do_upgrade. destruct (get_req (set_out [] s) r) as [[|ck|p fin pl| |]|]; try exact H0.
    eapply J_frame; [apply toks_drain_conn_waiters|exact H0].
  - unfold do_dial_done. destruct (get_dial (set_out [] s) r) as [d|]; [|exact H0].
    destruct (d_stage d); try exact H0. eapply J_frame; [apply toks_wake_poller|exact H0].
  - unfold do_conn_ready. destruct (get_conn (set_out [] s) c); [|exact H0]. eapply J_frame; [apply toks_drain_conn_waiters|exact H0].
  - unfold do_conn_close. destruct (get_conn (set_out [] s) c); [|exact H0]. eapply J_frame; [apply toks_drain_conn_waiters|exact H0].
  - unfold do_bg. apply J_bg_loop; auto.
  - exact H0.
Qed.

Lemma J_init : J init. Proof. constructor. Qed.

(* the snapshot clause *)
Lemma np_snaps cfg m s : forall l t, Forall Jp l ->
  forallb (fun sn => Nat.eqb (sn_live sn) 0 || forallb (fun c => negb (open_conn m c && usable cfg m c)) (sn_idle sn)) (snaps_from s t l) = true.
Proof.
  induction l as [|p l IH]; intros t H; cbn [snaps_from]; [reflexivity|].
  inversion H as [|? ? Hp Hl]; subst. specialize (IH (S t) Hl).
  set (sn := mkSnap t _ _ _ _).
  assert (Hsn : Nat.eqb (sn_live sn) 0 || forallb (fun c => negb (open_conn m c && usable cfg m c)) (sn_idle sn) = true).
  { unfold sn. cbn [sn_live sn_idle]. destruct Hp as [A|A]; rewrite A; [cbn; apply orb_true_r|reflexivity]. }
  destruct (p_idle p), (p_waiting p), (match p_marker p with Some _ => true | None => false end); cbn [forallb]; rewrite ?Hsn, ?IH; auto.
Qed.

Theorem mon_C04_np_trace_from cfg : forall ops s m, J s ->
  mon_steps (fun cfg m o ob => no_parked_while_waiting cfg (fold_left track_ev (o_events ob) (track_op cfg m o ob)) ob) cfg m ops (trace_from cfg s ops) = true.
Proof.
  induction ops as [|o ops IH]; intros s m H; cbn [trace_from mon_steps]; [reflexivity|].
  assert (H' : J (step cfg s o)) by (apply J_step; exact H).
  rewrite IH by exact H'. rewrite andb_true_r.
  unfold no_parked_while_waiting, observe. cbn [o_snap]. unfold snapshot. apply np_snaps. exact H'.
Qed.
