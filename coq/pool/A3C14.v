(* C14 support, part 10 (clause (a3)): a request whose poll returns Pending while the pool is on is still
   queued under its token, so the idle list of that token is empty (TokC14 [TD], WaitC14 [WQ]); tracker side:
   a request that holds a connection / is done / was cancelled is not "live" for the tracker ([r5_nl]), and
   the tracker's token of a checkout is the model's ([r5_tk]). *)
From HD Require Import common.Base http.Model pool.Model pool.Spec pool.Frames pool.ProofsLite
  pool.BaseC14 pool.FramesC14 pool.TokC14 pool.DialC14 pool.BgC14 pool.OblC14 pool.BTrkC14 pool.ATrkC14 pool.WaitC14.
Local Open Scope list_scope.

(* ------------------------------------------------------------------ the log: no pending-poll events *)
Definition np (e : ev) : Prop := match e with EPend _ => False | _ => True end.
Definition npext (s s' : state) : Prop := exists es, out s' = es ++ out s /\ Forall np es.
Lemma npext_refl s : npext s s. Proof. exists []. split; [reflexivity|constructor]. Qed.
Lemma npext_trans a b c : npext a b -> npext b c -> npext a c.
Proof. intros (e1 & O1 & F1) (e2 & O2 & F2). exists (e2 ++ e1). split; [rewrite O2, O1, app_assoc; reflexivity|apply Forall_app; auto]. Qed.
Lemma npext_same s s' : out s' = out s -> npext s s'. Proof. intros E. exists []. split; [exact E|constructor]. Qed.
Lemma npext_hext s s' : hext s s' -> npext s s'.
Proof. intros (es & Ho & HF). exists es. split; [exact Ho|]. eapply Forall_impl; [|exact HF]. intros e He. destruct e; try contradiction; exact I. Qed.
Lemma npext_pf s s' : pf s s' -> npext s s'. Proof. intros P. apply npext_hext, hext_pf, P. Qed.
Lemma npext_emit e s : np e -> npext s (emit e s).
Proof. intros He. exists [e]. split; [reflexivity|constructor; [exact He|constructor]]. Qed.

(* ------------------------------------------------------------------ the frame *)
Record r5f (x : option nat) (s s' : state) : Prop := mkR5f {
  f5_req : forall r, x <> Some r -> rel_req (get_req s r) (get_req s' r);
  f5_len : List.length (reqs s') = List.length (reqs s);
  f5_out : npext s s'
}.
Lemma r5f_refl x s : r5f x s s.
Proof. constructor; [intros r _; apply rel_req_refl|reflexivity|apply npext_refl]. Qed.
Lemma r5f_trans x a b c : r5f x a b -> r5f x b c -> r5f x a c.
Proof.
  intros [A1 A2 A3] [B1 B2 B3]. constructor; [|congruence|eapply npext_trans; eauto].
  intros r Hx. eapply rel_req_trans; [apply A1|apply B1]; exact Hx.
Qed.
Lemma r5f_mp x s s' : mdf s s' -> pf s s' -> r5f x s s'.
Proof. intros F P. constructor; [intros r _; apply (mf_req _ _ F)|apply (mf_rlen _ _ F)|apply npext_pf; exact P]. Qed.
Lemma r5f_reqs x s s' : reqs s' = reqs s -> npext s s' -> r5f x s s'.
Proof. intros E N. constructor; [|rewrite E; reflexivity|exact N]. intros r _. unfold get_req. rewrite E. apply rel_req_refl. Qed.
Lemma r5f_set_req_x r v s : r5f (Some r) s (set_req r v s).
Proof.
  constructor; [|cbn; apply upd_nth_len|apply npext_same; reflexivity].
  intros r' Hx. rewrite get_req_set_req. destruct (Nat.eqb_spec r r'); [congruence|apply rel_req_refl].
Qed.
Lemma r5f_weaken x s s' : r5f None s s' -> r5f x s s'.
Proof. intros [A1 A2 A3]. constructor; auto. intros r _. apply A1. discriminate. Qed.

Lemma r5f_connector_poll x rid b s : r5f x s (snd (connector_poll rid b s)).
Proof. apply r5f_reqs; [apply connector_poll_reqs|apply npext_hext, hext_hf, hf_connector_poll]. Qed.

Lemma r5f_checkout_poll cfg rid ck s : r5f (Some rid) s (snd (checkout_poll cfg rid ck s)).
Proof.
  unfold checkout_poll. destruct (waiter_poll ck) as [w ck1]. destruct w; cbn [snd]; try apply r5f_refl.
  assert (Hconn : r5f (Some rid) s (snd (let '(r, s0) := connector_poll rid ByReq s in
               match r with
               | CPending => (KPending, ck1, s0)
               | CReady res =>
                   let '(ck0, s1) := rx_drop ck1 s0 in
                   let ck2 := k_set_inner IConnected ck0 in
                   let s2 := set_req rid (RCheckout ck2) s1 in
                   match res with
                   | inl c => let '(p, s3) := register cfg (k_token ck2) c s2 in (KReady (inl p), ck2, s3)
                   | inr e => (KReady (inr e), ck2, s2)
                   end
               end))).
  { pose proof (r5f_connector_poll (Some rid) rid ByReq s) as F1. destruct (connector_poll rid ByReq s) as [r s1]. cbn [snd] in F1.
    destruct r as [|res]; cbn [snd]; [exact F1|].
    pose proof (r5f_mp (Some rid) _ _ (mdf_rx_drop ck1 s1) (pf_rx_drop ck1 s1)) as F2. destruct (rx_drop ck1 s1) as [ck2 s2]. cbn [snd] in F2.
    pose proof (r5f_set_req_x rid (RCheckout (k_set_inner IConnected ck2)) s2) as F3.
    assert (F13 : r5f (Some rid) s (set_req rid (RCheckout (k_set_inner IConnected ck2)) s2))
      by (eapply r5f_trans; [exact F1|]; eapply r5f_trans; eauto).
    destruct res as [c|e]; cbn [snd]; [|exact F13].
    pose proof (r5f_mp (Some rid) _ _ (mdf_register cfg (k_token (k_set_inner IConnected ck2)) c _) (pf_register cfg (k_token (k_set_inner IConnected ck2)) c (set_req rid (RCheckout (k_set_inner IConnected ck2)) s2))) as F4.
    destruct (register _ _ _ _) as [p s3]. cbn [snd] in *. eapply r5f_trans; eauto. }
  destruct (k_inner ck1); cbn [snd]; try apply r5f_refl; try exact Hconn.
  destruct (k_conn ck1) as [c|]; cbn [snd]; [|apply r5f_refl].
  pose proof (r5f_mp (Some rid) _ _ (mdf_rx_drop (k_set_conn None ck1) s) (pf_rx_drop (k_set_conn None ck1) s)) as F2.
  destruct (rx_drop (k_set_conn None ck1) s) as [ck2 s2]. cbn [snd] in F2.
  pose proof (r5f_set_req_x rid (RCheckout ck2) s2) as F3.
  pose proof (r5f_mp (Some rid) _ _ (mdf_register cfg (k_token ck2) c _) (pf_register cfg (k_token ck2) c (set_req rid (RCheckout ck2) s2))) as F4.
  destruct (register _ _ _ _) as [p s3]. cbn [snd] in *. eapply r5f_trans; [exact F2|]. eapply r5f_trans; eauto.
Qed.

Lemma r5f_checkout_drop x cfg rid ck s : r5f x s (checkout_drop cfg rid ck s).
Proof.
  unfold checkout_drop.
  set (s1 := match k_conn ck with
             | Some c => if is_open s c && (g_pool cfg && negb (k_token ck =? 0)) then pool_push (g_max_idle cfg) (k_token ck) c s else drop_conn c s
             | None => s end).
  assert (F1 : r5f x s s1).
  { subst s1. destruct (k_conn ck) as [c|]; [|apply r5f_refl].
    match goal with |- context [if ?b then pool_push _ _ _ _ else _] => destruct b end; apply r5f_mp;
      auto using mdf_pool_push, pf_pool_push, mdf_drop_conn, pf_drop_conn. }
  match goal with |- context [rx_drop ck ?y] => set (s2 := y) end.
  assert (F2 : r5f x s1 s2).
  { subst s2. destruct (match k_inner ck with IDelayDrop => _ | _ => false end); [apply r5f_reqs; [reflexivity|apply npext_same; reflexivity]|].
    match goal with |- context [if ?b then pool_cancel _ _ _ else _] => destruct b end; [|apply r5f_refl].
    apply r5f_mp; [apply mdf_pool_cancel|apply pf_pool_cancel]. }
  pose proof (r5f_mp x _ _ (mdf_rx_drop ck s2) (pf_rx_drop ck s2)) as F3. destruct (rx_drop ck s2) as [ck' s3]. cbn [snd] in F3.
  assert (F13 : r5f x s s3) by (eapply r5f_trans; [exact F1|]; eapply r5f_trans; eauto).
  assert (F4 : r5f x s (upd_dial rid (d_set_stage DGone) s3)).
  { eapply r5f_trans; [exact F13|]. apply r5f_reqs; [reflexivity|apply npext_same; reflexivity]. }
  destruct (k_inner ck); try exact F13; try exact F4. destruct (match get_dial s1 rid with Some d => _ | None => false end); assumption.
Qed.

Lemma r5f_hold_release x r p s : r5f x s (hold_release r p s).
Proof.
  unfold hold_release. set (s1 := upd_conn (fst p) (fun cn => c_set_holders (pred (c_holders cn)) cn) s).
  apply (r5f_trans x s (emit (ERel r (fst p)) s1)).
  - apply r5f_reqs; [reflexivity|]. exists [ERel r (fst p)]. split; [reflexivity|constructor; [exact I|constructor]].
  - apply r5f_mp; [apply mdf_pooled_drop|apply pf_pooled_drop].
Qed.

Lemma r5f_run_task cfg tid s : r5f None s (run_task cfg tid s).
Proof.
  unfold run_task. destruct (nth tid (tasks s) None) as [[c t|rid t own]|]; [| |apply r5f_refl].
  - destruct (get_conn s c) as [cn|]; [|apply r5f_reqs; [reflexivity|apply npext_same; reflexivity]].
    assert (Hfin : forall e, np e -> r5f None s (let s1 := finish_task tid (emit e s) in
              if is_open s1 c && negb (t =? 0) && g_pool cfg then pool_push (g_max_idle cfg) t c s1 else drop_conn c s1)).
    { intros e He. cbv zeta. apply (r5f_trans None s (finish_task tid (emit e s))).
      - apply r5f_reqs; [reflexivity|]. apply (npext_emit e s He).
      - destruct (_ && _); apply r5f_mp; auto using mdf_pool_push, pf_pool_push, mdf_drop_conn, pf_drop_conn. }
    destruct (negb (c_open cn)); [apply Hfin; exact I|]. destruct (c_share cn || c_ready cn); [apply Hfin; exact I|].
    apply r5f_reqs; [reflexivity|apply npext_same; reflexivity].
  - pose proof (r5f_connector_poll None rid (ByTask tid) s) as F1. destruct (connector_poll rid (ByTask tid) s) as [r s1]. cbn [snd] in F1.
    destruct r as [|[c|e]]; [exact F1| |].
    + pose proof (r5f_mp None _ _ (mdf_register cfg t c s1) (pf_register cfg t c s1)) as F2. destruct (register cfg t c s1) as [p s2]. cbn [snd] in F2.
      set (s3 := if g_pool cfg && negb (t =? 0) && own then pool_cancel t rid s2 else s2).
      assert (F3 : r5f None s2 s3) by (subst s3; destruct (_ && _); [apply r5f_mp; [apply mdf_pool_cancel|apply pf_pool_cancel]|apply r5f_refl]).
      eapply r5f_trans; [exact F1|]. eapply r5f_trans; [exact F2|]. eapply r5f_trans; [exact F3|].
      apply (r5f_trans None s3 (finish_task tid s3)); [apply r5f_reqs; [reflexivity|apply npext_same; reflexivity]|].
      apply r5f_mp; [apply mdf_pooled_drop|apply pf_pooled_drop].
    + set (s3 := if g_pool cfg && negb (t =? 0) && own then pool_cancel t rid s1 else s1).
      assert (F3 : r5f None s1 s3) by (subst s3; destruct (_ && _); [apply r5f_mp; [apply mdf_pool_cancel|apply pf_pool_cancel]|apply r5f_refl]).
      eapply r5f_trans; [exact F1|]. eapply r5f_trans; [exact F3|]. apply r5f_reqs; [reflexivity|apply npext_same; reflexivity].
Qed.

Lemma r5f_bg_loop cfg fuel : forall s, r5f None s (bg_loop cfg fuel s).
Proof.
  induction fuel as [|f IH]; intros s; cbn [bg_loop]; [apply r5f_refl|].
  destruct (runq s) as [|tid rest]; [apply r5f_refl|].
  eapply r5f_trans; [|apply IH]. apply (r5f_trans None s (set_runq rest s)); [apply r5f_reqs; [reflexivity|apply npext_same; reflexivity]|apply r5f_run_task].
Qed.

(* ------------------------------------------------------------------ the tracker relation *)
Definition gone (s : state) (r : nat) : Prop :=
  match get_req s r with Some (RHolding _ _ _) | Some RDone | Some RCancelled => True | _ => False end.
Definition notlive (m : mst) (r : nat) : Prop :=
  match nth_error (m_reqs m) r with Some y => is_live y = false | None => True end.

Lemma notlive_ri_upd f r0 m r : (forall y, is_live y = false -> is_live (f y) = false) -> notlive m r -> notlive (ri_upd f r0 m) r.
Proof.
  intros Hf. unfold notlive, ri_upd. cbn [m_reqs set_m_reqs]. rewrite nth_error_upd. destruct (Nat.eqb r0 r); [|auto].
  destruct (nth_error (m_reqs m) r); cbn; auto.
Qed.
Lemma notlive_track_ev m e r : notlive m r -> notlive (track_ev m e) r.
Proof.
  intros H. destruct e as [r0 k|c0 sh r0|r0 c0 a b d h|r0|r0 x|r0 c0|c0|c0 okb]; cbn [track_ev]; try exact H.
  - apply notlive_ri_upd; auto.
  - change (notlive (ri_upd (set_ri_dial DsOver) r0 m) r). apply notlive_ri_upd; auto.
  - change (notlive (ri_upd (fun x => set_ri_stat (SHeld c0) (if negb match nth_error (m_conns m) c0 with Some x0 => Nat.eqb (ci_origin x0) r0 && Nat.eqb (ci_new_at x0) (m_i m) | None => false end && match ri_dial x with DsFlying => true | _ => false end then set_ri_aband true x else x)) r0 m) r).
    apply notlive_ri_upd; auto.
  - apply notlive_ri_upd; auto.
  - destruct x as [|[]]; repeat (apply notlive_ri_upd; auto).
  - destruct okb; exact H.
Qed.
Lemma notlive_fold es : forall m r, notlive m r -> notlive (fold_left track_ev es m) r.
Proof. induction es as [|e es IH]; intros m r H; cbn [fold_left]; [exact H|]. apply IH, notlive_track_ev, H. Qed.

Section A3.
Variable cfg : config.

Record R5 (x : option nat) (m : mst) (s : state) : Prop := mkR5 {
  r5_nl : forall r, x <> Some r -> gone s r -> notlive m r;
  r5_tk : g_pool cfg = true -> forall r ck, x <> Some r -> get_req s r = Some (RCheckout ck) -> tokof m r (k_token ck) /\ k_token ck <> 0;
  r5_len : List.length (reqs s) <= List.length (m_reqs m)
}.

Lemma R5_fold x s es : forall m, R5 x m s -> R5 x (fold_left track_ev es m) s.
Proof.
  intros m [A1 A2 A3]. constructor.
  - intros r Hx Hg. apply notlive_fold. auto.
  - intros Hp r ck Hx Hq. destruct (A2 Hp r ck Hx Hq) as [B1 B2]. split; [apply tokof_fold; exact B1|exact B2].
  - rewrite mreqs_len_fold. exact A3.
Qed.

Lemma R5_model x m s s' : (forall r, x <> Some r -> rel_req (get_req s r) (get_req s' r)) ->
  List.length (reqs s') = List.length (reqs s) -> R5 x m s -> R5 x m s'.
Proof.
  intros F1 F2 [A1 A2 A3]. constructor.
  - intros r Hx Hg. apply A1; [exact Hx|]. unfold gone in *. pose proof (F1 r Hx) as Hr.
    destruct (get_req s r) as [[|ck| | |]|]; cbn in Hr; try (rewrite Hr in Hg; exact Hg).
    destruct Hr as (ck' & E & _). rewrite E in Hg. exact Hg.
  - intros Hp r ck Hx Hq. destruct (rel_req_back' s s' r ck (F1 r Hx) Hq) as (ck0 & H0 & _ & Ht). rewrite Ht. auto.
  - rewrite F2. exact A3.
Qed.
Lemma R5_r5f x m s s' : r5f x s s' -> R5 x m s -> R5 x m s'.
Proof. intros [F1 F2 F3]. apply R5_model; assumption. Qed.
Lemma R5_reqs x m s s' : reqs s' = reqs s -> R5 x m s -> R5 x m s'.
Proof. intros E. apply R5_model; [|rewrite E; reflexivity]. intros r _. unfold get_req. rewrite E. apply rel_req_refl. Qed.

(* the log check, with the list of tokens whose idle list is promised to be empty after the operation *)
Definition memn (t : nat) (l : list nat) : bool := existsb (Nat.eqb t) l.
Definition cA3' (T : list nat) (m : mst) (e : ev) : bool :=
  match e with
  | EPend r =>
      match nth_error (m_reqs m) r with
      | Some y => if g_pool cfg && is_live y && match ri_dial y with DsFlying => true | _ => false end
                  then memn (key_tok m (ri_key y)) T else true
      | None => false
      end
  | _ => true
  end.
Definition G5 (T : list nat) (x : option nat) (m0 : mst) (s : state) : Prop :=
  evs_ok (cA3' T) m0 (rev (out s)) = true /\ R5 x (cur m0 s) s.

Lemma evs_ok_np T es : forall m, Forall np es -> evs_ok (cA3' T) m es = true.
Proof.
  induction es as [|e es IH]; intros m HF; cbn [evs_ok]; [reflexivity|]. inversion HF as [|? ? Ha Hb]; subst.
  rewrite IH by exact Hb. destruct e; try reflexivity. contradiction.
Qed.

Lemma G5_r5f T x m0 s s' : G5 T x m0 s -> r5f x s s' -> G5 T x m0 s'.
Proof.
  intros [He HR] F. pose proof F as [_ _ (es & Ho & HF)]. split.
  - rewrite Ho, rev_app_distr, evs_ok_app, He. cbn [andb]. apply evs_ok_np. apply Forall_rev. exact HF.
  - unfold cur. rewrite Ho, rev_app_distr, fold_left_app. apply R5_fold. eapply R5_r5f; eauto.
Qed.

Lemma G5_x T x m0 s : G5 T None m0 s -> G5 T x m0 s.
Proof. intros [He [A1 A2 A3]]. split; [exact He|]. constructor; auto; intros; [apply A1|apply A2]; auto; discriminate. Qed.

Lemma G5_emit_pend T x m0 r s : G5 T x m0 s -> cA3' T (cur m0 s) (EPend r) = true -> G5 T x m0 (emit (EPend r) s).
Proof.
  intros [He HR] Hc. split.
  - cbn [out emit set_out rev]. rewrite evs_ok_snoc, He. exact Hc.
  - rewrite cur_emit. apply (R5_fold x (emit (EPend r) s) [EPend r]). eapply R5_reqs; [|exact HR]. reflexivity.
Qed.

Lemma cA3'_mono T t m e : cA3' T m e = true -> cA3' (t :: T) m e = true.
Proof.
  destruct e; cbn [cA3']; auto. destruct (nth_error (m_reqs m) r) as [y|]; auto. destruct (_ && _); auto.
  unfold memn. cbn. intros ->. apply orb_true_r.
Qed.
Lemma G5_mono T t x m0 s : G5 T x m0 s -> G5 (t :: T) x m0 s.
Proof. intros [He HR]. split; [|exact HR]. eapply evs_ok_impl; [|exact He]. intros m e. apply cA3'_mono. Qed.

(* a pending poll of a request that the tracker does not consider live is always accepted *)
Lemma cA3'_notlive T m r : r < List.length (m_reqs m) -> notlive m r -> cA3' T m (EPend r) = true.
Proof.
  intros Hl Hn. cbn [cA3']. unfold notlive in Hn. destruct (nth_error (m_reqs m) r) as [y|] eqn:E; [|apply nth_error_None in E; lia].
  rewrite Hn, andb_false_r. reflexivity.
Qed.
(* ... and of a live one if its token is on the list *)
Lemma cA3'_tok T m r t : (g_pool cfg = true -> tokof m r t) -> r < List.length (m_reqs m) -> memn t T = true -> cA3' T m (EPend r) = true.
Proof.
  intros Ht Hl Hm. cbn [cA3']. destruct (nth_error (m_reqs m) r) as [y|] eqn:E; [|apply nth_error_None in E; lia].
  destruct (g_pool cfg) eqn:Ep; [|reflexivity]. cbn [andb]. destruct (is_live y && _); [|reflexivity].
  destruct (Ht eq_refl) as (q & Hq & Hk). unfold RV in Hq. rewrite nth_error_map', E in Hq. cbn in Hq. inversion Hq; subst q. cbn [q_key rv3] in Hk.
  rewrite Hk. exact Hm.
Qed.

(* ------------------------------------------------------------------ Poll *)
Definition Tp (r : nat) (s : state) : list nat :=
  match get_req s r with
  | Some (RCheckout ck) =>
      match fst (fst (checkout_poll cfg r ck (unwake_req r s))) with KPending => [k_token ck] | _ => [] end
  | _ => []
  end.

Lemma G5_close T r m0 s : G5 T (Some r) m0 s ->
  (gone s r -> notlive (cur m0 s) r) ->
  (g_pool cfg = true -> forall ck, get_req s r = Some (RCheckout ck) -> tokof (cur m0 s) r (k_token ck) /\ k_token ck <> 0) -> G5 T None m0 s.
Proof.
  intros [He [A1 A2 A3]] Hn Ht. split; [exact He|]. constructor; auto.
  - intros r' _ Hg. destruct (Nat.eq_dec r' r) as [->|Hne]; [auto|apply A1; [congruence|exact Hg]].
  - intros Hp r' ck _ Hq. destruct (Nat.eq_dec r' r) as [->|Hne]; [auto|apply A2; auto; congruence].
Qed.


Lemma notlive_ext m0 s s' r : ext s s' -> notlive (cur m0 s) r -> notlive (cur m0 s') r.
Proof. intros [es Ho]. unfold cur. rewrite Ho, rev_app_distr, fold_left_app. apply notlive_fold. Qed.
Lemma npext_ext s s' : npext s s' -> ext s s'. Proof. intros (es & Ho & _). exists es. exact Ho. Qed.

Lemma notlive_hand m r c a b d h : r < List.length (m_reqs m) -> notlive (track_ev m (EHand r c a b d h)) r.
Proof.
  intros Hl. unfold notlive. cbn [track_ev]. unfold ci_upd, ri_upd. cbn [m_reqs set_m_conns set_m_reqs]. rewrite nth_error_upd_eq.
  destruct (nth_error (m_reqs m) r); cbn; [reflexivity|exact I].
Qed.
Lemma notlive_res m r x : notlive (track_ev m (ERes r x)) r.
Proof.
  assert (H : notlive (ri_upd (fun y => set_ri_pend false (set_ri_stat SDone y)) r m) r).
  { unfold notlive, ri_upd. cbn [m_reqs set_m_reqs]. rewrite nth_error_upd_eq. destruct (nth_error (m_reqs m) r); cbn; [reflexivity|exact I]. }
  cbn [track_ev]. destruct x as [|[]]; try exact H; apply notlive_ri_upd; auto.
Qed.

Lemma G5_do_poll m0 r s : G5 [] None m0 s -> G5 (Tp r s) None m0 (do_poll cfg r s).
Proof.
  intros H. pose proof H as [_ HR]. unfold Tp, do_poll. destruct (get_req s r) as [[|ck|p fin pl| |]|] eqn:Er; try exact H.
  - (* RError *)
    set (s1 := emit (ERes r (RErr EUri)) (unwake_req r s)).
    assert (H1 : G5 [] None m0 s1).
    { eapply G5_r5f; [exact H|]. apply r5f_reqs; [reflexivity|]. exists [ERes r (RErr EUri)]. split; [reflexivity|constructor; [exact I|constructor]]. }
    apply (G5_close [] r); [eapply G5_r5f; [apply G5_x; exact H1|apply r5f_set_req_x]| |].
    + intros _. change (cur m0 (set_req r RDone s1)) with (cur m0 s1). unfold s1. rewrite cur_emit. apply notlive_res.
    + intros _ ck Hq. rewrite get_req_set_req, Nat.eqb_refl in Hq. destruct (get_req s1 r); discriminate.
  - (* RCheckout *)
    assert (Hin : r < List.length (reqs s)) by (eapply nth_error_lt; exact Er).
    assert (Hlen : r < List.length (m_reqs (cur m0 s))) by (pose proof (r5_len _ _ _ HR); lia).
    assert (Htk : g_pool cfg = true -> tokof (cur m0 s) r (k_token ck) /\ k_token ck <> 0) by (intros Hp; apply (r5_tk _ _ _ HR Hp r ck); [discriminate|exact Er]).
    assert (H0 : G5 [] (Some r) m0 (unwake_req r s)) by (eapply G5_r5f; [apply G5_x; exact H|apply r5f_reqs; [reflexivity|apply npext_same; reflexivity]]).
    pose proof (r5f_checkout_poll cfg r ck (unwake_req r s)) as F1.
    pose proof (checkout_poll_pending cfg r ck (unwake_req r s)) as Hp.
    destruct (checkout_poll cfg r ck (unwake_req r s)) as [[res ck1] s1]. cbn [fst snd] in *.
    assert (H1 : G5 [] (Some r) m0 s1) by (eapply G5_r5f; eauto).
    assert (X1 : ext s s1) by (apply npext_ext; apply (f5_out _ _ _ F1)).
    assert (Hlen1 : r < List.length (m_reqs (cur m0 s1))) by (rewrite (mreqs_len_ext m0 s s1 X1); exact Hlen).
    destruct res as [|[p|e]].
    + (* pending: the token goes on the list *)
      destruct (Hp eq_refl) as (-> & _ & _ & Hnc). destruct (wp_keep ck Hnc) as (K1 & _).
      set (s2 := set_req r (RCheckout (snd (waiter_poll ck))) s1).
      assert (H2 : G5 [k_token ck] (Some r) m0 s2) by (apply G5_mono; eapply G5_r5f; [exact H1|apply r5f_set_req_x]).
      assert (Htk2 : g_pool cfg = true -> tokof (cur m0 s2) r (k_token ck)) by (intros Hg; apply (tokof_ext m0 s s2); [exact X1|apply Htk; exact Hg]).
      apply (G5_close _ r).
      * apply G5_emit_pend; [exact H2|]. apply (cA3'_tok _ _ r (k_token ck)); [exact Htk2|exact Hlen1|]. unfold memn. cbn. rewrite Nat.eqb_refl. reflexivity.
      * intros Hg. exfalso. unfold gone in Hg. change (get_req (emit (EPend r) s2) r) with (get_req s2 r) in Hg. unfold s2 in Hg.
        rewrite get_req_set_req, Nat.eqb_refl in Hg. destruct (get_req s1 r); cbn in Hg; exact Hg.
      * intros Hg ck' Hq. change (get_req (emit (EPend r) s2) r) with (get_req s2 r) in Hq. unfold s2 in Hq.
        rewrite get_req_set_req, Nat.eqb_refl in Hq. destruct (get_req s1 r); [|discriminate]. cbn in Hq. inversion Hq; subst ck'. rewrite K1.
        split; [apply (tokof_ext m0 s2); [apply ext_emit|auto]|apply Htk; exact Hg].
    + (* handed a connection *)
      destruct (match get_conn s1 (fst p) with Some cn => _ | None => _ end) as [[[sh op_] rd] hs].
      set (e := EHand r (fst p) (snd p =? 0) op_ rd hs).
      match goal with |- G5 _ _ _ (emit _ (checkout_drop _ _ _ ?y)) => set (s2 := y) end.
      assert (Hn2 : notlive (cur m0 s2) r).
      { change (cur m0 s2) with (cur m0 (emit e s1)). rewrite cur_emit. apply notlive_hand. exact Hlen1. }
      assert (H2 : G5 [] (Some r) m0 s2).
      { split; [|].
        - change (out s2) with (e :: out s1). cbn [rev]. rewrite evs_ok_snoc, (proj1 H1). reflexivity.
        - change (cur m0 s2) with (cur m0 (emit e s1)). rewrite cur_emit. apply (R5_fold (Some r) s2 [e]).
          eapply R5_model; [| |apply (proj2 H1)].
          + intros r' Hx. unfold s2. rewrite get_req_set_req. destruct (Nat.eqb_spec r r'); [congruence|apply rel_req_refl].
          + unfold s2. cbn. apply upd_nth_len. }
      pose proof (r5f_checkout_drop (Some r) cfg r ck1 s2) as F3.
      assert (H3 : G5 [] (Some r) m0 (checkout_drop cfg r ck1 s2)) by (eapply G5_r5f; eauto).
      assert (Hn3 : notlive (cur m0 (checkout_drop cfg r ck1 s2)) r) by (eapply notlive_ext; [apply npext_ext, (f5_out _ _ _ F3)|exact Hn2]).
      apply (G5_close _ r).
      * apply G5_emit_pend; [exact H3|]. apply cA3'_notlive; [|exact Hn3].
        rewrite (mreqs_len_ext m0 s1 _). { exact Hlen1. } eapply ext_trans; [|apply npext_ext, (f5_out _ _ _ F3)]. exists [e]. reflexivity.
      * intros _. eapply notlive_ext; [apply ext_emit|exact Hn3].
      * intros _ ck' Hq. exfalso. change (get_req (emit (EPend r) (checkout_drop cfg r ck1 s2)) r) with (get_req (checkout_drop cfg r ck1 s2) r) in Hq.
        apply (not_isck_checkout_drop cfg r ck1 s2 r); [apply not_isck_set_req; discriminate|exists ck'; exact Hq].
    + (* error *)
      set (s2 := set_req r RDone s1).
      assert (H2 : G5 [] (Some r) m0 s2) by (eapply G5_r5f; [exact H1|apply r5f_set_req_x]).
      pose proof (r5f_checkout_drop (Some r) cfg r ck1 s2) as F3.
      assert (H3 : G5 [] (Some r) m0 (checkout_drop cfg r ck1 s2)) by (eapply G5_r5f; eauto).
      apply (G5_close _ r).
      * eapply G5_r5f; [exact H3|]. apply r5f_reqs; [reflexivity|]. exists [ERes r (RErr e)]. split; [reflexivity|constructor; [exact I|constructor]].
      * intros _. rewrite cur_emit. apply notlive_res.
      * intros _ ck' Hq. exfalso. change (get_req (emit (ERes r (RErr e)) (checkout_drop cfg r ck1 s2)) r) with (get_req (checkout_drop cfg r ck1 s2) r) in Hq.
        apply (not_isck_checkout_drop cfg r ck1 s2 r); [apply not_isck_set_req; discriminate|exists ck'; exact Hq].
  - (* RHolding *)
    assert (Hin : r < List.length (reqs s)) by (eapply nth_error_lt; exact Er).
    assert (Hlen : r < List.length (m_reqs (cur m0 s))) by (pose proof (r5_len _ _ _ HR); lia).
    assert (Hn : notlive (cur m0 s) r) by (apply (r5_nl _ _ _ HR r); [discriminate|unfold gone; rewrite Er; exact I]).
    assert (H0 : G5 [] (Some r) m0 (unwake_req r s)) by (eapply G5_r5f; [apply G5_x; exact H|apply r5f_reqs; [reflexivity|apply npext_same; reflexivity]]).
    destruct fin.
    + set (s2 := set_req r RDone (unwake_req r s)).
      assert (H2 : G5 [] (Some r) m0 s2) by (eapply G5_r5f; [exact H0|apply r5f_set_req_x]).
      pose proof (r5f_hold_release (Some r) r p s2) as F3.
      apply (G5_close _ r).
      * eapply G5_r5f; [eapply G5_r5f; [exact H2|exact F3]|]. apply r5f_reqs; [reflexivity|]. exists [ERes r ROk]. split; [reflexivity|constructor; [exact I|constructor]].
      * intros _. rewrite cur_emit. apply notlive_res.
      * intros _ ck' Hq. exfalso. change (get_req (emit (ERes r ROk) (hold_release r p s2)) r) with (get_req (hold_release r p s2) r) in Hq.
        pose proof (f5_req _ _ _ (r5f_hold_release None r p s2) r ltac:(discriminate)) as Hr. unfold s2 in Hr at 1. rewrite get_req_set_req, Nat.eqb_refl in Hr.
        change (get_req (unwake_req r s) r) with (get_req s r) in Hr. rewrite Er in Hr. cbn in Hr. rewrite Hr in Hq. discriminate.
    + set (s2 := set_req r (RHolding p false true) (unwake_req r s)).
      assert (H2 : G5 [] (Some r) m0 s2) by (eapply G5_r5f; [exact H0|apply r5f_set_req_x]).
      apply (G5_close _ r).
      * apply G5_emit_pend; [exact H2|]. apply cA3'_notlive; assumption.
      * intros _. rewrite cur_emit. apply notlive_track_ev. exact Hn.
      * intros _ ck' Hq. exfalso. change (get_req (emit (EPend r) s2) r) with (get_req s2 r) in Hq. unfold s2 in Hq.
        rewrite get_req_set_req, Nat.eqb_refl in Hq. change (get_req (unwake_req r s) r) with (get_req s r) in Hq. rewrite Er in Hq. discriminate.
Qed.


(* ------------------------------------------------------------------ what a pending poll says about the checkout *)
Lemma checkout_poll_pending_kind rid ck s : fst (fst (checkout_poll cfg rid ck s)) = KPending ->
  fst (waiter_poll ck) = WPending
  \/ (k_inner (snd (waiter_poll ck)) = IConnected /\ k_conn (snd (waiter_poll ck)) = None)
  \/ (k_inner (snd (waiter_poll ck)) <> IWaiting /\ k_inner (snd (waiter_poll ck)) <> IConnected).
Proof.
  unfold checkout_poll. destruct (waiter_poll ck) as [w ck1]. destruct w; cbn [fst snd]; try discriminate; [auto|].
  destruct (k_inner ck1) eqn:Ei; cbn [fst snd]; try discriminate; try (intros _; right; right; split; discriminate).
  destruct (k_conn ck1) as [c|]; cbn [fst snd]; [|intros _; right; left; auto].
  destruct (rx_drop (k_set_conn None ck1) s) as [ck2 s2]. destruct (register _ _ _ _) as [p s3]. cbn [fst snd]. discriminate.
Qed.

Lemma wp_pending ck : fst (waiter_poll ck) = WPending ->
  let ck1 := snd (waiter_poll ck) in k_waiter ck1 <> WNoPool /\ k_slot ck1 = None /\ k_txdropped ck1 = false.
Proof.
  unfold waiter_poll. destruct (k_waiter ck) eqn:Ew; cbn; try discriminate.
  - destruct (k_slot ck); cbn; [discriminate|]. destruct (k_txdropped ck); discriminate.
  - destruct (k_slot ck) eqn:Es; cbn; [discriminate|]. destruct (k_txdropped ck) eqn:Et; cbn; [discriminate|].
    intros _. rewrite Ew, Es, Et. repeat split. discriminate.
Qed.

Lemma poll_promise r s : g_pool cfg = true -> WQ None (do_poll cfg r s) -> TD (do_poll cfg r s) ->
  forall t, In t (Tp r s) -> idl (do_poll cfg r s) t = [].
Proof.
  intros Hp HW HT t Hin. unfold Tp in Hin. unfold do_poll in *. destruct (get_req s r) as [[|ck|p fin pl| |]|] eqn:Er; try (destruct Hin; fail).
  pose proof (checkout_poll_pending cfg r ck (unwake_req r s)) as Hpd. pose proof (checkout_poll_pending_kind r ck (unwake_req r s)) as Hk.
  pose proof (MD_like_rlen cfg r ck (unwake_req r s)) as Hl.
  destruct (checkout_poll cfg r ck (unwake_req r s)) as [[res ck1] s1]. cbn [fst snd] in *.
  destruct res as [|[p|e]]; try (destruct Hin; fail). destruct Hin as [<-|[]].
  destruct (Hpd eq_refl) as (-> & _ & _ & Hnc). destruct (wp_keep ck Hnc) as (K1 & K2 & K3 & K4).
  set (ck1 := snd (waiter_poll ck)) in *. set (s' := emit (EPend r) (set_req r (RCheckout ck1) s1)) in *.
  assert (Hq : get_req s' r = Some (RCheckout ck1)).
  { unfold s'. change (get_req (emit (EPend r) (set_req r (RCheckout ck1) s1)) r) with (get_req (set_req r (RCheckout ck1) s1) r).
    assert (Hin : r < List.length (reqs s1)) by (rewrite Hl; eapply nth_error_lt; exact Er). destruct (nth_error_ex _ _ Hin) as [q Eq].
    apply (isck_set_req_same s1 r q _ Eq). }
  destruct (wq_q _ _ HW r ck1 ltac:(discriminate) Hq) as [Q1 Q2].
  assert (Hprem : k_waiter ck1 <> WNoPool /\ k_slot ck1 = None /\ k_txdropped ck1 = false).
  { destruct (Hk eq_refl) as [Hwp|[[Hi Hc]|[Hi1 Hi2]]].
    - apply wp_pending. exact Hwp.
    - exfalso. unfold wok in Q2. rewrite Hi in Q2. apply Q2. exact Hc.
    - unfold wok in Q2. destruct (k_inner ck1); try contradiction; destruct Q2 as [Qa Qb];
        (assert (Hw : k_waiter ck1 <> WNoPool) by (rewrite Qa; discriminate); destruct (K4 Hw) as (_ & _ & _ & _ & E5); auto). }
  destruct Hprem as (P1 & P2 & P3). specialize (Q1 P1 P2 P3). rewrite K1 in Q1.
  unfold idl. destruct (TD_get_tok s' (k_token ck) HT) as [-> | E]; [reflexivity|]. unfold wtg in Q1. rewrite E in Q1. destruct Q1.
Qed.


(* ------------------------------------------------------------------ the tracker's reading of the operation *)
Lemma notlive_track_op m o ob r : match o with Issue _ _ => False | _ => True end -> notlive m r -> notlive (track_op cfg m o ob) r.
Proof.
  intros Ho H. destruct o; try contradiction; cbn [track_op]; try exact H.
  - destruct (nth_error (m_reqs m) r0) as [x|]; [|exact H]. destruct (ri_stat x); try exact H; [|apply notlive_ri_upd; auto].
    destruct (ri_popx x) as [c|]; [|apply notlive_ri_upd; auto]. destruct (nth_error (m_conns m) c) as [y|]; [|apply notlive_ri_upd; auto].
    destruct (ci_share y); apply notlive_ri_upd; auto.
  - destruct (holder_conn m r0); exact H.
  - apply notlive_ri_upd; [|exact H]. intros y Hy. destruct (ri_dial y), (ri_resolved y); exact Hy.
Qed.
Lemma notlive_cancel m r ob : notlive (track_op cfg m (Cancel r) ob) r.
Proof.
  cbn [track_op]. destruct (nth_error (m_reqs m) r) as [x|] eqn:E; [|unfold notlive; rewrite E; exact I].
  assert (Hpre : forall mi f, m_reqs mi = m_reqs m -> (forall y, is_live (f y) = false) -> notlive (ri_upd f r mi) r).
  { intros mi f Em Hf. unfold notlive, ri_upd. cbn [m_reqs set_m_reqs]. rewrite nth_error_upd_eq, Em, E. cbn. apply Hf. }
  destruct (ri_stat x) eqn:Es; try (unfold notlive; rewrite E; unfold is_live; rewrite Es; reflexivity); [|apply Hpre; reflexivity].
  destruct (ri_popx x) as [c|]; [|apply Hpre; reflexivity]. destruct (nth_error (m_conns m) c) as [y|]; [|apply Hpre; reflexivity].
  destruct (ci_share y); apply Hpre; reflexivity.
Qed.
Lemma mreqs_len_track_op m o ob : match o with Issue _ _ => False | _ => True end ->
  List.length (m_reqs (track_op cfg m o ob)) = List.length (m_reqs m).
Proof.
  intros Ho. destruct o; try contradiction; cbn [track_op]; try reflexivity.
  - destruct (nth_error (m_reqs m) r) as [x|]; [|reflexivity]. destruct (ri_stat x); try reflexivity; [|unfold ri_upd; cbn; apply upd_nth_len].
    destruct (ri_popx x) as [c|]; [|unfold ri_upd; cbn; apply upd_nth_len]. destruct (nth_error (m_conns m) c) as [y|]; [|unfold ri_upd; cbn; apply upd_nth_len].
    destruct (ci_share y); unfold ri_upd; cbn; apply upd_nth_len.
  - destruct (holder_conn m r); reflexivity.
  - unfold ri_upd. cbn. apply upd_nth_len.
Qed.
Lemma tokof_track_op m o ob r t : match o with Issue _ _ => False | _ => True end -> tokof m r t -> tokof (track_op cfg m o ob) r t.
Proof.
  intros Ho H. destruct o; try contradiction.
  2: { apply tokof_cancel. exact H. }
  4: { cbn [track_op]. eapply tokof_move; [apply (RV_ri_upd _ (dd_g x))| |reflexivity|exact H].
       - intros y. unfold rv3, dd_g. cbn. destruct (ri_dial y) eqn:E1, (ri_resolved y) eqn:E2; cbn; rewrite ?E1, ?E2; reflexivity.
       - intros q. unfold dd_g. destruct (q_dl q), (q_rs q); reflexivity. }
  all: match goal with |- tokof (track_op _ ?mm ?oo ?bb) _ _ => destruct (track_op_view cfg mm oo bb I) as (V1 & _ & V3) end;
       destruct H as (q & Hq & Hk); exists q; unfold key_tok in *; rewrite V1, V3; auto.
Qed.

Lemma R5_track_op x m o ob s : match o with Issue _ _ => False | _ => True end -> R5 x m s -> R5 x (track_op cfg m o ob) s.
Proof.
  intros Ho [A1 A2 A3]. constructor.
  - intros r Hx Hg. apply notlive_track_op; auto.
  - intros Hp r ck Hx Hq. destruct (A2 Hp r ck Hx Hq) as [B1 B2]. split; [apply tokof_track_op; auto|exact B2].
  - rewrite mreqs_len_track_op by exact Ho. exact A3.
Qed.

Lemma G5_start T x m0 s : out s = [] -> R5 x m0 s -> G5 T x m0 s.
Proof. intros Ho H. unfold G5, cur. rewrite Ho. cbn. auto. Qed.


(* ------------------------------------------------------------------ Issue *)
Definition s0_of (s : state) : state := set_woken (woken s ++ [false]) s.

Lemma do_issue_shape u p s : exists q d s3, do_issue cfg u p s = add_req q d s3 /\ reqs s3 = reqs s /\ npext s s3
  /\ (q = RError \/ exists ck, q = RCheckout ck /\
        (g_pool cfg = true -> exists k, nth u (g_uris cfg) None = Some k /\ k_token ck = fst (key_insert k (s0_of s)))).
Proof.
  unfold do_issue. fold (s0_of s).
  assert (N0 : npext s (s0_of s)) by (apply npext_same; reflexivity).
  destruct (nth u (g_uris cfg) None) as [k|] eqn:Eu.
  2: { eexists _, _, _. split; [reflexivity|]. split; [reflexivity|]. split; [exact N0|left; reflexivity]. }
  destruct (g_pool cfg) eqn:Ep; cbn [negb].
  2: { eexists _, _, _. split; [reflexivity|]. split; [reflexivity|]. split; [exact N0|]. right. eexists. split; [reflexivity|discriminate]. }
  pose proof (reqs_key_insert k (s0_of s)) as R1. destruct (conns_key_insert k (s0_of s)) as [_ O1].
  destruct (key_insert k (s0_of s)) as [t s1] eqn:Ek. cbn [fst snd] in *.
  pose proof (reqs_pool_pop (g_timeout cfg) t s1) as R2. pose proof (pf_pool_pop (g_timeout cfg) t s1) as P2.
  destruct (pool_pop (g_timeout cfg) t s1) as [found s2]. cbn [snd] in *.
  assert (N2 : npext s s2) by (eapply npext_trans; [exact N0|]; eapply npext_trans; [apply npext_same; exact O1|apply npext_pf; exact P2]).
  assert (Rs : reqs s2 = reqs s) by (rewrite R2, R1; reflexivity).
  assert (Hk : forall ck, k_token ck = t -> exists k0, Some k = Some k0 /\ k_token ck = fst (key_insert k0 (s0_of s))) by (intros ck E; exists k; rewrite Ek; auto).
  destruct found as [c|].
  { eexists _, _, s2. split; [reflexivity|]. split; [exact Rs|]. split; [exact N2|]. right. eexists. split; [reflexivity|intros _; apply Hk; reflexivity]. }
  set (pend := match p_marker (get_tok s2 t) with Some _ => true | None => false end).
  set (s3 := upd_tok t (fun q => set_waiting (p_waiting q ++ [(List.length (reqs s), pend)]) q) s2).
  assert (R3 : reqs s3 = reqs s) by (subst s3; destruct t; exact Rs).
  assert (N3 : npext s s3) by (eapply npext_trans; [exact N2|apply npext_same; subst s3; destruct t; reflexivity]).
  destruct pend.
  { eexists _, _, s3. split; [reflexivity|]. split; [exact R3|]. split; [exact N3|]. right. eexists. split; [reflexivity|intros _; apply Hk; reflexivity]. }
  set (own := match p with H2 => true | H1 => false end).
  set (s4 := if own then upd_tok t (set_marker (Some (List.length (reqs s)))) s3 else s3).
  assert (R4 : reqs s4 = reqs s) by (subst s4; destruct own; [destruct t|]; exact R3).
  assert (N4 : npext s s4) by (eapply npext_trans; [exact N3|apply npext_same; subst s4; destruct own; [destruct t|]; reflexivity]).
  eexists _, _, s4. split; [reflexivity|]. split; [exact R4|]. split; [exact N4|]. right. eexists. split; [reflexivity|intros _; apply Hk; reflexivity].
Qed.

Lemma notlive_issue m u p ob r : r < List.length (m_reqs m) -> notlive m r -> notlive (issue_m cfg m u p ob) r.
Proof.
  intros Hl H. unfold notlive, issue_m in *. cbn [track_op m_reqs set_m_keys set_m_reqs]. rewrite nth_error_app1 by exact Hl. exact H.
Qed.

Lemma G5_op_issue m u p s ob : R5 None m s -> List.length (m_reqs m) = List.length (reqs s) -> m_keys m = keys s -> out s = [] ->
  G5 [] None (issue_m cfg m u p ob) (do_issue cfg u p s).
Proof.
  intros [A1 A2 A3] Hlen Hka Ho. destruct (do_issue_shape u p s) as (q & d & s3 & -> & R3 & (es & O3 & HF) & Hq).
  destruct (issue_m_view cfg m u p ob) as (E1 & _ & E3).
  assert (Hrv : List.length (RV m) = List.length (reqs s)) by (unfold RV; rewrite map_length; exact Hlen).
  split.
  - change (out (add_req q d s3)) with (out s3). rewrite O3, Ho, app_nil_r. apply evs_ok_np. apply Forall_rev. exact HF.
  - unfold cur. change (out (add_req q d s3)) with (out s3). rewrite O3, Ho, app_nil_r. apply R5_fold. constructor.
    + intros r _ Hg. unfold gone in Hg. rewrite get_req_add, R3 in Hg. destruct (Nat.ltb_spec r (List.length (reqs s))) as [Hl|Hge].
      * apply notlive_issue; [lia|]. apply A1; [discriminate|]. unfold gone. unfold get_req in *. rewrite <- R3. exact Hg.
      * destruct (Nat.eqb r (List.length (reqs s))); [|destruct Hg]. destruct Hq as [->|(ck & -> & _)]; destruct Hg.
    + intros Hp r ck _ Hr. rewrite get_req_add, R3 in Hr. destruct (Nat.ltb_spec r (List.length (reqs s))) as [Hl|Hge].
      * assert (Hr0 : get_req s r = Some (RCheckout ck)) by (unfold get_req in *; rewrite <- R3; exact Hr).
        destruct (A2 Hp r ck ltac:(discriminate) Hr0) as [B1 B2]. split; [apply tokof_issue; assumption|exact B2].
      * destruct (Nat.eqb_spec r (List.length (reqs s))) as [->|]; [|discriminate]. inversion Hr; subst q.
        destruct Hq as [E|(ck' & E & Hk)]; [discriminate|]. inversion E; subst ck'. destruct (Hk Hp) as (k & Eu & Et).
        assert (Hka0 : m_keys m = keys (s0_of s)) by exact Hka.
        destruct (issue_keys (m_keys m) k (s0_of s) Hka0) as [_ K2].
        assert (Eks : issue_ks cfg m u = match find_key k (m_keys m) 1 with Some _ => m_keys m | None => m_keys m ++ [k] end)
          by (unfold issue_ks; rewrite Eu, Hp; reflexivity).
        split; [|rewrite Et; pose proof (key_insert_pos k (s0_of s)); lia].
        exists (mkR3 false DsNone None (Some k)). split.
        -- rewrite E1, <- Hrv, nth_error_app2, Nat.sub_diag by lia. cbn. rewrite Eu. reflexivity.
        -- cbn [q_key]. unfold key_tok. rewrite E3, Eks, Et. exact K2.
    + unfold issue_m. cbn [track_op m_reqs set_m_keys set_m_reqs]. rewrite app_length. cbn. unfold add_req. cbn. rewrite app_length, R3. cbn. lia.
Qed.


(* ------------------------------------------------------------------ one operation *)
Definition T_of (o : op) (s : state) : list nat := match o with Poll r => Tp r (set_out [] s) | _ => [] end.

Lemma out_wake_tasks l : forall s, out (wake_tasks l s) = out s.
Proof. induction l as [|t l IH]; intros s; cbn [wake_tasks]; [reflexivity|]. rewrite IH. unfold wake_task. destruct (existsb _ _); reflexivity. Qed.
Lemma r5f_drain x c s : r5f x s (drain_conn_waiters c s).
Proof.
  apply r5f_reqs; [|apply npext_same]; unfold drain_conn_waiters; destruct (get_conn s c); try reflexivity.
  - rewrite reqs_wake_tasks. reflexivity.
  - rewrite out_wake_tasks. reflexivity.
Qed.

Lemma step_G5 m s o ob : R5 None m s -> List.length (m_reqs m) = List.length (reqs s) -> m_keys m = keys s ->
  G5 (T_of o s) None (track_op cfg m o ob) (step cfg s o).
Proof.
  intros HR Hlen Hka. unfold step, T_of. set (s0 := set_out [] s).
  assert (HR0 : R5 None m s0) by (eapply R5_reqs; [|exact HR]; reflexivity).
  assert (Hgen : forall oo s', match oo with Issue _ _ => False | _ => True end -> r5f None s0 s' -> G5 [] None (track_op cfg m oo ob) s').
  { intros oo s' Ho F. eapply G5_r5f; [|exact F]. apply G5_start; [reflexivity|]. apply R5_track_op; assumption. }
  destruct o.
  - apply (G5_op_issue m u p s0 ob HR0 Hlen Hka eq_refl).
  - apply G5_do_poll. apply G5_start; [reflexivity|exact HR0].
  - (* Cancel *)
    assert (H0 : G5 [] (Some r) (track_op cfg m (Cancel r) ob) s0) by (apply G5_x, G5_start; [reflexivity|apply R5_track_op; [exact I|exact HR0]]).
    assert (Hn : forall s', out s' = [] \/ True -> notlive (cur (track_op cfg m (Cancel r) ob) s') r) by (intros s' _; unfold cur; apply notlive_fold, notlive_cancel).
    unfold do_cancel. destruct (get_req s0 r) as [[|ck|p fin pl| |]|] eqn:Er.
    + apply (G5_close [] r); [eapply G5_r5f; [exact H0|]|intros _; apply Hn; auto|].
      * eapply r5f_trans; [apply r5f_set_req_x|apply r5f_reqs; [reflexivity|apply npext_same; reflexivity]].
      * intros _ ck Hq. exfalso. apply (not_isck_set_req r RCancelled s0); [discriminate|exists ck; exact Hq].
    + apply (G5_close [] r); [eapply G5_r5f; [exact H0|]|intros _; apply Hn; auto|].
      * eapply r5f_trans; [apply r5f_set_req_x|]. eapply r5f_trans; [apply r5f_checkout_drop|apply r5f_reqs; [reflexivity|apply npext_same; reflexivity]].
      * intros _ ck' Hq. exfalso. apply (not_isck_checkout_drop cfg r ck (set_req r RCancelled s0) r); [apply not_isck_set_req; discriminate|exists ck'; exact Hq].
    + apply (G5_close [] r); [eapply G5_r5f; [exact H0|]|intros _; apply Hn; auto|].
      * eapply r5f_trans; [apply r5f_set_req_x|]. eapply r5f_trans; [apply r5f_hold_release|apply r5f_reqs; [reflexivity|apply npext_same; reflexivity]].
      * intros _ ck' Hq. exfalso.
        pose proof (f5_req _ _ _ (r5f_hold_release None r p (set_req r RCancelled s0)) r ltac:(discriminate)) as Hr.
        rewrite get_req_set_req, Nat.eqb_refl, Er in Hr. cbn in Hr. change (get_req (unwake_req r (hold_release r p (set_req r RCancelled s0))) r)
          with (get_req (hold_release r p (set_req r RCancelled s0)) r) in Hq. rewrite Hr in Hq. discriminate.
    + apply (Hgen (Cancel r)); [exact I|apply r5f_reqs; [reflexivity|apply npext_same; reflexivity]].
    + apply (Hgen (Cancel r)); [exact I|apply r5f_reqs; [reflexivity|apply npext_same; reflexivity]].
    + apply (Hgen (Cancel r)); [exact I|apply r5f_refl].
  - (* Finish *)
    unfold do_finish. destruct (get_req s0 r) as [[|ck|p fin pl| |]|] eqn:Er; try (apply (Hgen (Finish r)); [exact I|apply r5f_refl]).
    assert (H0 : G5 [] (Some r) (track_op cfg m (Finish r) ob) s0) by (apply G5_x, G5_start; [reflexivity|apply R5_track_op; [exact I|exact HR0]]).
    assert (Hn : notlive m r) by (apply (r5_nl _ _ _ HR0 r); [discriminate|unfold gone; rewrite Er; exact I]).
    assert (Hfin : forall s', r5f (Some r) (set_req r (RHolding p true false) s0) s' -> get_req s' r = get_req (set_req r (RHolding p true false) s0) r ->
              G5 [] None (track_op cfg m (Finish r) ob) s').
    { intros s' F Hq. apply (G5_close [] r); [eapply G5_r5f; [exact H0|]| |].
      - eapply r5f_trans; [apply r5f_set_req_x|exact F].
      - intros _. unfold cur. apply notlive_fold. exact Hn.
      - intros _ ck' Hc. exfalso. rewrite Hq in Hc. apply (not_isck_set_req r (RHolding p true false) s0); [discriminate|]. exists ck'. exact Hc. }
    destruct pl; apply Hfin; try reflexivity; [apply r5f_reqs; [reflexivity|apply npext_same; reflexivity]|apply r5f_refl].
  - unfold do_upgrade. destruct (get_req s0 r) as [[|ck|p fin pl| |]|]; try (apply (Hgen (Upgrade r)); [exact I|apply r5f_refl]).
    apply (Hgen (Upgrade r)); [exact I|]. apply (r5f_trans None s0 (upd_conn (fst p) (c_set_open false) s0)); [apply r5f_reqs; [reflexivity|apply npext_same; reflexivity]|apply r5f_drain].
  - apply (Hgen (DialDone r x)); [exact I|]. destruct (dial_done_dials r x s0) as (_ & _ & _ & D4 & _ & D6). apply r5f_reqs; [exact D4|apply npext_same; exact D6].
  - unfold do_conn_ready. destruct (get_conn s0 c); [|apply (Hgen (ConnReady c)); [exact I|apply r5f_refl]].
    apply (Hgen (ConnReady c)); [exact I|]. apply (r5f_trans None s0 (upd_conn c (c_set_ready true) s0)); [apply r5f_reqs; [reflexivity|apply npext_same; reflexivity]|apply r5f_drain].
  - unfold do_conn_close. destruct (get_conn s0 c); [|apply (Hgen (ConnClose c)); [exact I|apply r5f_refl]].
    apply (Hgen (ConnClose c)); [exact I|]. apply (r5f_trans None s0 (upd_conn c (c_set_open false) s0)); [apply r5f_reqs; [reflexivity|apply npext_same; reflexivity]|apply r5f_drain].
  - apply (Hgen Bg); [exact I|]. unfold do_bg. apply r5f_bg_loop.
  - apply (Hgen (Tick dt)); [exact I|]. apply r5f_reqs; [reflexivity|apply npext_same; reflexivity].
Qed.


(* ------------------------------------------------------------------ the end of the operation *)
Lemma mreqs_fold_offer ob es : forall m, m_reqs (fold_left (track_offer ob) es m) = m_reqs m.
Proof.
  induction es as [|e es IH]; intros m; cbn [fold_left]; [reflexivity|]. rewrite IH. destruct e; try reflexivity. cbn [track_offer].
  destruct ok; [|reflexivity]. destruct (nth_error (m_conns m) c); reflexivity.
Qed.
Lemma mreqs_idle_stamps prev : forall l m, m_reqs (fold_left (track_idle_stamp prev) l m) = m_reqs m.
Proof.
  induction l as [|sn l IH]; intros m; cbn [fold_left]; [reflexivity|]. rewrite IH. unfold track_idle_stamp. generalize (sn_idle sn).
  intros l0. revert m. induction l0 as [|c l0 IH0]; intros m; cbn [fold_left]; [reflexivity|]. rewrite IH0.
  destruct (mem c (idle_of prev (sn_token sn))); reflexivity.
Qed.

Lemma R5_post m o ob s' : R5 None (cur (track_op cfg m o ob) s') s' -> ob = observe s' -> R5 None (track cfg m o ob) s'.
Proof.
  intros [A1 A2 A3] ->. unfold track. cbn [observe o_events]. fold (cur (track_op cfg m o (observe s')) s').
  set (mc := cur (track_op cfg m o (observe s')) s') in *.
  set (m2 := fold_left (track_offer (observe s')) (rev (out s')) mc).
  set (m3 := fold_left (track_idle_stamp (o_snap (m_prev m))) (o_snap (observe s')) m2).
  assert (Hr : m_reqs m3 = m_reqs mc) by (unfold m3, m2; rewrite mreqs_idle_stamps, mreqs_fold_offer; reflexivity).
  assert (Hk : m_keys m3 = m_keys mc).
  { unfold m3, m2. destruct (view_idle_stamps (o_snap (m_prev m)) (o_snap (observe s')) (fold_left (track_offer (observe s')) (rev (out s')) mc)) as (_ & _ & ->).
    destruct (view_track_offer (observe s') (rev (out s')) mc) as (_ & _ & ->). reflexivity. }
  constructor.
  - intros r Hx Hg. unfold notlive. cbn [m_reqs set_m_prev set_m_i]. rewrite Hr. apply (A1 r Hx Hg).
  - intros Hp r ck Hx Hq. destruct (A2 Hp r ck Hx Hq) as [(q & Hq1 & Hq2) B2]. split; [|exact B2].
    exists q. unfold RV, key_tok in *. cbn [m_reqs m_keys set_m_prev set_m_i]. rewrite Hr, Hk. auto.
  - cbn [m_reqs set_m_prev set_m_i]. rewrite Hr. exact A3.
Qed.

Lemma cA3'_A3 T s m e : (g_pool cfg = true -> forall t, In t T -> idl s t = []) -> cA3' T m e = true -> cA3 cfg (observe s) m e = true.
Proof.
  intros Hpr. destruct e; cbn [cA3' cA3]; auto. destruct (nth_error (m_reqs m) r) as [y|]; auto.
  destruct (g_pool cfg) eqn:Ep; [|auto]. cbn [andb]. destruct (is_live y && _); [|auto].
  intros Hm. unfold memn in Hm. apply existsb_exists in Hm. destruct Hm as (t & Hin & Et). apply Nat.eqb_eq in Et. subst t.
  cbn [observe o_snap]. rewrite idle_of_snapshot. fold (idl s (key_tok m (ri_key y))). rewrite (Hpr eq_refl _ Hin). reflexivity.
Qed.

Definition Bnd5 (m : mst) (s : state) : Prop := Bnd3 cfg m s /\ R5 None m s /\ (g_pool cfg = true -> WQ None s).

Lemma step_A3 m s o : Bnd5 m s ->
  chk_A3 cfg m o (observe (step cfg s o)) = true /\ Bnd5 (track cfg m o (observe (step cfg s o))) (step cfg s o).
Proof.
  intros (HB3 & HR5 & HW). pose proof HB3 as (HR3 & HM & HT & _).
  assert (Hlen : List.length (m_reqs m) = List.length (reqs s)).
  { pose proof (r3_nr _ _ _ _ HR3) as Hn. unfold RV in Hn. rewrite map_length in Hn. pose proof (md_len _ _ _ HM). lia. }
  assert (Hka : m_keys m = keys s) by (apply (r3_ka _ _ _ _ HR3); reflexivity).
  set (s' := step cfg s o). set (ob := observe s').
  destruct (step_G5 m s o ob HR5 Hlen Hka) as [He HR']. fold s' in He, HR'.
  assert (HW' : g_pool cfg = true -> WQ None s') by (intros Hp; apply WQ_step; auto).
  split.
  - unfold chk_A3. change (o_events ob) with (rev (out s')). eapply evs_ok_impl; [|exact He]. intros m' e. apply cA3'_A3.
    intros Hp t Hin. unfold T_of in Hin. destruct o; try (destruct Hin; fail).
    apply (poll_promise r (set_out [] s) Hp); [exact (HW' Hp)|exact (TD_step cfg s (Poll r) HT)|exact Hin].
  - split; [apply step_Bnd3; exact HB3|]. split; [apply R5_post; [exact HR'|reflexivity]|exact HW'].
Qed.


End A3.
