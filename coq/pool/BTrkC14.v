(* C14 support, part 6 (clauses (a1) existence, (b), (b')): the tracker/model relation [R3] about
   abandoned requests, dial stages and tokens, carried through the primitives. *)
From HD Require Import common.Base http.Model pool.Model pool.Spec pool.Frames pool.ProofsLite
  pool.BaseC14 pool.FramesC14 pool.TokC14 pool.DialC14 pool.BgC14.
Local Open Scope list_scope.

(* ------------------------------------------------------------------ the tracker view *)
Record rq3 := mkR3 { q_ab : bool; q_dl : dstat; q_rs : option bool; q_key : option key }.
Definition rv3 (y : rinfo) : rq3 := mkR3 (ri_aband y) (ri_dial y) (ri_resolved y) (ri_key y).
Definition RV (m : mst) : list rq3 := map rv3 (m_reqs m).
Definition NC (m : mst) : nat := List.length (m_conns m).

Lemma RV_ri_upd f g r m : (forall y, rv3 (f y) = g (rv3 y)) -> RV (ri_upd f r m) = upd_nth r g (RV m).
Proof. intros H. unfold RV, ri_upd. cbn [m_reqs set_m_reqs]. apply map_upd. exact H. Qed.
Lemma RV_ri_upd_id f r m : (forall y, rv3 (f y) = rv3 y) -> RV (ri_upd f r m) = RV m.
Proof. intros H. unfold RV, ri_upd. cbn [m_reqs set_m_reqs]. apply map_upd_id. exact H. Qed.
Lemma RV_ci_upd f c m : RV (ci_upd f c m) = RV m. Proof. reflexivity. Qed.
Lemma NC_ri_upd f r m : NC (ri_upd f r m) = NC m. Proof. reflexivity. Qed.
Lemma NC_ci_upd f c m : NC (ci_upd f c m) = NC m.
Proof. unfold NC, ci_upd. cbn [m_conns set_m_conns]. apply upd_nth_len. Qed.
Lemma keys_ri_upd f r m : m_keys (ri_upd f r m) = m_keys m. Proof. reflexivity. Qed.
Lemma keys_ci_upd f c m : m_keys (ci_upd f c m) = m_keys m. Proof. reflexivity. Qed.

Definition set_dl (v : dstat) (q : rq3) : rq3 := mkR3 (q_ab q) v (q_rs q) (q_key q).

(* what an event does to the view: [None] = nothing *)
Definition ev_dl (e : ev) : option (nat * dstat) :=
  match e with
  | EDial r _ => Some (r, DsFlying)
  | ENew _ _ r => Some (r, DsOver)
  | ERes r (RErr EConn) | ERes r (RErr EHs) => Some (r, DsOver)
  | _ => None
  end.
Definition is_hand (e : ev) : Prop := match e with EHand _ _ _ _ _ _ => True | _ => False end.

Lemma mkeys_track_ev m e : m_keys (track_ev m e) = m_keys m.
Proof. destruct e; cbn [track_ev]; try reflexivity. - destruct x as [|[]]; reflexivity. - destruct ok; reflexivity. Qed.
Lemma mprev_track_ev m e : m_prev (track_ev m e) = m_prev m.
Proof. destruct e; cbn [track_ev]; try reflexivity. - destruct x as [|[]]; reflexivity. - destruct ok; reflexivity. Qed.

Lemma NC_track_ev m e : NC (track_ev m e) = match e with ENew _ _ _ => S (NC m) | _ => NC m end.
Proof.
  destruct e; cbn [track_ev]; rewrite ?NC_ci_upd, ?NC_ri_upd; try reflexivity.
  - unfold NC. cbn [m_conns set_m_conns]. rewrite app_length. cbn. unfold ri_upd. cbn. lia.
  - destruct x as [|[]]; rewrite ?NC_ri_upd; reflexivity.
  - destruct ok; rewrite ?NC_ci_upd; reflexivity.
Qed.

Lemma RV_track_ev m e : ~ is_hand e ->
  RV (track_ev m e) = match ev_dl e with Some (r, v) => upd_nth r (set_dl v) (RV m) | None => RV m end.
Proof.
  intros Hh. destruct e; cbn [track_ev ev_dl]; try reflexivity.
  - apply RV_ri_upd. reflexivity.
  - change (RV (ri_upd (set_ri_dial DsOver) r m) = upd_nth r (set_dl DsOver) (RV m)). apply RV_ri_upd. reflexivity.
  - contradiction Hh. exact I.
  - apply RV_ri_upd_id. reflexivity.
  - assert (H1 : RV (ri_upd (fun y => set_ri_pend false (set_ri_stat SDone y)) r m) = RV m) by (apply RV_ri_upd_id; reflexivity).
    destruct x as [|[]]; try exact H1; (erewrite RV_ri_upd; [rewrite H1; reflexivity|reflexivity]).
  - destruct ok; reflexivity.
Qed.

Lemma RV_track_hand m r c a b d h :
  exists ab, RV (track_ev m (EHand r c a b d h)) = upd_nth r (fun q => mkR3 (ab q) (q_dl q) (q_rs q) (q_key q)) (RV m).
Proof.
  cbn [track_ev]. rewrite RV_ci_upd.
  set (own := match nth_error (m_conns m) c with Some x => Nat.eqb (ci_origin x) r && Nat.eqb (ci_new_at x) (m_i m) | None => false end).
  exists (fun q => if negb own && match q_dl q with DsFlying => true | _ => false end then true else q_ab q).
  apply RV_ri_upd. intros y. unfold rv3. cbn. destruct (negb own && _); reflexivity.
Qed.

(* ------------------------------------------------------------------ the relation *)
Definition isok (x : dres) : bool := match x with DOk _ => true | _ => false end.
Definition direl (dl : dstat) (rs : option bool) (d : dial) : Prop :=
  (d_stage d = DNew -> dl = DsNone /\ rs = None)
  /\ (d_stage d = DInFlight -> dl = DsFlying /\ rs = None)
  /\ (dl = DsFlying -> rs = None -> d_stage d = DInFlight)
  /\ (dl = DsFlying -> rs = Some true -> exists a, d_stage d = DResolved (DOk a)).
Definition tokof (m : mst) (r t : nat) : Prop := exists q, nth_error (RV m) r = Some q /\ key_tok m (q_key q) = t.

Section BTrk.
Variable cfg : config.

Record R3 (pre : nat) (m : mst) (s : state) : Prop := mkR3' {
  r3_nc : NC m = List.length (conns s);
  r3_nr : List.length (RV m) = List.length (dials s) + pre;
  r3_ka : pre = 0 -> m_keys m = keys s;
  r3_ab : forall r q, nth_error (RV m) r = Some q -> q_ab q = true -> ~ isck s r;
  r3_di : contp cfg = true -> forall r q d, nth_error (RV m) r = Some q -> get_dial s r = Some d -> direl (q_dl q) (q_rs q) d;
  r3_td : forall tid r t own, nth tid (tasks s) None = Some (TDelayed r t own) -> tokof m r t;
  r3_ck : forall r ck, get_req s r = Some (RCheckout ck) -> k_inner ck = IDelayDrop -> tokof m r (k_token ck)
}.

(* the tracker moves without touching the view *)
Lemma R3_view pre m m' s : RV m' = RV m -> NC m' = NC m -> m_keys m' = m_keys m -> R3 pre m s -> R3 pre m' s.
Proof.
  intros E1 E2 E3 [A1 A2 A3 A4 A5 A6 A7]. unfold tokof in *. constructor; rewrite ?E1, ?E2, ?E3; auto.
  - intros tid r t own H. destruct (A6 tid r t own H) as (q & Hq & Hk). exists q. unfold key_tok in *. rewrite E1, E3. auto.
  - intros r ck H Hi. destruct (A7 r ck H Hi) as (q & Hq & Hk). exists q. unfold key_tok in *. rewrite E1, E3. auto.
Qed.

(* the model moves inside the frame *)
Record r3f (pre : nat) (s s' : state) : Prop := mkR3f {
  f_dials : dials s' = dials s;
  f_req : forall r, rel_req (get_req s r) (get_req s' r);
  f_new : forall tid r t own, nth tid (tasks s') None = Some (TDelayed r t own) -> nth tid (tasks s) None = Some (TDelayed r t own);
  f_nc : List.length (conns s') = List.length (conns s);
  f_keys : pre = 0 -> keys s' = keys s
}.
Lemma r3f_mdf pre s s' : mdf s s' -> List.length (conns s') = List.length (conns s) -> (pre = 0 -> keys s' = keys s) -> r3f pre s s'.
Proof. intros F H1 H2. constructor; auto; [apply (mf_dials _ _ F)|apply (mf_req _ _ F)|apply (mf_new _ _ F)]. Qed.
Lemma r3f_mdf_pf pre s s' : mdf s s' -> pf s s' -> r3f pre s s'.
Proof. intros F P. apply r3f_mdf; [exact F|apply cvs_len, (pf_cvs _ _ P)|intros _; apply (pf_keys _ _ P)]. Qed.

Lemma R3_frame pre m s s' : r3f pre s s' -> R3 pre m s -> R3 pre m s'.
Proof.
  intros [F1 F2 F3 F4 F5] [A1 A2 A3 A4 A5 A6 A7]. constructor.
  - congruence.
  - rewrite F1. exact A2.
  - intros Hp. rewrite (F5 Hp). auto.
  - intros r q Hq Hab Hc. apply (A4 r q Hq Hab). apply (rel_req_isck s s' r (F2 r)). exact Hc.
  - intros Hc r q d Hq Hd. unfold get_dial in Hd. rewrite F1 in Hd. eapply A5; eauto.
  - intros tid r t own H. eapply A6. eapply F3. exact H.
  - intros r ck H Hi. pose proof (F2 r) as Hr. destruct (get_req s r) as [[|ck0| | |]|] eqn:E; cbn in Hr; try (rewrite Hr in H; discriminate).
    destruct Hr as (ck' & Hq & Hi' & Ht'). rewrite Hq in H. inversion H; subst ck'. rewrite Ht'. apply (A7 r ck0 E). congruence.
Qed.

Lemma R3_out pre m s s' : conns s' = conns s -> dials s' = dials s -> keys s' = keys s -> reqs s' = reqs s -> tasks s' = tasks s ->
  R3 pre m s -> R3 pre m s'.
Proof.
  intros E1 E2 E3 E4 E5. apply R3_frame. constructor; try congruence.
  intros r. unfold get_req. rewrite E4. apply rel_req_refl.
Qed.

Lemma tokof_move m m' r g r0 t : RV m' = upd_nth r g (RV m) -> (forall q, q_key (g q) = q_key q) -> m_keys m' = m_keys m ->
  tokof m r0 t -> tokof m' r0 t.
Proof.
  intros E1 Hk E3 (q & Hq & Ht). unfold tokof. rewrite E1, nth_error_upd. unfold key_tok in *. rewrite E3.
  destruct (Nat.eqb r r0); [|eauto]. rewrite Hq. cbn. exists (g q). rewrite Hk. auto.
Qed.

Lemma upd_nth_id {A} : forall (l : list A) n, upd_nth n (fun x => x) l = l.
Proof. induction l as [|x l IH]; intros [|n]; cbn; auto. rewrite IH. reflexivity. Qed.

Lemma rel_req_back s s' r ck : rel_req (get_req s r) (get_req s' r) -> get_req s' r = Some (RCheckout ck) ->
  exists ck0, get_req s r = Some (RCheckout ck0) /\ k_inner ck = k_inner ck0 /\ k_token ck = k_token ck0.
Proof.
  intros Hr H. destruct (get_req s r) as [[|ck0| | |]|]; cbn in Hr; try (rewrite Hr in H; discriminate).
  destruct Hr as (ck' & Hq & Hi & Ht). rewrite Hq in H. inversion H; subst ck'. eauto.
Qed.

Lemma R3_move pre m m' s s' r g f :
  RV m' = upd_nth r g (RV m) -> (forall q, q_key (g q) = q_key q) -> m_keys m' = m_keys m ->
  NC m' = List.length (conns s') -> dials s' = upd_nth r f (dials s) -> (pre = 0 -> keys s' = keys s) ->
  (forall r', r' <> r -> rel_req (get_req s r') (get_req s' r')) ->
  (forall tid r0 t own, nth tid (tasks s') None = Some (TDelayed r0 t own) -> nth tid (tasks s) None = Some (TDelayed r0 t own)) ->
  (forall q, nth_error (RV m) r = Some q -> q_ab (g q) = true -> ~ isck s' r) ->
  (forall ck, get_req s' r = Some (RCheckout ck) -> k_inner ck = IDelayDrop -> tokof m r (k_token ck)) ->
  (contp cfg = true -> forall q d, nth_error (RV m) r = Some q -> get_dial s r = Some d ->
     direl (q_dl q) (q_rs q) d -> direl (q_dl (g q)) (q_rs (g q)) (f d)) ->
  R3 pre m s -> R3 pre m' s'.
Proof.
  intros E1 Hk E3 Hnc Hd Hks Hreq Htk Hab Hck Hdi [A1 A2 A3 A4 A5 A6 A7]. constructor.
  - exact Hnc.
  - rewrite E1, Hd, !upd_nth_len. exact A2.
  - intros Hp. rewrite E3, (Hks Hp). auto.
  - intros r' q'. rewrite E1, nth_error_upd. destruct (Nat.eqb_spec r r') as [<-|Hne].
    + destruct (nth_error (RV m) r) as [q|] eqn:Eq; [|discriminate]. cbn. intros H. inversion H; subst q'. apply Hab. reflexivity.
    + intros Hq Hb Hc. apply (A4 r' q' Hq Hb). apply (rel_req_isck s s' r'); [apply Hreq; congruence|exact Hc].
  - intros Hc r' q' d'. rewrite E1, nth_error_upd. unfold get_dial. rewrite Hd, nth_error_upd.
    destruct (Nat.eqb_spec r r') as [<-|Hne]; [|apply A5; exact Hc].
    destruct (nth_error (RV m) r) as [q|] eqn:Eq; [|discriminate]. destruct (nth_error (dials s) r) as [d|] eqn:Ed; [|discriminate].
    cbn. intros H1 H2. inversion H1; inversion H2; subst. apply Hdi; auto. eapply A5; eauto.
  - intros tid r0 t own H. eapply tokof_move; eauto.
  - intros r' ck H Hi. eapply tokof_move; eauto. destruct (Nat.eq_dec r' r) as [->|Hne]; [apply Hck; auto|].
    destruct (rel_req_back s s' r' ck (Hreq r' Hne) H) as (ck0 & H0 & Hi0 & Ht0). rewrite Ht0. apply (A7 r' ck0 H0). congruence.
Qed.


Lemma direl_stage dl rs d d' : d_stage d' = d_stage d -> direl dl rs d -> direl dl rs d'.
Proof. unfold direl. intros ->. auto. Qed.

(* model-only moves *)
Lemma R3_set_req pre m s r v : R3 pre m s ->
  (forall ck', v = RCheckout ck' -> isck s r /\ (k_inner ck' = IDelayDrop -> tokof m r (k_token ck'))) ->
  R3 pre m (set_req r v s).
Proof.
  intros H Hv. pose proof H as [A1 A2 A3 A4 A5 A6 A7].
  apply (R3_move pre m m s (set_req r v s) r (fun q => q) (fun d => d)); auto.
  - rewrite upd_nth_id. reflexivity.
  - cbn. rewrite upd_nth_id. reflexivity.
  - intros r' Hne. rewrite get_req_set_req. destruct (Nat.eqb_spec r r'); [congruence|apply rel_req_refl].
  - intros q Hq Hb [ck Hc]. rewrite get_req_set_req, Nat.eqb_refl in Hc. destruct (get_req s r) as [q0|] eqn:E; [|discriminate].
    cbn in Hc. inversion Hc. destruct (Hv ck H1) as [Hi _]. eapply A4; eauto.
  - intros ck Hc Hi. rewrite get_req_set_req, Nat.eqb_refl in Hc. destruct (get_req s r) as [q0|] eqn:E; [|discriminate].
    cbn in Hc. inversion Hc. destruct (Hv ck H1) as [_ Ht]. auto.
Qed.

Lemma R3_upd_dial pre m s r f : R3 pre m s ->
  (contp cfg = true -> forall q d, nth_error (RV m) r = Some q -> get_dial s r = Some d ->
     direl (q_dl q) (q_rs q) d -> direl (q_dl q) (q_rs q) (f d)) ->
  R3 pre m (upd_dial r f s).
Proof.
  intros H Hf. pose proof H as [A1 A2 A3 A4 A5 A6 A7].
  apply (R3_move pre m m s (upd_dial r f s) r (fun q => q) f); auto.
  - rewrite upd_nth_id. reflexivity.
  - intros r' _. apply rel_req_refl.
  - intros q Hq Hb. apply (A4 r q Hq Hb).
Qed.

Lemma R3_upd_dial_stage pre m s r f : (forall d, d_stage (f d) = d_stage d) -> R3 pre m s -> R3 pre m (upd_dial r f s).
Proof. intros Hs H. apply R3_upd_dial; [exact H|]. intros _ q d _ _. apply direl_stage. apply Hs. Qed.

Lemma R3_spawn_delayed pre m s r t own : R3 pre m s -> tokof m r t -> R3 pre m (spawn (TDelayed r t own) s).
Proof.
  intros [A1 A2 A3 A4 A5 A6 A7] Ht. constructor; auto.
  intros tid r' t' own' H. cbn in H. destruct (Nat.lt_ge_cases tid (List.length (tasks s))) as [Hl|Hg].
  - rewrite app_nth1 in H by exact Hl. eapply A6; eauto.
  - rewrite app_nth2 in H by exact Hg. destruct (tid - List.length (tasks s)) as [|[|k]]; cbn in H; try discriminate.
    inversion H; subst. exact Ht.
Qed.

(* tracker-only moves *)
Lemma R3_ev_dl pre m s e r v : ~ is_hand e -> ev_dl e = Some (r, v) -> (forall c sh r0, e <> ENew c sh r0) ->
  (contp cfg = true -> forall q d, nth_error (RV m) r = Some q -> get_dial s r = Some d -> direl (q_dl q) (q_rs q) d -> direl v (q_rs q) d) ->
  R3 pre m s -> R3 pre (track_ev m e) s.
Proof.
  intros Hh He Hn Hd H. pose proof H as [A1 A2 A3 A4 A5 A6 A7].
  apply (R3_move pre m (track_ev m e) s s r (set_dl v) (fun d => d)); auto.
  - rewrite (RV_track_ev m e Hh), He. reflexivity.
  - apply mkeys_track_ev.
  - rewrite NC_track_ev. destruct e; try exact A1. exfalso. eapply Hn. reflexivity.
  - rewrite upd_nth_id. reflexivity.
  - intros r' _. apply rel_req_refl.
  - intros q Hq Hb. apply (A4 r q Hq Hb).
Qed.

Lemma R3_ev_quiet pre m s e : ~ is_hand e -> ev_dl e = None -> R3 pre m s -> R3 pre (track_ev m e) s.
Proof.
  intros Hh He. apply R3_view.
  - rewrite (RV_track_ev m e Hh), He. reflexivity.
  - rewrite NC_track_ev. destruct e; try reflexivity. discriminate He.
  - apply mkeys_track_ev.
Qed.


(* tracker and model move together *)
Lemma R3_edial pre m s r k d p : R3 pre m s -> get_dial s r = Some d -> d_stage d = DNew ->
  R3 pre (track_ev m (EDial r k)) (upd_dial r (fun d => d_set_polled p (d_set_stage DInFlight d)) s).
Proof.
  intros H Hd Hs. pose proof H as [A1 A2 A3 A4 A5 A6 A7].
  apply (R3_move pre m _ s _ r (set_dl DsFlying) (fun d => d_set_polled p (d_set_stage DInFlight d))); auto.
  - apply (RV_track_ev m (EDial r k)). intros [].
  - intros r' _. apply rel_req_refl.
  - intros q Hq Hb. apply (A4 r q Hq Hb).
  - intros _ q d' Hq Hd' (D1 & _). rewrite Hd in Hd'. inversion Hd'; subst d'. destruct (D1 Hs) as [_ Hr].
    unfold direl. cbn. rewrite Hr. repeat split; auto; try discriminate.
Qed.

Lemma R3_enew pre m s r c sh cn : R3 pre m s ->
  R3 pre (track_ev m (ENew c sh r)) (upd_dial r (d_set_stage DGone) (set_conns (conns s ++ [cn]) s)).
Proof.
  intros H. pose proof H as [A1 A2 A3 A4 A5 A6 A7].
  apply (R3_move pre m _ s _ r (set_dl DsOver) (d_set_stage DGone)); auto.
  - apply (RV_track_ev m (ENew c sh r)). intros [].
  - rewrite NC_track_ev. cbn. rewrite app_length. cbn. lia.
  - intros r' _. apply rel_req_refl.
  - intros q Hq Hb. apply (A4 r q Hq Hb).
  - intros _ q d' _ _ _. unfold direl. cbn. repeat split; intros; discriminate.
Qed.

Lemma R3_ehand pre m s r c a b d h p fin pl c0 g0 : R3 pre m s ->
  R3 pre (track_ev m (EHand r c a b d h)) (set_req r (RHolding p fin pl) (upd_conn c0 g0 s)).
Proof.
  intros H. pose proof H as [A1 A2 A3 A4 A5 A6 A7]. destruct (RV_track_hand m r c a b d h) as [ab Hrv].
  apply (R3_move pre m _ s _ r (fun q => mkR3 (ab q) (q_dl q) (q_rs q) (q_key q)) (fun d => d)); auto.
  - rewrite NC_track_ev. cbn. rewrite upd_nth_len. exact A1.
  - cbn. rewrite upd_nth_id. reflexivity.
  - intros r' Hne. rewrite get_req_set_req. destruct (Nat.eqb_spec r r'); [congruence|apply rel_req_refl].
  - intros q _ _ [ck Hc]. rewrite get_req_set_req, Nat.eqb_refl in Hc. destruct (get_req (upd_conn c0 g0 s) r); discriminate.
  - intros ck Hc. rewrite get_req_set_req, Nat.eqb_refl in Hc. destruct (get_req (upd_conn c0 g0 s) r); discriminate.
Qed.

(* ------------------------------------------------------------------ the log check and [G3] *)
Definition memp (p : nat * nat) (l : list (nat * nat)) : bool := existsb (fun q => Nat.eqb (fst p) (fst q) && Nat.eqb (snd p) (snd q)) l.
Definition cT (obl : list (nat * nat)) (m : mst) (e : ev) : bool :=
  match e with
  | ERdy c true => match nth_error (m_conns m) c with Some _ => true | None => false end
  | ENew c sh r =>
      match nth_error (m_reqs m) r with
      | Some y => if ri_aband y then g_cont cfg && memp (c, key_tok m (ri_key y)) obl else true
      | None => false
      end
  | _ => true
  end.

Definition G3 (obl : list (nat * nat)) (pre : nat) (m0 : mst) (s : state) : Prop :=
  evs_ok (cT obl) m0 (rev (out s)) = true /\ R3 pre (cur m0 s) s.

Lemma memp_cons p q l : memp p l = true -> memp p (q :: l) = true.
Proof. unfold memp. cbn. intros ->. apply orb_true_r. Qed.
Lemma cT_mono obl q m e : cT obl m e = true -> cT (q :: obl) m e = true.
Proof.
  destruct e; cbn [cT]; auto. destruct (nth_error (m_reqs m) r) as [y|]; auto. destruct (ri_aband y); auto.
  rewrite !andb_true_iff. intros [H1 H2]. split; [exact H1|apply memp_cons; exact H2].
Qed.
Lemma G3_mono obl q pre m0 s : G3 obl pre m0 s -> G3 (q :: obl) pre m0 s.
Proof. intros [H1 H2]. split; [|exact H2]. eapply evs_ok_impl; [|exact H1]. intros m e. apply cT_mono. Qed.

(* one more event, with whatever happens to the model *)
Lemma G3_step obl pre m0 s s' e : G3 obl pre m0 s -> out s' = e :: out s -> cT obl (cur m0 s) e = true ->
  R3 pre (track_ev (cur m0 s) e) s' -> G3 obl pre m0 s'.
Proof.
  intros [H1 H2] Ho Hc HR. split.
  - rewrite Ho. cbn [rev]. rewrite evs_ok_snoc, H1. exact Hc.
  - unfold cur in *. rewrite Ho. cbn [rev]. rewrite fold_left_app. exact HR.
Qed.
Lemma G3_same obl pre m0 s s' : G3 obl pre m0 s -> out s' = out s -> R3 pre (cur m0 s) s' -> G3 obl pre m0 s'.
Proof. intros [H1 H2] Ho HR. split; [rewrite Ho; exact H1|rewrite (cur_out m0 s s' Ho); exact HR]. Qed.


Lemma evs_ok_app f : forall l1 l2 m, evs_ok f m (l1 ++ l2) = evs_ok f m l1 && evs_ok f (fold_left track_ev l1 m) l2.
Proof. induction l1 as [|a l1 IH]; intros l2 m; cbn [app evs_ok fold_left]; [reflexivity|]. rewrite IH, andb_assoc. reflexivity. Qed.

Lemma RV_track_ev_gen m e : exists r0 g, RV (track_ev m e) = upd_nth r0 g (RV m) /\ forall q, q_key (g q) = q_key q.
Proof.
  assert (Hn : forall e0, ~ is_hand e0 -> exists r0 g, RV (track_ev m e0) = upd_nth r0 g (RV m) /\ forall q, q_key (g q) = q_key q).
  { intros e0 Hh. rewrite (RV_track_ev m e0 Hh). destruct (ev_dl e0) as [[r0 v]|].
    - exists r0, (set_dl v). split; reflexivity.
    - exists 0, (fun q => q). split; [rewrite upd_nth_id; reflexivity|reflexivity]. }
  destruct e as [r0 k|c sh r0|r0 c a b d h|r0|r0 x|r0 c|c|c okb]; try solve [apply Hn; intros []].
  destruct (RV_track_hand m r0 c a b d h) as [ab Hrv]. eexists _, _. split; [exact Hrv|reflexivity].
Qed.
Lemma tokof_track_ev m e r t : tokof m r t -> tokof (track_ev m e) r t.
Proof.
  intros H. destruct (RV_track_ev_gen m e) as (r0 & g & Hrv & Hk).
  eapply tokof_move; [exact Hrv|exact Hk|apply mkeys_track_ev|exact H].
Qed.
Lemma tokof_fold es : forall m r t, tokof m r t -> tokof (fold_left track_ev es m) r t.
Proof. induction es as [|e es IH]; intros m r t H; cbn [fold_left]; [exact H|]. apply IH, tokof_track_ev, H. Qed.

Definition ext (s s' : state) : Prop := exists es, out s' = es ++ out s.
Lemma ext_refl s : ext s s. Proof. exists []. reflexivity. Qed.
Lemma ext_trans a b c : ext a b -> ext b c -> ext a c.
Proof. intros [l1 H1] [l2 H2]. exists (l2 ++ l1). rewrite H2, H1, app_assoc. reflexivity. Qed.
Lemma ext_same s s' : out s' = out s -> ext s s'. Proof. intros H. exists []. exact H. Qed.
Lemma ext_pf s s' : pf s s' -> ext s s'. Proof. intros P. destruct (pf_out _ _ P) as (es & H & _). exists es. exact H. Qed.
Lemma ext_emit e s : ext s (emit e s). Proof. exists [e]. reflexivity. Qed.
Lemma tokof_ext m0 s s' r t : ext s s' -> tokof (cur m0 s) r t -> tokof (cur m0 s') r t.
Proof. intros [es H]. unfold cur. rewrite H, rev_app_distr, fold_left_app. apply tokof_fold. Qed.

Lemma R3_fold_drops pre s1 es : forall m, Forall is_drop es -> R3 pre m s1 -> R3 pre (fold_left track_ev es m) s1.
Proof.
  induction es as [|e es IH]; intros m HF H; cbn [fold_left]; [exact H|]. inversion HF; subst. apply IH; [assumption|].
  destruct e; try contradiction. apply R3_ev_quiet; auto.
Qed.
Lemma evs_ok_drops obl es : forall m, Forall is_drop es -> evs_ok (cT obl) m es = true.
Proof.
  induction es as [|e es IH]; intros m HF; cbn [evs_ok]; [reflexivity|]. inversion HF; subst.
  rewrite IH by assumption. destruct e; try contradiction. reflexivity.
Qed.

Lemma G3_quiet obl pre m0 s s' : G3 obl pre m0 s -> r3f pre s s' -> drops s s' -> G3 obl pre m0 s'.
Proof.
  intros [H1 H2] F (es & Ho & HF). assert (HF' : Forall is_drop (rev es)) by (apply Forall_rev; exact HF). split.
  - rewrite Ho, rev_app_distr, evs_ok_app, H1. cbn [andb]. apply evs_ok_drops. exact HF'.
  - unfold cur in *. rewrite Ho, rev_app_distr, fold_left_app. apply R3_fold_drops; [exact HF'|]. eapply R3_frame; eauto.
Qed.
Lemma G3_mp obl pre m0 s s' : G3 obl pre m0 s -> mdf s s' -> pf s s' -> G3 obl pre m0 s'.
Proof. intros H F P. eapply G3_quiet; [exact H|apply r3f_mdf_pf; assumption|apply (pf_out _ _ P)]. Qed.


(* ------------------------------------------------------------------ emissions *)
Lemma R3_emit pre m e s : R3 pre m s -> R3 pre m (emit e s).
Proof. apply R3_out; reflexivity. Qed.

Lemma G3_emit_quiet obl pre m0 e s : ~ is_hand e -> ev_dl e = None -> cT obl (cur m0 s) e = true ->
  G3 obl pre m0 s -> G3 obl pre m0 (emit e s).
Proof.
  intros Hh He Hc H. eapply G3_step; [exact H|reflexivity|exact Hc|]. apply R3_emit. apply R3_ev_quiet; auto. apply H.
Qed.

Lemma G3_emit_rdy obl pre m0 c b cn s : get_conn s c = Some cn -> G3 obl pre m0 s -> G3 obl pre m0 (emit (ERdy c b) s).
Proof.
  intros Hc H. apply G3_emit_quiet; [intros []|reflexivity| |exact H].
  destruct b; [|reflexivity]. cbn [cT]. destruct H as [_ HR]. pose proof (r3_nc _ _ _ HR) as Hn. unfold NC in Hn.
  destruct (nth_error (m_conns (cur m0 s)) c) eqn:E; [reflexivity|]. apply nth_error_None in E.
  apply nth_error_lt in Hc. lia.
Qed.

Lemma G3_emit_res obl pre m0 r x s : G3 obl pre m0 s ->
  (contp cfg = true -> ev_dl (ERes r x) <> None -> forall d, get_dial s r = Some d -> d_stage d = DGone) ->
  G3 obl pre m0 (emit (ERes r x) s).
Proof.
  intros H Hg. destruct (ev_dl (ERes r x)) as [[r0 v]|] eqn:Ed.
  - eapply G3_step; [exact H|reflexivity|reflexivity|]. apply R3_emit.
    assert (Er : r0 = r /\ v = DsOver) by (destruct x as [|[]]; cbn in Ed; inversion Ed; auto). destruct Er; subst r0 v.
    apply (R3_ev_dl pre _ s (ERes r x) r DsOver); auto; [intros []| |apply H].
    intros Hc q d Hq Hd _. assert (Es : d_stage d = DGone) by (apply (Hg Hc); [rewrite Ed; discriminate|exact Hd]).
    unfold direl. rewrite Es. repeat split; intros; discriminate.
  - apply G3_emit_quiet; [intros []|exact Ed|reflexivity|exact H].
Qed.

(* ------------------------------------------------------------------ the connector *)
Definition new_share (d : dial) (a : bool) : bool := match d_proto d with H2 => true | H1 => a end.

Lemma G3_connector obl pre m0 rid by_ s : G3 obl pre m0 s ->
  (forall d a, get_dial s rid = Some d -> d_stage d = DResolved (DOk a) ->
     cT obl (cur m0 s) (ENew (List.length (conns s)) (new_share d a) rid) = true) ->
  G3 obl pre m0 (snd (connector_poll rid by_ s)).
Proof.
  intros H Hnew. pose proof H as [_ HR]. unfold connector_poll. destruct (get_dial s rid) as [d|] eqn:Ed; [|exact H].
  destruct (d_stage d) as [| |[a| |]|] eqn:Es; cbn [snd]; try exact H.
  - eapply G3_step; [exact H|reflexivity|reflexivity|].
    eapply R3_out; [| | | | |apply (R3_edial pre _ s rid (d_key d) d (Some by_) HR Ed Es)]; reflexivity.
  - eapply G3_same; [exact H|reflexivity|]. apply R3_upd_dial_stage; [reflexivity|exact HR].
  - eapply G3_step; [exact H|reflexivity|apply (Hnew d a eq_refl Es)|].
    eapply R3_out; [| | | | |apply (R3_enew pre _ s rid _ _ _ HR)]; reflexivity.
  - eapply G3_same; [exact H|reflexivity|]. apply R3_upd_dial; [exact HR|].
    intros _ q d' _ Hd' (_ & _ & D3 & D4). rewrite Ed in Hd'. inversion Hd'; subst d'.
    unfold direl. cbn. repeat split; try (intros; discriminate).
    + intros A B. specialize (D3 A B). congruence.
    + intros A B. destruct (D4 A B) as [a' Ha]. congruence.
  - eapply G3_same; [exact H|reflexivity|]. apply R3_upd_dial; [exact HR|].
    intros _ q d' _ Hd' (_ & _ & D3 & D4). rewrite Ed in Hd'. inversion Hd'; subst d'.
    unfold direl. cbn. repeat split; try (intros; discriminate).
    + intros A B. specialize (D3 A B). congruence.
    + intros A B. destruct (D4 A B) as [a' Ha]. congruence.
Qed.

End BTrk.
