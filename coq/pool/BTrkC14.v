(* C14 support, part 6 (clauses (a1) existence, (b), (b')): the tracker/model relation [R3] about
   abandoned requests, dial stages and tokens, carried through the primitives. *)
From HD Require Import common.Base http.Model pool.Model pool.Spec pool.Frames pool.ProofsLite
  pool.BaseC14 pool.FramesC14 pool.TokC14 pool.DialC14 pool.BgC14 pool.OblC14.
Local Open Scope list_scope.

(* ------------------------------------------------------------------ the tracker view *)
Record rq3 := mkR3 { q_ab : bool; q_dl : dstat; q_rs : option bool; q_key : option key }.
Definition rv3 (y : rinfo) : rq3 := mkR3 (ri_aband y) (ri_dial y) (ri_resolved y) (ri_key y).
Definition RV (m : mst) : list rq3 := map rv3 (m_reqs m).
Definition NC (m : mst) : nat := List.length (m_conns m).

Lemma RV_ri_upd f g r m : (forall y, rv3 (f y) = g (rv3 y)) -> RV (ri_upd f r m) = upd_nth r g (RV m).
Proof. intros H. unfold RV, ri_upd. cbn [m_reqs set_m_reqs]. apply map_upd. exact H. Qed.
Lemma RV_ri_upd_id f r m : (forall y, rv3 (f y) = rv3 y) -> RV (ri_upd f r m) = RV m.
Proof. intros H. unfold RV, ri_upd. cbn [m_reqs set_m_reqs]. apply map_upd_id. exact H. Qed.
Lemma RV_ci_upd f c m : RV (ci_upd f c m) = RV m. Proof. reflexivity. Qed.
Lemma NC_ri_upd f r m : NC (ri_upd f r m) = NC m. Proof. reflexivity. Qed.
Lemma NC_ci_upd f c m : NC (ci_upd f c m) = NC m.
Proof. unfold NC, ci_upd. cbn [m_conns set_m_conns]. apply upd_nth_len. Qed.
Lemma keys_ri_upd f r m : m_keys (ri_upd f r m) = m_keys m. Proof. reflexivity. Qed.
Lemma keys_ci_upd f c m : m_keys (ci_upd f c m) = m_keys m. Proof. reflexivity. Qed.

Definition set_dl (v : dstat) (q : rq3) : rq3 := mkR3 (q_ab q) v (q_rs q) (q_key q).

(* what an event does to the view: [None] = nothing *)
Definition ev_dl (e : ev) : option (nat * dstat) :=
  match e with
  | EDial r _ => Some (r, DsFlying)
  | ENew _ _ r => Some (r, DsOver)
  | ERes r (RErr EConn) | ERes r (RErr EHs) => Some (r, DsOver)
  | _ => None
  end.
Definition is_hand (e : ev) : Prop := match e with EHand _ _ _ _ _ _ => True | _ => False end.

Lemma mkeys_track_ev m e : m_keys (track_ev m e) = m_keys m.
Proof. destruct e; cbn [track_ev]; try reflexivity. - destruct x as [|[]]; reflexivity. - destruct ok; reflexivity. Qed.
Lemma mprev_track_ev m e : m_prev (track_ev m e) = m_prev m.
Proof. destruct e; cbn [track_ev]; try reflexivity. - destruct x as [|[]]; reflexivity. - destruct ok; reflexivity. Qed.

Lemma NC_track_ev m e : NC (track_ev m e) = match e with ENew _ _ _ => S (NC m) | _ => NC m end.
Proof.
  destruct e; cbn [track_ev]; rewrite ?NC_ci_upd, ?NC_ri_upd; try reflexivity.
  - unfold NC. cbn [m_conns set_m_conns]. rewrite app_length. cbn. unfold ri_upd. cbn. lia.
  - destruct x as [|[]]; rewrite ?NC_ri_upd; reflexivity.
  - destruct ok; rewrite ?NC_ci_upd; reflexivity.
Qed.

Lemma RV_track_ev m e : ~ is_hand e ->
  RV (track_ev m e) = match ev_dl e with Some (r, v) => upd_nth r (set_dl v) (RV m) | None => RV m end.
Proof.
  intros Hh. destruct e; cbn [track_ev ev_dl]; try reflexivity.
  - apply RV_ri_upd. reflexivity.
  - change (RV (ri_upd (set_ri_dial DsOver) r m) = upd_nth r (set_dl DsOver) (RV m)). apply RV_ri_upd. reflexivity.
  - contradiction Hh. exact I.
  - apply RV_ri_upd_id. reflexivity.
  - assert (H1 : RV (ri_upd (fun y => set_ri_pend false (set_ri_stat SDone y)) r m) = RV m) by (apply RV_ri_upd_id; reflexivity).
    destruct x as [|[]]; try exact H1; (erewrite RV_ri_upd; [rewrite H1; reflexivity|reflexivity]).
  - destruct ok; reflexivity.
Qed.

Lemma RV_track_hand m r c a b d h :
  exists ab, RV (track_ev m (EHand r c a b d h)) = upd_nth r (fun q => mkR3 (ab q) (q_dl q) (q_rs q) (q_key q)) (RV m).
Proof.
  cbn [track_ev]. rewrite RV_ci_upd.
  set (own := match nth_error (m_conns m) c with Some x => Nat.eqb (ci_origin x) r && Nat.eqb (ci_new_at x) (m_i m) | None => false end).
  exists (fun q => if negb own && match q_dl q with DsFlying => true | _ => false end then true else q_ab q).
  apply RV_ri_upd. intros y. unfold rv3. cbn. destruct (negb own && _); reflexivity.
Qed.

(* ------------------------------------------------------------------ the relation *)
Definition isok (x : dres) : bool := match x with DOk _ => true | _ => false end.
Definition direl (dl : dstat) (rs : option bool) (d : dial) : Prop :=
  (d_stage d = DNew -> dl = DsNone /\ rs = None)
  /\ (d_stage d = DInFlight -> dl = DsFlying /\ rs = None)
  /\ (dl = DsFlying -> rs = None -> d_stage d = DInFlight)
  /\ (dl = DsFlying -> rs = Some true -> exists a, d_stage d = DResolved (DOk a)).
Definition tokof (m : mst) (r t : nat) : Prop := exists q, nth_error (RV m) r = Some q /\ key_tok m (q_key q) = t.

Section BTrk.
Variable cfg : config.

Record R3 (pre : nat) (m : mst) (s : state) : Prop := mkR3' {
  r3_nc : NC m = List.length (conns s);
  r3_nr : List.length (RV m) = List.length (dials s) + pre;
  r3_ka : pre = 0 -> m_keys m = keys s;
  r3_ab : forall r q, nth_error (RV m) r = Some q -> q_ab q = true -> ~ isck s r;
  r3_di : contp cfg = true -> forall r q d, nth_error (RV m) r = Some q -> get_dial s r = Some d -> direl (q_dl q) (q_rs q) d;
  r3_td : forall tid r t own, nth tid (tasks s) None = Some (TDelayed r t own) -> tokof m r t;
  r3_ck : forall r ck, get_req s r = Some (RCheckout ck) -> k_inner ck = IDelayDrop -> tokof m r (k_token ck)
}.

(* the tracker moves without touching the view *)
Lemma R3_view pre m m' s : RV m' = RV m -> NC m' = NC m -> m_keys m' = m_keys m -> R3 pre m s -> R3 pre m' s.
Proof.
  intros E1 E2 E3 [A1 A2 A3 A4 A5 A6 A7]. unfold tokof in *. constructor; rewrite ?E1, ?E2, ?E3; auto.
  - intros tid r t own H. destruct (A6 tid r t own H) as (q & Hq & Hk). exists q. unfold key_tok in *. rewrite E1, E3. auto.
  - intros r ck H Hi. destruct (A7 r ck H Hi) as (q & Hq & Hk). exists q. unfold key_tok in *. rewrite E1, E3. auto.
Qed.

(* the model moves inside the frame *)
Record r3f (pre : nat) (s s' : state) : Prop := mkR3f {
  f_dials : dials s' = dials s;
  f_req : forall r, rel_req (get_req s r) (get_req s' r);
  f_new : forall tid r t own, nth tid (tasks s') None = Some (TDelayed r t own) -> nth tid (tasks s) None = Some (TDelayed r t own);
  f_nc : List.length (conns s') = List.length (conns s);
  f_keys : pre = 0 -> keys s' = keys s
}.
Lemma r3f_mdf pre s s' : mdf s s' -> List.length (conns s') = List.length (conns s) -> (pre = 0 -> keys s' = keys s) -> r3f pre s s'.
Proof. intros F H1 H2. constructor; auto; [apply (mf_dials _ _ F)|apply (mf_req _ _ F)|apply (mf_new _ _ F)]. Qed.
Lemma r3f_mdf_pf pre s s' : mdf s s' -> pf s s' -> r3f pre s s'.
Proof. intros F P. apply r3f_mdf; [exact F|apply cvs_len, (pf_cvs _ _ P)|intros _; apply (pf_keys _ _ P)]. Qed.

Lemma R3_frame pre m s s' : r3f pre s s' -> R3 pre m s -> R3 pre m s'.
Proof.
  intros [F1 F2 F3 F4 F5] [A1 A2 A3 A4 A5 A6 A7]. constructor.
  - congruence.
  - rewrite F1. exact A2.
  - intros Hp. rewrite (F5 Hp). auto.
  - intros r q Hq Hab Hc. apply (A4 r q Hq Hab). apply (rel_req_isck s s' r (F2 r)). exact Hc.
  - intros Hc r q d Hq Hd. unfold get_dial in Hd. rewrite F1 in Hd. eapply A5; eauto.
  - intros tid r t own H. eapply A6. eapply F3. exact H.
  - intros r ck H Hi. pose proof (F2 r) as Hr. destruct (get_req s r) as [[|ck0| | |]|] eqn:E; cbn in Hr; try (rewrite Hr in H; discriminate).
    destruct Hr as (ck' & Hq & Hi' & Ht'). rewrite Hq in H. inversion H; subst ck'. rewrite Ht'. apply (A7 r ck0 E). congruence.
Qed.

Lemma R3_out pre m s s' : conns s' = conns s -> dials s' = dials s -> keys s' = keys s -> reqs s' = reqs s -> tasks s' = tasks s ->
  R3 pre m s -> R3 pre m s'.
Proof.
  intros E1 E2 E3 E4 E5. apply R3_frame. constructor; try congruence.
  intros r. unfold get_req. rewrite E4. apply rel_req_refl.
Qed.

Lemma tokof_move m m' r g r0 t : RV m' = upd_nth r g (RV m) -> (forall q, q_key (g q) = q_key q) -> m_keys m' = m_keys m ->
  tokof m r0 t -> tokof m' r0 t.
Proof.
  intros E1 Hk E3 (q & Hq & Ht). unfold tokof. rewrite E1, nth_error_upd. unfold key_tok in *. rewrite E3.
  destruct (Nat.eqb r r0); [|eauto]. rewrite Hq. cbn. exists (g q). rewrite Hk. auto.
Qed.

Lemma upd_nth_id {A} : forall (l : list A) n, upd_nth n (fun x => x) l = l.
Proof. induction l as [|x l IH]; intros [|n]; cbn; auto. rewrite IH. reflexivity. Qed.

Lemma rel_req_back s s' r ck : rel_req (get_req s r) (get_req s' r) -> get_req s' r = Some (RCheckout ck) ->
  exists ck0, get_req s r = Some (RCheckout ck0) /\ k_inner ck = k_inner ck0 /\ k_token ck = k_token ck0.
Proof.
  intros Hr H. destruct (get_req s r) as [[|ck0| | |]|]; cbn in Hr; try (rewrite Hr in H; discriminate).
  destruct Hr as (ck' & Hq & Hi & Ht). rewrite Hq in H. inversion H; subst ck'. eauto.
Qed.

Lemma R3_move pre m m' s s' r g f :
  RV m' = upd_nth r g (RV m) -> (forall q, q_key (g q) = q_key q) -> m_keys m' = m_keys m ->
  NC m' = List.length (conns s') -> dials s' = upd_nth r f (dials s) -> (pre = 0 -> keys s' = keys s) ->
  (forall r', r' <> r -> rel_req (get_req s r') (get_req s' r')) ->
  (forall tid r0 t own, nth tid (tasks s') None = Some (TDelayed r0 t own) -> nth tid (tasks s) None = Some (TDelayed r0 t own)) ->
  (forall q, nth_error (RV m) r = Some q -> q_ab (g q) = true -> ~ isck s' r) ->
  (forall ck, get_req s' r = Some (RCheckout ck) -> k_inner ck = IDelayDrop -> tokof m r (k_token ck)) ->
  (contp cfg = true -> forall q d, nth_error (RV m) r = Some q -> get_dial s r = Some d ->
     direl (q_dl q) (q_rs q) d -> direl (q_dl (g q)) (q_rs (g q)) (f d)) ->
  R3 pre m s -> R3 pre m' s'.
Proof.
  intros E1 Hk E3 Hnc Hd Hks Hreq Htk Hab Hck Hdi [A1 A2 A3 A4 A5 A6 A7]. constructor.
  - exact Hnc.
  - rewrite E1, Hd, !upd_nth_len. exact A2.
  - intros Hp. rewrite E3, (Hks Hp). auto.
  - intros r' q'. rewrite E1, nth_error_upd. destruct (Nat.eqb_spec r r') as [<-|Hne].
    + destruct (nth_error (RV m) r) as [q|] eqn:Eq; [|discriminate]. cbn. intros H. inversion H; subst q'. apply Hab. reflexivity.
    + intros Hq Hb Hc. apply (A4 r' q' Hq Hb). apply (rel_req_isck s s' r'); [apply Hreq; congruence|exact Hc].
  - intros Hc r' q' d'. rewrite E1, nth_error_upd. unfold get_dial. rewrite Hd, nth_error_upd.
    destruct (Nat.eqb_spec r r') as [<-|Hne]; [|apply A5; exact Hc].
    destruct (nth_error (RV m) r) as [q|] eqn:Eq; [|discriminate]. destruct (nth_error (dials s) r) as [d|] eqn:Ed; [|discriminate].
    cbn. intros H1 H2. inversion H1; inversion H2; subst. apply Hdi; auto. eapply A5; eauto.
  - intros tid r0 t own H. eapply tokof_move; eauto.
  - intros r' ck H Hi. eapply tokof_move; eauto. destruct (Nat.eq_dec r' r) as [->|Hne]; [apply Hck; auto|].
    destruct (rel_req_back s s' r' ck (Hreq r' Hne) H) as (ck0 & H0 & Hi0 & Ht0). rewrite Ht0. apply (A7 r' ck0 H0). congruence.
Qed.


Lemma direl_stage dl rs d d' : d_stage d' = d_stage d -> direl dl rs d -> direl dl rs d'.
Proof. unfold direl. intros ->. auto. Qed.

(* model-only moves *)
Lemma R3_set_req pre m s r v : R3 pre m s ->
  (forall ck', v = RCheckout ck' -> isck s r /\ (k_inner ck' = IDelayDrop -> tokof m r (k_token ck'))) ->
  R3 pre m (set_req r v s).
Proof.
  intros H Hv. pose proof H as [A1 A2 A3 A4 A5 A6 A7].
  apply (R3_move pre m m s (set_req r v s) r (fun q => q) (fun d => d)); auto.
  - rewrite upd_nth_id. reflexivity.
  - cbn. rewrite upd_nth_id. reflexivity.
  - intros r' Hne. rewrite get_req_set_req. destruct (Nat.eqb_spec r r'); [congruence|apply rel_req_refl].
  - intros q Hq Hb [ck Hc]. rewrite get_req_set_req, Nat.eqb_refl in Hc. destruct (get_req s r) as [q0|] eqn:E; [|discriminate].
    cbn in Hc. inversion Hc. destruct (Hv ck H1) as [Hi _]. eapply A4; eauto.
  - intros ck Hc Hi. rewrite get_req_set_req, Nat.eqb_refl in Hc. destruct (get_req s r) as [q0|] eqn:E; [|discriminate].
    cbn in Hc. inversion Hc. destruct (Hv ck H1) as [_ Ht]. auto.
Qed.

Lemma R3_upd_dial pre m s r f : R3 pre m s ->
  (contp cfg = true -> forall q d, nth_error (RV m) r = Some q -> get_dial s r = Some d ->
     direl (q_dl q) (q_rs q) d -> direl (q_dl q) (q_rs q) (f d)) ->
  R3 pre m (upd_dial r f s).
Proof.
  intros H Hf. pose proof H as [A1 A2 A3 A4 A5 A6 A7].
  apply (R3_move pre m m s (upd_dial r f s) r (fun q => q) f); auto.
  - rewrite upd_nth_id. reflexivity.
  - intros r' _. apply rel_req_refl.
  - intros q Hq Hb. apply (A4 r q Hq Hb).
Qed.

Lemma R3_upd_dial_stage pre m s r f : (forall d, d_stage (f d) = d_stage d) -> R3 pre m s -> R3 pre m (upd_dial r f s).
Proof. intros Hs H. apply R3_upd_dial; [exact H|]. intros _ q d _ _. apply direl_stage. apply Hs. Qed.

Lemma R3_spawn_delayed pre m s r t own : R3 pre m s -> tokof m r t -> R3 pre m (spawn (TDelayed r t own) s).
Proof.
  intros [A1 A2 A3 A4 A5 A6 A7] Ht. constructor; auto.
  intros tid r' t' own' H. cbn in H. destruct (Nat.lt_ge_cases tid (List.length (tasks s))) as [Hl|Hg].
  - rewrite app_nth1 in H by exact Hl. eapply A6; eauto.
  - rewrite app_nth2 in H by exact Hg. destruct (tid - List.length (tasks s)) as [|[|k]]; cbn in H; try discriminate.
    inversion H; subst. exact Ht.
Qed.

(* tracker-only moves *)
Lemma R3_ev_dl pre m s e r v : ~ is_hand e -> ev_dl e = Some (r, v) -> (forall c sh r0, e <> ENew c sh r0) ->
  (contp cfg = true -> forall q d, nth_error (RV m) r = Some q -> get_dial s r = Some d -> direl (q_dl q) (q_rs q) d -> direl v (q_rs q) d) ->
  R3 pre m s -> R3 pre (track_ev m e) s.
Proof.
  intros Hh He Hn Hd H. pose proof H as [A1 A2 A3 A4 A5 A6 A7].
  apply (R3_move pre m (track_ev m e) s s r (set_dl v) (fun d => d)); auto.
  - rewrite (RV_track_ev m e Hh), He. reflexivity.
  - apply mkeys_track_ev.
  - rewrite NC_track_ev. destruct e; try exact A1. exfalso. eapply Hn. reflexivity.
  - rewrite upd_nth_id. reflexivity.
  - intros r' _. apply rel_req_refl.
  - intros q Hq Hb. apply (A4 r q Hq Hb).
Qed.

Lemma R3_ev_quiet pre m s e : ~ is_hand e -> ev_dl e = None -> R3 pre m s -> R3 pre (track_ev m e) s.
Proof.
  intros Hh He. apply R3_view.
  - rewrite (RV_track_ev m e Hh), He. reflexivity.
  - rewrite NC_track_ev. destruct e; try reflexivity. discriminate He.
  - apply mkeys_track_ev.
Qed.


(* tracker and model move together *)
Lemma R3_edial pre m s r k d p : R3 pre m s -> get_dial s r = Some d -> d_stage d = DNew ->
  R3 pre (track_ev m (EDial r k)) (upd_dial r (fun d => d_set_polled p (d_set_stage DInFlight d)) s).
Proof.
  intros H Hd Hs. pose proof H as [A1 A2 A3 A4 A5 A6 A7].
  apply (R3_move pre m _ s _ r (set_dl DsFlying) (fun d => d_set_polled p (d_set_stage DInFlight d))); auto.
  - apply (RV_track_ev m (EDial r k)). intros [].
  - intros r' _. apply rel_req_refl.
  - intros q Hq Hb. apply (A4 r q Hq Hb).
  - intros _ q d' Hq Hd' (D1 & _). rewrite Hd in Hd'. inversion Hd'; subst d'. destruct (D1 Hs) as [_ Hr].
    unfold direl. cbn. rewrite Hr. repeat split; auto; try discriminate.
Qed.

Lemma R3_enew pre m s r c sh cn : R3 pre m s ->
  R3 pre (track_ev m (ENew c sh r)) (upd_dial r (d_set_stage DGone) (set_conns (conns s ++ [cn]) s)).
Proof.
  intros H. pose proof H as [A1 A2 A3 A4 A5 A6 A7].
  apply (R3_move pre m _ s _ r (set_dl DsOver) (d_set_stage DGone)); auto.
  - apply (RV_track_ev m (ENew c sh r)). intros [].
  - rewrite NC_track_ev. cbn. rewrite app_length. cbn. lia.
  - intros r' _. apply rel_req_refl.
  - intros q Hq Hb. apply (A4 r q Hq Hb).
  - intros _ q d' _ _ _. unfold direl. cbn. repeat split; intros; discriminate.
Qed.

Lemma R3_ehand pre m s r c a b d h p fin pl c0 g0 : R3 pre m s ->
  R3 pre (track_ev m (EHand r c a b d h)) (set_req r (RHolding p fin pl) (upd_conn c0 g0 s)).
Proof.
  intros H. pose proof H as [A1 A2 A3 A4 A5 A6 A7]. destruct (RV_track_hand m r c a b d h) as [ab Hrv].
  apply (R3_move pre m _ s _ r (fun q => mkR3 (ab q) (q_dl q) (q_rs q) (q_key q)) (fun d => d)); auto.
  - rewrite NC_track_ev. cbn. rewrite upd_nth_len. exact A1.
  - cbn. rewrite upd_nth_id. reflexivity.
  - intros r' Hne. rewrite get_req_set_req. destruct (Nat.eqb_spec r r'); [congruence|apply rel_req_refl].
  - intros q _ _ [ck Hc]. rewrite get_req_set_req, Nat.eqb_refl in Hc. destruct (get_req (upd_conn c0 g0 s) r); discriminate.
  - intros ck Hc. rewrite get_req_set_req, Nat.eqb_refl in Hc. destruct (get_req (upd_conn c0 g0 s) r); discriminate.
Qed.

(* ------------------------------------------------------------------ the log check and [G3] *)
Definition memp (p : nat * nat) (l : list (nat * nat)) : bool := existsb (fun q => Nat.eqb (fst p) (fst q) && Nat.eqb (snd p) (snd q)) l.
Definition cT (obl : list (nat * nat)) (m : mst) (e : ev) : bool :=
  match e with
  | ERdy c true => match nth_error (m_conns m) c with Some _ => true | None => false end
  | ENew c sh r =>
      match nth_error (m_reqs m) r with
      | Some y => if ri_aband y then g_cont cfg && memp (c, key_tok m (ri_key y)) obl else true
      | None => false
      end
  | _ => true
  end.

Definition G3 (obl : list (nat * nat)) (pre : nat) (m0 : mst) (s : state) : Prop :=
  evs_ok (cT obl) m0 (rev (out s)) = true /\ R3 pre (cur m0 s) s.

Lemma memp_cons p q l : memp p l = true -> memp p (q :: l) = true.
Proof. unfold memp. cbn. intros ->. apply orb_true_r. Qed.
Lemma cT_mono obl q m e : cT obl m e = true -> cT (q :: obl) m e = true.
Proof.
  destruct e; cbn [cT]; auto. destruct (nth_error (m_reqs m) r) as [y|]; auto. destruct (ri_aband y); auto.
  rewrite !andb_true_iff. intros [H1 H2]. split; [exact H1|apply memp_cons; exact H2].
Qed.
Lemma G3_mono obl q pre m0 s : G3 obl pre m0 s -> G3 (q :: obl) pre m0 s.
Proof. intros [H1 H2]. split; [|exact H2]. eapply evs_ok_impl; [|exact H1]. intros m e. apply cT_mono. Qed.

(* one more event, with whatever happens to the model *)
Lemma G3_step obl pre m0 s s' e : G3 obl pre m0 s -> out s' = e :: out s -> cT obl (cur m0 s) e = true ->
  R3 pre (track_ev (cur m0 s) e) s' -> G3 obl pre m0 s'.
Proof.
  intros [H1 H2] Ho Hc HR. split.
  - rewrite Ho. cbn [rev]. rewrite evs_ok_snoc, H1. exact Hc.
  - unfold cur in *. rewrite Ho. cbn [rev]. rewrite fold_left_app. exact HR.
Qed.
Lemma G3_same obl pre m0 s s' : G3 obl pre m0 s -> out s' = out s -> R3 pre (cur m0 s) s' -> G3 obl pre m0 s'.
Proof. intros [H1 H2] Ho HR. split; [rewrite Ho; exact H1|rewrite (cur_out m0 s s' Ho); exact HR]. Qed.


Lemma evs_ok_app f : forall l1 l2 m, evs_ok f m (l1 ++ l2) = evs_ok f m l1 && evs_ok f (fold_left track_ev l1 m) l2.
Proof. induction l1 as [|a l1 IH]; intros l2 m; cbn [app evs_ok fold_left]; [reflexivity|]. rewrite IH, andb_assoc. reflexivity. Qed.

Lemma RV_track_ev_gen m e : exists r0 g, RV (track_ev m e) = upd_nth r0 g (RV m) /\ forall q, q_key (g q) = q_key q.
Proof.
  assert (Hn : forall e0, ~ is_hand e0 -> exists r0 g, RV (track_ev m e0) = upd_nth r0 g (RV m) /\ forall q, q_key (g q) = q_key q).
  { intros e0 Hh. rewrite (RV_track_ev m e0 Hh). destruct (ev_dl e0) as [[r0 v]|].
    - exists r0, (set_dl v). split; reflexivity.
    - exists 0, (fun q => q). split; [rewrite upd_nth_id; reflexivity|reflexivity]. }
  destruct e as [r0 k|c sh r0|r0 c a b d h|r0|r0 x|r0 c|c|c okb]; try solve [apply Hn; intros []].
  destruct (RV_track_hand m r0 c a b d h) as [ab Hrv]. eexists _, _. split; [exact Hrv|reflexivity].
Qed.
Lemma tokof_track_ev m e r t : tokof m r t -> tokof (track_ev m e) r t.
Proof.
  intros H. destruct (RV_track_ev_gen m e) as (r0 & g & Hrv & Hk).
  eapply tokof_move; [exact Hrv|exact Hk|apply mkeys_track_ev|exact H].
Qed.
Lemma tokof_fold es : forall m r t, tokof m r t -> tokof (fold_left track_ev es m) r t.
Proof. induction es as [|e es IH]; intros m r t H; cbn [fold_left]; [exact H|]. apply IH, tokof_track_ev, H. Qed.

Definition ext (s s' : state) : Prop := exists es, out s' = es ++ out s.
Lemma ext_refl s : ext s s. Proof. exists []. reflexivity. Qed.
Lemma ext_trans a b c : ext a b -> ext b c -> ext a c.
Proof. intros [l1 H1] [l2 H2]. exists (l2 ++ l1). rewrite H2, H1, app_assoc. reflexivity. Qed.
Lemma ext_same s s' : out s' = out s -> ext s s'. Proof. intros H. exists []. exact H. Qed.
Lemma ext_pf s s' : pf s s' -> ext s s'. Proof. intros P. destruct (pf_out _ _ P) as (es & H & _). exists es. exact H. Qed.
Lemma ext_emit e s : ext s (emit e s). Proof. exists [e]. reflexivity. Qed.
Lemma tokof_ext m0 s s' r t : ext s s' -> tokof (cur m0 s) r t -> tokof (cur m0 s') r t.
Proof. intros [es H]. unfold cur. rewrite H, rev_app_distr, fold_left_app. apply tokof_fold. Qed.

Lemma R3_fold_drops pre s1 es : forall m, Forall is_drop es -> R3 pre m s1 -> R3 pre (fold_left track_ev es m) s1.
Proof.
  induction es as [|e es IH]; intros m HF H; cbn [fold_left]; [exact H|]. inversion HF; subst. apply IH; [assumption|].
  destruct e; try contradiction. apply R3_ev_quiet; auto.
Qed.
Lemma evs_ok_drops obl es : forall m, Forall is_drop es -> evs_ok (cT obl) m es = true.
Proof.
  induction es as [|e es IH]; intros m HF; cbn [evs_ok]; [reflexivity|]. inversion HF; subst.
  rewrite IH by assumption. destruct e; try contradiction. reflexivity.
Qed.

Lemma G3_quiet obl pre m0 s s' : G3 obl pre m0 s -> r3f pre s s' -> drops s s' -> G3 obl pre m0 s'.
Proof.
  intros [H1 H2] F (es & Ho & HF). assert (HF' : Forall is_drop (rev es)) by (apply Forall_rev; exact HF). split.
  - rewrite Ho, rev_app_distr, evs_ok_app, H1. cbn [andb]. apply evs_ok_drops. exact HF'.
  - unfold cur in *. rewrite Ho, rev_app_distr, fold_left_app. apply R3_fold_drops; [exact HF'|]. eapply R3_frame; eauto.
Qed.
Lemma G3_mp obl pre m0 s s' : G3 obl pre m0 s -> mdf s s' -> pf s s' -> G3 obl pre m0 s'.
Proof. intros H F P. eapply G3_quiet; [exact H|apply r3f_mdf_pf; assumption|apply (pf_out _ _ P)]. Qed.


(* ------------------------------------------------------------------ emissions *)
Lemma R3_emit pre m e s : R3 pre m s -> R3 pre m (emit e s).
Proof. apply R3_out; reflexivity. Qed.

Lemma G3_emit_quiet obl pre m0 e s : ~ is_hand e -> ev_dl e = None -> cT obl (cur m0 s) e = true ->
  G3 obl pre m0 s -> G3 obl pre m0 (emit e s).
Proof.
  intros Hh He Hc H. eapply G3_step; [exact H|reflexivity|exact Hc|]. apply R3_emit. apply R3_ev_quiet; auto. apply H.
Qed.

Lemma G3_emit_rdy obl pre m0 c b cn s : get_conn s c = Some cn -> G3 obl pre m0 s -> G3 obl pre m0 (emit (ERdy c b) s).
Proof.
  intros Hc H. apply G3_emit_quiet; [intros []|reflexivity| |exact H].
  destruct b; [|reflexivity]. cbn [cT]. destruct H as [_ HR]. pose proof (r3_nc _ _ _ HR) as Hn. unfold NC in Hn.
  destruct (nth_error (m_conns (cur m0 s)) c) eqn:E; [reflexivity|]. apply nth_error_None in E.
  apply nth_error_lt in Hc. lia.
Qed.

Lemma G3_emit_res obl pre m0 r x s : G3 obl pre m0 s ->
  (contp cfg = true -> ev_dl (ERes r x) <> None -> forall d, get_dial s r = Some d -> d_stage d = DGone) ->
  G3 obl pre m0 (emit (ERes r x) s).
Proof.
  intros H Hg. destruct (ev_dl (ERes r x)) as [[r0 v]|] eqn:Ed.
  - eapply G3_step; [exact H|reflexivity|reflexivity|]. apply R3_emit.
    assert (Er : r0 = r /\ v = DsOver) by (destruct x as [|[]]; cbn in Ed; inversion Ed; auto). destruct Er; subst r0 v.
    apply (R3_ev_dl pre _ s (ERes r x) r DsOver); [intros []|exact Ed|intros; discriminate| |apply H].
    intros Hc q d Hq Hd _. assert (Es : d_stage d = DGone) by (apply (Hg Hc); [discriminate|exact Hd]).
    unfold direl. rewrite Es. repeat split; intros; discriminate.
  - apply G3_emit_quiet; [intros []|exact Ed|reflexivity|exact H].
Qed.

(* ------------------------------------------------------------------ the connector *)
Definition new_share (d : dial) (a : bool) : bool := match d_proto d with H2 => true | H1 => a end.

Lemma G3_connector obl pre m0 rid by_ s : G3 obl pre m0 s ->
  (forall d a, get_dial s rid = Some d -> d_stage d = DResolved (DOk a) ->
     cT obl (cur m0 s) (ENew (List.length (conns s)) (new_share d a) rid) = true) ->
  G3 obl pre m0 (snd (connector_poll rid by_ s)).
Proof.
  intros H Hnew. pose proof H as [_ HR]. unfold connector_poll. destruct (get_dial s rid) as [d|] eqn:Ed; [|exact H].
  destruct (d_stage d) as [| |[a| |]|] eqn:Es; cbn [snd]; try exact H.
  - eapply G3_step; [exact H|reflexivity|reflexivity|].
    eapply R3_out; [| | | | |apply (R3_edial pre _ s rid (d_key d) d (Some by_) HR Ed Es)]; reflexivity.
  - eapply G3_same; [exact H|reflexivity|]. apply R3_upd_dial_stage; [reflexivity|exact HR].
  - eapply G3_step; [exact H|reflexivity|apply (Hnew d a eq_refl Es)|].
    apply (R3_out pre _ (upd_dial rid (d_set_stage DGone) (set_conns (conns s ++ [mkConn rid (new_share d a) true true 1 0 []]) s))); try reflexivity.
    apply R3_enew. exact HR.
  - eapply G3_same; [exact H|reflexivity|]. apply R3_upd_dial; [exact HR|].
    intros _ q d' _ Hd' (_ & _ & D3 & D4). rewrite Ed in Hd'. inversion Hd'; subst d'.
    unfold direl. cbn. repeat split; try (intros; discriminate).
    + intros A B. specialize (D3 A B). congruence.
    + intros A B. destruct (D4 A B) as [a' Ha]. congruence.
  - eapply G3_same; [exact H|reflexivity|]. apply R3_upd_dial; [exact HR|].
    intros _ q d' _ Hd' (_ & _ & D3 & D4). rewrite Ed in Hd'. inversion Hd'; subst d'.
    unfold direl. cbn. repeat split; try (intros; discriminate).
    + intros A B. specialize (D3 A B). congruence.
    + intros A B. destruct (D4 A B) as [a' Ha]. congruence.
Qed.


(* ------------------------------------------------------------------ dropping a checkout *)
Lemma direl_gone_from_new dl rs d d' : d_stage d = DNew -> d_stage d' = DGone -> direl dl rs d -> direl dl rs d'.
Proof.
  intros E E' (D1 & _). destruct (D1 E) as [-> ->]. unfold direl. rewrite E'. repeat split; intros; discriminate.
Qed.

Lemma G3_checkout_drop obl pre m0 rid ck s : G3 obl pre m0 s -> kin cfg ck ->
  (k_inner ck = IDelayDrop -> tokof (cur m0 s) rid (k_token ck)) -> G3 obl pre m0 (checkout_drop cfg rid ck s).
Proof.
  intros H (K1 & K2 & K3) Htk. unfold checkout_drop.
  set (s1 := match k_conn ck with
             | Some c => if is_open s c && (g_pool cfg && negb (k_token ck =? 0)) then pool_push (g_max_idle cfg) (k_token ck) c s else drop_conn c s
             | None => s end).
  assert (F1 : mdf s s1 /\ pf s s1).
  { subst s1. destruct (k_conn ck) as [c|]; [|split; [apply mdf_refl|apply pf_refl]].
    destruct (is_open s c && (g_pool cfg && negb (k_token ck =? 0))); split;
      auto using mdf_pool_push, pf_pool_push, mdf_drop_conn, pf_drop_conn. }
  destruct F1 as [F1 P1]. assert (H1 : G3 obl pre m0 s1) by (eapply G3_mp; eauto).
  assert (Htk1 : k_inner ck = IDelayDrop -> tokof (cur m0 s1) rid (k_token ck)).
  { intros E. eapply tokof_ext; [apply ext_pf; exact P1|auto]. }
  set (started := match get_dial s1 rid with Some d => match d_stage d with DNew => false | _ => true end | None => false end).
  set (delayed := match k_inner ck with IDelayDrop => started | _ => false end).
  set (s2 := if delayed then spawn (TDelayed rid (k_token ck) (k_owner ck)) s1
             else if g_pool cfg && negb (k_token ck =? 0) && k_owner ck then pool_cancel (k_token ck) rid s1 else s1).
  assert (H2 : G3 obl pre m0 s2 /\ dials s2 = dials s1).
  { subst s2. destruct delayed eqn:Ed.
    - assert (Ei : k_inner ck = IDelayDrop) by (subst delayed; destruct (k_inner ck); try discriminate; reflexivity).
      split; [|reflexivity]. eapply G3_same; [exact H1|reflexivity|]. apply R3_spawn_delayed; [apply H1|auto].
    - destruct (g_pool cfg && negb (k_token ck =? 0) && k_owner ck); [|split; [exact H1|reflexivity]].
      split; [eapply G3_mp; [exact H1|apply mdf_pool_cancel|apply pf_pool_cancel]|apply (pf_dials _ _ (pf_pool_cancel _ _ _))]. }
  destruct H2 as [H2 Hd2].
  pose proof (mdf_rx_drop ck s2) as F3. pose proof (pf_rx_drop ck s2) as P3. destruct (rx_drop ck s2) as [ck' s3]. cbn [snd] in F3, P3.
  assert (H3 : G3 obl pre m0 s3) by (eapply G3_mp; eauto).
  assert (Hd3 : get_dial s3 rid = get_dial s1 rid) by (unfold get_dial; rewrite (pf_dials _ _ P3), Hd2; reflexivity).
  assert (Hgone : delayed = false -> (contp cfg = true -> k_inner ck = IDelayDrop) ->
                  G3 obl pre m0 (upd_dial rid (d_set_stage DGone) s3)).
  { intros Ed Hk. eapply G3_same; [exact H3|reflexivity|]. apply R3_upd_dial; [apply H3|].
    intros Hc q d _ Hd. rewrite Hd3 in Hd. specialize (Hk Hc).
    assert (Es : d_stage d = DNew).
    { subst delayed started. rewrite Hk, Hd in Ed. destruct (d_stage d); try discriminate; reflexivity. }
    apply direl_gone_from_new; [exact Es|reflexivity]. }
  destruct (k_inner ck) eqn:Ei; try exact H3.
  - apply Hgone; [reflexivity|]. intros Hc. rewrite (K2 eq_refl) in Hc. discriminate.
  - destruct delayed eqn:Ed; [exact H3|]. apply Hgone; [reflexivity|auto].
  - exfalso. apply K1. reflexivity.
Qed.


(* ------------------------------------------------------------------ polling a checkout *)
Lemma connector_poll_reqs rid b s : reqs (snd (connector_poll rid b s)) = reqs s.
Proof. unfold connector_poll. dm; reflexivity. Qed.
Lemma connector_poll_ready rid b s res d' : fst (connector_poll rid b s) = CReady res ->
  get_dial (snd (connector_poll rid b s)) rid = Some d' -> d_stage d' = DGone.
Proof.
  unfold connector_poll. destruct (get_dial s rid) as [d|] eqn:Ed; cbn [fst snd]; [|discriminate].
  destruct (d_stage d) as [| |[a| |]|]; cbn [fst snd]; try discriminate; intros _ Hd;
    match type of Hd with get_dial (upd_dial rid ?f ?s0) rid = _ =>
      rewrite (get_dial_upd_same s0 rid f d Ed) in Hd end; inversion Hd; reflexivity.
Qed.
Lemma ext_connector_poll rid b s : ext s (snd (connector_poll rid b s)).
Proof.
  unfold connector_poll. destruct (get_dial s rid) as [d|]; [|apply ext_refl].
  destruct (d_stage d) as [| |[a| |]|]; cbn [snd]; try apply ext_refl; try (apply ext_same; reflexivity).
  - eexists [_]. reflexivity.
  - eexists [_]. reflexivity.
Qed.

Definition same_ck (s : state) (rid : nat) (ck : checkout) : Prop :=
  exists ck0, get_req s rid = Some (RCheckout ck0) /\ k_inner ck0 = k_inner ck /\ k_token ck0 = k_token ck.

Lemma same_ck_mdf s s' rid ck : mdf s s' -> same_ck s rid ck -> same_ck s' rid ck.
Proof.
  intros F (ck0 & H0 & Hi & Ht). pose proof (mf_req _ _ F rid) as Hr. rewrite H0 in Hr. destruct Hr as (ck' & Hq & Hi' & Ht').
  exists ck'. split; [exact Hq|]. split; congruence.
Qed.
Lemma same_ck_isck s rid ck : same_ck s rid ck -> isck s rid.
Proof. intros (ck0 & H0 & _). exists ck0. exact H0. Qed.
Lemma same_ck_set s rid ck q : get_req s rid = Some q -> same_ck (set_req rid (RCheckout ck) s) rid ck.
Proof. intros H. exists ck. split; [eapply isck_set_req_same; eauto|auto]. Qed.
Lemma same_ck_tokof pre m s rid ck : R3 pre m s -> same_ck s rid ck -> k_inner ck = IDelayDrop -> tokof m rid (k_token ck).
Proof. intros HR (ck0 & H0 & Hi & Ht) E. rewrite <- Ht. apply (r3_ck _ _ _ HR rid ck0 H0). congruence. Qed.

(* a request that is still a checkout is not abandoned: its own ENew is accepted *)
Lemma cT_own_new obl pre m s rid c sh d : R3 pre m s -> isck s rid -> get_dial s rid = Some d -> cT obl m (ENew c sh rid) = true.
Proof.
  intros HR Hc Hd. cbn [cT]. pose proof (r3_nr _ _ _ HR) as Hn. unfold RV in Hn. rewrite map_length in Hn.
  apply nth_error_lt in Hd. destruct (nth_error (m_reqs m) rid) as [y|] eqn:Ey; [|apply nth_error_None in Ey; lia].
  destruct (ri_aband y) eqn:Ea; [|reflexivity]. exfalso.
  apply (r3_ab _ _ _ HR rid (rv3 y)); [unfold RV; rewrite nth_error_map', Ey; reflexivity|exact Ea|exact Hc].
Qed.

Definition ckp3 obl pre m0 (rid : nat) (s : state) (rs : kpoll * checkout * state) : Prop :=
  G3 obl pre m0 (snd rs) /\ same_ck (snd rs) rid (snd (fst rs)) /\ ext s (snd rs)
  /\ (forall e, fst (fst rs) = KReady (inr e) -> e = EUnavail \/ forall d, get_dial (snd rs) rid = Some d -> d_stage d = DGone).


Lemma G3_checkout_poll obl pre m0 rid ck s : G3 obl pre m0 s -> same_ck s rid ck ->
  ckp3 obl pre m0 rid s (checkout_poll cfg rid ck s).
Proof.
  intros H Hsc. unfold checkout_poll, ckp3.
  destruct (waiter_poll_same ck) as (W1 & W2 & W3 & W4). destruct (waiter_poll ck) as [w ck1]. cbn [snd] in W1, W2, W3, W4.
  assert (Hsc1 : same_ck s rid ck1) by (destruct Hsc as (ck0 & A & B & C); exists ck0; split; [exact A|split; congruence]).
  pose proof (same_ck_isck _ _ _ Hsc) as Hck.
  assert (Hbase : forall kp, (forall e, kp = KReady (inr e) -> e = EUnavail) ->
            G3 obl pre m0 s /\ same_ck s rid ck1 /\ ext s s /\
            (forall e, kp = KReady (inr e) -> e = EUnavail \/ forall d, get_dial s rid = Some d -> d_stage d = DGone)).
  { intros kp Hkp. split; [exact H|]. split; [exact Hsc1|]. split; [apply ext_refl|]. intros e He. left. auto. }
  destruct w; cbn [fst snd]; [apply Hbase; discriminate|apply Hbase; discriminate|].
  destruct (k_inner ck1) eqn:Ei; cbn [fst snd].
  - apply Hbase. intros e He. inversion He. reflexivity.
  - (* IConnected *)
    destruct (k_conn ck1) as [c|]; cbn [fst snd]; [|apply Hbase; discriminate].
    destruct (rx_drop_same (k_set_conn None ck1) s) as (R1 & R2 & _).
    pose proof (mdf_rx_drop (k_set_conn None ck1) s) as F2. pose proof (pf_rx_drop (k_set_conn None ck1) s) as P2.
    destruct (rx_drop (k_set_conn None ck1) s) as [ck2 s2]. cbn [fst snd] in R1, R2, F2, P2.
    assert (H2 : G3 obl pre m0 s2) by (eapply G3_mp; eauto).
    assert (Hck2 : isck s2 rid) by (apply (rel_req_isck s s2 rid (mf_req _ _ F2 rid)); exact Hck).
    assert (H2' : G3 obl pre m0 (set_req rid (RCheckout ck2) s2)).
    { eapply G3_same; [exact H2|reflexivity|]. apply R3_set_req; [apply H2|]. intros ck' E. inversion E; subst ck'.
      split; [exact Hck2|]. intros E'. rewrite R1 in E'. cbn in E'. congruence. }
    destruct Hck2 as [ckx Hx].
    pose proof (same_ck_set s2 rid ck2 _ Hx) as Hsc2.
    pose proof (mdf_register cfg (k_token ck2) c (set_req rid (RCheckout ck2) s2)) as F3.
    pose proof (pf_register cfg (k_token ck2) c (set_req rid (RCheckout ck2) s2)) as P3.
    destruct (register cfg (k_token ck2) c (set_req rid (RCheckout ck2) s2)) as [p s3]. cbn [fst snd] in *.
    split; [eapply G3_mp; eauto|]. split; [eapply same_ck_mdf; eauto|]. split; [|discriminate].
    eapply ext_trans; [apply ext_pf; exact P2|]. eapply ext_trans; [apply (ext_same s2 (set_req rid (RCheckout ck2) s2)); reflexivity|apply ext_pf; exact P3].
  - (* IConnecting *)
    assert (H1 : G3 obl pre m0 (snd (connector_poll rid ByReq s))).
    { apply G3_connector; [exact H|]. intros d a Hd _. eapply cT_own_new; [apply H|exact Hck|exact Hd]. }
    pose proof (connector_poll_reqs rid ByReq s) as Q1. pose proof (connector_poll_ready rid ByReq s) as Q2.
    pose proof (ext_connector_poll rid ByReq s) as X1.
    destruct (connector_poll rid ByReq s) as [r s1]. cbn [fst snd] in *.
    assert (Hsc1' : same_ck s1 rid ck1) by (destruct Hsc1 as (ck0 & A & B); exists ck0; unfold get_req in *; rewrite Q1; auto).
    destruct r as [|res]; cbn [fst snd]; [split; [exact H1|]; split; [exact Hsc1'|]; split; [exact X1|discriminate]|].
    destruct (rx_drop_same ck1 s1) as (R1 & R2 & _). pose proof (mdf_rx_drop ck1 s1) as F2. pose proof (pf_rx_drop ck1 s1) as P2.
    destruct (rx_drop ck1 s1) as [ck2 s2]. cbn [fst snd] in R1, R2, F2, P2.
    assert (H2 : G3 obl pre m0 s2) by (eapply G3_mp; eauto).
    assert (Hck2 : isck s2 rid) by (eapply same_ck_isck, same_ck_mdf; eauto).
    set (ck3 := k_set_inner IConnected ck2).
    assert (H2' : G3 obl pre m0 (set_req rid (RCheckout ck3) s2)).
    { eapply G3_same; [exact H2|reflexivity|]. apply R3_set_req; [apply H2|]. intros ck' E. inversion E; subst ck'.
      split; [exact Hck2|]. intros E'. discriminate E'. }
    destruct Hck2 as [ckx Hx]. pose proof (same_ck_set s2 rid ck3 _ Hx) as Hsc2.
    assert (Hgone : forall d, get_dial (set_req rid (RCheckout ck3) s2) rid = Some d -> d_stage d = DGone).
    { intros d Hd. apply (Q2 res d eq_refl). unfold get_dial in *. cbn in Hd. rewrite (pf_dials _ _ P2) in Hd. exact Hd. }
    assert (X2 : ext s (set_req rid (RCheckout ck3) s2)).
    { eapply ext_trans; [exact X1|]. eapply ext_trans; [apply ext_pf; exact P2|apply ext_same; reflexivity]. }
    destruct res as [c|e]; cbn [fst snd].
    + pose proof (mdf_register cfg (k_token ck3) c (set_req rid (RCheckout ck3) s2)) as F3.
      pose proof (pf_register cfg (k_token ck3) c (set_req rid (RCheckout ck3) s2)) as P3.
      destruct (register cfg (k_token ck3) c (set_req rid (RCheckout ck3) s2)) as [p s3]. cbn [fst snd] in *.
      split; [eapply G3_mp; eauto|]. split; [eapply same_ck_mdf; eauto|]. split; [|discriminate].
      eapply ext_trans; [exact X2|apply ext_pf; exact P3].
    + split; [exact H2'|]. split; [exact Hsc2|]. split; [exact X2|]. intros e0 _. right. exact Hgone.
  - (* IDelayDrop *)
    assert (H1 : G3 obl pre m0 (snd (connector_poll rid ByReq s))).
    { apply G3_connector; [exact H|]. intros d a Hd _. eapply cT_own_new; [apply H|exact Hck|exact Hd]. }
    pose proof (connector_poll_reqs rid ByReq s) as Q1. pose proof (connector_poll_ready rid ByReq s) as Q2.
    pose proof (ext_connector_poll rid ByReq s) as X1.
    destruct (connector_poll rid ByReq s) as [r s1]. cbn [fst snd] in *.
    assert (Hsc1' : same_ck s1 rid ck1) by (destruct Hsc1 as (ck0 & A & B); exists ck0; unfold get_req in *; rewrite Q1; auto).
    destruct r as [|res]; cbn [fst snd]; [split; [exact H1|]; split; [exact Hsc1'|]; split; [exact X1|discriminate]|].
    destruct (rx_drop_same ck1 s1) as (R1 & R2 & _). pose proof (mdf_rx_drop ck1 s1) as F2. pose proof (pf_rx_drop ck1 s1) as P2.
    destruct (rx_drop ck1 s1) as [ck2 s2]. cbn [fst snd] in R1, R2, F2, P2.
    assert (H2 : G3 obl pre m0 s2) by (eapply G3_mp; eauto).
    assert (Hck2 : isck s2 rid) by (eapply same_ck_isck, same_ck_mdf; eauto).
    set (ck3 := k_set_inner IConnected ck2).
    assert (H2' : G3 obl pre m0 (set_req rid (RCheckout ck3) s2)).
    { eapply G3_same; [exact H2|reflexivity|]. apply R3_set_req; [apply H2|]. intros ck' E. inversion E; subst ck'.
      split; [exact Hck2|]. intros E'. discriminate E'. }
    destruct Hck2 as [ckx Hx]. pose proof (same_ck_set s2 rid ck3 _ Hx) as Hsc2.
    assert (Hgone : forall d, get_dial (set_req rid (RCheckout ck3) s2) rid = Some d -> d_stage d = DGone).
    { intros d Hd. apply (Q2 res d eq_refl). unfold get_dial in *. cbn in Hd. rewrite (pf_dials _ _ P2) in Hd. exact Hd. }
    assert (X2 : ext s (set_req rid (RCheckout ck3) s2)).
    { eapply ext_trans; [exact X1|]. eapply ext_trans; [apply ext_pf; exact P2|apply ext_same; reflexivity]. }
    destruct res as [c|e]; cbn [fst snd].
    + pose proof (mdf_register cfg (k_token ck3) c (set_req rid (RCheckout ck3) s2)) as F3.
      pose proof (pf_register cfg (k_token ck3) c (set_req rid (RCheckout ck3) s2)) as P3.
      destruct (register cfg (k_token ck3) c (set_req rid (RCheckout ck3) s2)) as [p s3]. cbn [fst snd] in *.
      split; [eapply G3_mp; eauto|]. split; [eapply same_ck_mdf; eauto|]. split; [|discriminate].
      eapply ext_trans; [exact X2|apply ext_pf; exact P3].
    + split; [exact H2'|]. split; [exact Hsc2|]. split; [exact X2|]. intros e0 _. right. exact Hgone.
  - (* IDelayed: same code path *)
    assert (H1 : G3 obl pre m0 (snd (connector_poll rid ByReq s))).
    { apply G3_connector; [exact H|]. intros d a Hd _. eapply cT_own_new; [apply H|exact Hck|exact Hd]. }
    pose proof (connector_poll_reqs rid ByReq s) as Q1. pose proof (connector_poll_ready rid ByReq s) as Q2.
    pose proof (ext_connector_poll rid ByReq s) as X1.
    destruct (connector_poll rid ByReq s) as [r s1]. cbn [fst snd] in *.
    assert (Hsc1' : same_ck s1 rid ck1) by (destruct Hsc1 as (ck0 & A & B); exists ck0; unfold get_req in *; rewrite Q1; auto).
    destruct r as [|res]; cbn [fst snd]; [split; [exact H1|]; split; [exact Hsc1'|]; split; [exact X1|discriminate]|].
    destruct (rx_drop_same ck1 s1) as (R1 & R2 & _). pose proof (mdf_rx_drop ck1 s1) as F2. pose proof (pf_rx_drop ck1 s1) as P2.
    destruct (rx_drop ck1 s1) as [ck2 s2]. cbn [fst snd] in R1, R2, F2, P2.
    assert (H2 : G3 obl pre m0 s2) by (eapply G3_mp; eauto).
    assert (Hck2 : isck s2 rid) by (eapply same_ck_isck, same_ck_mdf; eauto).
    set (ck3 := k_set_inner IConnected ck2).
    assert (H2' : G3 obl pre m0 (set_req rid (RCheckout ck3) s2)).
    { eapply G3_same; [exact H2|reflexivity|]. apply R3_set_req; [apply H2|]. intros ck' E. inversion E; subst ck'.
      split; [exact Hck2|]. intros E'. discriminate E'. }
    destruct Hck2 as [ckx Hx]. pose proof (same_ck_set s2 rid ck3 _ Hx) as Hsc2.
    assert (Hgone : forall d, get_dial (set_req rid (RCheckout ck3) s2) rid = Some d -> d_stage d = DGone).
    { intros d Hd. apply (Q2 res d eq_refl). unfold get_dial in *. cbn in Hd. rewrite (pf_dials _ _ P2) in Hd. exact Hd. }
    assert (X2 : ext s (set_req rid (RCheckout ck3) s2)).
    { eapply ext_trans; [exact X1|]. eapply ext_trans; [apply ext_pf; exact P2|apply ext_same; reflexivity]. }
    destruct res as [c|e]; cbn [fst snd].
    + pose proof (mdf_register cfg (k_token ck3) c (set_req rid (RCheckout ck3) s2)) as F3.
      pose proof (pf_register cfg (k_token ck3) c (set_req rid (RCheckout ck3) s2)) as P3.
      destruct (register cfg (k_token ck3) c (set_req rid (RCheckout ck3) s2)) as [p s3]. cbn [fst snd] in *.
      split; [eapply G3_mp; eauto|]. split; [eapply same_ck_mdf; eauto|]. split; [|discriminate].
      eapply ext_trans; [exact X2|apply ext_pf; exact P3].
    + split; [exact H2'|]. split; [exact Hsc2|]. split; [exact X2|]. intros e0 _. right. exact Hgone.
Qed.


(* ------------------------------------------------------------------ operations *)
Lemma G3_upd_conn obl pre m0 c f s : G3 obl pre m0 s -> G3 obl pre m0 (upd_conn c f s).
Proof.
  intros H. eapply G3_quiet; [exact H| |apply drops_same; reflexivity].
  apply r3f_mdf; [apply mdf_upd_conn|cbn; apply upd_nth_len|reflexivity].
Qed.
Lemma G3_frame obl pre m0 s s' : G3 obl pre m0 s -> out s' = out s -> conns s' = conns s -> dials s' = dials s -> keys s' = keys s ->
  reqs s' = reqs s -> tasks s' = tasks s -> G3 obl pre m0 s'.
Proof. intros H Ho E1 E2 E3 E4 E5. eapply G3_same; [exact H|exact Ho|]. eapply R3_out; eauto. apply H. Qed.

Lemma G3_hold_release obl pre m0 r p s : G3 obl pre m0 s -> G3 obl pre m0 (hold_release r p s).
Proof.
  intros H. unfold hold_release. eapply G3_mp; [|apply mdf_pooled_drop|apply pf_pooled_drop].
  apply G3_emit_quiet; [intros []|reflexivity|reflexivity|]. apply G3_upd_conn. exact H.
Qed.

Lemma checkout_drop_dial_gone rid ck s : (forall d, get_dial s rid = Some d -> d_stage d = DGone) ->
  forall d, get_dial (checkout_drop cfg rid ck s) rid = Some d -> d_stage d = DGone.
Proof.
  intros Hg. unfold checkout_drop.
  set (s1 := match k_conn ck with
             | Some c => if is_open s c && (g_pool cfg && negb (k_token ck =? 0)) then pool_push (g_max_idle cfg) (k_token ck) c s else drop_conn c s
             | None => s end).
  assert (D1 : dials s1 = dials s).
  { subst s1. destruct (k_conn ck) as [c|]; [|reflexivity].
    match goal with |- context [if ?b then pool_push _ _ _ _ else _] => destruct b end;
      [apply (pf_dials _ _ (pf_pool_push _ _ _ _))|apply (pf_dials _ _ (pf_drop_conn _ _))]. }
  match goal with |- context [rx_drop ck ?x] => set (s2 := x) end.
  assert (D2 : dials s2 = dials s1).
  { subst s2. destruct (match k_inner ck with IDelayDrop => _ | _ => false end); [reflexivity|].
    match goal with |- context [if ?b then pool_cancel _ _ _ else _] => destruct b end;
      [apply (pf_dials _ _ (pf_pool_cancel _ _ _))|reflexivity]. }
  pose proof (pf_dials _ _ (pf_rx_drop ck s2)) as D3. destruct (rx_drop ck s2) as [ck' s3]. cbn [snd] in D3.
  assert (Hs3 : forall d, get_dial s3 rid = Some d -> d_stage d = DGone) by (intros d; unfold get_dial; rewrite D3, D2, D1; apply Hg).
  assert (Hup : forall d, get_dial (upd_dial rid (d_set_stage DGone) s3) rid = Some d -> d_stage d = DGone).
  { intros d. rewrite get_dial_upd, Nat.eqb_refl. destruct (get_dial s3 rid); [|discriminate]. cbn. intros E. inversion E. reflexivity. }
  destruct (k_inner ck); auto. destruct (match get_dial s1 rid with Some d => _ | None => false end); auto.
Qed.


Lemma G3_set_req obl pre m0 r v s : G3 obl pre m0 s ->
  (forall ck', v = RCheckout ck' -> isck s r /\ (k_inner ck' = IDelayDrop -> tokof (cur m0 s) r (k_token ck'))) ->
  G3 obl pre m0 (set_req r v s).
Proof. intros H Hv. eapply G3_same; [exact H|reflexivity|]. apply R3_set_req; [apply H|exact Hv]. Qed.
Lemma G3_unwake obl pre m0 r s : G3 obl pre m0 s -> G3 obl pre m0 (unwake_req r s).
Proof. intros H. eapply G3_frame; [exact H| | | | | |]; reflexivity. Qed.

Lemma G3_do_poll obl m0 r s : G3 obl 0 m0 s -> MD cfg None s -> G3 obl 0 m0 (do_poll cfg r s).
Proof.
  intros H HM. unfold do_poll. destruct (get_req s r) as [[|ck|p fin pl| |]|] eqn:Er; try exact H.
  - (* RError *)
    apply G3_set_req; [|discriminate]. apply G3_emit_res; [apply G3_unwake; exact H|]. intros _ E. contradiction E. reflexivity.
  - (* RCheckout *)
    destruct (md_ck _ _ _ HM r ck Er) as [Hk Hg].
    assert (HM0 : MD cfg (Some r) (unwake_req r s)) by (eapply MD_mdf; [apply mdf_unwake_req|apply MD_weaken; exact HM]).
    assert (Hb : k_token ck <= List.length (toks (unwake_req r s))) by (apply (md_ct _ _ _ HM r ck Er)).
    destruct (MD_checkout_poll cfg r ck (unwake_req r s) HM0 Hk Hg Hb) as (HM1 & Hk1 & Hg1 & Hl1 & Hb1).
    assert (H0 : G3 obl 0 m0 (unwake_req r s)) by (apply G3_unwake; exact H).
    assert (Hsc0 : same_ck (unwake_req r s) r ck) by (exists ck; auto).
    destruct (G3_checkout_poll obl 0 m0 r ck (unwake_req r s) H0 Hsc0) as (H1 & Hsc1 & X1 & He1).
    destruct (checkout_poll cfg r ck (unwake_req r s)) as [[res ck1] s1]. cbn [fst snd] in *.
    assert (Htk1 : k_inner ck1 = IDelayDrop -> tokof (cur m0 s1) r (k_token ck1)) by (eapply same_ck_tokof; [apply H1|exact Hsc1]).
    destruct res as [|[p|e]].
    + (* pending *)
      apply G3_emit_quiet; [intros []|reflexivity|reflexivity|].
      eapply G3_same; [exact H1|reflexivity|]. apply R3_set_req; [apply H1|]. intros ck' E. inversion E; subst ck'.
      split; [eapply same_ck_isck; eauto|exact Htk1].
    + (* handed a connection *)
      destruct (match get_conn s1 (fst p) with Some cn => _ | None => _ end) as [[[sh op_] rd] hs].
      apply G3_emit_quiet; [intros []|reflexivity|reflexivity|].
      apply G3_checkout_drop; [|exact Hk1|].
      * eapply G3_step; [exact H1|reflexivity|reflexivity|].
        match goal with |- R3 _ _ (set_req r ?v (upd_conn ?c ?g (emit ?e s1))) =>
          apply (R3_out 0 _ (set_req r v (upd_conn c g s1))); try reflexivity end.
        apply R3_ehand. apply H1.
      * intros E. eapply tokof_ext; [|apply (Htk1 E)]. eexists [_]. reflexivity.
    + (* error *)
      apply G3_emit_res.
      * apply G3_checkout_drop; [|exact Hk1|].
        -- eapply G3_same; [exact H1|reflexivity|]. apply R3_set_req; [apply H1|discriminate].
        -- intros E. eapply tokof_ext; [|apply (Htk1 E)]. apply ext_same. reflexivity.
      * intros _ Hne. destruct (He1 e eq_refl) as [->|Hgone]; [contradiction Hne; reflexivity|].
        apply checkout_drop_dial_gone. exact Hgone.
  - (* RHolding *)
    destruct fin.
    + apply G3_emit_res; [|intros _ E; contradiction E; reflexivity].
      apply G3_hold_release. apply G3_set_req; [apply G3_unwake; exact H|discriminate].
    + apply G3_emit_quiet; [intros []|reflexivity|reflexivity|].
      apply G3_set_req; [apply G3_unwake; exact H|discriminate].
Qed.


(* ------------------------------------------------------------------ the tracker's reading of the operation *)
Lemma upd_nth_ext_at {A} (g h : A -> A) : forall l n x, nth_error l n = Some x -> g x = h x -> upd_nth n g l = upd_nth n h l.
Proof.
  induction l as [|a l IH]; intros [|n] x H E; cbn in *; try discriminate; auto.
  - inversion H; subst. rewrite E. reflexivity.
  - rewrite (IH n x H E). reflexivity.
Qed.
Lemma upd_nth_none' {A} (g : A -> A) : forall l n, nth_error l n = None -> upd_nth n g l = l.
Proof. induction l as [|a l IH]; intros [|n] H; cbn in *; auto; try discriminate. rewrite IH; auto. Qed.

Lemma map_upd_at {A B} (g : A -> B) (f : A -> A) (h : B -> B) : forall l n,
  (forall x, nth_error l n = Some x -> g (f x) = h (g x)) -> map g (upd_nth n f l) = upd_nth n h (map g l).
Proof.
  induction l as [|a l IH]; intros [|n] H; cbn [upd_nth map]; auto.
  - rewrite (H a eq_refl). reflexivity.
  - rewrite IH; [reflexivity|]. intros x Hx. apply H. exact Hx.
Qed.

(* an update of one tracker entry that keeps dial, outcome and key *)
Lemma RV_ri_upd_ab f r m : (forall y, ri_dial (f y) = ri_dial y /\ ri_resolved (f y) = ri_resolved y /\ ri_key (f y) = ri_key y) ->
  exists ab, RV (ri_upd f r m) = upd_nth r (fun q => mkR3 (ab q) (q_dl q) (q_rs q) (q_key q)) (RV m).
Proof.
  intros Hf. destruct (nth_error (m_reqs m) r) as [y0|] eqn:E.
  - exists (fun _ => ri_aband (f y0)). unfold RV, ri_upd. cbn [m_reqs set_m_reqs]. apply map_upd_at.
    intros x Hx. rewrite E in Hx. inversion Hx; subst x. destruct (Hf y0) as (A & B & C). unfold rv3. cbn. rewrite A, B, C. reflexivity.
  - exists (fun q => q_ab q). unfold RV, ri_upd. cbn [m_reqs set_m_reqs]. apply map_upd_at. intros x Hx. rewrite E in Hx. discriminate.
Qed.

(* a tracker move that only touches the abandon flag of a request that is no checkout *)
Lemma R3_ab_move pre m m' s r ab : RV m' = upd_nth r (fun q => mkR3 (ab q) (q_dl q) (q_rs q) (q_key q)) (RV m) ->
  NC m' = NC m -> m_keys m' = m_keys m -> ~ isck s r -> R3 pre m s -> R3 pre m' s.
Proof.
  intros E1 E2 E3 Hn H. pose proof H as [A1 A2 A3 A4 A5 A6 A7].
  apply (R3_move pre m m' s s r (fun q => mkR3 (ab q) (q_dl q) (q_rs q) (q_key q)) (fun d => d)); auto.
  - congruence.
  - rewrite upd_nth_id. reflexivity.
  - intros r' _. apply rel_req_refl.
Qed.

Lemma track_op_cancel_view m r ob : exists ab,
  RV (track_op cfg m (Cancel r) ob) = upd_nth r (fun q => mkR3 (ab q) (q_dl q) (q_rs q) (q_key q)) (RV m)
  /\ NC (track_op cfg m (Cancel r) ob) = NC m /\ m_keys (track_op cfg m (Cancel r) ob) = m_keys m.
Proof.
  cbn [track_op].
  assert (Hid : exists ab, RV m = upd_nth r (fun q => mkR3 (ab q) (q_dl q) (q_rs q) (q_key q)) (RV m)).
  { exists (fun q => q_ab q). symmetry. erewrite <- (upd_nth_id (RV m) r) at 2.
    destruct (nth_error (RV m) r) as [q0|] eqn:E; [|rewrite !upd_nth_none' by exact E; reflexivity].
    apply (upd_nth_ext_at _ _ _ _ q0 E). destruct q0; reflexivity. }
  destruct (nth_error (m_reqs m) r) as [x|]; [|destruct Hid as [ab Hid]; exists ab; auto].
  set (f := fun y => set_ri_pend false (set_ri_stat SCancelled
       (match ri_stat y, ri_dial y with SLive, DsFlying => set_ri_aband true y | _, _ => y end))).
  assert (Hf : forall y, ri_dial (f y) = ri_dial y /\ ri_resolved (f y) = ri_resolved y /\ ri_key (f y) = ri_key y)
    by (intros y; unfold f; destruct (ri_stat y) eqn:E1, (ri_dial y) eqn:E2; cbn; auto).
  (* the connection-side update that precedes it does not touch the view *)
  assert (Hpre : forall mi, RV mi = RV m -> NC mi = NC m -> m_keys mi = m_keys m ->
            exists ab, RV (ri_upd f r mi) = upd_nth r (fun q => mkR3 (ab q) (q_dl q) (q_rs q) (q_key q)) (RV m)
                       /\ NC (ri_upd f r mi) = NC m /\ m_keys (ri_upd f r mi) = m_keys m).
  { intros mi E1 E2 E3. destruct (RV_ri_upd_ab f r mi Hf) as [ab Hab]. exists ab. rewrite Hab, E1. auto. }
  assert (Hci : forall c, RV (ci_upd (set_ci_back (m_i m)) c m) = RV m /\ NC (ci_upd (set_ci_back (m_i m)) c m) = NC m
                          /\ m_keys (ci_upd (set_ci_back (m_i m)) c m) = m_keys m)
    by (intros c; split; [reflexivity|split; [apply NC_ci_upd|reflexivity]]).
  destruct (ri_stat x); try (destruct Hid as [ab' Hid]; exists ab'; auto; fail).
  - destruct (ri_popx x) as [c|]; [|apply Hpre; reflexivity].
    destruct (nth_error (m_conns m) c) as [y|]; [|apply Hpre; reflexivity].
    destruct (ci_share y); [apply Hpre; reflexivity|]. destruct (Hci c) as (A & B & C). apply Hpre; assumption.
  - apply Hpre; reflexivity.
Qed.


Lemma G3_start obl pre m0 s : out s = [] -> R3 pre m0 s -> G3 obl pre m0 s.
Proof. intros Ho H. unfold G3, cur. rewrite Ho. cbn. auto. Qed.

Lemma R3_cancel m r s ob : R3 0 m s -> ~ isck s r -> R3 0 (track_op cfg m (Cancel r) ob) s.
Proof.
  intros H Hn. destruct (track_op_cancel_view m r ob) as (ab & E1 & E2 & E3). eapply R3_ab_move; eauto.
Qed.
Lemma tokof_cancel m r ob r0 t : tokof m r0 t -> tokof (track_op cfg m (Cancel r) ob) r0 t.
Proof.
  intros H. destruct (track_op_cancel_view m r ob) as (ab & E1 & E2 & E3). eapply tokof_move; [exact E1|reflexivity|exact E3|exact H].
Qed.

Lemma not_isck_set s r v q : get_req s r = Some q -> (forall ck, v <> RCheckout ck) -> ~ isck (set_req r v s) r.
Proof. intros Hq Hv [ck Hc]. rewrite (isck_set_req_same s r q v Hq) in Hc. inversion Hc. eapply Hv; eauto. Qed.

Lemma G3_op_cancel m r s ob : R3 0 m s -> MD cfg None s -> out s = [] ->
  G3 [] 0 (track_op cfg m (Cancel r) ob) (do_cancel cfg r s).
Proof.
  intros H HM Ho. unfold do_cancel.
  assert (Hset : forall q v, get_req s r = Some q -> (forall ck, v <> RCheckout ck) ->
            G3 [] 0 (track_op cfg m (Cancel r) ob) (set_req r v s)).
  { intros q v Hq Hv. apply G3_start; [exact Ho|]. apply R3_cancel; [apply R3_set_req; [exact H|]|eapply not_isck_set; eauto].
    intros ck' E. exfalso. eapply Hv; eauto. }
  destruct (get_req s r) as [[|ck|p fin pl| |]|] eqn:Er.
  - apply G3_unwake. eapply Hset; [reflexivity|discriminate].
  - destruct (md_ck _ _ _ HM r ck Er) as [Hk _]. apply G3_unwake. apply G3_checkout_drop; [eapply Hset; [reflexivity|discriminate]|exact Hk|].
    intros E. replace (cur (track_op cfg m (Cancel r) ob) (set_req r RCancelled s)) with (track_op cfg m (Cancel r) ob)
      by (unfold cur; cbn; rewrite Ho; reflexivity).
    apply tokof_cancel. apply (r3_ck _ _ _ H r ck Er E).
  - apply G3_unwake. apply G3_hold_release. eapply Hset; [reflexivity|discriminate].
  - apply G3_unwake. apply G3_start; [exact Ho|]. apply R3_cancel; [exact H|]. intros [ck Hc]. rewrite Er in Hc. discriminate.
  - apply G3_unwake. apply G3_start; [exact Ho|]. apply R3_cancel; [exact H|]. intros [ck Hc]. rewrite Er in Hc. discriminate.
  - apply G3_start; [exact Ho|]. apply R3_cancel; [exact H|]. intros [ck Hc]. rewrite Er in Hc. discriminate.
Qed.


Definition dd_g (x : dres) (q : rq3) : rq3 :=
  match q_dl q, q_rs q with DsFlying, None => mkR3 (q_ab q) (q_dl q) (Some (isok x)) (q_key q) | _, _ => q end.
Definition dd_f (x : dres) (d : dial) : dial :=
  match d_stage d with DInFlight => d_set_polled None (d_set_stage (DResolved x) d) | _ => d end.

Lemma wake_poller_same p r s : conns (wake_poller p r s) = conns s /\ dials (wake_poller p r s) = dials s /\ keys (wake_poller p r s) = keys s
  /\ reqs (wake_poller p r s) = reqs s /\ tasks (wake_poller p r s) = tasks s /\ out (wake_poller p r s) = out s.
Proof.
  destruct p as [[|tid]|]; cbn [wake_poller].
  - repeat split.
  - unfold wake_task. destruct (existsb (Nat.eqb tid) (runq s)); repeat split.
  - repeat split.
Qed.

Lemma dial_done_dials r x s : dials (do_dial_done r x s) = upd_nth r (dd_f x) (dials s)
  /\ conns (do_dial_done r x s) = conns s /\ keys (do_dial_done r x s) = keys s /\ reqs (do_dial_done r x s) = reqs s
  /\ tasks (do_dial_done r x s) = tasks s /\ out (do_dial_done r x s) = out s.
Proof.
  unfold do_dial_done. destruct (get_dial s r) as [d|] eqn:Ed.
  2: { split; [rewrite upd_nth_none' by exact Ed; reflexivity|auto]. }
  assert (Hid : d_stage d <> DInFlight -> dials s = upd_nth r (dd_f x) (dials s)).
  { intros Hs. rewrite <- (upd_nth_id (dials s) r) at 1. apply (upd_nth_ext_at _ _ _ _ d Ed). unfold dd_f. destruct (d_stage d); congruence. }
  destruct (d_stage d) eqn:Es; try (split; [apply Hid; discriminate|auto]).
  destruct (wake_poller_same (d_polled d) r (upd_dial r (fun d0 => d_set_polled None (d_set_stage (DResolved x) d0)) s)) as (A & B & C & D & E & F).
  rewrite A, B, C, D, E, F. split; [|auto]. cbn. apply (upd_nth_ext_at _ _ _ _ d Ed). unfold dd_f. rewrite Es. reflexivity.
Qed.

Lemma G3_op_dial_done m r x s ob : R3 0 m s -> out s = [] ->
  G3 [] 0 (track_op cfg m (DialDone r x) ob) (do_dial_done r x s).
Proof.
  intros H Ho. destruct (dial_done_dials r x s) as (D1 & D2 & D3 & D4 & D5 & D6).
  apply G3_start; [rewrite D6; exact Ho|]. pose proof H as [A1 A2 A3 A4 A5 A6 A7].
  apply (R3_move 0 m _ s _ r (dd_g x) (dd_f x)); auto.
  - cbn [track_op]. apply RV_ri_upd. intros y. unfold rv3, dd_g. cbn. destruct (ri_dial y) eqn:E1, (ri_resolved y) eqn:E2; cbn; rewrite ?E1, ?E2; reflexivity.
  - intros q. unfold dd_g. destruct (q_dl q), (q_rs q); reflexivity.
  - cbn [track_op]. rewrite NC_ri_upd, D2. exact A1.
  - intros r' _. unfold get_req. rewrite D4. apply rel_req_refl.
  - intros tid r0 t own. rewrite D5. auto.
  - intros q Hq Hb [ck Hc]. unfold get_req in Hc. rewrite D4 in Hc. apply (A4 r q Hq); [|exists ck; exact Hc].
    unfold dd_g in Hb. destruct (q_dl q), (q_rs q); exact Hb.
  - intros ck Hc. unfold get_req in Hc. rewrite D4 in Hc. apply A7. exact Hc.
  - intros _ q d _ _ (E1 & E2 & E3 & E4). destruct q as [ab dl rs k]. cbn [q_dl q_rs] in *.
    unfold dd_g, dd_f, direl. cbn [q_dl q_rs q_ab q_key].
    destruct (d_stage d) eqn:Es.
    + destruct (E1 eq_refl) as [-> ->]. cbn. rewrite Es. repeat split; intros; try discriminate; auto.
    + destruct (E2 eq_refl) as [-> ->]. cbn. repeat split; intros; try discriminate.
      match goal with E : Some _ = Some true |- _ => inversion E end. destruct x; try discriminate. eauto.
    + destruct dl, rs as [b|]; cbn; rewrite ?Es; repeat split; intros; try discriminate; auto;
        try (specialize (E3 eq_refl eq_refl); discriminate).
    + destruct dl, rs as [b|]; cbn; rewrite ?Es; repeat split; intros; try discriminate; auto;
        try (specialize (E3 eq_refl eq_refl); discriminate).
Qed.


(* ------------------------------------------------------------------ Issue *)
Lemma find_key_snoc k : forall ks i, find_key k ks i = None -> find_key k (ks ++ [k]) i = Some (i + List.length ks).
Proof.
  induction ks as [|k0 ks IH]; intros i H; cbn [find_key app List.length] in *.
  - rewrite key_eqb_refl. f_equal. lia.
  - destruct (key_eqb k k0); [discriminate|]. rewrite IH by exact H. f_equal. lia.
Qed.

Lemma issue_keys ks0 k s : ks0 = keys s ->
  (match find_key k ks0 1 with Some _ => ks0 | None => ks0 ++ [k] end) = keys (snd (key_insert k s))
  /\ tok_of (match find_key k ks0 1 with Some _ => ks0 | None => ks0 ++ [k] end) k = fst (key_insert k s).
Proof.
  intros ->. unfold key_insert, tok_of. destruct (find_key k (keys s) 1) as [t|] eqn:E; cbn [fst snd].
  - rewrite E. auto.
  - split; [reflexivity|]. rewrite (find_key_snoc k (keys s) 1 E). cbn. lia.
Qed.

Lemma tok_of_app ks l k t : tok_of ks k = t -> t <> 0 -> tok_of (ks ++ l) k = t.
Proof.
  unfold tok_of. destruct (find_key k ks 1) as [t0|] eqn:E; [|intros <- H; contradiction H; reflexivity].
  intros <- _. rewrite (token_stable k ks l t0 E). reflexivity.
Qed.

Lemma nth_error_app_some' {A} (l l' : list A) n x : nth_error l n = Some x -> nth_error (l ++ l') n = Some x.
Proof. intros H. rewrite nth_error_app1; [exact H|]. eapply nth_error_lt; eauto. Qed.

Definition issue_m (m : mst) (u : nat) (p : proto) (ob : opobs) : mst := track_op cfg m (Issue u p) ob.
Definition issue_ks (m : mst) (u : nat) : list key :=
  match nth u (g_uris cfg) None with
  | Some k' => if g_pool cfg then match find_key k' (m_keys m) 1 with Some _ => m_keys m | None => m_keys m ++ [k'] end else m_keys m
  | None => m_keys m
  end.

Lemma issue_m_view m u p ob :
  RV (issue_m m u p ob) = RV m ++ [mkR3 false DsNone None (nth u (g_uris cfg) None)]
  /\ NC (issue_m m u p ob) = NC m /\ m_keys (issue_m m u p ob) = issue_ks m u.
Proof. unfold issue_m, issue_ks, RV, NC. cbn [track_op m_reqs m_conns m_keys set_m_keys set_m_reqs]. rewrite map_app. auto. Qed.

Lemma issue_ks_ext m u : exists l, issue_ks m u = m_keys m ++ l.
Proof.
  unfold issue_ks. destruct (nth u (g_uris cfg) None) as [k|]; [|exists []; rewrite app_nil_r; reflexivity].
  destruct (g_pool cfg); [|exists []; rewrite app_nil_r; reflexivity].
  destruct (find_key k (m_keys m) 1); [exists []; rewrite app_nil_r; reflexivity|exists [k]; reflexivity].
Qed.

Lemma tokof_issue m u p ob r t : tokof m r t -> t <> 0 -> tokof (issue_m m u p ob) r t.
Proof.
  intros (q & Hq & Hk) Ht. destruct (issue_m_view m u p ob) as (E1 & _ & E3). destruct (issue_ks_ext m u) as [l El].
  exists q. split; [rewrite E1; apply nth_error_app_some'; exact Hq|].
  unfold key_tok in *. rewrite E3, El. destruct (q_key q) as [k0|]; [|congruence]. apply tok_of_app; assumption.
Qed.


Lemma R3_issue_start m u p ob s : R3 0 m s -> MD cfg None s -> R3 1 (issue_m m u p ob) s.
Proof.
  intros [A1 A2 A3 A4 A5 A6 A7] HM. destruct (issue_m_view m u p ob) as (E1 & E2 & E3).
  assert (Hold : forall r q, nth_error (RV (issue_m m u p ob)) r = Some q -> r < List.length (RV m) -> nth_error (RV m) r = Some q).
  { intros r q Hq Hl. rewrite E1, nth_error_app1 in Hq by exact Hl. exact Hq. }
  assert (Hlast : forall r q, nth_error (RV (issue_m m u p ob)) r = Some q -> ~ r < List.length (RV m) ->
                   r = List.length (dials s) /\ q = mkR3 false DsNone None (nth u (g_uris cfg) None)).
  { intros r q Hq Hl. rewrite E1, nth_error_snoc in Hq. destruct (Nat.ltb_spec r (List.length (RV m))); [contradiction|].
    destruct (Nat.eqb_spec r (List.length (RV m))); [|discriminate]. inversion Hq. split; [lia|reflexivity]. }
  constructor.
  - rewrite E2. exact A1.
  - rewrite E1, app_length. cbn. lia.
  - intros E. discriminate E.
  - intros r q Hq Hb. destruct (Nat.lt_ge_cases r (List.length (RV m))) as [Hl|Hg]; [apply (A4 r q); auto|].
    destruct (Hlast r q Hq) as [_ ->]; [lia|]. discriminate Hb.
  - intros Hc r q d Hq Hd. destruct (Nat.lt_ge_cases r (List.length (RV m))) as [Hl|Hg]; [apply (A5 Hc r q d); auto|].
    destruct (Hlast r q Hq) as [-> _]; [lia|]. apply nth_error_lt in Hd. lia.
  - intros tid r t own H. apply tokof_issue; [eapply A6; eauto|]. destruct (md_task _ _ _ HM tid r t own H) as (_ & _ & Ht). exact Ht.
  - intros r ck H Hi. apply tokof_issue; [eapply A7; eauto|]. destruct (md_ck _ _ _ HM r ck H) as [(_ & _ & K3) _].
    destruct (K3 Hi) as (_ & _ & Ht). exact Ht.
Qed.

Lemma R3_add m s q d k : R3 1 m s -> List.length (reqs s) = List.length (dials s) ->
  nth_error (RV m) (List.length (dials s)) = Some (mkR3 false DsNone None k) ->
  m_keys m = keys s -> (d_stage d = DNew \/ d_stage d = DGone) ->
  (forall ck, q = RCheckout ck -> k_inner ck = IDelayDrop -> key_tok m k = k_token ck) ->
  R3 0 m (add_req q d s).
Proof.
  intros [A1 A2 A3 A4 A5 A6 A7] Hlen Hlast Hk Hst Hq. unfold add_req. constructor.
  - exact A1.
  - cbn. rewrite app_length. cbn. lia.
  - intros _. exact Hk.
  - intros r qv Hr Hb [ck Hc]. unfold get_req in Hc. cbn [reqs set_dials set_reqs] in Hc. rewrite nth_error_snoc in Hc.
    destruct (Nat.ltb_spec r (List.length (reqs s))) as [Hl|Hg]; [apply (A4 r qv Hr Hb); exists ck; exact Hc|].
    destruct (Nat.eqb_spec r (List.length (reqs s))) as [->|]; [|discriminate]. rewrite Hlen, Hlast in Hr. inversion Hr; subst qv. discriminate Hb.
  - intros Hc r qv d' Hr Hd. unfold get_dial in Hd. cbn [dials set_dials] in Hd. rewrite nth_error_snoc in Hd.
    destruct (Nat.ltb_spec r (List.length (dials s))) as [Hl|Hg]; [apply (A5 Hc r qv d' Hr Hd)|].
    destruct (Nat.eqb_spec r (List.length (dials s))) as [->|]; [|discriminate]. inversion Hd; subst d'. rewrite Hlast in Hr. inversion Hr; subst qv.
    unfold direl. cbn. destruct Hst as [E|E]; rewrite E; repeat split; intros; try discriminate; auto.
  - exact A6.
  - intros r ck Hc Hi. unfold get_req in Hc. cbn [reqs set_dials set_reqs] in Hc. rewrite nth_error_snoc in Hc.
    destruct (Nat.ltb_spec r (List.length (reqs s))) as [Hl|Hg]; [apply (A7 r ck Hc Hi)|].
    destruct (Nat.eqb_spec r (List.length (reqs s))) as [->|]; [|discriminate]. inversion Hc; subst q.
    rewrite Hlen. eexists. split; [exact Hlast|]. cbn. apply (Hq ck eq_refl Hi).
Qed.


Lemma RV_fold_drops es : forall m, Forall is_drop es -> RV (fold_left track_ev es m) = RV m /\ m_keys (fold_left track_ev es m) = m_keys m.
Proof.
  induction es as [|e es IH]; intros m HF; cbn [fold_left]; [auto|]. inversion HF; subst.
  destruct (IH (track_ev m e) H2) as [-> ->]. destruct e; try contradiction. split; reflexivity.
Qed.
Lemma cur_drops m0 s s' : drops s s' -> RV (cur m0 s') = RV (cur m0 s) /\ m_keys (cur m0 s') = m_keys (cur m0 s).
Proof.
  intros (es & Ho & HF). unfold cur. rewrite Ho, rev_app_distr, fold_left_app. apply RV_fold_drops. apply Forall_rev. exact HF.
Qed.

(* the prefix of [do_issue]: only the pool is touched *)
Record ipre (m1 : mst) (s0 sx : state) : Prop := mkIpre {
  ip_g : G3 [] 1 m1 sx;
  ip_rlen : List.length (reqs sx) = List.length (reqs s0);
  ip_dials : dials sx = dials s0;
  ip_drops : drops s0 sx
}.
Lemma ipre_step m1 s0 sx sy : ipre m1 s0 sx -> r3f 1 sx sy -> List.length (reqs sy) = List.length (reqs sx) -> drops sx sy -> ipre m1 s0 sy.
Proof.
  intros [A B C D] F Hr Hd. constructor.
  - eapply G3_quiet; [exact A|exact F|exact Hd].
  - rewrite Hr. exact B.
  - rewrite (f_dials _ _ _ F). exact C.
  - eapply drops_trans; eauto.
Qed.
Lemma ipre_pf m1 s0 sx sy : ipre m1 s0 sx -> mdf sx sy -> pf sx sy -> ipre m1 s0 sy.
Proof. intros H F P. eapply ipre_step; [exact H|apply r3f_mdf_pf; assumption|apply (mf_rlen _ _ F)|apply (pf_out _ _ P)]. Qed.
Lemma r3f_key_insert k s : r3f 1 s (snd (key_insert k s)) /\ reqs (snd (key_insert k s)) = reqs s.
Proof.
  unfold key_insert. destruct (find_key k (keys s) 1); cbn [snd]; (split; [|reflexivity]); constructor; auto;
    try (intros r; apply rel_req_refl); intros E; discriminate E.
Qed.

Lemma ipre_add m m1 u p ob s0 sx q d : m1 = issue_m m u p ob -> out s0 = [] ->
  List.length (RV m) = List.length (dials s0) -> List.length (reqs s0) = List.length (dials s0) ->
  ipre m1 s0 sx -> issue_ks m u = keys sx -> (d_stage d = DNew \/ d_stage d = DGone) ->
  (forall ck, q = RCheckout ck -> k_inner ck = IDelayDrop ->
     exists k, nth u (g_uris cfg) None = Some k /\ tok_of (issue_ks m u) k = k_token ck) ->
  G3 [] 0 m1 (add_req q d sx).
Proof.
  intros -> Ho Hn Hl [A B C D] Hk Hst Hq. destruct (issue_m_view m u p ob) as (E1 & E2 & E3).
  destruct (cur_drops (issue_m m u p ob) s0 sx D) as [V1 V2].
  assert (Hc0 : cur (issue_m m u p ob) s0 = issue_m m u p ob) by (unfold cur; rewrite Ho; reflexivity).
  rewrite Hc0 in V1, V2.
  destruct A as [Ae Ar]. split; [exact Ae|].
  change (cur (issue_m m u p ob) (add_req q d sx)) with (cur (issue_m m u p ob) sx).
  apply (R3_add _ sx q d (nth u (g_uris cfg) None)); [exact Ar|congruence| | | exact Hst|].
  - rewrite V1, E1, C, <- Hn, nth_error_app2, Nat.sub_diag by lia. reflexivity.
  - rewrite V2, E3. exact Hk.
  - intros ck E Hi. destruct (Hq ck E Hi) as (k & -> & Ht). unfold key_tok. rewrite V2, E3. exact Ht.
Qed.


Lemma conns_key_insert k s : conns (snd (key_insert k s)) = conns s /\ out (snd (key_insert k s)) = out s.
Proof. unfold key_insert. destruct (find_key k (keys s) 1); auto. Qed.

Lemma G3_op_issue m u p s ob : R3 0 m s -> MD cfg None s -> out s = [] ->
  G3 [] 0 (issue_m m u p ob) (do_issue cfg u p s).
Proof.
  intros H HM Ho. set (m1 := issue_m m u p ob). set (s0 := set_woken (woken s ++ [false]) s).
  assert (Hn : List.length (RV m) = List.length (dials s0)) by (rewrite (r3_nr _ _ _ H); cbn; lia).
  assert (Hl : List.length (reqs s0) = List.length (dials s0)) by (apply (md_len _ _ _ HM)).
  assert (Hka : m_keys m = keys s0) by (apply (r3_ka _ _ _ H); reflexivity).
  assert (I0 : ipre m1 s0 s0).
  { constructor; auto using drops_refl. apply G3_start; [exact Ho|]. eapply R3_out; [| | | | |apply (R3_issue_start m u p ob s H HM)]; reflexivity. }
  assert (Hadd : forall sx q d, ipre m1 s0 sx -> issue_ks m u = keys sx -> (d_stage d = DNew \/ d_stage d = DGone) ->
            (forall ck, q = RCheckout ck -> k_inner ck = IDelayDrop ->
               exists k, nth u (g_uris cfg) None = Some k /\ tok_of (issue_ks m u) k = k_token ck) -> G3 [] 0 m1 (add_req q d sx)).
  { intros sx q d. apply (ipre_add m m1 u p ob s0 sx q d eq_refl Ho Hn Hl). }
  unfold do_issue. fold s0. unfold issue_ks in Hadd.
  destruct (nth u (g_uris cfg) None) as [k|] eqn:Eu.
  2: { apply (Hadd s0 RError); auto. discriminate. }
  destruct (g_pool cfg) eqn:Ep; cbn [negb].
  2: { apply (Hadd s0); auto. intros ck E Hi. inversion E; subst ck. discriminate Hi. }
  destruct (issue_keys (m_keys m) k s0 Hka) as [K1 K2].
  destruct (r3f_key_insert k s0) as [F1 R1]. destruct (conns_key_insert k s0) as [C1 O1].
  destruct (key_insert k s0) as [t s1]. cbn [fst snd] in *.
  assert (I1 : ipre m1 s0 s1) by (eapply ipre_step; [exact I0|exact F1|rewrite R1; reflexivity|apply drops_same; exact O1]).
  pose proof (mdf_pool_pop (g_timeout cfg) t s1) as F2. pose proof (pf_pool_pop (g_timeout cfg) t s1) as P2.
  destruct (pool_pop (g_timeout cfg) t s1) as [found s2]. cbn [snd] in F2, P2.
  assert (I2 : ipre m1 s0 s2) by (eapply ipre_pf; eauto).
  assert (K2' : keys s2 = keys s1) by (apply (pf_keys _ _ P2)).
  destruct found as [c|].
  { apply (Hadd s2); [exact I2|congruence|right; reflexivity|]. intros ck E Hi. inversion E; subst ck. discriminate Hi. }
  set (pend := match p_marker (get_tok s2 t) with Some _ => true | None => false end).
  set (s3 := upd_tok t (fun q => set_waiting (p_waiting q ++ [(List.length (reqs s0), pend)]) q) s2).
  assert (I3 : ipre m1 s0 s3) by (eapply ipre_pf; [exact I2|apply mdf_upd_tok|apply pf_upd_tok]).
  assert (K3 : keys s3 = keys s1) by (subst s3; rewrite (pf_keys _ _ (pf_upd_tok _ _ _)); exact K2').
  destruct pend.
  { apply (Hadd s3); [exact I3|congruence|right; reflexivity|]. intros ck E Hi. inversion E; subst ck. discriminate Hi. }
  set (own := match p with H2 => true | H1 => false end).
  set (s4 := if own then upd_tok t (set_marker (Some (List.length (reqs s0)))) s3 else s3).
  assert (I4 : ipre m1 s0 s4 /\ keys s4 = keys s1).
  { subst s4. destruct own; [|auto]. split; [eapply ipre_pf; [exact I3|apply mdf_upd_tok|apply pf_upd_tok]|].
    rewrite (pf_keys _ _ (pf_upd_tok _ _ _)). exact K3. }
  destruct I4 as [I4 K4].
  apply (Hadd s4); [exact I4|congruence|left; reflexivity|].
  intros ck E Hi. inversion E; subst ck. exists k. split; [reflexivity|]. exact K2.
Qed.


(* ------------------------------------------------------------------ background tasks *)
Definition obl_next (tid : nat) (rest : list nat) (s : state) (obl : list (nat * nat)) : list (nat * nat) :=
  match nth tid (tasks s) None with
  | Some (TDelayed rid t own) =>
      match fst (connector_poll rid (ByTask tid) (set_runq rest s)) with CReady (inl c) => (c, t) :: obl | _ => obl end
  | _ => obl
  end.

Lemma memp_head c t l : memp (c, t) ((c, t) :: l) = true.
Proof. unfold memp. cbn. rewrite !Nat.eqb_refl. reflexivity. Qed.

Lemma r3f_finish_task pre tid s : r3f pre s (finish_task tid s).
Proof.
  constructor; auto.
  - intros r. apply rel_req_refl.
  - intros n r t own H. cbn in H. rewrite nth_upd_none in H. destruct (Nat.eqb tid n); [discriminate|exact H].
Qed.
Lemma G3_finish_task obl pre m0 tid s : G3 obl pre m0 s -> G3 obl pre m0 (finish_task tid s).
Proof. intros H. eapply G3_quiet; [exact H|apply r3f_finish_task|apply drops_same; reflexivity]. Qed.
Lemma G3_set_runq obl pre m0 q s : G3 obl pre m0 s -> G3 obl pre m0 (set_runq q s).
Proof. intros H. eapply G3_frame; [exact H| | | | | |]; reflexivity. Qed.

Lemma G3_hand_back obl pre m0 t c s1 : G3 obl pre m0 s1 ->
  G3 obl pre m0 (if is_open s1 c && negb (t =? 0) && g_pool cfg then pool_push (g_max_idle cfg) t c s1 else drop_conn c s1).
Proof. intros H. destruct (_ && _); (eapply G3_mp; [exact H| |]); auto using mdf_pool_push, pf_pool_push, mdf_drop_conn, pf_drop_conn. Qed.

Lemma G3_run_task obl m0 tid rest s : G3 obl 0 m0 s -> MD cfg None s ->
  G3 (obl_next tid rest s obl) 0 m0 (run_task cfg tid (set_runq rest s)).
Proof.
  intros H HM. unfold obl_next, run_task. change (tasks (set_runq rest s)) with (tasks s).
  pose proof (G3_set_runq obl 0 m0 rest s H) as H0.
  destruct (nth tid (tasks s) None) as [[c t|rid t own]|] eqn:Et; [| |exact H0].
  - (* hand-back *)
    destruct (get_conn (set_runq rest s) c) as [cn|] eqn:Ec; [|apply G3_finish_task; exact H0].
    assert (Hfin : forall b, G3 obl 0 m0 (let s1 := finish_task tid (emit (ERdy c b) (set_runq rest s)) in
              if is_open s1 c && negb (t =? 0) && g_pool cfg then pool_push (g_max_idle cfg) t c s1 else drop_conn c s1)).
    { intros b. cbv zeta. apply G3_hand_back. apply G3_finish_task. eapply G3_emit_rdy; eauto. }
    destruct (negb (c_open cn)); [apply Hfin|]. destruct (c_share cn || c_ready cn); [apply Hfin|]. apply G3_upd_conn. exact H0.
  - (* delayed connector *)
    destruct (md_task _ _ _ HM tid rid t own Et) as (Gc & Gp & Gt).
    destruct (r3_td _ _ _ (proj2 H0) tid rid t own Et) as (q & Hq & Hk).
    set (oblx := match fst (connector_poll rid (ByTask tid) (set_runq rest s)) with CReady (inl c) => (c, t) :: obl | _ => obl end).
    assert (H1 : G3 oblx 0 m0 (snd (connector_poll rid (ByTask tid) (set_runq rest s)))).
    { apply G3_connector.
      - subst oblx. destruct (fst (connector_poll rid (ByTask tid) (set_runq rest s))) as [|[c|e]]; try exact H0. apply G3_mono. exact H0.
      - intros d a Hd Hs. subst oblx. unfold connector_poll. rewrite Hd, Hs. cbn [fst].
        cbn [cT]. unfold RV in Hq. rewrite nth_error_map' in Hq. destruct (nth_error (m_reqs (cur m0 (set_runq rest s))) rid) as [y|]; [|discriminate].
        cbn in Hq. inversion Hq; subst q. cbn [q_key rv3] in Hk. destruct (ri_aband y); [|reflexivity].
        rewrite Gc, Hk. cbn [andb]. apply memp_head. }
    destruct (connector_poll rid (ByTask tid) (set_runq rest s)) as [r s1]. cbn [fst snd] in *.
    destruct r as [|[c|e]]; [exact H1| |].
    + pose proof (mdf_register cfg t c s1) as F2. pose proof (pf_register cfg t c s1) as P2.
      destruct (register cfg t c s1) as [p s2]. cbn [snd] in F2, P2.
      eapply G3_mp; [|apply mdf_pooled_drop|apply pf_pooled_drop]. apply G3_finish_task.
      assert (H2 : G3 oblx 0 m0 s2) by (eapply G3_mp; eauto).
      destruct (_ && _); [eapply G3_mp; [exact H2|apply mdf_pool_cancel|apply pf_pool_cancel]|exact H2].
    + apply G3_finish_task. destruct (_ && _); [eapply G3_mp; [exact H1|apply mdf_pool_cancel|apply pf_pool_cancel]|exact H1].
Qed.


Definition GB (live0 : nat -> bool) (obl : list (nat * nat)) (m0 : mst) (s : state) : Prop :=
  G3 obl 0 m0 s /\ OB (g_max_idle cfg) (g_pool cfg) live0 obl s /\ MD cfg None s.

Lemma GB_run_task live0 obl m0 tid rest s : runq s = tid :: rest -> GB live0 obl m0 s ->
  GB live0 (obl_next tid rest s obl) m0 (run_task cfg tid (set_runq rest s)).
Proof.
  intros Hq (H1 & H2 & H3). split; [apply G3_run_task; assumption|]. split; [|apply MD_run_task; assumption].
  unfold obl_next. destruct (nth tid (tasks s) None) as [[c t|rid t own]|] eqn:Et.
  - eapply OB_run_ready; eauto.
  - destruct (md_task _ _ _ H3 tid rid t own Et) as (Gc & Gp & Gt). apply (OB_run_delayed cfg live0 obl tid rest rid t own s Hq Et Gp); [lia|apply (md_tt _ _ _ H3 tid rid t own Et)|exact H2].
  - unfold run_task. change (tasks (set_runq rest s)) with (tasks s). rewrite Et.
    eapply OB_obf; [apply (obf_set_runq tid rest s Hq)|exact H2|]. intros p _ _ _ (_ & Ht & _). rewrite Et in Ht. discriminate.
Qed.

Lemma GB_bg_loop live0 m0 : forall fuel s obl, GB live0 obl m0 s -> exists obl', GB live0 obl' m0 (bg_loop cfg fuel s).
Proof.
  induction fuel as [|f IH]; intros s obl H; cbn [bg_loop]; [eauto|].
  destruct (runq s) as [|tid rest] eqn:Hq; [eauto|]. eapply IH. apply GB_run_task; eauto.
Qed.

(* after the run nothing is pending any more *)
Lemma Fate_final live0 s p : runq s = [] -> Fate (g_max_idle cfg) (g_pool cfg) live0 s p ->
  mem (fst p) (idl s (snd p)) || Nat.leb (g_max_idle cfg) (List.length (idl s (snd p))) || live0 (snd p) = true.
Proof.
  intros Hq (_ & _ & [A|[A|[A|[_ [tid (A & _)]]]]]).
  - apply orb_true_iff. left. apply orb_true_iff. left. unfold mem. apply existsb_exists. exists (fst p). split; [exact A|apply Nat.eqb_refl].
  - apply orb_true_iff. left. apply orb_true_iff. right. apply Nat.leb_le. unfold idl. rewrite map_length. exact A.
  - apply orb_true_iff. right. exact A.
  - rewrite Hq in A. destruct A.
Qed.


(* ------------------------------------------------------------------ the remaining operations *)
Lemma G3_wake_task obl pre m0 t s : G3 obl pre m0 s -> G3 obl pre m0 (wake_task t s).
Proof. intros H. unfold wake_task. destruct (existsb _ _); [exact H|]. eapply G3_frame; [exact H| | | | | |]; reflexivity. Qed.
Lemma G3_wake_tasks obl pre m0 l : forall s, G3 obl pre m0 s -> G3 obl pre m0 (wake_tasks l s).
Proof. induction l as [|t l IH]; intros s H; cbn [wake_tasks]; [exact H|]. apply IH, G3_wake_task, H. Qed.
Lemma G3_drain obl pre m0 c s : G3 obl pre m0 s -> G3 obl pre m0 (drain_conn_waiters c s).
Proof. intros H. unfold drain_conn_waiters. destruct (get_conn s c); [|exact H]. apply G3_wake_tasks, G3_upd_conn, H. Qed.

Definition view_same (m m' : mst) : Prop := RV m' = RV m /\ NC m' = NC m /\ m_keys m' = m_keys m.

Lemma track_op_view m o ob :
  match o with Issue _ _ | Cancel _ | DialDone _ _ => False | _ => True end -> view_same m (track_op cfg m o ob).
Proof.
  intros Ho. destruct o; try contradiction; cbn [track_op]; try (repeat split; reflexivity).
  - destruct (holder_conn m r); [|repeat split; reflexivity]. repeat split; try reflexivity; apply NC_ci_upd.
  - repeat split; try reflexivity; apply NC_ci_upd.
Qed.

Lemma G3_op_other m o s ob : R3 0 m s -> MD cfg None s -> out s = [] ->
  match o with Issue _ _ | Cancel _ | DialDone _ _ | Bg => False | _ => True end ->
  G3 [] 0 (track_op cfg m o ob) (match o with
                                 | Poll r => do_poll cfg r s | Finish r => do_finish r s | Upgrade r => do_upgrade r s
                                 | ConnReady c => do_conn_ready c s | ConnClose c => do_conn_close c s
                                 | Tick dt => set_now (now s + dt)%N s | _ => s end).
Proof.
  intros H HM Ho Hk.
  assert (Hv : view_same m (track_op cfg m o ob)) by (apply track_op_view; destruct o; auto).
  destruct Hv as (V1 & V2 & V3).
  assert (H0 : G3 [] 0 (track_op cfg m o ob) s) by (apply G3_start; [exact Ho|]; eapply R3_view; eauto).
  destruct o; try contradiction.
  - apply G3_do_poll; assumption.
  - unfold do_finish. destruct (get_req s r) as [[|ck|p fin pl| |]|]; try exact H0.
    assert (H1 : G3 [] 0 (track_op cfg m (Finish r) ob) (set_req r (RHolding p true false) s)) by (apply G3_set_req; [exact H0|discriminate]).
    destruct pl; [eapply G3_frame; [exact H1| | | | | |]; reflexivity|exact H1].
  - unfold do_upgrade. destruct (get_req s r) as [[|ck|p fin pl| |]|]; try exact H0. apply G3_drain, G3_upd_conn, H0.
  - unfold do_conn_ready. destruct (get_conn s c); [|exact H0]. apply G3_drain, G3_upd_conn, H0.
  - unfold do_conn_close. destruct (get_conn s c); [|exact H0]. apply G3_drain, G3_upd_conn, H0.
  - eapply G3_frame; [exact H0| | | | | |]; reflexivity.
Qed.


(* ------------------------------------------------------------------ one operation *)
Definition Bnd3 (m : mst) (s : state) : Prop :=
  R3 0 m s /\ MD cfg None s /\ TD s /\ o_snap (m_prev m) = snapshot s.
Definition live0_of (m : mst) (t : nat) : bool := Nat.ltb 0 (live_of (o_snap (m_prev m)) t).

Lemma lv_live s t : lv s t = true -> Nat.ltb 0 (live_of (snapshot s) t) = true.
Proof.
  rewrite live_of_snapshot. unfold lv, wtg, count_live. generalize (p_waiting (get_tok s t)). intros l H.
  apply Nat.ltb_lt. induction l as [|w l IH]; cbn in *; [discriminate|].
  destruct (rx_live s (fst w)); cbn; [lia|]. apply IH. exact H.
Qed.

Lemma snaps_from_reqs s s' : reqs s' = reqs s -> forall l t, snaps_from s' t l = snaps_from s t l.
Proof.
  intros E. induction l as [|p l IH]; intros t; cbn [snaps_from]; [reflexivity|]. rewrite IH.
  assert (Hc : count_live s' (p_waiting p) = count_live s (p_waiting p)).
  { unfold count_live. f_equal. apply filter_ext. intros w. unfold rx_live, get_req. rewrite E. reflexivity. }
  rewrite Hc. reflexivity.
Qed.
Lemma snapshot_set_out v s : snapshot (set_out v s) = snapshot s.
Proof. unfold snapshot. apply snaps_from_reqs. reflexivity. Qed.

Lemma R3_set_out m v s : R3 0 m s -> R3 0 m (set_out v s).
Proof. apply R3_out; reflexivity. Qed.

Lemma step_G3 m s o ob : Bnd3 m s ->
  exists obl, G3 obl 0 (track_op cfg m o ob) (step cfg s o)
    /\ forall p, In p obl ->
         mem (fst p) (idl (step cfg s o) (snd p)) || Nat.leb (g_max_idle cfg) (List.length (idl (step cfg s o) (snd p)))
         || live0_of m (snd p) = true.
Proof.
  intros (HR & HM & HT & Hs). unfold step.
  assert (HR0 : R3 0 m (set_out [] s)) by (apply R3_set_out; exact HR).
  assert (HM0 : MD cfg None (set_out [] s)) by (apply (MD_mdf cfg None s); [apply mdf_frame; reflexivity|exact HM]).
  assert (Hnone : forall s', G3 [] 0 (track_op cfg m o ob) s' -> exists obl, G3 obl 0 (track_op cfg m o ob) s' /\ forall p, In p obl ->
      mem (fst p) (idl s' (snd p)) || Nat.leb (g_max_idle cfg) (List.length (idl s' (snd p))) || live0_of m (snd p) = true)
    by (intros s' H; exists []; split; [exact H|intros p []]).
  destruct o.
  - apply Hnone. apply G3_op_issue; auto.
  - apply Hnone. apply (G3_op_other m (Poll r) (set_out [] s) ob); auto.
  - apply Hnone. apply G3_op_cancel; auto.
  - apply Hnone. apply (G3_op_other m (Finish r) (set_out [] s) ob); auto.
  - apply Hnone. apply (G3_op_other m (Upgrade r) (set_out [] s) ob); auto.
  - apply Hnone. apply G3_op_dial_done; auto.
  - apply Hnone. apply (G3_op_other m (ConnReady c) (set_out [] s) ob); auto.
  - apply Hnone. apply (G3_op_other m (ConnClose c) (set_out [] s) ob); auto.
  - (* Bg *)
    assert (HB : GB (live0_of m) [] (track_op cfg m Bg ob) (set_out [] s)).
    { split; [apply G3_start; [reflexivity|exact HR0]|]. split; [|exact HM0]. split; [intros p []|].
      intros t Hl. unfold live0_of. rewrite Hs, <- (snapshot_set_out [] s). exact (lv_live (set_out [] s) t Hl). }
    destruct (GB_bg_loop (live0_of m) (track_op cfg m Bg ob) (2 * List.length (runq (set_out [] s)) + 1) (set_out [] s) [] HB) as (obl & H1 & H2 & H3).
    exists obl. split; [exact H1|]. intros p Hp. apply Fate_final; [apply do_bg_drains|apply (proj1 H2 p Hp)].
  - apply Hnone. apply (G3_op_other m (Tick dt) (set_out [] s) ob); auto.
Qed.


(* ------------------------------------------------------------------ the checks *)
Lemma evs_ok_impl_inv (P : mst -> Prop) (f g : mst -> ev -> bool) :
  (forall m e, P m -> P (track_ev m e)) -> (forall m e, P m -> f m e = true -> g m e = true) ->
  forall l m, P m -> evs_ok f m l = true -> evs_ok g m l = true.
Proof.
  intros HP Hfg. induction l as [|a l IH]; intros m Hm; cbn [evs_ok]; [reflexivity|].
  rewrite !andb_true_iff. intros [H1 H2]. split; [apply Hfg; assumption|apply IH; [apply HP; exact Hm|exact H2]].
Qed.

Lemma memp_In p l : memp p l = true -> In p l.
Proof.
  unfold memp. intros H. apply existsb_exists in H. destruct H as (q & Hin & Hq). apply andb_true_iff in Hq. destruct Hq as [A B].
  apply Nat.eqb_eq in A, B. destruct p, q; cbn in *; subst. exact Hin.
Qed.

Lemma cT_A1 obl s m e : TD s -> cT obl m e = true -> cA1 cfg (observe s) m e = true.
Proof.
  intros HT. destruct e as [r k|c sh r|r c a b d h|r|r x|r c|c|c okb]; cbn [cT cA1]; auto. destruct okb; [|reflexivity].
  destruct (nth_error (m_conns m) c) as [x|]; [|discriminate]. intros _.
  destruct (g_pool cfg && negb (ci_share x) && match ci_closed x with None => true | _ => false end); [|reflexivity].
  cbn [observe o_snap]. rewrite TD_a1 by exact HT. reflexivity.
Qed.

Lemma cT_B obl s mp m e :
  (forall p, In p obl -> mem (fst p) (idl s (snd p)) || Nat.leb (g_max_idle cfg) (List.length (idl s (snd p))) || live0_of mp (snd p) = true) ->
  m_prev m = m_prev mp -> cT obl m e = true -> cB cfg (observe s) m e = true.
Proof.
  intros Hf Hp. destruct e as [r k|c sh r|r c a b d h|r|r x|r c|c|c okb]; cbn [cT cB]; auto.
  destruct (nth_error (m_reqs m) r) as [y|]; [|discriminate]. destruct (ri_aband y); [|reflexivity].
  rewrite !andb_true_iff. intros [Hc Hm]. split; [exact Hc|]. apply memp_In in Hm. specialize (Hf _ Hm). cbn [fst snd] in Hf.
  cbn [observe o_snap]. rewrite idle_of_snapshot. unfold live0_of in Hf. rewrite Hp. exact Hf.
Qed.

Lemma step_A1 m s o : Bnd3 m s -> chk_A1 cfg m o (observe (step cfg s o)) = true.
Proof.
  intros HB. destruct (step_G3 m s o (observe (step cfg s o)) HB) as (obl & [He _] & _).
  unfold chk_A1. cbn [observe o_events]. eapply evs_ok_impl; [|exact He]. intros m' e. apply cT_A1.
  apply TD_step. apply HB.
Qed.

Lemma step_B m s o : Bnd3 m s -> chk_B cfg m o (observe (step cfg s o)) = true.
Proof.
  intros HB. destruct (step_G3 m s o (observe (step cfg s o)) HB) as (obl & [He _] & Hf).
  unfold chk_B. cbn [observe o_events].
  apply (evs_ok_impl_inv (fun m' => m_prev m' = m_prev m) (cT obl)); [| | |exact He].
  - intros m' e E. rewrite mprev_track_ev. exact E.
  - intros m' e E. apply (cT_B obl (step cfg s o) m); assumption.
  - destruct o; cbn [track_op]; try reflexivity.
    + destruct (nth_error (m_reqs m) r) as [x|]; [|reflexivity]. destruct (ri_stat x); try reflexivity.
      destruct (ri_popx x) as [c|]; [|reflexivity]. destruct (nth_error (m_conns m) c) as [y|]; [|reflexivity]. destruct (ci_share y); reflexivity.
    + destruct (holder_conn m r); reflexivity.
Qed.


Lemma forallb_indexed {A} (f : nat * A -> bool) : forall l k,
  (forall i x, nth_error l i = Some x -> f (k + i, x) = true) -> forallb f (combine (seq k (List.length l)) l) = true.
Proof.
  induction l as [|a l IH]; intros k H; cbn [List.length seq combine forallb]; [reflexivity|].
  rewrite (IH (S k)); [|intros i x Hx; replace (S k + i) with (k + S i) by lia; apply H; exact Hx].
  specialize (H 0 a eq_refl). rewrite Nat.add_0_r in H. rewrite H. reflexivity.
Qed.

Lemma step_bg m s o : Bnd3 m s -> chk_bg_C14 cfg m o (observe (step cfg s o)) = true.
Proof.
  intros (HR & HM & HT & Hs). destruct o; try reflexivity. cbn [chk_bg_C14].
  apply (forallb_indexed _ (m_reqs m) 0). intros i x Hx. cbn [Nat.add].
  destruct (ri_aband x && g_cont cfg && g_pool cfg && match ri_dial x, ri_resolved x with DsFlying, Some true => true | _, _ => false end) eqn:Ec; [|reflexivity].
  apply andb_true_iff in Ec. destruct Ec as [Ec E4]. apply andb_true_iff in Ec. destruct Ec as [Ec E3].
  apply andb_true_iff in Ec. destruct Ec as [E1 E2].
  assert (Hq : nth_error (RV m) i = Some (rv3 x)) by (unfold RV; rewrite nth_error_map', Hx; reflexivity).
  assert (Hn : ~ isck s i) by (apply (r3_ab _ _ _ HR i (rv3 x) Hq E1)).
  assert (Hi : i < List.length (dials s)).
  { pose proof (r3_nr _ _ _ HR) as Hl. apply nth_error_lt in Hq. lia. }
  destruct (nth_error_ex (dials s) i Hi) as [d Hd].
  assert (Hc : contp cfg = true) by (unfold contp; rewrite E2, E3; reflexivity).
  destruct (r3_di _ _ _ HR Hc i (rv3 x) d Hq Hd) as (_ & _ & _ & D4). cbn [rv3 q_dl q_rs] in D4.
  destruct (ri_dial x) eqn:Ed; try discriminate. destruct (ri_resolved x) as [[|]|] eqn:Er; try discriminate.
  destruct (D4 eq_refl eq_refl) as [a Ha].
  assert (HM0 : MD cfg None (set_out [] s)) by (apply (MD_mdf cfg None s); [apply mdf_frame; reflexivity|exact HM]).
  destruct (bg_completes cfg (set_out [] s) i d a HM0 Hn Hd Ha) as (c & sh & Hin).
  cbn [observe o_events]. apply existsb_exists. exists (ENew c sh i). split; [apply -> in_rev; exact Hin|apply Nat.eqb_refl].
Qed.

Lemma view_track_offer ob : forall l m, view_same m (fold_left (track_offer ob) l m).
Proof.
  induction l as [|e l IH]; intros m; cbn [fold_left]; [repeat split|].
  destruct (IH (track_offer ob m e)) as (A & B & C). 
  assert (Hv : view_same m (track_offer ob m e)).
  { destruct e; try (repeat split; reflexivity). cbn [track_offer]. destruct ok; [|repeat split].
    destruct (nth_error (m_conns m) c); [|repeat split]. repeat split; try reflexivity. apply NC_ci_upd. }
  destruct Hv as (A' & B' & C'). repeat split; congruence.
Qed.

Lemma view_idle_stamp prev : forall sn m, view_same m (track_idle_stamp prev m sn).
Proof.
  intros sn. unfold track_idle_stamp. generalize (sn_idle sn). induction l as [|c l IH]; intros m; cbn [fold_left]; [repeat split|].
  destruct (IH (if mem c (idle_of prev (sn_token sn)) then m else ci_upd (set_ci_idle_time (m_time m)) c m)) as (A & B & C).
  destruct (mem c (idle_of prev (sn_token sn))); [repeat split; assumption|].
  repeat split; [rewrite A; reflexivity|rewrite B; apply NC_ci_upd|rewrite C; reflexivity].
Qed.
Lemma view_idle_stamps prev : forall l m, view_same m (fold_left (track_idle_stamp prev) l m).
Proof.
  induction l as [|sn l IH]; intros m; cbn [fold_left]; [repeat split|].
  destruct (IH (track_idle_stamp prev m sn)) as (A & B & C). destruct (view_idle_stamp prev sn m) as (A' & B' & C').
  repeat split; congruence.
Qed.

Lemma step_Bnd3 m s o : Bnd3 m s -> Bnd3 (track cfg m o (observe (step cfg s o))) (step cfg s o).
Proof.
  intros HB. destruct (step_G3 m s o (observe (step cfg s o)) HB) as (obl & [_ HR] & _). destruct HB as (HR0 & HM & HT & Hs).
  split; [|split; [apply MD_step; exact HM|split; [apply TD_step; exact HT|reflexivity]]].
  unfold track. cbn [observe o_events]. fold (cur (track_op cfg m o (observe (step cfg s o))) (step cfg s o)).
  set (m1 := cur (track_op cfg m o (observe (step cfg s o))) (step cfg s o)) in *.
  destruct (view_track_offer (observe (step cfg s o)) (rev (out (step cfg s o))) m1) as (A & B & C).
  match goal with |- context [fold_left (track_idle_stamp ?pv) ?l ?mm] =>
    destruct (view_idle_stamps pv l mm) as (A2 & B2 & C2); set (m2 := fold_left (track_idle_stamp pv) l mm) in * end.
  eapply R3_view; [| | |exact HR]; [change (RV m2 = RV m1)|change (NC m2 = NC m1)|change (m_keys m2 = m_keys m1)]; congruence.
Qed.

End BTrk.
