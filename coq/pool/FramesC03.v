(* C03 groundwork (safety half): the projection of the observable tracker that the C03 check reads
   (per request: gone?, last poll pending?), the wake invariant [Inv] of the pool model, and its
   preservation by the elementary state updates of pool/Model.v. *)
From HD Require Import common.Base http.Model pool.Model pool.Spec pool.Frames pool.ProofsLite pool.FramesC06.
Local Open Scope list_scope.

(* ---------------------------------------------------------------- lists *)
Lemma map_upd_nth_comm {A B} (g : A -> B) (f : A -> A) (f' : B -> B) : forall l n,
  (forall x, g (f x) = f' (g x)) -> map g (upd_nth n f l) = upd_nth n f' (map g l).
Proof. induction l as [|x l IH]; intros [|n] H; cbn; auto; f_equal; auto. Qed.

Lemma nth_upd_nth_other {A} (f : A -> A) d : forall l n m, n <> m -> nth m (upd_nth n f l) d = nth m l d.
Proof.
  induction l as [|x l IH]; intros [|n] [|m] H; cbn; auto; try congruence.
Qed.
Lemma nth_upd_nth_same {A} (f : A -> A) d : forall l n, n < List.length l -> nth n (upd_nth n f l) d = f (nth n l d).
Proof. induction l as [|x l IH]; intros [|n] H; cbn in *; auto; try lia. apply IH. lia. Qed.

Lemma mem_trues_from r : forall l i, mem r (trues_from i l) = Nat.leb i r && nth (r - i) l false.
Proof.
  induction l as [|b l IH]; intros i; cbn [trues_from].
  - cbn. destruct (r - i); rewrite andb_false_r; reflexivity.
  - assert (E : mem r (trues_from (S i) l) = Nat.leb (S i) r && nth (r - S i) l false) by apply IH.
    destruct (Nat.leb_spec i r) as [Hle|Hgt].
    + destruct (Nat.eq_dec r i) as [->|Hne].
      * rewrite Nat.sub_diag. cbn [nth andb]. destruct b.
        -- unfold mem. cbn [existsb]. rewrite Nat.eqb_refl. reflexivity.
        -- rewrite E. destruct (Nat.leb_spec (S i) i); [lia|reflexivity].
      * replace (r - i) with (S (r - S i)) by lia. cbn [nth andb].
        assert (E2 : Nat.leb (S i) r = true) by (apply Nat.leb_le; lia). rewrite E2 in E. cbn [andb] in E.
        destruct b; [|exact E]. unfold mem in *. cbn [existsb]. rewrite E.
        destruct (Nat.eqb_spec r i); [contradiction|reflexivity].
    + cbn [andb]. assert (E2 : Nat.leb (S i) r = false) by (apply Nat.leb_gt; lia). rewrite E2 in E. cbn [andb] in E.
      destruct b; [|exact E]. unfold mem in *. cbn [existsb]. rewrite E.
      destruct (Nat.eqb_spec r i); [lia|reflexivity].
Qed.
Lemma mem_trues r l : mem r (trues_from 0 l) = nth r l false.
Proof. rewrite mem_trues_from. cbn. rewrite Nat.sub_0_r. reflexivity. Qed.

(* ---------------------------------------------------------------- the tracker projection *)
Definition gp := (bool * bool * bool)%type.            (* gone?, pending?, live? *)
Definition pj (x : rinfo) : gp := (is_gone x, ri_pend x, is_live x).
Definition proj (m : mst) : list gp := map pj (m_reqs m).
Definition gone (P : list gp) (r : nat) : bool := match nth_error P r with Some q => fst (fst q) | None => false end.
Definition pend (P : list gp) (r : nat) : bool := match nth_error P r with Some q => snd (fst q) | None => false end.
Definition live (P : list gp) (r : nat) : bool := match nth_error P r with Some q => snd q | None => false end.

Lemma proj_ri_upd f f' r m : (forall x, pj (f x) = f' (pj x)) -> proj (ri_upd f r m) = upd_nth r f' (proj m).
Proof. intros H. unfold proj. cbn. apply map_upd_nth_comm. exact H. Qed.
Lemma proj_ri_upd_same f r m : (forall x, pj (f x) = pj x) -> proj (ri_upd f r m) = proj m.
Proof. intros H. unfold proj. cbn. apply map_upd_nth. intros x _. apply H. Qed.
Lemma proj_ci_upd f c m : proj (ci_upd f c m) = proj m.
Proof. reflexivity. Qed.

Definition req_ev (e : ev) : bool := match e with EHand _ _ _ _ _ _ | ERes _ _ | EPend _ => true | _ => false end.

Lemma proj_track_ev_triv m e : req_ev e = false -> proj (track_ev m e) = proj m.
Proof.
  destruct e as [r k|c sh r|r c a b d h|r|r x|r c|c|c okb]; cbn [req_ev track_ev]; try discriminate; intros _.
  - apply proj_ri_upd_same. reflexivity.
  - unfold proj. cbn [m_reqs set_m_conns]. apply proj_ri_upd_same. reflexivity.
  - reflexivity.
  - reflexivity.
  - destruct okb; reflexivity.
Qed.

Lemma gone_upd f r r' P : gone (upd_nth r f P) r' = if Nat.eqb r r' then match nth_error P r' with Some q => fst (fst (f q)) | None => false end else gone P r'.
Proof. unfold gone. rewrite nth_error_upd_nth. destruct (Nat.eqb r r'); [|reflexivity]. destruct (nth_error P r'); reflexivity. Qed.
Lemma pend_upd f r r' P : pend (upd_nth r f P) r' = if Nat.eqb r r' then match nth_error P r' with Some q => snd (fst (f q)) | None => false end else pend P r'.
Proof. unfold pend. rewrite nth_error_upd_nth. destruct (Nat.eqb r r'); [|reflexivity]. destruct (nth_error P r'); reflexivity. Qed.
Lemma live_upd f r r' P : live (upd_nth r f P) r' = if Nat.eqb r r' then match nth_error P r' with Some q => snd (f q) | None => false end else live P r'.
Proof. unfold live. rewrite nth_error_upd_nth. destruct (Nat.eqb r r'); [|reflexivity]. destruct (nth_error P r'); reflexivity. Qed.

(* the events so far are accepted by the C03 check and the tracker projection is P *)
Definition TT (wb : list nat) (m0 : mst) (P : list gp) (evs : list ev) : Prop :=
  evs_ok (chk_ev_C03 wb) m0 (rev evs) = true /\ proj (fold_left track_ev (rev evs) m0) = P.

Lemma TT_emit_triv wb m0 P evs e : req_ev e = false -> TT wb m0 P evs -> TT wb m0 P (e :: evs).
Proof.
  intros He [H1 H2]. unfold TT. cbn [rev]. rewrite evs_ok_app, fold_left_app. cbn [fold_left].
  rewrite H1, proj_track_ev_triv, H2 by exact He. split; [|reflexivity].
  destruct e; cbn in He; try discriminate; reflexivity.
Qed.

Lemma proj_nth m r q : nth_error (proj m) r = Some q -> exists x, nth_error (m_reqs m) r = Some x /\ pj x = q.
Proof.
  unfold proj. rewrite nth_error_map. destruct (nth_error (m_reqs m) r) as [x|]; cbn; [|discriminate].
  intros H. inversion H. eauto.
Qed.

Lemma TT_emit_pend wb m0 P evs r p l :
  nth_error P r = Some (false, p, l) -> TT wb m0 P evs -> TT wb m0 (upd_nth r (fun q => (fst (fst q), true, snd q)) P) (EPend r :: evs).
Proof.
  intros Hn [H1 H2]. unfold TT. cbn [rev]. rewrite evs_ok_app, fold_left_app. cbn [fold_left]. rewrite H1. cbn [andb].
  set (m := fold_left track_ev (rev evs) m0) in *. subst P. split.
  - apply proj_nth in Hn. destruct Hn as [x [Hx Hp]]. cbn [chk_ev_C03]. rewrite Hx. inversion Hp as [[Hg Hq Hl]]. rewrite Hg. reflexivity.
  - cbn [track_ev]. apply proj_ri_upd. reflexivity.
Qed.

Lemma TT_emit_res wb m0 P evs r p l res :
  nth_error P r = Some (false, p, l) -> (p = true -> mem r wb = true) ->
  TT wb m0 P evs -> TT wb m0 (upd_nth r (fun _ => (true, false, false)) P) (ERes r res :: evs).
Proof.
  intros Hn Hw [H1 H2]. unfold TT. cbn [rev]. rewrite evs_ok_app, fold_left_app. cbn [fold_left]. rewrite H1. cbn [andb].
  set (m := fold_left track_ev (rev evs) m0) in *. subst P. split.
  - apply proj_nth in Hn. destruct Hn as [x [Hx Hp]]. cbn [chk_ev_C03]. rewrite Hx. inversion Hp as [[Hg Hq Hl]]. rewrite Hg. cbn [negb andb].
    destruct (ri_pend x); [apply Hw; symmetry; exact Hq|reflexivity].
  - cbn [track_ev].
    assert (E : proj (ri_upd (fun y => set_ri_pend false (set_ri_stat SDone y)) r m) = upd_nth r (fun _ => (true, false, false)) (proj m))
      by (apply proj_ri_upd; reflexivity).
    destruct res as [|[| | |]]; try exact E; rewrite proj_ri_upd_same by reflexivity; exact E.
Qed.

Lemma TT_emit_hand wb m0 P evs r p l c a b d h :
  nth_error P r = Some (false, p, l) -> (p = true -> mem r wb = true) ->
  TT wb m0 P evs -> TT wb m0 (upd_nth r (fun q => (false, snd (fst q), false)) P) (EHand r c a b d h :: evs).
Proof.
  intros Hn Hw [H1 H2]. unfold TT. cbn [rev]. rewrite evs_ok_app, fold_left_app. cbn [fold_left]. rewrite H1. cbn [andb].
  set (m := fold_left track_ev (rev evs) m0) in *. subst P. split.
  - apply proj_nth in Hn. destruct Hn as [x [Hx Hp]]. cbn [chk_ev_C03]. rewrite Hx. inversion Hp as [[Hg Hq Hl]]. rewrite Hg. cbn [negb andb].
    destruct (ri_pend x); [apply Hw; symmetry; exact Hq|reflexivity].
  - cbn [track_ev]. rewrite proj_ci_upd.
    apply proj_ri_upd. intros x. unfold pj. dm; reflexivity.
Qed.

(* ---------------------------------------------------------------- the model side *)
Definition wok (s : state) (r : nat) : bool := nth r (woken s) false.
Definition rs_stage (d : dial) : bool := match d_stage d with DResolved _ => true | _ => false end.
Definition resolved (s : state) (r : nat) : bool := match get_dial s r with Some d => rs_stage d | None => false end.
(* would the connecting part of the checkout complete now? *)
Definition cont (s : state) (r : nat) (ck : checkout) : bool :=
  match k_inner ck with
  | IWaiting => true
  | IConnected => match k_conn ck with Some _ => true | None => false end
  | _ => resolved s r
  end.
(* would a poll of this checkout complete now? *)
Definition prog (s : state) (r : nat) (ck : checkout) : bool :=
  match k_waiter ck with
  | WNoPool => cont s r ck
  | WIdle => match k_slot ck with Some _ => true | None => cont s r ck end
  | WConnecting => match k_slot ck with Some _ => true | None => if k_txdropped ck then cont s r ck else false end
  end.
Definition is_fin (rq : req) : bool := match rq with RDone | RCancelled => true | _ => false end.
Definition is_ck (rq : req) : bool := match rq with RCheckout _ => true | _ => false end.
(* still waiting for a connection or an error *)
Definition is_lv (rq : req) : bool := match rq with RError | RCheckout _ => true | _ => false end.
Definition isck (s : state) (r : nat) : bool := match get_req s r with Some rq => is_ck rq | None => false end.
(* an existing request that is no checkout *)
Definition nck (s : state) (r : nat) : Prop := exists rq, get_req s r = Some rq /\ is_ck rq = false.
Lemma nck_isck s r : nck s r -> isck s r = false.
Proof. intros [rq [H1 H2]]. unfold isck. rewrite H1. exact H2. Qed.

(* what the wake invariant says about a request whose last poll returned Pending *)
Definition Wreq (s : state) (r : nat) (rq : req) : Prop :=
  match rq with
  | RError => False
  | RCheckout ck => (k_waiter ck <> WNoPool -> k_rxpolled ck = true) /\ (prog s r ck = true -> wok s r = true)
  | RHolding _ fin polled => (fin = false -> polled = true) /\ (fin = true -> wok s r = true)
  | _ => True
  end.

(* [x]: a request that is being polled / cancelled right now and is exempt from the tracker relation;
   [pre]: number of requests the tracker already knows but the model has not appended yet *)
Record Inv (x : option nat) (pre : nat) (P : list gp) (s : state) : Prop := mkInv {
  i_len : List.length P = List.length (reqs s) + pre;
  i_wok : List.length (reqs s) + pre <= List.length (woken s);
  i_gone : forall r rq, get_req s r = Some rq -> x <> Some r -> gone P r = true -> is_fin rq = true;
  i_wake : forall r rq, get_req s r = Some rq -> x <> Some r -> pend P r = true -> Wreq s r rq;
  i_dial : forall r d ck, get_dial s r = Some d -> get_req s r = Some (RCheckout ck) -> d_stage d = DInFlight -> d_polled d = Some ByReq;
  i_task : forall tid rid t own, nth tid (tasks s) None = Some (TDelayed rid t own) -> nck s rid;
  i_dlen : List.length (dials s) = List.length (reqs s);
  i_live : forall r rq, get_req s r = Some rq -> x <> Some r -> live P r = true -> is_lv rq = true
}.

Lemma prog_mono s s' r ck :
  (resolved s' r = true -> resolved s r = true) -> prog s' r ck = true -> prog s r ck = true.
Proof.
  intros H. unfold prog, cont. destruct (k_waiter ck), (k_slot ck), (k_txdropped ck), (k_inner ck), (k_conn ck); auto.
Qed.

Lemma Wreq_mono s s' r rq :
  (resolved s' r = true -> resolved s r = true \/ wok s' r = true) -> (wok s r = true -> wok s' r = true) ->
  Wreq s r rq -> Wreq s' r rq.
Proof.
  intros Hr Hw. destruct rq as [|ck|p fin pl| |]; cbn [Wreq]; auto.
  - intros [H1 H2]. split; [exact H1|]. intros Hp. destruct (wok s' r) eqn:E; [reflexivity|].
    apply Hw. apply H2. eapply prog_mono; [|exact Hp]. intros Hx. destruct (Hr Hx) as [Hy|Hy]; [exact Hy|congruence].
  - intros [H1 H2]. split; auto.
Qed.

Lemma Inv_frame x pre P s s' :
  reqs s' = reqs s -> dials s' = dials s -> tasks s' = tasks s -> List.length (woken s) <= List.length (woken s') ->
  (forall r, x <> Some r -> wok s r = true -> wok s' r = true) -> Inv x pre P s -> Inv x pre P s'.
Proof.
  intros Hq Hd Ht Hl Hw [A1 A2 A3 A4 A5 A6 A7 A8].
  assert (Hg : forall r, get_req s' r = get_req s r) by (intros; unfold get_req; rewrite Hq; reflexivity).
  assert (Hgd : forall r, get_dial s' r = get_dial s r) by (intros; unfold get_dial; rewrite Hd; reflexivity).
  constructor.
  - rewrite Hq. exact A1.
  - rewrite Hq. lia.
  - intros r rq. rewrite Hg. apply A3.
  - intros r rq. rewrite Hg. intros H1 H2 H3. eapply Wreq_mono; [| |exact (A4 r rq H1 H2 H3)].
    + unfold resolved. rewrite Hgd. auto.
    + apply Hw. exact H2.
  - intros r d ck. rewrite Hg, Hgd. apply A5.
  - intros tid rid t own. rewrite Ht. unfold nck. setoid_rewrite Hg. apply A6.
  - rewrite Hd, Hq. exact A7.
  - intros r rq. rewrite Hg. apply A8.
Qed.

Lemma Inv_tasks x pre P s s' :
  reqs s' = reqs s -> dials s' = dials s -> woken s' = woken s ->
  (forall tid rid t own, nth tid (tasks s') None = Some (TDelayed rid t own) ->
     nck s rid \/ exists tid' t' own', nth tid' (tasks s) None = Some (TDelayed rid t' own')) ->
  Inv x pre P s -> Inv x pre P s'.
Proof.
  intros Hq Hd Hw Ht H.
  assert (H' : Inv x pre P (set_tasks (tasks s) s')).
  { eapply Inv_frame; [..|exact H]; cbn; auto; try (rewrite Hw; lia). intros r _. unfold wok. cbn. rewrite Hw. auto. }
  destruct H' as [A1 A2 A3 A4 A5 A6 A7 A8]. constructor; auto.
  intros tid rid t own Hn. change (nck (set_tasks (tasks s) s') rid).
  destruct (Ht _ _ _ _ Hn) as [Hc|[tid' [t' [own' Hc]]]].
  - unfold nck, get_req in *. cbn. rewrite Hq. exact Hc.
  - apply (A6 tid' rid t' own'). exact Hc.
Qed.

Lemma get_req_set_req r v s r' :
  get_req (set_req r v s) r' = if Nat.eqb r r' then match get_req s r' with Some _ => Some v | None => None end else get_req s r'.
Proof.
  unfold get_req, set_req. cbn [reqs set_reqs]. rewrite nth_error_upd_nth. destruct (Nat.eqb r r'); [|reflexivity].
  destruct (nth_error (reqs s) r'); reflexivity.
Qed.

Lemma Wreq_ext s s' r rq : woken s' = woken s -> dials s' = dials s -> Wreq s r rq -> Wreq s' r rq.
Proof.
  intros Hw Hd. apply Wreq_mono.
  - unfold resolved, get_dial. rewrite Hd. auto.
  - unfold wok. rewrite Hw. auto.
Qed.

Lemma Inv_set_req x pre P s r v :
  (is_ck v = true -> isck s r = true) ->
  (x <> Some r -> gone P r = true -> is_fin v = true) ->
  (x <> Some r -> pend P r = true -> Wreq s r v) ->
  (x <> Some r -> live P r = true -> is_lv v = true) ->
  Inv x pre P s -> Inv x pre P (set_req r v s).
Proof.
  intros Hc Hg Hw Hlv [A1 A2 A3 A4 A5 A6 A7 A8]. constructor.
  - cbn. rewrite upd_nth_length. exact A1.
  - cbn. rewrite upd_nth_length. exact A2.
  - intros r' rq. rewrite get_req_set_req. destruct (Nat.eqb_spec r r') as [<-|Hne]; [|apply A3].
    destruct (get_req s r); [|discriminate]. intros E; inversion E; subst rq. exact Hg.
  - intros r' rq. rewrite get_req_set_req. destruct (Nat.eqb_spec r r') as [<-|Hne].
    + destruct (get_req s r); [|discriminate]. intros E; inversion E; subst rq. intros H1 H2.
      eapply Wreq_ext; [| |exact (Hw H1 H2)]; reflexivity.
    + intros H1 H2 H3. eapply Wreq_ext; [| |exact (A4 r' rq H1 H2 H3)]; reflexivity.
  - intros r' d ck Hd. change (get_dial s r' = Some d) in Hd. rewrite get_req_set_req.
    destruct (Nat.eqb_spec r r') as [<-|Hne]; [|apply A5; exact Hd].
    destruct (get_req s r) as [rq0|] eqn:Hr; [|discriminate]. intros E; inversion E; subst v.
    assert (Hi : isck s r = true) by (apply Hc; reflexivity). unfold isck in Hi. rewrite Hr in Hi.
    destruct rq0 as [|ck0| | |]; try discriminate. apply (A5 r d ck0); auto.
  - intros tid rid t own Hn. change (nth tid (tasks s) None = Some (TDelayed rid t own)) in Hn.
    pose proof (A6 _ _ _ _ Hn) as Hi. unfold nck. setoid_rewrite get_req_set_req.
    destruct (Nat.eqb_spec r rid) as [<-|Hne]; [|exact Hi].
    destruct (is_ck v) eqn:Ev; [specialize (Hc eq_refl); rewrite (nck_isck _ _ Hi) in Hc; discriminate|].
    destruct Hi as [rq0 [Hi _]]. rewrite Hi. eauto.
  - cbn. rewrite upd_nth_length. exact A7.
  - intros r' rq. rewrite get_req_set_req. destruct (Nat.eqb_spec r r') as [<-|Hne]; [|apply A8].
    destruct (get_req s r); [|discriminate]. intros E; inversion E; subst rq. exact Hlv.
Qed.

Lemma get_dial_upd_dial r f s r' :
  get_dial (upd_dial r f s) r' = if Nat.eqb r r' then option_map f (get_dial s r') else get_dial s r'.
Proof. unfold get_dial, upd_dial. cbn [dials set_dials]. apply nth_error_upd_nth. Qed.

Lemma Wreq_nonck s s' r rq : is_ck rq = false -> (wok s r = true -> wok s' r = true) -> Wreq s r rq -> Wreq s' r rq.
Proof. destruct rq as [|ck|p fin pl| |]; cbn; auto; try discriminate. intros _ Hw [H1 H2]. auto. Qed.

Lemma Inv_upd_dial x pre P s r f :
  (forall d, get_dial s r = Some d ->
     (forall ck, get_req s r = Some (RCheckout ck) -> d_stage (f d) = DInFlight -> d_polled (f d) = Some ByReq)
     /\ (x <> Some r -> isck s r = true -> rs_stage (f d) = true -> rs_stage d = true \/ wok s r = true)) ->
  Inv x pre P s -> Inv x pre P (upd_dial r f s).
Proof.
  intros Hf [A1 A2 A3 A4 A5 A6 A7 A8]. constructor; auto.
  - intros r' rq H1 H2 H3. change (get_req s r' = Some rq) in H1. pose proof (A4 r' rq H1 H2 H3) as HW.
    destruct (is_ck rq) eqn:Ek; [|eapply Wreq_nonck; [exact Ek| |exact HW]; intros Hq; exact Hq].
    eapply Wreq_mono; [| |exact HW]; [|auto].
    unfold resolved. rewrite get_dial_upd_dial. destruct (Nat.eqb_spec r r') as [<-|Hne]; [|auto].
    destruct (get_dial s r) as [d|] eqn:Hd; cbn [option_map]; [|discriminate].
    destruct (Hf d eq_refl) as [_ Hx]. apply Hx; [exact H2|]. unfold isck. rewrite H1. exact Ek.
  - intros r' d ck. rewrite get_dial_upd_dial. intros Hd Hr. change (get_req s r' = Some (RCheckout ck)) in Hr.
    destruct (Nat.eqb_spec r r') as [<-|Hne]; [|apply (A5 r' d ck); auto].
    destruct (get_dial s r) as [d0|] eqn:Hd0; cbn [option_map] in Hd; [|discriminate]. inversion Hd; subst d.
    destruct (Hf d0 eq_refl) as [Hx _]. apply (Hx ck). exact Hr.
  - cbn. rewrite upd_nth_length. exact A7.
Qed.

Lemma Inv_P x pre P P' s :
  List.length P' = List.length P ->
  (forall r, x <> Some r -> gone P' r = true -> gone P r = true) ->
  (forall r, x <> Some r -> pend P' r = true -> pend P r = true) ->
  (forall r, x <> Some r -> live P' r = true -> live P r = true) ->
  Inv x pre P s -> Inv x pre P' s.
Proof.
  intros Hl Hg Hp Hv [A1 A2 A3 A4 A5 A6 A7 A8]. constructor; [rewrite Hl; exact A1|exact A2| | |exact A5|exact A6|exact A7|].
  - intros r rq H1 H2 H3. apply (A3 r rq); auto.
  - intros r rq H1 H2 H3. apply (A4 r rq); auto.
  - intros r rq H1 H2 H3. apply (A8 r rq); auto.
Qed.

Lemma Inv_open r pre P s : Inv None pre P s -> Inv (Some r) pre P s.
Proof.
  intros [A1 A2 A3 A4 A5 A6 A7 A8]. constructor; [exact A1|exact A2| | |exact A5|exact A6|exact A7|].
  - intros r' rq H1 _. apply A3; [exact H1|discriminate].
  - intros r' rq H1 _. apply A4; [exact H1|discriminate].
  - intros r' rq H1 _. apply A8; [exact H1|discriminate].
Qed.

Lemma Inv_close r pre P s :
  (forall rq, get_req s r = Some rq -> (gone P r = true -> is_fin rq = true) /\ (pend P r = true -> Wreq s r rq)
                                       /\ (live P r = true -> is_lv rq = true)) ->
  Inv (Some r) pre P s -> Inv None pre P s.
Proof.
  intros Hr [A1 A2 A3 A4 A5 A6 A7 A8]. constructor; [exact A1|exact A2| | |exact A5|exact A6|exact A7|].
  3: { intros r' rq H1 _. destruct (Nat.eq_dec r r') as [<-|Hne]; [apply (Hr rq H1)|]. apply A8; [exact H1|congruence]. }
  - intros r' rq H1 _. destruct (Nat.eq_dec r r') as [<-|Hne]; [apply (Hr rq H1)|]. apply A3; [exact H1|congruence].
  - intros r' rq H1 _. destruct (Nat.eq_dec r r') as [<-|Hne]; [apply (Hr rq H1)|]. apply A4; [exact H1|congruence].
Qed.

Lemma wok_wake r s r' : wok s r' = true -> wok (wake_req r s) r' = true.
Proof.
  unfold wok, wake_req. cbn [woken set_woken]. intros H. destruct (Nat.eq_dec r r') as [<-|Hne].
  - destruct (Nat.lt_ge_cases r (List.length (woken s))) as [Hl|Hl]; [rewrite nth_upd_nth_same by exact Hl; reflexivity|].
    rewrite nth_overflow in H by exact Hl. discriminate.
  - rewrite nth_upd_nth_other by exact Hne. exact H.
Qed.
Lemma wok_wake_same r s : r < List.length (woken s) -> wok (wake_req r s) r = true.
Proof. intros H. unfold wok, wake_req. cbn [woken set_woken]. rewrite nth_upd_nth_same by exact H. reflexivity. Qed.

Lemma Inv_wake_req x pre P r s : Inv x pre P s -> Inv x pre P (wake_req r s).
Proof.
  apply Inv_frame; try reflexivity.
  - cbn. rewrite upd_nth_length. lia.
  - intros r' _. apply wok_wake.
Qed.

Lemma Inv_unwake_x pre P r s : Inv (Some r) pre P s -> Inv (Some r) pre P (unwake_req r s).
Proof.
  apply Inv_frame; try reflexivity.
  - cbn. rewrite upd_nth_length. lia.
  - intros r' Hne. unfold wok, unwake_req. cbn [woken set_woken]. rewrite nth_upd_nth_other by congruence. auto.
Qed.

Lemma isck_get s r : isck s r = true -> exists ck, get_req s r = Some (RCheckout ck).
Proof. unfold isck. destruct (get_req s r) as [[|ck| | |]|]; try discriminate. eauto. Qed.
Lemma get_req_lt s r rq : get_req s r = Some rq -> r < List.length (reqs s).
Proof. intros H. apply nth_error_Some. unfold get_req in H. congruence. Qed.

(* ---------------------------------------------------------------- model invariant + event log *)
Definition G (wb : list nat) (m0 : mst) (x : option nat) (pre : nat) (P : list gp) (s : state) : Prop :=
  Inv x pre P s /\ TT wb m0 P (out s).

Section Basic.
Variables (wb : list nat) (m0 : mst) (x : option nat) (pre : nat) (P : list gp).
Notation GG := (G wb m0 x pre P).

Lemma G_inv s s' : out s' = out s -> (Inv x pre P s -> Inv x pre P s') -> GG s -> GG s'.
Proof. intros Ho Hi [H1 H2]. split; [auto|rewrite Ho; exact H2]. Qed.

Lemma G_frame s s' :
  reqs s' = reqs s -> dials s' = dials s -> tasks s' = tasks s -> woken s' = woken s -> out s' = out s -> GG s -> GG s'.
Proof.
  intros H1 H2 H3 H4 H5. apply G_inv; [exact H5|]. apply Inv_frame; auto; [rewrite H4; lia|].
  intros r _. unfold wok. rewrite H4. auto.
Qed.

Lemma G_emit_triv e s : req_ev e = false -> GG s -> GG (emit e s).
Proof.
  intros He [H1 H2]. split.
  - revert H1. apply Inv_frame; auto.
  - cbn. apply TT_emit_triv; assumption.
Qed.

Lemma G_upd_conn c f s : GG s -> GG (upd_conn c f s).
Proof. apply G_frame; reflexivity. Qed.
Lemma G_upd_tok t f s : GG s -> GG (upd_tok t f s).
Proof. destruct t; [auto|]. apply G_frame; reflexivity. Qed.
Lemma G_set_runq v s : GG s -> GG (set_runq v s).
Proof. apply G_frame; reflexivity. Qed.
Lemma G_set_now v s : GG s -> GG (set_now v s).
Proof. apply G_frame; reflexivity. Qed.
Lemma G_wake_task t s : GG s -> GG (wake_task t s).
Proof. unfold wake_task. destruct (existsb (Nat.eqb t) (runq s)); [auto|]. apply G_frame; reflexivity. Qed.
Lemma G_wake_tasks l : forall s, GG s -> GG (wake_tasks l s).
Proof. induction l as [|t l IH]; intros s H; cbn [wake_tasks]; [exact H|]. apply IH. apply G_wake_task. exact H. Qed.
Lemma G_wake_req r s : GG s -> GG (wake_req r s).
Proof. apply G_inv; [reflexivity|]. apply Inv_wake_req. Qed.
Lemma G_set_req r v s :
  (is_ck v = true -> isck s r = true) ->
  (x <> Some r -> gone P r = true -> is_fin v = true) ->
  (x <> Some r -> pend P r = true -> Wreq s r v) ->
  (x <> Some r -> live P r = true -> is_lv v = true) ->
  GG s -> GG (set_req r v s).
Proof. intros H1 H2 H3 H4. apply G_inv; [reflexivity|]. apply Inv_set_req; assumption. Qed.
Lemma G_upd_dial r f s :
  (forall d, get_dial s r = Some d ->
     (forall ck, get_req s r = Some (RCheckout ck) -> d_stage (f d) = DInFlight -> d_polled (f d) = Some ByReq)
     /\ (x <> Some r -> isck s r = true -> rs_stage (f d) = true -> rs_stage d = true \/ wok s r = true)) ->
  GG s -> GG (upd_dial r f s).
Proof. intros H1. apply G_inv; [reflexivity|]. apply Inv_upd_dial; assumption. Qed.
Lemma G_upd_dial_gone r s : GG s -> GG (upd_dial r (d_set_stage DGone) s).
Proof. apply G_upd_dial. intros d _. split; [intros ck _; discriminate|intros _ _; discriminate]. Qed.

Lemma G_finish_task tid s : GG s -> GG (finish_task tid s).
Proof.
  apply G_inv; [reflexivity|]. apply Inv_tasks; try reflexivity.
  intros tid' rid t own Hn. right. unfold finish_task in Hn. cbn [tasks set_tasks] in Hn.
  destruct (Nat.eq_dec tid tid') as [<-|Hne].
  - destruct (Nat.lt_ge_cases tid (List.length (tasks s))) as [Hl|Hl].
    + rewrite nth_upd_nth_same in Hn by exact Hl. discriminate.
    + rewrite nth_overflow in Hn by (rewrite upd_nth_length; exact Hl). discriminate.
  - rewrite nth_upd_nth_other in Hn by exact Hne. eauto.
Qed.

Lemma G_spawn tk s : (forall rid t own, tk = TDelayed rid t own -> nck s rid) -> GG s -> GG (spawn tk s).
Proof.
  intros Hk. apply G_inv; [reflexivity|]. apply Inv_tasks; try reflexivity.
  intros tid rid t own Hn. unfold spawn in Hn. cbn [tasks set_tasks set_runq] in Hn.
  destruct (Nat.lt_ge_cases tid (List.length (tasks s))) as [Hl|Hl].
  - rewrite app_nth1 in Hn by exact Hl. right. eauto.
  - rewrite app_nth2 in Hn by exact Hl. destruct (tid - List.length (tasks s)) as [|[|n]]; cbn in Hn; try discriminate.
    inversion Hn; subst tk. left. eapply Hk. reflexivity.
Qed.
End Basic.
