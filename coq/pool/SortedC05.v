(* C05, auxiliary state invariant: along every idle list the entry times are non-decreasing and never
   in the future.  (IdleConnections::pop scans from the newest end and stops at the first expired entry:
   this is what makes "everything below an expired entry is expired too" true.) *)
From HD Require Import common.Base http.Model pool.Model pool.Frames pool.FramesC05.
From Coq Require Import Sorted.
Local Open Scope list_scope.

Definition okl (b : N) (l : list (nat * N)) : Prop :=
  StronglySorted N.le (map snd l) /\ Forall (fun a => (a <= b)%N) (map snd l).
Definition IS (s : state) : Prop := Forall (fun p => okl (now s) (p_idle p)) (toks s).

Lemma okl_nil b : okl b [].
Proof. split; constructor. Qed.

Lemma ss_snoc b : forall l, StronglySorted N.le l -> Forall (fun a => (a <= b)%N) l -> StronglySorted N.le (l ++ [b]).
Proof.
  induction l as [|a l IH]; intros Hs Hf; cbn [app].
  - constructor; constructor.
  - inversion Hs; subst. inversion Hf; subst. constructor; [apply IH; assumption|].
    apply Forall_app. split; [assumption|]. constructor; [assumption|constructor].
Qed.

Lemma ss_app_l {A} (R : A -> A -> Prop) : forall l1 l2, StronglySorted R (l1 ++ l2) -> StronglySorted R l1.
Proof.
  induction l1 as [|a l1 IH]; intros l2 H; [constructor|]. cbn [app] in H. inversion H; subst.
  constructor; [eapply IH; eauto|]. apply Forall_app in H3. apply H3.
Qed.

Lemma okl_snoc b l c : okl b l -> okl b (l ++ [(c, b)]).
Proof.
  intros [H1 H2]. unfold okl. rewrite map_app. cbn [map snd]. split; [apply ss_snoc; assumption|].
  apply Forall_app. split; [assumption|]. constructor; [apply N.le_refl|constructor].
Qed.

Lemma okl_prefix b l1 l2 : okl b (l1 ++ l2) -> okl b l1.
Proof.
  unfold okl. rewrite map_app. intros [H1 H2]. split; [eapply ss_app_l; eauto|]. apply Forall_app in H2. apply H2.
Qed.

Lemma okl_mono b b' l : (b <= b')%N -> okl b l -> okl b' l.
Proof. intros Hb [H1 H2]. split; [exact H1|]. eapply Forall_impl; [|exact H2]. cbn. intros a Ha. lia. Qed.

Lemma Forall_upd_nth {A} (P : A -> Prop) (f : A -> A) : (forall x, P x -> P (f x)) -> forall l i, Forall P l -> Forall P (upd_nth i f l).
Proof.
  intros Hf. induction l as [|x l IH]; intros i H; destruct i; cbn [upd_nth]; auto; inversion H; subst; constructor; auto.
Qed.

Lemma IS_frame s s' : toks s' = toks s -> now s' = now s -> IS s -> IS s'.
Proof. unfold IS. intros -> ->. auto. Qed.

Lemma now_upd_tok t f s : now (upd_tok t f s) = now s.
Proof. destruct t; reflexivity. Qed.

Lemma IS_upd_tok t f s : IS s -> (forall p, okl (now s) (p_idle p) -> okl (now s) (p_idle (f p))) -> IS (upd_tok t f s).
Proof.
  intros H Hf. unfold IS. rewrite now_upd_tok. destruct t; [exact H|]. cbn [upd_tok toks set_toks].
  apply Forall_upd_nth; assumption.
Qed.

Lemma get_tok_ok s t : IS s -> okl (now s) (p_idle (get_tok s t)).
Proof.
  intros H. destruct t; cbn [get_tok]; [apply okl_nil|].
  unfold IS in H. rewrite Forall_forall in H.
  destruct (nth_in_or_default t (toks s) empty_tok) as [Hin|Hd]; [apply H, Hin|rewrite Hd; apply okl_nil].
Qed.

Lemma IS_pool_push n t c s : IS s -> IS (pool_push n t c s).
Proof.
  intros H. unfold pool_push.
  set (s1 := if share_of s c then upd_tok t (set_marker None) s else s).
  assert (H1 : IS s1) by (subst s1; destruct (share_of s c); [apply IS_upd_tok; auto|exact H]).
  destruct (walk_waiters t c (share_of s1 c) (p_waiting (get_tok s1 t)) s1) as [[rest moved] s2] eqn:Hw.
  assert (H2 : IS s2).
  { pose proof (toks_walk_waiters t c (share_of s1 c) (p_waiting (get_tok s1 t)) s1) as Hf.
    pose proof (now_walk_waiters t c (share_of s1 c) (p_waiting (get_tok s1 t)) s1) as Hn.
    rewrite Hw in Hf, Hn. eapply IS_frame; eauto. }
  assert (H3 : IS (upd_tok t (set_waiting rest) s2)) by (apply IS_upd_tok; auto).
  destruct moved; [exact H3|].
  destruct (Nat.ltb _ _).
  - apply IS_upd_tok; [exact H3|]. intros p Hp. cbn [set_idle p_idle]. apply okl_snoc. exact Hp.
  - eapply IS_frame; [apply toks_drop_conn|apply now_drop_conn|exact H3].
Qed.

Lemma IS_pool_cancel t rid s : IS s -> IS (pool_cancel t rid s).
Proof.
  intros H. unfold pool_cancel. destruct (p_marker (get_tok s t)) as [o|]; [|exact H].
  destruct (Nat.eqb o rid); [|exact H].
  set (s1 := upd_tok t (set_marker None) s).
  assert (H1 : IS s1) by (apply IS_upd_tok; auto).
  destruct (release_pending (p_waiting (get_tok s1 t)) s1) as [rest s2] eqn:Hr.
  apply IS_upd_tok; auto.
  pose proof (toks_release_pending (p_waiting (get_tok s1 t)) s1) as Hf.
  pose proof (now_release_pending (p_waiting (get_tok s1 t)) s1) as Hn. rewrite Hr in Hf, Hn. eapply IS_frame; eauto.
Qed.

Lemma pop_loop_suffix thr rl : forall s r rest s', pop_loop thr rl s = (r, rest, s') -> exists pre, rl = pre ++ rest.
Proof.
  induction rl as [|[c a] rl IH]; intros s r rest s' H; cbn [pop_loop] in H.
  - inversion H; subst. exists []. reflexivity.
  - destruct (match thr with Some y => (a <? y)%N | None => false end).
    + inversion H; subst. exists ((c, a) :: rl). rewrite app_nil_r. reflexivity.
    + destruct (is_open s c).
      * inversion H; subst. exists [(c, a)]. reflexivity.
      * destruct (IH _ _ _ _ H) as [pre ->]. exists ((c, a) :: pre). reflexivity.
Qed.

Lemma IS_pool_pop to t s r s' : IS s -> pool_pop to t s = (r, s') -> IS s'.
Proof.
  intros H Hp. unfold pool_pop in Hp.
  destruct (pop_loop (expiry_threshold to (now s)) (rev (p_idle (get_tok s t))) s) as [[r0 rest] s1] eqn:Hl.
  inversion Hp; subst. clear Hp.
  destruct (pop_loop_suffix _ _ _ _ _ _ Hl) as [pre Hpre].
  pose proof (toks_pop_loop (expiry_threshold to (now s)) (rev (p_idle (get_tok s t))) s) as Hf.
  pose proof (now_pop_loop (expiry_threshold to (now s)) (rev (p_idle (get_tok s t))) s) as Hn.
  rewrite Hl in Hf, Hn. cbn [snd] in Hf, Hn.
  assert (H1 : IS s1) by (eapply IS_frame; eauto).
  apply IS_upd_tok; [exact H1|]. intros p _. cbn [set_idle p_idle]. rewrite Hn.
  apply (okl_prefix (now s) (rev rest) (rev pre)). rewrite <- rev_app_distr, <- Hpre, rev_involutive.
  apply get_tok_ok, H.
Qed.

Lemma IS_key_insert k s t s' : IS s -> key_insert k s = (t, s') -> IS s'.
Proof.
  intros H Hk. unfold key_insert in Hk. destruct (find_key k (keys s) 1).
  - inversion Hk; subst; exact H.
  - inversion Hk; subst. unfold IS in *. cbn. apply Forall_app. split; [exact H|]. constructor; [apply okl_nil|constructor].
Qed.

Lemma IS_register cfg t c s : IS s -> IS (snd (register cfg t c s)).
Proof.
  intros H. unfold register.
  destruct (g_pool cfg && negb (t =? 0)); [destruct (share_of s c)|]; cbn [snd]; auto.
  destruct (is_open s c); [|exact H].
  apply IS_pool_push. eapply IS_frame; [apply toks_clone_conn|apply now_clone_conn|exact H].
Qed.

Lemma IS_rx_drop ck s : IS s -> IS (snd (rx_drop ck s)).
Proof. intros H. eapply IS_frame; [apply toks_rx_drop|apply now_rx_drop|exact H]. Qed.

Lemma IS_connector_poll rid b s : IS s -> IS (snd (connector_poll rid b s)).
Proof. intros H. eapply IS_frame; [apply toks_connector_poll|apply now_connector_poll|exact H]. Qed.

Lemma IS_checkout_poll cfg rid ck s : IS s -> IS (snd (checkout_poll cfg rid ck s)).
Proof.
  intros H. unfold checkout_poll.
  destruct (waiter_poll ck) as [w ck1]. destruct w; cbn [snd]; auto.
  destruct (k_inner ck1); cbn [snd]; auto.
  1: { destruct (k_conn ck1) as [c|]; cbn [snd]; auto.
    pose proof (IS_rx_drop (k_set_conn None ck1) s H) as H2.
    destruct (rx_drop (k_set_conn None ck1) s) as [ck2 s2]. cbn [snd] in H2.
    pose proof (IS_register cfg (k_token ck2) c (set_req rid (RCheckout ck2) s2) H2) as H3.
    destruct (register cfg (k_token ck2) c (set_req rid (RCheckout ck2) s2)) as [p s3]. exact H3. }
  all: pose proof (IS_connector_poll rid ByReq s H) as H1;
      destruct (connector_poll rid ByReq s) as [r s1]; cbn [snd] in H1;
      destruct r as [|res]; cbn [snd]; auto;
      pose proof (IS_rx_drop ck1 s1 H1) as H2;
      destruct (rx_drop ck1 s1) as [ck2 s2]; cbn [snd] in H2;
      destruct res as [c|e]; cbn [snd]; auto;
      pose proof (IS_register cfg (k_token (k_set_inner IConnected ck2)) c (set_req rid (RCheckout (k_set_inner IConnected ck2)) s2) H2) as H3;
      destruct (register cfg (k_token (k_set_inner IConnected ck2)) c (set_req rid (RCheckout (k_set_inner IConnected ck2)) s2)) as [p s3];
      exact H3.
Qed.

Lemma IS_checkout_drop cfg rid ck s : IS s -> IS (checkout_drop cfg rid ck s).
Proof.
  intros H. unfold checkout_drop.
  set (s1 := match k_conn ck with
             | Some c => if is_open s c && (g_pool cfg && negb (k_token ck =? 0)) then pool_push (g_max_idle cfg) (k_token ck) c s else drop_conn c s
             | None => s end).
  assert (H1 : IS s1).
  { subst s1. destruct (k_conn ck) as [c|]; [|exact H].
    destruct (is_open s c && (g_pool cfg && negb (k_token ck =? 0))); [apply IS_pool_push; exact H|].
    eapply IS_frame; [apply toks_drop_conn|apply now_drop_conn|exact H]. }
  clearbody s1. cbv zeta.
  generalize (match k_inner ck with
              | IDelayDrop => match get_dial s1 rid with
                              | Some d => match d_stage d with DNew => false | _ => true end
                              | None => false end
              | _ => false end).
  intros delayed.
  assert (H2 : IS (if delayed then spawn (TDelayed rid (k_token ck) (k_owner ck)) s1
                   else if g_pool cfg && negb (k_token ck =? 0) && k_owner ck then pool_cancel (k_token ck) rid s1 else s1)).
  { destruct delayed; [exact H1|].
    destruct (g_pool cfg && negb (k_token ck =? 0) && k_owner ck); [apply IS_pool_cancel|]; exact H1. }
  match goal with |- context [rx_drop ck ?s2] => pose proof (IS_rx_drop ck s2 H2) as H3; destruct (rx_drop ck s2) as [ck' s3] end.
  cbn [snd] in H3.
  destruct (k_inner ck); try destruct delayed; exact H3.
Qed.

Lemma IS_do_issue cfg u p s : IS s -> IS (do_issue cfg u p s).
Proof.
  intros H. unfold do_issue.
  destruct (nth u (g_uris cfg) None) as [k|]; [|exact H].
  destruct (negb (g_pool cfg)); [exact H|].
  destruct (key_insert k (set_woken (woken s ++ [false]) s)) as [t s1] eqn:Hk.
  assert (H1 : IS s1) by (eapply IS_key_insert; [|exact Hk]; exact H).
  destruct (pool_pop (g_timeout cfg) t s1) as [found s2] eqn:Hp.
  assert (H2 : IS s2) by (eapply IS_pool_pop; [exact H1|exact Hp]).
  destruct found; [exact H2|].
  set (pending := match p_marker (get_tok s2 t) with Some _ => true | None => false end).
  set (s3 := upd_tok t (fun q => set_waiting (p_waiting q ++ [(List.length (reqs s), pending)]) q) s2).
  assert (H3 : IS s3) by (apply IS_upd_tok; auto).
  destruct pending; [exact H3|].
  destruct p; cbn; [exact H3|]. apply (IS_upd_tok t (set_marker (Some (List.length (reqs s)))) s3); auto.
Qed.

Lemma IS_hold_release r p s : IS s -> IS (hold_release r p s).
Proof. intros H. unfold hold_release. eapply IS_frame; [rewrite toks_pooled_drop; reflexivity|rewrite now_pooled_drop; reflexivity|exact H]. Qed.

Lemma IS_do_poll cfg r s : IS s -> IS (do_poll cfg r s).
Proof.
  intros H. unfold do_poll. destruct (get_req s r) as [[|ck|p fin pl| |]|]; try exact H.
  - pose proof (IS_checkout_poll cfg r ck (unwake_req r s) H) as H1.
    destruct (checkout_poll cfg r ck (unwake_req r s)) as [[res ck1] s1]. cbn [snd] in H1.
    destruct res as [|[p|e]]; [exact H1| |].
    + destruct (get_conn s1 (fst p)) as [cn|]; apply (IS_checkout_drop cfg r ck1); exact H1.
    + apply (IS_checkout_drop cfg r ck1); exact H1.
  - destruct fin; [|exact H]. apply (IS_hold_release r p (set_req r RDone (unwake_req r s))). exact H.
Qed.

Lemma IS_do_cancel cfg r s : IS s -> IS (do_cancel cfg r s).
Proof.
  intros H. unfold do_cancel. destruct (get_req s r) as [[|ck|p fin pl| |]|]; try exact H.
  - apply (IS_checkout_drop cfg r ck (set_req r RCancelled s)); exact H.
  - apply (IS_hold_release r p (set_req r RCancelled s)). exact H.
Qed.

Lemma IS_run_task cfg tid s : IS s -> IS (run_task cfg tid s).
Proof.
  intros H. unfold run_task. destruct (nth tid (tasks s) None) as [[c t|rid t own]|]; [| |exact H].
  - destruct (get_conn s c) as [cn|]; [|exact H].
    assert (Hfin : forall s0, IS s0 ->
              IS (if is_open (finish_task tid s0) c && negb (t =? 0) && g_pool cfg
                  then pool_push (g_max_idle cfg) t c (finish_task tid s0) else drop_conn c (finish_task tid s0))).
    { intros s0 H0. destruct (is_open (finish_task tid s0) c && negb (t =? 0) && g_pool cfg).
      - apply IS_pool_push. exact H0.
      - eapply IS_frame; [apply toks_drop_conn|apply now_drop_conn|exact H0]. }
    destruct (negb (c_open cn)); [apply Hfin; exact H|].
    destruct (c_share cn || c_ready cn); [apply Hfin; exact H|exact H].
  - pose proof (IS_connector_poll rid (ByTask tid) s H) as H1.
    destruct (connector_poll rid (ByTask tid) s) as [r s1]. cbn [snd] in H1.
    destruct r as [|[c|e]]; [exact H1| |].
    + pose proof (IS_register cfg t c s1 H1) as H2. destruct (register cfg t c s1) as [p s2]. cbn [snd] in H2.
      eapply IS_frame; [apply toks_pooled_drop|apply now_pooled_drop|].
      destruct (g_pool cfg && negb (t =? 0) && own); [apply (IS_pool_cancel t rid s2 H2)|exact H2].
    + destruct (g_pool cfg && negb (t =? 0) && own); [apply (IS_pool_cancel t rid s1 H1)|exact H1].
Qed.

Lemma IS_bg_loop cfg fuel : forall s, IS s -> IS (bg_loop cfg fuel s).
Proof.
  induction fuel as [|f IH]; intros s H; cbn [bg_loop]; [exact H|].
  destruct (runq s) as [|tid rest]; [exact H|]. apply IH. apply IS_run_task. exact H.
Qed.

Lemma IS_step cfg s o : IS s -> IS (step cfg s o).
Proof.
  intros H. unfold step. assert (H0 : IS (set_out [] s)) by exact H.
  destruct o.
  - apply IS_do_issue; auto.
  - apply IS_do_poll; auto.
  - apply IS_do_cancel; auto.
  - unfold do_finish. destruct (get_req (set_out [] s) r) as [[|ck|p fin pl| |]|]; try exact H0. destruct pl; exact H0.
  - unfold do_upgrade. destruct (get_req (set_out [] s) r) as [[|ck|p fin pl| |]|]; try exact H0.
    eapply IS_frame; [apply toks_drain_conn_waiters|apply now_drain_conn_waiters|exact H0].
  - unfold do_dial_done. destruct (get_dial (set_out [] s) r) as [d|]; [|exact H0].
    destruct (d_stage d); try exact H0. eapply IS_frame; [apply toks_wake_poller|apply now_wake_poller|exact H0].
  - unfold do_conn_ready. destruct (get_conn (set_out [] s) c); [|exact H0].
    eapply IS_frame; [apply toks_drain_conn_waiters|apply now_drain_conn_waiters|exact H0].
  - unfold do_conn_close. destruct (get_conn (set_out [] s) c); [|exact H0].
    eapply IS_frame; [apply toks_drain_conn_waiters|apply now_drain_conn_waiters|exact H0].
  - unfold do_bg. apply IS_bg_loop; auto.
  - unfold IS in *. cbn [now toks set_now set_out] in *. eapply Forall_impl; [|exact H].
    intros p Hp. eapply okl_mono; [|exact Hp]. lia.
Qed.

Lemma IS_init : IS init.
Proof. constructor. Qed.

(* in every reachable state the entry times along every idle list are non-decreasing and <= now *)
Theorem IS_run cfg ops : IS (run cfg ops).
Proof.
  unfold run. generalize IS_init. generalize init.
  induction ops as [|o ops IH]; intros s H; cbn [fold_left]; [exact H|]. apply IH. apply IS_step; auto.
Qed.
