(* C14 support, part 5: [do_bg] runs every queued task (the fuel suffices, the run queue is empty
   afterwards), and a resolved dial that is polled by a delayed task completes in that run. *)
From HD Require Import common.Base http.Model pool.Model pool.Spec pool.Frames pool.BaseC14 pool.FramesC14 pool.DialC14.
Local Open Scope list_scope.

(* ------------------------------------------------------------------ the run queue is only appended to by [spawn] *)
Lemma runq_emit e s : runq (emit e s) = runq s. Proof. reflexivity. Qed.
Lemma runq_upd_conn c f s : runq (upd_conn c f s) = runq s. Proof. reflexivity. Qed.
Lemma runq_set_req r v s : runq (set_req r v s) = runq s. Proof. reflexivity. Qed.
Lemma runq_upd_dial r f s : runq (upd_dial r f s) = runq s. Proof. reflexivity. Qed.
Lemma runq_upd_tok t f s : runq (upd_tok t f s) = runq s. Proof. destruct t; reflexivity. Qed.
Lemma runq_finish_task t s : runq (finish_task t s) = runq s. Proof. reflexivity. Qed.
Lemma runq_drop_conn c s : runq (drop_conn c s) = runq s.
Proof. unfold drop_conn. dm; reflexivity. Qed.
Lemma runq_clone_conn c s : runq (clone_conn c s) = runq s. Proof. reflexivity. Qed.
Lemma runq_deliver w p s : runq (deliver w p s) = runq s.
Proof. unfold deliver. dm; reflexivity. Qed.
Lemma runq_drop_sender w s : runq (drop_sender w s) = runq s.
Proof. unfold drop_sender. dm; reflexivity. Qed.
Lemma runq_walk_waiters t c sh ws : forall s, runq (snd (walk_waiters t c sh ws s)) = runq s.
Proof.
  induction ws as [|[w b] ws IH]; intros s; cbn [walk_waiters]; [reflexivity|].
  destruct (rx_live s w); [destruct sh|].
  - rewrite IH, runq_deliver. reflexivity.
  - cbn [snd]. apply runq_deliver.
  - apply IH.
Qed.
Lemma runq_release_pending ws : forall s, runq (snd (release_pending ws s)) = runq s.
Proof.
  induction ws as [|[w b] ws IH]; intros s; cbn [release_pending]; [reflexivity|].
  destruct b.
  - rewrite IH. apply runq_drop_sender.
  - specialize (IH s). destruct (release_pending ws s). exact IH.
Qed.
Lemma runq_pool_cancel t rid s : runq (pool_cancel t rid s) = runq s.
Proof.
  unfold pool_cancel. destruct (p_marker (get_tok s t)) as [o|]; [|reflexivity]. destruct (Nat.eqb o rid); [|reflexivity].
  pose proof (runq_release_pending (p_waiting (get_tok (upd_tok t (set_marker None) s) t)) (upd_tok t (set_marker None) s)) as H.
  destruct (release_pending _ _) as [rest s2]. cbn [snd] in H. rewrite runq_upd_tok, H, runq_upd_tok. reflexivity.
Qed.
Lemma runq_pool_push n t c s : runq (pool_push n t c s) = runq s.
Proof.
  unfold pool_push.
  set (s1 := if share_of s c then upd_tok t (set_marker None) s else s).
  assert (H1 : runq s1 = runq s) by (subst s1; destruct (share_of s c); [apply runq_upd_tok|reflexivity]).
  pose proof (runq_walk_waiters t c (share_of s1 c) (p_waiting (get_tok s1 t)) s1) as H2.
  destruct (walk_waiters _ _ _ _ _) as [[rest moved] s2]. cbn [snd] in H2.
  destruct moved; [rewrite runq_upd_tok; congruence|].
  match goal with |- runq (if ?b then _ else _) = _ => destruct b end.
  - rewrite !runq_upd_tok. congruence.
  - rewrite runq_drop_conn, runq_upd_tok. congruence.
Qed.
Lemma runq_register cfg t c s : runq (snd (register cfg t c s)) = runq s.
Proof.
  unfold register. destruct (g_pool cfg && negb (t =? 0)); [destruct (share_of s c)|]; cbn [snd]; try reflexivity.
  destruct (is_open s c); [|reflexivity]. rewrite runq_pool_push. reflexivity.
Qed.
Lemma runq_connector_poll rid b s : runq (snd (connector_poll rid b s)) = runq s.
Proof. unfold connector_poll. dm; reflexivity. Qed.

(* ------------------------------------------------------------------ weight of the run queue *)
Definition isdel (s : state) (n : nat) : bool :=
  match nth n (tasks s) None with Some (TDelayed _ _ _) => true | _ => false end.
Definition W (s : state) : nat := List.length (runq s) + List.length (filter (isdel s) (runq s)).
Definition nnd (s s' : state) : Prop := forall n, isdel s' n = true -> isdel s n = true.

Lemma nnd_refl s : nnd s s. Proof. intros n H. exact H. Qed.
Lemma nnd_trans a b c : nnd a b -> nnd b c -> nnd a c.
Proof. intros H1 H2 n H. apply H1, H2, H. Qed.
Lemma nnd_tasks s s' : tasks s' = tasks s -> nnd s s'.
Proof. intros E n. unfold isdel. rewrite E. auto. Qed.
Lemma nnd_mdf s s' : mdf s s' -> nnd s s'.
Proof.
  intros F n. unfold isdel. destruct (nth n (tasks s') None) as [[c t|r t o]|] eqn:E; try discriminate.
  intros _. rewrite (mf_new _ _ F n r t o E). reflexivity.
Qed.
Lemma nnd_finish tid s : nnd s (finish_task tid s).
Proof.
  intros n. unfold isdel. cbn. rewrite nth_upd_none. destruct (Nat.eqb tid n); [discriminate|auto].
Qed.

Lemma filter_len_le {A} (f g : A -> bool) l : (forall x, f x = true -> g x = true) ->
  List.length (filter f l) <= List.length (filter g l).
Proof.
  intros H. induction l as [|a l IH]; cbn; [lia|].
  destruct (f a) eqn:Ef; [rewrite (H a Ef); cbn; lia|]. destruct (g a); cbn; lia.
Qed.

Lemma MD_connector_poll_tasks rid b s : tasks (snd (connector_poll rid b s)) = tasks s.
Proof. unfold connector_poll. dm; reflexivity. Qed.

Lemma pooled_drop_rq p s :
  runq (pooled_drop p s) = runq s \/ exists n, runq (pooled_drop p s) = runq s ++ [n] /\ isdel (pooled_drop p s) n = false.
Proof.
  destruct p as [c t]. unfold pooled_drop. destruct (share_of s c); [left; apply runq_drop_conn|].
  right. exists (List.length (tasks s)). split; [reflexivity|]. unfold isdel, spawn. cbn [tasks set_runq set_tasks].
  rewrite app_nth2, Nat.sub_diag by lia. reflexivity.
Qed.

Lemma run_task_rq cfg tid s0 :
  nnd s0 (run_task cfg tid s0) /\
  (runq (run_task cfg tid s0) = runq s0 \/
   (isdel s0 tid = true /\ exists n, runq (run_task cfg tid s0) = runq s0 ++ [n] /\ isdel (run_task cfg tid s0) n = false)).
Proof.
  unfold run_task. destruct (nth tid (tasks s0) None) as [[c t|rid t own]|] eqn:Et.
  - destruct (get_conn s0 c) as [cn|]; [|split; [apply nnd_finish|left; reflexivity]].
    assert (Hfin : forall e, let s1 := finish_task tid (emit e s0) in
              let s2 := if is_open s1 c && negb (t =? 0) && g_pool cfg then pool_push (g_max_idle cfg) t c s1 else drop_conn c s1 in
              nnd s0 s2 /\ runq s2 = runq s0).
    { intros e s1 s2. assert (N1 : nnd s0 s1) by (eapply nnd_trans; [apply (nnd_tasks s0 (emit e s0)); reflexivity|apply nnd_finish]).
      subst s2. destruct (_ && _).
      - split; [eapply nnd_trans; [exact N1|apply nnd_mdf, mdf_pool_push]|rewrite runq_pool_push; reflexivity].
      - split; [eapply nnd_trans; [exact N1|apply nnd_mdf, mdf_drop_conn]|rewrite runq_drop_conn; reflexivity]. }
    destruct (negb (c_open cn)); [destruct (Hfin (ERdy c false)) as [A B]; split; [exact A|left; exact B]|].
    destruct (c_share cn || c_ready cn); [destruct (Hfin (ERdy c true)) as [A B]; split; [exact A|left; exact B]|].
    split; [apply nnd_tasks; reflexivity|left; reflexivity].
  - assert (Hd : isdel s0 tid = true) by (unfold isdel; rewrite Et; reflexivity).
    pose proof (runq_connector_poll rid (ByTask tid) s0) as Q1.
    pose proof (MD_connector_poll_tasks rid (ByTask tid) s0) as T1.
    destruct (connector_poll rid (ByTask tid) s0) as [r s1]. cbn [snd] in *.
    destruct r as [|[c|e]].
    + split; [apply nnd_tasks; exact T1|left; exact Q1].
    + pose proof (mdf_register cfg t c s1) as F2. pose proof (runq_register cfg t c s1) as Q2.
      destruct (register cfg t c s1) as [p s2]. cbn [snd] in F2, Q2.
      set (s3 := if g_pool cfg && negb (t =? 0) && own then pool_cancel t rid s2 else s2).
      assert (F3 : mdf s2 s3) by (subst s3; destruct (_ && _); [apply mdf_pool_cancel|apply mdf_refl]).
      assert (Q3 : runq s3 = runq s2) by (subst s3; destruct (_ && _); [apply runq_pool_cancel|reflexivity]).
      assert (N4 : nnd s0 (finish_task tid s3)).
      { eapply nnd_trans; [apply nnd_tasks; exact T1|]. eapply nnd_trans; [apply nnd_mdf; exact F2|].
        eapply nnd_trans; [apply nnd_mdf; exact F3|apply nnd_finish]. }
      split; [eapply nnd_trans; [exact N4|apply nnd_mdf, mdf_pooled_drop]|].
      destruct (pooled_drop_rq p (finish_task tid s3)) as [Q|(n & Q & D)].
      * left. rewrite Q. cbn. congruence.
      * right. split; [exact Hd|]. exists n. split; [|exact D]. rewrite Q. cbn. congruence.
    + set (s3 := if g_pool cfg && negb (t =? 0) && own then pool_cancel t rid s1 else s1).
      assert (F3 : mdf s1 s3) by (subst s3; destruct (_ && _); [apply mdf_pool_cancel|apply mdf_refl]).
      assert (Q3 : runq s3 = runq s1) by (subst s3; destruct (_ && _); [apply runq_pool_cancel|reflexivity]).
      split; [|left; cbn; congruence].
      eapply nnd_trans; [apply nnd_tasks; exact T1|]. eapply nnd_trans; [apply nnd_mdf; exact F3|apply nnd_finish].
  - split; [apply nnd_refl|left; reflexivity].
Qed.

Lemma W_run_task cfg tid rest s : runq s = tid :: rest -> W (run_task cfg tid (set_runq rest s)) < W s.
Proof.
  intros Hq. destruct (run_task_rq cfg tid (set_runq rest s)) as [N C].
  set (s' := run_task cfg tid (set_runq rest s)) in *.
  assert (Hf : List.length (filter (isdel s') rest) <= List.length (filter (isdel s) rest)).
  { apply filter_len_le. intros n Hn. apply N in Hn. exact Hn. }
  unfold W at 2. rewrite Hq. cbn [List.length filter].
  assert (Hge : List.length (filter (isdel s) rest) <= List.length (if isdel s tid then tid :: filter (isdel s) rest else filter (isdel s) rest))
    by (destruct (isdel s tid); cbn; lia).
  destruct C as [C|(Hd & n & C & Dn)]; unfold W; rewrite C; cbn [runq set_runq].
  - lia.
  - change (isdel (set_runq rest s) tid) with (isdel s tid) in Hd. rewrite Hd. rewrite filter_app, !app_length. cbn [filter]. rewrite Dn. cbn. lia.
Qed.

Lemma bg_drains cfg : forall fuel s, W s < fuel -> runq (bg_loop cfg fuel s) = [].
Proof.
  induction fuel as [|f IH]; intros s H; [lia|]. cbn [bg_loop].
  destruct (runq s) as [|tid rest] eqn:Hq; [exact Hq|]. apply IH.
  pose proof (W_run_task cfg tid rest s Hq). lia.
Qed.

Lemma filter_len_le_all {A} (f : A -> bool) l : List.length (filter f l) <= List.length l.
Proof. induction l as [|a l IH]; cbn; [lia|]. destruct (f a); cbn; lia. Qed.

Theorem do_bg_drains cfg s : runq (do_bg cfg s) = [].
Proof.
  unfold do_bg. apply bg_drains. unfold W.
  assert (List.length (filter (isdel s) (runq s)) <= List.length (runq s)) by apply filter_len_le_all. lia.
Qed.

(* ------------------------------------------------------------------ the log only grows *)
Definition out_sub (s s' : state) : Prop := forall e, In e (out s) -> In e (out s').
Lemma out_sub_refl s : out_sub s s. Proof. intros e H. exact H. Qed.
Lemma out_sub_trans a b c : out_sub a b -> out_sub b c -> out_sub a c.
Proof. intros H1 H2 e H. apply H2, H1, H. Qed.
Lemma out_sub_same s s' : out s' = out s -> out_sub s s'.
Proof. intros E e. rewrite E. auto. Qed.
Lemma out_sub_emit e s : out_sub s (emit e s).
Proof. intros x H. cbn. right. exact H. Qed.
Lemma out_sub_pf s s' : pf s s' -> out_sub s s'.
Proof. intros F e H. destruct (pf_out _ _ F) as (es & -> & _). apply in_or_app. right. exact H. Qed.
Lemma out_sub_connector_poll rid b s : out_sub s (snd (connector_poll rid b s)).
Proof.
  unfold connector_poll. destruct (get_dial s rid) as [d|]; [|apply out_sub_refl].
  destruct (d_stage d) as [| |[a| |]|]; cbn [snd]; try apply out_sub_refl; try (apply out_sub_same; reflexivity).
  - eapply out_sub_trans; [apply out_sub_emit|apply out_sub_same; reflexivity].
  - intros e H. cbn. right. exact H.
Qed.

Lemma pf_hand_back cfg t c s1 :
  pf s1 (if is_open s1 c && negb (t =? 0) && g_pool cfg then pool_push (g_max_idle cfg) t c s1 else drop_conn c s1).
Proof. destruct (_ && _); [apply pf_pool_push|apply pf_drop_conn]. Qed.

Lemma out_sub_run_task cfg tid s : out_sub s (run_task cfg tid s).
Proof.
  unfold run_task. destruct (nth tid (tasks s) None) as [[c t|rid t own]|]; [| |apply out_sub_refl].
  - destruct (get_conn s c) as [cn|]; [|apply out_sub_same; reflexivity].
    assert (Hfin : forall e, out_sub s (let s1 := finish_task tid (emit e s) in
              if is_open s1 c && negb (t =? 0) && g_pool cfg then pool_push (g_max_idle cfg) t c s1 else drop_conn c s1)).
    { intros e. cbv zeta. eapply out_sub_trans; [|apply out_sub_pf, pf_hand_back].
      eapply out_sub_trans; [apply (out_sub_emit e)|apply out_sub_same; reflexivity]. }
    destruct (negb (c_open cn)); [apply Hfin|]. destruct (c_share cn || c_ready cn); [apply Hfin|apply out_sub_same; reflexivity].
  - pose proof (out_sub_connector_poll rid (ByTask tid) s) as O1.
    destruct (connector_poll rid (ByTask tid) s) as [r s1]. cbn [snd] in O1.
    destruct r as [|[c|e]]; [exact O1| |].
    + pose proof (pf_register cfg t c s1) as F2. destruct (register cfg t c s1) as [p s2]. cbn [snd] in F2.
      set (s3 := if g_pool cfg && negb (t =? 0) && own then pool_cancel t rid s2 else s2).
      assert (F3 : pf s2 s3) by (subst s3; destruct (_ && _); [apply pf_pool_cancel|apply pf_refl]).
      eapply out_sub_trans; [exact O1|]. eapply out_sub_trans; [apply out_sub_pf; exact F2|].
      eapply out_sub_trans; [apply out_sub_pf; exact F3|].
      eapply out_sub_trans; [apply (out_sub_same s3 (finish_task tid s3)); reflexivity|apply out_sub_pf, pf_pooled_drop].
    + set (s3 := if g_pool cfg && negb (t =? 0) && own then pool_cancel t rid s1 else s1).
      assert (F3 : pf s1 s3) by (subst s3; destruct (_ && _); [apply pf_pool_cancel|apply pf_refl]).
      eapply out_sub_trans; [exact O1|]. eapply out_sub_trans; [apply out_sub_pf; exact F3|].
      apply (out_sub_same s3 (finish_task tid s3)); reflexivity.
Qed.

(* ------------------------------------------------------------------ a resolved, abandoned dial completes *)
Definition has_new (s : state) (r : nat) : Prop := exists c sh, In (ENew c sh r) (out s).
Definition wants (s : state) (r : nat) : Prop :=
  ~ isck s r /\ exists d a, get_dial s r = Some d /\ d_stage d = DResolved (DOk a).

(* dials untouched, no request becomes a checkout, the log grows *)
Definition wf (s s' : state) : Prop := dials s' = dials s /\ (forall r, ~ isck s r -> ~ isck s' r) /\ out_sub s s'.
Lemma wf_trans a b c : wf a b -> wf b c -> wf a c.
Proof. intros (A1 & A2 & A3) (B1 & B2 & B3). split; [congruence|]. split; [auto|eapply out_sub_trans; eauto]. Qed.
Lemma wf_mdf_pf s s' : mdf s s' -> pf s s' -> wf s s'.
Proof. intros F P. split; [apply (mf_dials _ _ F)|]. split; [intros r; apply mdf_not_isck; exact F|apply out_sub_pf; exact P]. Qed.
Lemma wf_same s s' : dials s' = dials s -> reqs s' = reqs s -> out s' = out s -> wf s s'.
Proof. intros A B C. split; [exact A|]. split; [unfold isck, get_req; rewrite B; auto|apply out_sub_same; exact C]. Qed.
Lemma wf_emit e s : wf s (emit e s).
Proof. split; [reflexivity|]. split; [auto|apply out_sub_emit]. Qed.

Lemma has_new_wf s s' r : wf s s' -> has_new s r -> has_new s' r.
Proof. intros (_ & _ & O) (c & sh & H). exists c, sh. apply O. exact H. Qed.
Lemma wants_wf s s' r : wf s s' -> wants s r -> wants s' r.
Proof. intros (D & K & _) (Hn & d & a & Hd & Hs). split; [apply K; exact Hn|]. exists d, a. unfold get_dial in *. rewrite D. auto. Qed.

Lemma wf_hand_back cfg t c s1 :
  wf s1 (if is_open s1 c && negb (t =? 0) && g_pool cfg then pool_push (g_max_idle cfg) t c s1 else drop_conn c s1).
Proof. destruct (_ && _); apply wf_mdf_pf; auto using mdf_pool_push, pf_pool_push, mdf_drop_conn, pf_drop_conn. Qed.

Lemma wf_run_ready cfg tid c t s : nth tid (tasks s) None = Some (TWhenReady c t) -> wf s (run_task cfg tid s).
Proof.
  intros Et. unfold run_task. rewrite Et.
  destruct (get_conn s c) as [cn|]; [|apply wf_same; reflexivity].
  assert (Hfin : forall e, wf s (let s1 := finish_task tid (emit e s) in
            if is_open s1 c && negb (t =? 0) && g_pool cfg then pool_push (g_max_idle cfg) t c s1 else drop_conn c s1)).
  { intros e. cbv zeta. eapply wf_trans; [|apply wf_hand_back].
    eapply wf_trans; [apply (wf_emit e)|apply wf_same; reflexivity]. }
  destruct (negb (c_open cn)); [apply Hfin|]. destruct (c_share cn || c_ready cn); [apply Hfin|apply wf_same; reflexivity].
Qed.

Lemma wf_run_delayed cfg tid rid t own s : nth tid (tasks s) None = Some (TDelayed rid t own) ->
  wf (snd (connector_poll rid (ByTask tid) s)) (run_task cfg tid s).
Proof.
  intros Et. unfold run_task. rewrite Et.
  destruct (connector_poll rid (ByTask tid) s) as [r s1]. cbn [snd].
  destruct r as [|[c|e]]; [apply wf_same; reflexivity| |].
  - pose proof (pf_register cfg t c s1) as P2. pose proof (mdf_register cfg t c s1) as F2.
    destruct (register cfg t c s1) as [p s2]. cbn [snd] in P2, F2.
    set (s3 := if g_pool cfg && negb (t =? 0) && own then pool_cancel t rid s2 else s2).
    assert (F3 : wf s2 s3) by (subst s3; destruct (_ && _); [apply wf_mdf_pf; [apply mdf_pool_cancel|apply pf_pool_cancel]|apply wf_same; reflexivity]).
    eapply wf_trans; [apply wf_mdf_pf; eauto|]. eapply wf_trans; [exact F3|].
    eapply wf_trans; [apply (wf_same s3 (finish_task tid s3)); reflexivity|apply wf_mdf_pf; [apply mdf_pooled_drop|apply pf_pooled_drop]].
  - set (s3 := if g_pool cfg && negb (t =? 0) && own then pool_cancel t rid s1 else s1).
    assert (F3 : wf s1 s3) by (subst s3; destruct (_ && _); [apply wf_mdf_pf; [apply mdf_pool_cancel|apply pf_pool_cancel]|apply wf_same; reflexivity]).
    eapply wf_trans; [exact F3|apply (wf_same s3 (finish_task tid s3)); reflexivity].
Qed.

Lemma connector_poll_wants rid b s r : has_new s r \/ wants s r ->
  has_new (snd (connector_poll rid b s)) r \/ wants (snd (connector_poll rid b s)) r.
Proof.
  intros [H|H]; [left; destruct H as (c & sh & H); exists c, sh; apply out_sub_connector_poll; exact H|].
  destruct H as (Hn & d & a & Hd & Hs). unfold connector_poll.
  destruct (Nat.eq_dec rid r) as [->|Hne].
  - rewrite Hd, Hs. cbn [snd]. left. eexists _, _. cbn. left. reflexivity.
  - right. destruct (get_dial s rid) as [d0|]; [|split; eauto].
    assert (Ho : forall f s0, reqs s0 = reqs s -> dials s0 = dials s -> wants (upd_dial rid f s0) r).
    { intros f s0 E1 E2. split; [unfold isck, get_req; cbn; rewrite E1; exact Hn|]. exists d, a. split; [|exact Hs].
      rewrite get_dial_upd. destruct (Nat.eqb_spec rid r); [contradiction|]. unfold get_dial. rewrite E2. exact Hd. }
    destruct (d_stage d0) as [| |[a0| |]|]; cbn [snd]; try (apply Ho; reflexivity). split; eauto.
Qed.

Lemma run_task_wants cfg tid s r : has_new s r \/ wants s r -> has_new (run_task cfg tid s) r \/ wants (run_task cfg tid s) r.
Proof.
  intros H. destruct (nth tid (tasks s) None) as [[c t|rid t own]|] eqn:Et.
  - pose proof (wf_run_ready cfg tid c t s Et) as F. destruct H; [left; eapply has_new_wf; eauto|right; eapply wants_wf; eauto].
  - pose proof (wf_run_delayed cfg tid rid t own s Et) as F.
    destruct (connector_poll_wants rid (ByTask tid) s r H); [left; eapply has_new_wf; eauto|right; eapply wants_wf; eauto].
  - unfold run_task. rewrite Et. exact H.
Qed.

Lemma set_runq_wants rest s r : has_new s r \/ wants s r -> has_new (set_runq rest s) r \/ wants (set_runq rest s) r.
Proof. auto. Qed.

Lemma bg_loop_wants cfg r : forall fuel s, has_new s r \/ wants s r -> has_new (bg_loop cfg fuel s) r \/ wants (bg_loop cfg fuel s) r.
Proof.
  induction fuel as [|f IH]; intros s H; cbn [bg_loop]; [exact H|].
  destruct (runq s) as [|tid rest]; [exact H|]. apply IH. apply run_task_wants. apply set_runq_wants. exact H.
Qed.

(* clause (b'), model level *)
Theorem bg_completes cfg s r d a : MD cfg None s -> ~ isck s r -> get_dial s r = Some d -> d_stage d = DResolved (DOk a) ->
  has_new (do_bg cfg s) r.
Proof.
  intros HM Hn Hd Hs.
  assert (H0 : has_new s r \/ wants s r) by (right; split; [exact Hn|]; exists d, a; auto).
  destruct (bg_loop_wants cfg r (2 * List.length (runq s) + 1) s H0) as [H|H]; [exact H|]. exfalso.
  fold (do_bg cfg s) in H. destruct H as (Hn' & d' & a' & Hd' & Hs').
  assert (HM' : MD cfg None (do_bg cfg s)) by (apply MD_bg_loop; exact HM).
  destruct (md_bg _ _ _ HM' r d') as (tid & t & own & _ & [Hq|[Hq _]]); auto; try discriminate.
  - right. eauto.
  - rewrite do_bg_drains in Hq. destruct Hq.
  - rewrite Hs' in Hq. discriminate.
Qed.
