(* C15, retention clause: after the closing procedure (and the probe) the connections that were created,
   have not been dropped and are not held by a request are at most max_idle_per_host per origin - none
   at all when the pool is disabled.  For every configuration and every history. *)
From HD Require Import common.Base http.Model pool.Model pool.Spec pool.SpecC15d pool.Frames pool.ProofsC15 pool.ProofsLite pool.FramesC06 pool.ProofsC06
  pool.FramesC03 pool.ProofsC03 pool.LiveC03 pool.LiveC03b pool.LiveC03c pool.SchedC15 pool.DrainC15 pool.FramesC02 pool.AccC15 pool.AccC15b pool.AccC15c pool.AccC15d.
Local Open Scope list_scope.

(* ---------------------------------------------------------------- the key table *)
Lemma keys_bg_loop cfg fuel : forall s, keys (bg_loop cfg fuel s) = keys s.
Proof.
  induction fuel as [|f IH]; intros s; cbn [bg_loop]; [reflexivity|]. destruct (runq s) as [|tid rest]; [reflexivity|].
  rewrite IH. apply (f_keys _ _ _ _ _ (proj1 (Tr_run_task cfg tid (set_runq rest s)))).
Qed.

Lemma KND_step cfg s o : KND (keys s) -> KND (keys (step cfg s o)).
Proof.
  intros H. unfold step. destruct o as [u p|r|r|r|r|r y|c|c| |dt].
  - unfold do_issue. cbv zeta. set (s0 := set_woken (woken (set_out [] s) ++ [false]) (set_out [] s)).
    destruct (nth u (g_uris cfg) None) as [k|]; [|exact H]. destruct (negb (g_pool cfg)); [exact H|].
    assert (H1 : KND (keys (snd (key_insert k s0)))) by (destruct (key_insert k s0) as [t s1] eqn:E; cbn [snd]; apply (KND_key_insert k s0 t s1); [exact H|exact E]).
    destruct (key_insert k s0) as [t s1]. cbn [snd] in H1.
    assert (E2 : keys (snd (pool_pop (g_timeout cfg) t s1)) = keys s1) by apply (f_keys _ _ _ _ _ (proj1 (Tr_pool_pop _ _ _))).
    destruct (pool_pop (g_timeout cfg) t s1) as [found s2]. cbn [snd] in E2.
    destruct found as [c|]; [cbn; rewrite E2; exact H1|].
    destruct (match p_marker (get_tok s2 t) with Some _ => true | None => false end); [destruct t; cbn; rewrite E2; exact H1|].
    destruct p, t; cbn; rewrite E2; exact H1.
  - rewrite (f_keys _ _ _ _ _ (proj1 (Tr_do_poll cfg r _))). exact H.
  - rewrite (f_keys _ _ _ _ _ (proj1 (Tr_do_cancel cfg r _))). exact H.
  - rewrite (f_keys _ _ _ _ _ (proj1 (Tr_do_finish r _))). exact H.
  - rewrite (f_keys _ _ _ _ _ (proj1 (Tr_do_upgrade r _))). exact H.
  - rewrite (f_keys _ _ _ _ _ (proj1 (Tr_do_dial_done r y _))). exact H.
  - rewrite (f_keys _ _ _ _ _ (proj1 (Tr_do_conn_ready c _))). exact H.
  - rewrite (f_keys _ _ _ _ _ (proj1 (Tr_do_conn_close c _))). exact H.
  - unfold do_bg. rewrite keys_bg_loop. exact H.
  - exact H.
Qed.

Theorem KND_run cfg ops : KND (keys (run cfg ops)).
Proof.
  unfold run. assert (H : KND (keys init)) by apply KND_nil. revert H. generalize init.
  induction ops as [|o ops IH]; intros s H; cbn [fold_left]; [exact H|]. apply IH. apply KND_step. exact H.
Qed.

(* without a pool there is no token table *)
Lemma toks_len_bg_loop cfg fuel : forall s, List.length (toks (bg_loop cfg fuel s)) = List.length (toks s).
Proof.
  induction fuel as [|f IH]; intros s; cbn [bg_loop]; [reflexivity|]. destruct (runq s) as [|tid rest]; [reflexivity|].
  rewrite IH. apply (f_tl _ _ _ _ _ (proj1 (Tr_run_task cfg tid (set_runq rest s)))).
Qed.

Lemma nopool_step cfg s o : g_pool cfg = false -> toks s = [] -> toks (step cfg s o) = [].
Proof.
  intros Hp H. apply length_zero_iff_nil. unfold step. destruct o as [u p|r|r|r|r|r y|c|c| |dt].
  - unfold do_issue. cbv zeta. rewrite Hp. cbn [negb]. destruct (nth u (g_uris cfg) None); cbn; rewrite H; reflexivity.
  - rewrite (f_tl _ _ _ _ _ (proj1 (Tr_do_poll cfg r _))). cbn. rewrite H. reflexivity.
  - rewrite (f_tl _ _ _ _ _ (proj1 (Tr_do_cancel cfg r _))). cbn. rewrite H. reflexivity.
  - rewrite (f_tl _ _ _ _ _ (proj1 (Tr_do_finish r _))). cbn. rewrite H. reflexivity.
  - rewrite (f_tl _ _ _ _ _ (proj1 (Tr_do_upgrade r _))). cbn. rewrite H. reflexivity.
  - rewrite (f_tl _ _ _ _ _ (proj1 (Tr_do_dial_done r y _))). cbn. rewrite H. reflexivity.
  - rewrite (f_tl _ _ _ _ _ (proj1 (Tr_do_conn_ready c _))). cbn. rewrite H. reflexivity.
  - rewrite (f_tl _ _ _ _ _ (proj1 (Tr_do_conn_close c _))). cbn. rewrite H. reflexivity.
  - unfold do_bg. rewrite toks_len_bg_loop. cbn. rewrite H. reflexivity.
  - cbn. rewrite H. reflexivity.
Qed.

Theorem nopool_run cfg ops : g_pool cfg = false -> toks (run cfg ops) = [].
Proof.
  intros Hp. unfold run. assert (H : toks init = []) by reflexivity. revert H. generalize init.
  induction ops as [|o ops IH]; intros s H; cbn [fold_left]; [exact H|]. apply IH. apply nopool_step; assumption.
Qed.

(* ---------------------------------------------------------------- the key environment (C06) at the final tracker *)
Lemma Good_final_from cfg : forall ops s m E,
  Good E m [] (set_out [] s) ->
  exists E', Good E' (final_mst cfg m ops (trace_from cfg s ops)) [] (set_out [] (fold_left (step cfg) ops s)).
Proof.
  induction ops as [|o ops IH]; intros s m E H; cbn [trace_from final_mst fold_left]; [eauto|].
  destruct (step_good cfg E m s o (observe (step cfg s o)) H) as [E1 [_ H1]].
  destruct (Good_next cfg E1 m o (step cfg s o) H1) as [_ Hn]. eapply IH. exact Hn.
Qed.

Lemma Good_final cfg ops : exists E, Good E (final_mst cfg Spec.m0 ops (trace cfg ops)) [] (set_out [] (run cfg ops)).
Proof. apply Good_final_from with (E := mkE [] [] []). exact Good_init. Qed.

(* the tracker's origin of a connection is the model's *)
Lemma conn_key_model E m s c : Good E m [] (set_out [] s) -> conn_key m c = okey s c.
Proof.
  intros H. pose proof (Good_mkeys _ _ _ H) as Hm. rewrite (mkeys_conn_key m _ _ c Hm). fold (ok E c). apply (Good_okey E m s c H).
Qed.

(* ---------------------------------------------------------------- the final state of a drained history *)
Section Final.
Variables (cfg : config) (body : list op) (u : nat) (p : proto).
Let ops := body ++ drain_ops (count_issues body) u p.
Let sF := run cfg ops.
Let mF := final_mst cfg Spec.m0 ops (trace cfg ops).

Lemma final_nobody_waits : forall r rq, get_req sF r = Some rq -> is_lv rq = false.
Proof. apply drain_resolves. Qed.

Lemma final_no_task : NT sF.
Proof.
  unfold sF, ops. set (n := count_issues body).
  assert (HR0 : Reach cfg (run cfg body)) by apply Reach_run.
  assert (Hn0 : List.length (reqs (run cfg body)) = n) by (unfold run; rewrite len_run; reflexivity).
  destruct (TW_GN_run cfg body) as [TW0 GN0].
  unfold run at 1. rewrite fold_left_app. fold (run cfg body). rewrite drain_ops_split.
  match goal with |- context [fold_left _ (?a ++ ?b ++ ?c) _] => set (lA := a); set (lB := b) end.
  rewrite !fold_left_app.
  destruct (drain_A cfg n (run cfg body) HR0 Hn0) as (RA & NA & EA & TA). cbv zeta in *. fold lA in RA, NA, EA, TA.
  destruct (TW_GN_steps cfg lA (run cfg body) TW0 GN0) as [TWA GNA].
  apply (drain_tail cfg n u p (fold_left (step cfg) lA (run cfg body)) RA NA EA TA TWA GNA).
Qed.

Lemma NT_LT s : NT s -> LT s = [].
Proof.
  intros H. unfold LT. assert (E : forall l, (forall tid, nth tid l None = None) -> flat_map taskT l = []).
  { induction l as [|a l IH]; intros Hl; [reflexivity|]. cbn [flat_map]. pose proof (Hl 0) as H0. cbn in H0. subst a. cbn [taskT app].
    apply IH. intros tid. exact (Hl (S tid)). }
  apply E. exact H.
Qed.

Lemma in_flat_map_nth {A} (f : A -> list nat) c : forall l, In c (flat_map f l) -> exists i a, nth_error l i = Some a /\ In c (f a).
Proof.
  induction l as [|a l IH]; cbn [flat_map]; [intros []|]. intros H. apply in_app_or in H. destruct H as [H|H].
  - exists 0, a. auto.
  - destruct (IH H) as [i [a' [H1 H2]]]. exists (S i), a'. auto.
Qed.

(* a retained connection sits in an idle list *)
Lemma retained_in_idle c ci :
  nth_error (m_conns mF) c = Some ci -> retained mF c ci = true ->
  exists i pt a, nth_error (toks sF) i = Some pt /\ In (c, a) (p_idle pt).
Proof.
  intros Hc Hr. unfold retained in Hr. apply andb_true_iff in Hr. destruct Hr as [Hd Hh]. apply negb_true_iff in Hd, Hh.
  destruct (KB_final cfg ops) as [HK _]. fold sF mF in HK.
  assert (Etm : tm mF (set_out [] sF) = mF) by reflexivity.
  pose proof (kd _ _ _ _ _ _ HK c ci) as Hrefs. rewrite Etm in Hrefs. specialize (Hrefs Hc Hd).
  pose proof (kb _ _ _ _ _ _ HK c) as Hb. rewrite cnt_nil, Nat.add_0_r in Hb.
  assert (Hin : In c (Hs None (set_out [] sF))) by (apply cnt_pos_In; lia).
  unfold Hs in Hin. change (LT (set_out [] sF)) with (LT sF) in Hin. rewrite (NT_LT sF final_no_task), app_nil_r in Hin.
  apply in_app_or in Hin. destruct Hin as [Hin|Hin].
  - unfold LA in Hin. apply in_app_or in Hin. destruct Hin as [Hin|Hin].
    + apply in_flat_map_nth in Hin. destruct Hin as [i [pt [H1 H2]]]. unfold tokA in H2. apply in_map_iff in H2. destruct H2 as [[c' a] [E H2]].
      cbn in E. subst c'. exists i, pt, a. auto.
    + exfalso. apply in_flat_map_nth in Hin. destruct Hin as [r [rq [H1 H2]]]. change (reqs_x None (set_out [] sF)) with (reqs sF) in H1.
      pose proof (final_nobody_waits r rq H1) as Hv. destruct rq; try discriminate; destruct H2.
  - exfalso. unfold LH in Hin. apply in_flat_map_nth in Hin. destruct Hin as [r [rq [H1 H2]]]. change (reqs_x None (set_out [] sF)) with (reqs sF) in H1.
    destruct rq as [|ck|[c' t] f pl| |]; try (destruct H2; fail). cbn in H2. destruct H2 as [E|[]]. subst c'.
    destruct (kh _ _ _ _ _ _ HK r c t f pl H1) as [ri [G1 G2]]; [discriminate|]. rewrite Etm in G1.
    unfold held in Hh. assert (Ht : existsb (fun x => match ri_stat x with SHeld c' => Nat.eqb c' c | _ => false end) (m_reqs mF) = true).
    { apply existsb_exists. exists ri. split; [eapply nth_error_In; exact G1|rewrite G2; apply Nat.eqb_refl]. }
    congruence.
Qed.
End Final.

(* ---------------------------------------------------------------- counting *)
Lemma in_combine_seq {A} (l : list A) : forall k c x, In (c, x) (combine (seq k (List.length l)) l) -> k <= c /\ nth_error l (c - k) = Some x.
Proof.
  induction l as [|a l IH]; intros k c x H; cbn [List.length seq combine] in H; [destruct H|].
  destruct H as [E|H]; [inversion E; subst; rewrite Nat.sub_diag; auto|].
  destruct (IH (S k) c x H) as [H1 H2]. split; [lia|]. replace (c - k) with (S (c - S k)) by lia. exact H2.
Qed.

Lemma map_fst_combine_seq {A} (l : list A) : forall k, map fst (combine (seq k (List.length l)) l) = seq k (List.length l).
Proof. induction l as [|a l IH]; intros k; cbn; [reflexivity|]. rewrite IH. reflexivity. Qed.

Lemma retained_for_spec m k c :
  In c (retained_for m k) -> exists ci, nth_error (m_conns m) c = Some ci /\ retained m c ci = true /\ same_key (conn_key m c) k = true.
Proof.
  unfold retained_for. intros H. apply in_map_iff in H. destruct H as [[c' ci] [E H]]. cbn in E. subst c'.
  apply filter_In in H. destruct H as [H1 H2]. cbn [fst snd] in H2. apply andb_true_iff in H2. destruct H2 as [H2 H3].
  apply in_combine_seq in H1. destruct H1 as [_ H1]. rewrite Nat.sub_0_r in H1. eauto.
Qed.

Lemma retained_for_NoDup m k : NoDup (retained_for m k).
Proof. unfold retained_for. apply NoDup_map_filter. rewrite map_fst_combine_seq. apply seq_NoDup. Qed.

Theorem mon_C15_drained_holds : forall cfg body u p,
  let ops := body ++ drain_ops (count_issues body) u p in
  mon_C15_drained cfg (final_mst cfg Spec.m0 ops (trace cfg ops)) = true.
Proof.
  intros cfg body u p ops. set (sF := run cfg ops). set (mF := final_mst cfg Spec.m0 ops (trace cfg ops)).
  unfold mon_C15_drained. apply forallb_forall. intros c0 _. apply Nat.leb_le. set (k := conn_key mF c0).
  destruct (Good_final cfg ops) as [E HG]. fold sF mF in HG.
  pose proof (Good_Inv_origin E mF sF HG) as HO. pose proof (KND_run cfg ops) as HK. fold sF in HK.
  pose proof (IB_run cfg ops) as HB. fold sF in HB.
  (* every retained connection of this origin sits in the idle list of the origin's token *)
  assert (Hidle : forall c, In c (retained_for mF k) -> exists i pt, nth_error (toks sF) i = Some pt /\ In c (map fst (p_idle pt))
            /\ same_key (tkey sF (S i)) k = true).
  { intros c Hc. destruct (retained_for_spec mF k c Hc) as [ci [H1 [H2 H3]]].
    destruct (retained_in_idle cfg body u p c ci H1 H2) as [i [pt [a [H4 H5]]]]. exists i, pt. split; [exact H4|]. split.
    - change c with (fst (c, a)). apply in_map. exact H5.
    - pose proof (io_idle _ HO i pt c a H4 H5) as H6. rewrite <- (conn_key_model E mF sF c HG) in H6. fold mF in H6.
      eapply same_key_trans; [apply same_key_sym; exact H6|exact H3]. }
  destruct (retained_for mF k) as [|c1 l1] eqn:El; [cbn; lia|].
  destruct (Hidle c1 (or_introl eq_refl)) as [i1 [pt1 [T1 [_ S1]]]].
  assert (Hsub : incl (c1 :: l1) (map fst (p_idle pt1))).
  { intros c Hc. destruct (Hidle c Hc) as [i [pt [T [Ii Si]]]].
    assert (i = i1).
    { assert (Hs : same_key (tkey sF (S i)) (tkey sF (S i1)) = true) by (eapply same_key_trans; [exact Si|apply same_key_sym; exact S1]).
      unfold tkey in Hs. destruct (nth_error (keys sF) i) as [ki|] eqn:Ei; [|discriminate]. destruct (nth_error (keys sF) i1) as [ki1|] eqn:Ei1; [|destruct ki; discriminate].
      cbn in Hs. exact (HK i i1 ki ki1 Ei Ei1 Hs). }
    subst i. rewrite T1 in T. inversion T; subst pt. exact Ii. }
  assert (Hnd : NoDup (c1 :: l1)) by (rewrite <- El; apply retained_for_NoDup).
  pose proof (NoDup_incl_length Hnd Hsub) as Hlen. rewrite map_length in Hlen.
  assert (Hidl : List.length (p_idle pt1) <= g_max_idle cfg).
  { unfold IB, IBl in HB. rewrite Forall_forall in HB. apply HB. eapply nth_error_In. exact T1. }
  unfold retain_bound. destruct (g_pool cfg) eqn:Hp; [lia|].
  exfalso. pose proof (nopool_run cfg ops Hp) as Ht. fold sF in Ht. rewrite Ht in T1. destruct i1; discriminate.
Qed.

(* both clauses of the C15 monitor on a drained history *)
Theorem mon_C15_all_holds : forall cfg body u p,
  let ops := body ++ drain_ops (count_issues body) u p in
  mon_C15_all cfg ops true (trace cfg ops) = true.
Proof.
  intros cfg body u p ops. unfold mon_C15_all. rewrite (mon_C15_holds cfg ops). cbn [andb]. apply mon_C15_drained_holds.
Qed.

Print Assumptions mon_C15_drained_holds.
